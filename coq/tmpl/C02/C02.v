(* Property C02 -- theorems only. Each is closed by `exact` of a lemma of RG.Filters.Predicates or of Inst_C02.v
   (obligations over the tables / closure conditions / leaf functions REGENERATED from /repo and go/types on this run).

   Reading guide. A predicate closure answers [pred_eval fact nil_fact node_fact ci c] for a capture c, where [fact] is
   the documented fact about one captured expression as go/types states it (a Section-style parameter: the oracle), ci
   the regenerated summary of the constructor the predicate's DSL path is wired to. *)
From Coq Require Import List ZArith Bool String Lia.
From RG.Base Require Import Outcome.
From RG.Filters Require Import ExprFacts FilterIR FilterAlgebra Predicates FilterEval FileFacts ValueSources LoaderState.
From RGW Require Import Gen_FilterTables Gen_FilterPreds Inst_C02.
Import ListNotations.
Local Open Scope string_scope.

(* ---------------------------------------------------------------- verdict <-> fact *)
Theorem C02_eval_iff_fact : forall (E : Type) (fact : E -> bool) nil_fact node_fact ci e,
  pred_eval E fact nil_fact node_fact ci (CapExpr e) = true <-> fact e = true.
Proof. exact eval_iff_fact_single. Qed.
Print Assumptions C02_eval_iff_fact.

Theorem C02_eval_iff_fact_every_element : forall (E : Type) (fact : E -> bool) nil_fact node_fact ci l,
  ci_list ci = true ->
  (pred_eval E fact nil_fact node_fact ci (CapList l) = true <-> Forall (fun e => fact e = true) l).
Proof. exact eval_iff_fact_list. Qed.
Print Assumptions C02_eval_iff_fact_every_element.

Theorem C02_eval_iff_fact_partial : forall (E : Type) (fact : E -> bool) nil_fact node_fact ci c,
  match c with CapExpr _ => True | CapList _ => ci_list ci = true | _ => False end ->
  (pred_eval E fact nil_fact node_fact ci c = true <-> fact_holds E fact c).
Proof. exact eval_iff_fact_partial. Qed.
Print Assumptions C02_eval_iff_fact_partial.

(* constructors without a list branch ignore the elements of a `$*xs` capture: the full statement is refuted for them *)
Theorem C02_eval_iff_fact_list_refuted : forall (E : Type) (fact : E -> bool) node_fact ci,
  ci_list ci = false ->
  ci_operand ci = OpSubExpr \/ ci_operand ci = OpSubExprTyped \/ ci_operand ci = OpSubNodeTyped ->
  exists l, fact_holds E fact (CapList l) /\ pred_eval E fact false node_fact ci (CapList l) = false.
Proof. exact (fun E fact node_fact ci Hl Hop => eval_iff_fact_list_refuted E fact false node_fact ci Hl Hop eq_refl). Qed.
Print Assumptions C02_eval_iff_fact_list_refuted.

(* ---------------------------------------------------------------- the whole filter: eval_filter over the regenerated dispatch *)
Definition eval_filter_gen (E : Type) := eval_filter E gen_load_ctor gen_ctors gen_combinators.

Theorem C02_eval_filter_iff_fact : forall (E : Type) (F : facts E) env op x args ctor rest ci e,
  assoc op gen_load_ctor = Some (ctor :: rest) -> assoc ctor gen_ctors = Some ci -> ci_operand ci <> OpNone ->
  env x = CapExpr e ->
  eval_filter_gen E F env (LAtom op (VStr x) args) = Ok (f_expr E F op args e).
Proof. exact (fun E => eval_filter_iff_fact E gen_load_ctor gen_ctors gen_combinators). Qed.
Print Assumptions C02_eval_filter_iff_fact.

Theorem C02_eval_filter_iff_fact_every_element : forall (E : Type) (F : facts E) env op x args ctor rest ci l,
  assoc op gen_load_ctor = Some (ctor :: rest) -> assoc ctor gen_ctors = Some ci -> ci_operand ci <> OpNone ->
  ci_list ci = true -> env x = CapList l ->
  exists b, eval_filter_gen E F env (LAtom op (VStr x) args) = Ok b /\
            (b = true <-> Forall (fun e => f_expr E F op args e = true) l).
Proof. exact (fun E => eval_filter_iff_fact_list E gen_load_ctor gen_ctors gen_combinators). Qed.
Print Assumptions C02_eval_filter_iff_fact_every_element.

(* which documented predicates lift over `$*xs` today (the others are the known finding C02-no-list-support) *)
Theorem C02_lifted_predicates :
  map fst (filter (fun e => match snd e with WPred _ _ _ true => true | _ => false end) doc_wiring) =
  ["Addressable"; "Comparable"; "Const"; "ConstSlice"; "Pure"; "Type.AssignableTo"; "Type.ConvertibleTo"; "Type.Implements";
   "Type.Is"; "Type.Underlying.Is"].
Proof. vm_compute. reflexivity. Qed.

(* ---------------------------------------------------------------- wiring *)
Theorem C02_wiring_ok : wiring_okb gen_tables gen_load_ctor gen_ctors gen_dsl_paths = true.
Proof. exact wiring_ok. Qed.
Print Assumptions C02_wiring_ok.

(* File().Imports(p): the file's import set is the set of the VALUES of its import path literals (interpreted or raw, with or
   without escapes; whatever name, `.` or `_` stands before them; in whatever declaration), so the predicate accepts exactly
   when some import spec unquotes to p -- for every list of specs and every path *)
Theorem C02_file_imports_iff : forall (unquote : string -> option string) specs p,
  file_imports unquote specs p = true <-> exists s, In s specs /\ unquote s = Some p.
Proof. exact file_imports_iff. Qed.
Print Assumptions C02_file_imports_iff.

Theorem C02_file_imports_grouping_irrelevant : forall (unquote : string -> option string) a b p,
  file_imports unquote (a ++ b) p = file_imports unquote a p || file_imports unquote b p.
Proof. exact file_imports_app. Qed.
Print Assumptions C02_file_imports_grouping_irrelevant.

Theorem C02_file_facts_as_audited :
  file_facts_okb gen_file_facts = true /\
  match assoc "makeFileImportsFilter" gen_ctors with Some ci => String.eqb (ci_cond ci) doc_imports_closure | None => false end = true.
Proof. exact (conj file_facts_ok imports_closure_ok). Qed.
Print Assumptions C02_file_facts_as_audited.

Theorem C02_underlying_flag_ok : underlying_okb = true.
Proof. exact underlying_ok. Qed.
Print Assumptions C02_underlying_flag_ok.

Theorem C02_operand_selectors_ok : selectors_okb gen_subexpr_cases gen_typeof_cases gen_typeof_tail = true.
Proof. exact selectors_ok. Qed.
Print Assumptions C02_operand_selectors_ok.

Theorem C02_object_is_table_ok : object_is_okb gen_object_is gen_object_is_accepted = true.
Proof. exact object_is_ok. Qed.
Print Assumptions C02_object_is_table_ok.

Theorem C02_node_is_table_ok : node_is_okb gen_node_is = true.
Proof. exact node_is_ok. Qed.
Print Assumptions C02_node_is_table_ok.

(* ---------------------------------------------------------------- Pure, ConstSlice, Object.*, SinkType.Is: the helpers *)
Theorem C02_helpers_have_the_documented_cases :
  helpers_okb gen_pure_cases gen_typeexpr_cases gen_identof_cases gen_constslice_cases gen_sinkroot_cases gen_sinktype_cases
              gen_purelist_body gen_containing_func_body gen_sinktype_closure = true.
Proof. exact helpers_ok. Qed.
Print Assumptions C02_helpers_have_the_documented_cases.

(* Pure never accepts an expression whose evaluation calls a function or receives from a channel; inside the whitelist of
   node kinds it knows, it accepts exactly the expressions that do neither *)
Theorem C02_pure_sound : forall e, is_pure e = true -> effect_free e.
Proof. exact is_pure_sound. Qed.
Print Assumptions C02_pure_sound.

Theorem C02_pure_iff_on_whitelist : forall e, whitelisted e -> (is_pure e = true <-> effect_free e).
Proof. exact is_pure_iff_on_whitelist. Qed.
Print Assumptions C02_pure_iff_on_whitelist.

Theorem C02_const_slice_iff : forall e, is_constant_slice e = true <-> const_slice_form e.
Proof. exact is_constant_slice_iff. Qed.
Print Assumptions C02_const_slice_iff.

(* Object.Is / IsGlobal look at the identifier the expression is (parentheses stripped; for a selector: the selected name,
   never its operand), and reject everything else *)
Theorem C02_ident_of_spec : forall e id,
  ident_of e = Some id <->
  (exists a n, strip_parens e = GIdent a n /\ id = (a, n)) \/
  (exists a x sa n, strip_parens e = GSelector a x (GIdent sa n) /\ id = (sa, n)).
Proof. exact ident_of_spec. Qed.
Print Assumptions C02_ident_of_spec.

Theorem C02_object_is_iff : forall kind e, kind <> "" ->
  (object_is kind e = true <-> exists a n, ident_of e = Some (a, n) /\ a_obj a = kind).
Proof. exact object_is_iff. Qed.
Print Assumptions C02_object_is_iff.

Theorem C02_no_ident_rejects : forall e, ident_of e = None -> (forall k, object_is k e = false) /\ object_is_global e = false.
Proof. exact no_ident_rejects. Qed.
Print Assumptions C02_no_ident_rejects.

(* SinkType: the sink of a call argument is the type of the parameter that receives it *)
Theorem C02_sink_of_call_argument : forall ps variadic last_elem ellipsis i,
  (variadic = false -> i < List.length ps) -> (variadic = true -> ps <> []) ->
  (variadic = true -> ellipsis = true -> i < List.length ps) ->
  find_sink (PCall (CSignature ps variadic last_elem) (Some i) ellipsis) = receiving_param ps variadic last_elem ellipsis i.
Proof. exact sink_of_call_argument. Qed.
Print Assumptions C02_sink_of_call_argument.

Theorem C02_sink_of_assignment : forall lhs i, i < List.length lhs -> find_sink (PAssign true true (Some i) lhs) = nth i lhs no_sink.
Proof. exact sink_of_assignment. Qed.
Print Assumptions C02_sink_of_assignment.

Theorem C02_sink_of_return : forall rs i, find_sink (PReturn (Some i) (Some rs)) = nth i rs no_sink.
Proof. exact sink_of_return. Qed.
Print Assumptions C02_sink_of_return.

(* ... per RESULT of the innermost function around the statement, however the result list groups its names into fields *)
Theorem C02_sink_of_return_operand : forall pre lit fpre k t fpost post i,
  (forall n, In n pre -> n = NOtherNode) ->
  List.length (declared_results fpre) <= i < List.length (declared_results fpre) + Nat.max 1 k ->
  find_sink (return_parent (Some i) (pre ++ NFunc lit (fpre ++ (k, t) :: fpost) :: post)%list) = t.
Proof. exact sink_of_return_operand. Qed.
Print Assumptions C02_sink_of_return_operand.

Theorem C02_sink_of_return_beyond : forall fs i, List.length (declared_results fs) <= i ->
  find_sink (PReturn (Some i) (Some (declared_results fs))) = no_sink.
Proof. exact sink_of_return_beyond. Qed.
Print Assumptions C02_sink_of_return_beyond.

(* numbering the operands by field of the result list is the same function only when no field declares two names *)
Theorem C02_return_by_field_agrees_ungrouped : forall fs, (forall f, In f fs -> fst f <= 1) -> map snd fs = declared_results fs.
Proof. exact by_field_agrees_ungrouped. Qed.
Print Assumptions C02_return_by_field_agrees_ungrouped.

Theorem C02_return_by_field_refuted : forall k t u post, 2 <= k -> t <> u ->
  exists i, i < List.length (declared_results ((k, t) :: (1, u) :: post))
    /\ by_field ((k, t) :: (1, u) :: post) i <> find_sink (PReturn (Some i) (Some (declared_results ((k, t) :: (1, u) :: post)))).
Proof. exact by_field_refuted. Qed.
Print Assumptions C02_return_by_field_refuted.

(* `func f() (first, second error, n int) { return mk(1), mk(2), 0 }`: mk(2) sinks into error; inside a literal nested in f, the literal decides *)
Example c02_demo_grouped_results :
  find_sink (return_parent (Some 1%nat) [NOtherNode; NFunc false [(2%nat, "error"); (1%nat, "int")]; NOtherNode]) = "error" /\
  find_sink (return_parent (Some 2%nat) [NOtherNode; NFunc false [(2%nat, "error"); (1%nat, "int")]; NOtherNode]) = "int" /\
  find_sink (return_parent (Some 1%nat) [NOtherNode; NFunc true [(1%nat, "string"); (2%nat, "int")]; NOtherNode; NFunc false [(2%nat, "error"); (1%nat, "int")]]) = "int" /\
  find_sink (return_parent (Some 0%nat) [NOtherNode; NOtherNode]) = no_sink.
Proof. repeat split. Qed.

(* ---------------------------------------------------------------- a predicate answers from the match alone *)
(* every write of the per-match code to storage that outlives the call is one of the audited three (none of which carries an
   answer over): no table of facts remembered per type string, per text or per position *)
Theorem C02_predicates_keep_no_state_between_matches : forall fn x, In (fn, x) gen_run_state -> In (fn, x) doc_run_state.
Proof. exact (run_state_spec gen_run_state run_state_ok). Qed.
Print Assumptions C02_predicates_keep_no_state_between_matches.

(* ---------------------------------------------------------------- Text: the source bytes of the capture's extent *)
Theorem C02_text_source_as_audited : value_sources_okb gen_value_sources = true.
Proof. exact text_source_ok. Qed.
Print Assumptions C02_text_source_as_audited.

(* on a file whose bytes can be read back, a capture that starts inside the file and ends at or before its END -- the end of an
   extent is exclusive: a capture whose last byte is the file's last byte has tn_to = the file's length -- has its source bytes
   as Text *)
Theorem C02_text_is_source_up_to_eof : forall file n,
  (tn_from n < String.length file)%nat -> (tn_from n <= tn_to n)%nat -> (tn_to n <= String.length file)%nat ->
  node_text file n = substring (tn_from n) (extent n) file.
Proof. exact node_text_is_source_up_to_eof. Qed.
Print Assumptions C02_text_is_source_up_to_eof.

Theorem C02_text_end_test_exclusive_refuted :
  exists file n c, in_file file n = true /\ String.eqb (node_text file n) c = true
    /\ String.eqb (if in_file_both_ends_exclusive file n then substring (tn_from n) (extent n) file else tn_printed n) c = false.
Proof. exact both_ends_exclusive_refuted. Qed.
Print Assumptions C02_text_end_test_exclusive_refuted.

Theorem C02_text_end_test_exclusive_differs_exactly_at_eof : forall file n, in_file file n = true ->
  (in_file_both_ends_exclusive file n = false <-> tn_to n = String.length file).
Proof. exact both_ends_exclusive_differs_exactly_at_eof. Qed.
Print Assumptions C02_text_end_test_exclusive_differs_exactly_at_eof.

Theorem C02_sink_of_struct_field : forall fs name t key_side, assoc name fs = Some t ->
  find_sink (PComposite (LStruct fs) (Some (key_side, name)) None) = t.
Proof. exact sink_of_struct_field. Qed.
Print Assumptions C02_sink_of_struct_field.

Theorem C02_sink_of_positional_field : forall fs i, find_sink (PComposite (LStruct fs) None (Some i)) = nth i (map snd fs) no_sink.
Proof. exact sink_of_positional_field. Qed.
Print Assumptions C02_sink_of_positional_field.

Theorem C02_sink_of_map_literal : forall k v name pos,
  find_sink (PComposite (LMap k v) (Some (true, name)) pos) = k /\ find_sink (PComposite (LMap k v) (Some (false, name)) pos) = v.
Proof. exact sink_of_map_literal. Qed.
Print Assumptions C02_sink_of_map_literal.

Theorem C02_no_sink_cases :
  (forall b p l, find_sink (PAssign false b p l) = no_sink) /\
  (forall a p l, find_sink (PAssign a false p l) = no_sink) /\
  find_sink POtherParent = no_sink /\ find_sink (PIndexOperand None) = no_sink.
Proof. exact no_sink_cases. Qed.
Print Assumptions C02_no_sink_cases.

(* ---------------------------------------------------------------- OfKind *)
Theorem C02_ofkind_table_correct :
  forallb (fun name =>
    forallb (fun e => match e with (kname, k, info) =>
               opt_bool_eqb (ofkind_gen name info k) (doc_ofkind info_bit name info kname) end) gen_basic_kinds)
    doc_kind_names = true.
Proof. exact ofkind_table_correct. Qed.
Print Assumptions C02_ofkind_table_correct.

Theorem C02_ofkind_names_exact :
  forallb (fun n => mem n doc_kind_names) (map fst gen_ofkind_special ++ map fst gen_string_to_basic_kind) = true
  /\ nodupb (map fst gen_ofkind_special ++ map fst gen_string_to_basic_kind) = true.
Proof. exact ofkind_names_exact. Qed.
Print Assumptions C02_ofkind_names_exact.

Theorem C02_ofkind_ranges_over_all_basic_kinds :
  List.length gen_basic_kinds = 26%nat /\ NoDup (map (fun e => snd (fst e)) gen_basic_kinds).
Proof. exact basic_kinds_complete. Qed.
Print Assumptions C02_ofkind_ranges_over_all_basic_kinds.

(* ---------------------------------------------------------------- GoVersion *)
Theorem C02_version_compare_spec : forall xM xm yM ym op b,
  cmp_spec op (lex_compare xM xm yM ym) = Some b -> gen_versionCompare xM xm op yM ym = Ok b.
Proof. exact version_compare_spec. Qed.
Print Assumptions C02_version_compare_spec.

Theorem C02_goversion_unset_accepts : forall ctxm op vM vm, goversion_eval 0 ctxm op vM vm = Ok true.
Proof. exact goversion_any. Qed.
Print Assumptions C02_goversion_unset_accepts.

Theorem C02_goversion_set_is_lexicographic : forall ctxM ctxm op vM vm b, ctxM <> 0%Z ->
  cmp_spec op (lex_compare ctxM ctxm vM vm) = Some b -> goversion_eval ctxM ctxm op vM vm = Ok b.
Proof. exact goversion_set. Qed.
Print Assumptions C02_goversion_set_is_lexicographic.

(* ---------------------------------------------------------------- Type.HasPointers *)
Theorem C02_has_pointers_conservative : forall t,
  contains_pointer t -> has_pointers_gen t = true.
Proof. exact (has_pointers_conservative gen_hasptr_basic_true gen_hasptr_cases (proj1 hasptr_tables_ok)). Qed.
Print Assumptions C02_has_pointers_conservative.

Theorem C02_has_pointers_exact_on_simple_types : forall t,
  pointer_free t -> has_pointers_gen t = false.
Proof. exact (has_pointers_exact_simple gen_hasptr_basic_true gen_hasptr_cases (proj2 hasptr_tables_ok)). Qed.
Print Assumptions C02_has_pointers_exact_on_simple_types.

(* ---------------------------------------------------------------- non-vacuity *)
Example c02_assignable_lifts :
  match ctor_of_path "Type.AssignableTo" with
  | Some ci => pred_eval nat (Nat.eqb 3) false (fun _ => false) ci (CapList [3; 3]%nat) = true
               /\ pred_eval nat (Nat.eqb 3) false (fun _ => false) ci (CapList [3; 4]%nat) = false
               /\ pred_eval nat (Nat.eqb 3) false (fun _ => false) ci (CapExprStmt 3%nat) = true
  | None => False
  end.
Proof. vm_compute. repeat split. Qed.

(* m["x"].Type.AssignableTo("int") && !m["ys"].Const through the regenerated dispatch, on concrete facts *)
Example c02_eval_filter_demo :
  let F := {| f_expr := fun op _ (e : nat) => if String.eqb op "FilterVarConstOp" then Nat.even e else Nat.leb e 5;
              f_nil := fun _ _ => false; f_node := fun _ _ _ => false; f_ctx := fun _ _ _ => Panic PExplicit;
              f_int := fun _ _ _ => Panic PExplicit; f_str := fun _ _ => Panic PExplicit |} in
  let env := fun v => if String.eqb v "x" then CapExpr 3%nat else CapList [2; 4; 7]%nat in
  option_map (eval_filter_gen nat F env)
    (compile gen_tables (DBinary "LAND" (DCall "Type.AssignableTo" "x" [DStr "int"]) (DUnary "NOT" (DSel "Const" "ys")))) = Some (Ok true).
Proof. vm_compute. reflexivity. Qed.

Example c02_has_pointers_does_not_lift :
  match ctor_of_path "Type.HasPointers" with
  | Some ci => pred_eval nat (fun _ => true) false (fun _ => false) ci (CapList [1; 2]%nat) = false
  | None => False
  end.
Proof. vm_compute. reflexivity. Qed.

Example c02_ofkind_samples :
  ofkind_gen "untyped" 66 20 = Some true /\ ofkind_gen "untyped" 6 7 = Some false /\
  ofkind_gen "unsigned" 6 7 = Some true /\ ofkind_gen "int" 2 6 = Some true /\ ofkind_gen "int" 6 7 = Some false /\
  ofkind_gen "uint" 6 12 = Some false /\ ofkind_gen "bogus" 2 2 = None.
Proof. vm_compute. repeat split. Qed.

Example c02_version_samples :
  gen_versionCompare 1 18 "LSS" 1 9 = Ok false /\ gen_versionCompare 1 9 "LSS" 1 18 = Ok true /\
  gen_versionCompare 2 0 "GEQ" 1 21 = Ok true /\ gen_versionCompare 1 18 "BOGUS" 1 18 = Panic PExplicit.
Proof. vm_compute. repeat split. Qed.

Example c02_has_pointers_samples :
  has_pointers_gen (SStruct [SBasic "Int8"; SArray (SBasic "Uint16"); SNamed (SStruct [SBasic "Float32"])]) = false /\
  has_pointers_gen (SStruct [SBasic "Int8"; SNamed (SBasic "String")]) = true /\ has_pointers_gen (SArray SOther) = true.
Proof. vm_compute. repeat split. Qed.

(* gi + int64(f1()): the conversion is no call, f1() is; []byte("s") and []int{1, ci} are constant slices; (strings.ToUpper)
   is the function ToUpper, not the package; take2("a", $$) sinks into the second parameter *)
Definition a0 : ann := {| a_const := false; a_byteslice := false; a_obj := ""; a_global := false |}.
Definition a_typ : ann := {| a_const := false; a_byteslice := false; a_obj := "TypeName"; a_global := false |}.
Definition a_fn : ann := {| a_const := false; a_byteslice := false; a_obj := "Func"; a_global := true |}.
Definition a_pkg : ann := {| a_const := false; a_byteslice := false; a_obj := "PkgName"; a_global := false |}.
Definition a_c : ann := {| a_const := true; a_byteslice := false; a_obj := ""; a_global := false |}.
Definition a_bs : ann := {| a_const := false; a_byteslice := true; a_obj := ""; a_global := false |}.

Example c02_helper_samples :
  is_pure (GBinary a0 (GIdent a0 "gi") (GCall a0 (GIdent a_typ "int64") [GIdent a0 "gi"])) = true /\
  is_pure (GBinary a0 (GIdent a0 "gi") (GCall a0 (GIdent a_typ "int64") [GCall a0 (GIdent a_fn "f1") []])) = false /\
  is_pure (GUnary a0 "ARROW" (GIdent a0 "gch")) = false /\
  is_constant_slice (GCall a0 (GTypeLit a_bs "ArrayType") [GBasicLit a_c "STRING"]) = true /\
  is_constant_slice (GComposite a0 [GBasicLit a_c "INT"; GIdent a_c "ci"]) = true /\
  is_constant_slice (GComposite a0 [GBasicLit a_c "INT"; GIdent a0 "gi"]) = false /\
  object_is "Func" (GParen a0 (GSelector a0 (GIdent a_pkg "strings") (GIdent a_fn "ToUpper"))) = true /\
  object_is "PkgName" (GSelector a0 (GIdent a_pkg "strings") (GIdent a_fn "ToUpper")) = false /\
  object_is "Var" (GBinary a0 (GIdent a0 "a") (GIdent a0 "b")) = false /\
  find_sink (PCall (CSignature ["string"; "int"] false "") (Some 1%nat) false) = "int" /\
  find_sink (PCall (CSignature ["string"; "[]int"] true "int") (Some 3%nat) false) = "int" /\
  find_sink (PCall (CSignature ["string"; "[]int"] true "int") (Some 1%nat) true) = "[]int".
Proof. vm_compute. repeat split. Qed.

Example c02_raw_import_path :
  file_imports demo_unquote ["`fmt`"; "`io/fs`"] "fmt" = true /\ file_imports demo_unquote ["`fmt`"; "`io/fs`"] "`fmt`" = false /\
  file_imports demo_unquote ["`io/fs`"] "io" = false.
Proof. vm_compute. repeat split. Qed.
