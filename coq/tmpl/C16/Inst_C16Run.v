(* C16, "later files are unaffected": what a run starts from, REGENERATED from newRulesRunner / RunnerState.Reset on this run. *)
From Coq Require Import List NArith Bool Arith String.
From RG.Ast Require Import Tree Walker.
From RG.Engine Require Import RunState.
From RGW Require Import Gen_AstSchema Gen_Walker Gen_WalkTags Gen_WalkState Gen_RunnerState Inst_Walker.
Import ListNotations.
Local Open Scope string_scope.

(* the runner object of a new run gets a fresh filterParams literal that mentions neither the dead-code flag nor the
   current function (so both start at their zero value, whatever an earlier run -- completed or aborted inside a dead
   branch -- left in the re-used state), and nothing but the walker writes them *)
Definition c16_fresh_filter_params : bool :=
  negb (str_mem "deadcode" (map fst gen_fp_literal)) && negb (str_mem "currentFunc" (map fst gen_fp_literal)) &&
  negb (str_mem "filterParams" (map fst gen_rr_literal)) &&
  match gen_ctx_writes_outside_walker with [] => true | _ => false end.

Definition c16_policy : init_policy :=
  {| ip_fresh_filter_params := c16_fresh_filter_params;
     ip_reset_node_path := gen_state_reset_when_reused && gen_reset_truncates_node_path |}.

Lemma c16_policy_ok : policy_ok c16_policy = true.
Proof. vm_compute. reflexivity. Qed.

(* ---- code that runs BETWEEN the walker's writes of the flag: filters, Do() handlers, Report callbacks ----
   Seen from the walk, whatever such code does to the flag happens at the visit of a node: an extra action behind the
   AVisit of the node's case.  [with_effect a l] is the case body l with the action a inserted there. *)
Fixpoint with_effect (a : act) (l : list act) : list act :=
  match l with
  | [] => []
  | AVisit t :: r => AVisit t :: a :: r
  | x :: r => x :: with_effect a r
  end.

(* the facts, read from package ruleguard on this run, that make such effects impossible:
   - the only walk over the filter parameters of a run is the one rulesRunner.run starts (no filter or handler owns an
     astWalker or calls Walk on one; a nested walk that is left through a panic skips the walker's plain restores);
   - nobody recovers from a panic inside the package (a walk is never left early and then carried on with);
   - the filter parameters are never overwritten as a whole, and deadcode / currentFunc are written by astWalker.walk only *)
Definition c16_single_walk : bool :=
  strs_eqb gen_walker_entry_sites ["runner.go:rulesRunner.run:Walk"; "runner.go:rulesRunner.run:var"] &&
  match gen_recover_sites with [] => true | _ => false end &&
  match gen_params_whole_writes with [] => true | _ => false end &&
  match gen_ctx_writes_outside_walker with [] => true | _ => false end.
Lemma c16_single_walk_ok : c16_single_walk = true.
Proof. vm_compute. reflexivity. Qed.
