(* C16, "later files are unaffected": what a run starts from, REGENERATED from newRulesRunner / RunnerState.Reset on this run. *)
From Coq Require Import List NArith Bool Arith String.
From RG.Ast Require Import Tree Walker.
From RG.Engine Require Import RunState.
From RGW Require Import Gen_AstSchema Gen_Walker Gen_WalkTags Gen_WalkState Gen_RunnerState Inst_Walker.
Import ListNotations.
Local Open Scope string_scope.

(* the runner object of a new run gets a fresh filterParams literal that mentions neither the dead-code flag nor the
   current function (so both start at their zero value, whatever an earlier run -- completed or aborted inside a dead
   branch -- left in the re-used state), and nothing but the walker writes them *)
Definition c16_fresh_filter_params : bool :=
  negb (str_mem "deadcode" (map fst gen_fp_literal)) && negb (str_mem "currentFunc" (map fst gen_fp_literal)) &&
  negb (str_mem "filterParams" (map fst gen_rr_literal)) &&
  match gen_ctx_writes_outside_walker with [] => true | _ => false end.

Definition c16_policy : init_policy :=
  {| ip_fresh_filter_params := c16_fresh_filter_params;
     ip_reset_node_path := gen_state_reset_when_reused && gen_reset_truncates_node_path |}.

Lemma c16_policy_ok : policy_ok c16_policy = true.
Proof. vm_compute. reflexivity. Qed.
