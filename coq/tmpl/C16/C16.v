(* Property C16 -- theorems only; each is closed by `exact`/a two-line wrapper of lemmas proved in
   RG.Ast.* (generic) and Inst_Walker.v (about the walker REGENERATED from /repo on this run). *)
From Coq Require Import List NArith Bool Arith Lia String.
From RG.Ast Require Import Tree Walker WalkerProof WalkSpec WfCheck.
From RG.Engine Require Import RunState.
From RGW Require Import Gen_AstSchema Gen_Walker Gen_WalkTags Gen_WalkState Gen_RunnerState Inst_Walker Inst_C16Run.
Import ListNotations.

(* For every tree (every nesting of if / else-if chains, init statements, function literals, any depth) and every
   assignment of constant conditions: the walk of this run's walker visits exactly the tagged nodes and the
   dead-code flag in force at the visit of a node is [gen_dead_of] of the path that leads to it. *)
Theorem C16_dead_flag_is_spec :
  forall fuel n E, wf gen_spec n -> (height n < fuel)%nat ->
  exists evs, model_walk fuel n st0 E = ROk st0 (E ++ evs) /\
    forall e, In e evs <->
      exists steps x t, reach n steps x /\ gen_tag (kind x) = Some t /\
        e = {| e_id := nid x; e_tag := t; e_dead := gen_dead_of steps;
               e_func := gen_func_of steps None; e_path := path_of steps ++ [nid x] |}.
Proof.
  intros fuel n E Hwf Hh. eexists. split; [apply walker_correct; assumption|].
  intros e. unfold gen_spec. rewrite event_iff_reach. cbn [st0 w_dead w_func w_stack orb app]. reflexivity.
Qed.
Print Assumptions C16_dead_flag_is_spec.

(* ... and that is the property's wording: some enclosing `if` has a constant condition and the node lies in its
   Body with the constant false or in its Else with the constant true (Init and Cond are live). *)
Theorem C16_dead_iff_enclosing_constant_if :
  forall steps, gen_dead_of steps = true <->
    exists a f, In (a, f) steps /\ kind a = gen_k_IfStmt /\
      ((f = gen_f_Body /\ ncond a = Some false) \/ (f = gen_f_Else /\ ncond a = Some true)).
Proof. exact (dead_of_iff gen_k_IfStmt gen_f_Body gen_f_Else). Qed.
Print Assumptions C16_dead_iff_enclosing_constant_if.

(* code after such an `if`, sibling statements, other functions: whatever the flag is when a node is entered,
   it is the same when the node is left (likewise the current function and the node path) *)
Theorem C16_dead_flag_restored :
  forall fuel n st E, wf gen_spec n -> (height n < fuel)%nat -> exists E', model_walk fuel n st E = ROk st E'.
Proof. exact (walk_restores_state AF gen_frame gen_table gen_spec table_ok). Qed.
Print Assumptions C16_dead_flag_restored.

(* the per-run finite obligation the above rests on: the regenerated IfStmt case (and every other case)
   passes the abstract run in all six configurations *)
Theorem C16_walker_cases_ok : forall k, kind_ok AF gen_frame (gen_table k) (gen_spec k) = true.
Proof. exact table_ok. Qed.
Print Assumptions C16_walker_cases_ok.

(* Deadcode() accepts iff the flag is set; nothing but the walker writes the flag; every Deadcode() of every group is the closure
   its own case of newFilter builds (no way around the switch on the operation, no table of filters in the loader: the text of a
   filter -- `skip()` for a group-local func -- does not say what it computes) *)
Theorem C16_deadcode_filter_reads_flag :
  gen_deadcode_filter_accepts_iff_flag = true /\ gen_deadcode_op_wired = true /\ gen_ctx_writes_outside_walker = [] /\
  gen_newfilter_bypasses = [] /\ gen_loader_tables = [].
Proof. vm_compute. auto. Qed.
Print Assumptions C16_deadcode_filter_reads_flag.

(* later files: a run on a state that earlier runs used -- any files, any number, also runs that a panicking callback
   aborted in the middle of a dead branch -- starts outside dead code, and every run of every such history is the run on a
   fresh state (the walk itself is a function of the start context, C16_dead_flag_is_spec) *)
Theorem C16_run_starts_outside_dead_code :
  forall prior, w_dead (start_state c16_policy prior) = false /\ start_state c16_policy prior = RunState.st0.
Proof. intros prior. rewrite (start_state_ignores_prior c16_policy c16_policy_ok). split; reflexivity. Qed.
Print Assumptions C16_run_starts_outside_dead_code.

Theorem C16_later_files_unaffected :
  forall (input reports : Type) (run_from : wst -> input -> reports) (leftover : wst -> input -> carried) prior h,
  run_history c16_policy input reports run_from leftover prior h = map (run_from RunState.st0) h.
Proof. intros. rewrite (history_independent c16_policy input reports run_from leftover c16_policy_ok). reflexivity. Qed.
Print Assumptions C16_later_files_unaffected.

(* filters, Do() handlers and Report callbacks run between the walker's writes of the flag; the theorems above are about
   the walk, so nothing else may touch the flag or walk with the same parameters: one walk per run (started by
   rulesRunner.run), no recover() in the package (a walk that a panic leaves early -- the walker restores the flag with
   plain statements -- is never carried on with), no assignment to the parameters as a whole, no write to deadcode /
   currentFunc outside astWalker.walk.  All four are read from the sources of package ruleguard on this run. *)
Theorem C16_only_the_walk_of_the_run_touches_the_flag :
  strs_eqb gen_walker_entry_sites ["runner.go:rulesRunner.run:Walk"; "runner.go:rulesRunner.run:var"]%string = true /\
  gen_recover_sites = [] /\ gen_params_whole_writes = [] /\ gen_ctx_writes_outside_walker = [].
Proof. vm_compute. auto. Qed.
Print Assumptions C16_only_the_walk_of_the_run_touches_the_flag.

(* the constant-ness of a condition is go/types' record of it (RunContext.Types.Types[cond].Value), read by the walker AFTER the
   rules ran on the IfStmt and on the condition: package ruleguard never writes to a map of a types.Info (a filter that "remembers"
   a resolved type in Types[e] drops the constant value of e, and the branch stops being dead) *)
Theorem C16_conditions_stay_as_type_checked : gen_types_info_writes = [].
Proof. vm_compute. reflexivity. Qed.
Print Assumptions C16_conditions_stay_as_type_checked.

(* ---- non-vacuity: a well-formed tree with a constant `if`; all three regimes occur ----
   func f() { if C { a(9,10) } else { b(12,13) }; c(14,15) } *)
Definition dead_ids (c : option bool) : list N :=
  match model_walk 20 (demo_tree c) st0 [] with
  | ROk _ evs => map e_id (filter e_dead evs)
  | _ => [9999%N]
  end.
Example c16_demo_wf : forall c, wf gen_spec (demo_tree c).
Proof. exact demo_wf. Qed.
Example c16_const_false : dead_ids (Some false) = [8; 9; 10]%N.
Proof. vm_compute. reflexivity. Qed.
Example c16_const_true : dead_ids (Some true) = [11; 12; 13]%N.
Proof. vm_compute. reflexivity. Qed.
Example c16_non_const : dead_ids None = [].
Proof. vm_compute. reflexivity. Qed.
(* a walker that forgets to restore the flag after the else-branch fails the finite obligation *)
Example c16_mutant_rejected :
  kind_ok AF FrameDeferPop
    [AVisit 1; AWalk gen_f_Cond; ALetLocal BDead;
     AIf (BNot BLocal) [AIf BCondKnown [ASetDead (BAnd (BNot BLocal) (BNot BCondTrue)); AWalk gen_f_Body;
                                        ASetDead (BNot BDead); AWalk gen_f_Else; AReturn] []] [];
     AWalk gen_f_Body; AWalk gen_f_Else]
    (spec_of 0 gen_f_Body gen_f_Else 99 (fun _ => Some 1%N) (fun _ => [(gen_f_Cond, false); (gen_f_Body, false); (gen_f_Else, false)]) 0) = false.
Proof. vm_compute. reflexivity. Qed.
(* what a handler or a filter that touches the flag amounts to: an action behind the visit of the node's case.  A Do()
   handler that starts from "clean" parameters (flag cleared) at an `if`, a Contains() search that leaves the flag set at
   an expression statement: the case bodies REGENERATED on this run, with that action inserted, fail the finite
   obligation the theorems rest on *)
Example c16_effect_inside_a_visit_rejected :
  kind_ok AF gen_frame (with_effect (ASetDead BFalse) (gen_table gen_k_IfStmt)) (gen_spec gen_k_IfStmt) = false /\
  kind_ok AF gen_frame (with_effect (ASetDead BTrue) (gen_table (kidx "ExprStmt"))) (gen_spec (kidx "ExprStmt")) = false /\
  kind_ok AF gen_frame (with_effect (ALetLocal BDead) (gen_table gen_k_IfStmt)) (gen_spec gen_k_IfStmt) = true.
Proof. vm_compute. auto. Qed.
