(* Property C18 -- theorems only. *)
From Coq Require Import List String Bool ZArith.
From RG.Load Require Import Macro MacroEnv.
From RGW Require Import Gen_Macro Inst_Macro.
Import ListNotations.
Local Open Scope string_scope.

(* expand_is_inline (full statement: rejected or equal): for every helper body, every parameter list and all arguments,
   converting the expanded copy either fails -- Load returns an error -- or yields exactly what converting the manually
   inlined expression yields.  [consistent] is what go/types guarantees about the constants of the inlined expression. *)
Theorem C18_helper_rejected_or_inlined :
  forall fuel ps body, consistent path_ok (subst ps body) ->
  gen_convert fuel (expand ps body) = None \/ gen_convert fuel (expand ps body) = gen_convert fuel (subst ps body).
Proof. exact (expand_rejected_or_inline path_ok str_args). Qed.
Print Assumptions C18_helper_rejected_or_inlined.

Theorem C18_copy_rejected_or_equal :
  forall fuel e, consistent path_ok e -> gen_convert fuel (strip e) = None \/ gen_convert fuel (strip e) = gen_convert fuel e.
Proof. exact (strip_rejected_or_equal path_ok str_args). Qed.
Print Assumptions C18_copy_rejected_or_equal.

(* helpers in their scope: for every table of helpers (any number, calling each other), every matcher name and every filter
   expression, the conversion with helpers fails -- Load returns an error -- or there is the hand-inlined expression (every helper
   call replaced by the body with the arguments substituted, repeatedly) and the result is exactly the conversion of that.
   [env_ok] / [nc]: a call go/types folds to a constant is not a helper call (names: helper and parameter names);
   [consistent]: what go/types guarantees about the constants of the inlined expression. *)
Theorem C18_helpers_rejected_or_inlined :
  forall mname en names fuel e, env_ok en names -> nc names e ->
  gen_convertE mname en fuel e = None \/
  exists e', gen_inline mname en fuel e = Some e' /\ (consistent path_ok e' -> gen_convert fuel e' = gen_convertE mname en fuel e).
Proof. intros mname en names fuel e. exact (convertE_rejected_or_inlined path_ok str_args path_early mname en names fuel e). Qed.
Print Assumptions C18_helpers_rejected_or_inlined.

(* the same with the hypotheses decided by computation (this is what the correspondence run evaluates on the annotations go/types
   produced): if the boolean checks succeed, the conversion with helpers is rejected or IS the conversion of the inlined filter *)
Theorem C18_helpers_checked :
  forall mname en names fuel e, env_okb names en = true -> ncb names e = true ->
  gen_convertE mname en fuel e = None \/
  exists e', gen_inline mname en fuel e = Some e' /\ (consistentb path_ok e' = true -> gen_convert fuel e' = gen_convertE mname en fuel e).
Proof.
  intros mname en names fuel e He Hn.
  destruct (C18_helpers_rejected_or_inlined mname en names fuel e (env_okb_sound names en He) (ncb_sound names e Hn)) as [H|(e' & Hi & Hc)];
    [now left|right]. exists e'. split; [assumption|]. intros Hb. apply Hc. now apply consistentb_sound.
Qed.
Print Assumptions C18_helpers_checked.

(* without helpers in scope the conversion is the plain one *)
Theorem C18_no_helpers_plain : forall mname fuel e, gen_convertE mname [] fuel e = gen_convert fuel e.
Proof. exact (convertE_nil path_ok str_args path_early). Qed.
Print Assumptions C18_no_helpers_plain.

(* group_scope: with the reset where the regenerated convertRuleGroup has it, every group of a file converts as if it were alone
   in the file -- the helpers of the groups before it are out of scope, whatever they are called *)
Theorem C18_group_scope :
  forall fuel st gs, gen_conv_groups fuel gen_reset_per_group st gs = map (conv_group_alone path_ok str_args path_early fuel) gs.
Proof. intros fuel st gs. rewrite reset_per_group. exact (group_scope path_ok str_args path_early fuel st gs). Qed.
Print Assumptions C18_group_scope.

(* const_expr_transparent: outside helper bodies only the constant go/types computed matters, not its spelling *)
Theorem C18_const_expr_transparent :
  forall fuel e1 e2 c, is_const (annot e1) = Some c -> is_const (annot e2) = Some c -> gen_convert (S fuel) e1 = gen_convert (S fuel) e2.
Proof. exact (const_expr_transparent path_ok str_args). Qed.
Print Assumptions C18_const_expr_transparent.

Theorem C18_const_string_arg_transparent :
  forall e1 e2 s, (forall a k p, e1 <> ELit a k p) -> (forall a k p, e2 <> ELit a k p) ->
  annot e1 = Some (CStr s) -> annot e2 = Some (CStr s) -> strval e1 = strval e2.
Proof. exact const_string_arg_transparent. Qed.
Print Assumptions C18_const_string_arg_transparent.

(* spelling_is_not_meaning: every read of the source text of a filter (FilterExpr.Src) in the engine only labels the filter that
   is being built; the text -- in which equal names mean different things in different groups -- decides nothing *)
Theorem C18_spelling_is_not_meaning :
  forall r, In r gen_filter_src_reads ->
  exists fn, r = ("ir_loader.go: " ++ fn ++ ": result := matchFilter{src: filter.Src}")%string.
Proof.
  intros r H. rewrite filter_src_reads in H. cbn [In] in H.
  destruct H as [H|[H|[H|[]]]]; subst r; [exists "newFilter"|exists "newBinaryExprFilter"|exists "newBinaryExprFilter"]; reflexivity.
Qed.
Print Assumptions C18_spelling_is_not_meaning.

(* non-vacuity *)
Definition ex_mx := EIndex None (EIdent None "m") (ELit (Some (CStr "x")) LString (Some (CStr "x"))).
(* f := func(v dsl.Var, s string) bool { return v.Type.Is(s) && v.Type.Size == 8 } ; f(m["x"], "int") *)
Definition ex_body := EBinary None "&&"
  (ECall None (ESel None (ESel None (EIdent None "v") "Type") "Is") [EIdent None "s"])
  (EBinary None "==" (ESel None (ESel None (EIdent None "v") "Type") "Size") (ELit (Some (CInt 8)) LInt (Some (CInt 8)))).
Definition ex_args := [("v", ex_mx); ("s", ELit (Some (CStr "int")) LString (Some (CStr "int")))].
Example ex_equal : gen_convert 10 (expand ex_args ex_body) =
  Some (FBin "&&" (FOp "Type.Is" "x" [] [FStr "int"]) (FBin "==" (FOp "Type.Size" "x" [] []) (FInt 8))) /\
  gen_convert 10 (expand ex_args ex_body) = gen_convert 10 (subst ex_args ex_body) /\ consistent path_ok (subst ex_args ex_body).
Proof.
  split; [vm_compute; reflexivity|]. split; [vm_compute; reflexivity|].
  cbn. repeat split; try reflexivity; try (now right); try (intros H; exfalso; apply H; reflexivity); try (intros c H; discriminate).
Qed.
(* the same helper with 4+4 instead of 8: the copy has lost the folded constant, Load fails *)
Definition ex_body2 := EBinary None "=="
  (ESel None (ESel None (EIdent None "v") "Type") "Size")
  (EBinary (Some (CInt 8)) "+" (ELit (Some (CInt 4)) LInt (Some (CInt 4))) (ELit (Some (CInt 4)) LInt (Some (CInt 4)))).
Example ex_rejected : gen_convert 10 (expand ex_args ex_body2) = None /\
  gen_convert 10 (subst ex_args ex_body2) = Some (FBin "==" (FOp "Type.Size" "x" [] []) (FInt 8)).
Proof. vm_compute. split; reflexivity. Qed.

(* two groups define a helper of the same name with different bodies: each group gets its own; a nested helper *)
Definition ex_f1 := mkMacro "f" ["v"] (ESel None (EIdent None "v") "Pure").
Definition ex_f2 := mkMacro "f" ["v"; "n"] (EBinary None "==" (ESel None (ESel None (EIdent None "v") "Type") "Size") (EIdent None "n")).
Definition ex_g2 := mkMacro "g" ["w"] (EBinary None "||" (ECall None (EIdent None "f") [EIdent None "w"; ELit (Some (CInt 8)) LInt (Some (CInt 8))])
                                                  (ESel None (EIdent None "w") "Const")).
Definition ex_file := [mkGroup "m" [GDef ex_f1; GRule (ECall None (EIdent None "f") [ex_mx])];
                       mkGroup "m" [GDef ex_f2; GDef ex_g2; GRule (ECall None (EIdent None "g") [ex_mx])]].
Example ex_groups : gen_conv_groups 20 gen_reset_per_group [] ex_file =
  [[Some (FOp "Pure" "x" [] [])];
   [Some (FBin "||" (FBin "==" (FOp "Type.Size" "x" [] []) (FInt 8)) (FOp "Const" "x" [] []))]] /\ file_verdict ex_file = 1.
Proof. vm_compute. repeat split; reflexivity. Qed.
Example ex_env_ok : env_ok [ex_f2; ex_g2] ["f"; "g"; "v"; "n"; "w"].
Proof.
  unfold env_ok. repeat (apply Forall_cons || apply Forall_nil); (split; [|split]); cbn; try (intuition congruence).
  all: intros x Hx; cbn in Hx; cbn; intuition.
Qed.

(* parameters_bound_by_position: in the expansion of a helper call the i-th parameter -- blank ones count -- is replaced by the
   i-th argument of the call; a named parameter behind a blank one does not get the blank one's argument *)
Theorem C18_parameters_bound_by_position :
  forall params args i p a,
    nth_error params i = Some p -> nth_error args i = Some a ->
    (forall j q, i < j -> nth_error params j = Some q -> q <> p) ->
    lookup_arg (bind params args) p = Some (unparen a).
Proof. exact bind_positional. Qed.
Print Assumptions C18_parameters_bound_by_position.
Example ex_blank_parameters :
  subst (bind ["_"; "v"] [ex_mx; EParen None (EIndex None (EIdent None "m") (ELit None LString (Some (CStr "y"))))]) (ESel None (EIdent None "v") "Pure")
  = ESel None (EIndex None (EIdent None "m") (ELit None LString (Some (CStr "y")))) "Pure".
Proof. vm_compute. reflexivity. Qed.
