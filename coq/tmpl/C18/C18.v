(* Property C18 -- theorems only. *)
From Coq Require Import List String Bool ZArith.
From RG.Load Require Import Macro.
From RGW Require Import Gen_Macro Inst_Macro.
Import ListNotations.
Local Open Scope string_scope.

(* expand_is_inline (full statement: rejected or equal): for every helper body, every parameter list and all arguments,
   converting the expanded copy either fails -- Load returns an error -- or yields exactly what converting the manually
   inlined expression yields.  [consistent] is what go/types guarantees about the constants of the inlined expression. *)
Theorem C18_helper_rejected_or_inlined :
  forall fuel ps body, consistent path_ok (subst ps body) ->
  gen_convert fuel (expand ps body) = None \/ gen_convert fuel (expand ps body) = gen_convert fuel (subst ps body).
Proof. exact (expand_rejected_or_inline path_ok str_args). Qed.
Print Assumptions C18_helper_rejected_or_inlined.

Theorem C18_copy_rejected_or_equal :
  forall fuel e, consistent path_ok e -> gen_convert fuel (strip e) = None \/ gen_convert fuel (strip e) = gen_convert fuel e.
Proof. exact (strip_rejected_or_equal path_ok str_args). Qed.
Print Assumptions C18_copy_rejected_or_equal.

(* const_expr_transparent: outside helper bodies only the constant go/types computed matters, not its spelling *)
Theorem C18_const_expr_transparent :
  forall fuel e1 e2 c, is_const (annot e1) = Some c -> is_const (annot e2) = Some c -> gen_convert (S fuel) e1 = gen_convert (S fuel) e2.
Proof. exact (const_expr_transparent path_ok str_args). Qed.
Print Assumptions C18_const_expr_transparent.

Theorem C18_const_string_arg_transparent :
  forall e1 e2 s, (forall a k p, e1 <> ELit a k p) -> (forall a k p, e2 <> ELit a k p) ->
  annot e1 = Some (CStr s) -> annot e2 = Some (CStr s) -> strval e1 = strval e2.
Proof. exact const_string_arg_transparent. Qed.
Print Assumptions C18_const_string_arg_transparent.

(* non-vacuity *)
Definition ex_mx := EIndex None (EIdent None "m") (ELit (Some (CStr "x")) LString (Some (CStr "x"))).
(* f := func(v dsl.Var, s string) bool { return v.Type.Is(s) && v.Type.Size == 8 } ; f(m["x"], "int") *)
Definition ex_body := EBinary None "&&"
  (ECall None (ESel None (ESel None (EIdent None "v") "Type") "Is") [EIdent None "s"])
  (EBinary None "==" (ESel None (ESel None (EIdent None "v") "Type") "Size") (ELit (Some (CInt 8)) LInt (Some (CInt 8)))).
Definition ex_args := [("v", ex_mx); ("s", ELit (Some (CStr "int")) LString (Some (CStr "int")))].
Example ex_equal : gen_convert 10 (expand ex_args ex_body) =
  Some (FBin "&&" (FOp "Type.Is" "x" [] [FStr "int"]) (FBin "==" (FOp "Type.Size" "x" [] []) (FInt 8))) /\
  gen_convert 10 (expand ex_args ex_body) = gen_convert 10 (subst ex_args ex_body) /\ consistent path_ok (subst ex_args ex_body).
Proof.
  split; [vm_compute; reflexivity|]. split; [vm_compute; reflexivity|].
  cbn. repeat split; try reflexivity; try (now right); try (intros H; exfalso; apply H; reflexivity); try (intros c H; discriminate).
Qed.
(* the same helper with 4+4 instead of 8: the copy has lost the folded constant, Load fails *)
Definition ex_body2 := EBinary None "=="
  (ESel None (ESel None (EIdent None "v") "Type") "Size")
  (EBinary (Some (CInt 8)) "+" (ELit (Some (CInt 4)) LInt (Some (CInt 4))) (ELit (Some (CInt 4)) LInt (Some (CInt 4)))).
Example ex_rejected : gen_convert 10 (expand ex_args ex_body2) = None /\
  gen_convert 10 (subst ex_args ex_body2) = Some (FBin "==" (FOp "Type.Size" "x" [] []) (FInt 8)).
Proof. vm_compute. split; reflexivity. Qed.
