(* C18 -- obligations about irconv's helper expansion and constant folding as REGENERATED from /repo on this run (Gen_Macro.v). *)
From Coq Require Import List String Bool ZArith.
From RG.Load Require Import Macro MacroEnv.
From RGW Require Import Gen_Macro.
Import ListNotations.
Local Open Scope string_scope.

(* the selector paths convertFilterExprImpl converts, and how many leading arguments each reads with parseStringArg *)
Definition path_ok (p : string) : bool := existsb (fun x => String.eqb (fst (fst x)) p) gen_paths.
Definition str_args (p : string) : nat :=
  match find (fun x => String.eqb (fst (fst x)) p) gen_paths with Some x => snd (fst x) | None => 0 end.
Definition gen_convert := convert path_ok str_args.
(* the paths convertFilterExprImpl handles before it looks for a local helper *)
Definition path_early (p : string) : bool :=
  existsb (fun x => String.eqb (fst (fst x)) p && String.eqb (snd x) "call-early") gen_paths.
Definition gen_convertE := convertE path_ok str_args path_early.
Definition gen_inline := inline path_ok str_args path_early.
Definition gen_conv_groups := conv_groups path_ok str_args path_early.

(* the helper table is written in two places: emptied by convertRuleGroup, appended to by localDefine *)
Lemma groupFuncs_writes : gen_groupFuncs_writes =
  ["convertRuleGroup: conv.groupFuncs = conv.groupFuncs[:0]";
   "localDefine: conv.groupFuncs = append(conv.groupFuncs, macro)"].
Proof. reflexivity. Qed.

(* ... and convertRuleGroup empties it before its statement loop *)
Lemma reset_per_group : gen_reset_per_group = true.
Proof. reflexivity. Qed.

Lemma pinned_body_convertRuleGroup : gen_body_convertRuleGroup =
  ["result := &ir.RuleGroup{ Line: conv.fset.Position(decl.Name.Pos()).Line, }";
   "conv.group = result";
   "conv.groupFuncs = conv.groupFuncs[:0]";
   "result.Name = decl.Name.String()";
   "if len(decl.Type.Params.List[0].Names) == 0 { panic(conv.errorf(decl.Type.Params.List[0], ""the matcher param should have a name"")) }";
   "result.MatcherName = decl.Type.Params.List[0].Names[0].String()";
   "if decl.Doc != nil { conv.convertDocComments(decl.Doc) }";
   "seenRules := false";
   "for _, stmt := range decl.Body.List { if assign, ok := stmt.(*ast.AssignStmt); ok && assign.Tok == token.DEFINE { conv.localDefine(assign) continue } if _, ok := stmt.(*ast.DeclStmt); ok { continue } stmtExpr, ok := stmt.(*ast.ExprStmt) if !ok { panic(conv.errorf(stmt, ""expected a %s method call, found %s"", result.MatcherName, goutil.SprintNode(conv.fset, stmt))) } call, ok := stmtExpr.X.(*ast.CallExpr) if !ok { panic(conv.errorf(stmt, ""expected a %s method call, found %s"", result.MatcherName, goutil.SprintNode(conv.fset, stmt))) } switch conv.matcherMethodName(call) { case ""Import"": if seenRules { panic(conv.errorf(call, ""Import() should be used before any rules definitions"")) } conv.doMatcherImport(call) default: seenRules = true conv.convertRuleExpr(call) } }";
   "return result"].
Proof. reflexivity. Qed.

(* ConvertFile: one convertRuleGroup per matcher function, in order; equal-named groups are rejected *)
Lemma pinned_body_ConvertFile : gen_body_ConvertFile =
  ["result := &ir.File{ PkgPath: conv.pkg.Path(), }";
   "conv.dslPkgname = ""dsl""";
   "for _, imp := range f.Imports { importPath, err := strconv.Unquote(imp.Path.Value) if err != nil { panic(conv.errorf(imp, ""unquote %s import path: %s"", imp.Path.Value, err)) } if importPath == ""github.com/quasilyte/go-ruleguard/dsl"" { if imp.Name != nil { conv.dslPkgname = imp.Name.Name } } switch importPath { case ""fmt"", ""strings"", ""strconv"": if conv.usedByCustomDecls(f, importPath) { conv.addCustomImport(result, importPath) } } }";
   "for _, decl := range f.Decls { funcDecl, ok := decl.(*ast.FuncDecl) if !ok { genDecl := decl.(*ast.GenDecl) if genDecl.Tok != token.IMPORT { conv.addCustomDecl(result, decl) } continue } if funcDecl.Body == nil { panic(conv.errorf(funcDecl, ""%s function has no body"", funcDecl.Name)) } if funcDecl.Name.String() == ""init"" { conv.convertInitFunc(result, funcDecl) continue } if conv.isMatcherFunc(funcDecl) { for i := range result.RuleGroups { if result.RuleGroups[i].Name == funcDecl.Name.String() { panic(conv.errorf(funcDecl.Name, ""duplicated rule group %s"", funcDecl.Name)) } } result.RuleGroups = append(result.RuleGroups, *conv.convertRuleGroup(funcDecl)) } else { conv.addCustomDecl(result, funcDecl) } }";
   "return result"].
Proof. reflexivity. Qed.

(* the spelling of a filter takes no part in what the loader makes of it: the engine reads FilterExpr.Src (the text of the Where
   expression as written -- names of constants and helpers included, which mean something else in every group) in three places,
   and each of them copies it into the src field of the filter being built (the text debug output shows).  A table of compiled
   filters keyed by it, a comparison, a hash: any other use shows up here. *)
Lemma filter_src_reads : gen_filter_src_reads =
  ["ir_loader.go: newFilter: result := matchFilter{src: filter.Src}";
   "ir_loader.go: newBinaryExprFilter: result := matchFilter{src: filter.Src}";
   "ir_loader.go: newBinaryExprFilter: result := matchFilter{src: filter.Src}"].
Proof. reflexivity. Qed.

(* ---------------------------------------------------------------- the correspondence run: a whole file, model against specification *)
Definition FUEL := 80.
Definition spec_rule (mname : string) (st : env) (w : dexpr) : option fexpr :=
  match gen_inline mname st FUEL w with Some e' => gen_convert FUEL e' | None => None end.
Fixpoint spec_stmts (mname : string) (st : env) (ss : list gstmt) : list (option fexpr) :=
  match ss with
  | [] => []
  | GDef m :: ss' => spec_stmts mname (st ++ [m])%list ss'
  | GRule w :: ss' => spec_rule mname st w :: spec_stmts mname st ss'
  end.
Definition ofexpr_eqb (a b : option fexpr) : bool :=
  match a, b with Some x, Some y => fexpr_eqb x y | None, None => true | _, _ => false end.
Fixpoint olist_eqb (l l' : list (option fexpr)) : bool :=
  match l, l' with [], [] => true | x :: r, y :: r' => ofexpr_eqb x y && olist_eqb r r' | _, _ => false end.
Definition is_none {A} (o : option A) : bool := match o with None => true | Some _ => false end.
(* the hypotheses of C18_helpers_rejected_or_inlined, evaluated on the annotations go/types produced for the file: for every
   rule, the table in scope is [env_ok], the filter is [nc] (names: the helper and parameter names of the group) and the
   inlined filter is [consistent] *)
Definition group_names (ss : list gstmt) : list string :=
  flat_map (fun s => match s with GDef m => m_name m :: m_params m | GRule _ => [] end) ss.
Fixpoint hyp_stmts (mname : string) (names : list string) (st : env) (ss : list gstmt) : bool :=
  match ss with
  | [] => true
  | GDef m :: ss' => hyp_stmts mname names (st ++ [m])%list ss'
  | GRule w :: ss' =>
      env_okb names st && ncb names w &&
      match gen_inline mname st FUEL w with Some e' => consistentb path_ok e' | None => true end &&
      hyp_stmts mname names st ss'
  end.
Definition file_hyps (gs : list group) : bool :=
  forallb (fun g => hyp_stmts (g_matcher g) (group_names (g_stmts g)) [] (g_stmts g)) gs.

(* 0: some rule of the file is rejected; 1: every rule converts to the conversion of its inlined form;
   2: converts to something else; 3: converts although the inlined form is rejected; 4: a hypothesis does not hold *)
Definition file_verdict (gs : list group) : nat :=
  if negb (file_hyps gs) then 4 else
  let impl := List.concat (gen_conv_groups FUEL gen_reset_per_group [] gs) in
  let spec := List.concat (map (fun g => spec_stmts (g_matcher g) [] (g_stmts g)) gs) in
  if existsb is_none impl then 0 else if olist_eqb impl spec then 1 else if existsb is_none spec then 3 else 2.

(* a constant spelling against its plain literal (files without helpers): 0: a rule of the spelled file is rejected; 1: the
   rules of both files convert to the same expressions; 2: they convert to different ones *)
Definition plain_rules (gs : list group) : list (option fexpr) :=
  List.concat (map (fun g => spec_stmts (g_matcher g) [] (g_stmts g)) gs).
Definition const_verdict (a b : list group) : nat :=
  let ra := plain_rules a in
  if existsb is_none ra then 0 else if olist_eqb ra (plain_rules b) then 1 else 2.

(* expandMacro: a helper that is reached again while it is being expanded is rejected (calls are resolved by name: a helper named
   after something it calls); safe arguments only; astcopy; identifiers in expression position (not selected fields, not names the
   template declares, not labels) named like a parameter are replaced by the unparenthesised argument; basic literals get their
   strconv value; the result is converted *)
Lemma pinned_body_expandMacro : gen_body_expandMacro =
  ["if macro.expanding { panic(conv.errorf(call, ""%s local func can't be used in its own definition"", macro.name)) }";
   "macro.expanding = true";
   "defer func() { macro.expanding = false }()";
   "isSafe := func(arg ast.Expr) bool { switch arg := astutil.Unparen(arg).(type) { case *ast.BasicLit, *ast.Ident: return true case *ast.IndexExpr: mapIdent, ok := astutil.Unparen(arg.X).(*ast.Ident) if !ok { return false } if mapIdent.Name != conv.group.MatcherName { return false } key, ok := astutil.Unparen(arg.Index).(*ast.BasicLit) if !ok || key.Kind != token.STRING { return false } return true default: return false } }";
   "args := map[string]ast.Expr{}";
   "for i, arg := range call.Args { paramName := macro.params[i] if !isSafe(arg) { panic(conv.errorf(arg, ""unsupported/too complex %s argument"", paramName)) } args[paramName] = astutil.Unparen(arg) }";
   "body := astcopy.Expr(macro.template)";
   "expanded := astutil.Apply(body, nil, func(cur *astutil.Cursor) bool { if ident, ok := cur.Node().(*ast.Ident); ok { if sel, ok := cur.Parent().(*ast.SelectorExpr); ok && sel.Sel == ident { return true } switch cur.Name() { case ""Names"", ""Name"", ""Label"": return true } arg, ok := args[ident.Name] if ok { cur.Replace(arg) return true } } if lit, ok := cur.Node().(*ast.BasicLit); ok { switch lit.Kind { case token.STRING: val, err := strconv.Unquote(lit.Value) if err == nil { conv.types.Types[lit] = types.TypeAndValue{ Type: types.Typ[types.UntypedString], Value: constant.MakeString(val), } } case token.INT: val, err := strconv.ParseInt(lit.Value, 0, 64) if err == nil { conv.types.Types[lit] = types.TypeAndValue{ Type: types.Typ[types.UntypedInt], Value: constant.MakeInt64(val), } } case token.FLOAT: val, err := strconv.ParseFloat(lit.Value, 64) if err == nil { conv.types.Types[lit] = types.TypeAndValue{ Type: types.Typ[types.UntypedFloat], Value: constant.MakeFloat64(val), } } } } return true })";
   "return conv.convertFilterExpr(expanded.(ast.Expr))"].
Proof. reflexivity. Qed.

(* localDefine: a helper is a non-variadic func literal with named params whose body is a single return of one bool expression *)
Lemma pinned_body_localDefine : gen_body_localDefine =
  ["if len(assign.Lhs) != 1 || len(assign.Rhs) != 1 { panic(conv.errorf(assign, ""multi-value := is not supported"")) }";
   "lhs, ok := assign.Lhs[0].(*ast.Ident)";
   "if !ok { panic(conv.errorf(assign.Lhs[0], ""only simple ident lhs is supported"")) }";
   "rhs := assign.Rhs[0]";
   "fn, ok := rhs.(*ast.FuncLit)";
   "if !ok { panic(conv.errorf(rhs, ""only func literals are supported on the rhs"")) }";
   "typ := conv.types.TypeOf(fn).(*types.Signature)";
   "isBoolResult := typ.Results() != nil && typ.Results().Len() == 1 && typ.Results().At(0).Type() == types.Typ[types.Bool]";
   "if !isBoolResult { var loc ast.Node = fn.Type if fn.Type.Results != nil { loc = fn.Type.Results } panic(conv.errorf(loc, ""only funcs returning bool are supported"")) }";
   "if typ.Variadic() { panic(conv.errorf(fn.Type.Params, ""variadic funcs are not supported"")) }";
   "if len(fn.Body.List) != 1 { panic(conv.errorf(fn.Body, ""only simple 1 return statement funcs are supported"")) }";
   "stmt, ok := fn.Body.List[0].(*ast.ReturnStmt)";
   "if !ok { panic(conv.errorf(fn.Body.List[0], ""expected a return statement, found %T"", fn.Body.List[0])) }";
   "if len(stmt.Results) != 1 { panic(conv.errorf(stmt, ""expected a return statement with a result"")) }";
   "var params []string";
   "for _, field := range fn.Type.Params.List { if len(field.Names) == 0 { panic(conv.errorf(field, ""only named func params are supported"")) } for _, id := range field.Names { params = append(params, id.Name) } }";
   "macro := localMacroFunc{ name: lhs.Name, params: params, template: stmt.Results[0], nonLocal: make(map[token.Pos]struct{}), }";
   "ast.Inspect(macro.template, func(n ast.Node) bool { if id, ok := n.(*ast.Ident); ok { if obj := conv.types.Uses[id]; obj != nil && !isLocalVar(obj) { macro.nonLocal[id.Pos()] = struct{}{} } } return true })";
   "conv.groupFuncs = append(conv.groupFuncs, macro)"].
Proof. reflexivity. Qed.

(* findLocalMacro: a callee that go/types binds to something that is not a variable of the group function (a package-level
   function, a builtin, a type) is not a helper, whatever the helpers are called -- for a node of the file go/types is asked, for
   a copied template identifier the positions localDefine recorded with every helper; otherwise the first helper of that name.  The model
   (MacroEnv.convertE) looks helpers up by name only: files in which a template calls a package-level name that a helper of the
   group carries as well are outside the model and judged by the twin oracle alone. *)
Lemma pinned_body_findLocalMacro : gen_body_findLocalMacro =
  ["fn, ok := call.Fun.(*ast.Ident)";
   "if !ok { return nil }";
   "if obj := conv.types.Uses[fn]; obj != nil { if !isLocalVar(obj) { return nil } } else { for i := range conv.groupFuncs { if _, ok := conv.groupFuncs[i].nonLocal[fn.Pos()]; ok { return nil } } }";
   "for i := range conv.groupFuncs { if conv.groupFuncs[i].name == fn.Name { return &conv.groupFuncs[i] } }";
   "return nil"].
Proof. reflexivity. Qed.

(* ... "a variable of the group function": a *types.Var that is not a field and whose scope is not the package's *)
Lemma pinned_body_isLocalVar : gen_body_isLocalVar =
  ["v, ok := obj.(*types.Var)";
   "return ok && !v.IsField() && v.Pkg() != nil && v.Parent() != v.Pkg().Scope()"].
Proof. reflexivity. Qed.

(* toStringValue: a string literal is unquoted; any other expression needs the string constant go/types recorded *)
Lemma pinned_body_toStringValue : gen_body_toStringValue =
  ["switch x := x.(type) { case *ast.BasicLit: if x.Kind != token.STRING { return """", false } s, err := strconv.Unquote(x.Value) if err != nil { return """", false } return s, true case ast.Expr: typ, ok := conv.types.Types[x] if !ok || typ.Value == nil || typ.Type.String() != ""string"" { return """", false } str := constant.StringVal(typ.Value) return str, true }";
   "return """", false"].
Proof. reflexivity. Qed.

Lemma pinned_body_parseStringArg : gen_body_parseStringArg =
  ["s, ok := conv.toStringValue(e)";
   "if !ok { panic(conv.errorf(e, ""expected a string literal argument"")) }";
   "return s"].
Proof. reflexivity. Qed.

Lemma pinned_body_convertFilterExpr : gen_body_convertFilterExpr =
  ["result := conv.convertFilterExprImpl(e)";
   "result.Src = goutil.SprintNode(conv.fset, e)";
   "result.Line = conv.fset.Position(e.Pos()).Line";
   "if !result.IsValid() { panic(conv.errorf(e, ""unsupported expr: %s (%T)"", result.Src, e)) }";
   "return result"].
Proof. reflexivity. Qed.

(* convertFilterExprImpl consults the constant go/types computed before looking at the structure *)
Lemma pinned_impl_first : gen_impl_first =
  "if cv := conv.types.Types[e].Value; cv != nil { switch cv.Kind() { case constant.String: v := constant.StringVal(cv) return ir.FilterExpr{Op: ir.FilterStringOp, Value: v} case constant.Int: v, ok := constant.Int64Val(cv) if ok { return ir.FilterExpr{Op: ir.FilterIntOp, Value: v} } } }".
Proof. reflexivity. Qed.

Lemma pinned_structural_kinds : gen_structural_kinds =
  ["*ast.ParenExpr";
   "*ast.UnaryExpr";
   "*ast.BinaryExpr";
   "*ast.SelectorExpr";
   "*ast.CallExpr"].
Proof. reflexivity. Qed.

Lemma pinned_binary_tokens : gen_binary_tokens =
  ["LAND";
   "LOR";
   "NEQ";
   "EQL";
   "GTR";
   "LSS";
   "GEQ";
   "LEQ"].
Proof. reflexivity. Qed.

(* the operators the model converts structurally are exactly those of the regenerated switch *)
Lemma binops_agree :
  map (fun t => match t with "LAND" => "&&" | "LOR" => "||" | "NEQ" => "!=" | "EQL" => "==" | "GTR" => ">" | "LSS" => "<"
                           | "GEQ" => ">=" | "LEQ" => "<=" | _ => "?" end) gen_binary_tokens
  = ["&&"; "||"; "!="; "=="; ">"; "<"; ">="; "<="] /\
  forall op, convertible_binop op = existsb (String.eqb op) ["&&"; "||"; "=="; "!="; "<"; ">"; "<="; ">="].
Proof. split; reflexivity. Qed.

(* no known path reads more than its first argument as a string, and the paths are distinct *)
Lemma paths_wellformed : forallb (fun x => Nat.leb (snd (fst x)) 1) gen_paths = true /\ NoDup (map (fun x => fst (fst x)) gen_paths).
Proof.
  split; [vm_compute; reflexivity|].
  assert (H : forall l : list string, (fix nd (l : list string) : bool := match l with [] => true | x :: r => negb (existsb (String.eqb x) r) && nd r end) l = true -> NoDup l).
  { induction l as [|x r IH]; intros Hn; [constructor|]. apply andb_true_iff in Hn. destruct Hn as [H1 H2]. constructor; [|now apply IH].
    intros Hin. apply negb_true_iff in H1. assert (existsb (String.eqb x) r = true); [|congruence]. apply existsb_exists. exists x. split; [assumption|apply String.eqb_refl]. }
  apply H. vm_compute. reflexivity.
Qed.
