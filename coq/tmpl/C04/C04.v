(* C04 -- props file: the theorems about the quasigo compiler / VM models, instantiated with the configuration
   regenerated from /repo (Gen_Quasigo.v: opcode numbering, unconditional-jump set, maxFuncLocals, lastOp and
   call-convention switches, native signatures). Re-checked on every run. *)
From Coq Require Import List ZArith Bool String.
From RG.Base Require Import Outcome GoInt GoSlice.
From RG.Quasigo Require Import Source Bytecode Compile VM Sem Guards Link ExprCorrect StmtCorrect FunCorrect Assemble Correct.
From RGW Require Import Gen_Quasigo Inst_Quasigo.
Import ListNotations.
Local Open Scope Z_scope.

(* ---- the configuration of the current tree satisfies what the proofs need ---- *)
Theorem config_facts : forall names, config_ok (the_cfg names) = true /\ opnums_ok (the_cfg names) = true.
Proof. intros names. split; vm_compute; reflexivity. Qed.

(* ---- compile_correct ---- *)
(* Every function the compiler accepts, run by the VM on its compiled *bytes*, returns what the Go semantics of
   the source returns and fails when the Go run panics, for all programs, argument tuples and native oracles -
   under the guard [in_scope]. *)
Theorem compile_correct_partial : forall names,
  compile_correct_statement (the_cfg names) (fun p cs => in_scope (the_cfg names) p cs).
Proof. intros names. exact (Correct.compile_correct_partial (the_cfg names)). Qed.

(* with the regenerated configuration the guard is a property of the program alone *)
Theorem in_scope_is_program_guard : forall names p cs,
  in_scope (the_cfg names) p cs = prog_ok p && forallb code_encodable cs.
Proof. intros. unfold in_scope. destruct (config_facts names) as [-> ->]. reflexivity. Qed.

Theorem vm_frame_independent : forall names nat_fun p cs,
  compile_prog (the_cfg names) p = COk cs -> prog_ok p = true ->
  forall fuel id vs r, call_sem (nat_sig (the_cfg names)) nat_fun p fuel id vs = EOk r ->
  forall k, (k = KCall \/ k = KIntCall \/ k = KVoidCall) ->
  forall fn pc L IL top itop vl K, vf_fetch fn pc = Some (I k id) ->
  forall O IO, exists vl' cr, res_rel r cr /\
    VMLemmas.star (the_cfg names) (map vfunc_of_cfunc cs) nat_fun
      (mkstate (mkframe fn pc L IL top itop) (rev (NativeLemmas.args_o 0 0 vs) ++ O) (rev (NativeLemmas.args_i 0 0 vs) ++ IO) vl K)
      (mkstate (mkframe fn (pc + 3) L IL top itop) (pushk_o k cr O) (pushk_i k cr IO) vl' K).
Proof. intros names nat_fun p cs Hc Hp. apply Correct.vm_frame_independent; auto; apply config_facts. Qed.

Theorem assemble_simulates : forall names C, forallb encodable C = true ->
  forall pc i, instr_at C pc = Some i -> decode_at (the_cfg names) (assemble (the_cfg names) C) pc = Some i.
Proof. intros names C. apply Correct.assemble_simulates. apply config_facts. Qed.

Print Assumptions compile_correct_partial.
Print Assumptions vm_frame_independent.
Print Assumptions assemble_simulates.
Print Assumptions natives_signatures_ok.

(* ================= witnesses ================= *)
Definition cfg0 := the_cfg [].
Definition no_natives : Z -> list value -> option (list value) := fun _ _ => None.

(* func qf0(x int) int { if x > 0 { if x > 10 { return 1 } } else { return 2 }; return 3 } *)
Definition w_if : program :=
  [mkfun [(10, TInt)] [TInt]
     [SIf None (EBinary OGtr TInt (EIdent 10 TInt) (EConst (-1) (CInt 0)))
        [SIf None (EBinary OGtr TInt (EIdent 10 TInt) (EConst (-1) (CInt 10))) [SReturn [EConst (-1) (CInt 1)]] None]
        (Some (SBlock [SReturn [EConst (-1) (CInt 2)]]));
      SReturn [EConst (-1) (CInt 3)]]].

(* func qf0(x int) int { return x + 1 };  func qf1(a, b int) int { return qf0(a) + qf0(b) } *)
Definition w_call : program :=
  [mkfun [(10, TInt)] [TInt] [SReturn [EBinary OAdd TInt (EIdent 10 TInt) (EConst (-1) (CInt 1))]];
   mkfun [(10, TInt); (11, TInt)] [TInt]
     [SReturn [EBinary OAdd TInt (ECall (FUser 0 TInt) TInt None [EIdent 10 TInt]) (ECall (FUser 0 TInt) TInt None [EIdent 11 TInt])]]].

(* func qf0(s string, b bool) int { return len(s) };  func qf1(x, y bool) int { return qf0("a", x || y) } *)
Definition w_logic : program :=
  [mkfun [(10, TStr); (11, TBool)] [TInt] [SReturn [ECall FLen TInt None [EIdent 10 TStr]]];
   mkfun [(10, TBool); (11, TBool)] [TInt]
     [SReturn [ECall (FUser 0 TInt) TInt None [EConst (-1) (CStr [97]); EBinary OLor TBool (EIdent 10 TBool) (EIdent 11 TBool)]]]].

Definition compiled (cfg : config) (p : program) : list cfunc := match compile_prog cfg p with COk cs => cs | CErr _ => [] end.
Definition vm_bytes (cfg : config) (p : program) (id : Z) (args : list value) : runres :=
  let cs := compiled cfg p in
  match nthz cs id with
  | Some cf => call_fun cfg (map (vfunc_bytes cfg) cs) no_natives 400 (vfunc_bytes cfg cf) args
  | None => ROutOfFuel
  end.
Definition go (cfg : config) (p : program) (id : Z) (args : list value) : eres (option value) :=
  call_sem (nat_sig cfg) no_natives p 50 id args.

(* the hypotheses of the partial theorem are satisfiable by non-trivial programs, and the conclusion is observed *)
Example in_scope_if : in_scope cfg0 w_if (compiled cfg0 w_if) = true /\
  go cfg0 w_if 0 [VInt 5] = EOk (Some (VInt 3)) /\ vm_bytes cfg0 w_if 0 [VInt 5] = RDone (mkres VNil 3).
Proof. repeat split; vm_compute; reflexivity. Qed.

Example in_scope_call : in_scope cfg0 w_call (compiled cfg0 w_call) = true /\
  go cfg0 w_call 1 [VInt 1; VInt 10] = EOk (Some (VInt 13)) /\ vm_bytes cfg0 w_call 1 [VInt 1; VInt 10] = RDone (mkres VNil 13).
Proof. repeat split; vm_compute; reflexivity. Qed.

(* func qf0(s string, n int) string { return s[n:] } -- a Go panic (slice bounds) is a failure of the VM run *)
Definition w_slice : program :=
  [mkfun [(10, TStr); (11, TInt)] [TStr] [SReturn [ESlice TStr (EIdent 10 TStr) (Some (EIdent 11 TInt)) None false]]].
Example in_scope_panic : in_scope cfg0 w_slice (compiled cfg0 w_slice) = true /\
  go cfg0 w_slice 0 [VStr [97; 98]; VInt 5] = EPanic PSliceBounds /\ vm_bytes cfg0 w_slice 0 [VStr [97; 98]; VInt 5] = RPanic PSliceBounds /\
  go cfg0 w_slice 0 [VStr [97; 98]; VInt 1] = EOk (Some (VStr [98])) /\ vm_bytes cfg0 w_slice 0 [VStr [97; 98]; VInt 1] = RDone (mkres (VStr [98]) 0).
Proof. repeat split; vm_compute; reflexivity. Qed.

(* ---- the full statement (no guard) is false of the faithful model: || / && junk under a pending operand ---- *)
Theorem compile_correct_refuted_logic_junk :
  ~ compile_correct_statement cfg0 (fun _ _ => true).
Proof.
  intros H.
  destruct (H no_natives w_logic (compiled cfg0 w_logic) ltac:(vm_compute; reflexivity) eq_refl 50%nat 1 [VBool false; VBool false]
              (match nthz (compiled cfg0 w_logic) 1 with Some cf => cf | None => mkcfunc [] [] [] 0 0 end) ltac:(vm_compute; reflexivity))
    as [Hok _].
  destruct (Hok (Some (VInt 1)) ltac:(vm_compute; reflexivity)) as (fuel' & cr & Hrun & _).
  revert Hrun. unfold call_fun. cbn [push_args fold_left].
  apply (run_panic_never_done _ _ _ 400 _ PTypeAssert). vm_compute. reflexivity.
Qed.

(* the guard rejects exactly this program *)
Example logic_junk_out_of_scope : in_scope cfg0 w_logic (compiled cfg0 w_logic) = false /\ safe_fun (nth 1 w_logic (mkfun [] [] [])) = false.
Proof. split; vm_compute; reflexivity. Qed.

(* ---- the two repaired defects: with the old behaviour the model computes the old wrong answers ---- *)
Definition cfg_no_frame_pop := mkconfig gen_op_num gen_uncond_ops gen_max_locals (nat_sig_of [] gen_natives) gen_bind_resets_last false.
Definition cfg_no_label_reset := mkconfig gen_op_num gen_uncond_ops gen_max_locals (nat_sig_of [] gen_natives) false gen_call_pops_frame.

Theorem compile_correct_refuted_without_frame_pop :
  go cfg_no_frame_pop w_call 1 [VInt 1; VInt 10] = EOk (Some (VInt 13)) /\
  vm_bytes cfg_no_frame_pop w_call 1 [VInt 1; VInt 10] = RDone (mkres VNil 22).
Proof. split; vm_compute; reflexivity. Qed.

Theorem compile_correct_refuted_without_label_reset :
  go cfg_no_label_reset w_if 0 [VInt 5] = EOk (Some (VInt 3)) /\
  vm_bytes cfg_no_label_reset w_if 0 [VInt 5] = RDone (mkres VNil 2).
Proof. split; vm_compute; reflexivity. Qed.

(* ---- operands that do not fit their encoding are not recovered by the decoder (why the compiler must reject them) ---- *)
Theorem assemble_simulates_refuted_without_encodable :
  decode_at cfg0 (assemble cfg0 [I KPushConst 300]) 0 = Some (I KPushConst 44) /\
  decode_at cfg0 (assemble cfg0 [I KJump 40000]) 0 = Some (I KJump (-25536)).
Proof. split; vm_compute; reflexivity. Qed.
