(* C04 -- props file: the theorems about the quasigo compiler / VM models, instantiated with the configuration
   regenerated from /repo (Gen_Quasigo.v: opcode numbering, unconditional-jump set, maxFuncLocals, lastOp and
   call-convention switches, native signatures). Re-checked on every run. *)
From Coq Require Import List ZArith Bool String.
From RG.Base Require Import Outcome GoInt GoSlice.
From RG.Quasigo Require Import Source Bytecode Compile VM Sem Guards Link ExprCorrect StmtCorrect FunCorrect Assemble Correct Encodable PanicKind Env.
From RGW Require Import Gen_Quasigo Inst_Quasigo.
Import ListNotations.
Local Open Scope Z_scope.

(* ---- the configuration of the current tree satisfies what the proofs need ---- *)
Theorem config_facts : forall names, config_ok (the_cfg names) = true /\ opnums_ok (the_cfg names) = true.
Proof. intros names. split; vm_compute; reflexivity. Qed.

(* a local slot index fits the 8-bit operand of the local instructions *)
Theorem locals_fit : forall names, (max_locals (the_cfg names) <=? 256) = true.
Proof. intros names. vm_compute. reflexivity. Qed.

(* ---- compile_correct ---- *)
(* Every function the compiler accepts, run by the VM on its compiled *bytes*, returns what the Go semantics of
   the source returns and fails when the Go run panics, for all programs, argument tuples and native oracles -
   under the guard [in_scope]. *)
Theorem compile_correct_partial : forall names,
  compile_correct_statement (the_cfg names) (fun p cs => in_scope (the_cfg names) p cs).
Proof. intros names. exact (Correct.compile_correct_partial (the_cfg names)). Qed.

(* with the regenerated configuration the guard is a property of the program alone *)
Theorem in_scope_is_program_guard : forall names p cs,
  in_scope (the_cfg names) p cs = prog_ok p && forallb code_encodable cs.
Proof. intros. unfold in_scope. destruct (config_facts names) as [-> ->]. reflexivity. Qed.

(* the operands of the code of an accepted function fit their 8/16-bit encoding: a consequence of compile success
   (checked limits on constants, variadic lengths, jumps, parameters; maxFuncLocals) for sources whose native /
   function IDs are table positions *)
Theorem compile_fun_encodable : forall names f cf,
  compile_fun (the_cfg names) f = COk cf -> ids_ok_fun f = true -> code_encodable cf = true.
Proof. intros names f cf. apply Encodable.compile_fun_encodable. vm_compute. split; discriminate. Qed.

(* compile_correct with a guard on the *source* program alone (nothing about the compiler's output is assumed) *)
Theorem compile_correct_source_guard : forall names,
  compile_correct_statement (the_cfg names) (fun p _ => source_guard (the_cfg names) p).
Proof. intros names. exact (Encodable.compile_correct_source_guard (the_cfg names)). Qed.

Theorem source_guard_is_program_guard : forall names p, source_guard (the_cfg names) p = prog_ok p && ids_ok p.
Proof. intros. unfold source_guard. destruct (config_facts names) as [-> ->]. rewrite locals_fit. reflexivity. Qed.

Theorem vm_frame_independent : forall names nat_fun p cs,
  compile_prog (the_cfg names) p = COk cs -> prog_ok p = true ->
  forall fuel id vs r, call_sem (nat_sig (the_cfg names)) nat_fun p fuel id vs = EOk r ->
  forall k, (k = KCall \/ k = KIntCall \/ k = KVoidCall) ->
  forall fn pc L IL top itop vl K, vf_fetch fn pc = Some (I k id) ->
  forall O IO, exists vl' cr, res_rel r cr /\
    VMLemmas.star (the_cfg names) (map vfunc_of_cfunc cs) nat_fun
      (mkstate (mkframe fn pc L IL top itop) (rev (NativeLemmas.args_o 0 0 vs) ++ O) (rev (NativeLemmas.args_i 0 0 vs) ++ IO) vl K)
      (mkstate (mkframe fn (pc + 3) L IL top itop) (pushk_o k cr O) (pushk_i k cr IO) vl' K).
Proof. intros names nat_fun p cs Hc Hp. apply Correct.vm_frame_independent; auto; apply config_facts. Qed.

Theorem assemble_simulates : forall names C, forallb encodable C = true ->
  forall pc i, instr_at C pc = Some i -> decode_at (the_cfg names) (assemble (the_cfg names) C) pc = Some i.
Proof. intros names C. apply Correct.assemble_simulates. apply config_facts. Qed.

(* the run-time failures of the source semantics are slice-bounds panics (never the kind the VM model reports for its own
   index failures, e.g. a function ID without a function) *)
Theorem go_panics_are_slice_bounds : forall sig nat_fun p fuel id args w,
  call_sem sig nat_fun p fuel id args = EPanic w -> w = PSliceBounds.
Proof. exact PanicKind.call_sem_panic_kind. Qed.

(* ---- several units compiled into one environment (Env.v) ---- *)
(* compiling further units (rules files) only appends to the table of user functions: every function ID handed out
   earlier still denotes the same compiled function, and the table stays the compilation of the resolved sources *)
Theorem load_units_extends : forall names us e, extends (the_cfg names) e (load_units (the_cfg names) us e).
Proof. intros names. exact (Env.load_units_extends (the_cfg names)). Qed.

Theorem load_units_inv : forall names us e, env_inv (the_cfg names) e -> env_inv (the_cfg names) (load_units (the_cfg names) us e).
Proof. intros names. exact (Env.load_units_inv (the_cfg names)). Qed.

(* whatever units are compiled later (equal-named functions, re-declarations, units that fail halfway), a function
   compiled earlier - run on its bytes against the function table as it is afterwards - still returns what its source
   means in Go, and fails when the Go run panics *)
Theorem later_units_preserve_meaning : forall names nat_fun e us,
  env_inv (the_cfg names) e -> source_guard (the_cfg names) (ev_srcs e) = true ->
  forall fuel id args cf, nthz (ev_funcs e) id = Some cf ->
    nthz (ev_funcs (load_units (the_cfg names) us e)) id = Some cf /\
    (forall r, call_sem (nat_sig (the_cfg names)) nat_fun (ev_srcs e) fuel id args = EOk r ->
       exists fuel' cr, call_fun (the_cfg names) (map (vfunc_bytes (the_cfg names)) (ev_funcs (load_units (the_cfg names) us e))) nat_fun fuel'
                          (vfunc_bytes (the_cfg names) cf) args = RDone cr /\ result_matches r cr) /\
    (forall w, call_sem (nat_sig (the_cfg names)) nat_fun (ev_srcs e) fuel id args = EPanic w ->
       exists fuel', call_fun (the_cfg names) (map (vfunc_bytes (the_cfg names)) (ev_funcs (load_units (the_cfg names) us e))) nat_fun fuel'
                       (vfunc_bytes (the_cfg names) cf) args = RPanic w).
Proof. intros names nat_fun e us. exact (Env.later_units_preserve_meaning (the_cfg names) nat_fun e us). Qed.

(* while the loader compiles declaration k of a unit, the names the unit declares are bound to the unit's own
   earlier declarations (at their own slots) and to nothing else *)
Theorem load_unit_binds_own_unit : forall names u e k ek, NoDup (map fst u) ->
  env_before (the_cfg names) k u (unbind_all u e) = Some ek ->
  forall n, In n (map fst u) ->
    map_get (ev_names ek) n = match index_name n (firstn k (map fst u)) 0 with
                              | Some j => Some (id16 (len (ev_funcs e) + j))
                              | None => None
                              end.
Proof. intros names. exact (Env.load_unit_binds_own_unit (the_cfg names)). Qed.

(* hence a unit whose calls go to its own functions is compiled from the same resolved sources whatever was loaded
   before it (up to the first free slot) *)
Theorem unit_meaning_independent_of_history : forall names u e k ek n fd, NoDup (map fst u) ->
  env_before (the_cfg names) k u (unbind_all u e) = Some ek -> nth_error u k = Some (n, fd) ->
  (forall c, In c (callee_names fd) -> In c (map fst u)) ->
  resolve_fun (ev_names ek) fd = resolve_fun (own_names (len (ev_funcs e)) (firstn k (map fst u))) fd.
Proof. intros names. exact (Env.unit_meaning_independent_of_history (the_cfg names)). Qed.

Print Assumptions compile_correct_partial.
Print Assumptions compile_correct_source_guard.
Print Assumptions later_units_preserve_meaning.
Print Assumptions load_unit_binds_own_unit.
Print Assumptions vm_frame_independent.
Print Assumptions assemble_simulates.
Print Assumptions natives_signatures_ok.

(* ================= witnesses ================= *)
Definition cfg0 := the_cfg [].
Definition no_natives : Z -> list value -> option (list value) := fun _ _ => None.

(* func qf0(x int) int { if x > 0 { if x > 10 { return 1 } } else { return 2 }; return 3 } *)
Definition w_if : program :=
  [mkfun [(10, TInt)] [TInt]
     [SIf None (EBinary OGtr TInt (EIdent 10 TInt) (EConst (-1) (CInt 0)))
        [SIf None (EBinary OGtr TInt (EIdent 10 TInt) (EConst (-1) (CInt 10))) [SReturn [EConst (-1) (CInt 1)]] None]
        (Some (SBlock [SReturn [EConst (-1) (CInt 2)]]));
      SReturn [EConst (-1) (CInt 3)]]].

(* func qf0(x int) int { return x + 1 };  func qf1(a, b int) int { return qf0(a) + qf0(b) } *)
Definition w_call : program :=
  [mkfun [(10, TInt)] [TInt] [SReturn [EBinary OAdd TInt (EIdent 10 TInt) (EConst (-1) (CInt 1))]];
   mkfun [(10, TInt); (11, TInt)] [TInt]
     [SReturn [EBinary OAdd TInt (ECall (FUser 0 TInt) TInt None [EIdent 10 TInt]) (ECall (FUser 0 TInt) TInt None [EIdent 11 TInt])]]].

(* func qf0(s string, b bool) int { return len(s) };  func qf1(x, y bool) int { return qf0("a", x || y) } *)
Definition w_logic : program :=
  [mkfun [(10, TStr); (11, TBool)] [TInt] [SReturn [ECall FLen TInt None [EIdent 10 TStr]]];
   mkfun [(10, TBool); (11, TBool)] [TInt]
     [SReturn [ECall (FUser 0 TInt) TInt None [EConst (-1) (CStr [97]); EBinary OLor TBool (EIdent 10 TBool) (EIdent 11 TBool)]]]].

Definition compiled (cfg : config) (p : program) : list cfunc := match compile_prog cfg p with COk cs => cs | CErr _ => [] end.
Definition vm_bytes (cfg : config) (p : program) (id : Z) (args : list value) : runres :=
  let cs := compiled cfg p in
  match nthz cs id with
  | Some cf => call_fun cfg (map (vfunc_bytes cfg) cs) no_natives 400 (vfunc_bytes cfg cf) args
  | None => ROutOfFuel
  end.
Definition go (cfg : config) (p : program) (id : Z) (args : list value) : eres (option value) :=
  call_sem (nat_sig cfg) no_natives p 50 id args.

(* the hypotheses of the partial theorem are satisfiable by non-trivial programs, and the conclusion is observed *)
Example in_scope_if : in_scope cfg0 w_if (compiled cfg0 w_if) = true /\
  go cfg0 w_if 0 [VInt 5] = EOk (Some (VInt 3)) /\ vm_bytes cfg0 w_if 0 [VInt 5] = RDone (mkres VNil 3).
Proof. repeat split; vm_compute; reflexivity. Qed.

Example source_guard_call : source_guard cfg0 w_call = true /\ source_guard cfg0 w_if = true /\ source_guard cfg0 w_logic = false.
Proof. repeat split; vm_compute; reflexivity. Qed.

Example in_scope_call : in_scope cfg0 w_call (compiled cfg0 w_call) = true /\
  go cfg0 w_call 1 [VInt 1; VInt 10] = EOk (Some (VInt 13)) /\ vm_bytes cfg0 w_call 1 [VInt 1; VInt 10] = RDone (mkres VNil 13).
Proof. repeat split; vm_compute; reflexivity. Qed.

(* func qf0(s string, n int) string { return s[n:] } -- a Go panic (slice bounds) is a failure of the VM run *)
Definition w_slice : program :=
  [mkfun [(10, TStr); (11, TInt)] [TStr] [SReturn [ESlice TStr (EIdent 10 TStr) (Some (EIdent 11 TInt)) None false]]].
Example in_scope_panic : in_scope cfg0 w_slice (compiled cfg0 w_slice) = true /\
  go cfg0 w_slice 0 [VStr [97; 98]; VInt 5] = EPanic PSliceBounds /\ vm_bytes cfg0 w_slice 0 [VStr [97; 98]; VInt 5] = RPanic PSliceBounds /\
  go cfg0 w_slice 0 [VStr [97; 98]; VInt 1] = EOk (Some (VStr [98])) /\ vm_bytes cfg0 w_slice 0 [VStr [97; 98]; VInt 1] = RDone (mkres (VStr [98]) 0).
Proof. repeat split; vm_compute; reflexivity. Qed.

(* blank parameters on both stacks and a plain assignment of a tuple to existing variables are inside the guard:
     func qf0(_ int, p1 string, _ int, _ string) int {
       v0, v1 := strconv.Atoi(p1); if v1 != nil { v0, v1 = strconv.Atoi(p1 + "7") }; if v1 == nil { return v0 }; return -1 }
     func qf1(p0 string, _ bool, _ bool) int { return qf0(1, p0, 2, "x") + qf0(3, "4"+p0, 4, "y") }
   (terms as serialised by harness/cmd/c04 from corpus/C04/15_blank_tuple_assign.go; strconv.Atoi is native 7) *)
Definition names7 : list string :=
  ["strings.Replace"; "strings.ReplaceAll"; "strings.TrimPrefix"; "strings.TrimSuffix"; "strings.HasPrefix"; "strings.HasSuffix";
   "strings.Contains"; "strconv.Atoi"; "strconv.Itoa"; "fmt.Sprintf"]%string.
Definition cfg7 := the_cfg names7.
Definition w_blank : program :=
  [mkfun [(3, TInt); (10, TStr); (3, TInt); (3, TStr)] [TInt]
     [SAssign ADefine [(11, TInt); (12, TIface)] 1 (ECall (FNative 7 0) TBad None [EIdent 10 TStr]);
      SIf None (EBinary ONeq TIface (EIdent 12 TIface) (EIdent 0 TBad))
        [SAssign AAssign [(11, TInt); (12, TIface)] 1 (ECall (FNative 7 0) TBad None [EBinary OAdd TStr (EIdent 10 TStr) (EConst (-1) (CStr [55]))])] None;
      SIf None (EBinary OEql TIface (EIdent 12 TIface) (EIdent 0 TBad)) [SReturn [EIdent 11 TInt]] None;
      SReturn [EConst (-1) (CInt (-1))]];
   mkfun [(13, TStr); (3, TBool); (3, TBool)] [TInt]
     [SReturn [EBinary OAdd TInt
                 (ECall (FUser 0 TInt) TInt None [EConst (-1) (CInt 1); EIdent 13 TStr; EConst (-1) (CInt 2); EConst (-1) (CStr [120])])
                 (ECall (FUser 0 TInt) TInt None [EConst (-1) (CInt 3); EBinary OAdd TStr (EConst (-1) (CStr [52])) (EIdent 13 TStr); EConst (-1) (CInt 4); EConst (-1) (CStr [121])])]]].
(* an oracle for strconv.Atoi on the strings that occur: "2" -> 2, "42" -> 42, anything else is not a number *)
Definition atoi_oracle : Z -> list value -> option (list value) := fun id args =>
  if id =? 7 then
    match args with
    | [VStr [50]] => Some [VInt 2; VNil]
    | [VStr [52; 50]] => Some [VInt 42; VNil]
    | [VStr _] => Some [VInt 0; VErr [101]]
    | _ => None
    end
  else None.
Definition vm_bytes7 (p : program) (id : Z) (args : list value) : runres :=
  let cs := compiled cfg7 p in
  match nthz cs id with
  | Some cf => call_fun cfg7 (map (vfunc_bytes cfg7) cs) atoi_oracle 400 (vfunc_bytes cfg7 cf) args
  | None => ROutOfFuel
  end.
Example in_scope_blank_params_tuple_assign :
  source_guard cfg7 w_blank = true /\
  (* qf1("2", _, _) = qf0(1, "2", 2, "x") + qf0(3, "42", 4, "y") = 2 + 42 *)
  call_sem (nat_sig cfg7) atoi_oracle w_blank 50 1 [VStr [50]; VBool true; VBool false] = EOk (Some (VInt 44)) /\
  vm_bytes7 w_blank 1 [VStr [50]; VBool true; VBool false] = RDone (mkres VNil 44) /\
  (* qf0(_, "x", _, _): both conversions fail, the plain tuple assignment stores the second error *)
  call_sem (nat_sig cfg7) atoi_oracle w_blank 50 0 [VInt 9; VStr [120]; VInt 8; VStr []] = EOk (Some (VInt (-1))) /\
  vm_bytes7 w_blank 0 [VInt 9; VStr [120]; VInt 8; VStr []] = RDone (mkres VNil (-1)).
Proof. repeat split; vm_compute; reflexivity. Qed.

(* ---- the full statement (no guard) is false of the faithful model: || / && junk under a pending operand ---- *)
Theorem compile_correct_refuted_logic_junk :
  ~ compile_correct_statement cfg0 (fun _ _ => true).
Proof.
  intros H.
  destruct (H no_natives w_logic (compiled cfg0 w_logic) ltac:(vm_compute; reflexivity) eq_refl 50%nat 1 [VBool false; VBool false]
              (match nthz (compiled cfg0 w_logic) 1 with Some cf => cf | None => mkcfunc [] [] [] 0 0 end) ltac:(vm_compute; reflexivity))
    as [Hok _].
  destruct (Hok (Some (VInt 1)) ltac:(vm_compute; reflexivity)) as (fuel' & cr & Hrun & _).
  revert Hrun. unfold call_fun. cbn [push_args fold_left].
  apply (run_panic_never_done _ _ _ 400 _ PTypeAssert). vm_compute. reflexivity.
Qed.

(* the guard rejects exactly this program *)
Example logic_junk_out_of_scope : in_scope cfg0 w_logic (compiled cfg0 w_logic) = false /\ safe_fun (nth 1 w_logic (mkfun [] [] [])) = false.
Proof. split; vm_compute; reflexivity. Qed.

(* ---- the two repaired defects: with the old behaviour the model computes the old wrong answers ---- *)
Definition cfg_no_frame_pop := mkconfig gen_op_num gen_uncond_ops gen_max_locals (nat_sig_of [] gen_natives) gen_bind_resets_last false.
Definition cfg_no_label_reset := mkconfig gen_op_num gen_uncond_ops gen_max_locals (nat_sig_of [] gen_natives) false gen_call_pops_frame.

Theorem compile_correct_refuted_without_frame_pop :
  go cfg_no_frame_pop w_call 1 [VInt 1; VInt 10] = EOk (Some (VInt 13)) /\
  vm_bytes cfg_no_frame_pop w_call 1 [VInt 1; VInt 10] = RDone (mkres VNil 22).
Proof. split; vm_compute; reflexivity. Qed.

Theorem compile_correct_refuted_without_label_reset :
  go cfg_no_label_reset w_if 0 [VInt 5] = EOk (Some (VInt 3)) /\
  vm_bytes cfg_no_label_reset w_if 0 [VInt 5] = RDone (mkres VNil 2).
Proof. split; vm_compute; reflexivity. Qed.

(* ---- operands that do not fit their encoding are not recovered by the decoder (why the compiler must reject them) ---- *)
Theorem assemble_simulates_refuted_without_encodable :
  decode_at cfg0 (assemble cfg0 [I KPushConst 300]) 0 = Some (I KPushConst 44) /\
  decode_at cfg0 (assemble cfg0 [I KJump 40000]) 0 = Some (I KJump (-25536)).
Proof. split; vm_compute; reflexivity. Qed.

(* ---- histories: the hypotheses are satisfiable, and the theorem is about the table being append-only ---- *)
(* two rules files declaring the same names:
     a.go: func qf0() int { return 3 };   func qf1(s string) bool { return len(s) >= qf0() }
     b.go: func qf0() int { return 100 }; func qf1(s string) bool { return len(s) >= qf0() }
   (FUser carries the callee's name: 1000 = qf0, 1001 = qf1) *)
Definition w_unit (k : Z) : nunit :=
  [(1000, mkfun [] [TInt] [SReturn [EConst (-1) (CInt k)]]);
   (1001, mkfun [(10, TStr)] [TBool]
            [SReturn [EBinary OGeq TInt (ECall FLen TInt None [EIdent 10 TStr]) (ECall (FUser 1000 TInt) TInt None [])]])].
Definition env_a := load_units cfg0 [w_unit 3] env_empty.
Definition env_ab := load_units cfg0 [w_unit 3; w_unit 100] env_empty.
Definition vm_env (e : env) (id : Z) (args : list value) : runres :=
  match nthz (ev_funcs e) id with
  | Some cf => call_fun cfg0 (map (vfunc_bytes cfg0) (ev_funcs e)) no_natives 400 (vfunc_bytes cfg0 cf) args
  | None => ROutOfFuel
  end.

Example history_in_scope :
  env_inv cfg0 env_a /\ source_guard cfg0 (ev_srcs env_a) = true /\
  List.length (ev_funcs env_a) = 2%nat /\ List.length (ev_funcs env_ab) = 4%nat /\
  (* a.go's filter means len(s) >= 3 ... *)
  call_sem (nat_sig cfg0) no_natives (ev_srcs env_a) 50 1 [VStr [97; 98; 99]] = EOk (Some (VBool true)) /\
  (* ... and still computes that after b.go was loaded; b.go's filter (slot 3) computes len(s) >= 100 *)
  vm_env env_ab 1 [VStr [97; 98; 99]] = RDone (mkres (VBool true) 0) /\
  vm_env env_ab 3 [VStr [97; 98; 99]] = RDone (mkres (VBool false) 0) /\
  (* both files' qf0 / qf1 are bound to b.go's functions afterwards *)
  map_get (ev_names env_ab) 1000 = Some 2 /\ map_get (ev_names env_ab) 1001 = Some 3.
Proof. repeat split; vm_compute; reflexivity. Qed.

(* an environment that recycles the slot of an unbound function (b.go's qf0 written into slot 0) makes a.go's
   filter call b.go's helper: the conclusion of later_units_preserve_meaning fails for such a table *)
Theorem later_units_preserve_meaning_refuted_with_slot_reuse :
  let reused := mkenv (set_nth (ev_funcs env_a) 0 (nth 2 (ev_funcs env_ab) (mkcfunc [] [] [] 0 0))) (ev_srcs env_a) (ev_names env_ab) in
  call_sem (nat_sig cfg0) no_natives (ev_srcs env_a) 50 1 [VStr [97; 98; 99]] = EOk (Some (VBool true)) /\
  vm_env reused 1 [VStr [97; 98; 99]] = RDone (mkres (VBool false) 0).
Proof. split; vm_compute; reflexivity. Qed.
