(* Obligations over the bodies of the natives regenerated from /repo (Gen_Quasigo.v: gen_native_bodies,
   gen_native_effects): what a native does BESIDES popping its arguments and pushing its results.
   In the theorems the natives are Section oracles with their declared signature; these obligations say why the
   oracle of a stdlib native may be taken to be the Go function itself, and that a dsl native is a function of its
   arguments (it writes nothing a later call could observe, it hands out no address of storage it will reuse).
   Re-proved on every check. *)
From Coq Require Import List ZArith Bool String.
From RG.Quasigo Require Import Bytecode.
From RGW Require Import Gen_Quasigo.
Import ListNotations.
Local Open Scope string_scope.

Definition str_in (x : string) (l : list string) : bool := existsb (String.eqb x) l.
Definition strs_eqb (a b : list string) : bool :=
  Nat.eqb (List.length a) (List.length b) && forallb (fun '(x, y) => String.eqb x y) (combine a b).

Definition body_of (n : string) := find (fun '(m, _) => String.eqb m n) gen_native_bodies.
Definition effects_of (n : string) := find (fun '(m, _) => String.eqb m n) gen_native_effects.

(* ---- a stdlib wrapper is transparent: it pops its arguments, calls the Go function it is bound to exactly once
   (natives_signatures_ok: with the popped values in declaration order) and pushes that call's results, on its ONLY
   path - no fast path, no special case for some argument values, no post-processing of the result ---- *)
Definition result_sources (callee : string) (nres : nat) : list (list string) :=
  match nres with
  | 1%nat => [["call:" ++ callee]; ["result:0:" ++ callee]]
  | 2%nat => [["result:0:" ++ callee; "result:1:" ++ callee]]
  | _ => []
  end.

Definition wrapper_transparent (d : native_desc) : bool :=
  match nd_call d with
  | None => true
  | Some (callee, _) =>
    match body_of (nd_name d) with
    | Some (_, (kinds, [srcs])) =>
        forallb (fun k => str_in k ["pop"; "call"; "push"]) kinds &&
        existsb (strs_eqb srcs) (result_sources callee (List.length (nd_results d)))
    | _ => false
    end
  end.

Theorem stdlib_wrappers_are_transparent :
  forallb wrapper_transparent gen_natives = true /\
  (* ... and there are such wrappers: every native bound by quasigo/stdlib is one *)
  forallb (fun d => match nd_call d with Some _ => true | None => String.prefix "github.com/quasilyte/go-ruleguard/dsl" (nd_name d) || String.prefix "*github.com/quasilyte/go-ruleguard/dsl" (nd_name d) end) gen_natives = true /\
  Nat.leb 10 (List.length (filter (fun d => match nd_call d with Some _ => true | None => false end) gen_natives)) = true.
Proof. repeat split; vm_compute; reflexivity. Qed.

(* ---- the only state a native writes is the output it is declared to set: DoContext.SetReport / SetSuggest store the
   string in the run's parameter block; no other native assigns through a pointer, to a field, to an element or to a
   package-level variable, starts a goroutine, or takes the address of existing storage (a handle that lives inside
   the parameter block - or anywhere else it is reused - aliases every other handle the same native handed out) ---- *)
Definition declared_writes (n : string) : list string :=
  if String.eqb n "*github.com/quasilyte/go-ruleguard/dsl.DoContext.SetReport" then ["params.reportString"]
  else if String.eqb n "*github.com/quasilyte/go-ruleguard/dsl.DoContext.SetSuggest" then ["params.suggestString"]
  else [].

Theorem natives_write_only_their_declared_outputs :
  forallb (fun '(n, (writes, addrs, _)) => strs_eqb writes (declared_writes n) && strs_eqb addrs []) gen_native_effects = true.
Proof. vm_compute. reflexivity. Qed.

(* ---- the methods a native calls on the values it works with are readers of go/types objects and of the match
   (the engine's type lookup FindType is the subject of C08 / C10) ---- *)
Definition known_readers : list string :=
  ["Underlying"; "String"; "Elem"; "Len"; "NumFields"; "Field"; "Embedded"; "Type";
   "nodeString"; "subNode"; "subExpr"; "typeofNode"; "Sizeof"; "FindType"].

Theorem natives_call_known_readers_only :
  forallb (fun '(_, (_, _, meths)) => forallb (fun m => str_in m known_readers) meths) gen_native_effects = true.
Proof. vm_compute. reflexivity. Qed.

(* ---- what a native pushes is a result of a Go call, a variable bound by a pop / a call / a type assertion in the
   body, a literal, or a fresh composite literal - the tables list every bound native ---- *)
Theorem native_body_tables_complete :
  forallb (fun d => match body_of (nd_name d), effects_of (nd_name d) with Some _, Some _ => true | _, _ => false end) gen_natives = true /\
  List.length gen_native_bodies = List.length gen_natives /\ List.length gen_native_effects = List.length gen_natives.
Proof. repeat split; vm_compute; reflexivity. Qed.
