(* Obligations over the tables regenerated from /repo (Gen_Quasigo.v), re-proved on every check. *)
From Coq Require Import List ZArith Bool String.
From RG.Quasigo Require Import Source Bytecode Compile VM.
From RGW Require Import Gen_Quasigo.
Import ListNotations.
Local Open Scope Z_scope.

(* the configuration of the current source tree; [names] = env.nativeFuncs as reported by the running engine *)
Definition the_cfg (names : list string) : config :=
  mkconfig gen_op_num gen_uncond_ops gen_max_locals (nat_sig_of names gen_natives) gen_bind_resets_last gen_call_pops_frame.

(* opcode numbers are pairwise distinct bytes: compile's emit and eval's switch agree on every instruction *)
Theorem opnums_distinct : opnums_ok (the_cfg []) = true.
Proof. vm_compute. reflexivity. Qed.

(* opcodeInfoTable (used by the disassembler) agrees with the encoding emit/emit8/emit16/emitJump produce *)
Theorem widths_agree : forallb (fun k => gen_op_width k =? width k) all_kinds = true.
Proof. vm_compute. reflexivity. Qed.

(* every bound native pops its parameters in reverse declaration order from the right stack, pushes its results
   in declaration order on every path, and plain wrappers pass them on in declaration order *)
Theorem natives_signatures_ok : forallb native_ok gen_natives = true.
Proof. vm_compute. reflexivity. Qed.

Theorem natives_named_once :
  forallb (fun d => Nat.eqb (List.length (filter (fun d' => String.eqb (nd_name d') (nd_name d)) gen_natives)) 1) gen_natives = true.
Proof. vm_compute. reflexivity. Qed.
