(* Obligations over the table of libdsl.go natives regenerated from /repo (Gen_Quasigo.v): which package-level
   functions the natives call. Re-proved on every check. *)
From Coq Require Import List ZArith Bool String.
From RG.Quasigo Require Import Bytecode.
From RGW Require Import Gen_Quasigo.
Import ListNotations.
Local Open Scope string_scope.

(* ---- the natives that compare types compare them by name (internal/xtypes), never by object identity ----
   ctx.Type comes from the type-checker of the analysed package, ctx.GetType / ctx.GetInterface from the engine's
   importer: two universes whose named types are different objects. go/types' binary predicates compare named types by
   identity, so a native calling one of them answers differently from the built-in predicate it mirrors. *)
Definition gotypes_comparisons : list string :=
  ["Identical"; "IdenticalIgnoreTags"; "Implements"; "AssignableTo"; "ConvertibleTo"; "AssertableTo"; "Satisfies"; "MissingMethod"].

Definition calls (callees : list string) (f : string) : bool := existsb (String.eqb f) callees.

Theorem natives_never_compare_by_identity :
  forallb (fun '(_, callees) =>
             forallb (fun f => negb (calls callees ("types." ++ f))) (gotypes_comparisons ++ gen_xtypes_funcs))
          gen_native_pkgcalls = true.
Proof. vm_compute. reflexivity. Qed.

(* every dsl/types function that xtypes implements is bound to a native that calls the xtypes function *)
Definition dsl_types_path : string := "github.com/quasilyte/go-ruleguard/dsl/types.".
Theorem dsl_types_comparisons_route_to_xtypes :
  forallb (fun f => match find (fun '(n, _) => String.eqb n (dsl_types_path ++ f)) gen_native_pkgcalls with
                    | Some (_, callees) => calls callees ("xtypes." ++ f)
                    | None => false
                    end) gen_xtypes_funcs = true.
Proof. vm_compute. reflexivity. Qed.

(* the table covers every native bound by libdsl.go *)
Theorem native_pkgcalls_complete :
  forallb (fun d => String.prefix "github.com/quasilyte/go-ruleguard/dsl" (nd_name d)
                    || String.prefix "*github.com/quasilyte/go-ruleguard/dsl" (nd_name d)
                    || negb (existsb (fun '(n, _) => String.eqb n (nd_name d)) gen_native_pkgcalls)) gen_natives = true /\
  forallb (fun '(n, _) => existsb (fun d => String.eqb (nd_name d) n) gen_natives) gen_native_pkgcalls = true.
Proof. split; vm_compute; reflexivity. Qed.
