(* C19: proofs about the model fragments REGENERATED from analyzer/analyzer.go on this run (Gen_Adapter.v). *)
From Coq Require Import List ZArith Lia Bool.
From RG.Base Require Import Outcome GoSlice.
From RG.Adapter Require Import Str Model Conc NewEngine Alias Pool.
From RGW Require Import Gen_Adapter.
Import ListNotations.
Local Open Scope Z_scope.

(* ---- the Report callback hands exactly one diagnostic to pass.Report: the specified image of the report *)
Lemma gen_report_cb_ok : forall pl, callback_ok (gen_report_cb pl) pl.
Proof.
  intros pl r. destruct r as [[line [gname gfile]] pos msg sugg].
  unfold gen_report_cb, diag_of_report, decorated, sprintf_o.
  destruct pl; destruct sugg as [[from to repl]|]; cbn; repeat rewrite <- app_assoc; reflexivity.
Qed.

Lemma gen_print_rule_location_spec e : gen_print_rule_location e = true <-> e = [].
Proof. unfold gen_print_rule_location. apply bytes_eqb_eq. Qed.

Lemma gen_run_head_ok : gen_run_head = expected_run_head.
Proof. vm_compute. reflexivity. Qed.

Lemma gen_go_version_error_ok : exists rest, gen_go_version_error_format = go_version_error ++ rest.
Proof. eexists. vm_compute. reflexivity. Qed.

(* ---- -enable / -disable *)
Definition gen_filter (enable disable : bytes) (g : group_info) : bool :=
  let '(en, dis) := gen_group_maps enable disable in gen_group_filter enable en dis g.

Lemma gen_group_maps_spec enable disable :
  gen_group_maps enable disable =
  ((if bytes_eqb enable all_lit then [] else set_of (names_of enable)), set_of (names_of disable)).
Proof.
  unfold gen_group_maps, set_of, names_of, all_lit, comma.
  rewrite <- !(fold_left_map (fun m g => mset m g true) trim_space).
  destruct (bytes_eqb enable [60; 97; 108; 108; 62]); reflexivity.
Qed.

Lemma gen_filter_is_spec enable disable g :
  gen_filter enable disable g = filter_specb enable disable (g_name g).
Proof.
  unfold gen_filter. rewrite gen_group_maps_spec. unfold gen_group_filter, filter_specb.
  fold all_lit. rewrite mget_set_of.
  destruct (bytes_eqb enable all_lit) eqn:E; cbn [orb negb].
  - destruct (mem_b (g_name g) (names_of disable)); reflexivity.
  - rewrite mget_set_of. destruct (mem_b (g_name g) (names_of enable)); cbn [orb negb andb]; [|reflexivity].
    destruct (mem_b (g_name g) (names_of disable)); reflexivity.
Qed.

Lemma gen_filter_exact enable disable g :
  gen_filter enable disable g = true <-> filter_spec enable disable (g_name g).
Proof. rewrite gen_filter_is_spec. apply filter_specb_correct. Qed.

(* ---- the cached engine *)
Lemma gen_prepare_ok : prepare_ok gen_prepare_tree.
Proof.
  intros g lo. destruct g as [[e|] [|] [|]]; destruct lo as [e'|m]; vm_compute; split; reflexivity.
Qed.

Definition gen_prep (g : gstate) (lo : load_outcome) : gstate * prep_result * nat :=
  let o := run_tree gen_prepare_tree false g lo in (po_state o, po_res o, count_loads (po_trace o)).

Lemma gen_prep_is_spec g lo : gen_prep g lo = prepare_spec_fn g lo.
Proof. exact (proj1 (gen_prepare_ok g lo)). Qed.

Lemma gen_prepare_serialised g lo : serialised (po_trace (run_tree gen_prepare_tree false g lo)) = true.
Proof. exact (proj2 (gen_prepare_ok g lo)). Qed.

(* with ForceNewEngine the cache is bypassed and left untouched *)
Lemma gen_force_bypasses g lo :
  let o := run_tree gen_prepare_tree true g lo in
  po_state o = g /\ po_trace o = [EvLoad] /\
  po_res o = match lo with LoadOk e => {| pr_engine := Some e; pr_err := None |} | LoadErr m => {| pr_engine := None; pr_err := Some m |} end.
Proof. destruct lo; vm_compute; repeat split; reflexivity. Qed.

(* ---- lock sites *)
Lemma gen_sites_ok : forallb site_ok gen_adapter_sites = true.
Proof. vm_compute. reflexivity. Qed.

(* the table is not vacuous: it contains the three guarded writes and at least one guarded read of every field *)
Lemma gen_sites_cover :
  forallb (fun f => existsb (fun s => let '(_, f', w, _, _) := s in w && match f, f' with FEngine, FEngine | FErrored, FErrored | FPool, FPool => true | _, _ => false end) gen_adapter_sites)
          [FEngine; FErrored; FPool] = true.
Proof. vm_compute. reflexivity. Qed.

(* ---- passes running in parallel: the regenerated tree passes the static check of Conc.v *)
Lemma gen_tree_ok : tree_ok false false false false gen_prepare_tree = true.
Proof. vm_compute. reflexivity. Qed.

Lemma gen_no_race lo c : reachable gen_prepare_tree lo c -> ~ race c.
Proof. exact (no_race gen_prepare_tree lo gen_tree_ok c). Qed.

Lemma gen_linearizable lo c :
  reachable gen_prepare_tree lo c -> c_mu c = None ->
  hist_rel lo (gh_hist (c_gh c)) (c_g c) (gh_total (c_gh c)).
Proof. exact (linearizable gen_prepare_tree lo gen_tree_ok gen_prepare_ok c). Qed.

Lemma gen_concurrent_loaded_once lo c : reachable gen_prepare_tree lo c -> (gh_total (c_gh c) <= 1)%nat.
Proof. exact (concurrent_loaded_once gen_prepare_tree lo gen_tree_ok gen_prepare_ok c). Qed.

(* ---- the engine consults GroupFilter with the name the group is registered and reported under *)
Lemma gen_filter_sees_final_name : filter_sees_final_name gen_filter_call_site.
Proof.
  intros prefix name filter. unfold gen_filter_call_site, final_name. cbn [load_group_head].
  destruct prefix; cbn [app]; match goal with |- context [filter ?x] => destruct (filter x) end; reflexivity.
Qed.

(* ---- newEngine's tail *)
(* the text handed to Engine.Load for -e: probe the regenerated function with an engine that answers with the text it got *)
Definition gen_e_probe (flagE : bytes) : bytes :=
  match gen_new_engine_tail [] flagE (fun _ => inr []) (fun _ _ d => Some d) with Ok (NEFail _ d) => d | _ => [] end.

Fixpoint until_marker (s : bytes) : bytes := match s with [] => [] | c :: r => if c =? 0 then [] else c :: until_marker r end.
Fixpoint after_marker (s : bytes) : bytes := match s with [] => [] | c :: r => if c =? 0 then r else after_marker r end.
Definition gen_e_head : bytes := Eval vm_compute in until_marker (gen_e_probe [0]).
Definition gen_e_tail : bytes := Eval vm_compute in after_marker (gen_e_probe [0]).
Definition gen_e_text (flagE : bytes) : bytes := gen_e_head ++ flagE ++ gen_e_tail.

Lemma gen_new_engine_tail_is_spec flagRules flagE read_file load :
  gen_new_engine_tail flagRules flagE read_file load = Ok (new_engine_spec read_file load gen_e_text flagRules flagE).
Proof.
  unfold gen_new_engine_tail, new_engine_spec.
  destruct (bytes_eqb flagRules []) eqn:E; cbn [negb].
  - destruct (bytes_eqb flagE []) eqn:E2; cbn [negb].
    + reflexivity.
    + unfold sprintf_o.
      match goal with |- context [sprintf ?f [AStr flagE]] =>
        replace (sprintf f [AStr flagE]) with (Some (gen_e_text flagE)) by (vm_compute; reflexivity) end.
      cbn [bind app]. unfold e_name. destruct (load [] [101] (gen_e_text flagE)); reflexivity.
  - unfold names_of, comma.
    match goal with |- ne_for ?body ?xs [] ?k = _ =>
      assert (H : forall ys l, ne_for body ys l k = Ok (load_all read_file load (map trim_space ys) l)); [|apply H] end.
    induction ys as [|x xs IH]; intros l; cbn [ne_for map load_all]; [reflexivity|].
    destruct (read_file (trim_space x)) as [d|e].
    + destruct (load l (trim_space x) d) as [e|].
      * unfold sprintf_o, parse_err. cbn [sprintf Z.eqb Pos.eqb orb option_map bind app]. rewrite app_nil_r. reflexivity.
      * cbn [bind]. apply IH.
    + unfold sprintf_o, read_err. cbn [sprintf Z.eqb Pos.eqb orb option_map bind app]. rewrite app_nil_r. reflexivity.
Qed.

Lemma gen_e_text_ok : e_text_ok gen_e_text.
Proof. exists gen_e_head, gen_e_tail. split; [reflexivity|]. split; vm_compute; reflexivity. Qed.

(* ---- what the engine is run with *)
Lemma gen_run_context_ok : run_context_ok gen_run_context = true.
Proof. vm_compute. reflexivity. Qed.

(* ---- what a driver reads after the pass: either the adapter copies the bytes it keeps, or no site of the engine hands out
   anything but a fresh buffer *)
Lemma gen_texts_condition : keeps_copy gen_adapter_keeps || forallb site_is_fresh gen_replacement_sites = true.
Proof. vm_compute. reflexivity. Qed.

Lemma gen_replacement_sites_nonempty : gen_replacement_sites <> [].
Proof. discriminate. Qed.

Lemma gen_text_edits_stable m0 ps :
  Forall (produced_by gen_replacement_sites) ps ->
  read_late (al_run gen_adapter_keeps m0 ps) = reported (al_run gen_adapter_keeps m0 ps).
Proof. apply texts_stable_sites; [exact gen_replacement_sites_nonempty|exact gen_texts_condition]. Qed.

(* ---- the pool of runner states: taken before the files are run, given back by a deferred Put, used nowhere else *)
Lemma gen_pool_discipline :
  discipline_of gen_pool_block = PutAtEnd /\ gen_pool_block_before_run_loop = true /\ gen_pool_stray_uses = [].
Proof. repeat split; vm_compute; reflexivity. Qed.

Lemma gen_states_exclusive evs :
  let s := prun (discipline_of gen_pool_block) evs in
  NoDup (held s) /\ (forall st, In st (held s) -> ~ In st (ps_pool s)).
Proof. apply block_keeps_states_exclusive. exact (proj1 gen_pool_discipline). Qed.
