(* Property C19 -- theorems only. Each is closed by `exact` of a lemma proved in Inst_Adapter.v about the model
   fragments REGENERATED from analyzer/analyzer.go on this run, or of a generic theorem of RG.Adapter.Model
   instantiated with them. *)
From Coq Require Import List ZArith Lia Bool.
From RG.Base Require Import Outcome GoSlice.
From RG.Adapter Require Import Str Model Conc NewEngine Alias Pool.
From RGW Require Import Gen_Adapter Inst_Adapter.
Import ListNotations.
Local Open Scope Z_scope.

(* One diagnostic per engine report, in the engine's order, each the specified image of its report
   (position, message with or without the `group: msg (file:line)` decoration, one TextEdit = the suggestion). *)
Theorem C19_diagnostics_one_per_report :
  forall pl reports, relay (gen_report_cb pl) reports = Ok (map (diag_of_report pl) reports).
Proof. exact (fun pl reports => relay_one_per_report _ pl reports (gen_report_cb_ok pl)). Qed.
Print Assumptions C19_diagnostics_one_per_report.

(* the decoration is dropped exactly when -e is used *)
Theorem C19_decoration_unless_e : forall flagE, gen_print_rule_location flagE = true <-> flagE = [].
Proof. exact gen_print_rule_location_spec. Qed.
Print Assumptions C19_decoration_unless_e.

(* -enable / -disable select exactly the named groups, for ALL flag strings (spaces, empty entries, unknown names) *)
Theorem C19_group_filter_exact :
  forall enable disable g,
    gen_filter enable disable g = true <->
    (enable = all_lit \/ In (g_name g) (map trim_space (split_on comma enable))) /\
    ~ In (g_name g) (map trim_space (split_on comma disable)).
Proof. exact gen_filter_exact. Qed.
Print Assumptions C19_group_filter_exact.

(* ... and the engine hands the filter the name a group is registered and reported under (bundle prefix applied),
   keeping the group iff the filter accepts it (regenerated from ir_loader.go:loadRuleGroup). *)
Theorem C19_filter_sees_reported_name :
  forall prefix name filter,
    load_group_head gen_filter_call_site prefix name filter [] =
    Some (if filter (final_name prefix name) then Some (final_name prefix name) else None).
Proof. exact gen_filter_sees_final_name. Qed.
Print Assumptions C19_filter_sees_reported_name.

(* the cached-engine function regenerated from prepareEngine *)
Definition prep := gen_prep.

(* The rule set is loaded once per process: over ANY sequence of passes newEngine runs exactly once. *)
Theorem C19_engine_loaded_once :
  forall lo los, total_loads (run_preps prep g_init (lo :: los)) = 1%nat.
Proof. exact (loaded_once prep gen_prep_is_spec). Qed.
Print Assumptions C19_engine_loaded_once.

Theorem C19_first_engine_serves_all_passes :
  forall e los, Forall (fun rn => fst rn = {| pr_engine := Some e; pr_err := None |}) (run_preps prep g_init (LoadOk e :: los)).
Proof. exact (first_engine_kept prep gen_prep_is_spec). Qed.
Print Assumptions C19_first_engine_serves_all_passes.

(* A load failure is reported as an error once, not per package, and never retried. *)
Theorem C19_load_failure_reported_once :
  forall m los, exists rest,
    run_preps prep g_init (LoadErr m :: los) = ({| pr_engine := None; pr_err := Some m |}, 1%nat) :: rest
    /\ Forall (fun rn => rn = ({| pr_engine := None; pr_err := None |}, 0%nat)) rest
    /\ errors_returned (run_preps prep g_init (LoadErr m :: los)) = 1%nat.
Proof. exact (failure_reported_once prep gen_prep_is_spec). Qed.
Print Assumptions C19_load_failure_reported_once.

Theorem C19_at_most_one_load_error : forall los, (errors_returned (run_preps prep g_init los) <= 1)%nat.
Proof. exact (at_most_one_error prep gen_prep_is_spec). Qed.
Print Assumptions C19_at_most_one_load_error.

(* Whole histories of passes: what every pass of the process returns. *)
Theorem C19_adapter_relays :
  forall pl ps,
    run_passes prep gen_report_cb pl g_init ps =
    match ps with
    | [] => []
    | p :: rest =>
        match pi_load p with
        | LoadOk e => map (expected_with_engine pl e) (p :: rest)
        | LoadErr m => PErr (load_rules_prefix ++ m) :: map (fun _ => PDiags []) rest
        end
    end.
Proof. exact (adapter_relays prep gen_prep_is_spec gen_report_cb gen_report_cb_ok). Qed.
Print Assumptions C19_adapter_relays.

Theorem C19_run_head_shape : gen_run_head = expected_run_head.
Proof. exact gen_run_head_ok. Qed.
Print Assumptions C19_run_head_shape.

(* Every access prepareEngine makes to the globals lies between Lock and Unlock, on every path;
   and every access site of the package obeys the discipline of Model.site_ok. *)
Theorem C19_prepare_serialised :
  (forall g lo, serialised (po_trace (run_tree gen_prepare_tree false g lo)) = true)
  /\ forallb site_ok gen_adapter_sites = true.
Proof. exact (conj gen_prepare_serialised gen_sites_ok). Qed.
Print Assumptions C19_prepare_serialised.

(* Passes running in parallel: any number of goroutines, any schedule (small-step interleaving of the regenerated
   prepareEngine tree followed by runAnalyzer's unlocked reads of runnerStatePool / globalEngine). *)
Theorem C19_no_data_race_on_globals :
  forall lo c, reachable gen_prepare_tree lo c -> ~ race c.
Proof. exact gen_no_race. Qed.
Print Assumptions C19_no_data_race_on_globals.

(* ... the completed prepareEngine calls are, in lock order, a history of the sequential specification ... *)
Theorem C19_concurrent_passes_linearizable :
  forall lo c, reachable gen_prepare_tree lo c -> c_mu c = None ->
               hist_rel lo (gh_hist (c_gh c)) (c_g c) (gh_total (c_gh c)).
Proof. exact gen_linearizable. Qed.
Print Assumptions C19_concurrent_passes_linearizable.

(* ... and newEngine is called at most once per process whatever the schedule. *)
Theorem C19_concurrent_loaded_once :
  forall lo c, reachable gen_prepare_tree lo c -> (gh_total (c_gh c) <= 1)%nat.
Proof. exact gen_concurrent_loaded_once. Qed.
Print Assumptions C19_concurrent_loaded_once.

(* newEngine after the LoadContext (regenerated: the switch over -rules / -e with its loop, reads, loads and error wrapping)
   IS the specification, for all flag strings, all file systems and all engines: *)
Theorem C19_new_engine_tail_is_spec :
  forall flagRules flagE read_file load,
    gen_new_engine_tail flagRules flagE read_file load = Ok (new_engine_spec read_file load gen_e_text flagRules flagE).
Proof. exact gen_new_engine_tail_is_spec. Qed.
Print Assumptions C19_new_engine_tail_is_spec.

(* -rules: every named file (names trimmed, as split at commas) is read and loaded exactly once, in the order of the flag,
   under the name it was read from, whatever -e says *)
Theorem C19_rules_files_loaded_once_in_order :
  forall flagRules flagE read_file load,
    flagRules <> [] -> all_fine read_file load (names_of flagRules) ->
    gen_new_engine_tail flagRules flagE read_file load
    = Ok (NEDone (map (fun f => (f, contents read_file f)) (names_of flagRules))).
Proof.
  intros. rewrite gen_new_engine_tail_is_spec. f_equal. now apply rules_files_loaded_once_in_order.
Qed.
Print Assumptions C19_rules_files_loaded_once_in_order.

(* the first file that cannot be read or loaded ends the load: the files before it were loaded, none after it is touched,
   and the error names the stage (`read rules file: ` / `parse rules file: ` + the cause) *)
Theorem C19_first_failure_ends_the_load :
  forall flagRules flagE read_file load l msg,
    flagRules <> [] -> gen_new_engine_tail flagRules flagE read_file load = Ok (NEFail l msg) ->
    exists before f after, names_of flagRules = before ++ f :: after
      /\ l = map (fun g => (g, contents read_file g)) before
      /\ ((exists e, read_file f = inr e /\ msg = read_err ++ e) \/
          (exists d e, read_file f = inl d /\ load l f d = Some e /\ msg = parse_err ++ e)).
Proof.
  intros flagRules flagE read_file load l msg Hne H. rewrite gen_new_engine_tail_is_spec in H. inversion H as [H'].
  exact (rules_first_failure_ends_the_load read_file load gen_e_text flagRules flagE l msg Hne H').
Qed.
Print Assumptions C19_first_failure_ends_the_load.

(* -e alone: ONE text is loaded, under the name `e`: the fixed frame (up to white space)
   `package gorules import ".../dsl" func e(m dsl.Matcher) {` <the flag, verbatim> `.Report("$$") }`;
   the engine's error is returned as it is; neither flag is an error *)
Theorem C19_e_rule_text :
  e_text_ok gen_e_text
  /\ (forall flagE read_file load, flagE <> [] -> load [] e_name (gen_e_text flagE) = None ->
        gen_new_engine_tail [] flagE read_file load = Ok (NEDone [(e_name, gen_e_text flagE)]))
  /\ (forall flagE read_file load m, flagE <> [] -> load [] e_name (gen_e_text flagE) = Some m ->
        gen_new_engine_tail [] flagE read_file load = Ok (NEFail [] m))
  /\ (forall read_file load, gen_new_engine_tail [] [] read_file load = Ok (NEFail [] both_empty)).
Proof.
  split; [exact gen_e_text_ok|]. split; [|split].
  - intros. rewrite gen_new_engine_tail_is_spec. f_equal. now apply e_rule_loaded_alone.
  - intros flagE read_file load m Hne Hl. rewrite gen_new_engine_tail_is_spec. f_equal. unfold new_engine_spec. cbn [bytes_eqb negb].
    destruct (bytes_eqb flagE []) eqn:E; [apply bytes_eqb_eq in E; contradiction|]. cbn [negb]. now rewrite Hl.
  - intros. rewrite gen_new_engine_tail_is_spec. reflexivity.
Qed.
Print Assumptions C19_e_rule_text.

(* ... and through the cached engine: when newEngine fails, the first pass of the process returns `load rules: ` + that
   message and every later pass returns nothing *)
Theorem C19_new_engine_failure_reaches_first_pass :
  forall flagRules flagE read_file load l msg pl p rest,
    gen_new_engine_tail flagRules flagE read_file load = Ok (NEFail l msg) ->
    pi_load p = ne_load_outcome (NEFail l msg) 0%N ->
    run_passes prep gen_report_cb pl g_init (p :: rest) = PErr (load_rules_prefix ++ msg) :: map (fun _ => PDiags []) rest.
Proof.
  intros flagRules flagE read_file load l msg pl p rest _ Hp.
  rewrite (adapter_relays prep gen_prep_is_spec gen_report_cb gen_report_cb_ok). rewrite Hp. reflexivity.
Qed.
Print Assumptions C19_new_engine_failure_reaches_first_pass.

(* the engine is run with the pass's own package, type information, sizes and file set and with the Go version parsed
   from -go: the RunContext literal (regenerated) names each of them exactly once and is not modified afterwards *)
Theorem C19_run_context_forwards_the_pass : run_context_ok gen_run_context = true.
Proof. exact gen_run_context_ok. Qed.
Print Assumptions C19_run_context_forwards_the_pass.

(* []byte values are references. TextEdit.NewText is read by the driver AFTER the pass -- after the engine has run the other
   files of the package and, with the cached engine, other packages on the same pooled RunnerState. For ANY history of
   suggestions (every file of every pass, whatever buffers the runner states hold at the start) produced by the sites of
   package ruleguard that make a Suggestion.Replacement (regenerated, classified), with the adapter filling NewText the
   way the regenerated callback does (the slice it was handed / a copy): what is read at the end is what was reported. *)
Theorem C19_text_edits_read_after_the_pass_are_the_suggestions :
  forall m0 ps, Forall (produced_by gen_replacement_sites) ps ->
    read_late (al_run gen_adapter_keeps m0 ps) = reported (al_run gen_adapter_keeps m0 ps).
Proof. exact gen_text_edits_stable. Qed.
Print Assumptions C19_text_edits_read_after_the_pass_are_the_suggestions.

(* ... and the hypothesis on the sites is not idle: a buffer kept by a runner state, truncated and written again for the
   next file, changes what an adapter that keeps the slice shows afterwards *)
Example c19_shared_buffer :
  reported (al_run KeepAlias ex_mem ex_history) = [ex_long; ex_short] /\
  read_late (al_run KeepAlias ex_mem ex_history) <> reported (al_run KeepAlias ex_mem ex_history) /\
  read_late (al_run KeepCopy ex_mem ex_history) = [ex_long; ex_short].
Proof. split; [reflexivity|]. split; [vm_compute; discriminate|reflexivity]. Qed.

(* The pool of runner states (cached engine). runAnalyzer's block `if runnerStatePool.New != nil { ... }` is regenerated
   statement by statement: Get, ctx.State = what was taken, a DEFERRED Put -- in front of the loop over the files, and no
   other Get / Put in the package. For ANY interleaving of passes (sync.Pool may hand out any pooled state or a new one
   and may forget states at any time): no RunnerState is held by two passes in progress, and none that is held is in
   the pool. *)
Theorem C19_runner_states_are_not_shared_between_running_passes :
  (discipline_of gen_pool_block = PutAtEnd /\ gen_pool_block_before_run_loop = true /\ gen_pool_stray_uses = [])
  /\ forall evs, let s := prun (discipline_of gen_pool_block) evs in
       NoDup (held s) /\ (forall st, In st (held s) -> ~ In st (ps_pool s)).
Proof. exact (conj gen_pool_discipline gen_states_exclusive). Qed.
Print Assumptions C19_runner_states_are_not_shared_between_running_passes.

(* ... which a Put right after the Get would lose *)
Example c19_put_at_once : held (prun PutAtOnce [PBegin 0%nat None; PBegin 1%nat (Some 0%nat)]) = [0; 0]%nat.
Proof. reflexivity. Qed.

(* non-vacuity: concrete, non-trivial instances *)
Example c19_report :
  let r := {| rd_rule_info := {| ri_line := 12; ri_group := {| g_name := [103]; g_filename := [47;120;47;114;46;103;111] |} |};
              rd_node_pos := 77; rd_message := [104;105];
              rd_suggestion := Some {| s_from := 77; s_to := 80; s_replacement := [120] |} |} in
  relay (gen_report_cb true) [r; r] = Ok [diag_of_report true r; diag_of_report true r]
  /\ dg_message (diag_of_report true r) = [103;58;32;104;105;32;40;114;46;103;111;58;49;50;41]   (* "g: hi (r.go:12)" *)
  /\ dg_message (diag_of_report false r) = [104;105].
Proof. repeat split; vm_compute; reflexivity. Qed.

Example c19_filter :
  let g n := {| g_name := n; g_filename := [] |} in
  (* -enable " a ,b" -disable "b , zz" *)
  gen_filter [32;97;32;44;98] [98;32;44;32;122;122] (g [97]) = true /\
  gen_filter [32;97;32;44;98] [98;32;44;32;122;122] (g [98]) = false /\
  gen_filter [32;97;32;44;98] [98;32;44;32;122;122] (g [99]) = false /\
  gen_filter all_lit [] (g [99]) = true /\
  gen_filter (32 :: all_lit) [] (g [99]) = false.
Proof. repeat split; vm_compute; reflexivity. Qed.

Example c19_history :
  map fst (run_preps prep g_init [LoadErr [1]; LoadOk 5%N; LoadOk 6%N])
  = [ {| pr_engine := None; pr_err := Some [1] |}; {| pr_engine := None; pr_err := None |}; {| pr_engine := None; pr_err := None |} ].
Proof. vm_compute. reflexivity. Qed.

(* a concrete interleaving: goroutines 0 and 1 race for a failing load; 1 wins, 0 then sees the sticky flag *)
Example c19_schedule :
  let lo := fun _ : nat => LoadErr [1] in
  let run := fold_left (fun c i => match step lo c i with Some c' => c' | None => c end) in
  let c := run [1;0;1;1;0;1;1;1;1;1;1;1;0;0;0;0;0;0;0;0]%nat (init gen_prepare_tree) in
  c_mu c = None /\ gh_total (c_gh c) = 1%nat
  /\ map (fun e => (fst (fst (fst e)), snd (fst e))) (gh_hist (c_gh c))
     = [(1%nat, {| pr_engine := None; pr_err := Some [1] |}); (0%nat, {| pr_engine := None; pr_err := None |})].
Proof. vm_compute. repeat split; reflexivity. Qed.

Example c19_new_engine :
  let fs := fun f : bytes => if bytes_eqb f [97] then inl [1] else if bytes_eqb f [98] then inl [2] else inr [110;111] in
  (* -rules " a ,b" *)
  gen_new_engine_tail [32;97;32;44;98] [120] fs (fun _ _ _ => None) = Ok (NEDone [([97],[1]); ([98],[2])])
  (* -rules "a,c,b": c cannot be read *)
  /\ gen_new_engine_tail [97;44;99;44;98] [] fs (fun _ _ _ => None) = Ok (NEFail [([97],[1])] (read_err ++ [110;111]))
  (* -rules "a,b": b does not load *)
  /\ gen_new_engine_tail [97;44;98] [] fs (fun _ f _ => if bytes_eqb f [98] then Some [33] else None) = Ok (NEFail [([97],[1])] (parse_err ++ [33])).
Proof. repeat split; vm_compute; reflexivity. Qed.
