(* Property C10 -- theorems about code TRANSLATED from ruleguard/typematch/typematch.go on this run (proved in Inst_C10.v over
   Gen_C10.v, go2coq c10tables). Theorems only. *)
From Coq Require Import List ZArith Bool String.
From RG.Types Require Import GType TypePat GoStrings MatchSkel.
From RGW Require Import Gen_C10 Inst_C10.
Import ListNotations.
Local Open Scope string_scope.

(* the source's `case opNamed:` decides exactly: a named type with a package, the pattern's type name, and the package
   path -- with everything up to and including the first "/vendor/" cut off -- equal to the pattern's path *)
Theorem C10_named_clause_of_the_source : forall is_named has_pkg obj_name obj_path pat_path pat_name k,
  gen_named_clause is_named has_pkg obj_name obj_path pat_path pat_name k =
  is_named && has_pkg && String.eqb pat_name obj_name && String.eqb (strip_vendor obj_path) pat_path && k.
Proof. exact named_clause_is_strip_vendor. Qed.
Print Assumptions C10_named_clause_of_the_source.

(* the model's PNamed case (about which match_sound / match_complete speak) IS that translated clause *)
Theorem C10_model_named_case_is_translated_source : forall ident path name t st k,
  match_k ident (PNamed path name) t st k =
  match unalias_top t with
  | T (HNamed _ pkg nm) _ => gen_named_clause true (negb (String.eqb pkg "")) nm pkg path name (k st)
  | _ => false
  end.
Proof. exact model_named_case_is_the_translated_clause. Qed.
Print Assumptions C10_model_named_case_is_translated_source.

Theorem C10_builtin_names_are_the_predeclared_types :
  subsetb gen_builtin_types builtin_spec = true /\ subsetb builtin_spec gen_builtin_types = true /\
  List.length gen_builtin_types = List.length builtin_spec.
Proof. exact builtin_table_is_the_spec. Qed.
Print Assumptions C10_builtin_names_are_the_predeclared_types.

(* an alias denotes its target at EVERY level of the matched type: the source strips aliases in front of the dispatch of
   matchIdentical (the entry every recursion goes through), as the model does at every entry of match_k *)
Theorem C10_aliases_are_stripped_at_every_entry :
  (gen_match_prologue = ["typ = types.Unalias(typ)"] /\ gen_match_switch_tag = "sub.op") /\
  (forall ident p t st k, match_k ident p t st k = match_k ident p (unalias_top t) st k).
Proof. exact (conj match_prologue_is_unalias model_unaliases_at_every_entry). Qed.
Print Assumptions C10_aliases_are_stripped_at_every_entry.

Theorem C10_parse_placeholders :
  gen_parse_replacements = [("s", "$*", "varSeqPrefix"); ("noDollars", "$", "varPrefix")] /\
  is_prefix gen_varPrefix_bytes gen_varSeqPrefix_bytes = false /\ is_prefix gen_varSeqPrefix_bytes gen_varPrefix_bytes = false.
Proof.
  exact (conj parse_rewrites_seq_before_var
          (conj (proj1 placeholder_prefixes_do_not_overlap) (proj1 (proj2 placeholder_prefixes_do_not_overlap)))).
Qed.
Print Assumptions C10_parse_placeholders.

(* ---- the control skeleton: every constructor case of the source IS the model's case. The clauses of Pattern.matchIdentical are
   translated (go2coq c10skel) into MatchSkel.clause terms -- calls of the matcher, the continuations handed to them and the &&
   structure explicit -- and clause_sem gives them their meaning through the model's matcher for the components. In particular a
   constructor with several components (map: key, value; func: parameters, results) hands the FIRST component the match of the later
   ones followed by `k` as its continuation, so a `$*_` run deep inside the first component is revisited when a later one rejects
   the binding -- which is what C10_match_complete is about. *)
Theorem C10_map_case_of_the_source : forall ident a b t st k,
  match_k ident (PMap a b) t st k =
  match unalias_top t with
  | T HMap [kt; vt] =>
    clause_sem ident (Env (tbl [("sub.subs[0]", a); ("sub.subs[1]", b)]) no (tbl [("typ.Key()", kt); ("typ.Elem()", vt)]) no no)
               (the_clause "opMap") st k
  | _ => false
  end.
Proof. exact map_case. Qed.
Print Assumptions C10_map_case_of_the_source.

Theorem C10_func_case_of_the_source : forall ident ps rs t st k,
  match_k ident (PFunc ps rs) t st k =
  match unalias_top t with
  | T (HSig v) [T HTuple pts; T HTuple rts] =>
    clause_sem ident
      (Env no (tbl [("params", ps); ("results", rs)]) no
           (tbl [("&tupleFielder{x: typ.Params()}", pts); ("&tupleFielder{x: typ.Results()}", rts)])
           (tbl [("typ.Variadic() && (numParams == 0 || params[numParams-1].op != opVarSeq)", v && negb (last_is_seq ps))]))
      (the_clause "opFuncNoSeq,opFunc") st k
  | _ => false
  end.
Proof. exact func_case. Qed.
Print Assumptions C10_func_case_of_the_source.

Theorem C10_element_cases_of_the_source : forall ident,
  (forall q t st k, match_k ident (PPointer q) t st k =
     match unalias_top t with
     | T HPointer [e] => clause_sem ident (Env (tbl [("sub.subs[0]", q)]) no (tbl [("typ.Elem()", e)]) no no) (the_clause "opPointer") st k
     | _ => false end) /\
  (forall q t st k, match_k ident (PSlice q) t st k =
     match unalias_top t with
     | T HSlice [e] => clause_sem ident (Env (tbl [("sub.subs[0]", q)]) no (tbl [("typ.Elem()", e)]) no no) (the_clause "opSlice") st k
     | _ => false end) /\
  (forall d q t st k, match_k ident (PChan d q) t st k =
     match unalias_top t with
     | T (HChan d') [e] =>
       clause_sem ident (Env (tbl [("sub.subs[0]", q)]) no (tbl [("typ.Elem()", e)]) no (tbl [("dir == typ.Dir()", N.eqb d d')])) (the_clause "opChan") st k
     | _ => false end) /\
  (forall fs t st k, match_k ident (PStruct fs) t st k =
     match unalias_top t with
     | T (HStruct _) fts => clause_sem ident (Env no (tbl [("sub.subs", fs)]) no (tbl [("typ", fts)]) no) (the_clause "opStructNoSeq,opStruct") st k
     | _ => false end).
Proof. intro ident. exact (conj (pointer_case ident) (conj (slice_case ident) (conj (chan_case ident) (struct_case ident)))). Qed.
Print Assumptions C10_element_cases_of_the_source.

(* every call of the matcher anywhere in typematch.go hands on a continuation that ends in the caller's own `k`; the one finished
   continuation (matchDone) is what the public entry starts with, and nobody else mentions it *)
Theorem C10_every_case_threads_the_continuation :
  forallb (fun c => threads_k (snd c) || String.eqb (fst (fst c)) "Pattern.MatchIdentical") gen_cont_args = true /\
  filter (fun c => String.eqb (fst (fst c)) "Pattern.MatchIdentical") gen_cont_args = [("Pattern.MatchIdentical", "matchIdentical", KDone)] /\
  gen_matchdone_uses = ["Pattern.MatchIdentical"] /\
  forallb (fun lc => threads_m (cl_ret (snd lc))) gen_clauses = true.
Proof.
  exact (conj (proj1 every_continuation_ends_in_k) (conj (proj1 (proj2 every_continuation_ends_in_k))
          (conj (proj1 (proj2 (proj2 every_continuation_ends_in_k))) (proj1 (proj2 (proj2 (proj2 every_continuation_ends_in_k))))))).
Qed.
Print Assumptions C10_every_case_threads_the_continuation.

(* matchIdenticalFielder as it is written -- an index into the fields and a loop over the lengths of a `$*_` run -- is the model's
   list matcher (every pattern list, field list, state, continuation); the source's statements are the transcribed ones *)
Theorem C10_fielder_of_the_source_is_the_model :
  gen_fielder_stmts =
    ["if len(subs) == 0 { return from == f.NumFields() && k() }";
     "pat := subs[0]";
     "if pat.op == opVarSeq { for next := from; next <= f.NumFields(); next++ { if p.matchIdenticalFielder(state, subs[1:], f, next, k) { return true } } return false }";
     "if from == f.NumFields() { return false }";
     "return p.matchIdentical(state, pat, f.Field(from).Type(), func() bool { return p.matchIdenticalFielder(state, subs[1:], f, from+1, k) })"] /\
  forall ident subs fs st k, fielder_go (match_k ident) subs fs 0 st k = list_k (match_k ident) subs fs st k.
Proof. exact (conj fielder_is_as_transcribed fielder_go_is_the_model). Qed.
Print Assumptions C10_fielder_of_the_source_is_the_model.

(* what the clause does on the near misses of "a vendored copy is the package itself" *)
Example c10tr_vendored_near_misses :
  let ask objp patp := gen_named_clause true true "T" objp patp "T" true in
  ask "app/vendor/example.com/lib" "example.com/lib" = true /\          (* a vendored copy *)
  ask "app/vendor/mirror.org/example.com/lib" "example.com/lib" = false /\  (* merely ends in the path *)
  ask "demo/vendor/example.com/sync" "sync" = false /\
  ask "mirror.org/example.com/lib" "example.com/lib" = false /\          (* the suffix without a vendor directory *)
  ask "app/vendor/example.com/lib/v2" "example.com/lib" = false /\        (* starts with the path *)
  ask "app/xvendor/example.com/lib" "example.com/lib" = false.
Proof. vm_compute. repeat split; reflexivity. Qed.

(* known_findings.d/C10.json vendored-copy-nested-vendor-directories: the cut is after the FIRST vendor element *)
Theorem C10_nested_vendor_first_cut :
  gen_named_clause true true "T" "a/vendor/b/vendor/example.com/lib" "example.com/lib" "T" true = false /\
  gen_named_clause true true "T" "a/vendor/b/vendor/example.com/lib" "b/vendor/example.com/lib" "T" true = true /\
  go_slice "a/vendor/b/vendor/example.com/lib" (go_last_index "a/vendor/b/vendor/example.com/lib" "/vendor/" + 8) 33 = "example.com/lib".
Proof. vm_compute. repeat split; reflexivity. Qed.
