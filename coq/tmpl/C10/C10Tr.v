(* Property C10 -- theorems about code TRANSLATED from ruleguard/typematch/typematch.go on this run (proved in Inst_C10.v over
   Gen_C10.v, go2coq c10tables). Theorems only. *)
From Coq Require Import List ZArith Bool String.
From RG.Types Require Import GType TypePat GoStrings.
From RGW Require Import Gen_C10 Inst_C10.
Import ListNotations.
Local Open Scope string_scope.

(* the source's `case opNamed:` decides exactly: a named type with a package, the pattern's type name, and the package
   path -- with everything up to and including the first "/vendor/" cut off -- equal to the pattern's path *)
Theorem C10_named_clause_of_the_source : forall is_named has_pkg obj_name obj_path pat_path pat_name k,
  gen_named_clause is_named has_pkg obj_name obj_path pat_path pat_name k =
  is_named && has_pkg && String.eqb pat_name obj_name && String.eqb (strip_vendor obj_path) pat_path && k.
Proof. exact named_clause_is_strip_vendor. Qed.
Print Assumptions C10_named_clause_of_the_source.

(* the model's PNamed case (about which match_sound / match_complete speak) IS that translated clause *)
Theorem C10_model_named_case_is_translated_source : forall ident path name t st k,
  match_k ident (PNamed path name) t st k =
  match unalias_top t with
  | T (HNamed _ pkg nm) _ => gen_named_clause true (negb (String.eqb pkg "")) nm pkg path name (k st)
  | _ => false
  end.
Proof. exact model_named_case_is_the_translated_clause. Qed.
Print Assumptions C10_model_named_case_is_translated_source.

Theorem C10_builtin_names_are_the_predeclared_types :
  subsetb gen_builtin_types builtin_spec = true /\ subsetb builtin_spec gen_builtin_types = true /\
  List.length gen_builtin_types = List.length builtin_spec.
Proof. exact builtin_table_is_the_spec. Qed.
Print Assumptions C10_builtin_names_are_the_predeclared_types.

(* an alias denotes its target at EVERY level of the matched type: the source strips aliases in front of the dispatch of
   matchIdentical (the entry every recursion goes through), as the model does at every entry of match_k *)
Theorem C10_aliases_are_stripped_at_every_entry :
  (gen_match_prologue = ["typ = types.Unalias(typ)"] /\ gen_match_switch_tag = "sub.op") /\
  (forall ident p t st k, match_k ident p t st k = match_k ident p (unalias_top t) st k).
Proof. exact (conj match_prologue_is_unalias model_unaliases_at_every_entry). Qed.
Print Assumptions C10_aliases_are_stripped_at_every_entry.

Theorem C10_parse_placeholders :
  gen_parse_replacements = [("s", "$*", "varSeqPrefix"); ("noDollars", "$", "varPrefix")] /\
  is_prefix gen_varPrefix_bytes gen_varSeqPrefix_bytes = false /\ is_prefix gen_varSeqPrefix_bytes gen_varPrefix_bytes = false.
Proof.
  exact (conj parse_rewrites_seq_before_var
          (conj (proj1 placeholder_prefixes_do_not_overlap) (proj1 (proj2 placeholder_prefixes_do_not_overlap)))).
Qed.
Print Assumptions C10_parse_placeholders.

(* what the clause does on the near misses of "a vendored copy is the package itself" *)
Example c10tr_vendored_near_misses :
  let ask objp patp := gen_named_clause true true "T" objp patp "T" true in
  ask "app/vendor/example.com/lib" "example.com/lib" = true /\          (* a vendored copy *)
  ask "app/vendor/mirror.org/example.com/lib" "example.com/lib" = false /\  (* merely ends in the path *)
  ask "demo/vendor/example.com/sync" "sync" = false /\
  ask "mirror.org/example.com/lib" "example.com/lib" = false /\          (* the suffix without a vendor directory *)
  ask "app/vendor/example.com/lib/v2" "example.com/lib" = false /\        (* starts with the path *)
  ask "app/xvendor/example.com/lib" "example.com/lib" = false.
Proof. vm_compute. repeat split; reflexivity. Qed.

(* known_findings.d/C10.json vendored-copy-nested-vendor-directories: the cut is after the FIRST vendor element *)
Theorem C10_nested_vendor_first_cut :
  gen_named_clause true true "T" "a/vendor/b/vendor/example.com/lib" "example.com/lib" "T" true = false /\
  gen_named_clause true true "T" "a/vendor/b/vendor/example.com/lib" "b/vendor/example.com/lib" "T" true = true /\
  go_slice "a/vendor/b/vendor/example.com/lib" (go_last_index "a/vendor/b/vendor/example.com/lib" "/vendor/" + 8) 33 = "example.com/lib".
Proof. vm_compute. repeat split; reflexivity. Qed.
