(* Property C10 -- theorems only (proved in RG.Types.TypePat / TypePatInst over the model `match_pat_x`, which every run
   executes against typematch.Pattern.MatchIdentical on the pattern trees typematch.Parse really built). *)
From Coq Require Import List ZArith NArith Bool String.
From RG.Types Require Import GType XIdentical TypePat TypePatInst TypePatClosed.
Import ListNotations.
Local Open Scope string_scope.

(* a match implies an assignment of types (of the matched type's universe) and lengths to the variables, and of runs to
   the $*_, under which the pattern is the type *)
Theorem C10_match_sound : forall u p t, ok u t -> match_pat_x p t = true -> denotes_x u p t.
Proof. exact match_sound_x. Qed.
Print Assumptions C10_match_sound.

(* every such assignment is found: sequences anywhere, repeated variables across lists, nested lists *)
Theorem C10_match_complete : forall u p t, ok u t -> denotes_x u p t -> match_pat_x p t = true.
Proof. exact match_complete_x. Qed.
Print Assumptions C10_match_complete.

Theorem C10_match_iff_denotes : forall u p t, ok u t -> (match_pat_x p t = true <-> denotes_x u p t).
Proof. exact match_iff_denotes_x. Qed.
Print Assumptions C10_match_iff_denotes.

(* a pattern without variables (builtin types, pointers, slices, arrays, maps, channels, signatures, qualified names)
   matches precisely the types identical to the type it spells; `plain`: no vendored paths (a vendored copy is treated as
   the package itself by design) and no instantiated named types (recorded finding below) *)
Theorem C10_closed_pattern_is_identity : forall u p t,
  closed p = true -> ok u t -> plain t = true -> match_pat_x p t = go_identicalb (type_of u p) t.
Proof. exact closed_pattern_is_identity. Qed.
Print Assumptions C10_closed_pattern_is_identity.

(* ---- recorded findings, as facts of the faithful model *)
(* known_findings.d/C10.json named-pattern-matches-instantiations: `p.L` matches every instantiation of a generic L *)
Theorem C10_named_pattern_ignores_type_arguments :
  match_pat_x (PNamed "p" "L") (T (HNamed 1 "p" "L") [T (HBasic 2) []]) = true /\
  match_pat_x (PNamed "p" "L") (T (HNamed 1 "p" "L") [T (HBasic 17) []]) = true.
Proof. vm_compute. split; reflexivity. Qed.

(* ---- non-vacuity and the former defect #18 *)
Definition tint := T (HBasic 2) [].
Definition tstr := T (HBasic 17) [].
Definition sig (ps rs : list gtype) := T (HSig false) [T HTuple ps; T HTuple rs].
Definition pint := PBuiltin tint.
Definition pstr := PBuiltin tstr.

(* func($*_, int, string) against func(int, int, string): needs a second run length for $*_ *)
Example c10_backtracks : match_pat_x (PFunc [PVarSeq; pint; pstr] []) (sig [tint; tint; tstr] []) = true.
Proof. vm_compute. reflexivity. Qed.
(* func($*_, $x, $*_) $x against func(int, string) string: the binding made for the first alternative is undone *)
Example c10_rebinding : match_pat_x (PFunc [PVarSeq; PVar "x"; PVarSeq] [PVar "x"]) (sig [tint; tstr] [tstr]) = true.
Proof. vm_compute. reflexivity. Qed.
Example c10_repeated_var_must_agree :
  match_pat_x (PMap (PVar "x") (PSlice (PVar "x"))) (T HMap [tstr; T HSlice [tint]]) = false /\
  match_pat_x (PMap (PVar "x") (PSlice (PVar "x"))) (T HMap [tstr; T HSlice [T (HAlias 1 "p" "S") [tstr]]]) = true.
Proof. vm_compute. split; reflexivity. Qed.
Example c10_hypotheses_satisfiable :
  ok 1 (sig [tint; T (HNamed 1 "p" "N") []] [tstr]) /\
  denotes_x 1 (PFunc [PVarSeq; PNamed "p" "N"] [PVar "r"]) (sig [tint; T (HNamed 1 "p" "N") []] [tstr]).
Proof.
  split; [split; reflexivity|]. apply match_sound_x; [split; reflexivity|vm_compute; reflexivity].
Qed.
Example c10_closed_hypotheses_satisfiable :
  let p := PFunc [PMap (PBuiltin tstr) (PSlice (PNamed "p" "N")); PPointer pint] [PChan 0 (PArrayN 4 pstr)] in
  let t := T (HSig false) [T HTuple [T HMap [tstr; T HSlice [T (HNamed 1 "p" "N") []]]; T (HAlias 1 "p" "PI") [T HPointer [tint]]];
                           T HTuple [T (HChan 0) [T (HArray 4) [tstr]]]] in
  closed p = true /\ ok 1 t /\ plain t = true /\ match_pat_x p t = true /\ go_identicalb (type_of 1 p) t = true.
Proof. cbn zeta. split; [reflexivity|]. split; [split; reflexivity|]. split; [reflexivity|]. split; vm_compute; reflexivity. Qed.
Example c10_vendored_named :
  match_pat_x (PNamed "example.com/lib" "T") (T (HNamed 1 "example.com/app/vendor/example.com/lib" "T") []) = true /\
  match_pat_x (PNamed "example.com/lib" "T") (T (HNamed 1 "example.com/other/lib" "T") []) = false.
Proof. vm_compute. split; reflexivity. Qed.
Example c10_variadic_only_through_trailing_seq :
  match_pat_x (PFunc [PSlice pint] []) (T (HSig true) [T HTuple [T HSlice [tint]]; T HTuple []]) = false /\
  match_pat_x (PFunc [PVarSeq] []) (T (HSig true) [T HTuple [T HSlice [tint]]; T HTuple []]) = true.
Proof. vm_compute. split; reflexivity. Qed.
