(* C10: obligations about code TRANSLATED from /repo's ruleguard/typematch/typematch.go on this run (Gen_C10.v, go2coq c10tables). *)
From Coq Require Import List ZArith Bool String Ascii Lia.
From RG.Types Require Import GType TypePat GoStrings.
From RGW Require Import Gen_C10.
Import ListNotations.
Local Open Scope string_scope.

(* ---- the `case opNamed:` clause is the PNamed case of the model: same name, and the object's package path with the
   vendor directory cut off (strip_vendor) equal to the pattern's path -- for ALL paths and names *)
Lemma named_clause_is_strip_vendor : forall is_named has_pkg obj_name obj_path pat_path pat_name k,
  gen_named_clause is_named has_pkg obj_name obj_path pat_path pat_name k =
  is_named && has_pkg && String.eqb pat_name obj_name && String.eqb (strip_vendor obj_path) pat_path && k.
Proof.
  intros. unfold gen_named_clause, strip_vendor, go_index.
  destruct is_named; [|reflexivity]. destruct has_pkg; [|reflexivity]. cbn [negb andb].
  destruct (String.eqb pat_name obj_name); [|reflexivity]. cbn [negb andb].
  destruct (String.index 0 "/vendor/" obj_path) as [m|].
  - assert (E : Z.eqb (Z.of_nat m) (Z.opp 1) = false) by (apply Z.eqb_neq; lia). rewrite E. cbn [negb].
    change (Z.of_nat (String.length "/vendor/")) with 8%Z.
    replace (Z.add (Z.of_nat m) 8) with (Z.of_nat (m + 8)) by lia.
    rewrite go_slice_tail. reflexivity.
  - cbn. reflexivity.
Qed.

(* hence: the PNamed case of the model matcher, for every identity test, type, state and continuation, is the translated clause *)
Lemma model_named_case_is_the_translated_clause : forall ident path name t st k,
  match_k ident (PNamed path name) t st k =
  match unalias_top t with
  | T (HNamed _ pkg nm) _ => gen_named_clause true (negb (String.eqb pkg "")) nm pkg path name (k st)
  | _ => false
  end.
Proof.
  intros. cbn [match_k]. destruct (unalias_top t) as [h args]. destruct h; try reflexivity.
  rewrite named_clause_is_strip_vendor. cbn [andb]. reflexivity.
Qed.

(* ---- every entry of matchIdentical (the public one and every recursive one, whatever the pattern node) first replaces the
   matched type by what it is an alias of, and only then dispatches on the pattern node: the model's `let t := unalias_top t0` *)
Lemma match_prologue_is_unalias : gen_match_prologue = ["typ = types.Unalias(typ)"] /\ gen_match_switch_tag = "sub.op".
Proof. split; reflexivity. Qed.

Lemma unalias_top_idem t : unalias_top (unalias_top t) = unalias_top t.
Proof.
  induction t as [h xs IH] using gtype_ind'. destruct h; try reflexivity.
  destruct xs as [|r [|? ?]]; try reflexivity. cbn [unalias_top]. inversion IH; subst; assumption.
Qed.

(* the model applies the same step at every entry, for every pattern node: matching a type and matching what it is an alias of
   are the same thing at any depth *)
Lemma model_unaliases_at_every_entry : forall ident p t st k, match_k ident p t st k = match_k ident p (unalias_top t) st k.
Proof. intros. destruct p; cbn [match_k]; cbv zeta; rewrite ?unalias_top_idem; reflexivity. Qed.

(* ---- builtinTypeByName: every predeclared type name a pattern can use stands for the basic type of that name
   (go/types kind numbers), byte for uint8, rune for int32, error for the universe type *)
Definition builtin_spec : list (string * Z) := [
  ("bool", 1); ("int", 2); ("int8", 3); ("int16", 4); ("int32", 5); ("int64", 6); ("uint", 7); ("uint8", 8); ("uint16", 9);
  ("uint32", 10); ("uint64", 11); ("uintptr", 12); ("float32", 13); ("float64", 14); ("complex64", 15); ("complex128", 16);
  ("string", 17); ("error", -1); ("byte", 8); ("rune", 5)]%Z.

Definition entry_eqb (a b : string * Z) : bool := String.eqb (fst a) (fst b) && Z.eqb (snd a) (snd b).
Definition subsetb (l1 l2 : list (string * Z)) : bool := forallb (fun a => existsb (entry_eqb a) l2) l1.

Lemma builtin_table_is_the_spec :
  subsetb gen_builtin_types builtin_spec = true /\ subsetb builtin_spec gen_builtin_types = true /\
  List.length gen_builtin_types = List.length builtin_spec.
Proof. repeat split; vm_compute; reflexivity. Qed.

(* ---- Parse rewrites `$*` first and `$` second (the other order would turn `$*_` into a variable followed by `*_`), and
   neither placeholder prefix is a prefix of the other (parseExpr tests them one after the other) *)
Lemma parse_rewrites_seq_before_var :
  gen_parse_replacements = [("s", "$*", "varSeqPrefix"); ("noDollars", "$", "varPrefix")].
Proof. reflexivity. Qed.

Fixpoint is_prefix (p l : list nat) : bool :=
  match p, l with
  | [], _ => true
  | a :: p', b :: l' => Nat.eqb a b && is_prefix p' l'
  | _ :: _, [] => false
  end.

Lemma placeholder_prefixes_do_not_overlap :
  is_prefix gen_varPrefix_bytes gen_varSeqPrefix_bytes = false /\ is_prefix gen_varSeqPrefix_bytes gen_varPrefix_bytes = false /\
  gen_varPrefix_bytes <> [] /\ gen_varSeqPrefix_bytes <> [] /\
  (* not ASCII letters, digits or `_` only: cannot collide with an identifier the user wrote; no `$` left *)
  existsb (fun b => Nat.ltb 127 b) gen_varPrefix_bytes = true /\ existsb (fun b => Nat.ltb 127 b) gen_varSeqPrefix_bytes = true.
Proof. repeat split; try (vm_compute; reflexivity); discriminate. Qed.

(* ================================================================ the control skeleton of the matcher (go2coq c10skel.go) *)
From RG.Types Require Import MatchSkel.

(* the clauses that are translated, the type each of them asserts, their local definitions; the rest binds variables in the
   matcher state (opVar, opArray) or is translated statement by statement elsewhere (opNamed -> gen_named_clause) *)
Lemma translated_clauses :
  map (fun lc => (fst lc, cl_assert (snd lc))) gen_clauses =
    [("opBuiltinType", ""); ("opPointer", "*types.Pointer"); ("opSlice", "*types.Slice"); ("opMap", "*types.Map"); ("opChan", "*types.Chan");
     ("opFuncNoSeq,opFunc", "*types.Signature"); ("opStructNoSeq,opStruct", "*types.Struct"); ("opAnyInterface", "")] /\
  gen_untranslated_cases = ["opVar"; "opArray"; "opNamed"] /\
  gen_matcher_params = ["p: state, sub, typ, k"; "p: state, subs, f, from, k"] /\
  map (fun lc => (fst lc, cl_lets (snd lc))) (filter (fun lc => negb (Nat.eqb (List.length (cl_lets (snd lc))) 0)) gen_clauses) =
    [("opChan", [("dir", "sub.value.(types.ChanDir)")]);
     ("opFuncNoSeq,opFunc", [("numParams", "sub.value.(int)"); ("params", "sub.subs[:numParams]"); ("results", "sub.subs[numParams:]")]);
     ("opAnyInterface", [("ok", "typ.(*types.Interface)")])].
Proof. repeat split; vm_compute; reflexivity. Qed.

Definition the_clause (label : string) : clause :=
  match lookup_s gen_clauses label with Some c => c | None => Clause "?" [] ["<missing clause>"] (MConst false) end.
Definition tbl {A} (l : list (string * A)) : string -> option A := lookup_s l.
Definition no {A} : string -> option A := fun _ => None.

(* ---- per constructor: the model's case IS the meaning of the translated clause, for every identity test, sub-patterns,
   matched type, state and continuation. The environments say what the Go names of the clause stand for: `sub.subs[i]` the i-th
   sub-pattern, `typ.Elem()` / `typ.Key()` the component types, the fielders the parameter / result / field types. *)
Ltac skel_case_t :=
  intros; cbn [match_k]; cbv zeta;
  match goal with |- context [unalias_top ?t] => destruct (unalias_top t) as [h xs] end;
  repeat first [reflexivity
               | match goal with |- context [match ?x with _ => _ end] => is_var x; destruct x end
               | match goal with |- context [?v && negb (last_is_seq ?ps)] => destruct (v && negb (last_is_seq ps)) end].

Ltac skel_case :=
  intros; cbn [match_k]; cbv zeta;
  repeat first [reflexivity | match goal with |- context [match ?x with _ => _ end] => is_var x; destruct x end].

Section SkelCases.
  Variable ident : gtype -> gtype -> bool.

  Lemma builtin_case : forall b t st k,
    match_k ident (PBuiltin b) t st k =
    clause_sem ident (Env no no no no (tbl [("xtypes.Identical(typ, sub.value.(types.Type))", ident (unalias_top t) b)])) (the_clause "opBuiltinType") st k.
  Proof. intros. reflexivity. Qed.

  Lemma pointer_case : forall q t st k,
    match_k ident (PPointer q) t st k =
    match unalias_top t with
    | T HPointer [e] => clause_sem ident (Env (tbl [("sub.subs[0]", q)]) no (tbl [("typ.Elem()", e)]) no no) (the_clause "opPointer") st k
    | _ => false
    end.
  Proof. skel_case_t. Qed.

  Lemma slice_case : forall q t st k,
    match_k ident (PSlice q) t st k =
    match unalias_top t with
    | T HSlice [e] => clause_sem ident (Env (tbl [("sub.subs[0]", q)]) no (tbl [("typ.Elem()", e)]) no no) (the_clause "opSlice") st k
    | _ => false
    end.
  Proof. skel_case_t. Qed.

  (* the key's continuation is the match of the value followed by k: a `$*_` run inside the key is revisited when the value
     (or anything after the map) rejects the binding *)
  Lemma map_case : forall a b t st k,
    match_k ident (PMap a b) t st k =
    match unalias_top t with
    | T HMap [kt; vt] =>
      clause_sem ident (Env (tbl [("sub.subs[0]", a); ("sub.subs[1]", b)]) no (tbl [("typ.Key()", kt); ("typ.Elem()", vt)]) no no)
                 (the_clause "opMap") st k
    | _ => false
    end.
  Proof. skel_case_t. Qed.

  Lemma chan_case : forall d q t st k,
    match_k ident (PChan d q) t st k =
    match unalias_top t with
    | T (HChan d') [e] =>
      clause_sem ident (Env (tbl [("sub.subs[0]", q)]) no (tbl [("typ.Elem()", e)]) no (tbl [("dir == typ.Dir()", N.eqb d d')]))
                 (the_clause "opChan") st k
    | _ => false
    end.
  Proof. skel_case_t. Qed.

  (* parameters first, with the match of the results followed by k as their continuation; a variadic signature is rejected
     unless the parameter patterns end in `$*_` *)
  Lemma func_case : forall ps rs t st k,
    match_k ident (PFunc ps rs) t st k =
    match unalias_top t with
    | T (HSig v) [T HTuple pts; T HTuple rts] =>
      clause_sem ident
        (Env no (tbl [("params", ps); ("results", rs)]) no
             (tbl [("&tupleFielder{x: typ.Params()}", pts); ("&tupleFielder{x: typ.Results()}", rts)])
             (tbl [("typ.Variadic() && (numParams == 0 || params[numParams-1].op != opVarSeq)", v && negb (last_is_seq ps))]))
        (the_clause "opFuncNoSeq,opFunc") st k
    | _ => false
    end.
  Proof. skel_case_t. Qed.

  Lemma struct_case : forall fs t st k,
    match_k ident (PStruct fs) t st k =
    match unalias_top t with
    | T (HStruct _) fts => clause_sem ident (Env no (tbl [("sub.subs", fs)]) no (tbl [("typ", fts)]) no) (the_clause "opStructNoSeq,opStruct") st k
    | _ => false
    end.
  Proof. skel_case_t. Qed.

  Lemma any_interface_case : forall t st k,
    match_k ident PAnyInterface t st k =
    clause_sem ident (Env no no no no (tbl [("ok", match unalias_top t with T (HInterface _) _ => true | _ => false end)]))
               (the_clause "opAnyInterface") st k.
  Proof. skel_case_t. Qed.
End SkelCases.

(* ---- the continuation discipline, for EVERY call of the matcher in the file (the translated clauses, opArray's two calls,
   the loop and the element call of matchIdenticalFielder): the continuation handed over ends in the caller's own `k`; the only
   finished continuation is the one the public entry starts with; nobody else mentions matchDone *)
Lemma every_continuation_ends_in_k :
  forallb (fun c => threads_k (snd c) || String.eqb (fst (fst c)) "Pattern.MatchIdentical") gen_cont_args = true /\
  filter (fun c => String.eqb (fst (fst c)) "Pattern.MatchIdentical") gen_cont_args = [("Pattern.MatchIdentical", "matchIdentical", KDone)] /\
  gen_matchdone_uses = ["Pattern.MatchIdentical"] /\
  forallb (fun lc => threads_m (cl_ret (snd lc))) gen_clauses = true /\
  map (fun c => fst (fst c)) gen_cont_args =
    ["opPointer"; "opSlice"; "opArray"; "opArray"; "opMap"; "opChan"; "opFuncNoSeq,opFunc"; "opStructNoSeq,opStruct";
     "Pattern.MatchIdentical"; "Pattern.matchIdenticalFielder"; "Pattern.matchIdenticalFielder"].
Proof. repeat split; vm_compute; reflexivity. Qed.

(* ---- matchIdenticalFielder is the function MatchSkel.fielder_go transcribes (index `from`, the `next` loop of a `$*_`) *)
Lemma fielder_is_as_transcribed :
  gen_fielder_stmts =
    ["if len(subs) == 0 { return from == f.NumFields() && k() }";
     "pat := subs[0]";
     "if pat.op == opVarSeq { for next := from; next <= f.NumFields(); next++ { if p.matchIdenticalFielder(state, subs[1:], f, next, k) { return true } } return false }";
     "if from == f.NumFields() { return false }";
     "return p.matchIdentical(state, pat, f.Field(from).Type(), func() bool { return p.matchIdenticalFielder(state, subs[1:], f, from+1, k) })"].
Proof. reflexivity. Qed.
