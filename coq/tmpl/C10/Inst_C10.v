(* C10: obligations about code TRANSLATED from /repo's ruleguard/typematch/typematch.go on this run (Gen_C10.v, go2coq c10tables). *)
From Coq Require Import List ZArith Bool String Ascii Lia.
From RG.Types Require Import GType TypePat GoStrings.
From RGW Require Import Gen_C10.
Import ListNotations.
Local Open Scope string_scope.

(* ---- the `case opNamed:` clause is the PNamed case of the model: same name, and the object's package path with the
   vendor directory cut off (strip_vendor) equal to the pattern's path -- for ALL paths and names *)
Lemma named_clause_is_strip_vendor : forall is_named has_pkg obj_name obj_path pat_path pat_name k,
  gen_named_clause is_named has_pkg obj_name obj_path pat_path pat_name k =
  is_named && has_pkg && String.eqb pat_name obj_name && String.eqb (strip_vendor obj_path) pat_path && k.
Proof.
  intros. unfold gen_named_clause, strip_vendor, go_index.
  destruct is_named; [|reflexivity]. destruct has_pkg; [|reflexivity]. cbn [negb andb].
  destruct (String.eqb pat_name obj_name); [|reflexivity]. cbn [negb andb].
  destruct (String.index 0 "/vendor/" obj_path) as [m|].
  - assert (E : Z.eqb (Z.of_nat m) (Z.opp 1) = false) by (apply Z.eqb_neq; lia). rewrite E. cbn [negb].
    change (Z.of_nat (String.length "/vendor/")) with 8%Z.
    replace (Z.add (Z.of_nat m) 8) with (Z.of_nat (m + 8)) by lia.
    rewrite go_slice_tail. reflexivity.
  - cbn. reflexivity.
Qed.

(* hence: the PNamed case of the model matcher, for every identity test, type, state and continuation, is the translated clause *)
Lemma model_named_case_is_the_translated_clause : forall ident path name t st k,
  match_k ident (PNamed path name) t st k =
  match unalias_top t with
  | T (HNamed _ pkg nm) _ => gen_named_clause true (negb (String.eqb pkg "")) nm pkg path name (k st)
  | _ => false
  end.
Proof.
  intros. cbn [match_k]. destruct (unalias_top t) as [h args]. destruct h; try reflexivity.
  rewrite named_clause_is_strip_vendor. cbn [andb]. reflexivity.
Qed.

(* ---- every entry of matchIdentical (the public one and every recursive one, whatever the pattern node) first replaces the
   matched type by what it is an alias of, and only then dispatches on the pattern node: the model's `let t := unalias_top t0` *)
Lemma match_prologue_is_unalias : gen_match_prologue = ["typ = types.Unalias(typ)"] /\ gen_match_switch_tag = "sub.op".
Proof. split; reflexivity. Qed.

Lemma unalias_top_idem t : unalias_top (unalias_top t) = unalias_top t.
Proof.
  induction t as [h xs IH] using gtype_ind'. destruct h; try reflexivity.
  destruct xs as [|r [|? ?]]; try reflexivity. cbn [unalias_top]. inversion IH; subst; assumption.
Qed.

(* the model applies the same step at every entry, for every pattern node: matching a type and matching what it is an alias of
   are the same thing at any depth *)
Lemma model_unaliases_at_every_entry : forall ident p t st k, match_k ident p t st k = match_k ident p (unalias_top t) st k.
Proof. intros. destruct p; cbn [match_k]; cbv zeta; rewrite ?unalias_top_idem; reflexivity. Qed.

(* ---- builtinTypeByName: every predeclared type name a pattern can use stands for the basic type of that name
   (go/types kind numbers), byte for uint8, rune for int32, error for the universe type *)
Definition builtin_spec : list (string * Z) := [
  ("bool", 1); ("int", 2); ("int8", 3); ("int16", 4); ("int32", 5); ("int64", 6); ("uint", 7); ("uint8", 8); ("uint16", 9);
  ("uint32", 10); ("uint64", 11); ("uintptr", 12); ("float32", 13); ("float64", 14); ("complex64", 15); ("complex128", 16);
  ("string", 17); ("error", -1); ("byte", 8); ("rune", 5)]%Z.

Definition entry_eqb (a b : string * Z) : bool := String.eqb (fst a) (fst b) && Z.eqb (snd a) (snd b).
Definition subsetb (l1 l2 : list (string * Z)) : bool := forallb (fun a => existsb (entry_eqb a) l2) l1.

Lemma builtin_table_is_the_spec :
  subsetb gen_builtin_types builtin_spec = true /\ subsetb builtin_spec gen_builtin_types = true /\
  List.length gen_builtin_types = List.length builtin_spec.
Proof. repeat split; vm_compute; reflexivity. Qed.

(* ---- Parse rewrites `$*` first and `$` second (the other order would turn `$*_` into a variable followed by `*_`), and
   neither placeholder prefix is a prefix of the other (parseExpr tests them one after the other) *)
Lemma parse_rewrites_seq_before_var :
  gen_parse_replacements = [("s", "$*", "varSeqPrefix"); ("noDollars", "$", "varPrefix")].
Proof. reflexivity. Qed.

Fixpoint is_prefix (p l : list nat) : bool :=
  match p, l with
  | [], _ => true
  | a :: p', b :: l' => Nat.eqb a b && is_prefix p' l'
  | _ :: _, [] => false
  end.

Lemma placeholder_prefixes_do_not_overlap :
  is_prefix gen_varPrefix_bytes gen_varSeqPrefix_bytes = false /\ is_prefix gen_varSeqPrefix_bytes gen_varPrefix_bytes = false /\
  gen_varPrefix_bytes <> [] /\ gen_varSeqPrefix_bytes <> [] /\
  (* not ASCII letters, digits or `_` only: cannot collide with an identifier the user wrote; no `$` left *)
  existsb (fun b => Nat.ltb 127 b) gen_varPrefix_bytes = true /\ existsb (fun b => Nat.ltb 127 b) gen_varSeqPrefix_bytes = true.
Proof. repeat split; try (vm_compute; reflexivity); discriminate. Qed.
