(* C01: the dispatch tables REGENERATED from /repo on this run (loadSyntaxRule fan-out, multiMatchTags, the flag of
   runRules) against the hand-written specification tables. *)
From Coq Require Import List NArith Bool Arith Lia String.
From RG.Ast Require Import Tree Walker WalkerProof WalkSpec WfCheck.
From RG.Engine Require Import Dispatch RunState MatchEnv LoadFail Reentrant.
From RGW Require Import Gen_AstSchema Gen_Walker Gen_WalkTags Gen_WalkTables Gen_RunnerState Inst_Walker.
Import ListNotations.
Local Open Scope N_scope.

Definition gen_multi (t : N) : bool := nmem t gen_multi_tags.

(* written from gogrep's MatchNode (match.go): the node tags on which a pattern of root tag t can call back *)
Definition compat_spec (t : N) : list N :=
  if N.eqb t gen_tag_StmtList then [tidx "BlockStmt"; tidx "CaseClause"; tidx "CommClause"]
  else if N.eqb t gen_tag_ExprList then [tidx "CallExpr"; tidx "CompositeLit"; tidx "ReturnStmt"]
  else if N.eqb t gen_tag_DeclList then [tidx "File"]
  else [t].
(* the property text: statement-list (block), case-clause (case / comm) and file-level multi-matches *)
Definition multi_spec : list N := [tidx "BlockStmt"; tidx "CaseClause"; tidx "CommClause"; tidx "File"].

Fixpoint nrange (n : nat) (from : N) : list N := match n with O => [] | S n' => from :: nrange n' (N.succ from) end.
(* the tags a pattern can have: every bucket tag, the three list tags, Node, Unknown (gogrep's operation table) *)
Definition pattern_tags : list N :=
  nrange (N.to_nat gen_tag_NumBuckets) 0 ++ [gen_tag_StmtList; gen_tag_ExprList; gen_tag_DeclList; gen_tag_Node].
Definition must_reject : list N := [gen_tag_Unknown; gen_tag_Node].

Lemma names_resolve :
  forallb (fun t => N.ltb t gen_tag_NumBuckets && negb (N.eqb t 0))
          [tidx "BlockStmt"; tidx "CaseClause"; tidx "CommClause"; tidx "File"; tidx "CallExpr"; tidx "CompositeLit"; tidx "ReturnStmt"] = true.
Proof. vm_compute. reflexivity. Qed.

(* placement: every pattern tag is rejected (Unknown, Node) or placed, inside the bucket array, in exactly the
   buckets of the node kinds gogrep can call back on *)
Lemma gen_place_ok : place_ok gen_place_err gen_place_fan gen_buckets_len compat_spec pattern_tags must_reject = true.
Proof. vm_compute. reflexivity. Qed.

Lemma gen_multi_ok : sets_eqb gen_multi_tags multi_spec = true /\ gen_multi_len = gen_tag_NumBuckets /\ gen_buckets_len = gen_tag_NumBuckets.
Proof. vm_compute. auto. Qed.

Lemma gen_accumulates : gen_matched_accumulates = true.
Proof. vm_compute. reflexivity. Qed.

(* every tag the walker visits with indexes rulesByTag / multiMatchTags in range *)
Lemma visit_tags_in_range : forallb (fun k => match gen_tag k with Some t => N.ltb t gen_buckets_len | None => true end) gen_kinds = true.
Proof. vm_compute. reflexivity. Qed.

Definition gen_load (rs : list rule) : buckets := load gen_place_err gen_place_fan rs empty.
Definition gen_loadable := loadable gen_place_err gen_place_fan.

Definition offers_of (evs : list ev) : list (N * N) := map (fun e => (e_id e, e_tag e)) evs.

(* a run of one file: the walk of this run's walker, each visit dispatched through its bucket by this run's loop *)
Definition model_run {mdata} (M : rule -> N -> list (mdata * bool)) (rs : list rule) (fuel : nat) (n : node)
  : option (list (rule * mdata)) :=
  match model_walk fuel n st0 [] with
  | ROk _ evs => Some (run_file gen_multi gen_matched_accumulates mdata M (gen_load rs) (offers_of evs))
  | _ => None
  end.

Lemma model_run_exact {mdata} (M : rule -> N -> list (mdata * bool)) rs fuel n :
  wf gen_spec n -> (height n < fuel)%nat ->
  (forall r, In r rs -> In (r_tag r) pattern_tags /\ gen_loadable r = true) ->
  (forall r o, In r rs -> In o (gen_offered n) -> M r (fst o) <> [] -> In (snd o) (compat_spec (r_tag r))) ->
  model_run M rs fuel n = Some (spec_file gen_multi mdata M rs (gen_offered n)).
Proof.
  intros Hwf Hh Hrs Hcompat. unfold model_run. rewrite walker_correct by assumption. cbn [app].
  unfold offers_of, gen_spec. rewrite events_offered. fold gen_offered. f_equal.
  apply (run_file_spec gen_place_err gen_place_fan gen_multi gen_matched_accumulates mdata M compat_spec).
  - exact gen_accumulates.
  - intros r Hr t' Ht' Hl. destruct (Hrs r Hr) as [Htag _].
    now apply (proj1 (place_ok_dests _ _ _ _ _ _ gen_place_ok r Htag Hl)).
  - intros r Hr. now apply Hrs.
  - exact Hcompat.
Qed.

(* ---- rule sets built by load histories: several Load calls, bundle imports, filtered groups, comment-only files ---- *)
Definition gen_cmode : count_mode :=
  if String.eqb gen_merge_count_mode "per-bucket" then CountPerBucket
  else if String.eqb gen_merge_count_mode "total" then CountTotal else CountLast.
Definition gen_kmode : comment_mode := if String.eqb gen_merge_comments_mode "append" then CommentsAppend else CommentsLast.
Definition gen_gated : bool := negb (String.eqb gen_walk_gate "always").
Definition gen_nb : nat := N.to_nat gen_buckets_len.

(* the counter that gates the walk is kept so that "zero" means "no bucket holds a rule"; comment rules are appended;
   every placed rule is counted at load; mergeRuleSets starts from an empty set; Engine.Load and LoadFile merge in order *)
Lemma gen_bookkeeping_ok :
  count_mode_ok gen_cmode = true /\ gen_kmode = CommentsAppend /\ gen_load_counts_each_rule = true /\ gen_merge_starts_empty = true /\
  gen_engine_load_first_direct_then_merge_after = true /\ gen_loadfile_merges_own_then_imported = true.
Proof. vm_compute. auto 10. Qed.

Definition gen_built := built gen_place_err gen_place_fan gen_cmode gen_kmode gen_nb.
Definition gen_engine_of := engine_of gen_place_err gen_place_fan gen_cmode gen_kmode gen_nb.

Lemma gen_tag_in_range k t : gen_tag k = Some t -> (t < N.of_nat gen_nb)%N.
Proof.
  intros H. unfold gen_nb. rewrite N2Nat.id.
  assert (In k gen_kinds) as Hin.
  { apply in_kinds_In. unfold gen_tag in H. destruct (in_kinds k); [reflexivity|discriminate]. }
  pose proof visit_tags_in_range as V. rewrite forallb_forall in V. specialize (V k Hin). rewrite H in V. now apply N.ltb_lt.
Qed.

(* a run of one file on a rule set: the walk happens unless the gate skips it *)
Definition model_run_set {mdata} (M : rule -> N -> list (mdata * bool)) (s : rset) (fuel : nat) (n : node)
  : option (list (rule * mdata)) :=
  match model_walk fuel n st0 [] with
  | ROk _ evs => Some (run_set gen_multi gen_matched_accumulates mdata M gen_gated s (offers_of evs))
  | _ => None
  end.

Lemma model_run_set_exact {mdata} (M : rule -> N -> list (mdata * bool)) s rs crs fuel n :
  wf gen_spec n -> (height n < fuel)%nat ->
  gen_built s rs crs ->
  (forall r, In r rs -> In (r_tag r) pattern_tags /\ gen_loadable r = true) ->
  (forall r o, In r rs -> In o (gen_offered n) -> M r (fst o) <> [] -> In (snd o) (compat_spec (r_tag r))) ->
  model_run_set M s fuel n = Some (spec_file gen_multi mdata M rs (gen_offered n)) /\ rs_comments s = crs.
Proof.
  intros Hwf Hh Hb Hrs Hcompat.
  destruct gen_bookkeeping_ok as (Hc & Hk & _).
  destruct (built_ok _ _ _ _ _ s rs crs Hc Hk Hb) as [Hg Hr]. split; [|exact (proj2 Hr)].
  unfold model_run_set. rewrite walker_correct by assumption. cbn [app].
  unfold offers_of, gen_spec. rewrite events_offered. fold gen_offered. f_equal.
  apply (run_set_spec gen_place_err gen_place_fan gen_nb gen_multi gen_matched_accumulates mdata M compat_spec gen_gated s rs crs);
    [exact Hg|exact Hr| | exact gen_accumulates | | |exact Hcompat].
  - intros [i t] Ho. cbn [snd]. apply (offered_sound gen_tag) in Ho as (x & _ & _ & Ht). exact (gen_tag_in_range _ _ Ht).
  - intros r Hr' t' Ht' Hl. destruct (Hrs r Hr') as [Htag _].
    now apply (proj1 (place_ok_dests _ _ _ _ _ _ gen_place_ok r Htag Hl)).
  - intros r Hr'. now apply Hrs.
Qed.

(* ---- what a rule's matcher runs with: the import table of its own group, a matcher state of its own ---- *)
Definition gen_env_policy : write_policy :=
  match policy_of_string gen_pattern_env_policy with Some p => p | None => WriteNever end.
(* gogrepCompile builds CompileConfig.Imports for every compilation from the group it is handed (or stores it
   unconditionally per group), and every call site -- rule patterns, Contains() sub-patterns, the template-variable
   check -- hands in the group being loaded *)
Lemma gen_pattern_env_own : gen_env_policy = WriteAlways /\ gen_pattern_env_group_is_loaded_group = true /\
  strs_eqb gen_pattern_env_compile_sites ["checkTemplateVars"; "loadSyntaxRule"; "newFilter"]%string = true.
Proof. vm_compute. auto. Qed.
Lemma gen_compile_envs_spec : forall (R : Type) init (groups : list (imports * list R)),
  compile_envs gen_env_policy init groups = spec_envs groups.
Proof. intros R. exact (compile_envs_spec gen_env_policy (proj1 gen_pattern_env_own)). Qed.

(* the two MatchNode call sites of the engine and the allocation each one's state goes back to *)
Definition main_site : string := "use:runRules"%string.
Definition sub_site : string := "use:makeVarContainsFilter"%string.
Definition site_state (s : string) : string :=
  match slookup gen_matchnode_sites s with Some h => origin 8 gen_matcher_state_flow h | None => s end.
Lemma gen_matcher_states_distinct : states_distinct gen_matcher_state_flow gen_matchnode_sites main_site sub_site = true.
Proof. vm_compute. reflexivity. Qed.
Lemma gen_site_states_differ : site_state main_site <> site_state sub_site /\
  is_alloc (site_state main_site) = true /\ is_alloc (site_state sub_site) = true.
Proof. split; [vm_compute; discriminate|split; vm_compute; reflexivity]. Qed.

(* ---- Load calls that fail: where mergeRuleSets accumulates its result (read from source on this run) ---- *)
Definition gen_mmode : merge_mode := if String.eqb gen_merge_mode "fresh" then MergeFresh else MergeInPlaceFirst.
(* mergeRuleSets builds its result in a fresh set -- its arguments, the engine's live rule set among them, are only read --
   and rejects a set whose group is loaded already; Engine.Load / LoadFromIR reassign the engine's set only after the
   merge returned without error (gen_engine_load_first_direct_then_merge_after pins the statements) *)
Lemma gen_merge_fresh : gen_mmode = MergeFresh /\ gen_merge_rejects_redefined_groups = true /\ gen_merge_starts_empty = true.
Proof. vm_compute. auto. Qed.
Definition gen_gengine_load := gengine_load gen_cmode gen_kmode gen_nb gen_mmode.
Definition gen_ghistory := ghistory gen_cmode gen_kmode gen_nb gen_mmode.
Definition gen_gaccepted := gaccepted gen_cmode gen_kmode gen_nb.

Lemma gen_rejected_load_is_noop e c : gaccepts e c = false -> gen_gengine_load e c = e.
Proof. unfold gen_gengine_load. rewrite (proj1 gen_merge_fresh). apply fresh_rejected_is_noop. Qed.
Lemma gen_history_is_accepted_history e calls : gen_ghistory e calls = gen_ghistory e (map Some (gen_gaccepted e calls)).
Proof. unfold gen_ghistory. rewrite (proj1 gen_merge_fresh). apply fresh_history_is_accepted_history. Qed.
Lemma gen_history_rules calls e :
  option_map g_rules (gen_ghistory e calls) =
  fold_left (engine_load gen_cmode gen_kmode gen_nb) (map g_rules (gen_gaccepted e calls)) (option_map g_rules e).
Proof. unfold gen_ghistory. rewrite (proj1 gen_merge_fresh). apply fresh_history_rules. Qed.

(* ---- overlapping runs: where a run without RunContext.State gets its state (read from newRulesRunner on this run) ---- *)
Definition gen_nil_policy : nil_state_policy :=
  if String.eqb gen_nil_state_policy "fresh" then NilFresh else NilPooledEarlyRelease.
Lemma gen_nil_state_is_fresh : gen_nil_policy = NilFresh /\ gen_new_runner_state_allocates_all = true.
Proof. vm_compute. auto. Qed.

(* ---- executable comparison of the model's reports with the engine's (correspondence files) ---- *)
Definition rep3 := (N * N * N)%type.      (* rule index, start offset, end offset of the reported node *)
Definition rep3_eqb (a b : rep3) : bool :=
  match a, b with (r, p, e), (r', p', e') => N.eqb r r' && N.eqb p p' && N.eqb e e' end.
Fixpoint reps_first_diff (a b : list rep3) (i : N) : option N :=
  match a, b with
  | [], [] => None
  | x :: a', y :: b' => if rep3_eqb x y then reps_first_diff a' b' (N.succ i) else Some i
  | _, _ => Some i
  end.
(* the matcher/filter oracle as a table: (node id, rule index, callbacks (start, end, verdict)) *)
Fixpoint mt_lookup (l : list (N * N * list (N * N * bool))) (i r : N) : list (N * N * bool) :=
  match l with
  | [] => []
  | (i', r', cbs) :: l' => if N.eqb i i' && N.eqb r r' then cbs else mt_lookup l' i r
  end.
Definition R (i t : N) : rule := {| r_id := i; r_tag := t |}.
(* a load history: per Load call -- did the loader itself succeed, the groups the file declares (its own, then the imported
   bundles' under their prefix), the file's own syntax rules and comment rules, then those of each imported bundle file.
   Whether the engine accepts the call is the model's decision (a group that is loaded already: rejected).
   0 agree; 2 syntax reports differ at index; 3 the engine accepted / rejected another set of calls (index of the first
   differing call); 4 the model has no result *)
Definition call_desc := (bool * list N * file_desc)%type.
Definition call_set (c : call_desc) : option gset :=
  match c with
  | (false, _, _) => None
  | (true, names, f) => Some {| g_rules := file_set gen_place_err gen_place_fan gen_cmode gen_kmode gen_nb (fst (fst f)) (snd (fst f)) (snd f); g_names := names |}
  end.
(* which calls the model accepts, call by call *)
Fixpoint accept_flags (e : option gset) (calls : list call_desc) : list bool :=
  match calls with
  | [] => []
  | c :: r => gaccepts e (call_set c) :: accept_flags (gen_gengine_load e (call_set c)) r
  end.
Fixpoint flags_first_diff (a b : list bool) (i : N) : option N :=
  match a, b with
  | [], [] => None
  | x :: a', y :: b' => if Bool.eqb x y then flags_first_diff a' b' (N.succ i) else Some i
  | _, _ => Some i
  end.
Definition check_run (T : node) (CALLS : list call_desc) (ACCEPTED : list bool) (MT : list (N * N * list (N * N * bool))) (ENG : list rep3) : N * N :=
  match flags_first_diff (accept_flags None CALLS) ACCEPTED 0 with
  | Some i => (3, i)
  | None =>
    match gen_ghistory None (map call_set CALLS) with
    | Some gs =>
      match model_run_set (fun r i => mt_lookup MT i (r_id r)) (g_rules gs) (S (height T)) T with
      | Some l => match reps_first_diff (map (fun p => (r_id (fst p), fst (snd p), snd (snd p))) l) ENG 0 with
                  | None => (0, 0)
                  | Some i => (2, i) end
      | None => (4, 0)
      end
    | None => (4, 1)
    end
  end.

(* a tree of overlapping runs as it was logged: kind 0 start (run, state), 1 report (run, index), 2 finish (run) *)
Definition step_of (t : N * N * N) : step :=
  match t with (k, r, x) => if N.eqb k 0 then Start r x else if N.eqb k 1 then Visit r x else Finish r end.
Definition check_plan (LOG : list (N * N * N)) (COUNTS : list (N * N)) : N * N := (check_schedule (map step_of LOG) COUNTS, 0%N).
