(* Property C01 -- theorems only; each is closed by `exact` of a lemma proved in RG.Ast.*, RG.Engine.Dispatch
   (generic) and Inst_Walker.v / Inst_Dispatch.v (about the tables REGENERATED from /repo on this run). *)
From Coq Require Import List NArith Bool Arith Lia String.
From RG.Ast Require Import Tree Walker WalkerProof WalkSpec WfCheck.
From RG.Engine Require Import Dispatch RunState MatchEnv LoadFail Reentrant.
From RGW Require Import Gen_AstSchema Gen_Walker Gen_WalkTags Gen_WalkTables Gen_RunnerState Inst_Walker Inst_Dispatch.
Import ListNotations.

(* No region of the file is skipped, nothing is offered twice: for EVERY tree (every construct of go/ast's own
   walk order, every nesting, generics included) the walker of this run offers exactly the tagged nodes, in
   source (pre-)order, each with the tag gogrep assigns to its kind. *)
Theorem C01_walker_offers_exactly :
  forall fuel n E, wf gen_spec n -> (height n < fuel)%nat ->
  exists evs, model_walk fuel n st0 E = ROk st0 (E ++ evs) /\ offers_of evs = gen_offered n.
Proof.
  intros fuel n E Hwf Hh. eexists. split; [now apply walker_correct|].
  unfold offers_of, gen_spec. now rewrite events_offered.
Qed.
Print Assumptions C01_walker_offers_exactly.

Theorem C01_every_tagged_node_offered :
  forall n x t, In x (preorder n) -> gen_tag (kind x) = Some t -> In (nid x, t) (gen_offered n).
Proof. exact (offered_complete gen_tag). Qed.
Print Assumptions C01_every_tagged_node_offered.

Theorem C01_nothing_else_offered :
  forall n i t, In (i, t) (gen_offered n) -> exists x, In x (preorder n) /\ nid x = i /\ gen_tag (kind x) = Some t.
Proof. exact (offered_sound gen_tag). Qed.
Print Assumptions C01_nothing_else_offered.

Theorem C01_no_node_offered_twice :
  forall n, NoDup (map nid (preorder n)) -> NoDup (map fst (gen_offered n)).
Proof. exact (offered_nodup gen_tag). Qed.
Print Assumptions C01_no_node_offered_twice.

(* The reports of a run: for every tree, every loadable rule set (any root tags incl. statement / expression /
   declaration lists) and every matcher+filter oracle M that only calls back on nodes compatible with the pattern's
   root tag (gogrep, trusted): the offered nodes in order, each given to ALL loaded rules in load order; the first rule
   with an accepted match wins, all accepting rules for multi-match tags. *)
Theorem C01_reports_exact :
  forall (mdata : Type) (M : rule -> N -> list (mdata * bool)) rs fuel n,
  wf gen_spec n -> (height n < fuel)%nat ->
  (forall r, In r rs -> In (r_tag r) pattern_tags /\ gen_loadable r = true) ->
  (forall r o, In r rs -> In o (gen_offered n) -> M r (fst o) <> [] -> In (snd o) (compat_spec (r_tag r))) ->
  model_run M rs fuel n = Some (spec_file gen_multi mdata M rs (gen_offered n)).
Proof. exact @model_run_exact. Qed.
Print Assumptions C01_reports_exact.

(* multiple groups and files: whatever the sequence of Load calls that built the engine's rule set -- files with syntax
   rules, files with comment rules only, files whose groups are all filtered out, files importing rule bundles (whose last
   file may have no syntax rule) -- the set holds the files' rules in load order and a run reports exactly what the
   specification says for that rule list; in particular the counter that lets a run skip the walk is zero only if no
   bucket holds a rule.  [built] is closed under loading a file and merging sets (mergeRuleSets / appendScopedRuleSet,
   whose bookkeeping is read from source on this run). *)
Theorem C01_reports_exact_after_any_load_history :
  forall (mdata : Type) (M : rule -> N -> list (mdata * bool)) s rs crs fuel n,
  wf gen_spec n -> (height n < fuel)%nat ->
  gen_built s rs crs ->
  (forall r, In r rs -> In (r_tag r) pattern_tags /\ gen_loadable r = true) ->
  (forall r o, In r rs -> In o (gen_offered n) -> M r (fst o) <> [] -> In (snd o) (compat_spec (r_tag r))) ->
  model_run_set M s fuel n = Some (spec_file gen_multi mdata M rs (gen_offered n)) /\ rs_comments s = crs.
Proof. exact @model_run_set_exact. Qed.
Print Assumptions C01_reports_exact_after_any_load_history.

(* Engine.Load after Engine.Load (first set as it is, every further one merged after it; a file that imports bundles is
   its own rules followed by the bundle files' rules): the engine holds a [built] set with all rules in load order *)
Theorem C01_engine_load_history_is_built :
  forall f files, exists s, gen_engine_of (f :: files) = Some s /\
    gen_built s (List.concat (map file_rules (f :: files))) (List.concat (map file_comments (f :: files))).
Proof. exact (engine_of_built gen_place_err gen_place_fan gen_cmode gen_kmode gen_nb). Qed.
Print Assumptions C01_engine_load_history_is_built.

Theorem C01_merge_bookkeeping_ok :
  count_mode_ok gen_cmode = true /\ gen_kmode = CommentsAppend /\ gen_load_counts_each_rule = true /\ gen_merge_starts_empty = true /\
  gen_engine_load_first_direct_then_merge_after = true /\ gen_loadfile_merges_own_then_imported = true.
Proof. exact gen_bookkeeping_ok. Qed.
Print Assumptions C01_merge_bookkeeping_ok.

(* Load calls that fail, anywhere in a history (the file does not parse or type-check, a pattern is rejected, a group is
   loaded already -- "redefinition of X()"), with the caller carrying on: a rejected call leaves the engine as it was, so
   after ANY sequence of Load calls the engine holds what the accepted calls alone produce, and its rules are those of the
   engine (C01_engine_load_history_is_built) that was given the accepted files only.  Rests on where mergeRuleSets builds
   its result, read from source on this run: a fresh set, the engine's live set is only read. *)
Theorem C01_rejected_load_leaves_engine_unchanged :
  forall e c, gaccepts e c = false -> gen_gengine_load e c = e.
Proof. exact gen_rejected_load_is_noop. Qed.
Print Assumptions C01_rejected_load_leaves_engine_unchanged.

Theorem C01_engine_holds_the_accepted_loads_only :
  forall e calls,
  gen_ghistory e calls = gen_ghistory e (map Some (gen_gaccepted e calls)) /\
  option_map g_rules (gen_ghistory e calls) =
    fold_left (engine_load gen_cmode gen_kmode gen_nb) (map g_rules (gen_gaccepted e calls)) (option_map g_rules e).
Proof. intros e calls. split; [apply gen_history_is_accepted_history|apply gen_history_rules]. Qed.
Print Assumptions C01_engine_holds_the_accepted_loads_only.

Theorem C01_merge_builds_a_fresh_set :
  gen_mmode = MergeFresh /\ gen_merge_rejects_redefined_groups = true /\ gen_merge_starts_empty = true.
Proof. exact gen_merge_fresh. Qed.
Print Assumptions C01_merge_builds_a_fresh_set.

(* runs of one engine that overlap -- a Report callback that calls Engine.Run itself, at any depth, or a run on another
   goroutine that starts while this one is in the middle of its file: whatever the interleaving of their walks, as long
   as every RunnerState is used by one run at a time, every run delivers to its own callback exactly the reports of its own
   walk (which are the specified ones, C01_reports_exact).  A run without RunContext.State gets a state nobody else can
   have: newRulesRunner, read on this run, allocates it for the run (newRunnerState, every part of it new). *)
Theorem C01_overlapping_runs_report_their_own :
  forall steps, exclusive [] steps = true -> forall r, delivered (exec w0 steps) r = lone steps r.
Proof. exact exclusive_runs_exact. Qed.
Print Assumptions C01_overlapping_runs_report_their_own.

Theorem C01_nil_state_is_the_runs_own :
  nil_policy_ok gen_nil_policy = true /\ gen_nil_policy = NilFresh /\ gen_new_runner_state_allocates_all = true.
Proof. destruct gen_nil_state_is_fresh as [H1 H2]. rewrite H1. auto. Qed.
Print Assumptions C01_nil_state_is_the_runs_own.

(* the pattern of a rule (and the sub-pattern of its Contains() filters) is compiled with the import table of the rule's
   OWN group: for every sequence of groups of a file -- with imports, without, in any order, whatever the loader was
   left with by earlier files -- each rule is paired with exactly its group's Matcher.Import calls. (How the table is
   produced per compilation is read from gogrepCompile / loadRuleGroup on this run; gogrep's resolution of a qualified
   callee under a given table is gogrep's, and the rule-set runs compile the oracle's patterns under these tables.) *)
Theorem C01_pattern_compiled_with_own_group_imports :
  forall (R : Type) init (groups : list (imports * list R)),
  compile_envs gen_env_policy init groups = spec_envs groups.
Proof. exact gen_compile_envs_spec. Qed.
Print Assumptions C01_pattern_compiled_with_own_group_imports.

(* the rule loop enumerates the matches of a node out of its matcher state while the filters of the candidates already
   found run Contains() searches: those run on a state that goes back to a different NewMatcherState() allocation
   (newRunnerState / newRulesRunner read on this run), so every candidate is offered exactly once, in order, whatever
   the searches leave in their scratch memory *)
Theorem C01_submatch_leaves_enumeration_alone :
  forall (V : Type) (cb : V -> list V) fuel (m : mem V),
  (List.length (m (site_state main_site)) <= fuel)%nat ->
  enum V fuel (site_state main_site) (site_state sub_site) m 0 cb = m (site_state main_site).
Proof. intros V cb. exact (enum_distinct V _ _ cb (proj1 gen_site_states_differ)). Qed.
Print Assumptions C01_submatch_leaves_enumeration_alone.

Theorem C01_matcher_states_distinct :
  states_distinct gen_matcher_state_flow gen_matchnode_sites main_site sub_site = true.
Proof. exact gen_matcher_states_distinct. Qed.
Print Assumptions C01_matcher_states_distinct.

(* what the specification says per node *)
Theorem C01_first_accepting_rule_wins :
  forall (mdata : Type) (M : rule -> N -> list (mdata * bool)) rs n tag, gen_multi tag = false ->
  spec_node gen_multi mdata M rs n tag =
  match find (fun r => existsb snd (M r n)) rs with Some r => accepted mdata M r n | None => [] end.
Proof. exact (spec_node_first gen_multi). Qed.
Print Assumptions C01_first_accepting_rule_wins.

Theorem C01_only_accepted_matches_reported :
  forall (mdata : Type) (M : rule -> N -> list (mdata * bool)) rs n tag r m,
  In (r, m) (spec_node gen_multi mdata M rs n tag) -> In r rs /\ In (m, true) (M r n).
Proof. exact (spec_node_sound gen_multi). Qed.
Print Assumptions C01_only_accepted_matches_reported.

(* merging rule sets (several files / Load calls) keeps every bucket in load order *)
Theorem C01_merge_preserves_order :
  forall rs1 rs2 t, merge (gen_load rs1) (gen_load rs2) t = gen_load (rs1 ++ rs2) t.
Proof. exact (merge_preserves_order gen_place_err gen_place_fan). Qed.
Print Assumptions C01_merge_preserves_order.

(* the per-run finite obligations *)
Theorem C01_tables_ok :
  (forall k, kind_ok AF gen_frame (gen_table k) (gen_spec k) = true) /\
  place_ok gen_place_err gen_place_fan gen_buckets_len compat_spec pattern_tags must_reject = true /\
  sets_eqb gen_multi_tags multi_spec = true /\ gen_matched_accumulates = true /\ nil_hazards = [].
Proof. exact (conj table_ok (conj gen_place_ok (conj (proj1 gen_multi_ok) (conj gen_accumulates no_nil_hazard)))). Qed.
Print Assumptions C01_tables_ok.

(* ---- non-vacuity ---- *)
Local Open Scope N_scope.
Definition demo_rules : list rule :=
  [ {| r_id := 0; r_tag := tidx "Ident" |}; {| r_id := 1; r_tag := gen_tag_StmtList |}; {| r_id := 2; r_tag := tidx "Ident" |};
    {| r_id := 3; r_tag := tidx "BlockStmt" |} ].
(* rule 0 accepts identifier 10 and rejects 13; rule 2 accepts every identifier; rules 1 and 3 accept block 5 *)
Definition demo_M (r : rule) (i : N) : list (N * bool) :=
  match r_id r, i with
  | 0, 10 => [(100, true)] | 0, 13 => [(101, false)]
  | 2, 1 | 2, 3 | 2, 7 | 2, 10 | 2, 13 | 2, 15 => [(200 + i, true)]
  | 1, 5 => [(300, true); (301, false)] | 3, 5 => [(400, true)]
  | _, _ => [] end.
Example c01_demo_hyps :
  wf gen_spec (demo_tree None) /\
  (forall r, In r demo_rules -> In (r_tag r) pattern_tags /\ gen_loadable r = true).
Proof.
  split; [exact (demo_wf None)|]. intros r Hr. cbn in Hr.
  repeat (destruct Hr as [<-|Hr]; [split; [vm_compute; tauto|vm_compute; reflexivity]|]). destruct Hr.
Qed.
Example c01_demo_run :
  option_map (map (fun p => (r_id (fst p), snd p))) (model_run demo_M demo_rules 20 (demo_tree None)) =
  Some [(2, 201); (2, 203); (1, 300); (3, 400); (2, 207); (0, 100); (2, 213); (2, 215)].
Proof. vm_compute. reflexivity. Qed.
(* a load history: Match rules, then a file with comment rules only, then a file importing a bundle whose last file has
   no syntax rule -- the counter stays non-zero and the run still reports for the rules of the first file *)
Definition demo_files : list file_desc :=
  [ ([ {| r_id := 0; r_tag := tidx "Ident" |}; {| r_id := 1; r_tag := gen_tag_StmtList |} ], [], []);
    ([], [50; 51], []);
    ([], [], [([ {| r_id := 2; r_tag := tidx "Ident" |}; {| r_id := 3; r_tag := tidx "BlockStmt" |} ], []); ([], [52])]) ].
Example c01_demo_history :
  match gen_engine_of demo_files with
  | Some s => (negb (N.eqb (rs_cnum s) 0), rs_comments s,
               option_map (map (fun p => (r_id (fst p), snd p))) (model_run_set demo_M s 20 (demo_tree None)))
  | None => (false, [], None)
  end = (true, [50; 51; 52], Some [(2, 201); (2, 203); (1, 300); (3, 400); (2, 207); (0, 100); (2, 213); (2, 215)]).
Proof. vm_compute. reflexivity. Qed.
(* a merge that keeps only the last set's counter would skip the walk although rules are loaded *)
Example c01_last_counter_refuted :
  let a := load_set [] [] [ {| r_id := 0; r_tag := 5 |} ] [] in
  let b := load_set [] [] [] [7] in
  let s := merge2 CountLast CommentsAppend 49 a b in
  rs_cnum s = 0 /\ rs_buckets s 5 <> [].
Proof. exact count_last_refuted. Qed.
(* the loop of the unrepaired tree ("matched" = verdict of the last callback) lets a second rule report too *)
Example c01_last_verdict_loop_refuted :
  map (fun p => r_id (fst p))
      (run_rules (fun _ => false) false N demo_M [ {| r_id := 1; r_tag := 0 |}; {| r_id := 3; r_tag := 0 |} ] 5 0) = [1; 3] /\
  map (fun p => r_id (fst p))
      (spec_node (fun _ => false) N demo_M [ {| r_id := 1; r_tag := 0 |}; {| r_id := 3; r_tag := 0 |} ] 5 0) = [1].
Proof. vm_compute. auto. Qed.
(* a loader that stores the import table only for groups that have imports compiles an import-less group's patterns
   with its predecessor's table *)
Example c01_sticky_imports_refuted :
  compile_envs WriteSometimes [] [([("rand", "crypto/rand")], [1]); ([], [2; 3])]%string =
  [(1, [("rand", "crypto/rand")]); (2, [("rand", "crypto/rand")]); (3, [("rand", "crypto/rand")])]%string /\
  spec_envs [([("rand", "crypto/rand")], [1]); ([], [2; 3])]%string = [(1, [("rand", "crypto/rand")]); (2, []); (3, [])]%string.
Proof. split; reflexivity. Qed.
(* one matcher state for the rule loop and the Contains() searches: candidates are skipped and foreign ones offered *)
Example c01_shared_matcher_state_refuted :
  enum N 4 "s" "s" (fun _ => [1; 2; 3]) 0 (fun c => [7; 8]) = [1; 8].
Proof. exact enum_aliased_refuted. Qed.
(* a merge that accumulates in place in the engine's own set: the rules of a rejected file are live *)
Example c01_in_place_merge_refuted :
  let a := {| g_rules := load_set [] [] [ {| r_id := 0; r_tag := 5 |} ] []; g_names := [1] |} in
  let b := {| g_rules := load_set [] [] [ {| r_id := 1; r_tag := 5 |} ] []; g_names := [2; 1] |} in
  gaccepts (Some a) (Some b) = false /\
  option_map (fun s => map r_id (rs_buckets (g_rules s) 5)) (gengine_load CountPerBucket CommentsAppend 49 MergeInPlaceFirst (Some a) (Some b)) = Some [0; 1] /\
  option_map (fun s => map r_id (rs_buckets (g_rules s) 5)) (gengine_load CountPerBucket CommentsAppend 49 MergeFresh (Some a) (Some b)) = Some [0].
Proof. exact in_place_refuted. Qed.
(* a history with two rejected calls (a redefinition, a loader failure) between accepted ones *)
Example c01_rejected_calls_demo :
  accept_flags None [ (true, [1; 2], ([ {| r_id := 0; r_tag := tidx "Ident" |} ], [], []));
                      (true, [3; 2], ([ {| r_id := 1; r_tag := tidx "Ident" |} ], [], []));
                      (false, [4], ([ {| r_id := 2; r_tag := tidx "Ident" |} ], [], []));
                      (true, [5], ([ {| r_id := 3; r_tag := tidx "Ident" |} ], [], [])) ] = [true; false; false; true].
Proof. vm_compute. reflexivity. Qed.
(* a state handed to a nested run while the outer run is walking: the outer run's later reports reach the nested run's
   callback *)
Example c01_shared_state_refuted :
  let steps := [Start 0 7; Visit 0 1; Start 1 7; Visit 1 5; Finish 1; Visit 0 2; Finish 0] in
  exclusive [] steps = false /\
  delivered (exec w0 steps) 0 = [1] /\ lone steps 0 = [1; 2] /\ delivered (exec w0 steps) 1 = [5; 2].
Proof. exact early_release_refuted. Qed.
