(* C09: the state inventory and (re)initialisation policy REGENERATED from /repo on this run. *)
From Coq Require Import List NArith Bool Arith String.
From RG.Ast Require Import Tree Walker WalkerProof WalkSpec WfCheck WalkPanic.
From RG.Engine Require Import RunState Reentrant AnswerCache.
From RGW Require Import Gen_AstSchema Gen_Walker Gen_WalkTags Gen_WalkState Gen_RunnerState Inst_Walker.
Import ListNotations.
Local Open Scope string_scope.

(* the mutable state the models of this family account for; a new field breaks [inventory_covered] *)
Definition known_RunnerState : list string := ["gogrepState"; "gogrepSubState"; "nodePath"; "evalEnv"; "typematchState"; "object"].
Definition known_rulesRunner : list string :=
  ["state"; "bgContext"; "ctx"; "rules"; "truncateLen"; "reportData"; "gogrepState"; "gogrepSubState"; "importer"; "filename"; "src";
   "nodePath"; "filterParams"].
Definition known_filterParams : list string :=
  ["ctx"; "filename"; "imports"; "env"; "importer"; "gogrepSubState"; "typematchState"; "match"; "nodePath"; "nodeText"; "nodeString";
   "deadcode"; "currentFunc"; "varname"; "reportString"; "suggestString"].
Definition known_astWalker : list string := ["nodePath"; "filterParams"; "visit"].
Definition known_nodePath : list string := ["stack"].

Lemma inventory_covered :
  strs_eqb gen_fields_RunnerState known_RunnerState = true /\ strs_eqb gen_fields_rulesRunner known_rulesRunner = true /\
  strs_eqb gen_fields_filterParams known_filterParams = true /\ strs_eqb gen_fields_astWalker known_astWalker = true /\
  strs_eqb gen_fields_nodePath known_nodePath = true.
Proof. vm_compute. auto. Qed.

(* what the runner object of a new run takes over from the RunnerState, each with the evidence that the run does
   not read a value an earlier run left in it *)
Definition carried_of (l : list (string * string)) : list string :=
  flat_map (fun p => if String.prefix "carried:" (snd p) then [snd p] else []) l.
(* registers an evaluation reads out of the carried state: does it store its own value first? *)
Definition contains_preset_policy : write_policy :=
  match policy_of_string gen_contains_preset_policy with Some p => p | None => WriteNever end.
Definition variadic_len_policy : write_policy :=
  match policy_of_string gen_variadic_len_store_policy with Some p => p | None => WriteNever end.
Definition policy_is_always (p : write_policy) : bool := match p with WriteAlways => true | _ => false end.
(* the operand stack's inventory: objects / ints are truncated by Call and Reset, variadicLen has one writer (the
   SetVariadicLen instruction) and one reader (PopVariadic) *)
Definition known_ValueStack : list string := ["objects"; "ints"; "variadicLen"].
Definition known_EvalEnv : list string := ["nativeFuncs"; "userFuncs"; "Stack"].
Definition value_stack_covered : bool :=
  strs_eqb gen_fields_ValueStack known_ValueStack && strs_eqb gen_fields_EvalEnv known_EvalEnv &&
  strs_eqb gen_variadic_len_writers ["eval.go:eval:stack.variadicLen = int(code[pc+1])"] &&
  strs_eqb gen_variadic_len_readers ["quasigo.go:ValueStack.PopVariadic"].

(* the matcher states get the types.Info of the current run unconditionally *)
Definition types_set_per_run (f : string) : bool :=
  match find (fun p => String.eqb (fst p) f) gen_matcher_types_set_per_run with Some p => snd p | None => false end.

Definition reset_evidence (c : string) : bool :=
  if String.eqb c "carried:nodePath" then gen_state_reset_when_reused && gen_reset_truncates_node_path
  else if String.eqb c "carried:evalEnv" then
    gen_state_reset_when_reused && gen_reused_state_env_updated && gen_reset_resets_eval_stack && gen_quasigo_call_truncates_stack &&
    value_stack_covered && policy_is_always variadic_len_policy
  else if String.eqb c "carried:typematchState" then gen_typematch_resets_bindings_per_match
  else if String.eqb c "carried:gogrepSubState" then policy_is_always contains_preset_policy && types_set_per_run "gogrepSubState"
  else if String.eqb c "carried:gogrepState" then types_set_per_run "gogrepState"   (* pc / captures: gogrep's MatchNode resets them itself (trusted) *)
  else false.
(* each holder of the runner object takes over the RunnerState field of the same role (the rule loop's matcher state is
   not the Contains() searches' one, ...) *)
Definition carried_role : list (string * string) :=
  [("gogrepState", "carried:gogrepState"); ("gogrepSubState", "carried:gogrepSubState"); ("nodePath", "carried:nodePath");
   ("typematchState", "carried:typematchState"); ("env", "carried:evalEnv")].
Definition carried_keys_ok (l : list (string * string)) : bool :=
  forallb (fun p => if String.prefix "carried:" (snd p)
                    then match find (fun q => String.eqb (fst q) (fst p)) carried_role with
                         | Some q => String.eqb (snd q) (snd p) | None => false end
                    else true) l.
Lemma carried_roles_kept : carried_keys_ok gen_rr_literal = true /\ carried_keys_ok gen_fp_literal = true.
Proof. vm_compute. auto. Qed.

Lemma carried_all_reset : forallb reset_evidence (carried_of gen_rr_literal ++ carried_of gen_fp_literal) = true.
Proof. vm_compute. reflexivity. Qed.

(* nothing outlives engines and states: no function of ruleguard/... or internal/... writes a package-level variable
   (assignment, ++/--, delete(), Store / LoadOrStore / Put / ... on it) outside init() *)
Lemma no_package_level_state : gen_pkg_level_writes = [].
Proof. vm_compute. reflexivity. Qed.

Lemma contains_preset_always : contains_preset_policy = WriteAlways.
Proof. vm_compute. reflexivity. Qed.
Lemma variadic_len_always : variadic_len_policy = WriteAlways /\ value_stack_covered = true.
Proof. vm_compute. auto. Qed.

(* per-match fields of filterParams (the current match, the Do() strings, the custom-filter variable): each is stored in
   front of every evaluation that reads it *)
Definition per_match_policy (f : string) : write_policy :=
  match find (fun p => String.eqb (fst p) f) gen_per_match_stores with
  | Some p => match policy_of_string (snd p) with Some w => w | None => WriteNever end
  | None => WriteNever
  end.
Definition per_match_fields : list string := ["match"; "reportString"; "suggestString"; "varname"].
Lemma per_match_always : forallb (fun f => policy_is_always (per_match_policy f)) per_match_fields = true.
Proof. vm_compute. reflexivity. Qed.
Lemma per_match_always_In f : In f per_match_fields -> per_match_policy f = WriteAlways.
Proof.
  intros H. pose proof per_match_always as A. rewrite forallb_forall in A. specialize (A f H).
  destruct (per_match_policy f); [reflexivity|discriminate|discriminate].
Qed.

(* the walk-scoped context starts at its zero value: the fresh filterParams literal does not mention it and
   nothing but the walker writes it *)
Definition fresh_filter_params : bool :=
  negb (str_mem "deadcode" (map fst gen_fp_literal)) && negb (str_mem "currentFunc" (map fst gen_fp_literal)) &&
  negb (str_mem "filterParams" (map fst gen_rr_literal)) &&      (* it is the nested fresh literal, not a carried value *)
  match gen_ctx_writes_outside_walker with [] => true | _ => false end.

Definition gen_policy : init_policy :=
  {| ip_fresh_filter_params := fresh_filter_params;
     ip_reset_node_path := gen_state_reset_when_reused && gen_reset_truncates_node_path |}.

Lemma gen_policy_ok : policy_ok gen_policy = true.
Proof. vm_compute. reflexivity. Qed.

Lemma st0_same : RunState.st0 = Inst_Walker.st0.
Proof. reflexivity. Qed.

(* a run of one file from whatever an earlier run left behind: events of the walk (reports are a function of them, C01) *)
Definition run_file_from (fuel : nat) (st : wst) (n : node) : rres := model_walk fuel n st [].

(* the bracket of walk() read from source this run is Push + defer Pop *)
Lemma frame_is_defer_pop : gen_frame = FrameDeferPop.
Proof. vm_compute. reflexivity. Qed.

Lemma table_ok_defer : forall k, kind_ok AF FrameDeferPop (gen_table k) (gen_spec k) = true.
Proof. rewrite <- frame_is_defer_pop. exact table_ok. Qed.

Lemma walk_panic_gen : forall (P : ev -> bool) fuel n st E, wf gen_spec n -> (height n < fuel)%nat ->
  let evs := events gen_spec n (w_dead st) (w_func st) (w_stack st) in
  walk AF FrameDeferPop gen_table P fuel n st E =
    if hasp P evs then RPanic (w_stack st) (E ++ cut P evs) else ROk st (E ++ evs).
Proof. intros P. exact (walk_panic AF gen_table gen_spec table_ok_defer P). Qed.

(* the bindings of a type-pattern match live in the RunnerState's typematch state: its inventory, and reset() -- called
   first thing by every MatchIdentical, whatever the previous match did -- empties every field of it *)
Definition known_typematch_state : list string := ["typeMatches"; "int64Matches"].
Fixpoint strs_subset (a b : list string) : bool := match a with [] => true | x :: a' => str_mem x b && strs_subset a' b end.
Lemma typematch_bindings_reset :
  gen_typematch_resets_bindings_per_match = true /\ strs_eqb gen_fields_typematch_MatcherState known_typematch_state = true /\
  strs_subset gen_fields_typematch_MatcherState gen_typematch_reset_clears = true.
Proof. vm_compute. auto. Qed.

(* the match object of a comment rule (its capture list is append-only) is declared per rule *)
Definition comment_match_scope : acc_scope := if String.eqb gen_comment_match_scope "iteration" then ScopeIteration else ScopeLoop.
Lemma comment_match_per_rule : comment_match_scope = ScopeIteration.
Proof. vm_compute. reflexivity. Qed.

(* a run without RunContext.State gets a state of its own *)
Definition gen_nil_policy : nil_state_policy := if String.eqb gen_nil_state_policy "fresh" then NilFresh else NilPooledEarlyRelease.
Lemma nil_state_is_fresh : gen_nil_policy = NilFresh /\ gen_new_runner_state_allocates_all = true.
Proof. vm_compute. auto. Qed.

(* ---- what the engine keeps between runs (types by name, the importer's table, imported packages): every store of an answer
   is reached only when the error that came with the answer is nil (or nothing can have failed) *)
(* `absent`: the literal nil stored as a marker in a table whose reader (same function) serves an entry only when it is not nil --
   never an answer (AnswerCache.NegativeMemo); the only such table is the per-run importer's *)
Definition cache_class_ok (c : string) : bool := existsb (String.eqb c) ["checked"; "total"; "param"; "table-copy"; "absent"].
Definition absent_sites_ok : bool :=
  forallb (fun s => negb (String.eqb (snd s) "absent") || String.eqb (fst s) "engineState.FindType:importer.depTypes") gen_cache_stores.
Definition cache_store_policy : store_policy :=
  if forallb (fun s => cache_class_ok (snd s)) gen_cache_stores then StoreChecked else StoreAlways.
(* the stores of answers that come with an error: they are there, and they are classified `checked` *)
Definition fallible_cache_sites : list string :=
  ["engineState.FindType:state.typeByFQN"; "engineState.FindType:importer.depTypes"; "goImporter.Import:imp.state.AddCachedPackage()"].
Definition cache_site_checked (site : string) : bool :=
  let cs := map snd (filter (fun s => String.eqb (fst s) site) gen_cache_stores) in
  existsb (String.eqb "checked") cs && forallb (fun c => String.eqb "checked" c || String.eqb "absent" c) cs.
Lemma cache_stores_checked :
  cache_store_policy = StoreChecked /\ forallb cache_site_checked fallible_cache_sites = true.
Proof. vm_compute. split; reflexivity. Qed.
Lemma cache_markers_confined : absent_sites_ok = true.
Proof. vm_compute. reflexivity. Qed.

Lemma answers_history_independent :
  forall (key val err : Type) (key_eqb : key -> key -> bool), (forall a b, reflect (a = b) (key_eqb a b)) ->
  forall (resolve : key -> val + err) (junk : val) (ks : list key),
    fst (asks key val err key_eqb resolve junk cache_store_policy [] ks) = map resolve ks.
Proof.
  intros key val err key_eqb Hspec resolve junk ks.
  rewrite (proj1 cache_stores_checked). apply checked_fresh_engine. exact Hspec.
Qed.
