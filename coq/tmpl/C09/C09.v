(* Property C09 -- theorems only; each is closed by `exact` of a lemma proved in RG.Ast.*, RG.Engine.RunState
   (generic) and Inst_Walker.v / Inst_RunState.v (about tables REGENERATED from /repo on this run). *)
From Coq Require Import List NArith Bool Arith Lia String.
From RG.Ast Require Import Tree Walker WalkerProof WalkSpec WfCheck WalkPanic.
From RG.Engine Require Import AnswerCache RunState Reentrant.
From RGW Require Import Gen_AstSchema Gen_Walker Gen_WalkTags Gen_WalkState Gen_RunnerState Inst_Walker Inst_RunState.
Import ListNotations.

(* positions in the walk where context is pushed and popped: whatever the dead-code flag, the current function and
   the ancestor stack are when a node is entered, they are the same when it is left -- for every tree *)
Theorem C09_walk_restores_context :
  forall fuel n st E, wf gen_spec n -> (height n < fuel)%nat -> exists E', model_walk fuel n st E = ROk st E'.
Proof. exact (walk_restores_state AF gen_frame gen_table gen_spec table_ok). Qed.
Print Assumptions C09_walk_restores_context.

(* context never leaks from one node to the next: flag, enclosing function and ancestor stack observed at a visit are
   functions of the node's position (its path from the root) and of nothing that was visited before *)
Theorem C09_context_is_positional :
  forall fuel n E, wf gen_spec n -> (height n < fuel)%nat ->
  exists evs, model_walk fuel n Inst_Walker.st0 E = ROk Inst_Walker.st0 (E ++ evs) /\
    forall e, In e evs <->
      exists steps x t, reach n steps x /\ gen_tag (kind x) = Some t /\
        e = {| e_id := nid x; e_tag := t; e_dead := gen_dead_of steps;
               e_func := gen_func_of steps None; e_path := path_of steps ++ [nid x] |}.
Proof.
  intros fuel n E Hwf Hh. eexists. split; [apply walker_correct; assumption|].
  intros e. unfold gen_spec. rewrite event_iff_reach. cbn [Inst_Walker.st0 w_dead w_func w_stack orb app]. reflexivity.
Qed.
Print Assumptions C09_context_is_positional.

(* the enclosing function is the innermost FuncDecl on the path *)
Theorem C09_enclosing_function :
  forall steps1 s steps2 cf, N.eqb (kind (fst s)) gen_k_FuncDecl = true ->
  (forall s', In s' steps2 -> N.eqb (kind (fst s')) gen_k_FuncDecl = false) ->
  gen_func_of (steps1 ++ s :: steps2) cf = Some (nid (fst s)).
Proof. exact (func_of_last gen_k_FuncDecl). Qed.
Print Assumptions C09_enclosing_function.

(* fresh, nil or previously used state: the walk-scoped context a run starts from is the same *)
Theorem C09_run_ignores_prior_state : forall prior, start_state gen_policy prior = RunState.st0.
Proof. exact (start_state_ignores_prior gen_policy gen_policy_ok). Qed.
Print Assumptions C09_run_ignores_prior_state.

(* every call of every history (any files, any order, any length; whatever a run -- completed or panicked -- leaves
   in the state) gives what the same call gives on a fresh state; in particular repeating a call repeats its result *)
Theorem C09_history_independent :
  forall (input reports : Type) (run_from : wst -> input -> reports) (leftover : wst -> input -> carried) prior h,
  run_history gen_policy input reports run_from leftover prior h = map (run_from (start_state gen_policy None)) h.
Proof. intros. apply history_independent. exact gen_policy_ok. Qed.
Print Assumptions C09_history_independent.

(* files whose analysis panicked in a user-supplied callback: for every tree and every set of visits at which the
   callback panics, the visits delivered are exactly the specified ones up to and including the first panicking one,
   and the ancestor stack is unwound to what it was (Push / defer Pop) *)
Theorem C09_panicking_callback_unwinds :
  gen_frame = FrameDeferPop /\
  forall (P : ev -> bool) fuel n st E, wf gen_spec n -> (height n < fuel)%nat ->
  let evs := events gen_spec n (w_dead st) (w_func st) (w_stack st) in
  walk AF FrameDeferPop gen_table P fuel n st E =
    if hasp P evs then RPanic (w_stack st) (E ++ cut P evs) else ROk st (E ++ evs).
Proof. exact (conj frame_is_defer_pop walk_panic_gen). Qed.
Print Assumptions C09_panicking_callback_unwinds.

Theorem C09_inventory_covered :
  strs_eqb gen_fields_RunnerState known_RunnerState = true /\ strs_eqb gen_fields_rulesRunner known_rulesRunner = true /\
  strs_eqb gen_fields_filterParams known_filterParams = true /\ strs_eqb gen_fields_astWalker known_astWalker = true /\
  strs_eqb gen_fields_nodePath known_nodePath = true.
Proof. exact inventory_covered. Qed.
Print Assumptions C09_inventory_covered.

Theorem C09_carried_state_is_reset :
  forallb reset_evidence (carried_of gen_rr_literal ++ carried_of gen_fp_literal) = true /\ policy_ok gen_policy = true.
Proof. exact (conj carried_all_reset gen_policy_ok). Qed.
Print Assumptions C09_carried_state_is_reset.

(* there is no state besides the engine's and the RunnerState's: the packages of the engine write no package-level variable
   outside init() (memo tables keyed by names, pools, counters ... would be shared by all engines, states and files of a
   process); the cold-process reference runs compare every (rule set, file) with a process that ran everything in the
   opposite order *)
Theorem C09_no_package_level_state : gen_pkg_level_writes = [].
Proof. exact no_package_level_state. Qed.
Print Assumptions C09_no_package_level_state.

(* what the engine keeps BETWEEN runs -- types found by name (ctx.GetType / ctx.GetInterface, Type.Implements ...), imported packages --
   is stored only when the lookup succeeded: every store of an answer that comes with an error is reached only when that error is nil
   (regenerated classification gen_cache_stores). Hence, for every resolver (= what a fresh engine answers, failures included) and every
   sequence of lookups on one engine, each lookup answers what the resolver answers: a failed lookup leaves nothing behind. *)
Theorem C09_answers_kept_between_runs_are_history_independent :
  forall (key val err : Type) (key_eqb : key -> key -> bool), (forall a b, reflect (a = b) (key_eqb a b)) ->
  forall (resolve : key -> val + err) (junk : val) (ks : list key),
    fst (asks key val err key_eqb resolve junk cache_store_policy [] ks) = map resolve ks.
Proof. exact answers_history_independent. Qed.
Print Assumptions C09_answers_kept_between_runs_are_history_independent.

(* ... and it matters: a table that is written whatever came back answers the second lookup of a missing name with the junk
   value (nil) that accompanied the error *)
Theorem C09_unchecked_store_refuted :
  forall (key val err : Type) (key_eqb : key -> key -> bool), (forall a b, reflect (a = b) (key_eqb a b)) ->
  forall (resolve : key -> val + err) (junk : val) k e, resolve k = inr e ->
    fst (asks key val err key_eqb resolve junk StoreAlways [] [k; k]) = [inr e; inl junk].
Proof. exact always_refuted. Qed.
Print Assumptions C09_unchecked_store_refuted.

(* the per-run importer's table also keeps MARKERS (nil: "the dependencies of this package have nothing under that name"); the
   reader serves an entry only when it is not nil (regenerated: class `absent` is given only then, and only at that table). For
   every first stage (the search among the dependencies), second stage (the engine-wide lookup) and sequence of lookups, from any
   sound memo, each lookup answers what the two stages answer without a memo; a reader that served the marker would not *)
Theorem C09_markers_of_the_per_run_table_are_history_independent :
  absent_sites_ok = true /\
  forall (key ans : Type) (key_eqb : key -> key -> bool), (forall a b, reflect (a = b) (key_eqb a b)) ->
  forall (first : key -> option ans) (second : key -> ans) (keep : ans -> bool) (ks : list key) (m : memo key ans),
    msound key ans key_eqb first m ->
    fst (asks2 key ans key_eqb first second keep None m ks) = map (resolve2 key ans first second) ks.
Proof.
  split; [exact cache_markers_confined|].
  intros key ans key_eqb Hspec first second keep ks m S.
  exact (proj1 (memo_history_independent key ans key_eqb Hspec first second keep ks m S)).
Qed.
Print Assumptions C09_markers_of_the_per_run_table_are_history_independent.

Theorem C09_marker_served_refuted :
  forall (key ans : Type) (key_eqb : key -> key -> bool), (forall a b, reflect (a = b) (key_eqb a b)) ->
  forall (first : key -> option ans) (second : key -> ans) (keep : ans -> bool) k junk, first k = None ->
    fst (asks2 key ans key_eqb first second keep (Some junk) [] [k; k]) = [second k; junk].
Proof. exact marker_served_refuted. Qed.
Print Assumptions C09_marker_served_refuted.

(* what is carried goes where it belongs: the runner's field of each role is the RunnerState's field of that role (the
   matcher state of the rule loop and the one of the Contains() searches are not mixed up, the operand stack is the eval
   environment's) *)
Theorem C09_carried_state_keeps_its_role :
  carried_keys_ok gen_rr_literal = true /\ carried_keys_ok gen_fp_literal = true.
Proof. exact carried_roles_kept. Qed.
Print Assumptions C09_carried_state_keeps_its_role.

(* captured variables never leak from one node, rule or file to the next through the Contains() sub-matcher: in every
   sequence of Contains() evaluations (whatever the earlier ones -- other rules, other nodes, other files, earlier runs on
   the same state, injected left-overs -- put into gogrepSubState.CapturePreset) each evaluation presets the sub-pattern
   with the captures of ITS OWN match (the closure read from filters.go this run stores them before any use) *)
Theorem C09_contains_presets_own_captures :
  forall (capture : Type) (leftover : list capture) (h : list (list capture * bool)),
  reg_history (list capture) contains_preset_policy leftover h = map fst h.
Proof. intros. apply reg_history_independent. exact contains_preset_always. Qed.
Print Assumptions C09_contains_presets_own_captures.

(* the variadic-length register of the operand stack (kept in RunnerState.evalEnv): every variadic native call of every
   custom filter, in every sequence of evaluations, pops the number of variadic arguments of ITS OWN call site (the
   compiler read this run emits the store as the instruction in front of the call; the instruction is the register's only
   writer and PopVariadic its only reader) *)
Theorem C09_variadic_len_is_per_call :
  value_stack_covered = true /\
  forall (leftover : N) (h : list (N * bool)), reg_history N variadic_len_policy leftover h = map fst h.
Proof. split; [exact (proj2 variadic_len_always)|]. intros. apply reg_history_independent. exact (proj1 variadic_len_always). Qed.
Print Assumptions C09_variadic_len_is_per_call.

(* the per-match fields a filter or a Do() function reads -- the captures of the current match, the report and suggestion
   strings of Do(), the variable a custom filter is applied to: in every sequence of evaluations each one reads the value
   of ITS OWN match (handleMatch / makeCustomVarFilter, read this run, store it in front of every evaluation) *)
Theorem C09_per_match_fields_are_own :
  forall f, In f per_match_fields ->
  forall (A : Type) (leftover : A) (h : list (A * bool)), reg_history A (per_match_policy f) leftover h = map fst h.
Proof. intros f Hf A leftover h. apply reg_history_independent. exact (per_match_always_In f Hf). Qed.
Print Assumptions C09_per_match_fields_are_own.

(* type-pattern bindings ($t, $n of `[$n]T`, ...) never survive into the next match: every MatchIdentical starts by emptying
   every field of the matcher state kept in the RunnerState -- unconditionally, whether the previous match on this state
   succeeded, failed half-way with variables bound, or ran in another file (the inventory of the state and the body of
   reset() are read from typematch.go on this run) *)
Theorem C09_type_pattern_bindings_are_per_match :
  gen_typematch_resets_bindings_per_match = true /\ strs_eqb gen_fields_typematch_MatcherState known_typematch_state = true /\
  strs_subset gen_fields_typematch_MatcherState gen_typematch_reset_clears = true.
Proof. exact typematch_bindings_reset. Qed.
Print Assumptions C09_type_pattern_bindings_are_per_match.

(* the captures of a comment rule never leak to the next rule tried on the same comment: whatever the rules in front of it
   captured (and were rejected by their filters), a rule looks names up in the list of ITS OWN captures *)
Theorem C09_comment_captures_are_the_rules_own :
  forall (capture : Type) (leftover : list capture) (h : list (list capture)),
  acc_history comment_match_scope leftover h = h.
Proof. intros. rewrite comment_match_per_rule. apply acc_iteration_own. Qed.
Print Assumptions C09_comment_captures_are_the_rules_own.

(* runs that overlap (a Report callback that calls Engine.Run, a run on another goroutine): as long as no RunnerState is
   used by two runs at a time, every run of every interleaving delivers the reports of its own walk -- it does not depend
   on the runs around it either; a run without RunContext.State has a state nobody else can have *)
Theorem C09_overlapping_runs_are_independent :
  (forall steps, exclusive [] steps = true -> forall r, delivered (exec w0 steps) r = lone steps r) /\
  nil_policy_ok gen_nil_policy = true /\ gen_new_runner_state_allocates_all = true.
Proof. split; [exact exclusive_runs_exact|]. destruct nil_state_is_fresh as [H1 H2]. rewrite H1. auto. Qed.
Print Assumptions C09_overlapping_runs_are_independent.

(* ---- non-vacuity ---- *)
Example c09_shared_match_object_leaks :
  acc_history ScopeLoop [] [[("who", 1%N)]; [("who", 2%N)]]%string = [[("who", 1%N)]; [("who", 1%N); ("who", 2%N)]]%string.
Proof. exact acc_loop_leaks. Qed.
Example c09_state_released_early_refuted :
  let steps := [Start 0 7; Visit 0 1; Start 1 7; Visit 1 5; Finish 1; Visit 0 2; Finish 0]%N in
  exclusive [] steps = false /\
  delivered (exec w0 steps) 0%N = [1%N] /\ lone steps 0%N = [1; 2]%N /\ delivered (exec w0 steps) 1%N = [5; 2]%N.
Proof. exact early_release_refuted. Qed.
(* a store that is skipped for some evaluations (no captures / same operand as the last store) leaks *)
Example c09_conditional_store_leaks :
  reg_history N WriteSometimes 0%N [(2%N, true); (1%N, false)] = [2%N; 2%N] /\
  reg_history N WriteSometimes 7%N [(1%N, false)] <> reg_history N WriteSometimes 0%N [(1%N, false)].
Proof. exact reg_sometimes_leaks. Qed.
Example c09_demo : forall c, wf gen_spec (demo_tree c).
Proof. exact demo_wf. Qed.
(* a walk that starts inside dead code, inside function 77, below two foreign ancestors: restored exactly *)
Example c09_restores_from_dirty_context :
  match model_walk 20 (demo_tree (Some true)) {| w_dead := true; w_func := Some 77%N; w_stack := [90; 91]%N |} [] with
  | ROk st evs => (w_dead st, w_func st, w_stack st, List.length evs,
                   map (fun e => (e_id e, e_func e)) (firstn 3 evs))
  | _ => (false, None, [], O, [])
  end = (true, Some 77%N, [90; 91]%N, 16%nat, [(0, Some 77); (1, Some 77); (2, Some 77)]%N).
Proof. vm_compute. reflexivity. Qed.
(* the callback panics at the visit of node 9 (inside the Body of the if): 10 visits delivered, path unwound *)
Example c09_panic_demo :
  match walk AF gen_frame gen_table (fun e => N.eqb (e_id e) 9) 20 (demo_tree None) {| w_dead := false; w_func := None; w_stack := [90]%N |} [] with
  | RPanic stk evs => (stk, map e_id evs)
  | _ => ([], [])
  end = ([90]%N, [0; 1; 2; 3; 4; 5; 6; 7; 8; 9]%N).
Proof. vm_compute. reflexivity. Qed.
(* a history of three runs with adversarial left-overs *)
Example c09_history :
  run_history gen_policy nat (list N) (fun st x => [N.of_nat x; if w_dead st then 1 else 0; N.of_nat (List.length (w_stack st))]%N)
              (fun _ x => {| c_dead := true; c_func := Some 5%N; c_stack := [1; 2; 3]%N |})
              (Some {| c_dead := true; c_func := None; c_stack := [9]%N |}) [4; 5; 4]%nat
  = [[4; 0; 0]; [5; 0; 0]; [4; 0; 0]]%N.
Proof. vm_compute. reflexivity. Qed.
(* a walker that does not restore the current function fails the finite obligation *)
Example c09_mutant_rejected :
  kind_ok AF FrameDeferPop [AVisit 1; ASaveFunc; ASetFuncSelf; AWalk gen_f_Body]
    (spec_of 99 gen_f_Body gen_f_Else 0 (fun _ => Some 1%N) (fun _ => [(gen_f_Body, false)]) 0) = false /\
  kind_ok AF FramePlainPop [AVisit 1; AIf BDead [AReturn] []; AWalk gen_f_Body]
    (spec_of 99 gen_f_Body gen_f_Else 98 (fun _ => Some 1%N) (fun _ => [(gen_f_Body, false)]) 0) = false.
Proof. vm_compute. auto. Qed.
