(* C05: the generic round-trip theorem instantiated with the tables REGENERATED from /repo on this run, and the
   proof about printFile's regenerated literal tree. *)
From Coq Require Import List ZArith Bool String Lia.
From RG.Base Require Import Outcome GoSlice.
From RG.IR Require Import Val Print File RoundTrip Tables FuncEnv.
From RGW Require Import Gen_IR Gen_LoadDiff.
Import ListNotations.
Local Open Scope Z_scope.

Definition gen_zfuel : nat := S (List.length gen_env).
Definition gen_pr := pr gen_env gen_op_names gen_compact_ops gen_pattern_fields gen_compact_fields.
Definition gen_ev := ev gen_env gen_op_consts gen_zfuel.
Definition gen_wf := wf gen_env gen_op_names gen_compact_ops gen_pattern_fields gen_compact_fields.
Definition gen_zero := zero gen_env gen_zfuel.

(* ---- side conditions, by computation on the regenerated tables *)
Lemma gen_ops_consistent : forall n nm, op_const_name gen_op_names n = Some nm -> assoc nm gen_op_consts = Some n.
Proof. apply ops_consistent_of_check. vm_compute. reflexivity. Qed.

Lemma gen_fields_nodup : forall n fts, assoc n gen_env = Some fts -> NoDup (map fst fts).
Proof. apply fields_nodup_of_check. vm_compute. reflexivity. Qed.

Lemma gen_zero_stable : forall n fts, assoc n gen_env = Some fts ->
  zero gen_env gen_zfuel (TNamed n) = VStruct n (map (fun kt => zero gen_env gen_zfuel (snd kt)) fts).
Proof. apply zero_stable_of_forall. repeat (apply Forall_cons; [vm_compute; reflexivity|]). apply Forall_nil. Qed.

(* every op constant has a name and the names are pairwise different: all 0..n-1 ops can be printed *)
Lemma gen_all_ops_named : forallb (fun c => match nassoc (snd c) gen_op_names with Some _ => true | None => false end) gen_op_consts = true.
Proof. vm_compute. reflexivity. Qed.

(* ---- the reflective printer round-trips on every well-formed value of every IR type *)
Theorem gen_roundtrip_val v t inside :
  has_ty gen_env v t = true -> gen_wf v = true -> printable v = true -> gen_ev t inside (gen_pr t inside v) = Some v.
Proof.
  exact (print_eval_roundtrip_val gen_env gen_op_names gen_op_consts gen_compact_ops gen_pattern_fields gen_compact_fields gen_zfuel
           gen_ops_consistent gen_fields_nodup gen_zero_stable v t inside).
Qed.

Theorem gen_roundtrip_elem v t inside :
  has_ty gen_env v t = true -> gen_wf v = true ->
  match gen_pr_elem t inside v with
  | None => v = gen_zero t
  | Some l => gen_ev t inside l = Some v
  end.
Proof.
  exact (print_eval_roundtrip_elem gen_env gen_op_names gen_op_consts gen_compact_ops gen_pattern_fields gen_compact_fields gen_zfuel
           gen_ops_consistent gen_fields_nodup gen_zero_stable v t inside).
Qed.

(* ---- printFile *)
Definition file_ty : ty := TNamed "File".

(* the value the printed file literal evaluates to: the file itself, except that the two slices written by explicit
   loops come back empty instead of nil *)
Definition normalize_file (f : val) : val :=
  match f with
  | VStruct n [p; g; d; b] => VStruct n [p; g; nil_to_empty d; nil_to_empty b]
  | _ => f
  end.

Lemma ev_elems_strings l :
  forallb (fun x => has_ty gen_env x TString) l = true ->
  ev_elems gen_env gen_op_consts gen_zfuel TString (flat_map (fun src : val => [(@None string, LStr (str_of src))]) l) = Some l.
Proof.
  induction l as [|v l IH]; intros H; [reflexivity|]. cbn [forallb] in H. apply andb_prop in H as [Hv Hl].
  destruct v as [| | | | | | |[?|]]; cbn in Hv; try discriminate Hv. cbn [flat_map app str_of ev_elems ev]. rewrite (IH Hl). reflexivity.
Qed.

Lemma bundle_shape v :
  has_ty gen_env v (TNamed "BundleImport") = true -> exists z s1 s2, v = VStruct "BundleImport" [VInt z; VStr s1; VStr s2].
Proof.
  destruct v as [| | | | | |name fs|[?|]]; try (cbn; discriminate).
  rewrite has_ty_struct. intros H. apply andb_prop in H as [Hn Hf]. apply String.eqb_eq in Hn. subst name.
  cbn in Hf.
  destruct fs as [|a fs]; [discriminate|]. destruct fs as [|b fs]; [cbn in Hf; rewrite andb_false_r in Hf; discriminate|].
  destruct fs as [|c fs]; [cbn in Hf; rewrite !andb_false_r in Hf; discriminate|].
  destruct fs as [|d fs]; [|cbn in Hf; rewrite !andb_false_r in Hf; discriminate].
  cbn in Hf. rewrite andb_true_r in Hf. apply andb_prop in Hf as [Ha Hf]. apply andb_prop in Hf as [Hb Hc].
  destruct a as [| | | | | | |[?|]]; try discriminate Ha.
  destruct b as [| | | | | | |[?|]]; try discriminate Hb.
  destruct c as [| | | | | | |[?|]]; try discriminate Hc.
  eauto.
Qed.

Definition bundle_elts (imp : val) : list (option string * lit) :=
  [(@None string, LComp None
        ([(Some "Line"%string, LInt (int_of (fld gen_env imp "Line")))]
         ++ [(Some "PkgPath"%string, LStr (str_of (fld gen_env imp "PkgPath")))]
         ++ [(Some "Prefix"%string, LStr (str_of (fld gen_env imp "Prefix")))]))].

Lemma ev_elems_bundles l :
  forallb (fun x => has_ty gen_env x (TNamed "BundleImport")) l = true ->
  ev_elems gen_env gen_op_consts gen_zfuel (TNamed "BundleImport") (flat_map bundle_elts l) = Some l.
Proof.
  induction l as [|v l IH]; intros H; [reflexivity|]. cbn [forallb] in H. apply andb_prop in H as [Hv Hl].
  destruct (bundle_shape v Hv) as (z & s1 & s2 & ->).
  cbn [flat_map]. unfold bundle_elts at 1. cbn [app ev_elems].
  replace (ev gen_env gen_op_consts gen_zfuel (TNamed "BundleImport") true _)
    with (Some (VStruct "BundleImport" [VInt z; VStr s1; VStr s2])) by (vm_compute; reflexivity).
  rewrite (IH Hl). reflexivity.
Qed.

Lemma file_shape f :
  has_ty gen_env f file_ty = true ->
  exists s g d b, f = VStruct "File" [VStr s; g; VSlice d; VSlice b]
    /\ has_ty gen_env g (TSlice (TNamed "RuleGroup")) = true
    /\ forallb (fun x => has_ty gen_env x TString) (elems_of (VSlice d)) = true
    /\ forallb (fun x => has_ty gen_env x (TNamed "BundleImport")) (elems_of (VSlice b)) = true.
Proof.
  unfold file_ty. destruct f as [| | | | | |name fs|[?|]]; try (cbn; discriminate).
  rewrite has_ty_struct. intros H. apply andb_prop in H as [Hn Hf]. apply String.eqb_eq in Hn. subst name.
  cbn in Hf.
  destruct fs as [|p fs]; [discriminate|]. destruct fs as [|g fs]; [cbn in Hf; rewrite ?andb_false_r in Hf; discriminate|].
  destruct fs as [|d fs]; [cbn in Hf; rewrite ?andb_false_r in Hf; discriminate|].
  destruct fs as [|b fs]; [cbn in Hf; rewrite ?andb_false_r in Hf; discriminate|].
  destruct fs as [|x fs]; [|cbn in Hf; rewrite ?andb_false_r in Hf; discriminate].
  cbn [fields_have_ty] in Hf. rewrite andb_true_r in Hf.
  apply andb_prop in Hf as [Hp Hf]. apply andb_prop in Hf as [Hg Hf]. apply andb_prop in Hf as [Hd Hb].
  destruct p as [| | | | | | |[?|]]; try discriminate Hp.
  destruct d as [| | | | | | |d]; try discriminate Hd.
  destruct b as [| | | | | | |b]; try discriminate Hb.
  exists s, g, d, b. split; [reflexivity|]. split; [exact Hg|]. split.
  - destruct d; [exact Hd|reflexivity].
  - destruct b; [exact Hb|reflexivity].
Qed.

Theorem gen_file_roundtrip f :
  has_ty gen_env f file_ty = true ->
  gen_wf (fld gen_env f "RuleGroups") = true ->
  gen_ev file_ty false (gen_print_file f) = Some (normalize_file f).
Proof.
  intros Hty Hwf. destruct (file_shape f Hty) as (s & g & d & b & -> & Hg & Hd & Hb).
  change (fld gen_env (VStruct "File" [VStr s; g; VSlice d; VSlice b]) "RuleGroups") with g in Hwf.
  unfold gen_print_file.
  change (fld gen_env (VStruct "File" [VStr s; g; VSlice d; VSlice b]) "PkgPath") with (VStr s).
  change (fld gen_env (VStruct "File" [VStr s; g; VSlice d; VSlice b]) "RuleGroups") with g.
  change (fld gen_env (VStruct "File" [VStr s; g; VSlice d; VSlice b]) "CustomDecls") with (VSlice d).
  change (fld gen_env (VStruct "File" [VStr s; g; VSlice d; VSlice b]) "BundleImports") with (VSlice b).
  pose proof (ev_elems_strings _ Hd) as A2.
  pose proof (ev_elems_bundles _ Hb) as A3. unfold bundle_elts in A3.
  pose proof (gen_roundtrip_elem g (TSlice (TNamed "RuleGroup")) false Hg Hwf) as A4.
  unfold gen_ev, file_ty. rewrite ev_struct.
  destruct (assoc "File" gen_env) as [fts|] eqn:E; vm_compute in E; [|discriminate E]. inversion E; subst fts; clear E.
  cbn [tag_ok String.append]. rewrite String.eqb_refl.
  cbn [app ev_fields assoc String.eqb Ascii.eqb Bool.eqb].
  rewrite !ev_slice. cbn [tag_ok ty_name String.append]. rewrite !String.eqb_refl.
  cbn [app] in A3. rewrite A2, A3. cbn [option_map ev str_of].
  destruct (gen_pr_elem (TSlice (TNamed "RuleGroup")) false g) as [lg|] eqn:Eg.
  - cbn [opt_keyed ev_fields assoc String.eqb Ascii.eqb Bool.eqb].
    unfold gen_ev in A4. rewrite A4. cbn [option_map].
    destruct d, b; reflexivity.
  - cbn [opt_keyed ev_fields option_map]. subst g.
    destruct d, b; reflexivity.
Qed.

(* ---- Load vs LoadFromIR: after Load's conversion prelude the two bodies are the same statements, except that
   Load hands the type-checked rules package to the loader configuration *)
Lemma gen_load_bodies_agree : gen_load_diff = ["config.pkg"%string].
Proof. vm_compute. reflexivity. Qed.

Lemma gen_load_prelude_nonempty : gen_load_prelude <> [].
Proof. vm_compute. discriminate. Qed.

(* the consumers of the two loop-printed slices cannot tell nil from empty *)
Lemma gen_loop_slices_nil_insensitive :
  forallb (fun u => String.eqb u "range" || String.eqb u "len") gen_loop_slice_uses = true.
Proof. vm_compute. reflexivity. Qed.

Definition file_wf (f : val) : Prop :=
  has_ty gen_env f file_ty = true /\ gen_wf (fld gen_env f "RuleGroups") = true.

Lemma gen_precompiled_equals_source
      (src pkginfo ruleset err : Type) (convert : src -> val * pkginfo + err) (load_file : option pkginfo -> val -> ruleset + err) :
  (forall pk f, load_file pk (normalize_file f) = load_file pk f) ->
  (forall p f, load_file (Some p) f = load_file None f) ->
  forall s f p, convert s = inl (f, p) -> file_wf f ->
  exists f', gen_ev file_ty false (gen_print_file f) = Some f' /\
             load src val pkginfo ruleset err convert load_file s = load_from_ir val pkginfo ruleset err load_file f'.
Proof.
  intros Hn Hp. apply (precompiled_equals_source src val pkginfo ruleset err convert load_file file_wf
                         (fun f => gen_ev file_ty false (gen_print_file f)) normalize_file); try assumption.
  intros f [H1 H2]. now apply gen_file_roundtrip.
Qed.

(* ---- load histories: the tails of Load and LoadFromIR commit the new rule set in the same way, and no statement of the
   loader (packages ruleguard, ruleguard/ir) writes into an IR value it was handed *)
Lemma gen_commit_paths_agree :
  forall (ruleset err : Type) (m : list ruleset -> ruleset + err) (e : option ruleset) (r : ruleset),
    gen_commit_load ruleset err m e r = gen_commit_ir ruleset err m e r.
Proof. intros. reflexivity. Qed.

Lemma gen_no_ir_write_sites : gen_ir_write_sites = [].
Proof. reflexivity. Qed.

Lemma gen_mixed_history_equals_source_history
      (src irfile pkginfo ruleset err : Type) (convert : src -> irfile * pkginfo + err)
      (load_file : option pkginfo -> irfile -> (ruleset + err) * irfile) (merge : list ruleset -> ruleset + err) :
  (forall pk f, snd (load_file pk f) = f) ->
  (forall p f, fst (load_file (Some p) f) = fst (load_file None f)) ->
  forall (srcs : nat -> option src) (st : lstate irfile ruleset) (h : list (lstep src)),
    store_ok src irfile pkginfo ruleset err convert load_file srcs (l_store irfile ruleset st) ->
    (forall k, In (FromIR src k) h -> nth_error (l_store irfile ruleset st) k <> None) ->
    lrun src irfile pkginfo ruleset err convert load_file merge (gen_commit_load ruleset err) (gen_commit_ir ruleset err) st
         (map (to_source src srcs) h)
    = lrun src irfile pkginfo ruleset err convert load_file merge (gen_commit_load ruleset err) (gen_commit_ir ruleset err) st h.
Proof.
  intros Hf Hp. apply mixed_history_equals_source_history; try assumption.
  intros. apply gen_commit_paths_agree.
Qed.

(* ---- the exported wrappers forward alike, and the two places that turn rules source into IR (convertAST inside Load, the
   precompiler's command) set up parser, type checker and irconv.Context alike: `convert` is one function *)
Lemma gen_wrappers_agree : gen_wrapper_diff = [].
Proof. reflexivity. Qed.

Lemma gen_convert_sites_agree : gen_convert_site_load = gen_convert_site_precompile.
Proof. vm_compute. reflexivity. Qed.

Lemma gen_convert_site_complete :
  forallb (fun need => existsb (String.eqb need) gen_convert_site_load)
          ["Context.Fset is the parser's file set: yes"; "Context.Pkg is the checked package: yes"; "Context.Src is the parsed text: yes";
           "Context.Types is the checker's info: yes"; "the parsed file is the file converted: yes";
           "the parsed file is the only file checked: yes"]%string = true.
Proof. vm_compute. reflexivity. Qed.

(* ---- custom functions (Filter(fn) / Do(fn)): the package name they are registered under is the name both producers of
   IR check a rules file under -- File.PkgPath, the key of the loader's lookups, is that name whatever the file declares *)
Lemma gen_func_env_wired :
  forallb (fun c : string * string => String.eqb (snd c) (gen_func_loaded_var ++ ".Pkg.Path()")%string) gen_func_register_calls = true
  /\ existsb (fun c : string * string => String.eqb (fst c) "AddFunc"%string) gen_func_register_calls = true
  /\ gen_func_stray_registrations = []
  /\ gen_func_lookups <> []
  /\ forallb (fun c : string * string => String.eqb (snd c) "l.file.PkgPath"%string) gen_func_lookups = true
  /\ gen_file_pkgpath_sources = ["conv.pkg.Path()"%string] /\ gen_converter_pkg_sources = ["ctx.Pkg"%string]
  /\ gen_loader_pkg_fallback = [("l.pkg == nil => l.pkg = " ++ gen_func_loaded_var ++ ".Pkg")%string].
Proof. repeat split; try (vm_compute; reflexivity). vm_compute. discriminate. Qed.

Lemma gen_func_pkgs_agree :
  gen_ir_pkg_from_source = gen_func_registered_pkg /\ gen_ir_pkg_from_precompiler = gen_func_registered_pkg.
Proof. split; vm_compute; reflexivity. Qed.

Lemma gen_custom_functions_resolve (fn : Type) (decls : list (string * fn)) (uses : list string) (e : env fn) :
  (forall n, In n uses -> In n (map fst decls)) ->
  resolve fn gen_ir_pkg_from_source uses (register fn gen_func_registered_pkg decls e) <> None
  /\ resolve fn gen_ir_pkg_from_precompiler uses (register fn gen_func_registered_pkg decls e)
     = resolve fn gen_ir_pkg_from_source uses (register fn gen_func_registered_pkg decls e).
Proof.
  intros H. destruct gen_func_pkgs_agree as [A B]. split.
  - now apply resolves_under_registration_package.
  - now apply producers_resolve_alike.
Qed.

(* ---- compileFilterFuncs: for a file that has custom declarations and a loader that was given no rules package, every
   successful way out of the function lies behind the installation of the stand-in (and there is one) *)
Lemma gen_cff_ok : cff_ok gen_cff_steps = true.
Proof. vm_compute. reflexivity. Qed.

Lemma gen_stand_in_on_every_success :
  (forall e, In e (cff_exits true false gen_cff_steps) -> fst e = true -> snd e = true)
  /\ (exists e, In e (cff_exits true false gen_cff_steps) /\ fst e = true).
Proof. exact (stand_in_on_every_success gen_cff_steps gen_cff_ok). Qed.

(* ---- the printer's domain: lists of strings that it writes reflectively get their elements from strings.Fields only
   (no element of its result is empty: the documented contract of strings.Fields, trusted) *)
Definition producer_yields_nonempty (p : string) : bool := String.prefix "strings.Fields(" p.

Lemma gen_string_lists_have_no_empty_element :
  gen_irconv_string_list_producers <> []
  /\ forallb (fun fp : string * string => producer_yields_nonempty (snd fp)) gen_irconv_string_list_producers = true.
Proof. split; [discriminate|vm_compute; reflexivity]. Qed.
