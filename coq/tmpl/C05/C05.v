(* Property C05 -- theorems only: each is closed by `exact` of a lemma of Inst_IR.v, which instantiates the generic
   theorems of RG.IR with the type inventory, FilterOp tables, printer special cases and printFile literal tree
   REGENERATED from /repo on this run. *)
From Coq Require Import List ZArith Bool String Lia.
From RG.Base Require Import Outcome GoSlice.
From RG.IR Require Import Val Print File RoundTrip Tables Quote FuncEnv.
From RGW Require Import Gen_IR Gen_LoadDiff Inst_IR.
Import ListNotations.
Local Open Scope Z_scope.

(* Evaluating what the reflective printer writes for a value gives the value back: for ALL types of the IR, ALL
   well-formed values (every op, negative/zero ints, empty strings, nil vs empty slices, any nesting). *)
Theorem C05_print_eval_roundtrip :
  forall v t inside,
    has_ty gen_env v t = true -> gen_wf v = true -> printable v = true ->
    gen_ev t inside (gen_pr t inside v) = Some v.
Proof. exact gen_roundtrip_val. Qed.
Print Assumptions C05_print_eval_roundtrip.

(* a zero value writes nothing, and nothing evaluates to the zero value *)
Theorem C05_omitted_iff_zero :
  forall v t inside,
    has_ty gen_env v t = true -> gen_wf v = true ->
    match gen_pr_elem t inside v with
    | None => v = gen_zero t
    | Some l => gen_ev t inside l = Some v
    end.
Proof. exact gen_roundtrip_elem. Qed.
Print Assumptions C05_omitted_iff_zero.

(* The whole printed file (printFile's hand-written top included) evaluates to the file; the only change is that
   nil CustomDecls / BundleImports come back as empty slices. *)
Theorem C05_file_roundtrip :
  forall f,
    has_ty gen_env f (TNamed "File") = true ->
    gen_wf (fld gen_env f "RuleGroups") = true ->
    gen_ev (TNamed "File") false (gen_print_file f) = Some (normalize_file f).
Proof. exact gen_file_roundtrip. Qed.
Print Assumptions C05_file_roundtrip.

(* Load = LoadFromIR after conversion, up to the loader's `pkg` field *)
Theorem C05_load_bodies_agree : gen_load_diff = ["config.pkg"%string].
Proof. exact gen_load_bodies_agree. Qed.
Print Assumptions C05_load_bodies_agree.

Theorem C05_load_paths_agree :
  forall (src irfile pkginfo ruleset err : Type)
         (convert : src -> irfile * pkginfo + err) (load_file : option pkginfo -> irfile -> ruleset + err),
    (forall p f, load_file (Some p) f = load_file None f) ->
    forall s f p, convert s = inl (f, p) ->
                  load src irfile pkginfo ruleset err convert load_file s = load_from_ir irfile pkginfo ruleset err load_file f.
Proof. exact load_paths_agree. Qed.
Print Assumptions C05_load_paths_agree.

(* The whole chain of the property: an engine loaded (LoadFromIR) from the value obtained by evaluating the printed IR
   of a rules file equals the engine loaded from the source (Load) -- given the two stated facts about LoadFile:
   it cannot tell nil from empty CustomDecls/BundleImports (its uses of them are regenerated: range / len only, see
   C05_loop_slices_nil_insensitive) and config.pkg does not change what it builds. *)
Theorem C05_loop_slices_nil_insensitive :
  forallb (fun u => String.eqb u "range" || String.eqb u "len") gen_loop_slice_uses = true.
Proof. exact gen_loop_slices_nil_insensitive. Qed.
Print Assumptions C05_loop_slices_nil_insensitive.

Theorem C05_precompiled_equals_source :
  forall (src pkginfo ruleset err : Type) (convert : src -> val * pkginfo + err) (load_file : option pkginfo -> val -> ruleset + err),
    (forall pk f, load_file pk (normalize_file f) = load_file pk f) ->
    (forall p f, load_file (Some p) f = load_file None f) ->
    forall s f p, convert s = inl (f, p) -> file_wf f ->
    exists f', gen_ev (TNamed "File") false (gen_print_file f) = Some f' /\
               load src val pkginfo ruleset err convert load_file s = load_from_ir val pkginfo ruleset err load_file f'.
Proof. exact gen_precompiled_equals_source. Qed.
Print Assumptions C05_precompiled_equals_source.

(* Load histories. ANY sequence of loads into one engine, each file taken from source (Load) or from a precompiled value
   shared by every LoadFromIR of that file (a package-level variable: any number of loads, any number of engines), leaves
   the engine -- and tells the caller -- what the all-source history does, and leaves the precompiled values untouched.
   About the real code this uses: the regenerated tails of Load and LoadFromIR are the same Gallina term
   (C05_commit_paths_agree: same merge order), and the loader does not write through the pointer it is handed
   (stated as `snd (load_file pk f) = f`; backed by C05_no_ir_write_sites -- the regenerated list of statements of packages
   ruleguard and ruleguard/ir that may write into an IR value they did not build is empty -- and by reflect.DeepEqual against
   a fresh evaluation of the literal after every LoadFromIR of the run). *)
Theorem C05_commit_paths_agree :
  forall (ruleset err : Type) (m : list ruleset -> ruleset + err) (e : option ruleset) (r : ruleset),
    gen_commit_load ruleset err m e r = gen_commit_ir ruleset err m e r.
Proof. exact gen_commit_paths_agree. Qed.
Print Assumptions C05_commit_paths_agree.

Theorem C05_no_ir_write_sites : gen_ir_write_sites = [].
Proof. exact gen_no_ir_write_sites. Qed.
Print Assumptions C05_no_ir_write_sites.

Theorem C05_mixed_history_equals_source_history :
  forall (src irfile pkginfo ruleset err : Type) (convert : src -> irfile * pkginfo + err)
         (load_file : option pkginfo -> irfile -> (ruleset + err) * irfile) (merge : list ruleset -> ruleset + err),
    (forall pk f, snd (load_file pk f) = f) ->
    (forall p f, fst (load_file (Some p) f) = fst (load_file None f)) ->
    forall (srcs : nat -> option src) (st : lstate irfile ruleset) (h : list (lstep src)),
      store_ok src irfile pkginfo ruleset err convert load_file srcs (l_store irfile ruleset st) ->
      (forall k, In (FromIR src k) h -> nth_error (l_store irfile ruleset st) k <> None) ->
      lrun src irfile pkginfo ruleset err convert load_file merge (gen_commit_load ruleset err) (gen_commit_ir ruleset err) st
           (map (to_source src srcs) h)
      = lrun src irfile pkginfo ruleset err convert load_file merge (gen_commit_load ruleset err) (gen_commit_ir ruleset err) st h.
Proof. exact gen_mixed_history_equals_source_history. Qed.
Print Assumptions C05_mixed_history_equals_source_history.

Theorem C05_history_leaves_precompiled_values :
  forall (src irfile pkginfo ruleset err : Type) (convert : src -> irfile * pkginfo + err)
         (load_file : option pkginfo -> irfile -> (ruleset + err) * irfile) (merge : list ruleset -> ruleset + err)
         (commit_src commit_ir : (list ruleset -> ruleset + err) -> option ruleset -> ruleset -> option ruleset + err),
    (forall pk f, snd (load_file pk f) = f) ->
    forall (st : lstate irfile ruleset) (h : list (lstep src)),
      l_store irfile ruleset (fst (lrun src irfile pkginfo ruleset err convert load_file merge commit_src commit_ir st h))
      = l_store irfile ruleset st.
Proof. exact history_leaves_precompiled_values. Qed.
Print Assumptions C05_history_leaves_precompiled_values.

(* `convert` is one function: Load's conversion (convertAST) and the precompiler's (cmd/gorules precompileCommand) set up the
   parser flags, the types.Info maps, the package name and the irconv.Context fields alike (regenerated from both), and the
   exported Engine.Load / Engine.LoadFromIR forward their arguments alike. Each run also compares the two conversions'
   results (reflect.DeepEqual) and takes the printed text from the real `gorules precompile` binary. *)
Theorem C05_convert_sites_agree : gen_convert_site_load = gen_convert_site_precompile /\ gen_wrapper_diff = [].
Proof. exact (conj gen_convert_sites_agree gen_wrappers_agree). Qed.
Print Assumptions C05_convert_sites_agree.

(* Custom functions. The loader compiles a file's CustomDecls as a Go file of package gen_func_registered_pkg (it writes the
   package clause itself), binds every function under (that package, name) and resolves the names the rules use under
   (File.PkgPath, name); File.PkgPath is the package the producer of the IR type-checked the rules file as. Regenerated: the
   three names and every link of the chain (C05_func_env_wired). Hence: every declared function a file's rules use is found,
   with the IR from source and with the IR from the precompiler alike, WHATEVER package clause the rules file declares;
   and (generic) an IR that carries any other PkgPath finds none of them in a fresh engine.
   Last conjunct: LoadFromIR has no type-checked rules package to hand to the loader (gen_load_diff = config.pkg); the
   package of the compiled declarations -- the same declarations, checked under the same name -- stands in for it, so a
   type the rules file declares (Implements("gorules.T")) resolves on both paths. *)
Theorem C05_func_env_wired :
  forallb (fun c : string * string => String.eqb (snd c) (gen_func_loaded_var ++ ".Pkg.Path()")%string) gen_func_register_calls = true
  /\ existsb (fun c : string * string => String.eqb (fst c) "AddFunc"%string) gen_func_register_calls = true
  /\ gen_func_stray_registrations = []
  /\ gen_func_lookups <> []
  /\ forallb (fun c : string * string => String.eqb (snd c) "l.file.PkgPath"%string) gen_func_lookups = true
  /\ gen_file_pkgpath_sources = ["conv.pkg.Path()"%string] /\ gen_converter_pkg_sources = ["ctx.Pkg"%string]
  /\ gen_loader_pkg_fallback = [("l.pkg == nil => l.pkg = " ++ gen_func_loaded_var ++ ".Pkg")%string].
Proof. exact gen_func_env_wired. Qed.
Print Assumptions C05_func_env_wired.

(* ... and WHERE the stand-in is installed (compileFilterFuncs regenerated statement by statement, IR/FuncEnv.v cff_exits): for
   a file that has custom declarations -- functions or only types / constants / variables -- loaded without a rules package,
   every way out of the function that is a success leaves the stand-in installed, and a package that was given is kept. *)
Theorem C05_decls_package_stands_in_on_every_success :
  (forall e, In e (cff_exits true false gen_cff_steps) -> fst e = true -> snd e = true)
  /\ (exists e, In e (cff_exits true false gen_cff_steps) /\ fst e = true)
  /\ (forall decls e, In e (cff_exits decls true gen_cff_steps) -> snd e = true).
Proof. exact (conj (proj1 gen_stand_in_on_every_success) (conj (proj2 gen_stand_in_on_every_success) (given_package_kept gen_cff_steps))). Qed.
Print Assumptions C05_decls_package_stands_in_on_every_success.

(* The domain of the round-trip theorem leaves out zero-valued list elements (the printer writes nothing for them). For
   lists of strings that is a fact about irconv: every value it stores in such a field (regenerated) is a strings.Fields
   result. (Lists of structs: every element carries a source line; checked on every converted file of the run.) *)
Theorem C05_string_lists_have_no_empty_element :
  gen_irconv_string_list_producers <> []
  /\ forallb (fun fp : string * string => String.prefix "strings.Fields(" (snd fp)) gen_irconv_string_list_producers = true.
Proof. exact gen_string_lists_have_no_empty_element. Qed.
Print Assumptions C05_string_lists_have_no_empty_element.

Theorem C05_custom_functions_resolve :
  forall (fn : Type) (decls : list (string * fn)) (uses : list string) (e : env fn),
    (forall n, In n uses -> In n (map fst decls)) ->
    resolve fn gen_ir_pkg_from_source uses (register fn gen_func_registered_pkg decls e) <> None
    /\ resolve fn gen_ir_pkg_from_precompiler uses (register fn gen_func_registered_pkg decls e)
       = resolve fn gen_ir_pkg_from_source uses (register fn gen_func_registered_pkg decls e).
Proof. exact gen_custom_functions_resolve. Qed.
Print Assumptions C05_custom_functions_resolve.

Theorem C05_custom_functions_need_the_registration_package :
  forall (fn : Type) (pkg file_pkg : string) (decls : list (string * fn)) (uses : list string),
    file_pkg <> pkg -> uses <> [] -> resolve fn file_pkg uses (register fn pkg decls []) = None.
Proof. exact unresolved_under_other_package. Qed.
Print Assumptions C05_custom_functions_need_the_registration_package.

(* String quoting. The literal trees above carry DECODED strings; the decoding is Go's reading of an interpreted string
   literal (unquote_go). It gives back the string for EVERY quoter that writes it piece by piece as a raw byte, a simple
   escape, \xHH, \uXXXX or \UXXXXXXXX (whichever form for whichever piece -- strconv.Quote's choice follows the
   unicode.IsPrint tables), and every byte string can be written that way. The check runs unquote_go on every distinct
   token of the real irprint output. *)
Theorem C05_string_literal_decoding :
  (forall ds es, Forall2 piece ds es -> unquote_go (34 :: List.concat es ++ [34]) = Some (List.concat ds))
  /\ (forall s, Forall (fun c => 0 <= c < 256) s -> unquote_go (34 :: List.concat (map quote_byte s) ++ [34]) = Some s).
Proof. exact (conj unquote_pieces every_string_can_be_written). Qed.
Print Assumptions C05_string_literal_decoding.

(* non-vacuity *)
Definition ex_fe : val :=
  VStruct "FilterExpr" [VInt 7; VOp 2; VStr [97]; VNil;
    VSlice (Some [ VStruct "FilterExpr" [VInt 0; VOp 46; VStr []; VIStr []; VSlice None];
                   VStruct "FilterExpr" [VInt (-3); VOp 47; VStr [49]; VI64 0; VSlice (Some [])] ])].
Example c05_fe : has_ty gen_env ex_fe (TNamed "FilterExpr") = true /\ gen_wf ex_fe = true /\ printable ex_fe = true
  /\ gen_ev (TNamed "FilterExpr") false (gen_pr (TNamed "FilterExpr") false ex_fe) = Some ex_fe.
Proof. repeat split; vm_compute; reflexivity. Qed.

Definition ex_file : val :=
  VStruct "File" [VStr [103]; VSlice None; VSlice None;
                  VSlice (Some [VStruct "BundleImport" [VInt 9; VStr [98]; VStr [112]]])].
Example c05_file : has_ty gen_env ex_file (TNamed "File") = true
  /\ gen_ev (TNamed "File") false (gen_print_file ex_file)
     = Some (VStruct "File" [VStr [103]; VSlice None; VSlice (Some []); VSlice (Some [VStruct "BundleImport" [VInt 9; VStr [98]; VStr [112]]])]).
Proof. split; vm_compute; reflexivity. Qed.

(* a history over a toy loader: rule sets are lists of rule names, merging concatenates in argument order; the second load
   of the shared value 0 after a source load gives the rules in load order, as the all-source history does *)
Definition ex_convert (s : nat) : list nat * unit + unit := inl ([s; s + 1]%nat, tt).
Definition ex_load_file (_ : option unit) (f : list nat) : (list nat + unit) * list nat := (inl f, f).
Definition ex_merge (l : list (list nat)) : list nat + unit := inl (List.concat l).
Example c05_history :
  l_eng _ _ (fst (lrun nat (list nat) unit (list nat) unit ex_convert ex_load_file ex_merge (gen_commit_load _ _) (gen_commit_ir _ _)
                      (mkLState _ _ None [[10; 11]%nat]) [FromSource nat 5%nat; FromIR nat 0%nat; FromIR nat 0%nat]))
  = Some [5; 6; 10; 11; 10; 11]%nat
  /\ store_ok nat (list nat) unit (list nat) unit ex_convert ex_load_file (fun k => match k with O => Some 10%nat | _ => None end) [[10; 11]%nat].
Proof.
  split; [vm_compute; reflexivity|].
  intros [|k] f' H; [|destruct k; discriminate H]. cbn in H. inversion H; subst f'.
  exists 10%nat. split; [reflexivity|]. exists [10; 11]%nat, tt. split; reflexivity.
Qed.
