#!/bin/bash
# Full .vo build of the repo-independent theories (never -vos/-vok). Serialised by a lock.
set -e
cd "$(dirname "$0")"
exec 9> .build.lock
flock 9
( cat _CoqProject; find theories -name '*.v' | sort ) > _CoqProject.all
if [ ! -f Makefile.coq ] || ! cmp -s _CoqProject.all .CoqProject.prev; then
  coq_makefile -f _CoqProject.all -o Makefile.coq > /dev/null
  cp _CoqProject.all .CoqProject.prev
fi
timeout ${COQ_BUILD_TIMEOUT:-3000} make -k -f Makefile.coq -j${COQ_JOBS:-16} --no-print-directory "$@"
