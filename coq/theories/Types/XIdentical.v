(* C14: model of internal/xtypes.Identical / Implements and its specification.

   identical_x mirrors typeIdentical (internal/xtypes/xtypes.go) case by case:
     - both operands are unaliased first (types.Unalias), then the type switch on x;
     - the initial pointer test `x == y` is not modelled separately: pointer-equal types are the same term, and
       `identical_x_refl_same` shows the structural cases already answer true there, so the shortcut only matters for
       type parameters, where the model's case is exactly "same universe and same declaration" = pointer equality;
     - Named: same type name object, or same name and same package path (sameTypeName), and identical type arguments;
     - Struct: same number of fields; per field: embedded flag, tag, sameID (name; package path for unexported names), type;
     - Interface: same number of methods; per method (canonical order): Id and signature;
     - Array: lengths equal or one of them unknown (< 0), which a successful type-check never produces (wf).
   The ifacePair stack of the real code only cuts cycles through anonymous interface literals; such cyclic
   types have no finite term and are outside this model (they are exercised against go/types by the harness only). *)
From Coq Require Import List ZArith NArith Bool String Ascii Lia.
From RG.Types Require Import GType.
Import ListNotations.
Local Open Scope string_scope.

(* sameID(obj, pkg, name) of xtypes.go, for a field f (obj) against g's (pkg, name) *)
Definition sameID (f g : fieldhdr) : bool :=
  String.eqb (fh_name g) (fh_name f) && (is_exported (fh_name f) || String.eqb (fh_pkg g) (fh_pkg f)).

Definition field_x (f g : fieldhdr) : bool :=
  Bool.eqb (fh_emb f) (fh_emb g) && String.eqb (fh_tag f) (fh_tag g) && sameID f g.

Definition head_x (hx hy : head) : bool :=
  match hx, hy with
  | HBasic k, HBasic k' => N.eqb k k'
  | HArray n, HArray m => (n <? 0)%Z || (m <? 0)%Z || (n =? m)%Z
  | HSlice, HSlice => true
  | HStruct fs, HStruct gs => all2 field_x fs gs
  | HPointer, HPointer => true
  | HTuple, HTuple => true
  | HSig v, HSig w => Bool.eqb v w
  | HInterface a, HInterface b => all2 String.eqb a b
  | HMap, HMap => true
  | HChan d, HChan e => N.eqb d e
  | HNamed _ p n, HNamed _ q m => String.eqb n m && String.eqb p q
  | HTypeParam u i, HTypeParam v j => N.eqb u v && String.eqb i j
  | _, _ => false
  end.

Fixpoint identical_x (x y : gtype) {struct x} : bool :=
  match x with
  | T (HAlias _ _ _) [r] => identical_x r y
  | T hx xs => match unalias_top y with T hy ys => head_x hx hy && all2 identical_x xs ys end
  end.

(* ---------------------------------------------------------------- specification *)
(* Go specification identity inside one universe *)
Definition go_identical (a b : gtype) : Prop := unalias_deep a = unalias_deep b.
Definition go_identicalb (a b : gtype) : bool := gt_eqb (unalias_deep a) (unalias_deep b).
(* cross-universe: a type is related to its counterpart (same term up to universe ids) and to nothing else *)
Definition x_spec (a b : gtype) : Prop := norm a = norm b.
Definition x_specb (a b : gtype) : bool := gt_eqb (norm a) (norm b).

Lemma go_identicalb_iff a b : go_identicalb a b = true <-> go_identical a b.
Proof. apply gt_eqb_eq. Qed.
Lemma x_specb_iff a b : x_specb a b = true <-> x_spec a b.
Proof. apply gt_eqb_eq. Qed.

Lemma x_spec_is_erased_go_identical a b : x_spec a b <-> go_identical (erase a) (erase b).
Proof.
  unfold x_spec, go_identical.
  assert (E : forall t, unalias_deep (erase t) = norm t).
  { induction t as [h xs IH] using gtype_ind'.
    destruct (is_alias_node (T h xs)) eqn:Ha.
    - destruct h; try discriminate. destruct xs as [|r [|? ?]]; try discriminate.
      cbn. inversion IH; subst; assumption.
    - rewrite norm_node by assumption. cbn [erase].
      assert (Ha' : is_alias_node (T (erase_h h) (map erase xs)) = false).
      { destruct h; try reflexivity. destruct xs as [|r [|? ?]]; try reflexivity. discriminate. }
      rewrite unalias_deep_node by assumption.
      assert (He : erase_h (erase_h h) = erase_h h) by (destruct h; reflexivity).
      f_equal. rewrite map_map. apply map_ext_Forall. exact IH. }
  rewrite !E. tauto.
Qed.

Theorem x_spec_refl a : x_spec a a.
Proof. reflexivity. Qed.
Theorem x_spec_sym a b : x_spec a b -> x_spec b a.
Proof. unfold x_spec; congruence. Qed.
Theorem x_spec_trans a b c : x_spec a b -> x_spec b c -> x_spec a c.
Proof. unfold x_spec; congruence. Qed.

(* ---------------------------------------------------------------- head level *)
Lemma field_x_sound f g : wf_hdr f = true -> wf_hdr g = true -> field_x f g = true -> f = g.
Proof.
  destruct f as [e n p t], g as [e' n' p' t']. unfold field_x, sameID, wf_hdr; cbn. intros Wf Wg H.
  apply andb_true_iff in H as [H Hid]. apply andb_true_iff in H as [He Ht]. apply andb_true_iff in Hid as [Hn Hp].
  apply Bool.eqb_prop in He. apply String.eqb_eq in Ht, Hn. subst.
  destruct (is_exported n) eqn:Ex; cbn in *.
  - apply String.eqb_eq in Wf, Wg. subst. reflexivity.
  - apply String.eqb_eq in Hp. subst. reflexivity.
Qed.

Lemma field_x_refl f : field_x f f = true.
Proof.
  destruct f as [e n p t]. unfold field_x, sameID; cbn.
  rewrite Bool.eqb_reflx, !String.eqb_refl, orb_true_r. reflexivity.
Qed.

Lemma all2_field_x_sound fs : forall gs, forallb wf_hdr fs = true -> forallb wf_hdr gs = true ->
  all2 field_x fs gs = true -> fs = gs.
Proof.
  induction fs as [|f fs IH]; intros [|g gs]; cbn; intros Wf Wg H; try reflexivity; try discriminate.
  apply andb_true_iff in Wf as [Wf1 Wf2]. apply andb_true_iff in Wg as [Wg1 Wg2]. apply andb_true_iff in H as [H1 H2].
  f_equal; [apply field_x_sound; assumption|apply IH; assumption].
Qed.

Lemma all2_field_x_refl fs : all2 field_x fs fs = true.
Proof. induction fs as [|f fs IH]; cbn; [reflexivity|]. rewrite field_x_refl, IH. reflexivity. Qed.

Lemma all2_streqb_refl l : all2 String.eqb l l = true.
Proof. apply (all2_eq String.eqb String.eqb_eq). reflexivity. Qed.

Lemma head_x_sound hx hy xs ys :
  wf_node hx xs = true -> wf_node hy ys = true -> head_x hx hy = true -> erase_h hx = erase_h hy.
Proof.
  destruct hx, hy; cbn; intros Wx Wy H; try discriminate; try reflexivity.
  - apply N.eqb_eq in H. congruence.
  - f_equal. lia.
  - apply N.eqb_eq in H. congruence.
  - apply Bool.eqb_prop in H. congruence.
  - f_equal. apply all2_field_x_sound; assumption.
  - apply (all2_eq String.eqb String.eqb_eq) in H. congruence.
  - apply andb_true_iff in H as [H1 H2]. apply String.eqb_eq in H1, H2. congruence.
  - apply andb_true_iff in H as [H1 H2]. apply String.eqb_eq in H2. congruence.
Qed.

(* completeness at the head: equal erased heads are accepted, except type parameters of different universes *)
Lemma head_x_complete u hx hy :
  erase_h hx = erase_h hy -> is_tp hx = false \/ (h_in_univ u hx = true /\ h_in_univ u hy = true) ->
  (forall p n w, hx <> HAlias w p n) -> head_x hx hy = true.
Proof.
  intros E TP NA.
  destruct hx, hy; cbn in E; try discriminate; cbn; try reflexivity; inversion E; subst.
  - apply N.eqb_refl.
  - rewrite Z.eqb_refl, !orb_true_r. reflexivity.
  - apply N.eqb_refl.
  - apply Bool.eqb_reflx.
  - apply all2_field_x_refl.
  - apply all2_streqb_refl.
  - rewrite !String.eqb_refl. reflexivity.
  - destruct TP as [TP|[U1 U2]]; [discriminate|]. cbn in U1, U2.
    apply N.eqb_eq in U1, U2. subst. rewrite N.eqb_refl, String.eqb_refl. reflexivity.
  - exfalso. eapply NA. reflexivity.
Qed.

(* ---------------------------------------------------------------- soundness: never relates anything but counterparts *)
Theorem identical_x_sound x : forall y, wf x = true -> wf y = true -> identical_x x y = true -> x_spec x y.
Proof.
  unfold x_spec.
  induction x as [hx xs IH] using gtype_ind'. intros y Wx Wy H.
  destruct (is_alias_node (T hx xs)) eqn:Ha.
  - destruct hx; try discriminate. destruct xs as [|r [|? ?]]; try discriminate.
    cbn [identical_x norm] in *. inversion IH; subst. apply H2; [|assumption|assumption].
    cbn in Wx. rewrite andb_true_r in Wx. exact Wx.
  - assert (Hx : identical_x (T hx xs) y =
                 match unalias_top y with T hy ys => head_x hx hy && all2 identical_x xs ys end).
    { destruct hx; try reflexivity. destruct xs as [|r [|? ?]]; try reflexivity. discriminate. }
    rewrite Hx in H. clear Hx.
    rewrite <- (norm_unalias_top y). pose proof (unalias_top_not_alias y) as Hy. pose proof (wf_unalias_top y Wy) as Wy'.
    destruct (unalias_top y) as [hy ys].
    apply andb_true_iff in H as [Hh Hc].
    rewrite !norm_node by assumption.
    cbn [wf] in Wx, Wy'. apply andb_true_iff in Wx as [Wx1 Wx2]. apply andb_true_iff in Wy' as [Wy1 Wy2].
    f_equal; [eapply head_x_sound; eassumption|].
    clear Hh Wx1 Wy1 Ha Hy. revert ys Hc Wy2.
    induction xs as [|a xs IHxs]; intros [|b ys] Hc Wy2; cbn in *; try reflexivity; try discriminate.
    inversion IH as [|? ? Ha Hxs]; subst.
    apply andb_true_iff in Hc as [Hc1 Hc2]. apply andb_true_iff in Wx2 as [Wa Wxs]. apply andb_true_iff in Wy2 as [Wb Wys].
    f_equal; [apply Ha; assumption|apply IHxs; assumption].
Qed.

(* ---------------------------------------------------------------- completeness: relates every counterpart, except a type
   parameter to its copy in another universe (pointer comparison only; recorded finding) *)
Theorem identical_x_complete u x : forall y, wf x = true -> wf y = true ->
  tpfree x = true \/ (in_univ u x = true /\ in_univ u y = true) ->
  x_spec x y -> identical_x x y = true.
Proof.
  unfold x_spec.
  induction x as [hx xs IH] using gtype_ind'. intros y Wx Wy TP E.
  destruct (is_alias_node (T hx xs)) eqn:Ha.
  - destruct hx; try discriminate. destruct xs as [|r [|? ?]]; try discriminate.
    cbn [identical_x norm] in *. inversion IH; subst. apply H1; try assumption.
    + cbn in Wx. rewrite andb_true_r in Wx. exact Wx.
    + destruct TP as [TP|[U1 U2]]; [left|right].
      * cbn in TP. rewrite andb_true_r in TP. exact TP.
      * split; [|assumption]. cbn in U1. rewrite andb_true_r in U1. exact U1.
  - assert (Hx : identical_x (T hx xs) y =
                 match unalias_top y with T hy ys => head_x hx hy && all2 identical_x xs ys end).
    { destruct hx; try reflexivity. destruct xs as [|r [|? ?]]; try reflexivity. discriminate. }
    rewrite Hx. clear Hx.
    rewrite <- (norm_unalias_top y) in E. pose proof (unalias_top_not_alias y) as Hy.
    pose proof (wf_unalias_top y Wy) as Wy'.
    assert (TP' : tpfree (T hx xs) = true \/ (in_univ u (T hx xs) = true /\ in_univ u (unalias_top y) = true)).
    { destruct TP as [TP|[U1 U2]]; [left; assumption|right; split; [assumption|apply in_univ_unalias_top; assumption]]. }
    clear TP Wy. destruct (unalias_top y) as [hy ys].
    rewrite !norm_node in E by assumption. inversion E as [[Eh Ec]].
    cbn [wf] in Wx, Wy'. apply andb_true_iff in Wx as [Wx1 Wx2]. apply andb_true_iff in Wy' as [Wy1 Wy2].
    apply andb_true_iff; split.
    + apply (head_x_complete u); [assumption| |].
      * destruct TP' as [TP|[U1 U2]]; [left|right].
        -- cbn in TP. apply andb_true_iff in TP as [TP _]. destruct (is_tp hx); [discriminate|reflexivity].
        -- cbn in U1, U2. apply andb_true_iff in U1 as [U1 _]. apply andb_true_iff in U2 as [U2 _]. split; assumption.
      * intros p n w ->. cbn in Ha, Wx1. destruct xs as [|r [|? ?]]; discriminate.
    + assert (TPc : forallb tpfree xs = true \/ (forallb (in_univ u) xs = true /\ forallb (in_univ u) ys = true)).
      { destruct TP' as [TP|[U1 U2]]; [left|right].
        - cbn in TP. apply andb_true_iff in TP as [_ TP]. exact TP.
        - cbn in U1, U2. apply andb_true_iff in U1 as [_ U1]. apply andb_true_iff in U2 as [_ U2]. split; assumption. }
      clear Eh E Wx1 Wy1 Ha Hy TP'. revert ys Ec Wy2 TPc.
      induction xs as [|a xs IHxs]; intros [|b ys] Ec Wy2 TPc; cbn in *; try reflexivity; try discriminate.
      inversion IH as [|? ? Ha Hxs]; subst. inversion Ec as [[Ea Eb]].
      apply andb_true_iff in Wx2 as [Wa Wxs]. apply andb_true_iff in Wy2 as [Wb Wys].
      apply andb_true_iff; split.
      * apply Ha; try assumption.
        destruct TPc as [TP|[U1 U2]]; [left|right].
        -- apply andb_true_iff in TP as [TP _]. exact TP.
        -- apply andb_true_iff in U1 as [U1 _]. apply andb_true_iff in U2 as [U2 _]. split; assumption.
      * apply IHxs; try assumption.
        destruct TPc as [TP|[U1 U2]]; [left|right].
        -- apply andb_true_iff in TP as [_ TP]. exact TP.
        -- apply andb_true_iff in U1 as [_ U1]. apply andb_true_iff in U2 as [_ U2]. split; assumption.
Qed.

(* ---------------------------------------------------------------- main statements *)
Theorem identical_x_is_spec x y : wf x = true -> wf y = true -> tpfree x = true ->
  (identical_x x y = true <-> x_spec x y).
Proof.
  intros Wx Wy TP. split; [apply identical_x_sound; assumption|].
  apply (identical_x_complete 0); auto.
Qed.

(* erasing universes is injective on the terms of one universe *)
Lemma erase_h_inj u h h' : h_in_univ u h = true -> h_in_univ u h' = true ->
  (forall p n w, h <> HAlias w p n) -> erase_h h = erase_h h' -> h = h'.
Proof.
  intros U U' NA E. destruct h, h'; cbn in E; try discriminate; try assumption; inversion E; subst.
  - cbn in U, U'. f_equal. destruct (String.eqb pkg0 ""); apply N.eqb_eq in U, U'; congruence.
  - cbn in U, U'. apply N.eqb_eq in U, U'. congruence.
  - exfalso. eapply NA. reflexivity.
Qed.

Lemma in_univ_unalias_deep u t : in_univ u t = true -> in_univ u (unalias_deep t) = true.
Proof.
  induction t as [h xs IH] using gtype_ind'. intros U.
  destruct (is_alias_node (T h xs)) eqn:Ha.
  - destruct h; try discriminate. destruct xs as [|r [|? ?]]; try discriminate.
    cbn [unalias_deep]. inversion IH; subst. apply H1. cbn in U. rewrite andb_true_r in U. exact U.
  - rewrite unalias_deep_node by assumption. cbn [in_univ] in *. apply andb_true_iff in U as [U1 U2].
    apply andb_true_iff; split; [assumption|]. rewrite forallb_forall in *. intros t' Hin.
    apply in_map_iff in Hin as (t0 & <- & Hin). rewrite Forall_forall in IH. apply IH; [assumption|apply U2; assumption].
Qed.

Fixpoint no_alias (t : gtype) : bool :=
  match t with T h xs => match h with HAlias _ _ _ => false | _ => true end && forallb no_alias xs end.

Lemma unalias_deep_no_alias t : wf t = true -> no_alias (unalias_deep t) = true.
Proof.
  induction t as [h xs IH] using gtype_ind'. intros W.
  destruct (is_alias_node (T h xs)) eqn:Ha.
  - destruct h; try discriminate. destruct xs as [|r [|? ?]]; try discriminate.
    cbn [unalias_deep]. inversion IH; subst. apply H1. cbn in W. rewrite andb_true_r in W. exact W.
  - rewrite unalias_deep_node by assumption. cbn [no_alias wf] in *. apply andb_true_iff in W as [W1 W2].
    apply andb_true_iff; split.
    + destruct h; try reflexivity. cbn in Ha, W1. destruct xs as [|r [|? ?]]; discriminate.
    + rewrite forallb_forall in *. intros t' Hin.
      apply in_map_iff in Hin as (t0 & <- & Hin). rewrite Forall_forall in IH. apply IH; [assumption|apply W2; assumption].
Qed.

Lemma erase_inj u a : forall b, in_univ u a = true -> in_univ u b = true -> no_alias a = true ->
  erase a = erase b -> a = b.
Proof.
  induction a as [h xs IH] using gtype_ind'. intros [h' ys] U U' NA E.
  cbn [erase in_univ no_alias] in *. inversion E as [[Eh Ec]].
  apply andb_true_iff in U as [U1 U2]. apply andb_true_iff in U' as [U1' U2']. apply andb_true_iff in NA as [NA1 NA2].
  f_equal.
  - apply (erase_h_inj u); try assumption. intros p n w ->. discriminate.
  - clear Eh E U1 U1' NA1. revert ys Ec U2'.
    induction xs as [|a xs IHxs]; intros [|b ys] Ec U2'; cbn in *; try reflexivity; try discriminate.
    inversion IH as [|? ? Ha Hxs]; subst. inversion Ec.
    apply andb_true_iff in U2 as [Ua Uxs]. apply andb_true_iff in U2' as [Ub Uys]. apply andb_true_iff in NA2 as [Na Nxs].
    f_equal; [apply Ha; assumption|apply IHxs; assumption].
Qed.

Theorem same_universe_agrees u x y : wf x = true -> wf y = true -> in_univ u x = true -> in_univ u y = true ->
  identical_x x y = go_identicalb x y.
Proof.
  intros Wx Wy Ux Uy.
  assert (S : x_spec x y <-> go_identical x y).
  { unfold x_spec, go_identical. rewrite !norm_erase_unalias. split; [|congruence].
    apply (erase_inj u); [apply in_univ_unalias_deep; assumption|apply in_univ_unalias_deep; assumption|
                          apply unalias_deep_no_alias; assumption]. }
  destruct (go_identicalb x y) eqn:G.
  - apply go_identicalb_iff, S in G. apply (identical_x_complete u); auto.
  - destruct (identical_x x y) eqn:I; [|reflexivity].
    apply identical_x_sound, S, go_identicalb_iff in I; try assumption. congruence.
Qed.

(* the observed relation is an equivalence wherever it is complete *)
Corollary identical_x_refl_same u x : wf x = true -> in_univ u x = true -> identical_x x x = true.
Proof. intros W U. apply (identical_x_complete u); [assumption|assumption|right; split; assumption|apply x_spec_refl]. Qed.

Corollary identical_x_sym x y : wf x = true -> wf y = true -> tpfree y = true ->
  identical_x x y = true -> identical_x y x = true.
Proof.
  intros Wx Wy TP H. apply (identical_x_complete 0); auto. apply x_spec_sym, identical_x_sound; assumption.
Qed.

Corollary identical_x_trans x y z : wf x = true -> wf y = true -> wf z = true -> tpfree x = true ->
  identical_x x y = true -> identical_x y z = true -> identical_x x z = true.
Proof.
  intros Wx Wy Wz TP H1 H2. apply (identical_x_complete 0); auto.
  apply (x_spec_trans x y z); apply identical_x_sound; assumption.
Qed.

(* the recorded finding: a type parameter is not identical to its counterpart from a second type-check *)
Example identical_x_tparam_cross_refuted :
  let a := T HSlice [T (HTypeParam 1 "T#0@p.go:3:10") []] in
  let b := T HSlice [T (HTypeParam 2 "T#0@p.go:3:10") []] in
  x_spec a b /\ identical_x a b = false /\ wf a = true /\ wf b = true.
Proof. cbn. repeat split; reflexivity. Qed.

(* ---------------------------------------------------------------- Implements *)
(* what types.LookupFieldOrMethod(v, false, m.Pkg(), m.Name()) returned, as far as xtypes.Implements looks at it *)
Inductive lookup_res := LNone | LVar (t : gtype) | LFunc (sig : gtype).

(* v_is_iface: v.Underlying() is an interface; iface: the methods (Id, signature) of the interface to implement *)
Definition implements_x (v_is_iface : bool) (lookup : string -> lookup_res) (iface : list (string * gtype)) : bool :=
  match iface with
  | [] => true
  | _ => forallb (fun m => match lookup (fst m) with
                           | LNone => false
                           | LFunc s => identical_x s (snd m)
                           | LVar t => v_is_iface && identical_x t (snd m)
                           end) iface
  end.

Section ImplementsSpec.
  (* the method set of v as go/types computes it (trusted component): id -> signature *)
  Variable mset : string -> option gtype.
  Variable lookup : string -> lookup_res.
  Variable v_is_iface : bool.
  (* LookupFieldOrMethod finds exactly the methods of the method set; anything else it finds is a field *)
  Hypothesis lookup_mset : forall id s, lookup id = LFunc s <-> mset id = Some s.
  Hypothesis iface_has_no_fields : v_is_iface = true -> forall id t, lookup id <> LVar t.
  Hypothesis mset_wf : forall id s, mset id = Some s -> wf s = true /\ tpfree s = true.

  Definition implements_spec (iface : list (string * gtype)) : Prop :=
    forall id sig, In (id, sig) iface -> exists s, mset id = Some s /\ x_spec s sig.

  Theorem implements_x_is_spec iface :
    (forall id sig, In (id, sig) iface -> wf sig = true) ->
    (implements_x v_is_iface lookup iface = true <-> implements_spec iface).
  Proof.
    intros Wi. unfold implements_x, implements_spec.
    assert (Main : forallb (fun m => match lookup (fst m) with
                           | LNone => false
                           | LFunc s => identical_x s (snd m)
                           | LVar t => v_is_iface && identical_x t (snd m)
                           end) iface = true <->
                   (forall id sig, In (id, sig) iface -> exists s, mset id = Some s /\ x_spec s sig)).
    { rewrite forallb_forall. split.
      - intros H id sig Hin. specialize (H _ Hin). cbn in H.
        destruct (lookup id) as [|t|s] eqn:L; [discriminate| |].
        + apply andb_true_iff in H as [Hv _]. exfalso. exact (iface_has_no_fields Hv id t L).
        + apply lookup_mset in L. exists s. split; [assumption|].
          destruct (mset_wf _ _ L) as [Ws _]. apply identical_x_sound; auto. eapply Wi; eassumption.
      - intros H [id sig] Hin. destruct (H _ _ Hin) as (s & Hs & Hspec). cbn.
        pose proof Hs as Hs'. apply lookup_mset in Hs'. rewrite Hs'.
        destruct (mset_wf _ _ Hs) as [Ws Ts]. apply identical_x_is_spec; auto. eapply Wi; eassumption. }
    destruct iface as [|m iface']; [|exact Main].
    split; [intros _ id sig []|reflexivity].
  Qed.
End ImplementsSpec.
