(* C10: a pattern without variables matches precisely the types identical to the one it spells.

   Closed patterns are built from builtin types, pointers, slices, arrays with literal lengths, maps, channels, function
   signatures without $*_ and qualified names (struct patterns do not spell field names and interface{ $*_ } is a wildcard,
   so they are not closed in this sense). `type_of u p` is the Go type the pattern spells in universe u.
   The statement is about `plain` types: no vendored package paths (a vendored copy is deliberately treated as the package
   itself, which go/types identity does not do) and no instantiated named types (recorded finding
   named-pattern-matches-instantiations). *)
From Coq Require Import List ZArith NArith Bool String Ascii Lia.
From RG.Types Require Import GType XIdentical TypePat TypePatInst.
Import ListNotations.
Local Open Scope string_scope.

(* a type that is the same in every universe: no type parameters, only universe-scope names (error) *)
Fixpoint universal (t : gtype) : bool :=
  match t with
  | T h xs => match h with
              | HNamed v p _ => String.eqb p "" && N.eqb v 0
              | HTypeParam _ _ => false
              | _ => true
              end && forallb universal xs
  end.

Lemma universal_in_univ u t : universal t = true -> in_univ u t = true.
Proof.
  induction t as [h xs IH] using gtype_ind'. cbn [universal in_univ]. intros H. apply andb_true_iff in H as [Hh Hx].
  apply andb_true_iff; split.
  - destruct h; try reflexivity; try discriminate. cbn. apply andb_true_iff in Hh as [Hp Hv]. rewrite Hp. exact Hv.
  - rewrite forallb_forall in *. rewrite Forall_forall in IH. intros x Hin. apply IH; [assumption|apply Hx; assumption].
Qed.

Fixpoint closed (p : tpat) : bool :=
  match p with
  | PBuiltin b => wf b && universal b
  | PPointer q => closed q
  | PSlice q => closed q
  | PArrayN n q => closed q
  | PMap a b => closed a && closed b
  | PChan _ q => closed q
  | PFunc ps rs => forallb closed ps && forallb closed rs
  | PNamed path _ => negb (String.eqb path "")
  | _ => false
  end.

Fixpoint type_of (u : N) (p : tpat) : gtype :=
  match p with
  | PBuiltin b => b
  | PPointer q => T HPointer [type_of u q]
  | PSlice q => T HSlice [type_of u q]
  | PArrayN n q => T (HArray n) [type_of u q]
  | PMap a b => T HMap [type_of u a; type_of u b]
  | PChan d q => T (HChan d) [type_of u q]
  | PFunc ps rs => T (HSig false) [T HTuple (map (type_of u) ps); T HTuple (map (type_of u) rs)]
  | PNamed path name => T (HNamed u path name) []
  | _ => T (HBasic 0) []
  end.

Fixpoint plain (t : gtype) : bool :=
  match t with
  | T h xs => match h with
              | HNamed _ pkg _ => String.eqb (strip_vendor pkg) pkg && match xs with [] => true | _ => false end
              | _ => true
              end && forallb plain xs
  end.

Lemma plain_unalias_top t : plain t = true -> plain (unalias_top t) = true.
Proof.
  induction t as [h xs IH] using gtype_ind'. intros H.
  destruct h; try exact H. destruct xs as [|r [|? ?]]; try exact H.
  cbn [unalias_top]. inversion IH; subst. apply H2. cbn in H. rewrite andb_true_r in H. exact H.
Qed.

Lemma plain_args h xs : plain (T h xs) = true -> Forall (fun x => plain x = true) xs.
Proof. cbn. intros H. apply andb_true_iff in H as [_ H]. apply Forall_forall. rewrite forallb_forall in H. exact H. Qed.

Definition good (u : N) (t : gtype) : Prop := ok u t /\ plain t = true.

Lemma good_unalias u t : good u t -> good u (unalias_top t).
Proof. intros [O P]. split; [apply ok_unalias; assumption|apply plain_unalias_top; assumption]. Qed.

Lemma good_args u h xs : good u (T h xs) -> Forall (good u) xs.
Proof.
  intros [O P]. pose proof (ok_args _ _ _ O) as FO. pose proof (plain_args _ _ P) as FP.
  rewrite Forall_forall in *. intros x Hin. split; [apply FO|apply FP]; assumption.
Qed.

(* lists of closed patterns contain no $*_ : inst_list is pointwise *)
Lemma closed_not_seq q : closed q = true -> is_seq q = false.
Proof. destruct q; try reflexivity. discriminate. Qed.

Lemma inst_list_closed (i : tpat -> gtype -> Prop) ps : forallb closed ps = true ->
  forall ts, inst_list i ps ts <-> Forall2 i ps ts.
Proof.
  induction ps as [|q ps IH]; intros Hc ts; cbn [inst_list].
  - split; [intros ->; constructor|intros H; inversion H; reflexivity].
  - cbn in Hc. apply andb_true_iff in Hc as [Hq Hps]. rewrite (closed_not_seq q Hq).
    destruct ts as [|t1 ts']; [split; [intros []|intros H; inversion H]|].
    rewrite (IH Hps). split; [intros [H1 H2]; constructor; assumption|intros H; inversion H; subst; split; assumption].
Qed.

Section Closed.
  Variable u : N.

  Definition spells (p : tpat) : Prop :=
    forall sg t, good u t -> (inst identical_x sg p t <-> go_identical (type_of u p) t).

  Lemma go_identical_node t h xs : unalias_top t = T h xs ->
    forall a, go_identical a t <-> unalias_deep a = T h (map unalias_deep xs).
  Proof.
    intros E a. unfold go_identical. rewrite <- (unalias_deep_unalias_top t), E.
    pose proof (unalias_top_not_alias t) as NA. rewrite E in NA. rewrite (unalias_deep_node _ _ NA). tauto.
  Qed.

  Lemma spells_list ps : Forall spells ps -> forallb closed ps = true ->
    forall sg ts, Forall (good u) ts ->
    (inst_list (inst identical_x sg) ps ts <-> map unalias_deep (map (type_of u) ps) = map unalias_deep ts).
  Proof.
    intros HF Hc sg ts. rewrite (inst_list_closed _ ps Hc). revert ts.
    induction ps as [|q ps IH]; intros ts Hts.
    - cbn. split; [intros H; inversion H; reflexivity|intros H; destruct ts; [constructor|discriminate]].
    - inversion HF as [|? ? Hq Hps]; subst. cbn in Hc. apply andb_true_iff in Hc as [Cq Cps].
      destruct ts as [|t1 ts']; [split; [intros H; inversion H|discriminate]|].
      inversion Hts as [|? ? G1 Gs]; subst. cbn [map]. split.
      + intros H. inversion H; subst. f_equal; [apply (Hq sg t1 G1); assumption|apply (IH Hps Cps ts' Gs); assumption].
      + intros H. inversion H. constructor; [apply (Hq sg t1 G1); assumption|apply (IH Hps Cps ts' Gs); assumption].
  Qed.

  Lemma closed_spells p : closed p = true -> spells p.
  Proof.
    induction p as [b|x| |q IHp|q IHp|n q IHp|x q IHp|a b IHp1 IHp2|d q IHp|ps rs Hps Hrs|fs Hfs| |path name] using tpat_ind';
      intros Hc sg t0 G; try discriminate; cbn [inst type_of]; cbv zeta;
      pose proof (good_unalias _ _ G) as G'; destruct (unalias_top t0) as [h xs] eqn:Et;
      rewrite (go_identical_node t0 h xs Et).
    - (* builtin *)
      cbn in Hc. apply andb_true_iff in Hc as [Wb Ub]. destruct G' as [[Wt Ut] _].
      rewrite (same_universe_agrees u (T h xs) b Wt Wb Ut (universal_in_univ u b Ub)).
      rewrite go_identicalb_iff. unfold go_identical.
      pose proof (unalias_top_not_alias t0) as NA. rewrite Et in NA. rewrite (unalias_deep_node _ _ NA). split; congruence.
    - (* pointer *)
      pose proof (good_args _ _ _ G') as F. cbn [unalias_deep map]. split.
      + intros (e & He & Hi). inversion He; subst. inversion F; subst. cbn. do 2 f_equal. apply (IHp Hc sg e); assumption.
      + intros H. inversion H; subst. destruct xs as [|e [|? ?]]; try discriminate. inversion F; subst.
        exists e. split; [reflexivity|]. apply (IHp Hc sg e); [assumption|]. cbn in H. inversion H. assumption.
    - (* slice *)
      pose proof (good_args _ _ _ G') as F. cbn [unalias_deep map]. split.
      + intros (e & He & Hi). inversion He; subst. inversion F; subst. cbn. do 2 f_equal. apply (IHp Hc sg e); assumption.
      + intros H. inversion H; subst. destruct xs as [|e [|? ?]]; try discriminate. inversion F; subst.
        exists e. split; [reflexivity|]. apply (IHp Hc sg e); [assumption|]. cbn in H. inversion H. assumption.
    - (* array *)
      pose proof (good_args _ _ _ G') as F. cbn [unalias_deep map]. split.
      + intros (e & He & Hi). inversion He; subst. inversion F; subst. cbn. do 2 f_equal. apply (IHp Hc sg e); assumption.
      + intros H. inversion H; subst. destruct xs as [|e [|? ?]]; try discriminate. inversion F; subst.
        exists e. split; [reflexivity|]. apply (IHp Hc sg e); [assumption|]. cbn in H. inversion H. assumption.
    - (* map *)
      cbn in Hc. apply andb_true_iff in Hc as [Ca Cb].
      pose proof (good_args _ _ _ G') as F. cbn [unalias_deep map]. split.
      + intros (kt & vt & He & H1 & H2). inversion He; subst. inversion F as [|? ? Gk F']; subst. inversion F' as [|? ? Gv ?]; subst.
        cbn. f_equal. f_equal; [apply (IHp1 Ca sg kt); assumption|f_equal; apply (IHp2 Cb sg vt); assumption].
      + intros H. inversion H; subst. destruct xs as [|kt [|vt [|? ?]]]; try discriminate.
        inversion F as [|? ? Gk F']; subst. inversion F' as [|? ? Gv ?]; subst.
        exists kt, vt. cbn in H. inversion H. split; [reflexivity|].
        split; [apply (IHp1 Ca sg kt)|apply (IHp2 Cb sg vt)]; assumption.
    - (* chan *)
      pose proof (good_args _ _ _ G') as F. cbn [unalias_deep map]. split.
      + intros (e & He & Hi). inversion He; subst. inversion F; subst. cbn. do 2 f_equal. apply (IHp Hc sg e); assumption.
      + intros H. inversion H; subst. destruct xs as [|e [|? ?]]; try discriminate. inversion F; subst.
        exists e. split; [reflexivity|]. apply (IHp Hc sg e); [assumption|]. cbn in H. inversion H. assumption.
    - (* func *)
      cbn in Hc. apply andb_true_iff in Hc as [Cps Crs].
      pose proof (good_args _ _ _ G') as F.
      assert (Hps' : Forall spells ps).
      { apply Forall_forall. intros q Hin. rewrite Forall_forall in Hps. rewrite forallb_forall in Cps. apply Hps; [assumption|apply Cps; assumption]. }
      assert (Hrs' : Forall spells rs).
      { apply Forall_forall. intros q Hin. rewrite Forall_forall in Hrs. rewrite forallb_forall in Crs. apply Hrs; [assumption|apply Crs; assumption]. }
      cbn [unalias_deep map]. split.
      + intros (v & pts & rts & He & Hv & H1 & H2). inversion He; subst.
        inversion F as [|? ? Gp F']; subst. inversion F' as [|? ? Gr ?]; subst.
        pose proof (good_args _ _ _ Gp) as Fp. pose proof (good_args _ _ _ Gr) as Fr.
        assert (Vf : v = false).
        { destruct v; [|reflexivity]. specialize (Hv eq_refl). unfold last_is_seq in Hv.
          destruct (rev ps) as [|q l] eqn:Er; [discriminate|].
          assert (Hin : In q ps) by (apply in_rev; rewrite Er; left; reflexivity).
          rewrite forallb_forall in Cps. rewrite (closed_not_seq q (Cps q Hin)) in Hv. discriminate. }
        subst v. cbn. f_equal. f_equal; [f_equal; apply (spells_list ps Hps' Cps sg pts Fp); assumption|].
        f_equal. f_equal. apply (spells_list rs Hrs' Crs sg rts Fr); assumption.
      + intros H. inversion H; subst.
        assert (Sh : exists pts rts, xs = [T HTuple pts; T HTuple rts]).
        { destruct G' as [[Wt _] _]. cbn in Wt. apply andb_true_iff in Wt as [Wt _].
          destruct xs as [|[[] pts] [|[[] rts] [|? ?]]]; try discriminate. exists pts, rts. reflexivity. }
        destruct Sh as (pts & rts & ->).
        inversion F as [|? ? Gp F']; subst. inversion F' as [|? ? Gr ?]; subst.
        pose proof (good_args _ _ _ Gp) as Fp. pose proof (good_args _ _ _ Gr) as Fr.
        cbn in H. inversion H as [[Epts Erts]].
        exists false, pts, rts. split; [reflexivity|]. split; [discriminate|].
        split; [apply (spells_list ps Hps' Cps sg pts Fp)|apply (spells_list rs Hrs' Crs sg rts Fr)]; assumption.
    - (* named *)
      cbn in Hc. destruct G' as [[Wt Ut] Pt]. cbn [unalias_deep map]. split.
      + intros (u' & pkg & targs & He & Hne & Hp). inversion He; subst.
        cbn in Pt, Ut. apply andb_true_iff in Pt as [Pt _]. apply andb_true_iff in Pt as [Pv Pa].
        destruct targs; [|discriminate]. apply String.eqb_eq in Pv. rewrite Pv.
        apply andb_true_iff in Ut as [Uh _].
        destruct (String.eqb pkg "") eqn:E; [apply String.eqb_eq in E; contradiction|]. apply N.eqb_eq in Uh. subst. reflexivity.
      + intros H. inversion H; subst. destruct xs; [|discriminate].
        cbn in Pt. apply andb_true_iff in Pt as [Pt _]. apply andb_true_iff in Pt as [Pv _]. apply String.eqb_eq in Pv.
        exists u, path, []. split; [reflexivity|]. split; [|assumption].
        intros ->. discriminate.
  Qed.
End Closed.

(* the matcher accepts exactly the types identical to the type a closed pattern spells *)
Theorem closed_pattern_is_identity u p t :
  closed p = true -> ok u t -> plain t = true ->
  match_pat_x p t = go_identicalb (type_of u p) t.
Proof.
  intros Hc Ht Hp.
  assert (G : good u t) by (split; assumption).
  destruct (go_identicalb (type_of u p) t) eqn:E.
  - apply go_identicalb_iff in E. apply (match_complete_x u); [assumption|].
    exists ms_empty. split; [intros x y; cbn; discriminate|]. apply (closed_spells u p Hc ms_empty t G). exact E.
  - destruct (match_pat_x p t) eqn:M; [|reflexivity].
    apply (match_sound_x u) in M; [|assumption]. destruct M as (sg & _ & Hi).
    apply (closed_spells u p Hc sg t G) in Hi. apply go_identicalb_iff in Hi. congruence.
Qed.
