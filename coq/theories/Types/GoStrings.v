(* Go's strings package and string slicing, as far as the translated leaf code of typematch uses them (go2coq c10tables).
   Positions are Z as Go's int; "not found" is -1. *)
From Coq Require Import List ZArith Bool String Ascii Lia.
Import ListNotations.
Local Open Scope string_scope.

(* strings.Index(s, sub): the first occurrence *)
Definition go_index (s sub : string) : Z :=
  match String.index 0 sub s with Some m => Z.of_nat m | None => (-1)%Z end.

(* s[lo:hi] for 0 <= lo <= hi <= len(s) (the translated code guards its slices; outside that range Go panics and this
   function returns what `substring` returns) *)
Definition go_slice (s : string) (lo hi : Z) : string :=
  substring (Z.to_nat lo) (Z.to_nat hi - Z.to_nat lo) s.

Definition go_has_prefix (s p : string) : bool := String.prefix p s.

Fixpoint rev_string (s : string) : string :=
  match s with EmptyString => EmptyString | String c r => rev_string r ++ String c EmptyString end.

Definition go_has_suffix (s suf : string) : bool := String.prefix (rev_string suf) (rev_string s).

Definition go_contains (s sub : string) : bool :=
  match String.index 0 sub s with Some _ => true | None => false end.

(* strings.LastIndex(s, sub): the last occurrence; searched from the right end *)
Fixpoint last_index_from (fuel : nat) (s sub : string) : Z :=
  match fuel with
  | O => if String.prefix sub s then 0%Z else (-1)%Z
  | S f => if String.prefix sub (substring (S f) (String.length s - S f) s) then Z.of_nat (S f) else last_index_from f s sub
  end.
Definition go_last_index (s sub : string) : Z := last_index_from (String.length s) s sub.

Lemma go_index_found s sub m : String.index 0 sub s = Some m -> go_index s sub = Z.of_nat m.
Proof. unfold go_index. intros ->. reflexivity. Qed.

Lemma go_index_missing s sub : String.index 0 sub s = None -> go_index s sub = (-1)%Z.
Proof. unfold go_index. intros ->. reflexivity. Qed.

Lemma go_slice_tail s m : go_slice s (Z.of_nat m) (Z.of_nat (String.length s)) = substring m (String.length s - m) s.
Proof. unfold go_slice. rewrite !Nat2Z.id. reflexivity. Qed.

Example go_strings_examples :
  go_index "a/vendor/b/vendor/c" "/vendor/" = 1%Z /\ go_last_index "a/vendor/b/vendor/c" "/vendor/" = 10%Z /\
  go_slice "a/vendor/b" 9 10 = "b" /\ go_has_suffix "x/vendor/example.com/sync" "/sync" = true /\
  go_has_suffix "sync" "/sync" = false /\ go_contains "a/vendor/b" "/vendor/" = true /\ go_index "abc" "x" = (-1)%Z /\
  go_last_index "abc" "x" = (-1)%Z /\ go_has_prefix "vendor/x" "vendor/" = true.
Proof. vm_compute. repeat split; reflexivity. Qed.
