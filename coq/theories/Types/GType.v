(* Go types as first-order terms (C14, C10, C20).

   gtype := T head children            -- a rose tree; the head carries the constructor and its scalar data.

     HBasic k            []                       types.Basic, k = BasicKind (byte = uint8, rune = int32 share a kind)
     HPointer / HSlice   [elem]
     HArray n            [elem]
     HMap                [key; elem]
     HChan dir           [elem]
     HTuple              element types            (parameter names are not part of a type)
     HSig variadic       [HTuple params; HTuple results]
     HStruct hdrs        field types              hdr = embedded?, name, package path (only for unexported names), tag
     HInterface ids      method signatures        methods in go/types' canonical order, id = Func.Id()
     HNamed u pkg name   type arguments           u = universe (one type-check run); pkg = "" and u = 0 for error/any/comparable
     HTypeParam u id     []                       id = name#index@declaration position
     HAlias u pkg name   [rhs]                    only present under GODEBUG=gotypesalias=1

   The serialisation (harness/internal/gtypes) is canonical, so the Go specification's type identity inside ONE
   universe is syntactic equality after replacing every alias node by what it stands for (`unalias_deep`); the
   cross-universe specification additionally forgets the universe ids (`norm`). *)
From Coq Require Import List ZArith NArith Bool String Ascii Lia.
Import ListNotations.
Local Open Scope string_scope.

Record fieldhdr := FH { fh_emb : bool; fh_name : string; fh_pkg : string; fh_tag : string }.

Inductive head :=
| HBasic (k : N)
| HPointer
| HSlice
| HArray (n : Z)
| HMap
| HChan (dir : N)
| HTuple
| HSig (variadic : bool)
| HStruct (fs : list fieldhdr)
| HInterface (ids : list string)
| HNamed (u : N) (pkg name : string)
| HTypeParam (u : N) (id : string)
| HAlias (u : N) (pkg name : string).

Inductive gtype := T (h : head) (args : list gtype).

Definition ghead (t : gtype) : head := match t with T h _ => h end.
Definition gargs (t : gtype) : list gtype := match t with T _ a => a end.

(* ---------------------------------------------------------------- induction principle *)
Section GInd.
  Variable P : gtype -> Prop.
  Hypothesis HT : forall h args, Forall P args -> P (T h args).
  Fixpoint gtype_ind' (t : gtype) : P t :=
    match t with
    | T h args => HT h args ((fix go (l : list gtype) : Forall P l :=
                                match l with [] => Forall_nil P | x :: l' => Forall_cons x (gtype_ind' x) (go l') end) args)
    end.
End GInd.

(* ---------------------------------------------------------------- pairwise combinator *)
Definition all2 {A B} (f : A -> B -> bool) : list A -> list B -> bool :=
  fix go (xs : list A) (ys : list B) : bool :=
    match xs, ys with
    | [], [] => true
    | x :: xs', y :: ys' => f x y && go xs' ys'
    | _, _ => false
    end.

Lemma all2_Forall2 {A B} (f : A -> B -> bool) xs ys :
  all2 f xs ys = true <-> Forall2 (fun x y => f x y = true) xs ys.
Proof.
  revert ys; induction xs as [|x xs IH]; intros [|y ys]; cbn; split; intros H.
  - constructor.
  - reflexivity.
  - discriminate.
  - inversion H.
  - discriminate.
  - inversion H.
  - apply andb_true_iff in H as [H1 H2]. constructor; [exact H1|]. apply IH, H2.
  - inversion H; subst. apply andb_true_iff; split; [assumption|]. apply IH; assumption.
Qed.

Lemma all2_eq {A} (f : A -> A -> bool) :
  (forall a b, f a b = true <-> a = b) -> forall xs ys, all2 f xs ys = true <-> xs = ys.
Proof.
  intros Hf xs; induction xs as [|x xs IH]; intros [|y ys]; cbn; split; intros H; try reflexivity; try discriminate.
  - apply andb_true_iff in H as [H1 H2]. apply Hf in H1. apply IH in H2. congruence.
  - inversion H; subst. apply andb_true_iff; split; [apply Hf; reflexivity|apply IH; reflexivity].
Qed.

Lemma all2_length {A B} (f : A -> B -> bool) xs ys : all2 f xs ys = true -> List.length xs = List.length ys.
Proof.
  revert ys; induction xs as [|x xs IH]; intros [|y ys]; cbn; intros H; try reflexivity; try discriminate.
  apply andb_true_iff in H as [_ H]. f_equal. apply IH, H.
Qed.

(* ---------------------------------------------------------------- boolean equality *)
Definition fh_eqb (f g : fieldhdr) : bool :=
  Bool.eqb (fh_emb f) (fh_emb g) && String.eqb (fh_name f) (fh_name g) && String.eqb (fh_pkg f) (fh_pkg g)
  && String.eqb (fh_tag f) (fh_tag g).

Lemma fh_eqb_eq f g : fh_eqb f g = true <-> f = g.
Proof.
  destruct f as [e n p t], g as [e' n' p' t']; unfold fh_eqb; cbn. split.
  - intros H. repeat (apply andb_true_iff in H as [H ?]).
    apply Bool.eqb_prop in H. repeat match goal with X : String.eqb _ _ = true |- _ => apply String.eqb_eq in X end. congruence.
  - intros H; inversion H; subst. rewrite Bool.eqb_reflx, !String.eqb_refl. reflexivity.
Qed.

Definition head_eqb (a b : head) : bool :=
  match a, b with
  | HBasic k, HBasic k' => N.eqb k k'
  | HPointer, HPointer => true
  | HSlice, HSlice => true
  | HArray n, HArray n' => Z.eqb n n'
  | HMap, HMap => true
  | HChan d, HChan d' => N.eqb d d'
  | HTuple, HTuple => true
  | HSig v, HSig v' => Bool.eqb v v'
  | HStruct fs, HStruct gs => all2 fh_eqb fs gs
  | HInterface a, HInterface b => all2 String.eqb a b
  | HNamed u p n, HNamed u' p' n' => N.eqb u u' && String.eqb p p' && String.eqb n n'
  | HTypeParam u i, HTypeParam u' i' => N.eqb u u' && String.eqb i i'
  | HAlias u p n, HAlias u' p' n' => N.eqb u u' && String.eqb p p' && String.eqb n n'
  | _, _ => false
  end.

Lemma head_eqb_eq a b : head_eqb a b = true <-> a = b.
Proof.
  destruct a, b; cbn; try (split; [discriminate|intros H; discriminate H]); try (split; reflexivity).
  - rewrite N.eqb_eq. split; congruence.
  - rewrite Z.eqb_eq. split; congruence.
  - rewrite N.eqb_eq. split; congruence.
  - split; [intros H; apply Bool.eqb_prop in H; congruence|intros H; inversion H; apply Bool.eqb_reflx].
  - rewrite (all2_eq fh_eqb fh_eqb_eq). split; congruence.
  - rewrite (all2_eq String.eqb String.eqb_eq). split; congruence.
  - rewrite !andb_true_iff, N.eqb_eq, !String.eqb_eq. split; [intros [[? ?] ?]; congruence|intros H; inversion H; auto].
  - rewrite !andb_true_iff, N.eqb_eq, !String.eqb_eq. split; [intros [? ?]; congruence|intros H; inversion H; auto].
  - rewrite !andb_true_iff, N.eqb_eq, !String.eqb_eq. split; [intros [[? ?] ?]; congruence|intros H; inversion H; auto].
Qed.

Fixpoint gt_eqb (a b : gtype) {struct a} : bool :=
  match a, b with T ha xs, T hb ys => head_eqb ha hb && all2 gt_eqb xs ys end.

Lemma gt_eqb_eq a : forall b, gt_eqb a b = true <-> a = b.
Proof.
  induction a as [h xs IH] using gtype_ind'. intros [h' ys]. cbn [gt_eqb].
  rewrite andb_true_iff, head_eqb_eq.
  assert (Hl : all2 gt_eqb xs ys = true <-> xs = ys).
  { clear h h'. revert ys. induction xs as [|x xs IHxs]; intros [|y ys]; cbn; split; intros H; try reflexivity; try discriminate.
    - inversion IH as [|? ? Hx Hxs]; subst. apply andb_true_iff in H as [H1 H2].
      apply Hx in H1. apply (IHxs Hxs) in H2. congruence.
    - inversion IH as [|? ? Hx Hxs]; subst. inversion H; subst. apply andb_true_iff. split; [apply Hx; reflexivity|].
      apply (IHxs Hxs). reflexivity. }
  rewrite Hl. split; [intros [? ?]; congruence|intros H; inversion H; auto].
Qed.

(* ---------------------------------------------------------------- aliases, universes, normal forms *)
Definition is_alias_node (t : gtype) : bool := match t with T (HAlias _ _ _) [_] => true | _ => false end.

(* types.Unalias: strip alias nodes at the root *)
Fixpoint unalias_top (t : gtype) : gtype :=
  match t with
  | T (HAlias _ _ _) [r] => unalias_top r
  | _ => t
  end.

(* replace every alias node by the type it stands for *)
Fixpoint unalias_deep (t : gtype) : gtype :=
  match t with
  | T (HAlias _ _ _) [r] => unalias_deep r
  | T h xs => T h (map unalias_deep xs)
  end.

Definition erase_h (h : head) : head :=
  match h with
  | HNamed _ p n => HNamed 0 p n
  | HTypeParam _ i => HTypeParam 0 i
  | HAlias _ p n => HAlias 0 p n
  | _ => h
  end.

Fixpoint erase (t : gtype) : gtype := match t with T h xs => T (erase_h h) (map erase xs) end.

(* normal form: aliases replaced, universe ids forgotten *)
Fixpoint norm (t : gtype) : gtype :=
  match t with
  | T (HAlias _ _ _) [r] => norm r
  | T h xs => T (erase_h h) (map norm xs)
  end.

(* Go identifiers are exported when they start with an upper-case letter (the pools are ASCII; the harness asserts
   types.Object.Exported() agrees with this on every name it serialises). *)
Definition is_exported (s : string) : bool :=
  match s with
  | String c _ => let n := nat_of_ascii c in (65 <=? n)%nat && (n <=? 90)%nat
  | EmptyString => false
  end.

(* well-formed terms: what a successful type-check produces *)
Definition wf_hdr (f : fieldhdr) : bool := negb (is_exported (fh_name f)) || String.eqb (fh_pkg f) "".
Definition wf_node (h : head) (xs : list gtype) : bool :=
  match h with
  | HArray n => (0 <=? n)%Z
  | HStruct fs => forallb wf_hdr fs
  | HAlias _ _ _ => match xs with [_] => true | _ => false end
  | HSig _ => match xs with [T HTuple _; T HTuple _] => true | _ => false end   (* parameter and result tuples *)
  | _ => true
  end.
Fixpoint wf (t : gtype) : bool := match t with T h xs => wf_node h xs && forallb wf xs end.

Definition is_tp (h : head) : bool := match h with HTypeParam _ _ => true | _ => false end.
Fixpoint tpfree (t : gtype) : bool := match t with T h xs => negb (is_tp h) && forallb tpfree xs end.

(* every universe-carrying head of t belongs to universe u (universe-scope names such as `error` carry 0 and pkg "") *)
Definition h_in_univ (u : N) (h : head) : bool :=
  match h with
  | HNamed v p _ => if String.eqb p "" then N.eqb v 0 else N.eqb v u
  | HTypeParam v _ => N.eqb v u
  | _ => true
  end.
Fixpoint in_univ (u : N) (t : gtype) : bool := match t with T h xs => h_in_univ u h && forallb (in_univ u) xs end.

Lemma unalias_top_not_alias t : is_alias_node (unalias_top t) = false.
Proof.
  induction t as [h xs IH] using gtype_ind'.
  destruct h; try reflexivity. destruct xs as [|r [|? ?]]; try reflexivity.
  cbn [unalias_top]. inversion IH; subst; assumption.
Qed.

Lemma norm_unalias_top t : norm (unalias_top t) = norm t.
Proof.
  induction t as [h xs IH] using gtype_ind'.
  destruct h; try reflexivity. destruct xs as [|r [|? ?]]; try reflexivity.
  cbn [unalias_top norm]. inversion IH; subst; assumption.
Qed.

Lemma unalias_deep_unalias_top t : unalias_deep (unalias_top t) = unalias_deep t.
Proof.
  induction t as [h xs IH] using gtype_ind'.
  destruct h; try reflexivity. destruct xs as [|r [|? ?]]; try reflexivity.
  cbn [unalias_top unalias_deep]. inversion IH; subst; assumption.
Qed.

Lemma norm_node h xs : is_alias_node (T h xs) = false -> norm (T h xs) = T (erase_h h) (map norm xs).
Proof. destruct h; try reflexivity. destruct xs as [|r [|? ?]]; try reflexivity. discriminate. Qed.

Lemma unalias_deep_node h xs : is_alias_node (T h xs) = false -> unalias_deep (T h xs) = T h (map unalias_deep xs).
Proof. destruct h; try reflexivity. destruct xs as [|r [|? ?]]; try reflexivity. discriminate. Qed.

Lemma norm_erase_unalias t : norm t = erase (unalias_deep t).
Proof.
  induction t as [h xs IH] using gtype_ind'.
  destruct (is_alias_node (T h xs)) eqn:Ha.
  - destruct h; try discriminate. destruct xs as [|r [|? ?]]; try discriminate.
    cbn [norm unalias_deep]. inversion IH; subst; assumption.
  - rewrite norm_node, unalias_deep_node by assumption. cbn [erase]. f_equal.
    rewrite map_map. apply map_ext_Forall. exact IH.
Qed.

Lemma wf_unalias_top t : wf t = true -> wf (unalias_top t) = true.
Proof.
  induction t as [h xs IH] using gtype_ind'. intros Hw.
  destruct h; try exact Hw. destruct xs as [|r [|? ?]]; try exact Hw.
  cbn [unalias_top]. inversion IH; subst. apply H1. cbn in Hw. rewrite andb_true_r in Hw. exact Hw.
Qed.

Lemma in_univ_unalias_top u t : in_univ u t = true -> in_univ u (unalias_top t) = true.
Proof.
  induction t as [h xs IH] using gtype_ind'. intros Hw.
  destruct h; try exact Hw. destruct xs as [|r [|? ?]]; try exact Hw.
  cbn [unalias_top]. inversion IH; subst. apply H1. cbn in Hw. rewrite andb_true_r in Hw. exact Hw.
Qed.
