(* C10: type patterns (ruleguard/typematch) -- executable model of the matcher and its specification.

   tpat mirrors the `pattern` tree that typematch.Parse builds (ops of patternOp); match_k mirrors
   matchIdentical / matchIdenticalFielder in continuation-passing style exactly as the Go code is written:
   a sub-pattern that matched calls the rest of the match `k`; a variable bound for an alternative that
   fails is unbound again (here: the state is a value, so the unbinding is implicit); a `$*_` tries
   every run of fields, shortest first.

   The model and the theorems are generic in the identity test `ident` (xtypes.Identical); TypePatInst.v
   instantiates it with identical_x. *)
From Coq Require Import List ZArith NArith Bool String Ascii Lia.
From RG.Types Require Import GType.
Import ListNotations.
Local Open Scope string_scope.

Inductive tpat :=
| PBuiltin (t : gtype)                   (* opBuiltinType: value is a Go type (basic types, error, unsafe.Pointer, interface{}) *)
| PVar (x : string)                      (* opVar; "_" is the wildcard *)
| PVarSeq                                (* opVarSeq: $*_ *)
| PPointer (p : tpat)
| PSlice (p : tpat)
| PArrayN (n : Z) (p : tpat)             (* opArray with a literal length *)
| PArrayVar (x : string) (p : tpat)      (* opArray with [$n] *)
| PMap (k v : tpat)
| PChan (dir : N) (p : tpat)
| PFunc (ps rs : list tpat)              (* opFuncNoSeq / opFunc *)
| PStruct (fs : list tpat)               (* opStructNoSeq / opStruct *)
| PAnyInterface                          (* interface{ $*_ } *)
| PNamed (path name : string).           (* opNamed: import path (after import-table resolution) and type name *)

Section TpatInd.
  Variable P : tpat -> Prop.
  Hypothesis Hb : forall t, P (PBuiltin t).
  Hypothesis Hv : forall x, P (PVar x).
  Hypothesis Hs : P PVarSeq.
  Hypothesis Hp : forall p, P p -> P (PPointer p).
  Hypothesis Hsl : forall p, P p -> P (PSlice p).
  Hypothesis Han : forall n p, P p -> P (PArrayN n p).
  Hypothesis Hav : forall x p, P p -> P (PArrayVar x p).
  Hypothesis Hm : forall k v, P k -> P v -> P (PMap k v).
  Hypothesis Hc : forall d p, P p -> P (PChan d p).
  Hypothesis Hf : forall ps rs, Forall P ps -> Forall P rs -> P (PFunc ps rs).
  Hypothesis Hst : forall fs, Forall P fs -> P (PStruct fs).
  Hypothesis Hi : P PAnyInterface.
  Hypothesis Hn : forall path name, P (PNamed path name).
  Fixpoint tpat_ind' (p : tpat) : P p :=
    let go := fix go (l : list tpat) : Forall P l :=
                match l with [] => Forall_nil P | x :: l' => Forall_cons x (tpat_ind' x) (go l') end in
    match p with
    | PBuiltin t => Hb t | PVar x => Hv x | PVarSeq => Hs
    | PPointer q => Hp q (tpat_ind' q) | PSlice q => Hsl q (tpat_ind' q)
    | PArrayN n q => Han n q (tpat_ind' q) | PArrayVar x q => Hav x q (tpat_ind' q)
    | PMap a b => Hm a b (tpat_ind' a) (tpat_ind' b)
    | PChan d q => Hc d q (tpat_ind' q)
    | PFunc ps rs => Hf ps rs (go ps) (go rs)
    | PStruct fs => Hst fs (go fs)
    | PAnyInterface => Hi | PNamed a b => Hn a b
    end.
End TpatInd.

(* ---------------------------------------------------------------- matcher state: the two binding tables *)
Record mstate := MS { ms_ty : list (string * gtype); ms_int : list (string * Z) }.
Definition ms_empty := MS [] [].

Fixpoint assoc {A} (x : string) (l : list (string * A)) : option A :=
  match l with [] => None | (k, v) :: r => if String.eqb k x then Some v else assoc x r end.

Definition is_seq (p : tpat) : bool := match p with PVarSeq => true | _ => false end.
Definition last_is_seq (ps : list tpat) : bool := match rev ps with q :: _ => is_seq q | [] => false end.

(* strings.Index(objPath, "/vendor/") ... objPath[pos+len("/vendor/"):] *)
Definition strip_vendor (s : string) : string :=
  match String.index 0 "/vendor/" s with
  | Some m => substring (m + 8) (String.length s - (m + 8)) s
  | None => s
  end.

Definition cont := mstate -> bool.

(* matchIdenticalFielder(state, subs, f, from, k) with the fields f[from:] as a list *)
Definition list_k (m : tpat -> gtype -> mstate -> cont -> bool) : list tpat -> list gtype -> mstate -> cont -> bool :=
  fix list_k (ps : list tpat) : list gtype -> mstate -> cont -> bool :=
    match ps with
    | [] => fun ts st k => match ts with [] => k st | _ => false end
    | q :: ps' =>
      fun ts st k =>
        if is_seq q then
          (fix try (ts : list gtype) : bool :=
             list_k ps' ts st k || match ts with [] => false | _ :: ts' => try ts' end) ts
        else match ts with
             | [] => false
             | t1 :: ts' => m q t1 st (fun st' => list_k ps' ts' st' k)
             end
    end.

Section Match.
  Variable ident : gtype -> gtype -> bool.

  Fixpoint match_k (p : tpat) (t0 : gtype) (st : mstate) (k : cont) {struct p} : bool :=
    let t := unalias_top t0 in
    match p with
    | PVar x =>
      if String.eqb x "_" then k st
      else match assoc x (ms_ty st) with
           | None => k (MS ((x, t) :: ms_ty st) (ms_int st))
           | Some y => ident t y && k st
           end
    | PBuiltin b => ident t b && k st
    | PVarSeq => false
    | PPointer q => match t with T HPointer [e] => match_k q e st k | _ => false end
    | PSlice q => match t with T HSlice [e] => match_k q e st k | _ => false end
    | PArrayN n q => match t with T (HArray m) [e] => Z.eqb n m && match_k q e st k | _ => false end
    | PArrayVar x q =>
      match t with
      | T (HArray m) [e] =>
        if String.eqb x "_" then match_k q e st k
        else match assoc x (ms_int st) with
             | Some n => Z.eqb n m && match_k q e st k
             | None => match_k q e (MS (ms_ty st) ((x, m) :: ms_int st)) k
             end
      | _ => false
      end
    | PMap a b => match t with T HMap [kt; vt] => match_k a kt st (fun st' => match_k b vt st' k) | _ => false end
    | PChan d q => match t with T (HChan d') [e] => N.eqb d d' && match_k q e st k | _ => false end
    | PNamed path name =>
      match t with
      | T (HNamed _ pkg nm) _ => negb (String.eqb pkg "") && String.eqb name nm && String.eqb (strip_vendor pkg) path && k st
      | _ => false
      end
    | PAnyInterface => match t with T (HInterface _) _ => k st | _ => false end
    | PFunc ps rs =>
      match t with
      | T (HSig v) [T HTuple pts; T HTuple rts] =>
        negb (v && negb (last_is_seq ps)) && list_k match_k ps pts st (fun st' => list_k match_k rs rts st' k)
      | _ => false
      end
    | PStruct fs => match t with T (HStruct _) fts => list_k match_k fs fts st k | _ => false end
    end.

  Definition match_pat (p : tpat) (t : gtype) : bool := match_k p t ms_empty (fun _ => true).

  (* ---------------------------------------------------------------- specification *)
  (* a list of patterns against a list of types: $*_ stands for any run *)
  Definition inst_list (i : tpat -> gtype -> Prop) : list tpat -> list gtype -> Prop :=
    fix inst_list (ps : list tpat) (ts : list gtype) : Prop :=
      match ps with
      | [] => ts = []
      | q :: ps' =>
        if is_seq q then exists j, (j <= List.length ts)%nat /\ inst_list ps' (skipn j ts)
        else match ts with [] => False | t1 :: ts' => i q t1 /\ inst_list ps' ts' end
      end.

  (* the pattern, instantiated by the assignment sigma, is the type t (up to `ident`, aliases, vendoring) *)
  Fixpoint inst (sg : mstate) (p : tpat) (t0 : gtype) {struct p} : Prop :=
    let t := unalias_top t0 in
    match p with
    | PVar x => if String.eqb x "_" then True else exists y, assoc x (ms_ty sg) = Some y /\ ident t y = true
    | PBuiltin b => ident t b = true
    | PVarSeq => False
    | PPointer q => exists e, t = T HPointer [e] /\ inst sg q e
    | PSlice q => exists e, t = T HSlice [e] /\ inst sg q e
    | PArrayN n q => exists e, t = T (HArray n) [e] /\ inst sg q e
    | PArrayVar x q => exists m e, t = T (HArray m) [e] /\ (if String.eqb x "_" then True else assoc x (ms_int sg) = Some m) /\ inst sg q e
    | PMap a b => exists kt vt, t = T HMap [kt; vt] /\ inst sg a kt /\ inst sg b vt
    | PChan d q => exists e, t = T (HChan d) [e] /\ inst sg q e
    | PNamed path name => exists u pkg targs, t = T (HNamed u pkg name) targs /\ pkg <> "" /\ strip_vendor pkg = path
    | PAnyInterface => exists ids ms, t = T (HInterface ids) ms
    | PFunc ps rs => exists v pts rts, t = T (HSig v) [T HTuple pts; T HTuple rts] /\ (v = true -> last_is_seq ps = true)
                                       /\ inst_list (inst sg) ps pts /\ inst_list (inst sg) rs rts
    | PStruct fs => exists hs fts, t = T (HStruct hs) fts /\ inst_list (inst sg) fs fts
    end.

  (* ---------------------------------------------------------------- state order *)
  Definition ext (a b : mstate) : Prop :=
    (forall x y, assoc x (ms_ty a) = Some y -> assoc x (ms_ty b) = Some y) /\
    (forall x n, assoc x (ms_int a) = Some n -> assoc x (ms_int b) = Some n).

  Lemma ext_refl a : ext a a.
  Proof. split; auto. Qed.
  Lemma ext_trans a b c : ext a b -> ext b c -> ext a c.
  Proof. intros [A1 A2] [B1 B2]. split; auto. Qed.

  Lemma ext_bind_ty st x t : assoc x (ms_ty st) = None -> ext st (MS ((x, t) :: ms_ty st) (ms_int st)).
  Proof.
    intros Hn. split; cbn; [|auto]. intros x' y H. destruct (String.eqb x x') eqn:E; [|exact H].
    apply String.eqb_eq in E. subst. congruence.
  Qed.
  Lemma ext_bind_int st x n : assoc x (ms_int st) = None -> ext st (MS (ms_ty st) ((x, n) :: ms_int st)).
  Proof.
    intros Hn. split; cbn; [auto|]. intros x' y H. destruct (String.eqb x x') eqn:E; [|exact H].
    apply String.eqb_eq in E. subst. congruence.
  Qed.

  (* inst is monotone in the assignment *)
  Lemma inst_list_mono (i1 i2 : tpat -> gtype -> Prop) ps :
    Forall (fun q => forall t, i1 q t -> i2 q t) ps -> forall ts, inst_list i1 ps ts -> inst_list i2 ps ts.
  Proof.
    induction ps as [|q ps IH]; intros HF ts; cbn; [auto|].
    inversion HF as [|? ? Hq Hps]; subst.
    destruct (is_seq q).
    - intros (j & Hj & H). exists j. split; [assumption|]. apply IH; assumption.
    - destruct ts as [|t1 ts']; [auto|]. intros [H1 H2]. split; [apply Hq; assumption|apply IH; assumption].
  Qed.

  Lemma inst_mono p : forall a b t, ext a b -> inst a p t -> inst b p t.
  Proof.
    induction p as [bt|x| |q IHp|q IHp|n q IHp|x q IHp|pa pb IHp1 IHp2|d q IHp|ps rs Hps Hrs|fs Hfs| |path name] using tpat_ind'; intros a b t0 E; cbn [inst]; cbv zeta; try tauto.
    - destruct (String.eqb x "_"); [auto|]. intros (y & Hy & Hi). exists y. split; [apply E; assumption|assumption].
    - intros (e & He & H). exists e. split; [assumption|]. eapply IHp; eassumption.
    - intros (e & He & H). exists e. split; [assumption|]. eapply IHp; eassumption.
    - intros (e & He & H). exists e. split; [assumption|]. eapply IHp; eassumption.
    - intros (m & e & He & Hx & H). exists m, e. split; [assumption|]. split; [|eapply IHp; eassumption].
      destruct (String.eqb x "_"); [auto|]. apply E; assumption.
    - intros (kt & vt & He & H1 & H2). exists kt, vt. split; [assumption|]. split; [eapply IHp1|eapply IHp2]; eassumption.
    - intros (e & He & H). exists e. split; [assumption|]. eapply IHp; eassumption.
    - intros (v & pts & rts & He & Hv & H1 & H2). exists v, pts, rts. split; [assumption|]. split; [assumption|].
      split; (eapply inst_list_mono; [|eassumption]).
      + eapply Forall_impl; [|exact Hps]. intros q Hq t Hi. eapply Hq; eassumption.
      + eapply Forall_impl; [|exact Hrs]. intros q Hq t Hi. eapply Hq; eassumption.
    - intros (hs & fts & He & H1). exists hs, fts. split; [assumption|].
      eapply inst_list_mono; [|eassumption].
      eapply Forall_impl; [|exact Hfs]. intros q Hq t Hi. eapply Hq; eassumption.
  Qed.

  (* ---------------------------------------------------------------- soundness *)
  (* what the theorems need of a class of well-formed types closed under taking components *)
  Variable ok : gtype -> Prop.
  Hypothesis ok_unalias : forall t, ok t -> ok (unalias_top t).
  Hypothesis ok_args : forall h xs, ok (T h xs) -> Forall ok xs.
  Hypothesis ident_refl : forall t, ok t -> ident t t = true.
  Hypothesis ident_eucl : forall a b c, ok a -> ok b -> ok c -> ident a c = true -> ident b c = true -> ident a b = true.

  Definition ok_st (st : mstate) : Prop := forall x y, assoc x (ms_ty st) = Some y -> ok y.

  Lemma ok_st_bind st x t : ok_st st -> ok t -> ok_st (MS ((x, t) :: ms_ty st) (ms_int st)).
  Proof. intros Hs Ht x' y; cbn. destruct (String.eqb x x'); [intros [= <-]; assumption|apply Hs]. Qed.

  Definition sound_at (p : tpat) : Prop :=
    forall t st k, ok t -> ok_st st -> match_k p t st k = true ->
    exists st', ext st st' /\ ok_st st' /\ inst st' p t /\ k st' = true.

  (* exists st'; ext / ok_st / k by assumption, leaves the inst goal *)
  Ltac pack x := exists x; split; [first [assumption|apply ext_refl|idtac]|split; [try assumption|split; [|try assumption]]].

  Lemma list_k_sound ps : Forall sound_at ps ->
    forall ts st k, Forall ok ts -> ok_st st -> list_k match_k ps ts st k = true ->
    exists st', ext st st' /\ ok_st st' /\ inst_list (inst st') ps ts /\ k st' = true.
  Proof.
    induction ps as [|q ps IH]; intros HF ts st k Hts Hst; cbn [list_k].
    - destruct ts; [|discriminate]. intros Hk. pack st. reflexivity.
    - inversion HF as [|? ? Hq Hps]; subst. specialize (IH Hps). cbn [inst_list].
      unfold sound_at in Hq. destruct (is_seq q) eqn:Sq.
      + (* every run length *)
        induction ts as [|t1 ts' IHts].
        * rewrite orb_false_r. intros H. destruct (IH [] st k Hts Hst H) as (st' & E & OS & II & K).
          pack st'. exists 0%nat. split; [cbn; lia|exact II].
        * intros H. apply orb_true_iff in H as [H|H].
          -- destruct (IH (t1 :: ts') st k Hts Hst H) as (st' & E & OS & II & K).
             pack st'. exists 0%nat. split; [cbn; lia|exact II].
          -- inversion Hts as [|? ? Hok1 Hoks]; subst. destruct (IHts Hoks H) as (st' & E & OS & (j & Hj & II) & K).
             pack st'. exists (S j). split; [cbn; lia|exact II].
      + destruct ts as [|t1 ts']; [discriminate|]. inversion Hts as [|? ? Hok1 Hoks]; subst. intros H.
        destruct (Hq t1 st _ Hok1 Hst H) as (st1 & E1 & O1 & I1 & K1).
        destruct (IH ts' st1 k Hoks O1 K1) as (st2 & E2 & O2 & I2 & K2).
        pack st2.
        * eapply ext_trans; eassumption.
        * split; [eapply inst_mono; eassumption|assumption].
  Qed.

  Ltac ok_child H :=
    match type of H with ok (T _ _) => let F := fresh "F" in pose proof (ok_args _ _ H) as F end.

  Lemma match_k_sound p : sound_at p.
  Proof.
    induction p as [b|x| |q IHp|q IHp|n q IHp|x q IHp|a b IHp1 IHp2|d q IHp|ps rs Hps Hrs|fs Hfs| |path name] using tpat_ind'; intros t0 st k Ht Hst; cbn [match_k]; cbv zeta;
      pose proof (ok_unalias _ Ht) as Ht'; cbn [inst]; cbv zeta; destruct (unalias_top t0) as [h xs] eqn:Et.
    - (* builtin *) intros H. apply andb_true_iff in H as [H1 H2]. pack st. assumption.
    - (* var *) destruct (String.eqb x "_") eqn:Ex.
      + intros H. pack st. exact Logic.I.
      + destruct (assoc x (ms_ty st)) as [y|] eqn:Ey.
        * intros H. apply andb_true_iff in H as [H1 H2]. pack st. exists y. split; assumption.
        * intros H. pack (MS ((x, T h xs) :: ms_ty st) (ms_int st)).
          -- apply ext_bind_ty; assumption.
          -- apply ok_st_bind; assumption.
          -- exists (T h xs). split; [cbn; rewrite String.eqb_refl; reflexivity|]. apply ident_refl; assumption.
    - discriminate.
    - (* pointer *) destruct h; try discriminate. destruct xs as [|e [|? ?]]; try discriminate. intros H.
      ok_child Ht'. inversion F as [|ee er Hoke Hoker]; subst. destruct (IHp e st k Hoke Hst H) as (st' & E & OS & II & K).
      pack st'. exists e. split; [reflexivity|assumption].
    - (* slice *) destruct h; try discriminate. destruct xs as [|e [|? ?]]; try discriminate. intros H.
      ok_child Ht'. inversion F as [|ee er Hoke Hoker]; subst. destruct (IHp e st k Hoke Hst H) as (st' & E & OS & II & K).
      pack st'. exists e. split; [reflexivity|assumption].
    - (* array n *) destruct h; try discriminate. destruct xs as [|e [|? ?]]; try discriminate. intros H.
      apply andb_true_iff in H as [Hn H]. apply Z.eqb_eq in Hn. subst.
      ok_child Ht'. inversion F as [|ee er Hoke Hoker]; subst. destruct (IHp e st k Hoke Hst H) as (st' & E & OS & II & K).
      pack st'. exists e. split; [reflexivity|assumption].
    - (* array var *) destruct h; try discriminate. destruct xs as [|e [|? ?]]; try discriminate.
      ok_child Ht'. inversion F as [|ee er Hoke Hoker]; subst.
      destruct (String.eqb x "_") eqn:Ex.
      + intros H. destruct (IHp e st k Hoke Hst H) as (st' & E & OS & II & K).
        pack st'. exists n, e. split; [reflexivity|split; [exact Logic.I|assumption]].
      + destruct (assoc x (ms_int st)) as [m|] eqn:Em.
        * intros H. apply andb_true_iff in H as [Hn H]. apply Z.eqb_eq in Hn. subst.
          destruct (IHp e st k Hoke Hst H) as (st' & E & OS & II & K).
          pack st'. exists n, e. split; [reflexivity|split; [apply E; assumption|assumption]].
        * intros H. destruct (IHp e (MS (ms_ty st) ((x, n) :: ms_int st)) k Hoke Hst H) as (st' & E & OS & II & K).
          pack st'.
          -- eapply ext_trans; [apply ext_bind_int; eassumption|exact E].
          -- exists n, e. split; [reflexivity|split; [|assumption]].
             apply E. cbn. rewrite String.eqb_refl. reflexivity.
    - (* map *) destruct h; try discriminate. destruct xs as [|kt [|vt [|? ?]]]; try discriminate. intros H.
      ok_child Ht'. inversion F as [|? ? Hkt F']; subst. inversion F' as [|? ? Hvt ?]; subst.
      destruct (IHp1 kt st _ Hkt Hst H) as (st1 & E1 & O1 & I1 & K1).
      destruct (IHp2 vt st1 k Hvt O1 K1) as (st2 & E2 & O2 & I2 & K2).
      pack st2; [eapply ext_trans; eassumption|].
      exists kt, vt. split; [reflexivity|split; [eapply inst_mono; eassumption|assumption]].
    - (* chan *) destruct h; try discriminate. destruct xs as [|e [|? ?]]; try discriminate. intros H.
      apply andb_true_iff in H as [Hn H]. apply N.eqb_eq in Hn. subst.
      ok_child Ht'. inversion F as [|ee er Hoke Hoker]; subst. destruct (IHp e st k Hoke Hst H) as (st' & E & OS & II & K).
      pack st'. exists e. split; [reflexivity|assumption].
    - (* func *) destruct h; try discriminate.
      destruct xs as [|[[] pts] [|[[] rts] [|? ?]]]; try discriminate. intros Hm.
      apply andb_true_iff in Hm as [Hv Hm].
      ok_child Ht'. inversion F as [|? ? Hp F']; subst. inversion F' as [|? ? Hr ?]; subst.
      pose proof (ok_args _ _ Hp) as Fp. pose proof (ok_args _ _ Hr) as Fr.
      destruct (list_k_sound ps Hps pts st _ Fp Hst Hm) as (st1 & E1 & O1 & I1 & K1).
      destruct (list_k_sound rs Hrs rts st1 k Fr O1 K1) as (st2 & E2 & O2 & I2 & K2).
      pack st2; [eapply ext_trans; eassumption|].
      exists variadic, pts, rts. split; [reflexivity|]. split.
      { intros ->. cbn in Hv. destruct (last_is_seq ps); [reflexivity|discriminate]. }
      split; [|assumption].
      eapply inst_list_mono; [|eassumption]. apply Forall_forall. intros q _ t Hi. eapply inst_mono; eassumption.
    - (* struct *) destruct h; try discriminate. intros Hm.
      ok_child Ht'.
      destruct (list_k_sound fs Hfs xs st k F Hst Hm) as (st1 & E1 & O1 & I1 & K1).
      pack st1. exists fs0, xs. split; [reflexivity|assumption].
    - (* any interface *) destruct h; try discriminate. intros H. pack st. exists ids, xs. reflexivity.
    - (* named *) destruct h; try discriminate. intros H.
      apply andb_true_iff in H as [H Hk]. apply andb_true_iff in H as [H Hp]. apply andb_true_iff in H as [Hpk Hn].
      apply String.eqb_eq in Hn, Hp. subst. pack st.
      exists u, pkg, xs. split; [reflexivity|split; [|reflexivity]]. intros ->. discriminate.
  Qed.

  (* ---------------------------------------------------------------- completeness *)
  (* the matcher's bindings are, up to `ident`, those of the assignment sg *)
  Definition inv (sg st : mstate) : Prop :=
    (forall x y, assoc x (ms_ty st) = Some y -> exists z, assoc x (ms_ty sg) = Some z /\ ident y z = true) /\
    (forall x n, assoc x (ms_int st) = Some n -> assoc x (ms_int sg) = Some n).

  Definition complete_at (sg : mstate) (p : tpat) : Prop :=
    forall t st k, ok t -> ok_st st -> inv sg st -> inst sg p t ->
    (forall st', ok_st st' -> inv sg st' -> k st' = true) -> match_k p t st k = true.

  Lemma list_k_complete sg ps : ok_st sg -> Forall (complete_at sg) ps ->
    forall ts st k, Forall ok ts -> ok_st st -> inv sg st -> inst_list (inst sg) ps ts ->
    (forall st', ok_st st' -> inv sg st' -> k st' = true) -> list_k match_k ps ts st k = true.
  Proof.
    intros Hsg. induction ps as [|q ps IH]; intros HF ts st k Hts Hst Hinv; cbn [list_k inst_list].
    - intros -> Hk. apply Hk; assumption.
    - inversion HF as [|? ? Hq Hps]; subst. specialize (IH Hps). unfold complete_at in Hq.
      destruct (is_seq q) eqn:Sq.
      + intros (j & Hj & Hi) Hk. revert j Hj Hi.
        induction ts as [|t1 ts' IHts]; intros j Hj Hi.
        * rewrite orb_false_r. destruct j; [|cbn in Hj; lia]. cbn in Hi. apply IH; assumption.
        * apply orb_true_iff. destruct j as [|j].
          -- left. cbn in Hi. apply IH; assumption.
          -- right. inversion Hts as [|? ? Hok1 Hoks]; subst. apply (IHts Hoks j); [cbn in Hj; lia|exact Hi].
      + destruct ts as [|t1 ts']; [intros []|]. intros [H1 H2] Hk. inversion Hts as [|? ? Hok1 Hoks]; subst.
        apply Hq; try assumption. intros st' O' I'. apply IH; assumption.
  Qed.

  Lemma match_k_complete sg : ok_st sg -> forall p, complete_at sg p.
  Proof.
    intros Hsg p.
    induction p as [b|x| |q IHp|q IHp|n q IHp|x q IHp|a b IHp1 IHp2|d q IHp|ps rs Hps Hrs|fs Hfs| |path name] using tpat_ind'; intros t0 st k Ht Hst Hinv; cbn [match_k inst]; cbv zeta;
      pose proof (ok_unalias _ Ht) as Ht'; destruct (unalias_top t0) as [h xs] eqn:Et.
    - intros Hi Hk. rewrite Hi. apply Hk; assumption.
    - destruct (String.eqb x "_") eqn:Ex.
      + intros _ Hk. apply Hk; assumption.
      + intros (z & Hz & Hi) Hk. destruct (assoc x (ms_ty st)) as [y|] eqn:Ey.
        * destruct Hinv as [Hi1 Hi2]. destruct (Hi1 _ _ Ey) as (z' & Hz' & Hyz). rewrite Hz in Hz'. inversion Hz'; subst z'.
          rewrite (ident_eucl (T h xs) y z Ht' (Hst _ _ Ey) (Hsg _ _ Hz) Hi Hyz). cbn. apply Hk; [assumption|split; assumption].
        * apply Hk.
          -- apply ok_st_bind; assumption.
          -- destruct Hinv as [Hi1 Hi2]. split; [|exact Hi2]. intros x' y'; cbn.
             destruct (String.eqb x x') eqn:E.
             ++ apply String.eqb_eq in E. subst x'. intros [= <-]. exists z. split; assumption.
             ++ apply Hi1.
    - intros [].
    - intros (e & Heq & Hi) Hk. inversion Heq; subst. ok_child Ht'. inversion F as [|ee er Hoke Hoker]; subst. apply IHp; assumption.
    - intros (e & Heq & Hi) Hk. inversion Heq; subst. ok_child Ht'. inversion F as [|ee er Hoke Hoker]; subst. apply IHp; assumption.
    - intros (e & Heq & Hi) Hk. inversion Heq; subst. ok_child Ht'. inversion F as [|ee er Hoke Hoker]; subst. rewrite Z.eqb_refl. cbn. apply IHp; assumption.
    - intros (m & e & Heq & Hx & Hi) Hk. inversion Heq; subst. ok_child Ht'. inversion F as [|ee er Hoke Hoker]; subst.
      destruct (String.eqb x "_") eqn:Ex; [apply IHp; assumption|].
      destruct (assoc x (ms_int st)) as [m'|] eqn:Em.
      + destruct Hinv as [Hi1 Hi2]. pose proof (Hi2 _ _ Em) as Hm'. rewrite Hx in Hm'. inversion Hm'; subst.
        rewrite Z.eqb_refl. cbn. apply IHp; try assumption. split; assumption.
      + apply IHp; try assumption.
        destruct Hinv as [Hi1 Hi2]. split; [exact Hi1|]. intros x' n'; cbn.
        destruct (String.eqb x x') eqn:E.
        * apply String.eqb_eq in E. subst x'. intros [= <-]. exact Hx.
        * apply Hi2.
    - intros (kt & vt & Heq & H1 & H2) Hk. inversion Heq; subst. ok_child Ht'. inversion F as [|? ? Hkt F']; subst. inversion F' as [|? ? Hvt ?]; subst.
      apply IHp1; try assumption. intros st' O' I'. apply IHp2; assumption.
    - intros (e & Heq & Hi) Hk. inversion Heq; subst. ok_child Ht'. inversion F as [|ee er Hoke Hoker]; subst. rewrite N.eqb_refl. cbn. apply IHp; assumption.
    - intros (v & pts & rts & Heq & Hv & H1 & H2) Hk. inversion Heq; subst.
      ok_child Ht'. inversion F as [|? ? Hp F']; subst. inversion F' as [|? ? Hr ?]; subst.
      pose proof (ok_args _ _ Hp) as Fp. pose proof (ok_args _ _ Hr) as Fr.
      apply andb_true_iff. split.
      + destruct v; [rewrite Hv by reflexivity|]; reflexivity.
      + apply (list_k_complete sg); try assumption. intros st' O' I'. apply (list_k_complete sg); assumption.
    - intros (hs & fts & Heq & H1) Hk. inversion Heq; subst. ok_child Ht'. apply (list_k_complete sg); assumption.
    - intros (ids & ms & Heq) Hk. inversion Heq; subst. apply Hk; assumption.
    - intros (u & pkg & targs & Heq & Hpk & Hp) Hk. inversion Heq; subst.
      assert (Hne : String.eqb pkg "" = false) by (destruct (String.eqb pkg "") eqn:E; [apply String.eqb_eq in E; contradiction|reflexivity]).
      rewrite Hne, !String.eqb_refl. cbn. apply Hk; assumption.
  Qed.

  (* ---------------------------------------------------------------- main statements *)
  (* a pattern denotes t when some assignment of well-formed types and lengths to its variables instantiates it to t *)
  Definition denotes (p : tpat) (t : gtype) : Prop := exists sg, ok_st sg /\ inst sg p t.

  Theorem match_sound p t : ok t -> match_pat p t = true -> denotes p t.
  Proof.
    intros Ht H. destruct (match_k_sound p t ms_empty (fun _ => true) Ht) as (st' & E & OS & II & _).
    - intros x y; cbn; discriminate.
    - exact H.
    - exists st'. split; assumption.
  Qed.

  Theorem match_complete p t : ok t -> denotes p t -> match_pat p t = true.
  Proof.
    intros Ht (sg & Hsg & Hi). apply (match_k_complete sg Hsg p); try assumption.
    - intros x y; cbn; discriminate.
    - split; intros x y; cbn; discriminate.
    - reflexivity.
  Qed.

  Theorem match_iff_denotes p t : ok t -> (match_pat p t = true <-> denotes p t).
  Proof. intros Ht. split; [apply match_sound|apply match_complete]; assumption. Qed.
End Match.
