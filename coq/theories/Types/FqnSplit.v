(* C20: where a fully-qualified name `path/to/pkg.T` is cut into package path and object name.

   The documented meaning ("a fully-qualified path/to/pkg.T denotes that package's T") leaves one reading only: the object
   name has no dot, the package path may have dots anywhere (host names, `gopkg.in/yaml.v3`, `k8s.io/api/core/v1.2`), so the
   boundary is the LAST dot of the whole string.  `split_fqn` states that on Coq strings; `split_by_last_index` is the shape
   engineState.FindType computes it in (strings.LastIndexByte + two slices), as go2coq `c20fqn` translates it on every run. *)
From Coq Require Import List ZArith Bool String Ascii Arith Lia.
From RG.Types Require Import GoStrings ImportsTab.
Import ListNotations.
Local Open Scope string_scope.

Definition dot : ascii := "."%char.

Fixpoint no_dot (s : string) : bool :=
  match s with EmptyString => true | String a r => negb (Ascii.eqb a dot) && no_dot r end.

(* ---- the model: cut at the last dot *)
Fixpoint split_fqn (s : string) : option (string * string) :=
  match s with
  | EmptyString => None
  | String a r => match split_fqn r with
                  | Some (p, n) => Some (String a p, n)
                  | None => if Ascii.eqb a dot then Some (EmptyString, r) else None
                  end
  end.

Lemma split_fqn_no_dot s : no_dot s = true -> split_fqn s = None.
Proof.
  induction s as [|a r IH]; cbn; [reflexivity|]. intros H. apply andb_true_iff in H as [Ha Hr].
  rewrite (IH Hr). apply negb_true_iff in Ha. rewrite Ha. reflexivity.
Qed.

(* whatever the package path looks like -- dots in the host name, in middle elements, in the last element, no slash at
   all --, `path.name` is cut into exactly (path, name) as long as the object name itself has no dot *)
Theorem split_fqn_spec path name : no_dot name = true -> split_fqn (path ++ "." ++ name) = Some (path, name).
Proof.
  intros H. induction path as [|a p IH]; cbn.
  - rewrite (split_fqn_no_dot name H). reflexivity.
  - cbn in IH. rewrite IH. reflexivity.
Qed.

Theorem split_fqn_inv s : forall p n, split_fqn s = Some (p, n) -> s = p ++ "." ++ n /\ no_dot n = true.
Proof.
  induction s as [|a r IH]; cbn; [discriminate|]. intros p n.
  destruct (split_fqn r) as [[p' n']|] eqn:E.
  - intros H. inversion H; subst. destruct (IH p' n eq_refl) as [-> Hn]. split; [reflexivity|exact Hn].
  - destruct (Ascii.eqb a dot) eqn:A; [|discriminate]. intros H. inversion H; subst. apply Ascii.eqb_eq in A. subst a.
    split; [reflexivity|]. clear IH H. induction n as [|b m IHm]; cbn in *; [reflexivity|].
    destruct (split_fqn m) as [[? ?]|]; [discriminate|]. destruct (Ascii.eqb b dot); [discriminate|]. cbn. apply IHm. reflexivity.
Qed.

Theorem split_fqn_none s : split_fqn s = None <-> no_dot s = true.
Proof.
  split; [|apply split_fqn_no_dot]. induction s as [|a r IH]; cbn; [reflexivity|].
  destruct (split_fqn r) as [[? ?]|]; [discriminate|]. destruct (Ascii.eqb a dot); [discriminate|]. intros _. cbn. apply IH. reflexivity.
Qed.

(* the cut is unique: a string has one reading as path.name with a dot-free name *)
Corollary split_fqn_unique p1 n1 p2 n2 :
  no_dot n1 = true -> no_dot n2 = true -> p1 ++ "." ++ n1 = p2 ++ "." ++ n2 -> p1 = p2 /\ n1 = n2.
Proof.
  intros H1 H2 E. pose proof (split_fqn_spec p1 n1 H1) as A. rewrite E, (split_fqn_spec p2 n2 H2) in A. inversion A. split; reflexivity.
Qed.

(* ---- Go's strings.LastIndexByte: the index of the last instance of c in s, or -1 *)
Fixpoint last_index_byte_nat (s : string) (c : ascii) : option nat :=
  match s with
  | EmptyString => None
  | String a r => match last_index_byte_nat r c with
                  | Some k => Some (S k)
                  | None => if Ascii.eqb a c then Some 0%nat else None
                  end
  end.

Definition go_last_index_byte (s : string) (c : ascii) : Z :=
  match last_index_byte_nat s c with Some k => Z.of_nat k | None => (-1)%Z end.

Lemma last_index_byte_none s c : last_index_byte_nat s c = None -> forall j, String.get j s <> Some c.
Proof.
  induction s as [|a r IH]; cbn; intros H j; [destruct j; discriminate|].
  destruct (last_index_byte_nat r c); [discriminate|]. destruct (Ascii.eqb a c) eqn:A; [discriminate|].
  destruct j as [|j]; cbn.
  - intros E. inversion E; subst. rewrite Ascii.eqb_refl in A. discriminate.
  - apply IH. reflexivity.
Qed.

(* it IS the last instance: the byte at the index is c and no later byte is *)
Lemma last_index_byte_some s c : forall k, last_index_byte_nat s c = Some k ->
  String.get k s = Some c /\ forall j, (k < j)%nat -> String.get j s <> Some c.
Proof.
  induction s as [|a r IH]; cbn; intros k H; [discriminate|].
  destruct (last_index_byte_nat r c) as [k'|] eqn:E.
  - inversion H; subst. destruct (IH k' eq_refl) as [G L]. split; [exact G|].
    intros j Hj. destruct j as [|j]; [lia|]. cbn. apply L. lia.
  - destruct (Ascii.eqb a c) eqn:A; [|discriminate]. inversion H; subst. apply Ascii.eqb_eq in A. subst a. split; [reflexivity|].
    intros j Hj. destruct j as [|j]; [lia|]. cbn. apply (last_index_byte_none r c E).
Qed.

(* ---- the shape FindType computes the cut in *)
Definition split_by_last_index (fqn : string) : option (string * string) :=
  let pos := go_last_index_byte fqn dot in
  if (pos =? (-1))%Z then None
  else Some (go_slice fqn 0 pos, go_slice fqn (pos + 1) (Z.of_nat (String.length fqn))).

Lemma substring_all s : substring 0 (String.length s) s = s.
Proof. induction s as [|a r IH]; cbn; [reflexivity|]. rewrite IH. reflexivity. Qed.

Lemma split_by_index_nat s : forall k, last_index_byte_nat s dot = Some k ->
  split_fqn s = Some (substring 0 k s, substring (S k) (String.length s - S k) s).
Proof.
  induction s as [|a r IH]; cbn [last_index_byte_nat]; intros k H; [discriminate|].
  destruct (last_index_byte_nat r dot) as [k'|] eqn:E.
  - inversion H; subst. cbn [split_fqn]. rewrite (IH k' eq_refl). cbn [substring String.length]. reflexivity.
  - destruct (Ascii.eqb a dot) eqn:A; [|discriminate]. inversion H; subst. cbn [split_fqn].
    assert (N : split_fqn r = None).
    { apply split_fqn_no_dot. clear IH H. induction r as [|b m IHm]; cbn in *; [reflexivity|].
      destruct (last_index_byte_nat m dot); [discriminate|]. destruct (Ascii.eqb b dot); [discriminate|]. cbn. apply IHm. reflexivity. }
    rewrite N, A. cbn [substring String.length]. replace (S (String.length r) - 1)%nat with (String.length r) by lia.
    rewrite substring_all. reflexivity.
Qed.

Lemma split_by_index_none s : last_index_byte_nat s dot = None -> split_fqn s = None.
Proof.
  intros H. apply split_fqn_no_dot. induction s as [|b m IHm]; cbn in *; [reflexivity|].
  destruct (last_index_byte_nat m dot); [discriminate|]. destruct (Ascii.eqb b dot); [discriminate|]. cbn. apply IHm. reflexivity.
Qed.

(* strings.LastIndexByte(fqn, '.') / fqn[:pos] / fqn[pos+1:] cut exactly where the model does *)
Theorem split_by_last_index_is_split_fqn fqn : split_by_last_index fqn = split_fqn fqn.
Proof.
  unfold split_by_last_index, go_last_index_byte, go_slice.
  destruct (last_index_byte_nat fqn dot) as [k|] eqn:E.
  - cbv zeta. replace (Z.of_nat k =? -1)%Z with false by (symmetry; apply Z.eqb_neq; lia).
    rewrite (split_by_index_nat fqn k E). rewrite !Nat2Z.id. cbn [Z.to_nat]. rewrite Nat.sub_0_r.
    replace (Z.to_nat (Z.of_nat k + 1)) with (S k) by lia. reflexivity.
  - cbv zeta. rewrite Z.eqb_refl. symmetry. apply split_by_index_none. exact E.
Qed.

(* ---- tie to the resolver model: a fully-qualified interface name IS the request IFqn path name, whatever the table says *)
Definition fqn_req (s : string) : option req :=
  match split_fqn s with Some (p, n) => Some (RIface (IFqn p n)) | None => None end.

Theorem fqn_denotes_the_package_before_its_last_dot world t path name :
  no_dot name = true ->
  exists r, fqn_req (path ++ "." ++ name) = Some r /\ resolve world t r = find_iface world path name.
Proof. intros H. exists (RIface (IFqn path name)). unfold fqn_req. rewrite (split_fqn_spec path name H). split; reflexivity. Qed.

(* for running the model on the harness' strings *)
Definition show_split (s : string) : string :=
  match split_fqn s with Some (p, n) => p ++ "|" ++ n | None => "-" end.

Example split_fqn_examples :
  split_fqn "gopkg.in/yaml.v3.Marshaler" = Some ("gopkg.in/yaml.v3", "Marshaler") /\
  split_fqn "io.Reader" = Some ("io", "Reader") /\
  split_fqn "example.com/c20/lib/multi.dot.v2.T" = Some ("example.com/c20/lib/multi.dot.v2", "T") /\
  split_fqn "a.b/c.d/e.T" = Some ("a.b/c.d/e", "T") /\
  split_fqn "nodot" = None /\
  split_by_last_index "gopkg.in/yaml.v3.Marshaler" = Some ("gopkg.in/yaml.v3", "Marshaler") /\
  go_last_index_byte "gopkg.in/yaml.v3.Marshaler" dot = 16%Z /\ go_last_index_byte "nodot" dot = (-1)%Z.
Proof. vm_compute. repeat split; reflexivity. Qed.
