(* C20: the standard-library default table of the import table.

   stdinfo documents PathByName as: "maps a std package name to its package path. For packages with multiple choices,
   like "template", only the more common one is accessible ("text/template" in this case)".
   `documented_default pl n p` states exactly that about a list of (name, path, import frequency) entries; the boolean
   check `table_okb` decides it for a whole table, so that a table regenerated from source can be validated by computation
   and the general statement follows for every name. *)
From Coq Require Import List ZArith Bool String Ascii Lia.
From RG.Types Require Import ImportsTab.
Import ListNotations.
Local Open Scope string_scope.

Notation entry := (string * string * Z)%type.
(* p is a std package named n and no std package named n is imported more often *)
Definition documented_default (pl : list entry) (n p : string) : Prop :=
  (exists f, In (n, p, f) pl /\ forall p' f', In (n, p', f') pl -> (f' <= f)%Z).

(* entries of pl named n *)
Definition named (pl : list entry) (n : string) : list entry :=
  filter (fun e => String.eqb (fst (fst e)) n) pl.

Definition entry_okb (pl : list entry) (np : string * string) : bool :=
  let '(n, p) := np in
  existsb (fun e => String.eqb (snd (fst e)) p && forallb (fun e' => Z.leb (snd e') (snd e)) (named pl n)) (named pl n).

Definition table_okb (pl : list entry) (tab : scope) : bool := forallb (entry_okb pl) tab.

Lemma named_in pl n e : In e (named pl n) <-> In e pl /\ fst (fst e) = n.
Proof. unfold named. rewrite filter_In, String.eqb_eq. reflexivity. Qed.

Lemma entry_okb_sound pl n p : entry_okb pl (n, p) = true -> documented_default pl n p.
Proof.
  unfold entry_okb. rewrite existsb_exists. intros ([[n0 p0] f] & Hin & H).
  apply andb_true_iff in H. destruct H as [Hp Hall]. cbn in Hp. apply String.eqb_eq in Hp. subst p0.
  apply named_in in Hin. destruct Hin as [Hin Hn]. cbn in Hn. subst n0.
  exists f. split; [exact Hin|]. intros p' f' Hin'.
  rewrite forallb_forall in Hall. specialize (Hall (n, p', f')). cbn in Hall.
  apply Z.leb_le. apply Hall. apply named_in. split; [exact Hin'|reflexivity].
Qed.

Lemma sassoc_in x l v : sassoc x l = Some v -> In (x, v) l.
Proof.
  induction l as [|[k w] l IH]; cbn; [discriminate|].
  destruct (String.eqb k x) eqn:E.
  - intros H. inversion H. subst. apply String.eqb_eq in E. subst. left. reflexivity.
  - intros H. right. apply IH. exact H.
Qed.

(* a table that passes the check gives every name it binds its documented default *)
Theorem table_ok pl tab : table_okb pl tab = true -> forall n p, sassoc n tab = Some p -> documented_default pl n p.
Proof.
  intros H n p S. apply entry_okb_sound. unfold table_okb in H. rewrite forallb_forall in H. apply H. apply sassoc_in. exact S.
Qed.

(* base names that several std packages share *)
Fixpoint count_name (pl : list entry) (n : string) : nat :=
  match pl with [] => 0 | e :: r => (if String.eqb (fst (fst e)) n then 1 else 0) + count_name r n end.

Fixpoint dedup (l : list string) : list string :=
  match l with [] => [] | x :: r => if existsb (String.eqb x) r then dedup r else x :: dedup r end.

Definition ambiguous_names (pl : list entry) : list string :=
  dedup (map (fun e => fst (fst e)) (filter (fun e => Nat.ltb 1 (count_name pl (fst (fst e)))) pl)).

(* a key is bound once *)
Fixpoint nodupb (l : list string) : bool :=
  match l with [] => true | x :: r => negb (existsb (String.eqb x) r) && nodupb r end.

Lemma nodupb_sound l : nodupb l = true -> NoDup l.
Proof.
  induction l as [|x r IH]; cbn; [constructor|].
  intros H. apply andb_true_iff in H. destruct H as [H1 H2]. constructor; [|apply IH; exact H2].
  intros Hin. apply negb_true_iff in H1. assert (existsb (String.eqb x) r = true); [|congruence].
  apply existsb_exists. exists x. split; [exact Hin|apply String.eqb_refl].
Qed.

(* the last path element *)
Fixpoint base_from (s : string) (acc : string) : string :=
  match s with
  | EmptyString => acc
  | String c r => if Ascii.eqb c "/"%char then base_from r EmptyString else base_from r (acc ++ String c EmptyString)
  end.
Definition base (p : string) : string := base_from p EmptyString.

(* a (name, path) list seen as the result of "last write wins" insertion into a map (how a table would be rebuilt from a
   list): the binding of n is the LAST entry named n *)
Fixpoint last_wins (pl : list entry) (n : string) : option string :=
  match pl with
  | [] => None
  | e :: r => match last_wins r n with
              | Some p => Some p
              | None => if String.eqb (fst (fst e)) n then Some (snd (fst e)) else None
              end
  end.
