(* C20: an unresolvable qualified name ANYWHERE inside a type string makes the whole string unparsable (-> load error).

   typematch.parseExpr resolves `pkg.T` at the leaves (ImportsTab.Lookup; nil when the package name is not bound) and every
   `case *ast.X:` clause for a composite type has to pass a nil sub-pattern upwards before it builds its own pattern.  This
   file has
     - `texpr`: go/ast type expressions as labelled trees (kind, text, children labelled by the go/ast field they sit in);
     - a small statement language for the NIL FLOW of a clause (`pstmt`): recursive calls, nil tests, opaque conditions,
       appends to slices of sub-patterns, loops over field lists, returns of nil / a built pattern / a recursive call --
       go2coq `c20parse` transcribes every clause of parseExpr into it on every run;
     - its semantics `run_clause` (opaque conditions are answered by an arbitrary oracle stream, so every behaviour of the real
       conditions is covered; a Go nil pointer is `None`);
     - a checker `clause_ok` with a soundness theorem: a clause that passes can only return a pattern when every recursive
       call on every type child of the node returned non-nil, and the pattern it builds stores no nil sub-pattern;
     - `parses`: the results parseExpr can produce for an expression (clauses applied recursively), and the theorem
       `unbound_name_is_unparsable`: an expression with a qualified name whose package the table does not bind has no
       result but nil. *)
From Coq Require Import List String Bool Arith Lia.
Import ListNotations.
Local Open Scope string_scope.

(* ---------------------------------------------------------------- syntax trees and patterns *)
Inductive texpr := TE (kind : string) (text : string) (kids : list (string * texpr)).

Definition te_kind (e : texpr) : string := let 'TE k _ _ := e in k.
Definition te_text (e : texpr) : string := let 'TE _ t _ := e in t.
Definition te_kids (e : texpr) : list (string * texpr) := let 'TE _ _ ks := e in ks.

(* the children sitting in go/ast field `lbl` (for a field list: the types of its fields, in order) *)
Definition labelled (e : texpr) (lbl : string) : list texpr :=
  map snd (filter (fun kc => String.eqb (fst kc) lbl) (te_kids e)).

(* a parsed pattern; `subs` holds Go pointers, a nil pointer is None *)
Inductive gpat := GP (op : string) (subs : list (option gpat)) | GNamed (path name : string).

Fixpoint nonil (p : gpat) : bool :=
  match p with
  | GNamed _ _ => true
  | GP _ subs => forallb (fun s => match s with Some q => nonil q | None => false end) subs
  end.

(* the signature of a go/ast node kind: its type-valued fields, and whether each is a field list *)
Definition nsig : Type := list (string * bool).

Definition sig_children (sg : nsig) (e : texpr) : list texpr :=
  flat_map (fun lb : string * bool => if snd lb then labelled e (fst lb) else firstn 1 (labelled e (fst lb))) sg.

(* ---------------------------------------------------------------- the nil-flow language *)
Inductive cref := CKid (lbl : string) | CField | CIdx (lbl : string) (i : nat).
Inductive pcond :=
| CNil (v : string)                 (* v == nil *)
| COr (a b : pcond) | CAnd (a b : pcond) | CNot (a : pcond)
| COpaque                           (* a condition that reads no pattern pointer for nil-ness *)
| CLenEq (lbl : string) (n : nat).  (* len(e.<lbl>.List) == n *)
Inductive psub := SVar (v : string) | SList (l : string).
Inductive pret := RNil | RPat (op : string) (subs : list psub) | RRec (c : cref).
Inductive bstmt :=
| BRec (v : string) (c : cref)      (* v := parseExpr(ctx, <child>) *)
| BIf (c : pcond) (r : pret)        (* if c { return r } *)
| BSkip                             (* a statement that neither writes a pattern variable nor returns *)
| BAppend (l v : string).           (* l = append(l, v) *)
Inductive pstmt :=
| PB (b : bstmt)
| PRange (lbl : string) (body : list bstmt)                 (* for _, field := range e.<lbl>.List { body } *)
| PBlock (c : pcond) (body : list bstmt) (r : option pret)  (* if c { body; [return r] } *)
| PRet (r : pret).

(* ---------------------------------------------------------------- semantics *)
Definition pvars := list (string * option gpat).
Definition lvars := list (string * list (option gpat)).
Record pstate := PS { pv : pvars; lv : lvars; tick : nat }.

Fixpoint assoc {A} (x : string) (l : list (string * A)) : option A :=
  match l with [] => None | (k, v) :: r => if String.eqb k x then Some v else assoc x r end.

Definition get_pv (st : pstate) (v : string) : option gpat := match assoc v (pv st) with Some x => x | None => None end.
Definition get_lv (st : pstate) (l : string) : list (option gpat) := match assoc l (lv st) with Some x => x | None => [] end.
Definition set_pv (st : pstate) (v : string) (x : option gpat) : pstate := PS ((v, x) :: pv st) (lv st) (tick st).
Definition set_lv (st : pstate) (l : string) (x : list (option gpat)) : pstate := PS (pv st) ((l, x) :: lv st) (tick st).

Inductive res := Done (r : option gpat) | Cont (st : pstate).

Section Run.
  Variable rec : texpr -> option gpat.       (* the recursive calls *)
  Variable oracle : nat -> bool.             (* the answers of the opaque conditions, in evaluation order *)
  Variable e : texpr.                        (* the node the clause is applied to *)

  Definition cref_eval (fld : option texpr) (c : cref) : option texpr :=
    match c with
    | CKid lbl => hd_error (labelled e lbl)
    | CField => fld
    | CIdx lbl i => nth_error (labelled e lbl) i
    end.

  Fixpoint eval_cond (st : pstate) (c : pcond) : bool * pstate :=
    match c with
    | CNil v => (match get_pv st v with None => true | Some _ => false end, st)
    | COr a b => let (x, st1) := eval_cond st a in let (y, st2) := eval_cond st1 b in (x || y, st2)
    | CAnd a b => let (x, st1) := eval_cond st a in let (y, st2) := eval_cond st1 b in (x && y, st2)
    | CNot a => let (x, st1) := eval_cond st a in (negb x, st1)
    | COpaque => (oracle (tick st), PS (pv st) (lv st) (S (tick st)))
    | CLenEq lbl n => (Nat.eqb (List.length (labelled e lbl)) n, st)
    end.

  Definition sub_eval (st : pstate) (s : psub) : list (option gpat) :=
    match s with SVar v => [get_pv st v] | SList l => get_lv st l end.

  Definition ret_eval (fld : option texpr) (st : pstate) (r : pret) : option gpat :=
    match r with
    | RNil => None
    | RPat op subs => Some (GP op (flat_map (sub_eval st) subs))
    | RRec c => match cref_eval fld c with Some x => rec x | None => None end
    end.

  Definition run_b (fld : option texpr) (st : pstate) (b : bstmt) : res :=
    match b with
    | BRec v c => match cref_eval fld c with Some x => Cont (set_pv st v (rec x)) | None => Done None end
    | BIf c r => let (x, st1) := eval_cond st c in if x then Done (ret_eval fld st1 r) else Cont st1
    | BSkip => Cont st
    | BAppend l v => Cont (set_lv st l (get_lv st l ++ [get_pv st v]))
    end.

  Fixpoint run_bs (fld : option texpr) (st : pstate) (bs : list bstmt) : res :=
    match bs with
    | [] => Cont st
    | b :: r => match run_b fld st b with Done x => Done x | Cont st1 => run_bs fld st1 r end
    end.

  Fixpoint run_range (body : list bstmt) (fields : list texpr) (st : pstate) : res :=
    match fields with
    | [] => Cont st
    | f :: r => match run_bs (Some f) st body with Done x => Done x | Cont st1 => run_range body r st1 end
    end.

  Definition run_p (st : pstate) (p : pstmt) : res :=
    match p with
    | PB b => run_b None st b
    | PRange lbl body => run_range body (labelled e lbl) st
    | PBlock c body r =>
        let (x, st1) := eval_cond st c in
        if x then match run_bs None st1 body with
                  | Done y => Done y
                  | Cont st2 => match r with Some r => Done (ret_eval None st2 r) | None => Cont st2 end
                  end
        else Cont st1
    | PRet r => Done (ret_eval None st r)
    end.

  Fixpoint run_ps (st : pstate) (ps : list pstmt) : res :=
    match ps with
    | [] => Cont st
    | p :: r => match run_p st p with Done x => Done x | Cont st1 => run_ps st1 r end
    end.

  (* a clause that runs off its end leaves the switch: parseExpr's final `return nil` *)
  Definition run_clause (body : list pstmt) : option gpat :=
    match run_ps (PS [] [] 0) body with Done x => x | Cont _ => None end.
End Run.

(* ---------------------------------------------------------------- the checker *)
Record astate := AS {
  chk : list (string * cref);     (* the variable holds the NON-NIL result of the recursive call on that child *)
  unk : list (string * cref);     (* the variable holds the result of the recursive call on that child *)
  ranged : list string;           (* field lists of which every member was parsed and found non-nil *)
  lens : list (string * nat) }.   (* known lengths of field lists *)

Definition cref_eqb (a b : cref) : bool :=
  match a, b with
  | CKid x, CKid y => String.eqb x y
  | CField, CField => true
  | CIdx x i, CIdx y j => String.eqb x y && Nat.eqb i j
  | _, _ => false
  end.

Definition drop (v : string) (l : list (string * cref)) : list (string * cref) := filter (fun vc => negb (String.eqb (fst vc) v)) l.
Definition has_var (v : string) (l : list (string * cref)) : bool := existsb (fun vc => String.eqb (fst vc) v) l.
Definition has_ref (c : cref) (l : list (string * cref)) : bool := existsb (fun vc => cref_eqb (snd vc) c) l.

Definition a_rec (v : string) (c : cref) (a : astate) : astate := AS (drop v (chk a)) ((v, c) :: drop v (unk a)) (ranged a) (lens a).
(* v is now known to be non-nil *)
Definition promote (v : string) (a : astate) : astate :=
  AS (filter (fun vc => String.eqb (fst vc) v) (unk a) ++ chk a) (unk a) (ranged a) (lens a).

Fixpoint learn (pol : bool) (c : pcond) (a : astate) : astate :=
  match c with
  | CNil v => if pol then a else promote v a
  | COr x y => if pol then a else learn false y (learn false x a)
  | CAnd x y => if pol then learn true y (learn true x a) else a
  | CNot x => learn (negb pol) x a
  | COpaque => a
  | CLenEq lbl n => if pol then AS (chk a) (unk a) (ranged a) ((lbl, n) :: lens a) else a
  end.

Definition sub_ok (a : astate) (s : psub) : bool := match s with SVar v => has_var v (chk a) | SList _ => true end.

Definition covered (sg : nsig) (a : astate) : bool :=
  forallb (fun lb : string * bool =>
    if snd lb
    then existsb (String.eqb (fst lb)) (ranged a) ||
         match assoc (fst lb) (lens a) with
         | Some n => forallb (fun i => has_ref (CIdx (fst lb) i) (chk a)) (seq 0 n)
         | None => false
         end
    else has_ref (CKid (fst lb)) (chk a)) sg.

Definition ret_ok (sg : nsig) (in_loop : bool) (a : astate) (r : pret) : bool :=
  match r with
  | RNil => true
  | RPat _ subs => negb in_loop && forallb (sub_ok a) subs && covered sg a
  | RRec c => negb in_loop &&
              match sg, c with
              | [(lbl, false)], CKid l2 => String.eqb lbl l2
              | _, _ => false
              end
  end.

Definition check_b (sg : nsig) (in_loop : bool) (a : astate) (b : bstmt) : option astate :=
  match b with
  | BRec v c => Some (a_rec v c a)
  | BIf c r => if ret_ok sg in_loop (learn true c a) r then Some (learn false c a) else None
  | BSkip => Some a
  | BAppend _ v => if has_var v (chk a) then Some a else None
  end.

Fixpoint check_bs (sg : nsig) (in_loop : bool) (a : astate) (bs : list bstmt) : option astate :=
  match bs with
  | [] => Some a
  | b :: r => match check_b sg in_loop a b with Some a1 => check_bs sg in_loop a1 r | None => None end
  end.

(* forget what is known about the variables a block assigns *)
Fixpoint forget (bs : list bstmt) (a : astate) : astate :=
  match bs with
  | [] => a
  | BRec v _ :: r => forget r (AS (drop v (chk a)) (drop v (unk a)) (ranged a) (lens a))
  | _ :: r => forget r a
  end.

Definition check_p (sg : nsig) (a : astate) (p : pstmt) : option astate :=
  match p with
  | PB b => check_b sg false a b
  | PRange lbl body =>
      let a0 := forget body a in
      match check_bs sg true a0 body with
      | Some a1 => if has_ref CField (chk a1) then Some (AS (chk a0) (unk a0) (lbl :: ranged a0) (lens a0)) else None
      | None => None
      end
  | PBlock c body r =>
      match check_bs sg false (learn true c a) body with
      | None => None
      | Some a1 => match r with
                   | Some r => if ret_ok sg false a1 r then Some (learn false c a) else None
                   | None => Some (forget body a)
                   end
      end
  | PRet r => if ret_ok sg false a r then Some a else None
  end.

Fixpoint check_ps (sg : nsig) (a : astate) (ps : list pstmt) : option astate :=
  match ps with
  | [] => Some a
  | p :: r => match check_p sg a p with Some a1 => check_ps sg a1 r | None => None end
  end.

Definition clause_ok (sg : nsig) (body : list pstmt) : bool :=
  match check_ps sg (AS [] [] [] []) body with Some _ => true | None => false end.

(* ---------------------------------------------------------------- soundness *)
Section Sound.
  Variable rec : texpr -> option gpat.
  Variable oracle : nat -> bool.
  Variable e : texpr.
  Variable sg : nsig.
  Hypothesis rec_nonil : forall x q, rec x = Some q -> nonil q = true.

  Definition good_slot (s : option gpat) : Prop := exists q, s = Some q /\ nonil q = true.

  (* what the abstract state claims about a concrete one *)
  Record R (fld : option texpr) (a : astate) (st : pstate) : Prop := {
    R_chk : forall v c, In (v, c) (chk a) -> exists x q, cref_eval e fld c = Some x /\ rec x = Some q /\ get_pv st v = Some q;
    R_unk : forall v c, In (v, c) (unk a) -> exists x, cref_eval e fld c = Some x /\ get_pv st v = rec x;
    R_rng : forall lbl, In lbl (ranged a) -> Forall (fun x => rec x <> None) (labelled e lbl);
    R_len : forall lbl n, In (lbl, n) (lens a) -> List.length (labelled e lbl) = n;
    R_lst : forall l, Forall good_slot (get_lv st l) }.

  (* the result a clause may return *)
  Definition good_result (p : gpat) : Prop := nonil p = true /\ Forall (fun x => rec x <> None) (sig_children sg e).

  Lemma assoc_in {A} x (l : list (string * A)) v : assoc x l = Some v -> In (x, v) l.
  Proof.
    induction l as [|[k w] r IH]; cbn; [discriminate|]. destruct (String.eqb k x) eqn:E.
    - intros H. inversion H; subst. apply String.eqb_eq in E. subst. left. reflexivity.
    - intros H. right. apply IH. exact H.
  Qed.

  Lemma cref_eqb_eq a b : cref_eqb a b = true -> a = b.
  Proof.
    destruct a, b; cbn; try discriminate; intros H.
    - apply String.eqb_eq in H. subst. reflexivity.
    - reflexivity.
    - apply andb_true_iff in H as [H1 H2]. apply String.eqb_eq in H1. apply Nat.eqb_eq in H2. subst. reflexivity.
  Qed.

  Lemma has_var_in v l : has_var v l = true -> exists c, In (v, c) l.
  Proof.
    unfold has_var. intros H. apply existsb_exists in H as ([w c] & Hin & E). cbn in E. apply String.eqb_eq in E. subst. exists c. exact Hin.
  Qed.

  Lemma has_ref_in c l : has_ref c l = true -> exists v, In (v, c) l.
  Proof.
    unfold has_ref. intros H. apply existsb_exists in H as ([v c'] & Hin & E). cbn in E. apply cref_eqb_eq in E. subst. exists v. exact Hin.
  Qed.

  Lemma in_drop v w c l : In (w, c) (drop v l) -> In (w, c) l /\ w <> v.
  Proof.
    unfold drop. intros H. apply filter_In in H as [Hin E]. cbn in E. split; [exact Hin|].
    intros ->. rewrite String.eqb_refl in E. discriminate.
  Qed.

  Lemma get_pv_set_other st v w x : w <> v -> get_pv (set_pv st v x) w = get_pv st w.
  Proof. intros N. unfold get_pv, set_pv. cbn. destruct (String.eqb v w) eqn:E; [apply String.eqb_eq in E; congruence|reflexivity]. Qed.

  Lemma get_pv_set_same st v x : get_pv (set_pv st v x) v = x.
  Proof. unfold get_pv, set_pv. cbn. rewrite String.eqb_refl. reflexivity. Qed.

  (* conditions change nothing but the oracle position *)
  Lemma eval_cond_pres c : forall st b st1, eval_cond oracle e st c = (b, st1) -> pv st1 = pv st /\ lv st1 = lv st.
  Proof.
    induction c as [v|a IHa b IHb|a IHa b IHb|a IHa| |lbl n]; intros st x st1; cbn.
    - intros H. inversion H; subst. split; reflexivity.
    - destruct (eval_cond oracle e st a) as [xa sa] eqn:Ea. destruct (eval_cond oracle e sa b) as [xb sb] eqn:Eb.
      intros H. inversion H; subst. destruct (IHa _ _ _ Ea) as [P1 L1]. destruct (IHb _ _ _ Eb) as [P2 L2]. split; congruence.
    - destruct (eval_cond oracle e st a) as [xa sa] eqn:Ea. destruct (eval_cond oracle e sa b) as [xb sb] eqn:Eb.
      intros H. inversion H; subst. destruct (IHa _ _ _ Ea) as [P1 L1]. destruct (IHb _ _ _ Eb) as [P2 L2]. split; congruence.
    - destruct (eval_cond oracle e st a) as [xa sa] eqn:Ea. intros H. inversion H; subst. exact (IHa _ _ _ Ea).
    - intros H. inversion H; subst. split; reflexivity.
    - intros H. inversion H; subst. split; reflexivity.
  Qed.

  Lemma R_same_vars fld a st st1 : pv st1 = pv st -> lv st1 = lv st -> R fld a st -> R fld a st1.
  Proof.
    intros P L [H1 H2 H3 H4 H5].
    assert (G : forall v, get_pv st1 v = get_pv st v) by (intros v; unfold get_pv; rewrite P; reflexivity).
    assert (GL : forall l, get_lv st1 l = get_lv st l) by (intros l; unfold get_lv; rewrite L; reflexivity).
    constructor; intros.
    - destruct (H1 _ _ H) as (x & q & A & B & C). exists x, q. rewrite G. auto.
    - destruct (H2 _ _ H) as (x & A & B). exists x. rewrite G. auto.
    - apply H3. exact H.
    - apply H4. exact H.
    - rewrite GL. apply H5.
  Qed.

  Lemma promote_sound fld a st v : R fld a st -> get_pv st v <> None -> R fld (promote v a) st.
  Proof.
    intros [H1 H2 H3 H4 H5] NN. constructor; cbn; intros; auto.
    apply in_app_or in H as [H|H]; [|apply H1; exact H].
    apply filter_In in H as [Hin E]. cbn in E. apply String.eqb_eq in E. subst v0.
    destruct (H2 _ _ Hin) as (x & A & B). rewrite B in NN. destruct (rec x) as [q|] eqn:Q; [|congruence].
    exists x, q. rewrite B. auto.
  Qed.

  Lemma learn_sound fld c : forall pol a st b st1,
    eval_cond oracle e st c = (b, st1) -> b = pol -> R fld a st -> R fld (learn pol c a) st1.
  Proof.
    induction c as [v|x IHx y IHy|x IHx y IHy|x IHx| |lbl n]; intros pol a st b st1 E P HR.
    - cbn in E. inversion E; subst. cbn. destruct (get_pv st1 v) eqn:G; [|exact HR].
      apply promote_sound; [exact HR|congruence].
    - cbn in E. destruct (eval_cond oracle e st x) as [bx sx] eqn:Ex. destruct (eval_cond oracle e sx y) as [by_ sy] eqn:Ey.
      inversion E; subst. cbn [learn]. destruct (bx || by_) eqn:O.
      + destruct (eval_cond_pres _ _ _ _ Ex) as [P1 L1]. destruct (eval_cond_pres _ _ _ _ Ey) as [P2 L2].
        apply (R_same_vars fld a st); [congruence|congruence|exact HR].
      + apply orb_false_iff in O as [O1 O2]. subst. eapply IHy; [exact Ey|reflexivity|]. eapply IHx; [exact Ex|reflexivity|exact HR].
    - cbn in E. destruct (eval_cond oracle e st x) as [bx sx] eqn:Ex. destruct (eval_cond oracle e sx y) as [by_ sy] eqn:Ey.
      inversion E; subst. cbn [learn]. destruct (bx && by_) eqn:O.
      + apply andb_true_iff in O as [O1 O2]. subst. eapply IHy; [exact Ey|reflexivity|]. eapply IHx; [exact Ex|reflexivity|exact HR].
      + destruct (eval_cond_pres _ _ _ _ Ex) as [P1 L1]. destruct (eval_cond_pres _ _ _ _ Ey) as [P2 L2].
        apply (R_same_vars fld a st); [congruence|congruence|exact HR].
    - cbn in E. destruct (eval_cond oracle e st x) as [bx sx] eqn:Ex. inversion E; subst. cbn [learn].
      eapply IHx; [exact Ex| |exact HR]. rewrite negb_involutive. reflexivity.
    - cbn in E. inversion E; subst. cbn [learn]. apply (R_same_vars fld a st); [reflexivity|reflexivity|exact HR].
    - cbn in E. inversion E; subst. cbn [learn]. destruct (Nat.eqb (List.length (labelled e lbl)) n) eqn:L; [|exact HR].
      apply Nat.eqb_eq in L. destruct HR as [H1 H2 H3 H4 H5]. constructor; cbn; auto.
      intros l2 n2 [H|H]; [inversion H; subst; first [reflexivity|assumption]|apply H4; exact H].
  Qed.

  Lemma forall_nth {A} (P : A -> Prop) (l : list A) :
    (forall i, i < List.length l -> exists x, nth_error l i = Some x /\ P x) -> Forall P l.
  Proof.
    induction l as [|a r IH]; intros H; [constructor|]. constructor.
    - destruct (H 0) as (x & E & Px); [cbn; lia|]. cbn in E. inversion E; subst. exact Px.
    - apply IH. intros i Hi. destruct (H (S i)) as (x & E & Px); [cbn; lia|]. exists x. split; [exact E|exact Px].
  Qed.

  Lemma covered_sound a st : R None a st -> covered sg a = true -> Forall (fun x => rec x <> None) (sig_children sg e).
  Proof.
    intros HR C. unfold sig_children. unfold covered in C. rewrite forallb_forall in C.
    apply Forall_flat_map. apply Forall_forall. intros [lbl isl] Hin. specialize (C _ Hin). cbn in *. destruct isl.
    - apply orb_true_iff in C as [C|C].
      + apply existsb_exists in C as (l2 & Hin2 & E). apply String.eqb_eq in E. subst l2. apply (R_rng _ _ _ HR). exact Hin2.
      + destruct (assoc lbl (lens a)) as [n|] eqn:A; [|discriminate]. apply assoc_in in A.
        pose proof (R_len _ _ _ HR _ _ A) as Ln. rewrite forallb_forall in C. apply forall_nth. intros i Hi.
        assert (Hs : In i (seq 0 n)) by (apply in_seq; lia). specialize (C _ Hs). apply has_ref_in in C as (v & Hv).
        destruct (R_chk _ _ _ HR _ _ Hv) as (x & q & E & Q & _). cbn in E. exists x. split; [exact E|congruence].
    - apply has_ref_in in C as (v & Hv). destruct (R_chk _ _ _ HR _ _ Hv) as (x & q & E & Q & _). cbn in E.
      destruct (labelled e lbl) as [|y r]; [discriminate|]. cbn in E. inversion E; subst. cbn. constructor; [congruence|constructor].
  Qed.

  Lemma nonil_GP op subs : Forall good_slot subs -> nonil (GP op subs) = true.
  Proof.
    intros F. cbn. apply forallb_forall. intros s Hin. rewrite Forall_forall in F. destruct (F _ Hin) as (q & -> & N). exact N.
  Qed.

  Lemma ret_ok_sound fld in_loop a st r p :
    R fld a st -> ret_ok sg in_loop a r = true -> ret_eval rec e fld st r = Some p -> in_loop = false /\ fld = fld /\ (fld = None -> good_result p).
  Proof.
    intros HR OK EV. destruct r as [|op subs|c]; cbn in *; [discriminate| |].
    - apply andb_true_iff in OK as [OK C]. apply andb_true_iff in OK as [NL S]. apply negb_true_iff in NL.
      split; [exact NL|]. split; [reflexivity|]. intros ->. inversion EV; subst. split.
      + apply nonil_GP. apply Forall_flat_map. apply Forall_forall. intros s Hin. rewrite forallb_forall in S. specialize (S _ Hin).
        destruct s as [v|l]; cbn in *.
        * apply has_var_in in S as (c & Hc). destruct (R_chk _ _ _ HR _ _ Hc) as (x & q & _ & Q & G). constructor; [|constructor].
          exists q. split; [exact G|]. eapply rec_nonil. exact Q.
        * apply (R_lst _ _ _ HR).
      + eapply covered_sound; [exact HR|exact C].
    - apply andb_true_iff in OK as [NL S]. apply negb_true_iff in NL. split; [exact NL|]. split; [reflexivity|]. intros ->.
      destruct sg as [|[lbl [|]] [|? ?]] eqn:Esg; try discriminate. destruct c as [l2| |]; try discriminate. apply String.eqb_eq in S. subst l2.
      unfold good_result, sig_children. rewrite ?Esg. cbn [flat_map fst snd]. rewrite app_nil_r. cbn [cref_eval] in EV.
      destruct (labelled e lbl) as [|y r]; [discriminate|]. cbn [hd_error firstn] in *. split; [eapply rec_nonil; exact EV|].
      constructor; [congruence|constructor].
  Qed.

  (* facts about untouched variables survive an assignment *)
  Lemma a_rec_sound fld a st v c x : R fld a st -> cref_eval e fld c = Some x -> R fld (a_rec v c a) (set_pv st v (rec x)).
  Proof.
    intros [H1 H2 H3 H4 H5] E. constructor; cbn; intros.
    - apply in_drop in H as [Hin N]. destruct (H1 _ _ Hin) as (y & q & A & B & C). exists y, q. rewrite get_pv_set_other by exact N. auto.
    - destruct H as [H|H].
      + inversion H; subst. exists x. rewrite get_pv_set_same. auto.
      + apply in_drop in H as [Hin N]. destruct (H2 _ _ Hin) as (y & A & B). exists y. rewrite get_pv_set_other by exact N. auto.
    - apply H3. exact H.
    - apply H4. exact H.
    - apply H5.
  Qed.

  Lemma check_b_sound fld in_loop a st b a1 :
    R fld a st -> check_b sg in_loop a b = Some a1 ->
    match run_b rec oracle e fld st b with
    | Cont st1 => R fld a1 st1
    | Done None => True
    | Done (Some p) => in_loop = false /\ (fld = None -> good_result p)
    end.
  Proof.
    intros HR CK. destruct b as [v c|c r| |l v]; cbn in *.
    - inversion CK; subst. destruct (cref_eval e fld c) as [x|] eqn:E; [|exact I]. apply a_rec_sound; assumption.
    - destruct (ret_ok sg in_loop (learn true c a) r) eqn:OK; [|discriminate]. inversion CK; subst.
      destruct (eval_cond oracle e st c) as [x st1] eqn:E. destruct x.
      + destruct (ret_eval rec e fld st1 r) as [p|] eqn:EV; [|exact I].
        pose proof (learn_sound fld c true a st true st1 E eq_refl HR) as HR1.
        destruct (ret_ok_sound fld in_loop _ _ _ _ HR1 OK EV) as (A & _ & B). split; assumption.
      + exact (learn_sound fld c false a st false st1 E eq_refl HR).
    - inversion CK; subst. exact HR.
    - destruct (has_var v (chk a)) eqn:HV; [|discriminate]. inversion CK; subst. apply has_var_in in HV as (c & Hc).
      destruct HR as [H1 H2 H3 H4 H5]. destruct (H1 _ _ Hc) as (x & q & _ & Q & G). constructor; auto.
      intros l2. unfold get_lv, set_lv. cbn. destruct (String.eqb l l2) eqn:EL.
      + apply Forall_app. split; [apply H5|]. constructor; [|constructor]. exists q. split; [exact G|]. eapply rec_nonil. exact Q.
      + apply H5.
  Qed.

  Lemma check_bs_sound fld in_loop bs : forall a st a1,
    R fld a st -> check_bs sg in_loop a bs = Some a1 ->
    match run_bs rec oracle e fld st bs with
    | Cont st1 => R fld a1 st1
    | Done None => True
    | Done (Some p) => in_loop = false /\ (fld = None -> good_result p)
    end.
  Proof.
    induction bs as [|b r IH]; intros a st a1 HR CK; cbn in *.
    - inversion CK; subst. exact HR.
    - destruct (check_b sg in_loop a b) as [a2|] eqn:CB; [|discriminate].
      pose proof (check_b_sound fld in_loop a st b a2 HR CB) as S. destruct (run_b rec oracle e fld st b) as [x|st1].
      + exact S.
      + eapply IH; [exact S|exact CK].
  Qed.

  (* forgetting: the facts that are kept do not mention the assigned variables, so they hold in any state that agrees on
     the other variables and on the slices' invariant *)
  Definition agree_off (bs : list bstmt) (st st1 : pstate) : Prop :=
    forall v, (forall c, ~ In (BRec v c) bs) -> get_pv st1 v = get_pv st v.

  Lemma forget_facts bs : forall a,
    (forall v c, In (v, c) (chk (forget bs a)) -> In (v, c) (chk a) /\ forall c2, ~ In (BRec v c2) bs) /\
    (forall v c, In (v, c) (unk (forget bs a)) -> In (v, c) (unk a) /\ forall c2, ~ In (BRec v c2) bs) /\
    ranged (forget bs a) = ranged a /\ lens (forget bs a) = lens a.
  Proof.
    induction bs as [|b r IH]; intros a; cbn.
    - repeat split; auto.
    - destruct b as [w cw|c0 r0| |l0 v0].
      + destruct (IH (AS (drop w (chk a)) (drop w (unk a)) (ranged a) (lens a))) as (A & B & C & D). cbn in *. repeat split.
        * destruct (A _ _ H) as [Hin _]. apply in_drop in Hin as [Hin _]. exact Hin.
        * intros c2 [E|Hin2]; [inversion E; subst; destruct (A _ _ H) as [Hin _]; apply in_drop in Hin as [_ N]; congruence|].
          destruct (A _ _ H) as [_ N]. exact (N _ Hin2).
        * destruct (B _ _ H) as [Hin _]. apply in_drop in Hin as [Hin _]. exact Hin.
        * intros c2 [E|Hin2]; [inversion E; subst; destruct (B _ _ H) as [Hin _]; apply in_drop in Hin as [_ N]; congruence|].
          destruct (B _ _ H) as [_ N]. exact (N _ Hin2).
        * exact C.
        * exact D.
      + destruct (IH a) as (A & B & C & D). repeat split; auto.
        * destruct (A _ _ H) as [Hin _]. exact Hin.
        * intros c2 [E|Hin2]; [discriminate|]. destruct (A _ _ H) as [_ N]. exact (N _ Hin2).
        * destruct (B _ _ H) as [Hin _]. exact Hin.
        * intros c2 [E|Hin2]; [discriminate|]. destruct (B _ _ H) as [_ N]. exact (N _ Hin2).
      + destruct (IH a) as (A & B & C & D). repeat split; auto.
        * destruct (A _ _ H) as [Hin _]. exact Hin.
        * intros c2 [E|Hin2]; [discriminate|]. destruct (A _ _ H) as [_ N]. exact (N _ Hin2).
        * destruct (B _ _ H) as [Hin _]. exact Hin.
        * intros c2 [E|Hin2]; [discriminate|]. destruct (B _ _ H) as [_ N]. exact (N _ Hin2).
      + destruct (IH a) as (A & B & C & D). repeat split; auto.
        * destruct (A _ _ H) as [Hin _]. exact Hin.
        * intros c2 [E|Hin2]; [discriminate|]. destruct (A _ _ H) as [_ N]. exact (N _ Hin2).
        * destruct (B _ _ H) as [Hin _]. exact Hin.
        * intros c2 [E|Hin2]; [discriminate|]. destruct (B _ _ H) as [_ N]. exact (N _ Hin2).
  Qed.

  (* a fact that holds outside a loop does not mention the loop's field, so it holds for any field *)
  Lemma R_fld_irrelevant fld a st : R None a st -> R fld a st.
  Proof.
    intros [H1 H2 H3 H4 H5]. constructor; intros; auto.
    - destruct (H1 _ _ H) as (x & q & E & Q & G). exists x, q. split; [|auto]. destruct c; cbn in *; [exact E|discriminate|exact E].
    - destruct (H2 _ _ H) as (x & E & G). exists x. split; [|auto]. destruct c; cbn in *; [exact E|discriminate|exact E].
  Qed.

  Lemma R_drop_fld fld a st : R fld a st ->
    (forall v c, In (v, c) (chk a) -> c <> CField) -> (forall v c, In (v, c) (unk a) -> c <> CField) -> R None a st.
  Proof.
    intros [H1 H2 H3 H4 H5] NC NU. constructor; intros; auto.
    - destruct (H1 _ _ H) as (x & q & E & Q & G). exists x, q. split; [|auto]. specialize (NC _ _ H). destruct c; cbn in *; [exact E|congruence|exact E].
    - destruct (H2 _ _ H) as (x & E & G). exists x. split; [|auto]. specialize (NU _ _ H). destruct c; cbn in *; [exact E|congruence|exact E].
  Qed.

  (* the facts do not mention the variables a block assigns *)
  Definition clean (bs : list bstmt) (a : astate) : Prop :=
    (forall v c, In (v, c) (chk a) -> forall c2, ~ In (BRec v c2) bs) /\ (forall v c, In (v, c) (unk a) -> forall c2, ~ In (BRec v c2) bs).

  Lemma forget_clean bs a : clean bs (forget bs a).
  Proof. destruct (forget_facts bs a) as (A & B & _ & _). split; intros v c H; [apply (A _ _ H)|apply (B _ _ H)]. Qed.

  Lemma forget_weak fld bs a st : R fld a st -> R fld (forget bs a) st.
  Proof.
    intros [H1 H2 H3 H4 H5]. destruct (forget_facts bs a) as (A & B & C & D). constructor; intros; auto.
    - apply H1. apply (A _ _ H).
    - apply H2. apply (B _ _ H).
    - rewrite C in H. apply H3. exact H.
    - rewrite D in H. apply H4. exact H.
  Qed.

  Lemma R_transfer fld bs a st st1 :
    R fld a st -> clean bs a -> agree_off bs st st1 -> (forall l, Forall good_slot (get_lv st1 l)) -> R fld a st1.
  Proof.
    intros [H1 H2 H3 H4 H5] [CC CU] AG LS. constructor; intros; auto.
    - destruct (H1 _ _ H) as (x & q & E & Q & G). exists x, q. rewrite (AG v (CC _ _ H)). auto.
    - destruct (H2 _ _ H) as (x & E & G). exists x. rewrite (AG v (CU _ _ H)). auto.
  Qed.

  (* running basic statements changes only the variables they assign *)
  Lemma run_b_agree fld st b st1 : run_b rec oracle e fld st b = Cont st1 -> agree_off [b] st st1.
  Proof.
    destruct b as [v c|c r| |l v]; cbn.
    - destruct (cref_eval e fld c); [|discriminate]. intros H. inversion H; subst. intros w N. apply get_pv_set_other.
      intros ->. apply (N c). left. reflexivity.
    - destruct (eval_cond oracle e st c) as [x s1] eqn:E. destruct x; [discriminate|]. intros H. inversion H; subst.
      destruct (eval_cond_pres _ _ _ _ E) as [P _]. intros w _. unfold get_pv. rewrite P. reflexivity.
    - intros H. inversion H; subst. intros w _. reflexivity.
    - intros H. inversion H; subst. intros w _. reflexivity.
  Qed.

  Lemma run_bs_agree fld bs : forall st st1, run_bs rec oracle e fld st bs = Cont st1 -> agree_off bs st st1.
  Proof.
    induction bs as [|b r IH]; intros st st1; cbn.
    - intros H. inversion H; subst. intros w _. reflexivity.
    - destruct (run_b rec oracle e fld st b) as [x|s1] eqn:E; [discriminate|]. intros H.
      pose proof (run_b_agree _ _ _ _ E) as A1. pose proof (IH _ _ H) as A2. intros w N.
      rewrite A2 by (intros c Hin; apply (N c); right; exact Hin). apply A1. intros c [Hc|[]]. apply (N c). left. exact Hc.
  Qed.

  Lemma agree_refl bs st : agree_off bs st st.
  Proof. intros v _. reflexivity. Qed.

  Lemma agree_trans bs st st1 st2 : agree_off bs st st1 -> agree_off bs st1 st2 -> agree_off bs st st2.
  Proof. intros A B v N. rewrite (B v N). apply A. exact N. Qed.

  Lemma agree_cond bs c st b st1 : eval_cond oracle e st c = (b, st1) -> agree_off bs st st1.
  Proof. intros E. destruct (eval_cond_pres _ _ _ _ E) as [P _]. intros v _. unfold get_pv. rewrite P. reflexivity. Qed.

  (* a loop: one iteration after the other; it never returns a pattern, and when it runs to its end every field was parsed
     and found non-nil *)
  Lemma run_range_sound body a0 a1 :
    check_bs sg true a0 body = Some a1 -> has_ref CField (chk a1) = true -> clean body a0 ->
    forall fields st, R None a0 st ->
    match run_range rec oracle e body fields st with
    | Cont st1 => R None a0 st1 /\ Forall (fun x => rec x <> None) fields /\ agree_off body st st1
    | Done None => True
    | Done (Some _) => False
    end.
  Proof.
    intros CK HF CL. induction fields as [|f r IH]; intros st HR; cbn.
    - split; [exact HR|]. split; [constructor|apply agree_refl].
    - pose proof (check_bs_sound (Some f) true body a0 st a1 (R_fld_irrelevant (Some f) a0 st HR) CK) as S.
      destruct (run_bs rec oracle e (Some f) st body) as [[p|]|st1] eqn:E.
      + destruct S as [S _]. discriminate.
      + exact I.
      + pose proof HF as HF2. apply has_ref_in in HF2 as (v & Hv). destruct (R_chk _ _ _ S _ _ Hv) as (x & q & Ex & Q & _).
        cbn in Ex. inversion Ex; subst x.
        pose proof (run_bs_agree _ _ _ _ E) as AG.
        assert (HR1 : R None a0 st1) by (eapply R_transfer; [exact HR|exact CL|exact AG|apply (R_lst _ _ _ S)]).
        specialize (IH st1 HR1).
        destruct (run_range rec oracle e body r st1) as [[p|]|st2]; auto.
        destruct IH as (A & B & C). split; [exact A|]. split; [constructor; [congruence|exact B]|eapply agree_trans; eassumption].
  Qed.

  Lemma check_p_sound a st p a1 :
    R None a st -> check_p sg a p = Some a1 ->
    match run_p rec oracle e st p with
    | Cont st1 => R None a1 st1
    | Done None => True
    | Done (Some q) => good_result q
    end.
  Proof.
    intros HR CK. destruct p as [b|lbl body|c body r|r]; cbn in *.
    - pose proof (check_b_sound None false a st b a1 HR CK) as S. destruct (run_b rec oracle e None st b) as [[q|]|st1]; auto.
      destruct S as [_ S]. apply S. reflexivity.
    - destruct (check_bs sg true (forget body a) body) as [a2|] eqn:CB; [|discriminate].
      destruct (has_ref CField (chk a2)) eqn:HF; [|discriminate]. inversion CK; subst.
      pose proof (run_range_sound body (forget body a) a2 CB HF (forget_clean body a) (labelled e lbl) st (forget_weak None body a st HR)) as S.
      destruct (run_range rec oracle e body (labelled e lbl) st) as [[q|]|st1]; auto; [destruct S|].
      destruct S as ([H1 H2 H3 H4 H5] & F & _). constructor; cbn; auto.
      intros l2 [<-|Hin]; [exact F|apply H3; exact Hin].
    - destruct (check_bs sg false (learn true c a) body) as [a2|] eqn:CB; [|discriminate].
      destruct (eval_cond oracle e st c) as [x st1] eqn:E. destruct x.
      + pose proof (learn_sound None c true a st true st1 E eq_refl HR) as HR1.
        pose proof (check_bs_sound None false body _ st1 a2 HR1 CB) as S.
        destruct (run_bs rec oracle e None st1 body) as [[q|]|st2] eqn:RB.
        * destruct S as [_ S]. apply S. reflexivity.
        * exact I.
        * destruct r as [r|].
          -- destruct (ret_ok sg false a2 r) eqn:OK; [|discriminate].
             destruct (ret_eval rec e None st2 r) as [q|] eqn:EV; [|exact I].
             destruct (ret_ok_sound None false a2 st2 r q S OK EV) as (_ & _ & G). apply G. reflexivity.
          -- inversion CK; subst. eapply R_transfer; [apply forget_weak; exact HR|apply forget_clean| |apply (R_lst _ _ _ S)].
             eapply agree_trans; [eapply agree_cond; exact E|eapply run_bs_agree; exact RB].
      + destruct r as [r|].
        * destruct (check_bs sg false (learn true c a) body); [|discriminate]. inversion CB; subst.
          destruct (ret_ok sg false a2 r); [|discriminate]. inversion CK; subst.
          exact (learn_sound None c false a st false st1 E eq_refl HR).
        * inversion CK; subst. eapply R_transfer; [apply forget_weak; exact HR|apply forget_clean|eapply agree_cond; exact E|].
          apply (R_lst _ _ _ (learn_sound None c false a st false st1 E eq_refl HR)).
    - destruct (ret_ok sg false a r) eqn:OK; [|discriminate]. destruct (ret_eval rec e None st r) as [q|] eqn:EV; [|exact I].
      destruct (ret_ok_sound None false a st r q HR OK EV) as (_ & _ & G). apply G. reflexivity.
  Qed.

  Lemma check_ps_sound ps : forall a st a1,
    R None a st -> check_ps sg a ps = Some a1 ->
    match run_ps rec oracle e st ps with
    | Cont st1 => R None a1 st1
    | Done None => True
    | Done (Some q) => good_result q
    end.
  Proof.
    induction ps as [|p r IH]; intros a st a1 HR CK; cbn in *.
    - inversion CK; subst. exact HR.
    - destruct (check_p sg a p) as [a2|] eqn:CP; [|discriminate]. pose proof (check_p_sound a st p a2 HR CP) as S.
      destruct (run_p rec oracle e st p) as [x|st1]; [exact S|]. eapply IH; [exact S|exact CK].
  Qed.

  (* THE CLAUSE THEOREM: a clause that passes the checker returns a pattern only when every recursive call on every type
     child of the node returned non-nil; what it builds stores no nil sub-pattern (given that the sub-patterns store none) *)
  Theorem clause_ok_sound body p : clause_ok sg body = true -> run_clause rec oracle e body = Some p -> good_result p.
  Proof.
    unfold clause_ok, run_clause. destruct (check_ps sg (AS [] [] [] []) body) as [a1|] eqn:CK; [|discriminate]. intros _.
    assert (HR : R None (AS [] [] [] []) (PS [] [] 0)) by (constructor; cbn; intros; try contradiction; constructor).
    pose proof (check_ps_sound body _ _ a1 HR CK) as S. destruct (run_ps rec oracle e (PS [] [] 0) body) as [[q|]|st1]; try discriminate.
    intros H. inversion H; subst. exact S.
  Qed.
End Sound.

(* ---------------------------------------------------------------- the whole parser: clauses applied recursively *)
(* the type-valued fields of the go/ast nodes parseExpr has clauses for (go/ast's own definition of these nodes) *)
Definition ast_sig (kind : string) : nsig :=
  if String.eqb kind "StarExpr" then [("X", false)]
  else if String.eqb kind "ArrayType" then [("Elt", false)]
  else if String.eqb kind "MapType" then [("Key", false); ("Value", false)]
  else if String.eqb kind "ChanType" then [("Value", false)]
  else if String.eqb kind "ParenExpr" then [("X", false)]
  else if String.eqb kind "FuncType" then [("Params", true); ("Results", true)]
  else if String.eqb kind "StructType" then [("Fields", true)]
  else if String.eqb kind "InterfaceType" then [("Methods", true)]
  else [].

Definition type_children (e : texpr) : list texpr := sig_children (ast_sig (te_kind e)) e.

Definition clauses_ok (clauses : list (string * list pstmt)) : bool :=
  forallb (fun kc => negb (String.eqb (fst kc) "SelectorExpr") && clause_ok (ast_sig (fst kc)) (snd kc)) clauses.

Section Parse.
  Variable clauses : list (string * list pstmt).           (* node kind -> its clause; kinds without a clause: nil *)
  Variable sel : (string -> option string) -> texpr -> option gpat.   (* the clause for *ast.SelectorExpr, the resolver itself *)
  Variable lk : string -> option string.                    (* ImportsTab.Lookup *)
  Variable orc : texpr -> nat -> bool.                      (* the answers of a node's opaque conditions *)

  Fixpoint parse_fuel (n : nat) (e : texpr) : option gpat :=
    match n with
    | O => None
    | S m => if String.eqb (te_kind e) "SelectorExpr" then sel lk e
             else match assoc (te_kind e) clauses with
                  | Some body => run_clause (parse_fuel m) (orc e) e body
                  | None => None
                  end
    end.

  (* `pkg.T` whose package name the table does not bind (unsafe.Pointer is not a qualified name) *)
  Definition unbound_selector (e : texpr) : Prop :=
    te_kind e = "SelectorExpr" /\ exists x, hd_error (labelled e "X") = Some x /\ te_kind x = "Ident" /\ lk (te_text x) = None /\
    ~ (te_text x = "unsafe" /\ te_text e = "Pointer").

  (* ... at any depth *)
  Inductive unbound_in : texpr -> Prop :=
  | U_here e : unbound_selector e -> unbound_in e
  | U_child e c : te_kind e <> "SelectorExpr" -> In c (type_children e) -> unbound_in c -> unbound_in e.

  Hypothesis clauses_pass : clauses_ok clauses = true.
  Hypothesis sel_unbound : forall e, unbound_selector e -> sel lk e = None.
  Hypothesis sel_nonil : forall e p, sel lk e = Some p -> nonil p = true.

  Lemma clause_of kind body : assoc kind clauses = Some body -> clause_ok (ast_sig kind) body = true.
  Proof.
    intros A. apply assoc_in in A. unfold clauses_ok in clauses_pass. rewrite forallb_forall in clauses_pass.
    specialize (clauses_pass _ A). cbn in clauses_pass. apply andb_true_iff in clauses_pass as [_ C]. exact C.
  Qed.

  (* no parsed pattern stores a nil sub-pattern (what Run would dereference) *)
  Theorem parsed_patterns_store_no_nil n : forall e p, parse_fuel n e = Some p -> nonil p = true.
  Proof.
    induction n as [|m IH]; intros e p; cbn; [discriminate|].
    destruct (String.eqb (te_kind e) "SelectorExpr"); [apply sel_nonil|].
    destruct (assoc (te_kind e) clauses) as [body|] eqn:A; [|discriminate]. intros H.
    destruct (clause_ok_sound (parse_fuel m) (orc e) e (ast_sig (te_kind e)) IH body p (clause_of _ _ A) H) as [N _]. exact N.
  Qed.

  (* THE THEOREM: a qualified name whose package is not bound, in whatever position and at whatever depth, makes the whole
     type string unparsable, for every behaviour of the conditions the nil flow does not depend on *)
  Theorem unbound_name_is_unparsable e : unbound_in e -> forall n, parse_fuel n e = None.
  Proof.
    induction 1 as [e U|e c K Hin U IH]; intros [|m]; cbn; try reflexivity.
    - destruct U as [K U]. rewrite K. cbn. apply sel_unbound. split; assumption.
    - destruct (String.eqb (te_kind e) "SelectorExpr") eqn:E; [apply String.eqb_eq in E; contradiction|].
      destruct (assoc (te_kind e) clauses) as [body|] eqn:A; [|reflexivity].
      destruct (run_clause (parse_fuel m) (orc e) e body) as [p|] eqn:RC; [|reflexivity].
      destruct (clause_ok_sound (parse_fuel m) (orc e) e (ast_sig (te_kind e)) (parsed_patterns_store_no_nil m) body p (clause_of _ _ A) RC) as [_ F].
      rewrite Forall_forall in F. specialize (F c Hin). rewrite (IH m) in F. contradiction.
  Qed.
End Parse.

(* `pkg.T` occurs in a type expression, at any depth *)
Definition qualified (pkg name : string) : texpr := TE "SelectorExpr" name [("X", TE "Ident" pkg [])].

Inductive has_qname : texpr -> string -> string -> Prop :=
| Q_here e x : te_kind e = "SelectorExpr" -> hd_error (labelled e "X") = Some x -> te_kind x = "Ident" -> has_qname e (te_text x) (te_text e)
| Q_child e c pkg name : te_kind e <> "SelectorExpr" -> In c (type_children e) -> has_qname c pkg name -> has_qname e pkg name.

Lemma Q_qualified pkg name : has_qname (qualified pkg name) pkg name.
Proof. apply (Q_here (qualified pkg name) (TE "Ident" pkg [])); reflexivity. Qed.

Lemma has_qname_unbound lk e pkg name :
  has_qname e pkg name -> lk pkg = None -> ~ (pkg = "unsafe" /\ name = "Pointer") -> unbound_in lk e.
Proof.
  induction 1 as [e x K HX KX|e c pkg name K Hin H IH]; intros L NU.
  - apply U_here. split; [exact K|]. exists x. repeat split; assumption.
  - eapply U_child; [exact K|exact Hin|]. apply IH; assumption.
Qed.

(* ---------------------------------------------------------------- examples: the checker accepts the sound shape and rejects
   the ways a clause can lose a nil *)
Definition ex_map_ok : list pstmt :=
  [PB (BRec "keyType" (CKid "Key")); PB (BIf (CNil "keyType") RNil); PB (BRec "valType" (CKid "Value")); PB (BIf (CNil "valType") RNil);
   PRet (RPat "opMap" [SVar "keyType"; SVar "valType"])].
(* `if keyType == nil && valType == nil { return nil }` *)
Definition ex_map_and : list pstmt :=
  [PB (BRec "keyType" (CKid "Key")); PB (BRec "valType" (CKid "Value")); PB (BIf (CAnd (CNil "keyType") (CNil "valType")) RNil);
   PRet (RPat "opMap" [SVar "keyType"; SVar "valType"])].
(* the key is never parsed *)
Definition ex_map_skips_key : list pstmt :=
  [PB (BRec "valType" (CKid "Value")); PB (BIf (CNil "valType") RNil); PRet (RPat "opMap" [SVar "valType"])].
Definition ex_struct_ok : list pstmt :=
  [PRange "Fields" [BRec "p" CField; BIf (CNil "p") RNil; BIf COpaque RNil; BSkip; BAppend "members" "p"]; PRet (RPat "opStruct" [SList "members"])].
(* the nil test comes after the append *)
Definition ex_struct_late : list pstmt :=
  [PRange "Fields" [BRec "p" CField; BAppend "members" "p"; BIf (CNil "p") RNil]; PRet (RPat "opStruct" [SList "members"])].

Example checker_examples :
  clause_ok (ast_sig "MapType") ex_map_ok = true /\ clause_ok (ast_sig "MapType") ex_map_and = false /\
  clause_ok (ast_sig "MapType") ex_map_skips_key = false /\ clause_ok (ast_sig "StructType") ex_struct_ok = true /\
  clause_ok (ast_sig "StructType") ex_struct_late = false /\
  clause_ok (ast_sig "MapType") [PB (BRec "k" (CKid "Key")); PB (BIf (COr (CNil "k") COpaque) RNil); PB (BRec "v" (CKid "Value"));
                                 PB (BIf (CNot (CNot (CNil "v"))) RNil); PRet (RPat "opMap" [SVar "k"; SVar "v"])] = true.
Proof. vm_compute. repeat split; reflexivity. Qed.

(* the semantics shows what the rejected clause does: a pattern with a nil inside *)
Example and_clause_stores_nil :
  run_clause (fun x => if String.eqb (te_text x) "string" then Some (GP "opBuiltinType" []) else None) (fun _ => false)
             (TE "MapType" "" [("Key", TE "Ident" "string" []); ("Value", TE "SelectorExpr" "T" [("X", TE "Ident" "nosuchpkg" [])])]) ex_map_and
  = Some (GP "opMap" [Some (GP "opBuiltinType" []); None]).
Proof. vm_compute. reflexivity. Qed.
