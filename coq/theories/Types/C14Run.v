(* C14: helpers for evaluating the model on the harness' observations (matrices arrive as rows of '0'/'1'). *)
From Coq Require Import List ZArith NArith Bool String Ascii.
From RG.Types Require Import GType XIdentical.
Import ListNotations.
Local Open Scope string_scope.

Fixpoint bits (s : string) : list bool :=
  match s with EmptyString => [] | String c r => Ascii.eqb c "1"%char :: bits r end.

Fixpoint enum_from {A} (i : nat) (l : list A) : list (nat * A) :=
  match l with [] => [] | x :: r => (i, x) :: enum_from (S i) r end.

(* index pairs (i, j) where f (ps_i) (qs_j) differs from the observed bit *)
Definition mismatches {A B} (f : A -> B -> bool) (ps : list A) (qs : list B) (rows : list string) : list (nat * nat) :=
  List.concat (map (fun ir => let '(i, (p, row)) := ir in
                 map (fun jq => (i, fst jq))
                     (filter (fun jq => let '(j, (q, b)) := jq in negb (Bool.eqb (f p q) b)) (enum_from 0 (combine qs (bits row)))))
              (enum_from 0 (combine ps rows))).

Definition bad_indices {A} (f : A -> bool) (ps : list A) : list nat :=
  map fst (filter (fun ip => negb (f (snd ip))) (enum_from 0 ps)).

(* methods (Id, signature) of an interface term *)
Definition iface_methods (t : gtype) : list (string * gtype) :=
  match t with T (HInterface ids) sigs => combine ids sigs | _ => [] end.

Fixpoint assoc_lookup (tbl : list (string * lookup_res)) (id : string) : lookup_res :=
  match tbl with [] => LNone | (k, v) :: r => if String.eqb k id then v else assoc_lookup r id end.

(* one value: is its underlying type an interface, and what LookupFieldOrMethod returned per method id *)
Definition impl_model (ids : list string) (v : bool * list lookup_res) (iface : gtype) : bool :=
  implements_x (fst v) (assoc_lookup (combine ids (snd v))) (iface_methods iface).

(* Rows may arrive packed, four cells per hexadecimal digit (first cell = most significant bit; the last digit is padded with
   zeros, which `combine` drops): a Coq string literal costs its length to read. *)
Definition hex_bits (c : ascii) : string :=
  if Ascii.eqb c "0" then "0000" else if Ascii.eqb c "1" then "0001" else if Ascii.eqb c "2" then "0010" else
  if Ascii.eqb c "3" then "0011" else if Ascii.eqb c "4" then "0100" else if Ascii.eqb c "5" then "0101" else
  if Ascii.eqb c "6" then "0110" else if Ascii.eqb c "7" then "0111" else if Ascii.eqb c "8" then "1000" else
  if Ascii.eqb c "9" then "1001" else if Ascii.eqb c "a" then "1010" else if Ascii.eqb c "b" then "1011" else
  if Ascii.eqb c "c" then "1100" else if Ascii.eqb c "d" then "1101" else if Ascii.eqb c "e" then "1110" else "1111".
Fixpoint unhex (s : string) : string :=
  match s with EmptyString => EmptyString | String c r => hex_bits c ++ unhex r end.

Example unhex_example : unhex "a05f" = "1010000001011111".
Proof. reflexivity. Qed.
