(* C14: helpers for evaluating the model on the harness' observations (matrices arrive as rows of '0'/'1'). *)
From Coq Require Import List ZArith NArith Bool String Ascii.
From RG.Types Require Import GType XIdentical.
Import ListNotations.
Local Open Scope string_scope.

Fixpoint bits (s : string) : list bool :=
  match s with EmptyString => [] | String c r => Ascii.eqb c "1"%char :: bits r end.

Fixpoint enum_from {A} (i : nat) (l : list A) : list (nat * A) :=
  match l with [] => [] | x :: r => (i, x) :: enum_from (S i) r end.

(* index pairs (i, j) where f (ps_i) (qs_j) differs from the observed bit *)
Definition mismatches {A B} (f : A -> B -> bool) (ps : list A) (qs : list B) (rows : list string) : list (nat * nat) :=
  List.concat (map (fun ir => let '(i, (p, row)) := ir in
                 map (fun jq => (i, fst jq))
                     (filter (fun jq => let '(j, (q, b)) := jq in negb (Bool.eqb (f p q) b)) (enum_from 0 (combine qs (bits row)))))
              (enum_from 0 (combine ps rows))).

Definition bad_indices {A} (f : A -> bool) (ps : list A) : list nat :=
  map fst (filter (fun ip => negb (f (snd ip))) (enum_from 0 ps)).

(* methods (Id, signature) of an interface term *)
Definition iface_methods (t : gtype) : list (string * gtype) :=
  match t with T (HInterface ids) sigs => combine ids sigs | _ => [] end.

Fixpoint assoc_lookup (tbl : list (string * lookup_res)) (id : string) : lookup_res :=
  match tbl with [] => LNone | (k, v) :: r => if String.eqb k id then v else assoc_lookup r id end.

(* one value: is its underlying type an interface, and what LookupFieldOrMethod returned per method id *)
Definition impl_model (ids : list string) (v : bool * list lookup_res) (iface : gtype) : bool :=
  implements_x (fst v) (assoc_lookup (combine ids (snd v))) (iface_methods iface).
