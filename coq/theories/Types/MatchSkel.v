(* C10: the CONTROL SKELETON of typematch's matcher, as go2coq reads it from the source, and its meaning.

   matchIdentical is written in continuation-passing style. What makes it complete (a `$*_` run deep inside the first component of a
   constructor is revisited when a later component rejects the binding) is a property of how every case hands its continuation on:
   the recursive call for a component gets, as ITS continuation, the rest of the clause followed by the clause's own continuation `k`.
   A case that matches a component with a finished continuation (`matchDone`) and looks at the next one afterwards (`a && b`)
   commits the first alternative.

   go2coq c10tables translates the `case` clauses of Pattern.matchIdentical that consist of type assertion, local definitions,
   rejecting guards and ONE return expression into terms of `clause` below; `clause_sem` gives them their meaning in terms of the
   model's own matcher for the components (match_k / list_k), so that Inst_C10.v can prove, per constructor, that the model's case IS
   the translated clause -- for all sub-patterns, component types, states and continuations. *)
From Coq Require Import List ZArith NArith Bool String Lia.
From RG.Types Require Import GType TypePat.
Import ListNotations.
Local Open Scope string_scope.

(* continuation expressions *)
Inductive kx :=
| KVar                                   (* the enclosing function's own continuation parameter `k` *)
| KDone                                  (* matchDone *)
| KLam (body : mx)                       (* func() bool { return <body> } *)
(* boolean expressions of a return statement *)
with mx :=
| MRec (sub comp : string) (k : kx)      (* p.matchIdentical(state, <sub>, <comp>, K) *)
| MList (subs fielder : string) (k : kx) (* p.matchIdenticalFielder(state, <subs>, <fielder>, 0, K) *)
| MListAt (subs fielder from : string) (k : kx) (* the same from another index (only inside matchIdenticalFielder itself) *)
| MAnd (guard : string) (rest : mx)      (* <guard> && <rest>; the guard contains no call of the matcher or of a continuation *)
| MSeq (a b : mx)                        (* <a> && <b> where <a> calls the matcher / a continuation *)
| MCallK (k : kx)                        (* K() *)
| MConst (b : bool).

Record clause := Clause {
  cl_assert : string;                    (* `typ, ok := typ.(<T>)` followed by `if !ok { return false }`; "" when there is none *)
  cl_lets : list (string * string);      (* name := expression (no call of the matcher) *)
  cl_rejects : list string;              (* if <guard> { return false } *)
  cl_ret : mx                            (* return <expression> *)
}.

(* what the names of a clause stand for *)
Record env := Env {
  e_sub : string -> option tpat;           (* sub-pattern expressions: sub.subs[0] ... *)
  e_subs : string -> option (list tpat);   (* sub-pattern lists: params, results, sub.subs *)
  e_comp : string -> option gtype;         (* component types: typ.Elem(), typ.Key() ... *)
  e_comps : string -> option (list gtype); (* component lists behind a fielder: the parameter / result / field types *)
  e_guard : string -> option bool          (* call-free boolean expressions *)
}.

Section Sem.
  Variable ident : gtype -> gtype -> bool.

  Fixpoint sem_m (e : env) (m : mx) (st : mstate) (k : cont) {struct m} : bool :=
    match m with
    | MRec s c kk =>
      match e_sub e s, e_comp e c with
      | Some p, Some t => match_k ident p t st (sem_k e kk k)
      | _, _ => false
      end
    | MList s f kk =>
      match e_subs e s, e_comps e f with
      | Some ps, Some ts => list_k (match_k ident) ps ts st (sem_k e kk k)
      | _, _ => false
      end
    | MListAt _ _ _ _ => false
    | MAnd g r => match e_guard e g with Some b => b && sem_m e r st k | None => false end
    | MSeq a b => sem_m e a st k && sem_m e b st k
    | MCallK kk => sem_k e kk k st
    | MConst b => b
    end
  with sem_k (e : env) (kk : kx) (k : cont) {struct kk} : cont :=
    match kk with
    | KVar => k
    | KDone => fun _ => true
    | KLam b => fun st => sem_m e b st k
    end.

  Definition clause_sem (e : env) (c : clause) (st : mstate) (k : cont) : bool :=
    if existsb (fun g => match e_guard e g with Some b => b | None => true end) (cl_rejects c) then false
    else sem_m e (cl_ret c) st k.

  (* every name the clause uses is known to the environment (otherwise sem_m answers false by default) *)
  Fixpoint scoped_m (e : env) (m : mx) : bool :=
    match m with
    | MRec s c kk => match e_sub e s, e_comp e c with Some _, Some _ => scoped_k e kk | _, _ => false end
    | MList s f kk => match e_subs e s, e_comps e f with Some _, Some _ => scoped_k e kk | _, _ => false end
    | MListAt _ _ _ _ => false
    | MAnd g r => match e_guard e g with Some _ => scoped_m e r | None => false end
    | MSeq a b => scoped_m e a && scoped_m e b
    | MCallK kk => scoped_k e kk
    | MConst _ => true
    end
  with scoped_k (e : env) (kk : kx) : bool :=
    match kk with KVar | KDone => true | KLam b => scoped_m e b end.

  Definition clause_scoped (e : env) (c : clause) : bool :=
    forallb (fun g => match e_guard e g with Some _ => true | None => false end) (cl_rejects c) && scoped_m e (cl_ret c).
End Sem.

(* the continuation discipline as a syntactic property: every continuation handed to the matcher ends in the clause's own `k`,
   and nothing is evaluated after a call of the matcher except through its continuation *)
Fixpoint threads_m (m : mx) : bool :=
  match m with
  | MRec _ _ kk | MList _ _ kk | MListAt _ _ _ kk | MCallK kk => threads_k kk
  | MAnd _ r => threads_m r
  | MSeq _ _ => false
  | MConst _ => true
  end
with threads_k (kk : kx) : bool :=
  match kk with KVar => true | KDone => false | KLam b => threads_m b end.

Definition names (l : list (string * string)) : list string := map fst l.
Definition lookup_s {A} (tbl : list (string * A)) (x : string) : option A :=
  match find (fun e => String.eqb (fst e) x) tbl with Some (_, v) => Some v | None => None end.

(* ---------------------------------------------------------------- matchIdenticalFielder, as written in Go: index based, with the
   `for next := from; next <= f.NumFields(); next++` loop of the `$*_` case. `fielder_go` is that function over a list of field
   types and an index (fuel = number of remaining fields + 1 for the loop, structural on the pattern list for the recursion). *)
Section Fielder.
  Variable m : tpat -> gtype -> mstate -> cont -> bool.

  (* the loop: tries next = from, from+1, ... , NumFields; `rest` is the call p.matchIdenticalFielder(state, subs[1:], f, next, k) *)
  Fixpoint seq_loop (rest : nat -> bool) (next : nat) (fuel : nat) : bool :=
    match fuel with
    | O => false
    | S fuel' => rest next || seq_loop rest (S next) fuel'
    end.

  Fixpoint fielder_go (subs : list tpat) (fs : list gtype) (from : nat) (st : mstate) (k : cont) {struct subs} : bool :=
    match subs with
    | [] => Nat.eqb from (List.length fs) && k st
    | pat :: subs' =>
      if is_seq pat then
        seq_loop (fun next => fielder_go subs' fs next st k) from (S (List.length fs - from))
      else if Nat.eqb from (List.length fs) then false
      else match nth_error fs from with
           | Some t => m pat t st (fun st' => fielder_go subs' fs (S from) st' k)
           | None => false
           end
    end.
End Fielder.

(* matchers do not look INTO their continuation: equal answers of the continuations give equal answers *)
Definition kext (f : mstate -> cont -> bool) : Prop := forall st k k', (forall s, k s = k' s) -> f st k = f st k'.

Section KExt.
  Variable ident : gtype -> gtype -> bool.
  Definition kext_at (p : tpat) : Prop := forall t, kext (match_k ident p t).

  Lemma list_k_kext ps : Forall kext_at ps -> forall ts, kext (list_k (match_k ident) ps ts).
  Proof.
    induction ps as [|q ps IH]; intros HF ts st k k' E; cbn [list_k].
    - destruct ts; [apply E|reflexivity].
    - inversion HF as [|? ? Hq Hps]; subst. specialize (IH Hps). destruct (is_seq q).
      + induction ts as [|t1 ts' IHts].
        * rewrite (IH [] st k k' E). reflexivity.
        * rewrite (IH (t1 :: ts') st k k' E). f_equal. exact IHts.
      + destruct ts as [|t1 ts']; [reflexivity|]. apply Hq. intros s. apply IH. exact E.
  Qed.

  Lemma match_k_kext p : kext_at p.
  Proof.
    induction p as [b|x| |q IHp|q IHp|n q IHp|x q IHp|a b IHp1 IHp2|d q IHp|ps rs Hps Hrs|fs Hfs| |path name] using tpat_ind';
      intros t0 st k k' E; cbn [match_k]; cbv zeta; destruct (unalias_top t0) as [h xs].
    - rewrite E. reflexivity.
    - destruct (String.eqb x "_"); [apply E|]. destruct (assoc x (ms_ty st)); rewrite E; reflexivity.
    - reflexivity.
    - destruct h; try reflexivity. destruct xs as [|e [|? ?]]; try reflexivity. apply IHp; exact E.
    - destruct h; try reflexivity. destruct xs as [|e [|? ?]]; try reflexivity. apply IHp; exact E.
    - destruct h; try reflexivity. destruct xs as [|e [|? ?]]; try reflexivity. f_equal. apply IHp; exact E.
    - destruct h; try reflexivity. destruct xs as [|e [|? ?]]; try reflexivity.
      destruct (String.eqb x "_"); [apply IHp; exact E|]. destruct (assoc x (ms_int st)); [f_equal|]; apply IHp; exact E.
    - destruct h; try reflexivity. destruct xs as [|kt [|vt [|? ?]]]; try reflexivity.
      apply IHp1. intros s. apply IHp2. exact E.
    - destruct h; try reflexivity. destruct xs as [|e [|? ?]]; try reflexivity. f_equal. apply IHp; exact E.
    - destruct h; try reflexivity. destruct xs as [|[[] pts] [|[[] rts] [|? ?]]]; try reflexivity. f_equal.
      apply (list_k_kext ps Hps). intros s. apply (list_k_kext rs Hrs). exact E.
    - destruct h; try reflexivity. apply (list_k_kext fs Hfs). exact E.
    - destruct h; try reflexivity. apply E.
    - destruct h; try reflexivity. rewrite E. reflexivity.
  Qed.
End KExt.

Lemma skipn_nth_cons {A} (l : list A) n x : nth_error l n = Some x -> skipn n l = x :: skipn (S n) l.
Proof.
  revert n. induction l as [|a l IH]; intros [|n] H; cbn in *; try discriminate.
  - inversion H; reflexivity.
  - apply IH; assumption.
Qed.

(* the `$*_` alternatives of list_k as a function of its own *)
Fixpoint try_runs (F : list gtype -> bool) (ts : list gtype) : bool :=
  F ts || match ts with [] => false | _ :: ts' => try_runs F ts' end.

Lemma list_k_seq m q ps' ts st k : is_seq q = true ->
  list_k m (q :: ps') ts st k = try_runs (fun ts => list_k m ps' ts st k) ts.
Proof. intros H. cbn [list_k]. rewrite H. induction ts as [|t ts IH]; [reflexivity|]. cbn [try_runs]. f_equal. exact IH. Qed.

Lemma seq_loop_ext r r' : forall fuel from, (forall n, from <= n < from + fuel -> r n = r' n) ->
  seq_loop r from fuel = seq_loop r' from fuel.
Proof.
  induction fuel as [|fuel IH]; intros from H; [reflexivity|]. cbn [seq_loop].
  rewrite (H from) by lia. f_equal. apply IH. intros n Hn. apply H. lia.
Qed.

Lemma seq_loop_try_runs (F : list gtype -> bool) fs : forall d from, from + d = List.length fs ->
  seq_loop (fun next => F (skipn next fs)) from (S d) = try_runs F (skipn from fs).
Proof.
  induction d as [|d IH]; intros from Hd.
  - assert (from = List.length fs) by lia. subst from. cbn [seq_loop]. rewrite skipn_all. reflexivity.
  - destruct (nth_error fs from) as [x|] eqn:Hn.
    2:{ apply nth_error_None in Hn. lia. }
    change (seq_loop (fun next => F (skipn next fs)) from (S (S d)))
      with (F (skipn from fs) || seq_loop (fun next => F (skipn next fs)) (S from) (S d)).
    rewrite (IH (S from)) by lia. rewrite (skipn_nth_cons _ _ _ Hn). reflexivity.
Qed.

Lemma fielder_go_is_list_k m : (forall p t, kext (m p t)) -> forall subs fs from st k, from <= List.length fs ->
  fielder_go m subs fs from st k = list_k m subs (skipn from fs) st k.
Proof.
  intros Hm. induction subs as [|pat subs' IH]; intros fs from st k Hle.
  - cbn [fielder_go list_k]. destruct (Nat.eqb_spec from (List.length fs)) as [E|NE].
    + subst. rewrite skipn_all. reflexivity.
    + assert (L : List.length (skipn from fs) <> 0) by (rewrite skipn_length; lia).
      destruct (skipn from fs); [contradiction|reflexivity].
  - destruct (is_seq pat) eqn:Sq.
    + rewrite (list_k_seq _ _ _ _ _ _ Sq). cbn [fielder_go]. rewrite Sq.
      rewrite (seq_loop_ext _ (fun next => list_k m subs' (skipn next fs) st k)).
      2:{ intros n Hn. apply IH. lia. }
      apply (seq_loop_try_runs (fun ts => list_k m subs' ts st k)). lia.
    + cbn [fielder_go list_k]. rewrite Sq. destruct (Nat.eqb_spec from (List.length fs)) as [E|NE].
      * subst. rewrite skipn_all. reflexivity.
      * destruct (nth_error fs from) as [x|] eqn:Hn.
        2:{ apply nth_error_None in Hn. lia. }
        rewrite (skipn_nth_cons _ _ _ Hn). apply Hm. intros st'. apply IH. lia.
Qed.

(* matchIdenticalFielder as written (index, loop) is the model's list matcher on the remaining fields *)
Theorem fielder_go_is_the_model ident : forall subs fs st k,
  fielder_go (match_k ident) subs fs 0 st k = list_k (match_k ident) subs fs st k.
Proof. intros. apply (fielder_go_is_list_k (match_k ident) (match_k_kext ident)). lia. Qed.
