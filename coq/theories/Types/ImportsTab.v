(* C20: the scoped import table (typematch.ImportsTab), group loading (ir_loader.loadRuleGroup) and the three resolvers
   of qualified names: type patterns (typematch.parseExpr), interface names (unwrapInterfaceExpr) and method
   references (unwrapFuncRefExpr), against the documented precedence
       Import() of the current group  >  standard-library default for the name  >  the name as written (a path). *)
From Coq Require Import List String Bool Arith Lia.
From RG.Base Require Import Outcome.
Import ListNotations.
Local Open Scope string_scope.

Notation scope := (list (string * string)).          (* package name -> package path; the newest binding first *)
Notation itab := (list (list (string * string))).    (* innermost scope first; the outermost one holds the stdlib defaults *)

Fixpoint sassoc (x : string) (l : scope) : option string :=
  match l with [] => None | (k, v) :: r => if String.eqb k x then Some v else sassoc x r end.

(* ImportsTab.Lookup: innermost scope outwards *)
Fixpoint lookup (t : itab) (name : string) : option string :=
  match t with
  | [] => None
  | s :: r => match sassoc name s with Some p => Some p | None => lookup r name end
  end.

(* ImportsTab.Load: writes into the innermost scope (a map assignment: a later binding of the same name wins) *)
Definition load (t : itab) (name path : string) : outcome itab :=
  match t with [] => Panic PIndex | s :: r => Ok (((name, path) :: s) :: r) end.

Definition enter (t : itab) : itab := [] :: t.
Definition leave (t : itab) : outcome itab := match t with [] => Panic PSliceBounds | _ :: r => Ok r end.

Fixpoint load_all (t : itab) (imps : list (string * string)) : outcome itab :=
  match imps with
  | [] => Ok t
  | (n, p) :: r => bind (load t n p) (fun t' => load_all t' r)
  end.

(* ---------------------------------------------------------------- what a group asks to be resolved *)
Inductive ifname :=
| IQual (pkg name : string)          (* `pkg.T`: both parts identifiers *)
| IFqn (path name : string).         (* `path/to/pkg.T`: split at the last dot *)

Inductive req :=
| RTypePat (pkg name : string)       (* a qualified name inside a Type.Is / Underlying().Is / SinkType.Is pattern *)
| RIface (n : ifname)                (* Implements("...") *)
| RFuncRef (pkg tname meth : string) (* HasMethod("pkg.Type.Method") *)
| RTypeExpr (qs : list (string * string)). (* a type string with several qualified names (`map[foo.K]io.Reader`), in source order *)

Inductive resolved :=
| ResType (path name : string)       (* the pattern node opNamed{path, name} *)
| ResIface (path name : string)
| ResMethod (path tname meth : string)
| ResTypes (ps : list (string * string)).   (* one opNamed{path, name} node per qualified name of the type string *)

(* what the importer and go/types say about a package-level name (trusted components) *)
Inductive tkind := KIface (methods : list string) | KOther.

Section Resolve.
  Variable world : string -> string -> option tkind.     (* package path -> name -> kind; None: no such package or name *)

  Definition find_iface (path name : string) : option resolved :=
    match world path name with Some (KIface _) => Some (ResIface path name) | _ => None end.

  Definition find_method (path tname meth : string) : option resolved :=
    match world path tname with
    | Some (KIface ms) => if existsb (String.eqb meth) ms then Some (ResMethod path tname meth) else None
    | _ => None
    end.

  (* the package a qualified name's first part stands for: the table, else the name itself taken as a path *)
  Definition pkg_path (t : itab) (pkg : string) : string :=
    match lookup t pkg with Some p => p | None => pkg end.

  (* every qualified name of a type string is looked up in the table; one that is not bound makes the whole string
     unresolvable (typematch.parseExpr: a nil sub-pattern is passed upwards by every type constructor -- C20Parse.v) *)
  Fixpoint lookup_all (t : itab) (qs : list (string * string)) : option (list (string * string)) :=
    match qs with
    | [] => Some []
    | (pkg, name) :: r => match lookup t pkg with
                          | None => None
                          | Some p => match lookup_all t r with Some ps => Some ((p, name) :: ps) | None => None end
                          end
    end.

  Definition resolve (t : itab) (r : req) : option resolved :=
    match r with
    | RTypePat pkg name => match lookup t pkg with Some p => Some (ResType p name) | None => None end
    | RIface (IQual pkg name) => find_iface (pkg_path t pkg) name
    | RIface (IFqn path name) => find_iface path name
    | RFuncRef pkg tname meth => find_method (pkg_path t pkg) tname meth
    | RTypeExpr qs => match lookup_all t qs with Some ps => Some (ResTypes ps) | None => None end
    end.

  (* rules are loaded in order; the first unresolvable name aborts the load *)
  Fixpoint resolve_all (t : itab) (rs : list req) : option (list resolved) :=
    match rs with
    | [] => Some []
    | r :: rest => match resolve t r with
                   | None => None
                   | Some x => match resolve_all t rest with Some xs => Some (x :: xs) | None => None end
                   end
    end.

  Record group := Group { g_skip : bool; g_imports : list (string * string); g_reqs : list req }.

  Inductive gres := GSkipped | GLoaded (rs : list resolved) | GFailed.

  (* loadRuleGroup: GroupFilter first; EnterScope; deferred LeaveScope on every exit; Import()s; rules *)
  Definition load_group (t : itab) (g : group) : outcome (itab * gres) :=
    if g_skip g then Ok (t, GSkipped)
    else bind (load_all (enter t) (g_imports g)) (fun t2 =>
           let r := match resolve_all t2 (g_reqs g) with Some xs => GLoaded xs | None => GFailed end in
           bind (leave t2) (fun t3 => Ok (t3, r))).

  (* a rules file: groups in order, stopping at the first failure (Load returns the error) *)
  Fixpoint load_file (t : itab) (gs : list group) : outcome (itab * list gres) :=
    match gs with
    | [] => Ok (t, [])
    | g :: rest =>
      bind (load_group t g) (fun tr =>
        match snd tr with
        | GFailed => Ok (fst tr, [GFailed])
        | r => bind (load_file (fst tr) rest) (fun trs => Ok (fst trs, r :: snd trs))
        end)
    end.

  (* ---------------------------------------------------------------- documented precedence *)
  (* the binding the group's own Import() calls give to a name: the last call wins *)
  Fixpoint last_import (imps : list (string * string)) (name : string) : option string :=
    match imps with
    | [] => None
    | (n, p) :: r => match last_import r name with
                     | Some q => Some q
                     | None => if String.eqb n name then Some p else None
                     end
    end.

  Definition doc_binding (imps : list (string * string)) (std : scope) (pkg : string) : option string :=
    match last_import imps pkg with Some p => Some p | None => sassoc pkg std end.

  Definition doc_path imps std pkg : string := match doc_binding imps std pkg with Some p => p | None => pkg end.

  Fixpoint doc_all (imps : list (string * string)) (std : scope) (qs : list (string * string)) : option (list (string * string)) :=
    match qs with
    | [] => Some []
    | (pkg, name) :: r => match doc_binding imps std pkg with
                          | None => None
                          | Some p => match world p name with
                                      | None => None
                                      | Some _ => match doc_all imps std r with Some ps => Some ((p, name) :: ps) | None => None end
                                      end
                          end
    end.

  Definition doc_resolve (imps : list (string * string)) (std : scope) (r : req) : option resolved :=
    match r with
    | RTypePat pkg name => match doc_binding imps std pkg with
                           | Some p => match world p name with Some _ => Some (ResType p name) | None => None end
                           | None => None
                           end
    | RIface (IQual pkg name) => find_iface (doc_path imps std pkg) name
    | RIface (IFqn path name) => find_iface path name
    | RFuncRef pkg tname meth => find_method (doc_path imps std pkg) tname meth
    | RTypeExpr qs => match doc_all imps std qs with Some ps => Some (ResTypes ps) | None => None end
    end.

  (* ---------------------------------------------------------------- theorems *)
  Lemma load_all_shape s r imps : exists s', load_all (s :: r) imps = Ok (s' :: r) /\
    forall name, sassoc name s' = match last_import imps name with Some p => Some p | None => sassoc name s end.
  Proof.
    revert s. induction imps as [|[n p] imps IH]; intros s; cbn.
    - exists s. split; [reflexivity|]. reflexivity.
    - destruct (IH ((n, p) :: s)) as (s' & E & L). exists s'. split; [exact E|].
      intros name. rewrite L. destruct (last_import imps name); [reflexivity|]. cbn. destruct (String.eqb n name); reflexivity.
  Qed.

  (* after loading a group on ANY path (skipped, loaded, failed) the table is exactly the table before *)
  Theorem scope_balanced t g : exists r, load_group t g = Ok (t, r).
  Proof.
    unfold load_group. destruct (g_skip g); [eexists; reflexivity|].
    unfold enter. destruct (load_all_shape [] t (g_imports g)) as (s' & E & _). eexists. rewrite E. cbn. reflexivity.
  Qed.

  Lemma load_group_table t g t' r : load_group t g = Ok (t', r) -> t' = t.
  Proof. intros H. destruct (scope_balanced t g) as (r' & E). rewrite E in H. inversion H. reflexivity. Qed.

  (* inside a group a name means: the group's own Import() (last call wins), else whatever the enclosing table says *)
  Lemma lookup_in_group t g name s' :
    load_all (enter t) (g_imports g) = Ok (s' :: t) ->
    (forall n, sassoc n s' = match last_import (g_imports g) n with Some p => Some p | None => sassoc n [] end) ->
    lookup (s' :: t) name = match last_import (g_imports g) name with Some p => Some p | None => lookup t name end.
  Proof. intros _ L. cbn. rewrite L. destruct (last_import (g_imports g) name); reflexivity. Qed.

  (* what a single group resolves depends only on the base table and the group itself *)
  Definition group_result (t : itab) (g : group) : gres :=
    match load_group t g with Ok (_, r) => r | Panic _ => GFailed end.

  (* groups do not see each other's Import()s: every group of a file gets the result it would get alone on the base table,
     whatever groups (with whatever imports, skipped or not) come before it *)
  Theorem imports_do_not_leak t gs : exists rs,
    load_file t gs = Ok (t, rs) /\
    Forall2 (fun g r => r = group_result t g) (firstn (List.length rs) gs) rs.
  Proof.
    induction gs as [|g gs IH]; cbn.
    - exists []. split; [reflexivity|constructor].
    - destruct (scope_balanced t g) as (r & E). rewrite E. cbn.
      assert (Hr : r = group_result t g) by (unfold group_result; rewrite E; reflexivity).
      destruct r.
      + destruct IH as (rs & E2 & F). rewrite E2. cbn. exists (GSkipped :: rs). split; [reflexivity|]. cbn. constructor; assumption.
      + destruct IH as (rs0 & E2 & F). rewrite E2. cbn. exists (GLoaded rs :: rs0). split; [reflexivity|]. cbn. constructor; assumption.
      + exists [GFailed]. split; [reflexivity|]. cbn. constructor; [assumption|constructor].
  Qed.

  (* type patterns are resolved without looking into the package (typematch.Parse only knows the table): the
     documented resolution additionally requires the name to exist (recorded finding type-pattern-unknown-name) *)
  Definition typepat_known (imps : list (string * string)) (std : scope) (r : req) : Prop :=
    match r with
    | RTypePat pkg name => forall p, doc_binding imps std pkg = Some p -> world p name <> None
    | RTypeExpr qs => Forall (fun q => forall p, doc_binding imps std (fst q) = Some p -> world p (snd q) <> None) qs
    | _ => True
    end.

  (* on the engine's base table (one scope: the stdlib defaults) every resolver follows the documented precedence *)
  Theorem resolution_is_documented std g r s' :
    load_all (enter [std]) (g_imports g) = Ok (s' :: [std]) ->
    (forall n, sassoc n s' = last_import (g_imports g) n) ->
    typepat_known (g_imports g) std r ->
    resolve (s' :: [std]) r = doc_resolve (g_imports g) std r.
  Proof.
    intros _ L K.
    assert (LK : forall name, lookup (s' :: [std]) name = doc_binding (g_imports g) std name).
    { intros name. unfold doc_binding. cbn. rewrite L. destruct (last_import (g_imports g) name); [reflexivity|].
      destruct (sassoc name std); reflexivity. }
    destruct r as [pkg name|[pkg name|path name]|pkg tn m|qs]; cbn [resolve doc_resolve]; unfold pkg_path, doc_path; rewrite ?LK; try reflexivity.
    - cbn in K. destruct (doc_binding (g_imports g) std pkg) as [p|]; [|reflexivity].
      specialize (K p eq_refl). destruct (world p name); [reflexivity|contradiction].
    - cbn in K. assert (E : lookup_all (s' :: [std]) qs = doc_all (g_imports g) std qs).
      { induction qs as [|[pkg name] qs IH]; [reflexivity|]. inversion K as [|? ? K1 K2]; subst. cbn [lookup_all doc_all].
        rewrite LK. cbn in K1. destruct (doc_binding (g_imports g) std pkg) as [p|] eqn:D; [|reflexivity].
        assert (W : world p name <> None) by (apply K1; first [exact D | reflexivity]).
        destruct (world p name); [|contradiction]. rewrite (IH K2). reflexivity. }
      rewrite E. reflexivity.
  Qed.

  (* the resolution of a whole group inside load_group is the documented one *)
  Corollary group_resolves_documented std g :
    g_skip g = false -> Forall (typepat_known (g_imports g) std) (g_reqs g) ->
    group_result [std] g =
      match (fix go rs := match rs with
                          | [] => Some []
                          | r :: rest => match doc_resolve (g_imports g) std r with
                                         | None => None
                                         | Some x => match go rest with Some xs => Some (x :: xs) | None => None end
                                         end
                          end) (g_reqs g) with
      | Some xs => GLoaded xs
      | None => GFailed
      end.
  Proof.
    intros Hs HK. unfold group_result, load_group. rewrite Hs.
    destruct (load_all_shape [] [std] (g_imports g)) as (s' & E & L). unfold enter. rewrite E. cbn.
    assert (L' : forall n, sassoc n s' = last_import (g_imports g) n).
    { intros n. rewrite L. destruct (last_import (g_imports g) n); reflexivity. }
    assert (R : forall r, typepat_known (g_imports g) std r -> resolve (s' :: [std]) r = doc_resolve (g_imports g) std r).
    { intros r. eapply resolution_is_documented; eassumption. }
    induction (g_reqs g) as [|r rest IH]; cbn; [reflexivity|].
    inversion HK as [|? ? Kr Krest]; subst. specialize (IH Krest).
    rewrite (R r Kr). destruct (doc_resolve (g_imports g) std r); [|reflexivity].
    destruct (resolve_all (s' :: [std]) rest); destruct ((fix go rs := match rs with
                          | [] => Some []
                          | r :: rest => match doc_resolve (g_imports g) std r with
                                         | None => None
                                         | Some x => match go rest with Some xs => Some (x :: xs) | None => None end
                                         end
                          end) rest); try discriminate; try reflexivity; inversion IH; reflexivity.
  Qed.

  (* a name that cannot be resolved makes the group (hence the Load) fail; it is never dropped *)
  Theorem unresolvable_is_load_error t g :
    g_skip g = false -> (exists r t2, In r (g_reqs g) /\ load_all (enter t) (g_imports g) = Ok t2 /\ resolve t2 r = None) ->
    group_result t g = GFailed.
  Proof.
    intros Hs (r & t2 & Hin & E & Hr). unfold group_result, load_group. rewrite Hs, E. cbn.
    assert (RA : resolve_all t2 (g_reqs g) = None).
    { induction (g_reqs g) as [|r0 rest IH]; [destruct Hin|]. cbn. destruct Hin as [->|Hin].
      - rewrite Hr. reflexivity.
      - destruct (resolve t2 r0); [|reflexivity]. rewrite (IH Hin). reflexivity. }
    rewrite RA. destruct (leave t2); reflexivity.
  Qed.
  (* a type string is unresolvable exactly when one of its qualified names is: the name that is not bound may sit anywhere *)
  Theorem type_expr_unresolvable_iff t qs :
    resolve t (RTypeExpr qs) = None <-> exists pkg name, In (pkg, name) qs /\ resolve t (RTypePat pkg name) = None.
  Proof.
    cbn [resolve]. induction qs as [|[pkg name] qs IH]; cbn [lookup_all].
    - split; [discriminate|]. intros (? & ? & [] & _).
    - destruct (lookup t pkg) as [p|] eqn:L.
      + destruct (lookup_all t qs) as [ps|] eqn:A.
        * split; [discriminate|]. intros (pkg' & name' & [E|Hin] & R).
          -- inversion E; subst. rewrite L in R. discriminate.
          -- destruct IH as [_ IH]. specialize (IH (ex_intro _ pkg' (ex_intro _ name' (conj Hin R)))). discriminate.
        * split; [|reflexivity]. intros _. destruct IH as [IH _]. destruct (IH eq_refl) as (pkg' & name' & Hin & R).
          exists pkg', name'. split; [right; exact Hin|exact R].
      + split; [|reflexivity]. intros _. exists pkg, name. split; [left; reflexivity|]. rewrite L. reflexivity.
  Qed.
End Resolve.

(* ---------------------------------------------------------------- scripted histories of the table itself *)
Inductive op := OEnter | OLeave | OLoad (name path : string).

Definition step (t : itab) (o : op) : outcome itab :=
  match o with OEnter => Ok (enter t) | OLeave => leave t | OLoad n p => load t n p end.

Fixpoint exec (t : itab) (ops : list op) : outcome itab :=
  match ops with [] => Ok t | o :: r => bind (step t o) (fun t' => exec t' r) end.

(* a script that a caller holding a table may run on it: it leaves every scope it enters, never leaves a scope it did not
   enter, and binds names inside its own scopes only (d = number of own scopes currently open) *)
Fixpoint wf_script (d : nat) (ops : list op) : bool :=
  match ops with
  | [] => (d =? 0)%nat
  | OEnter :: r => wf_script (S d) r
  | OLeave :: r => match d with O => false | S d' => wf_script d' r end
  | OLoad _ _ :: r => match d with O => false | S _ => wf_script d r end
  end.

Lemma exec_restores ops : forall pre t, wf_script (List.length pre) ops = true -> exec (pre ++ t) ops = Ok t.
Proof.
  induction ops as [|o r IH]; intros pre t W; cbn in W.
  - destruct pre; [reflexivity|discriminate].
  - destruct o as [| |n p]; cbn [exec step].
    + unfold enter. cbn [bind]. apply (IH ([] :: pre) t). exact W.
    + destruct pre as [|s pre]; [discriminate|]. cbn. apply IH. exact W.
    + destruct pre as [|s pre]; [discriminate|]. cbn. apply (IH (((n, p) :: s) :: pre) t). exact W.
Qed.

(* whatever a well-bracketed script binds (any names, any number of times per scope, any nesting), the table afterwards is
   the table before *)
Theorem script_balanced ops t : wf_script 0 ops = true -> exec t ops = Ok t.
Proof. intros W. apply (exec_restores ops [] t W). Qed.

(* the documented meaning of a lookup, stated on the history alone (newest operation first): the most recent binding of the
   name whose scope has not been left, else the initial binding *)
Fixpoint hist_lookup (skip : nat) (rh : list op) (name : string) (init : scope) : option string :=
  match rh with
  | [] => if (skip =? 0)%nat then sassoc name init else None
  | OLeave :: r => hist_lookup (S skip) r name init
  | OEnter :: r => hist_lookup (pred skip) r name init
  | OLoad n p :: r => if (skip =? 0)%nat && String.eqb n name then Some p else hist_lookup skip r name init
  end.

Lemma exec_snoc ops : forall t o, exec t (ops ++ [o]) = bind (exec t ops) (fun t' => step t' o).
Proof.
  induction ops as [|a r IH]; intros t o; cbn.
  - destruct (step t o); reflexivity.
  - destruct (step t a); cbn; [apply IH|reflexivity].
Qed.

Lemma hist_lookup_spec init name h : forall t, exec [init] h = Ok t ->
  forall k, hist_lookup k (rev h) name init = lookup (skipn k t) name.
Proof.
  induction h as [|o h IH] using rev_ind; intros t E k.
  - cbn in E. inversion E; subst. cbn. destruct k; cbn.
    + destruct (sassoc name init); reflexivity.
    + destruct k; reflexivity.
  - rewrite exec_snoc in E. destruct (exec [init] h) as [t0|] eqn:E0; [|discriminate]. cbn in E.
    rewrite rev_app_distr. cbn [rev app]. specialize (IH t0 eq_refl).
    destruct o as [| |n p]; cbn in E.
    + inversion E; subst. unfold enter. cbn [hist_lookup]. rewrite IH. destruct k; reflexivity.
    + destruct t0 as [|s r]; [discriminate|]. inversion E; subst. cbn [hist_lookup]. rewrite IH. reflexivity.
    + destruct t0 as [|s r]; [discriminate|]. inversion E; subst. cbn [hist_lookup]. rewrite IH.
      destruct k; cbn; [|reflexivity].
      destruct (String.eqb n name); reflexivity.
Qed.

Theorem lookup_is_most_recent_live_binding init h t name :
  exec [init] h = Ok t -> lookup t name = hist_lookup 0 (rev h) name init.
Proof. intros E. rewrite (hist_lookup_spec init name h t E 0). reflexivity. Qed.

(* what loadRuleGroup does to the table IS such a script: EnterScope; one Load per Import(); LeaveScope *)
Definition import_ops (imps : list (string * string)) : list op := map (fun np => OLoad (fst np) (snd np)) imps.
Definition group_script (imps : list (string * string)) : list op := OEnter :: import_ops imps ++ [OLeave].

Lemma load_all_is_exec imps : forall t, load_all t imps = exec t (import_ops imps).
Proof.
  induction imps as [|[n p] r IH]; intros t; cbn; [reflexivity|].
  destruct (load t n p); cbn; [apply IH|reflexivity].
Qed.

Lemma wf_import_ops imps : forall d rest, wf_script (S d) (import_ops imps ++ rest) = wf_script (S d) rest.
Proof. induction imps as [|[n p] r IH]; intros d rest; cbn; [reflexivity|apply IH]. Qed.

Theorem group_script_balanced imps t : exec t (group_script imps) = Ok t.
Proof. apply script_balanced. unfold group_script. cbn [wf_script]. rewrite wf_import_ops. reflexivity. Qed.

(* ---- running scripts: the visible table after every step *)
Definition snapshot (names : list string) (t : itab) : list (option string) := map (lookup t) names.

Fixpoint trace (names : list string) (t : itab) (ops : list op) : list (option (list (option string))) :=
  match ops with
  | [] => []
  | o :: r => match step t o with
              | Ok t' => Some (snapshot names t') :: trace names t' r
              | Panic _ => [None]
              end
  end.

Definition show_binding (paths : list string) (b : option string) : string :=
  match b with
  | None => "-"
  | Some p => (fix go (i : nat) (l : list string) : string :=
                 match l with
                 | [] => "?"
                 | q :: r => if String.eqb p q then String (Ascii.ascii_of_nat (48 + i)) EmptyString else go (S i) r
                 end) 0%nat paths
  end.

Definition show_trace (paths names : list string) (init : scope) (ops : list op) : list string :=
  map (fun s => match s with None => "panic" | Some bs => String.concat "" (map (show_binding paths) bs) end)
      (trace names [init] ops).

Example script_two_bindings_one_scope :
  show_trace ["p";"q";"u"] ["a"] [("a","p")] [OEnter; OLoad "a" "q"; OLoad "a" "u"; OLeave; OEnter; OLeave] = ["0";"1";"2";"0";"0";"0"].
Proof. reflexivity. Qed.

(* ---------------------------------------------------------------- helpers for running the model on harness scenarios *)
Definition show_res (r : resolved) : string :=
  match r with
  | ResType p n => "ResType " ++ p ++ " " ++ n
  | ResIface p n => "ResIface " ++ p ++ " " ++ n
  | ResMethod p t m => "ResMethod " ++ p ++ " " ++ t ++ " " ++ m
  | ResTypes ps => "ResTypes" ++ String.concat "" (map (fun pn => " " ++ fst pn ++ " " ++ snd pn) ps)
  end.

Definition show_gres (g : gres) : string :=
  match g with
  | GSkipped => "skipped"
  | GFailed => "failed"
  | GLoaded rs => String.concat "," (map show_res rs)
  end.

Definition world_of (tbl : list (string * string * tkind)) (path name : string) : option tkind :=
  match find (fun e => String.eqb (fst (fst e)) path && String.eqb (snd (fst e)) name) tbl with
  | Some e => Some (snd e)
  | None => None
  end.

(* one rules file on the engine's base table [std]; the final table is reported too ("balanced" / "UNBALANCED") *)
Definition run_file (tbl : list (string * string * tkind)) (std : scope) (gs : list group) : string :=
  match load_file (world_of tbl) [std] gs with
  | Ok (t, rs) => String.concat "|" (map show_gres rs) ++ (if (List.length t =? 1)%nat then "" else "|UNBALANCED")
  | Panic _ => "panic"
  end.
