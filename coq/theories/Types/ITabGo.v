(* C20: the Go-level vocabulary that `go2coq itabmethods` translates typematch.ImportsTab's methods into, and the
   refinement lemmas between that vocabulary and the model of ImportsTab.v.

   The translated state is the struct's only field, a slice of maps, in Go's own order (index 0 = the outermost scope):
     gtab = list gmap,  gmap = association list, the newest assignment of a key first (m[k] = v  is  (k, v) :: m).
   Every indexing / slicing operation is partial exactly as in Go (outcome). *)
From Coq Require Import List String Bool ZArith Lia.
From RG.Base Require Import Outcome.
From RG.Types Require Import ImportsTab.
Import ListNotations.
Local Open Scope string_scope.
Local Open Scope Z_scope.

Notation gmap := (list (string * string)).
Notation gtab := (list (list (string * string))).

Definition glen (t : gtab) : Z := Z.of_nat (List.length t).

(* s[i] *)
Definition gidx (t : gtab) (i : Z) : outcome gmap :=
  if (0 <=? i) && (i <? glen t) then Ok (nth (Z.to_nat i) t []) else Panic PIndex.

(* v, ok := m[k] *)
Definition gmap_get (m : gmap) (k : string) : option string := sassoc k m.

(* s[i][k] = v *)
Fixpoint set_nth (t : gtab) (n : nat) (f : gmap -> gmap) : gtab :=
  match t, n with
  | [], _ => []
  | m :: r, O => f m :: r
  | m :: r, S n' => m :: set_nth r n' f
  end.
Definition gset (t : gtab) (i : Z) (k v : string) : outcome gtab :=
  if (0 <=? i) && (i <? glen t) then Ok (set_nth t (Z.to_nat i) (fun m => (k, v) :: m)) else Panic PIndex.

(* s[:hi]  (hi <= len s: the translator never produces a re-slice beyond the length) *)
Definition gslice_to (t : gtab) (hi : Z) : outcome gtab :=
  if (0 <=? hi) && (hi <=? glen t) then Ok (firstn (Z.to_nat hi) t) else Panic PSliceBounds.

(* append(s, m) *)
Definition gappend (t : gtab) (m : gmap) : gtab := (t ++ [m])%list.

(* for i := start; i >= 0; i-- { body }  where the body either returns (Some) or falls through (None) *)
Fixpoint down_first {R} (n : nat) (body : Z -> outcome (option R)) : outcome (option R) :=
  match n with
  | O => Ok None
  | S n' => bind (body (Z.of_nat n')) (fun r => match r with Some x => Ok (Some x) | None => down_first n' body end)
  end.
Definition loop_down {R} (start : Z) (body : Z -> outcome (option R)) : outcome (option R) :=
  down_first (Z.to_nat (start + 1)) body.

(* ---------------------------------------------------------------- refinement: Go order = the model's order reversed *)
Definition abs (t : gtab) : itab := rev t.

Lemma nth_rev_last (t : gtab) m : nth (List.length t) (t ++ [m]) [] = m.
Proof. rewrite app_nth2 by lia. rewrite Nat.sub_diag. reflexivity. Qed.

Lemma lookup_app_snoc (t : gtab) m name :
  lookup (rev (t ++ [m])) name = match sassoc name m with Some p => Some p | None => lookup (rev t) name end.
Proof. rewrite rev_app_distr. reflexivity. Qed.

Lemma gidx_ok (t : gtab) n : (n < List.length t)%nat -> gidx t (Z.of_nat n) = Ok (nth n t []).
Proof.
  intros H. unfold gidx, glen.
  replace ((0 <=? Z.of_nat n) && (Z.of_nat n <? Z.of_nat (List.length t))) with true
    by (symmetry; apply andb_true_iff; split; [apply Z.leb_le|apply Z.ltb_lt]; lia).
  rewrite Nat2Z.id. reflexivity.
Qed.

Lemma down_first_ext {R} n (f g : Z -> outcome (option R)) :
  (forall k, (k < n)%nat -> f (Z.of_nat k) = g (Z.of_nat k)) -> down_first n f = down_first n g.
Proof.
  induction n as [|n IH]; intros H; [reflexivity|]. cbn [down_first]. rewrite (H n) by lia.
  destruct (g (Z.of_nat n)) as [[x|]|w]; cbn; try reflexivity. apply IH. intros k Hk. apply H. lia.
Qed.

(* the canonical loop of Lookup: innermost (last) scope first *)
Lemma down_first_is_lookup (t : gtab) name :
  down_first (List.length t) (fun i => bind (gidx t i) (fun m => Ok (gmap_get m name))) = Ok (lookup (abs t) name).
Proof.
  unfold abs. induction t as [|m t IH] using rev_ind; [reflexivity|].
  rewrite app_length. cbn [List.length]. rewrite Nat.add_1_r. cbn [down_first].
  rewrite gidx_ok by (rewrite app_length; cbn; lia).
  rewrite nth_rev_last. cbn [bind]. rewrite lookup_app_snoc. unfold gmap_get.
  destruct (sassoc name m); [reflexivity|].
  rewrite <- IH. apply down_first_ext. intros k Hk.
  rewrite !gidx_ok by (rewrite ?app_length; cbn; lia). rewrite app_nth1 by lia. reflexivity.
Qed.

Lemma set_nth_last (t : gtab) m f : set_nth (t ++ [m]) (List.length t) f = (t ++ [f m])%list.
Proof. induction t as [|a t IH]; cbn; [reflexivity|]. rewrite IH. reflexivity. Qed.

Lemma firstn_snoc (t : gtab) m : firstn (List.length t) (t ++ [m]) = t.
Proof. rewrite firstn_app, Nat.sub_diag, firstn_all. cbn. apply app_nil_r. Qed.

(* the four operations in the shape the current source has them; the instantiation file proves that the generated definitions
   ARE these *)
Definition ref_lookup (t : gtab) (name : string) : outcome (option string) :=
  loop_down (glen t - 1) (fun i => bind (gidx t i) (fun m => Ok (gmap_get m name))).
Definition ref_load (t : gtab) (name path : string) : outcome gtab := gset t (glen t - 1) name path.
Definition ref_enter (t : gtab) : gtab := gappend t [].
Definition ref_leave (t : gtab) : outcome gtab := gslice_to t (glen t - 1).

Theorem ref_lookup_refines t name : ref_lookup t name = Ok (lookup (abs t) name).
Proof.
  unfold ref_lookup, loop_down, glen. replace (Z.of_nat (List.length t) - 1 + 1) with (Z.of_nat (List.length t)) by lia.
  rewrite Nat2Z.id. apply down_first_is_lookup.
Qed.

Definition omap {A B} (f : A -> B) (x : outcome A) : outcome B := match x with Ok a => Ok (f a) | Panic w => Panic w end.

Theorem ref_load_refines t name path : omap abs (ref_load t name path) = load (abs t) name path.
Proof.
  unfold ref_load, gset, glen, abs. destruct t as [|m t] using rev_ind; [reflexivity|].
  rewrite app_length. cbn [List.length].
  replace ((0 <=? Z.of_nat (List.length t + 1) - 1) && (Z.of_nat (List.length t + 1) - 1 <? Z.of_nat (List.length t + 1))) with true
    by (symmetry; apply andb_true_iff; split; [apply Z.leb_le|apply Z.ltb_lt]; lia).
  replace (Z.to_nat (Z.of_nat (List.length t + 1) - 1)) with (List.length t) by lia.
  rewrite set_nth_last. cbn [omap]. rewrite !rev_app_distr. reflexivity.
Qed.

Theorem ref_enter_refines t : abs (ref_enter t) = enter (abs t).
Proof. unfold ref_enter, gappend, abs, enter. rewrite rev_app_distr. reflexivity. Qed.

Theorem ref_leave_refines t : omap abs (ref_leave t) = leave (abs t).
Proof.
  unfold ref_leave, gslice_to, glen, abs. destruct t as [|m t] using rev_ind; [reflexivity|].
  rewrite app_length. cbn [List.length].
  replace ((0 <=? Z.of_nat (List.length t + 1) - 1) && (Z.of_nat (List.length t + 1) - 1 <=? Z.of_nat (List.length t + 1))) with true
    by (symmetry; apply andb_true_iff; split; apply Z.leb_le; lia).
  replace (Z.to_nat (Z.of_nat (List.length t + 1) - 1)) with (List.length t) by lia.
  rewrite firstn_snoc. cbn [omap]. rewrite rev_app_distr. reflexivity.
Qed.

(* ---- scripts over the Go-level operations *)
Section GoScripts.
  Variable g_load : gtab -> string -> string -> outcome gtab.
  Variable g_enter : gtab -> gtab.
  Variable g_leave : gtab -> outcome gtab.
  Hypothesis Hload : forall t n p, omap abs (g_load t n p) = load (abs t) n p.
  Hypothesis Henter : forall t, abs (g_enter t) = enter (abs t).
  Hypothesis Hleave : forall t, omap abs (g_leave t) = leave (abs t).

  Definition g_step (t : gtab) (o : op) : outcome gtab :=
    match o with OEnter => Ok (g_enter t) | OLeave => g_leave t | OLoad n p => g_load t n p end.
  Fixpoint g_exec (t : gtab) (ops : list op) : outcome gtab :=
    match ops with [] => Ok t | o :: r => bind (g_step t o) (fun t' => g_exec t' r) end.

  Lemma g_step_refines t o : omap abs (g_step t o) = step (abs t) o.
  Proof. destruct o; cbn; [rewrite Henter; reflexivity|apply Hleave|apply Hload]. Qed.

  Lemma g_exec_refines ops : forall t, omap abs (g_exec t ops) = exec (abs t) ops.
  Proof.
    induction ops as [|o r IH]; intros t; [reflexivity|]. cbn [g_exec exec].
    pose proof (g_step_refines t o) as S. destruct (g_step t o) as [t'|w]; cbn in S; rewrite <- S; cbn; [apply IH|reflexivity].
  Qed.

  (* the balance theorem, about the translated operations: a well-bracketed script gives back the very same slice of maps *)
  Theorem g_script_balanced ops t : wf_script 0 ops = true -> g_exec t ops = Ok t.
  Proof.
    intros W. pose proof (g_exec_refines ops t) as R. rewrite (script_balanced ops (abs t) W) in R.
    destruct (g_exec t ops) as [t'|w]; [|discriminate]. cbn in R. inversion R as [E]. unfold abs in E.
    apply (f_equal (@rev _)) in E. rewrite !rev_involutive in E. subst. reflexivity.
  Qed.
End GoScripts.
