(* C10: the pattern matcher instantiated with the xtypes identity model (identical_x), for the types of one universe. *)
From Coq Require Import List ZArith NArith Bool String Ascii Lia.
From RG.Types Require Import GType XIdentical TypePat.
Import ListNotations.
Local Open Scope string_scope.

(* the types of universe u: well-formed terms all of whose named types / type parameters belong to u *)
Definition ok (u : N) (t : gtype) : Prop := wf t = true /\ in_univ u t = true.

Lemma ok_unalias u t : ok u t -> ok u (unalias_top t).
Proof. intros [W U]. split; [apply wf_unalias_top|apply in_univ_unalias_top]; assumption. Qed.

Lemma ok_args u h xs : ok u (T h xs) -> Forall (ok u) xs.
Proof.
  intros [W U]. cbn in W, U. apply andb_true_iff in W as [_ W]. apply andb_true_iff in U as [_ U].
  rewrite forallb_forall in W, U. apply Forall_forall. intros x Hin. split; [apply W|apply U]; assumption.
Qed.

Lemma ident_refl u t : ok u t -> identical_x t t = true.
Proof. intros [W U]. apply (identical_x_refl_same u); assumption. Qed.

Lemma ident_eucl u a b c : ok u a -> ok u b -> ok u c ->
  identical_x a c = true -> identical_x b c = true -> identical_x a b = true.
Proof.
  intros [Wa Ua] [Wb Ub] [Wc Uc] H1 H2.
  rewrite (same_universe_agrees u) in * by assumption.
  apply go_identicalb_iff in H1, H2. apply go_identicalb_iff. unfold go_identical in *. congruence.
Qed.

Definition match_pat_x : tpat -> gtype -> bool := match_pat identical_x.
Definition denotes_x (u : N) : tpat -> gtype -> Prop := denotes identical_x (ok u).

Theorem match_sound_x u p t : ok u t -> match_pat_x p t = true -> denotes_x u p t.
Proof. apply match_sound; [apply ok_unalias|apply ok_args|apply ident_refl]. Qed.

Theorem match_complete_x u p t : ok u t -> denotes_x u p t -> match_pat_x p t = true.
Proof. apply match_complete; [apply ok_unalias|apply ok_args|apply ident_eucl]. Qed.

Theorem match_iff_denotes_x u p t : ok u t -> (match_pat_x p t = true <-> denotes_x u p t).
Proof. intros H. split; [apply match_sound_x|apply match_complete_x]; assumption. Qed.
