(* C04, top level: the theorems the check states about the quasigo compiler and VM models. *)
From Coq Require Import List ZArith Bool Lia.
From RG.Base Require Import Outcome GoInt GoSlice.
From RG.Quasigo Require Import Source Bytecode Compile VM Sem Guards Link VMLemmas CompileLemmas SemLemmas NativeLemmas ExprCorrect StmtCorrect FunCorrect ExprPanic StmtPanic FunPanic Assemble.
Import ListNotations.
Local Open Scope Z_scope.

(* ---------- the two presentations of a compiled function ---------- *)
Definition vfunc_bytes (cfg : config) (cf : cfunc) : vfunc :=
  vfunc_of_bytes cfg (assemble cfg (cf_code cf)) (cfunc_consts cf) (cf_iconsts cf) (cf_nobj cf) (cf_nint cf).

Definition code_encodable (cf : cfunc) : bool := forallb encodable (cf_code cf).

Lemma link_instr_ok : link_ok vfunc_of_cfunc (fun _ => True).
Proof. constructor; intros; auto. Qed.

Lemma link_bytes_ok cfg : opnums_ok cfg = true -> link_ok (vfunc_bytes cfg) (fun cf => code_encodable cf = true).
Proof.
  intros Hn. constructor; intros; try reflexivity.
  cbn [vfunc_bytes vfunc_of_bytes vf_fetch]. now apply fetch_bytes_refines.
Qed.

(* the guards of the partial theorem, as one decidable predicate on (configuration, program, compiled program) *)
Definition in_scope (cfg : config) (p : program) (cs : list cfunc) : bool :=
  config_ok cfg && opnums_ok cfg && prog_ok p && forallb code_encodable cs.

(* what the caller of quasigo.Call reads off the CallResult of a function whose Go result is r *)
Definition result_matches (r : option value) (c : callres) : Prop := res_rel r c.

(* ---------- compile_correct ----------
   Full statement (DESIGN section 6): for every function the compiler accepts, the VM run on the compiled bytes
   returns what a terminating Go run returns, and fails when the Go run panics. *)
Definition compile_correct_statement (cfg : config) (guard : program -> list cfunc -> bool) : Prop :=
  forall (nat_fun : Z -> list value -> option (list value)) (p : program) (cs : list cfunc),
    compile_prog cfg p = COk cs -> guard p cs = true ->
    forall fuel id args cf, nthz cs id = Some cf ->
    (forall r, call_sem (nat_sig cfg) nat_fun p fuel id args = EOk r ->
       exists fuel' cr, call_fun cfg (map (vfunc_bytes cfg) cs) nat_fun fuel' (vfunc_bytes cfg cf) args = RDone cr /\ result_matches r cr) /\
    (forall w, call_sem (nat_sig cfg) nat_fun p fuel id args = EPanic w ->
       exists fuel', call_fun cfg (map (vfunc_bytes cfg) cs) nat_fun fuel' (vfunc_bytes cfg cf) args = RPanic w).

(* Proved under the guard [in_scope]: junk-safe || / && (Guards.safe), `return true/false` by name denote the
   constants, returns carry a value exactly in non-void functions, plain assignment of a single variable, distinct
   parameter names, operands that fit their encoding, and the configuration facts (sound unconditional-jump set,
   labels reset lastOp, calls pop the callee frame). *)
Theorem compile_correct_partial cfg :
  compile_correct_statement cfg (fun p cs => in_scope cfg p cs).
Proof.
  intros nat_fun p cs Hc Hg fuel id args cf Hcf.
  unfold in_scope in Hg. apply andb_prop in Hg as [Hg Henc]. apply andb_prop in Hg as [Hg Hprog]. apply andb_prop in Hg as [Hcfg Hnums].
  assert (Hgood : forall cf0, In cf0 cs -> code_encodable cf0 = true).
  { intros cf0 Hin. rewrite forallb_forall in Henc. now apply Henc. }
  split.
  - intros r Hr. eapply (call_correct cfg nat_fun p cs Hc Hprog Hcfg (vfunc_bytes cfg) _ (link_bytes_ok cfg Hnums)); eauto.
  - intros w Hw. eapply (call_panics cfg nat_fun p cs Hc Hprog Hcfg (vfunc_bytes cfg) _ (link_bytes_ok cfg Hnums)); eauto.
Qed.

(* the same at the level of instruction lists (no encoding side condition) *)
Theorem compile_correct_instr cfg nat_fun p cs :
  compile_prog cfg p = COk cs -> prog_ok p = true -> config_ok cfg = true ->
  forall fuel id args r, call_sem (nat_sig cfg) nat_fun p fuel id args = EOk r ->
  forall cf, nthz cs id = Some cf ->
  exists fuel' cr, call_fun cfg (map vfunc_of_cfunc cs) nat_fun fuel' (vfunc_of_cfunc cf) args = RDone cr /\ result_matches r cr.
Proof.
  intros Hc Hp Hcfg fuel id args r Hr cf Hcf.
  eapply (call_correct cfg nat_fun p cs Hc Hp Hcfg vfunc_of_cfunc _ link_instr_ok); eauto.
Qed.

(* ---------- assemble_simulates ---------- *)
Theorem assemble_simulates cfg C : opnums_ok cfg = true -> forallb encodable C = true ->
  forall pc i, instr_at C pc = Some i -> decode_at cfg (assemble cfg C) pc = Some i.
Proof. intros. now apply fetch_bytes_refines. Qed.

(* ---------- vm_frame_independent ----------
   A function called through a call instruction computes the same result whatever lies below its arguments on the
   two stacks, whatever the caller's frame is, and leaves all of that untouched: this is [calls_correct], whose
   conclusion quantifies over the stacks O, IO below the arguments and over the caller's frame and call stack. *)
Theorem vm_frame_independent cfg nat_fun p cs :
  compile_prog cfg p = COk cs -> prog_ok p = true -> config_ok cfg = true ->
  forall fuel id vs r, call_sem (nat_sig cfg) nat_fun p fuel id vs = EOk r ->
  forall k, (k = KCall \/ k = KIntCall \/ k = KVoidCall) ->
  forall fn pc L IL top itop vl K, vf_fetch fn pc = Some (I k id) ->
  forall O IO, exists vl' cr, res_rel r cr /\
    star cfg (map vfunc_of_cfunc cs) nat_fun
      (mkstate (mkframe fn pc L IL top itop) (rev (args_o 0 0 vs) ++ O) (rev (args_i 0 0 vs) ++ IO) vl K)
      (mkstate (mkframe fn (pc + 3) L IL top itop) (pushk_o k cr O) (pushk_i k cr IO) vl' K).
Proof.
  intros Hc Hp Hcfg fuel id vs r Hr k Hk fn pc L IL top itop vl K Hf O IO.
  eapply (calls_correct cfg nat_fun p cs Hc Hp Hcfg vfunc_of_cfunc _ link_instr_ok); eauto.
Qed.

(* ---------- tools for refutation witnesses ---------- *)
Lemma run_done_unique cfg funcs nat_fun : forall n m s r r', run cfg funcs nat_fun n s = r -> run cfg funcs nat_fun m s = RDone r' ->
  match r with ROutOfFuel => True | RDone c => c = r' | _ => False end.
Proof.
  induction n as [|n IH]; intros m s r r' Hn Hm; cbn [run] in Hn; [subst; exact Logic.I|].
  destruct m as [|m]; cbn [run] in Hm; [discriminate|].
  destruct (step cfg funcs nat_fun s) as [s'|c o i|w|]; subst r; try discriminate.
  - eapply IH; eauto.
  - now inversion Hm.
Qed.

(* a run that panics never delivers a result, with whatever fuel *)
Lemma run_panic_never_done cfg funcs nat_fun n s w : run cfg funcs nat_fun n s = RPanic w ->
  forall m r, run cfg funcs nat_fun m s <> RDone r.
Proof. intros Hn m r Hm. exact (run_done_unique _ _ _ _ _ _ _ _ Hn Hm). Qed.

Lemma run_done_same cfg funcs nat_fun n s c : run cfg funcs nat_fun n s = RDone c ->
  forall m r, run cfg funcs nat_fun m s = RDone r -> r = c.
Proof. intros Hn m r Hm. symmetry. exact (run_done_unique _ _ _ _ _ _ _ _ Hn Hm). Qed.
