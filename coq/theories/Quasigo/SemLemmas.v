(* Facts about the source semantics: results carry the type the syntax is annotated with. *)
From Coq Require Import List ZArith Bool Lia.
From RG.Base Require Import Outcome GoInt GoSlice.
From RG.Quasigo Require Import Source Bytecode VM Sem.
Import ListNotations.
Local Open Scope Z_scope.

Lemma ebind_ok {A B} (x : eres A) (f : A -> eres B) b : ebind x f = EOk b -> exists a, x = EOk a /\ f a = EOk b.
Proof. destruct x; cbn; try discriminate; eauto. Qed.

Ltac einv H :=
  let a := fresh "v" in let H1 := fresh H "a" in let H2 := fresh H "b" in
  apply ebind_ok in H; destruct H as (a & H1 & H2).

Tactic Notation "einvas" hyp(H) ident(a) :=
  let H1 := fresh H "a" in let H2 := fresh H "b" in
  apply ebind_ok in H; destruct H as (a & H1 & H2).

Lemma typed_ok v t r : typed v t = EOk r -> r = v /\ has_ty v t = true.
Proof. unfold typed. destruct (has_ty v t); intros H; inversion H; auto. Qed.

Lemma has_ty_int v : has_ty v TInt = true -> exists z, v = VInt z.
Proof. destruct v; cbn; try discriminate; eauto. Qed.

Lemma has_ty_vint z t : has_ty (VInt z) t = true -> t = TInt.
Proof. destruct t; cbn; congruence. Qed.

Definition is_int_ty (t : ty) : bool := match t with TInt => true | _ => false end.

Lemma has_ty_is_vint v t : has_ty v t = true -> is_vint v = is_int_ty t.
Proof. destruct v, t; cbn; congruence. Qed.

Lemma eval_list_length (ev : expr -> eres value) l : forall vs, eval_list_with ev l = EOk vs -> length vs = length l.
Proof.
  induction l as [|e l IH]; intros vs H; cbn in H.
  - inversion H. reflexivity.
  - einvas H v. einvas Hb vs'. inversion Hbb; subst. cbn [length]. f_equal. now apply IH.
Qed.

Section SemFacts.
Variable nat_sig : Z -> option natsig.
Variable nat_fun : Z -> list value -> option (list value).
Variable callf : Z -> list value -> eres (option value).
Variable st : store.

Notation eval := (eval nat_sig nat_fun callf st).

Lemma int_cmp_bool op p q v : int_cmp op p q = EOk v -> exists b, v = VBool b.
Proof. destruct op; cbn; intros H; inversion H; eauto. Qed.

Lemma eval_has_ty e : forall v, eval e = EOk v -> has_ty v (ty_of e) = true.
Proof.
  induction e as [id c|x t|e IHe|e IHe| |op tx e1 e2 IHe1 IHe2|tx e lo hi three IHe IHlo IHhi|f t recv args IHrecv IHargs|nid t e IHe| ]
    using expr_ind'; intros v Hv; cbn [Sem.eval ty_of] in *.
  - destruct c; cbn in Hv; inversion Hv; reflexivity.
  - destruct (store_get st x); [|discriminate]. apply typed_ok in Hv. destruct Hv as [-> Hv]. exact Hv.
  - eauto.
  - einv Hv. destruct v0; try discriminate. inversion Hvb. reflexivity.
  - discriminate.
  - destruct op; try discriminate.
    + einv Hv. destruct v0 as [| [|] | | | |]; try discriminate.
      * inversion Hvb; reflexivity.
      * einv Hvb. destruct v0; try discriminate. inversion Hvbb; reflexivity.
    + einv Hv. destruct v0 as [| [|] | | | |]; try discriminate.
      * einv Hvb. destruct v0; try discriminate. inversion Hvbb; reflexivity.
      * inversion Hvb; reflexivity.
    + destruct (ident_name e1 =? name_nil).
      { einv Hv. destruct (value_is_nil v0); inversion Hvb; reflexivity. }
      destruct (ident_name e2 =? name_nil).
      { einv Hv. destruct (value_is_nil v0); inversion Hvb; reflexivity. }
      einv Hv. einv Hvb. destruct tx, v0, v1; try discriminate; inversion Hvbb; reflexivity.
    + destruct (ident_name e1 =? name_nil).
      { einv Hv. destruct (value_is_nil v0); inversion Hvb; reflexivity. }
      destruct (ident_name e2 =? name_nil).
      { einv Hv. destruct (value_is_nil v0); inversion Hvb; reflexivity. }
      einv Hv. einv Hvb. destruct tx, v0, v1; try discriminate; inversion Hvbb; reflexivity.
    + einv Hv. einv Hvb. destruct tx, v0, v1; try discriminate. apply int_cmp_bool in Hvbb as [b ->]. reflexivity.
    + einv Hv. einv Hvb. destruct tx, v0, v1; try discriminate. apply int_cmp_bool in Hvbb as [b ->]. reflexivity.
    + einv Hv. einv Hvb. destruct tx, v0, v1; try discriminate. apply int_cmp_bool in Hvbb as [b ->]. reflexivity.
    + einv Hv. einv Hvb. destruct tx, v0, v1; try discriminate. apply int_cmp_bool in Hvbb as [b ->]. reflexivity.
    + einv Hv. einv Hvb. destruct tx, v0, v1; try discriminate; inversion Hvbb; reflexivity.
    + einv Hv. einv Hvb. destruct tx, v0, v1; try discriminate; inversion Hvbb; reflexivity.
  - destruct three; [discriminate|].
    match type of Hv with (if ?b then _ else _) = _ => destruct b end; [discriminate|].
    einv Hv. einv Hvb. einv Hvbb. unfold go_slice in Hvbbb.
    destruct v0; try discriminate.
    destruct v1 as [[| |l| | |]|], v2 as [[| |h| | |]|]; try discriminate;
      repeat match type of Hvbbb with match ?x with _ => _ end = _ => destruct x end; inversion Hvbbb; reflexivity.
  - einv Hv. destruct v0 as [|r [|]]; try discriminate. apply typed_ok in Hvb. destruct Hvb as [-> Hvb]. exact Hvb.
  - einv Hv. einv Hvb. destruct v1 as [|r [|]]; try discriminate. apply typed_ok in Hvbb. destruct Hvbb as [-> Hvbb]. exact Hvbb.
  - discriminate.
Qed.

End SemFacts.
