(* Compiled statements behave like their source (one frame of the VM): Leroy-style code_at + a stack-shape
   invariant that admits the junk left by || / && on the object stack. *)
From Coq Require Import List ZArith Bool Lia.
From RG.Base Require Import Outcome GoInt GoSlice.
From RG.Quasigo Require Import Source Bytecode Compile VM Sem Guards VMLemmas CompileLemmas SemLemmas NativeLemmas ExprCorrect.
Import ListNotations.
Local Open Scope Z_scope.

(* ---------- compile-state order ---------- *)
Definition st_le (a b : cstate) : Prop := pool_le a b /\ exists l, cs_locals b = cs_locals a ++ l.

Lemma st_le_refl a : st_le a a.
Proof. split; [apply pool_le_refl|exists []; now rewrite app_nil_r]. Qed.

Lemma st_le_trans a b c : st_le a b -> st_le b c -> st_le a c.
Proof.
  intros [H1 [l1 H2]] [H3 [l2 H4]]. split; [eapply pool_le_trans; eauto|].
  exists (l1 ++ l2). rewrite H4, H2. now rewrite app_assoc.
Qed.

Lemma st_le_of_mono a b : pool_le a b /\ cs_locals b = cs_locals a -> st_le a b.
Proof. intros [H1 H2]. split; [exact H1|]. exists []. now rewrite app_nil_r. Qed.

Lemma index_of_app {A} (eqb : A -> A -> bool) x l l' : forall i0 i, index_of eqb x l i0 = Some i -> index_of eqb x (l ++ l') i0 = Some i.
Proof.
  induction l as [|y l IH]; intros i0 i H; cbn [index_of app] in *; [discriminate|].
  destruct (eqb x y); [exact H|]. now apply IH.
Qed.

Lemma index_of_app_none {A} (eqb : A -> A -> bool) x l l' : forall i0, index_of eqb x l i0 = None ->
  index_of eqb x (l ++ l') i0 = index_of eqb x l' (i0 + len l).
Proof.
  induction l as [|y l IH]; intros i0 H; cbn [index_of app] in *.
  - unfold len. cbn [length]. f_equal. lia.
  - destruct (eqb x y); [discriminate|]. rewrite IH by exact H. rewrite len_cons. f_equal. lia.
Qed.

Section Defs.
Variable cfg : config.
Variable env : cenv.
Variable FL : list Z.      (* the locals map of the whole function, i.e. the slot of every local *)

(* the run-time meaning of the locals map: every variable of the store that has a slot is held by that slot;
   locals are never named like parameters *)
Definition ginv (sto : store) (L : list value) (IL : list Z) : Prop :=
  len L = max_locals cfg /\ len IL = max_locals cfg /\
  (forall x i, index_of Z.eqb x FL 0 = Some i ->
     match store_get sto x with
     | Some (VInt z) => nthz IL i = Some z
     | Some v => nthz L i = Some v
     | None => True
     end).

Definition fl_ok : Prop :=
  len FL <= max_locals cfg /\ (forall x i, index_of Z.eqb x FL 0 = Some i -> is_param env x = false).

Definition in_fl (st : cstate) : Prop := exists l, FL = cs_locals st ++ l.

Lemma ginv_locals_ok st sto L IL : fl_ok -> in_fl st -> ginv sto L IL -> locals_ok cfg st sto L IL.
Proof.
  intros [Hmax _] [l Hl] (HL & HIL & Hg). split; [exact HL|split; [exact HIL|]].
  intros x i Hx. assert (Hx' : index_of Z.eqb x FL 0 = Some i) by (rewrite Hl; now apply index_of_app).
  split; [|now apply Hg]. pose proof (index_of_lt _ _ _ _ _ Hx'). lia.
Qed.

Lemma in_fl_le a b : st_le a b -> in_fl b -> in_fl a.
Proof. intros [_ [l Hl]] [l' Hl']. exists (l ++ l'). rewrite Hl', Hl. now rewrite app_assoc. Qed.

End Defs.

(* ---------- monotonicity of the statement pass ---------- *)
Section MonoS.
Variable cfg : config.
Variable env : cenv.

Lemma define_vars_le lhs : forall st st' c, define_vars cfg env lhs st = COk (st', c) -> st_le st st'.
Proof.
  induction lhs as [|[x t] lhs IH]; intros st st' c H; cbn [define_vars] in H.
  - inversion H; subst. apply st_le_refl.
  - destruct (index_of Z.eqb x (cs_locals st) 0); [discriminate|].
    destruct (is_param env x); [discriminate|]. destruct (negb (supported t)); [discriminate|].
    destruct (len (cs_locals st) =? max_locals cfg); [discriminate|].
    cinv H. destruct a as [st2 c2]. inversion Hb; subst. apply IH in Ha.
    eapply st_le_trans; [|exact Ha]. split; [split; cbn; exists []; now rewrite app_nil_r|]. cbn. eauto.
Qed.

Definition smono (s : stmt) : Prop := forall st st' r, rstmt_of cfg env s st = COk (st', r) -> st_le st st'.

Lemma rblock_mono l : Forall smono l -> forall st st' rl, rblock cfg env l st = COk (st', rl) -> st_le st st'.
Proof.
  induction 1 as [|s l Hs _ IH]; intros st st' rl H; cbn in H.
  - inversion H; subst. apply st_le_refl.
  - cinv H. destruct a as [st1 r]. cinv Hb. destruct a as [st2 rl2]. inversion Hbb; subst.
    eapply st_le_trans; [eapply Hs; eauto|eapply IH; eauto].
Qed.

Lemma cexpr_le e st st' c : cexpr env e st = COk (st', c) -> st_le st st'.
Proof. intros H. apply st_le_of_mono. eapply cexpr_mono; eauto. Qed.

Lemma rstmt_mono s : smono s.
Proof.
  induction s as [res|tok lhs nrhs rhs|x inc|init c t e IHinit IHt IHe|init c post body IHinit IHpost IHbody| |e|l IHl| ] using stmt_ind';
    intros st st' r H; cbn [rstmt_of] in H.
  - destruct (ce_retvoid env); [inversion H; subst; apply st_le_refl|].
    destruct res as [|e res]; [discriminate|].
    destruct (ident_name e =? name_true); [inversion H; subst; apply st_le_refl|].
    destruct (ident_name e =? name_false); [inversion H; subst; apply st_le_refl|].
    cinv H. destruct a as [st1 c]. inversion Hb; subst. eapply cexpr_le; eauto.
  - destruct (negb (nrhs =? 1)); [discriminate|]. destruct tok; try discriminate.
    + cinv H. destruct a as [st1 c]. cinv Hb. destruct a as [st2 cs]. inversion Hbb; subst.
      eapply st_le_trans; [eapply cexpr_le; eauto|eapply define_vars_le; eauto].
    + cinv H. destruct a as [st1 c]. cinv Hb. inversion Hbb; subst. eapply cexpr_le; eauto.
  - destruct (index_of Z.eqb x (cs_locals st) 0); [|discriminate]. inversion H; subst. apply st_le_refl.
  - cinv H. destruct a as [st0 ri]. cinv Hb. destruct a as [st1 cc]. cinv Hbb. destruct a as [st2 rt].
    assert (H0 : st_le st st0).
    { destruct init as [i|]; [|inversion Ha; subst; apply st_le_refl].
      cinv Ha. destruct a as [st9 r9]. inversion Hab; subst. eapply IHinit; eauto. }
    assert (H2 : st_le st st2).
    { eapply st_le_trans; [exact H0|]. eapply st_le_trans; [eapply cexpr_le; eauto|]. eapply rblock_mono; eauto. }
    destruct e as [e'|].
    + cinv Hbbb. destruct a as [st3 re]. inversion Hbbbb; subst. eapply st_le_trans; [exact H2|]. eapply IHe; eauto.
    + inversion Hbbb; subst. exact H2.
  - destruct c as [c'|], init, post; try discriminate.
    + cinv H. destruct a as [st1 rb]. cinv Hb. destruct a as [st2 cc]. inversion Hbb; subst.
      eapply st_le_trans; [eapply rblock_mono; eauto|eapply cexpr_le; eauto].
    + cinv H. destruct a as [st1 rb]. inversion Hb; subst. eapply rblock_mono; eauto.
  - inversion H; subst. apply st_le_refl.
  - destruct e; try discriminate. destruct t; try discriminate. cinv H. destruct a as [st1 c]. inversion Hb; subst. eapply cexpr_le; eauto.
  - cinv H. destruct a as [st1 rl]. inversion Hb; subst. eapply rblock_mono; eauto.
  - discriminate.
Qed.

(* ---------- the layout does not depend on the break distance ---------- *)
Definition ksize (r : rstmt) : Prop := forall k k', size (gen cfg r k) = size (gen cfg r k').

Lemma genblock_cons s l k : genblock cfg (s :: l) k = gen cfg s (k + size (genblock cfg l k)) ++ genblock cfg l k.
Proof. reflexivity. Qed.

Lemma ksize_block l : Forall ksize l -> forall k k', size (genblock cfg l k) = size (genblock cfg l k').
Proof.
  induction 1 as [|s l Hs _ IH]; intros k k'; [reflexivity|].
  rewrite !genblock_cons, !size_app. rewrite (IH k k'). f_equal. apply Hs.
Qed.

Lemma ksize_all r : ksize r.
Proof.
  induction r as [c|cc t e IHt IHe|cc b IHb| |l IHl] using rstmt_ind'; intros k k'; cbn [gen].
  - reflexivity.
  - fold (genblock cfg). destruct e as [e'|].
    + pose proof (IHe e' eq_refl) as He. destruct (then_closed cfg t); rewrite !size_app; cbn [size];
        rewrite ?(ksize_block t IHt _ (k' + size (gen cfg e' k'))), ?(ksize_block t IHt _ (k' + 3 + size (gen cfg e' k'))), (He k k'); reflexivity.
    + rewrite !size_app. cbn [size]. now rewrite (ksize_block t IHt k k').
  - reflexivity.
  - reflexivity.
  - fold (genblock cfg). now apply ksize_block.
Qed.

Lemma size_genblock_k l k k' : size (genblock cfg l k) = size (genblock cfg l k').
Proof. apply ksize_block. apply Forall_forall. intros; apply ksize_all. Qed.

End MonoS.

(* ---------- stores ---------- *)
Lemma store_get_set_same sto x v : store_get (store_set sto x v) x = Some v.
Proof.
  induction sto as [|[y w] sto IH]; cbn [store_set store_get]; [now rewrite Z.eqb_refl|].
  destruct (Z.eqb_spec x y); cbn [store_get]; [now rewrite Z.eqb_refl|].
  destruct (Z.eqb_spec x y); [congruence|exact IH].
Qed.

Lemma store_get_set_other sto x y v : x <> y -> store_get (store_set sto x v) y = store_get sto y.
Proof.
  intros Hne. induction sto as [|[z w] sto IH]; cbn [store_set store_get].
  - destruct (Z.eqb_spec y x); [congruence|reflexivity].
  - destruct (Z.eqb_spec x z); cbn [store_get].
    + subst z. destruct (Z.eqb_spec y x); [congruence|reflexivity].
    + destruct (Z.eqb_spec y z); [reflexivity|exact IH].
Qed.

Lemma assign_all_other lhs : forall sto vs sto' y, assign_all sto lhs vs = Some sto' ->
  (forall t, ~ In (y, t) lhs) -> store_get sto' y = store_get sto y.
Proof.
  induction lhs as [|[x t] lhs IH]; intros sto vs sto' y H Hn; destruct vs as [|v vs]; cbn [assign_all] in H; try discriminate.
  - now inversion H.
  - destruct (has_ty v t); [|discriminate]. rewrite (IH _ _ _ _ H).
    + apply store_get_set_other. intros ->. apply (Hn t). now left.
    + intros t' Hi. apply (Hn t'). now right.
Qed.

Lemma index_of_some_in x l : forall i0 i, index_of Z.eqb x l i0 = Some i -> In x l.
Proof.
  induction l as [|y l IH]; intros i0 i H; cbn [index_of] in H; [discriminate|].
  destruct (Z.eqb_spec x y); [now left|right; eauto].
Qed.

Lemma index_of_none_notin x l : forall i0, index_of Z.eqb x l i0 = None -> ~ In x l.
Proof.
  induction l as [|y l IH]; intros i0 H; cbn [index_of] in H; [intros []|].
  destruct (Z.eqb_spec x y); [discriminate|]. intros [->|Hi]; [congruence|]. eapply IH; eauto.
Qed.

Lemma index_of_in x l : In x l -> forall i0, exists i, index_of Z.eqb x l i0 = Some i.
Proof.
  induction l as [|y l IH]; intros Hi i0; [destruct Hi|]. cbn [index_of].
  destruct (Z.eqb_spec x y); [eauto|]. destruct Hi as [->|Hi]; [congruence|]. now apply IH.
Qed.

Lemma index_of_inj l : forall x y i0 i, index_of Z.eqb x l i0 = Some i -> index_of Z.eqb y l i0 = Some i -> x = y.
Proof.
  induction l as [|z l IH]; intros x y i0 i Hx Hy; cbn [index_of] in *; [discriminate|].
  destruct (Z.eqb_spec x z), (Z.eqb_spec y z); subst; try congruence.
  - inversion Hx; subst. apply index_of_lt in Hy. lia.
  - inversion Hy; subst. apply index_of_lt in Hx. lia.
  - eapply IH; eauto.
Qed.

(* ---------- defining and assigning ---------- *)
Section Vars.
Variable cfg : config.
Variable env : cenv.

Lemma assign_vars_app l1 : forall l2 st,
  assign_vars (l1 ++ l2) st = (do c1 <- assign_vars l1 st ;; do c2 <- assign_vars l2 st ;; COk (c1 ++ c2)).
Proof.
  induction l1 as [|[x t] l1 IH]; intros l2 st; cbn [app assign_vars].
  - cbn [cbind]. destruct (assign_vars l2 st); reflexivity.
  - destruct (index_of Z.eqb x (cs_locals st) 0); [|reflexivity]. rewrite IH.
    destruct (assign_vars l1 st) as [c1|]; cbn [cbind]; [|reflexivity]. destruct (assign_vars l2 st); reflexivity.
Qed.

Lemma define_vars_app l1 : forall l2 st,
  define_vars cfg env (l1 ++ l2) st =
  (do '(st1, c1) <- define_vars cfg env l1 st ;; do '(st2, c2) <- define_vars cfg env l2 st1 ;; COk (st2, c1 ++ c2)).
Proof.
  induction l1 as [|[x t] l1 IH]; intros l2 st; cbn [app define_vars].
  - cbn [cbind]. destruct (define_vars cfg env l2 st) as [[st2 c2]|]; reflexivity.
  - destruct (index_of Z.eqb x (cs_locals st) 0); [reflexivity|].
    destruct (is_param env x); [reflexivity|]. destruct (negb (supported t)); [reflexivity|].
    destruct (len (cs_locals st) =? max_locals cfg); [reflexivity|].
    rewrite IH. destruct (define_vars cfg env l1 _) as [[st1 c1]|]; cbn [cbind]; [|reflexivity].
    destruct (define_vars cfg env l2 st1) as [[st2 c2]|]; reflexivity.
Qed.

Lemma define_vars_names l : forall st st' c, define_vars cfg env l st = COk (st', c) ->
  forall x t, In (x, t) l -> In x (cs_locals st').
Proof.
  induction l as [|[y u] l IH]; intros st st' c H x t Hi; [destruct Hi|]. cbn [define_vars] in H.
  destruct (index_of Z.eqb y (cs_locals st) 0); [discriminate|].
  destruct (is_param env y); [discriminate|]. destruct (negb (supported u)); [discriminate|].
  destruct (len (cs_locals st) =? max_locals cfg); [discriminate|].
  cinv H. destruct a as [st2 c2]. inversion Hb; subst. destruct Hi as [Hi|Hi].
  - inversion Hi; subst. apply define_vars_le in Ha. destruct Ha as [_ [l' Hl]]. rewrite Hl. cbn. apply in_or_app. left. apply in_or_app. right. now left.
  - eapply IH; eauto.
Qed.

End Vars.

(* ---------- the lastOp peephole is only taken when the then-branch cannot fall through ---------- *)
Section Closed.
Variable cfg : config.
Variable env : cenv.
Variable nat_fun : Z -> list value -> option (list value).
Variable callf : Z -> list value -> eres (option value).

(* every opcode isUncondJump accepts really never falls through to the next instruction *)
Definition uncond_sound : bool :=
  forallb (fun k => match k with KJump | KReturnTop | KReturnIntTop | KReturnFalse | KReturnTrue | KReturn => true | _ => false end) (uncond_ops cfg).

Hypothesis Hsound : uncond_sound = true.
Hypothesis Hbind : bind_resets_last cfg = true.

Lemma is_uncond_sound k : is_uncond cfg k = true ->
  match k with KJump | KReturnTop | KReturnIntTop | KReturnFalse | KReturnTrue | KReturn => True | _ => False end.
Proof.
  unfold is_uncond. intros H. apply existsb_exists in H as (k' & Hin & Hk). apply kind_eqb_eq in Hk. subst k'.
  unfold uncond_sound in Hsound. rewrite forallb_forall in Hsound. specialize (Hsound _ Hin). destruct k; auto; discriminate.
Qed.

Notation exec := (exec (nat_sig cfg) nat_fun callf).

Definition never_normal (s : stmt) : Prop := forall f sto sto', exec f s sto <> EOk (ONormal sto').
Definition block_never_normal (l : list stmt) : Prop := forall f sto sto', block_with (exec f) l sto <> EOk (ONormal sto').

Lemma last_code_snoc c i o : last_code (c ++ [i]) o = Some (ikind i).
Proof. unfold last_code. rewrite rev_app_distr. reflexivity. Qed.

Definition closedP (s : stmt) : Prop := forall st st' r o, rstmt_of cfg env s st = COk (st', r) -> safe_stmt s = true ->
  uncond_opt cfg (last_s cfg r o) = true -> uncond_opt cfg o = true \/ never_normal s.

Lemma closed_block l : Forall closedP l -> forall st st' rl o, rblock cfg env l st = COk (st', rl) -> forallb safe_stmt l = true ->
  uncond_opt cfg (last_block cfg rl o) = true -> uncond_opt cfg o = true \/ block_never_normal l.
Proof.
  induction 1 as [|s l Hs _ IH]; intros st st' rl o Hr Hsafe Hu; cbn in Hr.
  - inversion Hr; subst. left. exact Hu.
  - cinv Hr. destruct a as [st1 r]. cinv Hrb. destruct a as [st2 rl2]. inversion Hrbb; subst. clear Hrbb.
    cbn [forallb] in Hsafe. apply andb_prop in Hsafe as [Hss Hsl].
    change (last_block cfg (r :: rl2) o) with (last_block cfg rl2 (last_s cfg r o)) in Hu.
    destruct (IH _ _ _ _ Hrba Hsl Hu) as [Ho'|Hnn].
    + destruct (Hs _ _ _ _ Hra Hss Ho') as [Ho|Hnn]; [now left|]. right. intros f sto sto' He. cbn [block_with] in He.
      destruct (exec f s sto) as [[sto1|sto1|v]| | | |] eqn:E; cbn [ebind] in He; try discriminate. exact (Hnn _ _ _ E).
    + right. intros f sto sto' He. cbn [block_with] in He.
      destruct (exec f s sto) as [[sto1|sto1|v]| | | |] eqn:E; cbn [ebind] in He; try discriminate. exact (Hnn _ _ _ He).
Qed.

Lemma uncond_none : uncond_opt cfg (bound cfg None) = false.
Proof. unfold bound. destruct (bind_resets_last cfg); reflexivity. Qed.

Lemma bound_none o : bound cfg o = None.
Proof. unfold bound. now rewrite Hbind. Qed.

Lemma closed_all s : closedP s.
Proof.
  induction s as [res|tok lhs nrhs rhs|x inc|init c t e IHinit IHt IHe|init c post body IHinit IHpost IHbody| |e|l IHl| ] using stmt_ind';
    intros st st' r o Hr Hsafe Hu; cbn [rstmt_of] in Hr.
  - (* return *) right. intros f sto sto' He. destruct f; [discriminate|]. cbn [Sem.exec] in He.
    destruct res; [discriminate|]. destruct (eval _ _ _ _ _); discriminate.
  - (* assign *)
    exfalso. destruct (negb (nrhs =? 1)); [discriminate|]. cbn [safe_stmt] in Hsafe. apply andb_prop in Hsafe as [Hsafe _]. apply andb_prop in Hsafe as [_ Hl].
    destruct tok; try discriminate.
    + cinv Hr. destruct a as [st1 c]. cinv Hrb. destruct a as [st2 cs]. inversion Hrbb; subst. clear Hrbb.
      destruct lhs as [|[x t] lhs]; [discriminate|]. cbn [rev] in Hrba. rewrite define_vars_app in Hrba.
      cinv Hrba. destruct a as [st3 c3]. cinv Hrbab. destruct a as [st4 c4]. inversion Hrbabb; subst.
      cbn [define_vars] in Hrbaba. destruct (index_of Z.eqb x (cs_locals st3) 0); [discriminate|]. destruct (is_param env x); [discriminate|].
      destruct (negb (supported t)); [discriminate|]. destruct (len (cs_locals st3) =? max_locals cfg); [discriminate|].
      cbn [cbind] in Hrbaba. inversion Hrbaba; subst. cbn [last_s] in Hu. rewrite !app_assoc, last_code_snoc in Hu.
      cbn [uncond_opt ikind] in Hu. apply is_uncond_sound in Hu. destruct (is_int t); exact Hu.
    + cinv Hr. destruct a as [st1 c]. cinv Hrb. inversion Hrbb; subst. clear Hrbb.
      destruct lhs as [|[x t] lhs]; [discriminate|]. cbn [rev] in Hrba. rewrite assign_vars_app in Hrba.
      cinv Hrba. cinv Hrbab. inversion Hrbabb; subst. cbn [assign_vars] in Hrbaba.
      destruct (index_of Z.eqb x (cs_locals st') 0); [|discriminate]. cbn [cbind] in Hrbaba. inversion Hrbaba; subst.
      cbn [last_s] in Hu. rewrite !app_assoc, last_code_snoc in Hu. cbn [uncond_opt ikind] in Hu. apply is_uncond_sound in Hu. destruct (is_int t); exact Hu.
  - exfalso. destruct (index_of Z.eqb x (cs_locals st) 0); [|discriminate]. inversion Hr; subst.
    cbn [last_s last_code rev app uncond_opt ikind] in Hu. apply is_uncond_sound in Hu. destruct inc; exact Hu.
  - (* if: its end label resets lastOp *)
    exfalso. cinv Hr. destruct a as [st0 ri]. cinv Hrb. destruct a as [st1 cc]. cinv Hrbb. destruct a as [st2 rt].
    assert (Hlast : forall re, uncond_opt cfg (last_s cfg (RBlock (ri ++ [RIf cc rt re])) o) = false).
    { intros re. cbn [last_s]. fold (last_block cfg).
      assert (Happ : forall l1 l2 o0, last_block cfg (l1 ++ l2) o0 = last_block cfg l2 (last_block cfg l1 o0)).
      { induction l1 as [|a l1 IH1]; intros l2 o0; [reflexivity|]. cbn [app]. change (last_block cfg (a :: l1 ++ l2) o0) with (last_block cfg (l1 ++ l2) (last_s cfg a o0)). now rewrite IH1. }
      rewrite Happ. change (last_block cfg [RIf cc rt re] ?x) with (last_s cfg (RIf cc rt re) x).
      destruct re; cbn [last_s]; rewrite bound_none; reflexivity. }
    destruct e as [e'|].
    + cinv Hrbbb. destruct a as [st3 re]. inversion Hrbbbb; subst. rewrite Hlast in Hu. discriminate.
    + inversion Hrbbb; subst. rewrite Hlast in Hu. discriminate.
  - (* for *)
    exfalso. destruct c as [c'|], init, post; try discriminate.
    + cinv Hr. destruct a as [st1 rb]. cinv Hrb. destruct a as [st2 cc]. inversion Hrbb; subst. cbn [last_s] in Hu. rewrite bound_none in Hu. discriminate.
    + cinv Hr. destruct a as [st1 rb]. inversion Hrb; subst. cbn [last_s] in Hu. rewrite bound_none in Hu. discriminate.
  - right. intros f sto sto' He. destruct f; discriminate.
  - (* call statement *)
    exfalso. destruct e; try discriminate. destruct t; try discriminate. cinv Hr. destruct a as [st1 c]. inversion Hrb; subst. clear Hrb.
    cbn [last_s] in Hu. cbn [cexpr] in Hra. destruct f as [| |id vi|id res|]; try discriminate.
    + destruct args; [discriminate|]. cinv Hra. destruct a as [st2 ca]. destruct (is_str (ty_of e)); [|discriminate]. inversion Hrab; subst.
      rewrite last_code_snoc in Hu. apply is_uncond_sound in Hu. exact Hu.
    + cinv Hra. destruct a as [st0 cr]. cinv Hrab. destruct a as [[st2 ca] n].
      destruct (vi =? 0).
      * inversion Hrabb; subst. rewrite !app_assoc, last_code_snoc in Hu. apply is_uncond_sound in Hu. exact Hu.
      * destruct (255 <? n); [discriminate|]. inversion Hrabb; subst.
        change [I KSetVariadicLen n; I KCallNative id] with ([I KSetVariadicLen n] ++ [I KCallNative id]) in Hu.
        rewrite !app_assoc, last_code_snoc in Hu. apply is_uncond_sound in Hu. exact Hu.
    + cinv Hra. destruct a as [st0 cr]. cinv Hrab. destruct a as [[st2 ca] n]. inversion Hrabb; subst.
      rewrite !app_assoc, last_code_snoc in Hu. apply is_uncond_sound in Hu. destruct res; exact Hu.
  - (* block *)
    cinv Hr. destruct a as [st1 rl]. inversion Hrb; subst. cbn [last_s] in Hu. fold (last_block cfg) in Hu.
    cbn [safe_stmt] in Hsafe.
    assert (Hsl : forallb safe_stmt l = true).
    { clear - Hsafe. induction l as [|a l IH]; [reflexivity|]. cbn [forallb]. apply andb_prop in Hsafe as [H1 H2]. rewrite H1. cbn [andb]. exact (IH H2). }
    destruct (closed_block l IHl _ _ _ _ Hra Hsl Hu) as [Ho|Hnn]; [now left|]. right.
    intros f sto sto' He. destruct f; [discriminate|]. cbn [Sem.exec] in He. exact (Hnn _ _ _ He).
  - discriminate.
Qed.

End Closed.

(* ---------- one frame ---------- *)
Section FrameS.
Variable cfg : config.
Variable funcs : list vfunc.
Variable nat_fun : Z -> list value -> option (list value).
Variable callf : Z -> list value -> eres (option value).
Variable env : cenv.
Variable fn : vfunc.
Variable C : code.
Hypothesis Hfetch : forall pc i, instr_at C pc = Some i -> vf_fetch fn pc = Some i.
Variables (B : list value) (IB : list Z) (top itop : Z) (K : list (frame * opkind)).
Hypothesis Hcall : call_ok cfg funcs nat_fun callf.
Variable FL : list Z.
Hypothesis HFL : fl_ok cfg env FL.
Hypothesis Hsound : uncond_sound cfg = true.
Hypothesis Hbind : bind_resets_last cfg = true.

Notation star := (star cfg funcs nat_fun).
Notation S := (ExprCorrect.S fn B IB top itop K).
Notation pools_ok := (pools_ok fn).
Notation params_ok := (params_ok env B IB top itop).
Notation ginv := (ginv cfg FL).
Notation in_fl := (in_fl FL).
Notation fetch_at := (fetch_at fn C Hfetch).

Ltac step_at Hc :=
  apply star_one; unfold step, ExprCorrect.S; cbn [st_fr fr_fn fr_pc st_objs st_ints st_vlen st_callers fr_locals fr_ilocals fr_top fr_itop];
  rewrite (fetch_at _ _ _ Hc); cbn [ikind iarg].
Ltac pc_eq := unfold ExprCorrect.S; f_equal; f_equal; f_equal; lia.
Ltac sz := repeat first [rewrite size_app | progress cbn [size ikind width operand_of app]].

Lemma params_ok_set sto x v : params_ok sto -> is_param env x = false -> params_ok (store_set sto x v).
Proof.
  intros [Ho Hi] Hx. unfold is_param in Hx. split.
  - intros y i Hnb Hy. destruct (Ho _ _ Hnb Hy) as (w & Hs & Hr). exists w. split; [|exact Hr].
    rewrite store_get_set_other; [exact Hs|]. intros ->. rewrite Hy in Hx. discriminate.
  - intros y i Hnb Hyo Hy. destruct (Hi _ _ Hnb Hyo Hy) as (z & Hs & Hr). exists z. split; [|exact Hr].
    rewrite store_get_set_other; [exact Hs|]. intros ->. rewrite Hyo, Hy in Hx. discriminate.
Qed.

Lemma pushes_o_cons v vs Y : pushes_o (v :: vs) Y = pushes_o vs (push_o v Y).
Proof. reflexivity. Qed.
Lemma pushes_i_cons v vs Y : pushes_i (v :: vs) Y = pushes_i vs (push_i v Y).
Proof. reflexivity. Qed.

Lemma set_local_step (t : ty) id v L IL : has_ty v t = true -> 0 <= id < max_locals cfg ->
  len L = max_locals cfg -> len IL = max_locals cfg ->
  forall pc rest Y YI vl, code_at C pc (I (pick (is_int t) KSetIntLocal KSetLocal) id :: rest) ->
  exists L' IL', star (S pc L IL (push_o v Y) (push_i v YI) vl) (S (pc + 2) L' IL' Y YI vl) /\
    len L' = max_locals cfg /\ len IL' = max_locals cfg /\
    (match v with VInt z => nthz IL' id = Some z | _ => nthz L' id = Some v end) /\
    (forall j, 0 <= j -> j <> id -> nthz L' j = nthz L j /\ nthz IL' j = nthz IL j).
Proof.
  intros Hty Hid HL HIL pc rest Y YI vl Hat.
  pose proof (has_ty_is_vint _ _ Hty) as Hk.
  destruct (is_vint v) eqn:Ev.
  - destruct v as [s|b|z| |m|o]; try discriminate. destruct t; cbn [is_int_ty] in Hk; try discriminate. cbn [is_int pick push_o push_i] in *.
    exists L, (set_nth IL (Z.to_nat id) z). split.
    + step_at Hat. cbn [app]. rewrite HIL. destruct (Z.leb_spec 0 id); [|lia]. destruct (Z.ltb_spec id (max_locals cfg)); [|lia]. reflexivity.
    + split; [exact HL|split; [now rewrite len_set_nth|split; [apply nthz_set_nth_same; lia|intros j Hj Hne; split; [reflexivity|apply nthz_set_nth_other; lia]]]].
  - assert (Et : is_int t = false) by (destruct t; cbn [is_int_ty] in Hk; cbn; congruence).
    rewrite Et in Hat. cbn [pick] in Hat. rewrite push_o_obj, push_i_obj by exact Ev.
    exists (set_nth L (Z.to_nat id) v), IL. split.
    + step_at Hat. cbn [app]. rewrite HL. destruct (Z.leb_spec 0 id); [|lia]. destruct (Z.ltb_spec id (max_locals cfg)); [|lia]. reflexivity.
    + split; [now rewrite len_set_nth|split; [exact HIL|split; [|intros j Hj Hne; split; [apply nthz_set_nth_other; lia|reflexivity]]]].
      destruct v; try discriminate; apply nthz_set_nth_same; lia.
Qed.

(* the locals invariant after one slot has been written *)
Lemma ginv_update sto sto' L IL L' IL' x v id :
  ginv sto L IL -> index_of Z.eqb x FL 0 = Some id ->
  store_get sto' x = Some v -> (forall y, y <> x -> store_get sto' y = store_get sto y) ->
  len L' = max_locals cfg -> len IL' = max_locals cfg ->
  (match v with VInt z => nthz IL' id = Some z | _ => nthz L' id = Some v end) ->
  (forall j, 0 <= j -> j <> id -> nthz L' j = nthz L j /\ nthz IL' j = nthz IL j) ->
  ginv sto' L' IL'.
Proof.
  intros (HL & HIL & Hg) Hx Hget Hoth HL' HIL' Hslot Hrest.
  split; [exact HL'|split; [exact HIL'|]].
  intros y i Hy. pose proof (index_of_lt _ _ _ _ _ Hy) as Hr.
  destruct (Z.eq_dec y x) as [->|Hne].
  - rewrite Hx in Hy. inversion Hy; subst. rewrite Hget. destruct v; exact Hslot.
  - rewrite (Hoth _ Hne). pose proof (Hg _ _ Hy) as Hv.
    assert (Hid : i <> id) by (intros E; subst i; apply Hne; exact (index_of_inj _ _ _ _ _ Hy Hx)).
    destruct (Hrest i ltac:(lia) Hid) as [H1 H2]. destruct (store_get sto y) as [[| |z| | |]|]; rewrite ?H1, ?H2; exact Hv.
Qed.

Lemma fl_slot st x : in_fl (mkcs (cs_consts st) (cs_iconsts st) (cs_locals st ++ [x])) ->
  index_of Z.eqb x (cs_locals st) 0 = None -> index_of Z.eqb x FL 0 = Some (len (cs_locals st)).
Proof.
  intros [l Hl] Hn. cbn [cs_locals] in Hl. rewrite Hl, <- app_assoc. rewrite index_of_app_none by exact Hn.
  cbn [app index_of]. rewrite Z.eqb_refl. f_equal; lia.
Qed.

Definition slot_holds (L : list value) (IL : list Z) (i : Z) (v : value) : Prop :=
  match v with VInt z => nthz IL i = Some z | _ => nthz L i = Some v end.

(* the machine side of a definition: every variable's slot receives its value, nothing else changes *)
Lemma define_vm : forall lhs vs st st' cs, define_vars cfg env (rev lhs) st = COk (st', cs) -> in_fl st' ->
  forall pc, code_at C pc cs ->
  Forall2 (fun v xt => has_ty v (snd xt) = true) vs lhs ->
  forall L IL, len L = max_locals cfg -> len IL = max_locals cfg ->
  forall Y YI vl, exists L' IL',
    star (S pc L IL (pushes_o vs Y) (pushes_i vs YI) vl) (S (pc + size cs) L' IL' Y YI vl) /\
    len L' = max_locals cfg /\ len IL' = max_locals cfg /\
    (forall x t v, In ((x, t), v) (combine lhs vs) -> exists i, index_of Z.eqb x FL 0 = Some i /\ slot_holds L' IL' i v) /\
    (forall j, 0 <= j -> (forall x t, In (x, t) lhs -> index_of Z.eqb x FL 0 <> Some j) -> nthz L' j = nthz L j /\ nthz IL' j = nthz IL j) /\
    (forall x t, In (x, t) lhs -> index_of Z.eqb x (cs_locals st) 0 = None /\ is_param env x = false) /\
    NoDup (map fst lhs).
Proof.
  induction lhs as [|[x t] lhs IH]; intros vs st st' cs Hd Hfl pc Hat Hty L IL HL HIL Y YI vl.
  - inversion Hty; subst. cbn in Hd. inversion Hd; subst.
    exists L, IL. split; [eapply star_eq; [apply star_refl|]; cbn [pushes_o pushes_i size]; apply S_eq; lia|].
    split; [exact HL|split; [exact HIL|]]. split; [intros x t v []|]. split; [auto|]. split; [intros x t []|constructor].
  - inversion Hty as [|v ? vs' ? Hv Hvs]; subst. cbn [snd] in Hv.
    cbn [rev] in Hd. rewrite define_vars_app in Hd. cinv Hd. destruct a as [st1 c1]. cinv Hdb. destruct a as [st2 c2]. inversion Hdbb; subst. clear Hdbb.
    cbn [define_vars] in Hdba.
    destruct (index_of Z.eqb x (cs_locals st1) 0) eqn:Ex; [discriminate|].
    destruct (is_param env x) eqn:Epx; [discriminate|]. destruct (negb (supported t)); [discriminate|].
    destruct (Z.eqb_spec (len (cs_locals st1)) (max_locals cfg)) as [|Hmax]; [discriminate|].
    cbn [cbind] in Hdba. inversion Hdba; subst. clear Hdba.
    pose proof (fl_slot _ _ Hfl Ex) as Hslotx.
    assert (Hfl1 : in_fl st1).
    { destruct Hfl as [l Hl]. cbn [cs_locals] in Hl. exists ([x] ++ l). rewrite Hl. now rewrite <- app_assoc. }
    rewrite pushes_o_cons, pushes_i_cons.
    destruct (IH vs' _ _ _ Hda Hfl1 _ (code_at_app_l _ _ _ _ Hat) Hvs L IL HL HIL (push_o v Y) (push_i v YI) vl)
      as (L1 & IL1 & Hs1 & HL1 & HIL1 & Hset1 & Hun1 & Hfresh1 & Hnd1).
    apply code_at_app_r in Hat.
    pose proof (len_nonneg' (cs_locals st1)). destruct HFL as [Hflmax _].
    pose proof (index_of_lt _ _ _ _ _ Hslotx) as Hidr.
    destruct (set_local_step t (len (cs_locals st1)) v L1 IL1 Hv ltac:(lia) HL1 HIL1 _ _ Y YI vl Hat) as (L2 & IL2 & Hs2 & HL2 & HIL2 & Hslot & Hrest).
    pose proof (define_vars_le _ _ _ _ _ _ Hda) as Hle1.
    assert (Ex0 : index_of Z.eqb x (cs_locals st) 0 = None).
    { destruct Hle1 as [_ [l Hl]]. destruct (index_of Z.eqb x (cs_locals st) 0) eqn:E; [|reflexivity].
      rewrite Hl in Ex. erewrite index_of_app in Ex by exact E. discriminate. }
    assert (Hnotin : forall t', ~ In (x, t') lhs).
    { intros t' Hi. apply (index_of_none_notin _ _ _ Ex).
      eapply (define_vars_names cfg env _ _ _ _ Hda x t'). apply in_rev. rewrite rev_involutive. exact Hi. }
    exists L2, IL2. split; [|split; [exact HL2|split; [exact HIL2|split; [|split; [|split]]]]].
    + eapply star_trans; [exact Hs1|]. eapply star_eq; [exact Hs2|]. apply S_eq. rewrite size_app. cbn [size ikind]. destruct (is_int t); cbn [pick width operand_of]; lia.
    + intros y u w Hi. cbn [combine] in Hi. destruct Hi as [Hi|Hi].
      * inversion Hi; subst. exists (len (cs_locals st1)). split; [exact Hslotx|]. unfold slot_holds. destruct w; exact Hslot.
      * destruct (Hset1 _ _ _ Hi) as (i & Hyi & Hh). exists i. split; [exact Hyi|].
        assert (Hne : i <> len (cs_locals st1)).
        { intros ->. apply in_combine_l in Hi. apply (Hnotin u). replace x with y; [exact Hi|]. exact (index_of_inj _ _ _ _ _ Hyi Hslotx). }
        pose proof (index_of_lt _ _ _ _ _ Hyi). destruct (Hrest i ltac:(lia) Hne) as [H1 H2].
        unfold slot_holds in *. destruct w; rewrite ?H1, ?H2; exact Hh.
    + intros j Hj Hnot. destruct (Hun1 j Hj) as [H1 H2]; [intros y u Hi; apply (Hnot y u); now right|].
      assert (Hne : j <> len (cs_locals st1)) by (intros ->; apply (Hnot x t); [now left|exact Hslotx]).
      destruct (Hrest j Hj Hne) as [H3 H4]. split; congruence.
    + intros y u [Hi|Hi]; [inversion Hi; subst; auto|exact (Hfresh1 _ _ Hi)].
    + cbn [map fst]. constructor; [|exact Hnd1]. intros Hi. apply in_map_iff in Hi as ([y u] & E & Hi). cbn [fst] in E. subst y. exact (Hnotin u Hi).
Qed.

(* the store side *)
Lemma assign_all_spec lhs : forall sto vs sto', assign_all sto lhs vs = Some sto' -> NoDup (map fst lhs) ->
  Forall2 (fun v xt => has_ty v (snd xt) = true) vs lhs /\
  (forall x t v, In ((x, t), v) (combine lhs vs) -> store_get sto' x = Some v) /\
  (forall y, (forall t, ~ In (y, t) lhs) -> store_get sto' y = store_get sto y).
Proof.
  induction lhs as [|[x t] lhs IH]; intros sto vs sto' Ha Hnd; destruct vs as [|v vs]; cbn [assign_all] in Ha; try discriminate.
  - inversion Ha; subst. split; [constructor|]. split; [intros x t v []|auto].
  - destruct (has_ty v t) eqn:Hty; [|discriminate]. inversion Hnd as [|? ? Hx Hnd']; subst.
    destruct (IH _ _ _ Ha Hnd') as (Hf & Hin & Hout). split; [constructor; auto|]. split.
    + intros y u w [Hi|Hi].
      * inversion Hi; subst. rewrite Hout; [apply store_get_set_same|]. intros t' Hi'. apply Hx. apply in_map_iff. exists (y, t'). auto.
      * eauto.
    + intros y Hy. rewrite Hout; [|intros t' Hi; apply (Hy t'); now right].
      apply store_get_set_other. intros ->. apply (Hy t). now left.
Qed.

Lemma define_ok : forall lhs vs st st' cs, define_vars cfg env (rev lhs) st = COk (st', cs) -> in_fl st' ->
  forall pc, code_at C pc cs ->
  forall sto sto', assign_all sto lhs vs = Some sto' -> length vs = length lhs ->
  forall L IL, ginv sto L IL -> params_ok sto ->
  forall Y YI vl, exists L' IL',
    star (S pc L IL (pushes_o vs Y) (pushes_i vs YI) vl) (S (pc + size cs) L' IL' Y YI vl) /\
    ginv sto' L' IL' /\ params_ok sto'.
Proof.
  intros lhs vs st st' cs Hd Hfl pc Hat sto sto' Ha Hlen L IL (HL & HIL & Hg) Hpar Y YI vl.
  (* typing of the values comes from the store side, distinctness of the names from the compiler side *)
  assert (Hty0 : Forall2 (fun v xt => has_ty v (snd xt) = true) vs lhs).
  { clear - Ha. revert sto vs Ha. induction lhs as [|[x t] lhs IH]; intros sto vs Ha; destruct vs as [|v vs]; cbn [assign_all] in Ha; try discriminate; [constructor|].
    destruct (has_ty v t) eqn:E; [|discriminate]. constructor; [exact E|eauto]. }
  destruct (define_vm lhs vs _ _ _ Hd Hfl _ Hat Hty0 L IL HL HIL Y YI vl) as (L' & IL' & Hs & HL' & HIL' & Hset & Hun & Hfresh & Hnd).
  destruct (assign_all_spec _ _ _ _ Ha Hnd) as (_ & Hin & Hout).
  exists L', IL'. split; [exact Hs|]. split.
  - split; [exact HL'|split; [exact HIL'|]]. intros y i Hy.
    destruct (in_dec Z.eq_dec y (map fst lhs)) as [Hi|Hni].
    + apply in_map_iff in Hi as ([y' u] & E & Hi). cbn [fst] in E. subst y'.
      (* y is one of the assigned variables: find its value *)
      destruct (In_nth _ _ (y, u) Hi) as (n & Hn & Hnth).
      assert (Hn' : (n < length vs)%nat) by lia.
      set (w := nth n vs VNil).
      assert (Hc : In ((y, u), w) (combine lhs vs)).
      { replace ((y, u), w) with (nth n (combine lhs vs) ((y, u), VNil)); [apply nth_In; rewrite combine_length; lia|].
        rewrite combine_nth by lia. subst w. now rewrite Hnth. }
      rewrite (Hin _ _ _ Hc). destruct (Hset _ _ _ Hc) as (i' & Hy' & Hh). rewrite Hy in Hy'. inversion Hy'; subst i'.
      unfold slot_holds in Hh. destruct w; exact Hh.
    + assert (Hy2 : forall t, ~ In (y, t) lhs) by (intros t Hi; apply Hni; apply in_map_iff; exists (y, t); auto).
      rewrite (Hout _ Hy2). pose proof (index_of_lt _ _ _ _ _ Hy).
      destruct (Hun i ltac:(lia)) as [H1 H2].
      { intros x t Hi Hx. apply (Hy2 t). replace y with x; [exact Hi|]. exact (index_of_inj _ _ _ _ _ Hx Hy). }
      pose proof (Hg _ _ Hy) as Hv. destruct (store_get sto y) as [[| |z| | |]|]; rewrite ?H1, ?H2; exact Hv.
  - (* parameters are not assigned *)
    destruct Hpar as [Ho Hi]. split.
    + intros y i Hnb Hy. destruct (Ho _ _ Hnb Hy) as (w & Hs0 & Hr). exists w. split; [|exact Hr].
      rewrite Hout; [exact Hs0|]. intros t Hin'. destruct (Hfresh _ _ Hin') as [_ Hp]. unfold is_param in Hp. now rewrite Hy in Hp.
    + intros y i Hnb Hyo Hy. destruct (Hi _ _ Hnb Hyo Hy) as (z & Hs0 & Hr). exists z. split; [|exact Hr].
      rewrite Hout; [exact Hs0|]. intros t Hin'. destruct (Hfresh _ _ Hin') as [_ Hp]. unfold is_param in Hp. now rewrite Hyo, Hy in Hp.
Qed.

(* the machine side of a plain assignment to existing variables: every variable's slot receives its value *)
Lemma assign_vm : forall lhs vs st cs, assign_vars (rev lhs) st = COk cs -> in_fl st ->
  forall pc, code_at C pc cs ->
  Forall2 (fun v xt => has_ty v (snd xt) = true) vs lhs -> NoDup (map fst lhs) ->
  forall L IL, len L = max_locals cfg -> len IL = max_locals cfg ->
  forall Y YI vl, exists L' IL',
    star (S pc L IL (pushes_o vs Y) (pushes_i vs YI) vl) (S (pc + size cs) L' IL' Y YI vl) /\
    len L' = max_locals cfg /\ len IL' = max_locals cfg /\
    (forall x t v, In ((x, t), v) (combine lhs vs) -> exists i, index_of Z.eqb x FL 0 = Some i /\ slot_holds L' IL' i v) /\
    (forall j, 0 <= j -> (forall x t, In (x, t) lhs -> index_of Z.eqb x FL 0 <> Some j) -> nthz L' j = nthz L j /\ nthz IL' j = nthz IL j) /\
    (forall x t, In (x, t) lhs -> is_param env x = false).
Proof.
  induction lhs as [|[x t] lhs IH]; intros vs st cs Ha Hfl pc Hat Hty Hnd L IL HL HIL Y YI vl.
  - inversion Hty; subst. cbn in Ha. inversion Ha; subst.
    exists L, IL. split; [eapply star_eq; [apply star_refl|]; cbn [pushes_o pushes_i size]; apply S_eq; lia|].
    split; [exact HL|split; [exact HIL|]]. split; [intros x t v []|]. split; [auto|intros x t []].
  - inversion Hty as [|v ? vs' ? Hv Hvs]; subst. cbn [snd] in Hv.
    cbn [map fst] in Hnd. inversion Hnd as [|? ? Hnotin Hnd']; subst.
    cbn [rev] in Ha. rewrite assign_vars_app in Ha. cinv Ha. rename a into c1. cinv Hab. rename a into c2. inversion Habb; subst. clear Habb.
    cbn [assign_vars] in Haba. destruct (index_of Z.eqb x (cs_locals st) 0) as [id|] eqn:Ex; [|discriminate].
    cbn [cbind] in Haba. inversion Haba; subst. clear Haba.
    assert (Hslotx : index_of Z.eqb x FL 0 = Some id) by (destruct Hfl as [l Hl]; rewrite Hl; now apply index_of_app).
    rewrite pushes_o_cons, pushes_i_cons.
    destruct (IH vs' _ _ Haa Hfl _ (code_at_app_l _ _ _ _ Hat) Hvs Hnd' L IL HL HIL (push_o v Y) (push_i v YI) vl)
      as (L1 & IL1 & Hs1 & HL1 & HIL1 & Hset1 & Hun1 & Hfresh1).
    apply code_at_app_r in Hat.
    destruct HFL as [Hflmax Hdis]. pose proof (index_of_lt _ _ _ _ _ Hslotx) as Hidr.
    destruct (set_local_step t id v L1 IL1 Hv ltac:(lia) HL1 HIL1 _ _ Y YI vl Hat) as (L2 & IL2 & Hs2 & HL2 & HIL2 & Hslot & Hrest).
    assert (Hnotin' : forall t', ~ In (x, t') lhs).
    { intros t' Hi. apply Hnotin. apply in_map_iff. exists (x, t'). auto. }
    exists L2, IL2. split; [|split; [exact HL2|split; [exact HIL2|split; [|split]]]].
    + eapply star_trans; [exact Hs1|]. eapply star_eq; [exact Hs2|]. apply S_eq. rewrite size_app. cbn [size ikind]. destruct (is_int t); cbn [pick width operand_of]; lia.
    + intros y u w Hi. cbn [combine] in Hi. destruct Hi as [Hi|Hi].
      * inversion Hi; subst. exists id. split; [exact Hslotx|]. unfold slot_holds. destruct w; exact Hslot.
      * destruct (Hset1 _ _ _ Hi) as (i & Hyi & Hh). exists i. split; [exact Hyi|].
        assert (Hne : i <> id).
        { intros ->. apply in_combine_l in Hi. apply (Hnotin' u). replace x with y; [exact Hi|]. exact (index_of_inj _ _ _ _ _ Hyi Hslotx). }
        pose proof (index_of_lt _ _ _ _ _ Hyi). destruct (Hrest i ltac:(lia) Hne) as [H1 H2].
        unfold slot_holds in *. destruct w; rewrite ?H1, ?H2; exact Hh.
    + intros j Hj Hnot. destruct (Hun1 j Hj) as [H1 H2]; [intros y u Hi; apply (Hnot y u); now right|].
      assert (Hne : j <> id) by (intros ->; apply (Hnot x t); [now left|exact Hslotx]).
      destruct (Hrest j Hj Hne) as [H3 H4]. split; congruence.
    + intros y u [Hi|Hi]; [inversion Hi; subst; eapply Hdis; eauto|exact (Hfresh1 _ _ Hi)].
Qed.

Lemma assignN_ok : forall lhs vs st cs, assign_vars (rev lhs) st = COk cs -> in_fl st ->
  forall pc, code_at C pc cs -> NoDup (map fst lhs) ->
  forall sto sto', assign_all sto lhs vs = Some sto' -> length vs = length lhs ->
  forall L IL, ginv sto L IL -> params_ok sto ->
  forall Y YI vl, exists L' IL',
    star (S pc L IL (pushes_o vs Y) (pushes_i vs YI) vl) (S (pc + size cs) L' IL' Y YI vl) /\
    ginv sto' L' IL' /\ params_ok sto'.
Proof.
  intros lhs vs st cs Hd Hfl pc Hat Hnd sto sto' Ha Hlen L IL (HL & HIL & Hg) Hpar Y YI vl.
  assert (Hty0 : Forall2 (fun v xt => has_ty v (snd xt) = true) vs lhs).
  { clear - Ha. revert sto vs Ha. induction lhs as [|[x t] lhs IH]; intros sto vs Ha; destruct vs as [|v vs]; cbn [assign_all] in Ha; try discriminate; [constructor|].
    destruct (has_ty v t) eqn:E; [|discriminate]. constructor; [exact E|eauto]. }
  destruct (assign_vm lhs vs _ _ Hd Hfl _ Hat Hty0 Hnd L IL HL HIL Y YI vl) as (L' & IL' & Hs & HL' & HIL' & Hset & Hun & Hfresh).
  destruct (assign_all_spec _ _ _ _ Ha Hnd) as (_ & Hin & Hout).
  exists L', IL'. split; [exact Hs|]. split.
  - split; [exact HL'|split; [exact HIL'|]]. intros y i Hy.
    destruct (in_dec Z.eq_dec y (map fst lhs)) as [Hi|Hni].
    + apply in_map_iff in Hi as ([y' u] & E & Hi). cbn [fst] in E. subst y'.
      destruct (In_nth _ _ (y, u) Hi) as (n & Hn & Hnth).
      assert (Hn' : (n < length vs)%nat) by lia.
      set (w := nth n vs VNil).
      assert (Hc : In ((y, u), w) (combine lhs vs)).
      { replace ((y, u), w) with (nth n (combine lhs vs) ((y, u), VNil)); [apply nth_In; rewrite combine_length; lia|].
        rewrite combine_nth by lia. subst w. now rewrite Hnth. }
      rewrite (Hin _ _ _ Hc). destruct (Hset _ _ _ Hc) as (i' & Hy' & Hh). rewrite Hy in Hy'. inversion Hy'; subst i'.
      unfold slot_holds in Hh. destruct w; exact Hh.
    + assert (Hy2 : forall t, ~ In (y, t) lhs) by (intros t Hi; apply Hni; apply in_map_iff; exists (y, t); auto).
      rewrite (Hout _ Hy2). pose proof (index_of_lt _ _ _ _ _ Hy).
      destruct (Hun i ltac:(lia)) as [H1 H2].
      { intros x t Hi Hx. apply (Hy2 t). replace y with x; [exact Hi|]. exact (index_of_inj _ _ _ _ _ Hx Hy). }
      pose proof (Hg _ _ Hy) as Hv. destruct (store_get sto y) as [[| |z| | |]|]; rewrite ?H1, ?H2; exact Hv.
  - destruct Hpar as [Ho Hi]. split.
    + intros y i Hnb Hy. destruct (Ho _ _ Hnb Hy) as (w & Hs0 & Hr). exists w. split; [|exact Hr].
      rewrite Hout; [exact Hs0|]. intros t Hin'. pose proof (Hfresh _ _ Hin') as Hp. unfold is_param in Hp. now rewrite Hy in Hp.
    + intros y i Hnb Hyo Hy. destruct (Hi _ _ Hnb Hyo Hy) as (z & Hs0 & Hr). exists z. split; [|exact Hr].
      rewrite Hout; [exact Hs0|]. intros t Hin'. pose proof (Hfresh _ _ Hin') as Hp. unfold is_param in Hp. now rewrite Hyo, Hy in Hp.
Qed.

Lemma assign1_ok x t v st cs : assign_vars [(x, t)] st = COk cs -> in_fl st ->
  forall pc, code_at C pc cs -> has_ty v t = true ->
  forall sto L IL, ginv sto L IL -> params_ok sto ->
  forall Y YI vl, exists L' IL',
    star (S pc L IL (push_o v Y) (push_i v YI) vl) (S (pc + size cs) L' IL' Y YI vl) /\
    ginv (store_set sto x v) L' IL' /\ params_ok (store_set sto x v).
Proof.
  intros Ha [l Hl] pc Hat Hty sto L IL Hinv Hpar Y YI vl. cbn [assign_vars] in Ha.
  destruct (index_of Z.eqb x (cs_locals st) 0) as [id|] eqn:Ex; [|discriminate]. cbn [cbind] in Ha. inversion Ha as [Hcs]. clear Ha. subst cs.
  assert (Hx : index_of Z.eqb x FL 0 = Some id) by (rewrite Hl; now apply index_of_app).
  pose proof Hinv as (HL & HIL & Hg). destruct HFL as [Hmax Hdis]. pose proof (index_of_lt _ _ _ _ _ Hx).
  destruct (set_local_step t id v L IL Hty ltac:(lia) HL HIL _ _ Y YI vl Hat) as (L2 & IL2 & Hs2 & HL2 & HIL2 & Hslot & Hrest).
  exists L2, IL2. split; [|split].
  - eapply star_eq; [exact Hs2|]. apply S_eq. cbn [size ikind]. destruct (is_int t); cbn [pick width operand_of]; lia.
  - eapply (ginv_update sto _ L IL L2 IL2 x v id); eauto.
    + apply store_get_set_same.
    + intros y Hne. apply store_get_set_other. congruence.
  - apply params_ok_set; [exact Hpar|]. eapply Hdis; eauto.
Qed.

(* ---------- statements ---------- *)
Notation exec := (exec (nat_sig cfg) nat_fun callf).
Notation eval := (eval (nat_sig cfg) nat_fun callf).
Notation expr_correct := (expr_correct cfg funcs nat_fun callf env fn C Hfetch B IB top itop K Hcall).
Notation calls_ok := (calls_ok cfg funcs nat_fun callf env fn C Hfetch B IB top itop K Hcall).

(* the machine reaches, in this frame, a return instruction that delivers r *)
Definition returns (s : state) (r : option value) : Prop :=
  exists pc' L' IL' X' XI' vl' cr,
    star s (S pc' L' IL' X' XI' vl') /\ (ce_retvoid env = false -> res_rel r cr) /\
    step cfg funcs nat_fun (S pc' L' IL' X' XI' vl') = ret cfg (S pc' L' IL' X' XI' vl') cr.

Definition post (pc k : Z) (c : code) (X : list value) (XI : list Z) (o : out) (s0 : state) : Prop :=
  match o with
  | ONormal sto' => exists J L' IL' vl', star s0 (S (pc + size c) L' IL' (J ++ X) XI vl') /\ ginv sto' L' IL' /\ params_ok sto'
  | OBreak sto' => exists J L' IL' vl', star s0 (S (pc + size c + k) L' IL' (J ++ X) XI vl') /\ ginv sto' L' IL' /\ params_ok sto'
  | OReturn v => returns s0 v
  end.

Lemma returns_star a b r : star a b -> returns b r -> returns a r.
Proof. intros H (pc' & L' & IL' & X' & XI' & vl' & cr & Hs & Hr & Hstep). exists pc', L', IL', X', XI', vl', cr. split; [eapply star_trans; eauto|auto]. Qed.

Lemma post_star pc k c X XI o a b J : star a b -> post pc k c (J ++ X) XI o b -> post pc k c X XI o a.
Proof.
  destruct o; cbn [post]; intros H.
  - intros (J' & L' & IL' & vl' & Hs & Hr). exists (J' ++ J), L', IL', vl'. rewrite <- app_assoc. split; [eapply star_trans; eauto|exact Hr].
  - intros (J' & L' & IL' & vl' & Hs & Hr). exists (J' ++ J), L', IL', vl'. rewrite <- app_assoc. split; [eapply star_trans; eauto|exact Hr].
  - apply returns_star. exact H.
Qed.

Lemma post_size pc k c c' X XI o s0 : size c = size c' -> post pc k c X XI o s0 -> post pc k c' X XI o s0.
Proof. intros E. destruct o; cbn [post]; rewrite ?E; auto. Qed.

Definition stmt_ok (f : nat) : Prop := forall s st st' rs, rstmt_of cfg env s st = COk (st', rs) -> in_fl st' -> pools_ok st' ->
  safe_stmt s = true ->
  forall k pc, code_at C pc (gen cfg rs k) ->
  forall sto L IL, ginv sto L IL -> params_ok sto ->
  forall o, exec f s sto = EOk o ->
  forall X XI vl, post pc k (gen cfg rs k) X XI o (S pc L IL X XI vl).

Lemma forallb_all l : (fix all (l0 : list stmt) : bool := match l0 with [] => true | x :: l' => safe_stmt x && all l' end) l = forallb safe_stmt l.
Proof. induction l as [|a l IH]; [reflexivity|]. cbn [forallb]. now rewrite IH. Qed.

Lemma block_ok f (IH : stmt_ok f) : forall l st st' rl, rblock cfg env l st = COk (st', rl) -> in_fl st' -> pools_ok st' ->
  forallb safe_stmt l = true ->
  forall k pc, code_at C pc (genblock cfg rl k) ->
  forall sto L IL, ginv sto L IL -> params_ok sto ->
  forall o, block_with (exec f) l sto = EOk o ->
  forall X XI vl, post pc k (genblock cfg rl k) X XI o (S pc L IL X XI vl).
Proof.
  induction l as [|s l IHl]; intros st st' rl Hr Hfl Hpools Hsafe k pc Hat sto L IL Hinv Hpar o He X XI vl.
  - cbn in Hr, He. inversion Hr; subst. inversion He; subst. cbn [post]. exists [], L, IL, vl. cbn [app].
    split; [eapply star_eq; [apply star_refl|]; apply S_eq; cbn; lia|auto].
  - cbn in Hr. cinv Hr. destruct a as [st1 r]. cinv Hrb. destruct a as [st2 rl2]. inversion Hrbb; subst. clear Hrbb.
    cbn [forallb] in Hsafe. apply andb_prop in Hsafe as [Hss Hsl].
    assert (Hle2 : st_le st1 st') by (eapply rblock_mono; [apply Forall_forall; intros; apply rstmt_mono|exact Hrba]).
    rewrite genblock_cons in *. cbn [block_with] in He. einvas He o1.
    pose proof (IH s _ _ _ Hra (in_fl_le _ _ _ Hle2 Hfl) (pools_ok_le _ _ _ (proj1 Hle2) Hpools) Hss _ _ (code_at_app_l _ _ _ _ Hat) _ _ _ Hinv Hpar _ Hea X XI vl) as H1.
    destruct o1 as [sto1|sto1|v].
    + destruct H1 as (J1 & L1 & IL1 & vl1 & Hs1 & Hinv1 & Hpar1).
      apply code_at_app_r in Hat.
      pose proof (IHl _ _ _ Hrba Hfl Hpools Hsl k _ Hat _ _ _ Hinv1 Hpar1 _ Heb (J1 ++ X) XI vl1) as H2.
      eapply post_star; [exact Hs1|].
      destruct o as [sto2|sto2|v]; cbn [post] in H2 |- *.
      * destruct H2 as (J & L2 & IL2 & vl2 & H2 & Hr2). exists J, L2, IL2, vl2. split; [|exact Hr2]. eapply star_eq; [exact H2|]. apply S_eq. rewrite size_app. lia.
      * destruct H2 as (J & L2 & IL2 & vl2 & H2 & Hr2). exists J, L2, IL2, vl2. split; [|exact Hr2]. eapply star_eq; [exact H2|]. apply S_eq. rewrite size_app. lia.
      * exact H2.
    + inversion Heb; subst. cbn [post] in *. destruct H1 as (J1 & L1 & IL1 & vl1 & Hs1 & Hr1). exists J1, L1, IL1, vl1. split; [|exact Hr1].
      eapply star_eq; [exact Hs1|]. apply S_eq. rewrite size_app. lia.
    + inversion Heb; subst. exact H1.
Qed.

Lemma ret_step pc L IL X XI vl k rest cr : code_at C pc (I0 k :: rest) ->
  match k with
  | KReturnTrue => cr = mkres (VBool true) 0
  | KReturnFalse => cr = mkres (VBool false) 0
  | KReturn => cr = mkres VNil 0
  | KReturnTop => exists v X', X = v :: X' /\ cr = mkres v 0
  | KReturnIntTop => exists z XI', XI = z :: XI' /\ cr = mkres VNil z
  | _ => False
  end ->
  step cfg funcs nat_fun (S pc L IL X XI vl) = ret cfg (S pc L IL X XI vl) cr.
Proof.
  intros Hat Hk. unfold step, ExprCorrect.S. cbn [st_fr fr_fn fr_pc st_objs st_ints st_vlen st_callers fr_locals fr_ilocals fr_top fr_itop].
  rewrite (fetch_at _ _ _ Hat). cbn [I0 ikind iarg].
  destruct k; try contradiction; try (subst cr; reflexivity).
  - destruct Hk as (v & X' & -> & ->). reflexivity.
  - destruct Hk as (z & XI' & -> & ->). reflexivity.
Qed.

Lemma return_ok f res : forall st st' rs, rstmt_of cfg env (SReturn res) st = COk (st', rs) -> in_fl st' -> pools_ok st' ->
  safe_stmt (SReturn res) = true ->
  forall k pc, code_at C pc (gen cfg rs k) ->
  forall sto L IL, ginv sto L IL -> params_ok sto ->
  forall o, exec (Datatypes.S f) (SReturn res) sto = EOk o ->
  forall X XI vl, post pc k (gen cfg rs k) X XI o (S pc L IL X XI vl).
Proof.
  intros st st' rs Hr Hfl Hpools Hsafe k pc Hat sto L IL Hinv Hpar o He X XI vl.
  cbn [rstmt_of] in Hr. cbn [Sem.exec] in He. cbn [safe_stmt] in Hsafe. apply andb_prop in Hsafe as [Hsafe Hwf].
  destruct (ce_retvoid env) eqn:Evoid.
  - inversion Hr; subst. cbn [gen] in *.
    assert (Ho : exists v, o = OReturn v).
    { destruct res; [inversion He; eauto|]. einvas He v. inversion Heb; eauto. }
    destruct Ho as [v ->]. cbn [post]. exists pc, L, IL, X, XI, vl, (mkres VNil 0). split; [apply star_refl|]. split; [congruence|].
    eapply ret_step; [exact Hat|reflexivity].
  - destruct res as [|e res]; [discriminate|]. einvas He v. inversion Heb; subst. clear Heb. cbn [post].
    cbn [forallb] in Hsafe, Hwf. apply andb_prop in Hsafe as [Hse _]. apply andb_prop in Hwf as [Hwe _]. unfold ret_wf in Hwe.
    destruct (ident_name e =? name_true) eqn:Et.
    { inversion Hr; subst. cbn [gen] in *. destruct e as [id c| | | | | | | | | ]; try discriminate. destruct c as [|?|[|]|]; try discriminate.
      cbn in Hea. inversion Hea; subst.
      exists pc, L, IL, X, XI, vl, (mkres (VBool true) 0). split; [apply star_refl|]. split; [reflexivity|]. eapply ret_step; [exact Hat|reflexivity]. }
    destruct (ident_name e =? name_false) eqn:Ef.
    { inversion Hr; subst. cbn [gen] in *. destruct e as [id c| | | | | | | | | ]; try discriminate. destruct c as [|?|[|]|]; try discriminate.
      cbn in Hea. inversion Hea; subst.
      exists pc, L, IL, X, XI, vl, (mkres (VBool false) 0). split; [apply star_refl|]. split; [reflexivity|]. eapply ret_step; [exact Hat|reflexivity]. }
    cinv Hr. destruct a as [st1 c]. inversion Hrb; subst. clear Hrb. cbn [gen] in *.
    pose proof (in_fl_le _ _ _ (cexpr_le env _ _ _ _ Hra) Hfl) as Hfl0.
    destruct (expr_correct e _ _ _ Hra _ (code_at_app_l _ _ _ _ Hat) Hpools _ _ _ (ginv_locals_ok _ _ _ _ _ _ _ HFL Hfl0 Hinv) Hpar Hse _ Hea X XI vl)
      as (J & vl1 & Hs & _).
    apply code_at_app_r in Hat.
    pose proof (eval_has_ty _ _ _ _ _ _ Hea) as Hty. pose proof (has_ty_is_vint _ _ Hty) as Hk.
    destruct (is_vint v) eqn:Ev.
    + destruct v as [| |z| | |]; try discriminate. assert (Ei : is_int (ty_of e) = true) by (destruct (ty_of e); cbn in Hk |- *; congruence).
      rewrite Ei in Hat. cbn [pick] in Hat.
      exists (pc + size c), L, IL, (J ++ X), (z :: XI), vl1, (mkres VNil z). split; [exact Hs|]. split; [reflexivity|].
      eapply ret_step; [exact Hat|]. cbn. eauto.
    + assert (Ei : is_int (ty_of e) = false) by (destruct (ty_of e); cbn in Hk |- *; congruence).
      rewrite Ei in Hat. cbn [pick] in Hat. rewrite push_o_obj, push_i_obj in Hs by exact Ev.
      exists (pc + size c), L, IL, (v :: J ++ X), XI, vl1, (mkres v 0). split; [exact Hs|]. split; [intros _; destruct v; try discriminate; reflexivity|].
      eapply ret_step; [exact Hat|]. cbn. eauto.
Qed.

Lemma incdec_ok f x inc : forall st st' rs, rstmt_of cfg env (SIncDec x inc) st = COk (st', rs) -> in_fl st' ->
  forall k pc, code_at C pc (gen cfg rs k) ->
  forall sto L IL, ginv sto L IL -> params_ok sto ->
  forall o, exec (Datatypes.S f) (SIncDec x inc) sto = EOk o ->
  forall X XI vl, post pc k (gen cfg rs k) X XI o (S pc L IL X XI vl).
Proof.
  intros st st' rs Hr [l Hl] k pc Hat sto L IL Hinv Hpar o He X XI vl.
  cbn [rstmt_of] in Hr. cbn [Sem.exec] in He.
  destruct (index_of Z.eqb x (cs_locals st) 0) as [id|] eqn:Ex; [|discriminate]. inversion Hr as [[Hst Hrs]]. clear Hr. subst rs st'. cbn [gen] in *.
  destruct (store_get sto x) as [[| |a| | |]|] eqn:Es; try discriminate. inversion He; subst. clear He.
  assert (Hx : index_of Z.eqb x FL 0 = Some id) by (rewrite Hl; now apply index_of_app).
  pose proof Hinv as (HL & HIL & Hg). pose proof (Hg _ _ Hx) as Hv. rewrite Es in Hv.
  destruct HFL as [Hmax Hdis]. pose proof (index_of_lt _ _ _ _ _ Hx) as Hr.
  set (nv := if inc then iadd a 1 else isub a 1).
  cbn [post]. exists [], L, (set_nth IL (Z.to_nat id) nv), vl. cbn [app]. split; [|split].
  - subst nv. destruct inc; cbn [pick] in *; step_at Hat; rewrite Hv; cbn [size ikind width operand_of]; pc_eq.
  - eapply (ginv_update sto _ L IL L _ x (VInt nv) id); eauto.
    + apply store_get_set_same.
    + intros y Hne. apply store_get_set_other. congruence.
    + now rewrite len_set_nth.
    + apply nthz_set_nth_same. lia.
    + intros j Hj Hne. split; [reflexivity|apply nthz_set_nth_other; lia].
  - apply params_ok_set; [exact Hpar|]. eapply Hdis; eauto.
Qed.

Lemma break_ok f : forall k pc, code_at C pc (gen cfg RBreak k) ->
  forall sto L IL, ginv sto L IL -> params_ok sto ->
  forall o, exec (Datatypes.S f) SBreak sto = EOk o ->
  forall X XI vl, post pc k (gen cfg RBreak k) X XI o (S pc L IL X XI vl).
Proof.
  intros k pc Hat sto L IL Hinv Hpar o He X XI vl. cbn [Sem.exec] in He. inversion He; subst. cbn [gen post] in *.
  exists [], L, IL, vl. cbn [app]. split; [|auto]. step_at Hat. cbn [size ikind width operand_of]. pc_eq.
Qed.

Lemma exprstmt_ok f e : forall st st' rs, rstmt_of cfg env (SExpr e) st = COk (st', rs) -> in_fl st' -> pools_ok st' ->
  safe_stmt (SExpr e) = true ->
  forall k pc, code_at C pc (gen cfg rs k) ->
  forall sto L IL, ginv sto L IL -> params_ok sto ->
  forall o, exec (Datatypes.S f) (SExpr e) sto = EOk o ->
  forall X XI vl, post pc k (gen cfg rs k) X XI o (S pc L IL X XI vl).
Proof.
  intros st st' rs Hr Hfl Hpools Hsafe k pc Hat sto L IL Hinv Hpar o He X XI vl.
  cbn [rstmt_of] in Hr. cbn [Sem.exec] in He. cbn [safe_stmt] in Hsafe.
  destruct e as [| | | | | | |fc t recv args| | ]; try discriminate. destruct t; try discriminate.
  cinv Hr. destruct a as [st1 c]. inversion Hrb; subst. clear Hrb. cbn [gen] in *.
  einvas He rs. destruct rs; [|discriminate]. inversion Heb; subst. clear Heb.
  pose proof (in_fl_le _ _ _ (cexpr_le env _ _ _ _ Hra) Hfl) as Hfl0.
  destruct (calls_ok fc TVoid recv args (fun e _ => expr_correct e) (proj2 (Forall_forall _ _) (fun e _ => expr_correct e))
              _ _ _ Hra _ Hat Hpools _ _ _ (ginv_locals_ok _ _ _ _ _ _ _ HFL Hfl0 Hinv) Hpar Hsafe _ Hea X XI vl) as (J & vl1 & Hs & _).
  cbn [post pushes_o pushes_i] in *. exists J, L, IL, vl1. auto.
Qed.

Lemma assign_ok f tok lhs nrhs rhs : forall st st' rs, rstmt_of cfg env (SAssign tok lhs nrhs rhs) st = COk (st', rs) -> in_fl st' -> pools_ok st' ->
  safe_stmt (SAssign tok lhs nrhs rhs) = true ->
  forall k pc, code_at C pc (gen cfg rs k) ->
  forall sto L IL, ginv sto L IL -> params_ok sto ->
  forall o, exec (Datatypes.S f) (SAssign tok lhs nrhs rhs) sto = EOk o ->
  forall X XI vl, post pc k (gen cfg rs k) X XI o (S pc L IL X XI vl).
Proof.
  intros st st' rs Hr Hfl Hpools Hsafe k pc Hat sto L IL Hinv Hpar o He X XI vl.
  cbn [rstmt_of] in Hr. cbn [Sem.exec] in He. cbn [safe_stmt] in Hsafe. apply andb_prop in Hsafe as [Hsr Hshape]. apply andb_prop in Hsr as [Hsr _].
  destruct (negb (nrhs =? 1)); [discriminate|]. einvas He vs.
  (* the right-hand side leaves its values on the stacks *)
  assert (Hrhs : forall st1 c, cexpr env rhs st = COk (st1, c) -> in_fl st1 -> pools_ok st1 ->
            forall pc0, code_at C pc0 c ->
            exists J vl1, star (S pc0 L IL X XI vl) (S (pc0 + size c) L IL (pushes_o vs (J ++ X)) (pushes_i vs XI) vl1) /\ length vs = length lhs).
  { intros st1 c Hc Hfl1 Hp1 pc0 Hat0. pose proof (in_fl_le _ _ _ (cexpr_le env _ _ _ _ Hc) Hfl1) as Hfl0.
    pose proof (ginv_locals_ok _ _ _ _ _ _ _ HFL Hfl0 Hinv) as Hloc.
    unfold eval_rhs in Hea. destruct (length lhs) as [|[|n]] eqn:El.
    - destruct rhs; try discriminate. einvas Hea rs0. destruct (length rs0 =? 0)%nat eqn:E0; [|discriminate]. inversion Heab; subst.
      destruct (calls_ok _ _ _ _ (fun e _ => expr_correct e) (proj2 (Forall_forall _ _) (fun e _ => expr_correct e)) _ _ _ Hc _ Hat0 Hp1 _ _ _ Hloc Hpar Hsr _ Heaa X XI vl) as (J & vl1 & Hs & _).
      exists J, vl1. split; [exact Hs|]. apply Nat.eqb_eq in E0. exact E0.
    - einvas Hea v. inversion Heab; subst.
      destruct (expr_correct rhs _ _ _ Hc _ Hat0 Hp1 _ _ _ Hloc Hpar Hsr _ Heaa X XI vl) as (J & vl1 & Hs & _).
      exists J, vl1. split; [|reflexivity]. eapply star_eq; [exact Hs|]. destruct v; reflexivity.
    - destruct rhs; try discriminate. einvas Hea rs0. destruct (length rs0 =? Datatypes.S (Datatypes.S n))%nat eqn:E0; [|discriminate]. inversion Heab; subst.
      destruct (calls_ok _ _ _ _ (fun e _ => expr_correct e) (proj2 (Forall_forall _ _) (fun e _ => expr_correct e)) _ _ _ Hc _ Hat0 Hp1 _ _ _ Hloc Hpar Hsr _ Heaa X XI vl) as (J & vl1 & Hs & _).
      exists J, vl1. split; [exact Hs|]. apply Nat.eqb_eq in E0. exact E0. }
  destruct tok; try discriminate.
  - (* := *)
    cinv Hr. destruct a as [st1 c]. cinv Hrb. destruct a as [st2 cs]. inversion Hrbb; subst. clear Hrbb. cbn [gen] in *.
    pose proof (define_vars_le _ _ _ _ _ _ Hrba) as Hle2.
    destruct (Hrhs _ _ Hra (in_fl_le _ _ _ Hle2 Hfl) (pools_ok_le _ _ _ (proj1 Hle2) Hpools) _ (code_at_app_l _ _ _ _ Hat)) as (J & vl1 & Hs1 & Hlen).
    apply code_at_app_r in Hat.
    destruct (assign_all sto lhs vs) as [sto'|] eqn:Ea; [|discriminate]. inversion Heb; subst. clear Heb.
    destruct (define_ok lhs vs _ _ _ Hrba Hfl _ Hat _ _ Ea Hlen _ _ Hinv Hpar (J ++ X) XI vl1) as (L' & IL' & Hs2 & Hinv' & Hpar').
    cbn [post]. exists J, L', IL', vl1. split; [|auto]. eapply star_trans; [exact Hs1|]. eapply star_eq; [exact Hs2|]. apply S_eq. rewrite size_app. lia.
  - (* = *)
    apply nodup_names_NoDup in Hshape.
    cinv Hr. destruct a as [st1 c]. cinv Hrb. inversion Hrbb; subst. clear Hrbb. cbn [gen] in *.
    destruct (Hrhs _ _ Hra Hfl Hpools _ (code_at_app_l _ _ _ _ Hat)) as (J & vl1 & Hs1 & Hlen).
    apply code_at_app_r in Hat.
    destruct (assign_all sto lhs vs) as [sto'|] eqn:Ea; [|discriminate]. inversion Heb; subst. clear Heb.
    destruct (assignN_ok lhs vs _ _ Hrba Hfl _ Hat Hshape _ _ Ea Hlen _ _ Hinv Hpar (J ++ X) XI vl1) as (L' & IL' & Hs2 & Hinv' & Hpar').
    cbn [post]. exists J, L', IL', vl1. split; [|auto]. eapply star_trans; [exact Hs1|]. eapply star_eq; [exact Hs2|]. apply S_eq. rewrite size_app. lia.
Qed.

Lemma post_shift pc pc' k k' c c' X XI o s0 : pc' + size c' = pc + size c -> pc' + size c' + k' = pc + size c + k ->
  post pc' k' c' X XI o s0 -> post pc k c X XI o s0.
Proof. intros E1 E2. destruct o; cbn [post]; rewrite ?E2, ?E1; auto. Qed.

Lemma post_shift_break pc pc' k k' c c' X XI sto s0 : pc' + size c' + k' = pc + size c + k ->
  post pc' k' c' X XI (OBreak sto) s0 -> post pc k c X XI (OBreak sto) s0.
Proof. intros E2. cbn [post]. rewrite ?E2. auto. Qed.

Lemma jumpfalse_uncond : is_uncond cfg KJumpFalse = false.
Proof. destruct (is_uncond cfg KJumpFalse) eqn:E; [|reflexivity]. apply (is_uncond_sound cfg Hsound) in E. destruct E. Qed.

Lemma rif_ok f (IH : stmt_ok f) c t e : forall st0 st1 st2 st3 cc rt re,
  cexpr env c st0 = COk (st1, cc) -> rblock cfg env t st1 = COk (st2, rt) ->
  match e, re with
  | None, None => st3 = st2
  | Some e', Some re' => rstmt_of cfg env e' st2 = COk (st3, re')
  | _, _ => False
  end ->
  in_fl st3 -> pools_ok st3 -> safe c = true -> forallb safe_stmt t = true -> match e with Some e' => safe_stmt e' = true | None => True end ->
  forall k pc, code_at C pc (gen cfg (RIf cc rt re) k) ->
  forall sto L IL, ginv sto L IL -> params_ok sto ->
  forall b o, eval sto c = EOk (VBool b) -> (if b then block_with (exec f) t sto else exec_opt_with (exec f) e sto) = EOk o ->
  forall X XI vl, post pc k (gen cfg (RIf cc rt re) k) X XI o (S pc L IL X XI vl).
Proof.
  intros st0 st1 st2 st3 cc rt re Hc Hrt Hre Hfl Hpools Hsc Hst Hse k pc Hat sto L IL Hinv Hpar b o Hb Ho X XI vl.
  assert (Hle1 : st_le st0 st1) by (eapply cexpr_le; eauto).
  assert (Hle2 : st_le st1 st2) by (eapply rblock_mono; [apply Forall_forall; intros; apply rstmt_mono|exact Hrt]).
  assert (Hle3 : st_le st2 st3).
  { destruct e as [e'|], re as [re'|]; try contradiction; [eapply rstmt_mono; eauto|subst; apply st_le_refl]. }
  pose proof (in_fl_le _ _ _ Hle3 Hfl) as Hfl2. pose proof (in_fl_le _ _ _ Hle2 Hfl2) as Hfl1. pose proof (in_fl_le _ _ _ Hle1 Hfl1) as Hfl0.
  pose proof (pools_ok_le _ _ _ (proj1 Hle3) Hpools) as Hp2. pose proof (pools_ok_le _ _ _ (proj1 Hle2) Hp2) as Hp1.
  (* the condition *)
  assert (Hcond : forall rest, code_at C pc (cc ++ rest) ->
            exists J vl1, star (S pc L IL X XI vl) (S (pc + size cc) L IL (VBool b :: J ++ X) XI vl1)).
  { intros rest Hat0.
    destruct (expr_correct c _ _ _ Hc _ (code_at_app_l _ _ _ _ Hat0) Hp1 _ _ _ (ginv_locals_ok _ _ _ _ _ _ _ HFL Hfl0 Hinv) Hpar Hsc _ Hb X XI vl) as (J & vl1 & Hs & _).
    exists J, vl1. exact Hs. }
  cbn [gen] in *. fold (genblock cfg) in *.
  destruct re as [re'|].
  - destruct e as [e'|]; [|contradiction].
    set (ce := gen cfg re' k) in *.
    destruct (then_closed cfg rt) eqn:Ecl.
    + (* no jump after the then-branch *)
      set (ct := genblock cfg rt (k + size ce)) in *.
      destruct (Hcond _ Hat) as (J & vl1 & Hs1). apply code_at_app_r in Hat.
      pose proof (code_at_cons_r _ _ _ _ Hat) as Hat1. cbn [ikind width operand_of] in Hat1.
      destruct b.
      * eapply post_star with (J := J).
        { eapply star_trans; [exact Hs1|]. step_at Hat. cbn [app]. reflexivity. }
        pose proof (block_ok f IH _ _ _ _ Hrt Hfl2 Hp2 Hst _ _ (code_at_app_l _ _ _ _ Hat1) _ _ _ Hinv Hpar _ Ho (J ++ X) XI vl1) as Hb1.
        fold ct in Hb1.
        destruct o as [sto1|sto1|v].
        -- exfalso. unfold then_closed in Ecl.
           destruct (closed_block cfg env nat_fun callf t (proj2 (Forall_forall _ _) (fun x _ => closed_all cfg env nat_fun callf Hsound Hbind x)) _ _ _ _ Hrt Hst Ecl) as [Hu|Hnn].
           ++ cbn [uncond_opt] in Hu. rewrite jumpfalse_uncond in Hu. discriminate.
           ++ exact (Hnn _ _ _ Ho).
        -- eapply post_shift_break; [|exact Hb1]; rewrite !size_app; cbn [size ikind width operand_of]; lia.
        -- exact Hb1.
      * eapply post_star with (J := J) (b := S (pc + size cc + 3 + size ct) L IL (J ++ X) XI vl1).
        { eapply star_trans; [exact Hs1|]. step_at Hat. cbn [app]. pc_eq. }
        apply code_at_app_r in Hat1. cbn [exec_opt_with] in Ho.
        pose proof (IH e' _ _ _ Hre Hfl Hpools Hse _ _ Hat1 _ _ _ Hinv Hpar _ Ho (J ++ X) XI vl1) as Hb1. fold ce in Hb1.
        eapply post_shift; [| |exact Hb1]; rewrite !size_app; cbn [size ikind width operand_of]; lia.
    + (* then-branch followed by a jump over the else branch *)
      set (ct := genblock cfg rt (k + 3 + size ce)) in *.
      destruct (Hcond _ Hat) as (J & vl1 & Hs1). apply code_at_app_r in Hat.
      pose proof (code_at_cons_r _ _ _ _ Hat) as Hat1. cbn [ikind width operand_of] in Hat1.
      destruct b.
      * eapply post_star with (J := J).
        { eapply star_trans; [exact Hs1|]. step_at Hat. cbn [app]. reflexivity. }
        pose proof (block_ok f IH _ _ _ _ Hrt Hfl2 Hp2 Hst _ _ (code_at_app_l _ _ _ _ Hat1) _ _ _ Hinv Hpar _ Ho (J ++ X) XI vl1) as Hb1.
        fold ct in Hb1. apply code_at_app_r in Hat1.
        destruct o as [sto1|sto1|v]; cbn [post] in *.
        -- destruct Hb1 as (J1 & L1 & IL1 & vl2 & Hs2 & Hr2). exists J1, L1, IL1, vl2. split; [|exact Hr2].
           eapply star_trans; [exact Hs2|]. step_at Hat1. rewrite !size_app. cbn [size ikind width operand_of]. pc_eq.
        -- destruct Hb1 as (J1 & L1 & IL1 & vl2 & Hs2 & Hr2). exists J1, L1, IL1, vl2. split; [|exact Hr2].
           eapply star_eq; [exact Hs2|]. apply S_eq. rewrite !size_app. cbn [size ikind width operand_of]. lia.
        -- exact Hb1.
      * eapply post_star with (J := J) (b := S (pc + size cc + 3 + size ct + 3) L IL (J ++ X) XI vl1).
        { eapply star_trans; [exact Hs1|]. step_at Hat. cbn [app]. pc_eq. }
        apply code_at_app_r in Hat1. apply code_at_cons_r in Hat1. cbn [ikind width operand_of] in Hat1. cbn [exec_opt_with] in Ho.
        pose proof (IH e' _ _ _ Hre Hfl Hpools Hse _ _ Hat1 _ _ _ Hinv Hpar _ Ho (J ++ X) XI vl1) as Hb1. fold ce in Hb1.
        eapply post_shift; [| |exact Hb1]; rewrite !size_app; cbn [size ikind width operand_of]; lia.
  - destruct e as [e'|]; [contradiction|]. subst st3.
    set (ct := genblock cfg rt k) in *.
    destruct (Hcond _ Hat) as (J & vl1 & Hs1). apply code_at_app_r in Hat.
    pose proof (code_at_cons_r _ _ _ _ Hat) as Hat1. cbn [ikind width operand_of] in Hat1.
    destruct b.
    + eapply post_star with (J := J).
      { eapply star_trans; [exact Hs1|]. step_at Hat. cbn [app]. reflexivity. }
      pose proof (block_ok f IH _ _ _ _ Hrt Hfl Hpools Hst _ _ Hat1 _ _ _ Hinv Hpar _ Ho (J ++ X) XI vl1) as Hb1. fold ct in Hb1.
      eapply post_shift; [| |exact Hb1]; rewrite !size_app; cbn [size ikind width operand_of]; lia.
    + cbn [exec_opt_with] in Ho. inversion Ho; subst. cbn [post]. exists J, L, IL, vl1. split; [|auto].
      eapply star_trans; [exact Hs1|]. step_at Hat. cbn [app]. rewrite !size_app. cbn [size ikind width operand_of]. pc_eq.
Qed.

(* ---------- loops ---------- *)
Lemma exec_for f c body sto : exec (Datatypes.S f) (SFor None c None body) sto =
  ebind (match c with None => EOk true | Some c' => ebind (eval sto c') as_bool end)
    (fun go_on => if negb go_on then EOk (ONormal sto) else
       ebind (block_with (exec f) body sto) (fun ob =>
         match ob with
         | ONormal st2 => exec f (SFor None c None body) st2
         | OBreak st2 => EOk (ONormal st2)
         | OReturn v => EOk (OReturn v)
         end)).
Proof. cbn [Sem.exec exec_opt_with ebind]. destruct c; reflexivity. Qed.

Lemma for_no_break c body : forall f sto sto', exec f (SFor None c None body) sto <> EOk (OBreak sto').
Proof.
  induction f as [|f IH]; intros sto sto'; [discriminate|]. rewrite exec_for.
  destruct (match c with None => EOk true | Some c' => ebind (eval sto c') as_bool end) as [[|]| | | |]; cbn [ebind negb]; try discriminate.
  destruct (block_with (exec f) body sto) as [[st2|st2|v]| | | |]; cbn [ebind]; try discriminate. apply IH.
Qed.

(* `for cond { body }`, entered at its continue label *)
Lemma loop_cond c body (g0 : nat) (IH : forall g, (g <= g0)%nat -> stmt_ok g) : forall st st1 st2 rb cc,
  rblock cfg env body st = COk (st1, rb) -> cexpr env c st1 = COk (st2, cc) -> in_fl st2 -> pools_ok st2 ->
  forallb safe_stmt body = true -> safe c = true ->
  forall pc, code_at C pc (gen cfg (RFor (Some cc) rb) 0) ->
  forall g, (g <= g0)%nat -> forall sto L IL X XI vl o, ginv sto L IL -> params_ok sto ->
  exec (Datatypes.S g) (SFor None (Some c) None body) sto = EOk o ->
  post pc 0 (gen cfg (RFor (Some cc) rb) 0) X XI o (S (pc + 3 + size (genblock cfg rb (size cc + 3))) L IL X XI vl).
Proof.
  intros st st1 st2 rb cc Hrb Hcc Hfl Hpools Hsb Hsc pc Hat.
  assert (Hle2 : st_le st1 st2) by (eapply cexpr_le; eauto).
  pose proof (in_fl_le _ _ _ Hle2 Hfl) as Hfl1. pose proof (pools_ok_le _ _ _ (proj1 Hle2) Hpools) as Hp1.
  cbn [gen] in Hat |- *. fold (genblock cfg) in Hat |- *.
  set (cb := genblock cfg rb (size cc + 3)) in *.
  pose proof (code_at_cons_r _ _ _ _ Hat) as Hcb. cbn [ikind width operand_of] in Hcb.
  pose proof (code_at_app_r _ _ _ _ Hcb) as Hccat. pose proof (code_at_app_r _ _ _ _ Hccat) as Hj.
  assert (Esz : size ([I KJump (3 + size cb)] ++ cb ++ cc ++ [I KJumpTrue (- (size cb + size cc))]) = 3 + size cb + size cc + 3).
  { rewrite !size_app. cbn [size ikind width operand_of]. lia. }
  induction g as [|g IHg]; intros Hg sto L IL X XI vl o Hinv Hpar He.
  - rewrite exec_for in He. einvas He go. einvas Hea v. destruct go; cbn [negb] in Heb.
    + destruct body; cbn in Heb; discriminate.
    + inversion Heb; subst. destruct v as [|b| | | |]; try discriminate. inversion Heab; subst.
      destruct (expr_correct c _ _ _ Hcc _ (code_at_app_l _ _ _ _ Hccat) Hpools _ _ _ (ginv_locals_ok _ _ _ _ _ _ _ HFL Hfl1 Hinv) Hpar Hsc _ Heaa X XI vl) as (J & vl1 & Hs & _).
      cbn [post]. exists J, L, IL, vl1. split; [|auto]. eapply star_trans; [exact Hs|]. cbn [push_o push_i]. step_at Hj. cbn [app]. sz. pc_eq.
  - rewrite exec_for in He. einvas He go. einvas Hea v. destruct v as [|b| | | |]; try discriminate. inversion Heab; subst. clear Heab.
    destruct (expr_correct c _ _ _ Hcc _ (code_at_app_l _ _ _ _ Hccat) Hpools _ _ _ (ginv_locals_ok _ _ _ _ _ _ _ HFL Hfl1 Hinv) Hpar Hsc _ Heaa X XI vl) as (J & vl1 & Hs & _).
    cbn [push_o push_i] in Hs.
    destruct go; cbn [negb] in Heb.
    + (* another iteration *)
      assert (Hback : star (S (pc + 3 + size cb) L IL X XI vl) (S (pc + 3) L IL (J ++ X) XI vl1)).
      { eapply star_trans; [exact Hs|]. step_at Hj. cbn [app]. pc_eq. }
      einvas Heb ob.
      pose proof (block_ok (Datatypes.S g) (IH _ Hg) _ _ _ _ Hrb Hfl1 Hp1 Hsb _ _ (code_at_app_l _ _ _ _ Hcb) _ _ _ Hinv Hpar _ Heba (J ++ X) XI vl1) as Hb.
      fold cb in Hb.
      destruct ob as [sto1|sto1|v].
      * destruct Hb as (J1 & L1 & IL1 & vl2 & Hs1 & Hinv1 & Hpar1).
        eapply post_star with (J := J1 ++ J); [eapply star_trans; [exact Hback|]; eapply star_eq; [exact Hs1|]; now rewrite app_assoc|].
        apply (IHg ltac:(lia) _ _ _ _ _ _ _ Hinv1 Hpar1 Hebb).
      * inversion Hebb; subst. destruct Hb as (J1 & L1 & IL1 & vl2 & Hs1 & Hinv1 & Hpar1). cbn [post]. exists (J1 ++ J), L1, IL1, vl2. split; [|auto].
        eapply star_trans; [exact Hback|]. eapply star_eq; [exact Hs1|]. rewrite <- app_assoc. sz. apply S_eq. lia.
      * inversion Hebb; subst. cbn [post]. eapply returns_star; [exact Hback|exact Hb].
    + inversion Heb; subst. cbn [post]. exists J, L, IL, vl1. split; [|auto]. eapply star_trans; [exact Hs|]. step_at Hj. cbn [app]. sz. pc_eq.
Qed.

(* `for { body }`, entered at its first instruction *)
Lemma loop_ever body (g0 : nat) (IH : forall g, (g <= g0)%nat -> stmt_ok g) : forall st st1 rb,
  rblock cfg env body st = COk (st1, rb) -> in_fl st1 -> pools_ok st1 -> forallb safe_stmt body = true ->
  forall pc, code_at C pc (gen cfg (RFor None rb) 0) ->
  forall g, (g <= g0)%nat -> forall sto L IL X XI vl o, ginv sto L IL -> params_ok sto ->
  exec (Datatypes.S g) (SFor None None None body) sto = EOk o ->
  post pc 0 (gen cfg (RFor None rb) 0) X XI o (S pc L IL X XI vl).
Proof.
  intros st st1 rb Hrb Hfl Hpools Hsb pc Hat.
  cbn [gen] in Hat |- *. fold (genblock cfg) in Hat |- *.
  set (cb := genblock cfg rb 3) in *.
  pose proof (code_at_app_r _ _ _ _ Hat) as Hj.
  assert (Esz : size (cb ++ [I KJump (- size cb)]) = size cb + 3).
  { rewrite !size_app. cbn [size ikind width operand_of]. lia. }
  induction g as [|g IHg]; intros Hg sto L IL X XI vl o Hinv Hpar He.
  - rewrite exec_for in He. cbn [ebind negb] in He. destruct body; cbn in He; discriminate.
  - rewrite exec_for in He. cbn [ebind negb] in He. einvas He ob.
    pose proof (block_ok (Datatypes.S g) (IH _ Hg) _ _ _ _ Hrb Hfl Hpools Hsb _ _ (code_at_app_l _ _ _ _ Hat) _ _ _ Hinv Hpar _ Hea X XI vl) as Hb.
    fold cb in Hb.
    destruct ob as [sto1|sto1|v].
    + destruct Hb as (J1 & L1 & IL1 & vl2 & Hs1 & Hinv1 & Hpar1).
      eapply post_star with (J := J1).
      { eapply star_trans; [exact Hs1|]. step_at Hj. instantiate (1 := S pc L1 IL1 (J1 ++ X) XI vl2). pc_eq. }
      apply (IHg ltac:(lia) _ _ _ _ _ _ _ Hinv1 Hpar1 Heb).
    + inversion Heb; subst. destruct Hb as (J1 & L1 & IL1 & vl2 & Hs1 & Hinv1 & Hpar1). cbn [post]. exists J1, L1, IL1, vl2. split; [|auto].
      eapply star_eq; [exact Hs1|]. sz. apply S_eq. lia.
    + inversion Heb; subst. exact Hb.
Qed.

Lemma genblock_app l1 : forall l2 k, genblock cfg (l1 ++ l2) k = genblock cfg l1 (k + size (genblock cfg l2 k)) ++ genblock cfg l2 k.
Proof.
  induction l1 as [|a l1 IH]; intros l2 k; cbn [app].
  - reflexivity.
  - rewrite !genblock_cons, IH, !size_app, <- app_assoc. f_equal. f_equal. lia.
Qed.

Lemma genblock_one r k : genblock cfg [r] k = gen cfg r k.
Proof. rewrite genblock_cons. cbn [genblock genblock_with size]. rewrite app_nil_r. f_equal. lia. Qed.

Theorem stmt_correct : forall f, stmt_ok f.
Proof.
  induction f as [f IHf] using lt_wf_ind.
  destruct f as [|f]; intros s st st' rs Hr Hfl Hpools Hsafe k pc Hat sto L IL Hinv Hpar o He X XI vl; [discriminate|].
  assert (IH : stmt_ok f) by (apply IHf; lia).
  destruct s as [res|tok lhs nrhs rhs|x inc|init c t e|init c post body| |e|l| ].
  - eapply return_ok; eauto.
  - eapply assign_ok; eauto.
  - eapply incdec_ok; eauto.
  - (* if *)
    cbn [rstmt_of] in Hr. cinv Hr. destruct a as [st0 ri]. cinv Hrb. destruct a as [st1 cc]. cinv Hrbb. destruct a as [st2 rt].
    cbn [safe_stmt] in Hsafe. rewrite forallb_all in Hsafe.
    apply andb_prop in Hsafe as [Hsafe Hse]. apply andb_prop in Hsafe as [Hsafe Hst]. apply andb_prop in Hsafe as [Hsi Hsc].
    cbn [Sem.exec] in He. einvas He oi. destruct oi as [sto1| |]; try discriminate. einvas Heb v. einvas Hebb b.
    destruct v as [|b'| | | |]; try discriminate. cbn [as_bool] in Hebba. inversion Hebba; subst b'. clear Hebba.
    (* the shape of the result *)
    assert (Hshape : exists re, rs = RBlock (ri ++ [RIf cc rt re]) /\
               match e, re with None, None => st' = st2 | Some e', Some re' => rstmt_of cfg env e' st2 = COk (st', re') | _, _ => False end).
    { destruct e as [e'|].
      - cinv Hrbbb. destruct a as [st3 re]. inversion Hrbbbb; subst. exists (Some re). auto.
      - inversion Hrbbb; subst. exists None. auto. }
    destruct Hshape as (re & -> & Hre). clear Hrbbb.
    assert (Hle01 : st_le st0 st1) by (eapply cexpr_le; eauto).
    assert (Hle12 : st_le st1 st2) by (eapply rblock_mono; [apply Forall_forall; intros; apply rstmt_mono|exact Hrbba]).
    assert (Hle23 : st_le st2 st').
    { destruct e as [e'|], re as [re'|]; try contradiction; [eapply rstmt_mono; eauto|subst; apply st_le_refl]. }
    cbn [gen] in *. fold (genblock cfg) in *. rewrite genblock_app, genblock_one in *.
    assert (Hse' : match e with Some e' => safe_stmt e' = true | None => True end) by (destruct e; [exact Hse|exact Logic.I]).
    destruct init as [si|].
    + cinv Hra. destruct a as [st9 r9]. inversion Hrab; subst. clear Hrab. cbn [exec_opt_with] in Hea.
      rewrite genblock_one in *.
      pose proof (in_fl_le _ _ _ (st_le_trans _ _ _ Hle01 (st_le_trans _ _ _ Hle12 Hle23)) Hfl) as Hfl0.
      pose proof (pools_ok_le _ _ _ (proj1 (st_le_trans _ _ _ Hle01 (st_le_trans _ _ _ Hle12 Hle23))) Hpools) as Hp0.
      pose proof (IH si _ _ _ Hraa Hfl0 Hp0 Hsi _ _ (code_at_app_l _ _ _ _ Hat) _ _ _ Hinv Hpar _ Hea X XI vl) as Hinit.
      cbn [post] in Hinit. destruct Hinit as (J0 & L0 & IL0 & vl0 & Hs0 & Hinv0 & Hpar0).
      apply code_at_app_r in Hat.
      eapply post_star with (J := J0); [exact Hs0|].
      pose proof (rif_ok f IH c t e _ _ _ _ _ _ _ Hrba Hrbba Hre Hfl Hpools Hsc Hst Hse' _ _ Hat _ _ _ Hinv0 Hpar0 _ _ Heba Hebbb (J0 ++ X) XI vl0) as Hif.
      eapply post_shift; [| |exact Hif]; rewrite !size_app; lia.
    + inversion Hra; subst. cbn [exec_opt_with] in Hea. inversion Hea; subst. cbn [app genblock genblock_with size] in *. cbn [app] in Hat.
      pose proof (rif_ok f IH c t e _ _ _ _ _ _ _ Hrba Hrbba Hre Hfl Hpools Hsc Hst Hse' _ _ Hat _ _ _ Hinv Hpar _ _ Heba Hebbb X XI vl) as Hif.
      exact Hif.
  - (* for *)
    cbn [rstmt_of] in Hr. cbn [safe_stmt] in Hsafe. rewrite forallb_all in Hsafe.
    destruct init; [destruct c, post; discriminate|]. destruct post; [destruct c; discriminate|].
    apply andb_prop in Hsafe as [Hsafe Hsb]. apply andb_prop in Hsafe as [Hsafe _]. apply andb_prop in Hsafe as [_ Hsc].
    assert (Hnb := for_no_break c body (Datatypes.S f) sto).
    destruct c as [c'|].
    + cinv Hr. destruct a as [st1 rb]. cinv Hrb. destruct a as [st2 cc]. inversion Hrbb; subst. clear Hrbb.
      pose proof (loop_cond c' body f (fun g Hg => IHf g ltac:(lia)) _ _ _ _ _ Hra Hrba Hfl Hpools Hsb Hsc pc Hat f (le_n _) sto L IL X XI vl o Hinv Hpar He) as Hloop.
      cbn [gen] in *. fold (genblock cfg) in *.
      eapply post_star with (J := []); [step_at Hat; cbn [app]; instantiate (1 := S (pc + 3 + size (genblock cfg rb (size cc + 3))) L IL X XI vl); pc_eq|].
      cbn [app]. destruct o as [sto1|sto1|v]; cbn [post] in *.
      * destruct Hloop as (J & L1 & IL1 & vl1 & Hs & Hrest). exists J, L1, IL1, vl1. auto.
      * exfalso. exact (Hnb _ He).
      * exact Hloop.
    + cinv Hr. destruct a as [st1 rb]. inversion Hrb; subst. clear Hrb.
      pose proof (loop_ever body f (fun g Hg => IHf g ltac:(lia)) _ _ _ Hra Hfl Hpools Hsb pc Hat f (le_n _) sto L IL X XI vl o Hinv Hpar He) as Hloop.
      cbn [gen] in *. fold (genblock cfg) in *.
      destruct o as [sto1|sto1|v]; cbn [post] in *.
      * destruct Hloop as (J & L1 & IL1 & vl1 & Hs & Hrest). exists J, L1, IL1, vl1. auto.
      * exfalso. exact (Hnb _ He).
      * exact Hloop.
  - inversion Hr; subst. eapply break_ok; eauto.
  - eapply exprstmt_ok; eauto.
  - (* block *)
    cbn [rstmt_of] in Hr. cinv Hr. destruct a as [st1 rl]. inversion Hrb; subst. clear Hrb.
    cbn [safe_stmt] in Hsafe. rewrite forallb_all in Hsafe. cbn [Sem.exec] in He. cbn [gen] in *. fold (genblock cfg) in *.
    eapply block_ok; eauto.
  - discriminate.
Qed.

End FrameS.
