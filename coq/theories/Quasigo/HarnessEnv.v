(* Correspondence checks for histories: several units compiled into one quasigo.Env one after the other
   (harness/cmd/c04/hist.go), evaluated (vm_compute) by checks/C04.py. The model environment (Env.v) is run on the
   same units: every slot's bytecode, the function table and the name bindings after the whole history, and every
   call of a function of an earlier unit made after later units were compiled are compared with the real Env. *)
From Coq Require Import List ZArith Bool String.
From RG.Base Require Import Outcome GoInt GoSlice.
From RG.Quasigo Require Import Source Bytecode Compile VM Sem Guards Link FunCorrect Correct Encodable Harness Env.
Import ListNotations.
Local Open Scope Z_scope.

Record hunit := mkhunit {
  hu_decls : list (Z * fundecl);   (* declared name, declaration with callee *names* in FUser *)
  hu_dumps : list dump;            (* what the real compiler produced for the declarations it accepted, in order *)
  hu_err : bool                    (* the real compiler rejected declaration number (length hu_dumps) *)
}.

Record hcase := mkhcase {
  hc_units : list hunit;
  hc_table : list dump;            (* env.userFuncs after the whole history, by function ID *)
  hc_names : list (Z * Z);         (* name -> ID the real Env binds it to after the whole history (-1: unbound) *)
  hc_calls : list callobs          (* co_fn = slot (position in compile order) of the called function *)
}.

Section Checks.
Variable cfg : config.
Variable fuel : nat.

Definition c_table_differs : Z := 6.     (* a slot of env.userFuncs is not the function compiled into it *)
Definition c_table_length : Z := 7.
Definition c_binding_differs : Z := 8.   (* a name is bound to another ID than in the model *)

Definition dump_matches (c : cfunc) (d : dump) : bool :=
  zlist_eqb (assemble cfg (cf_code c)) (d_code d) &&
  list_eqb value_eqb (cfunc_consts c) (d_consts d) && zlist_eqb (cf_iconsts c) (d_iconsts d) &&
  (cf_nobj c =? d_nobj d) && (cf_nint c =? d_nint d).

(* the loader's second loop on model and implementation side by side; stops where the two disagree on acceptance *)
Fixpoint check_decls (u : list (Z * fundecl)) (ds : list dump) (err : bool) (e : env) : list (Z * Z) * env :=
  match u with
  | [] => ([], e)
  | (n, fd) :: u' =>
      let i := len (ev_funcs e) in
      let src := resolve_fun (ev_names e) fd in
      match compile_fun cfg src, ds with
      | COk c, d :: ds' =>
          let '(r, e') := check_decls u' ds' err (env_add e n src c) in
          ((if zlist_eqb (assemble cfg (cf_code c)) (d_code d) then [] else [(i, c_code_differs)]) ++
           (if list_eqb value_eqb (cfunc_consts c) (d_consts d) && zlist_eqb (cf_iconsts c) (d_iconsts d) then [] else [(i, c_pools_differ)]) ++
           (if (cf_nobj c =? d_nobj d) && (cf_nint c =? d_nint d) then [] else [(i, c_counts_differ)]) ++ r, e')
      | COk c, [] => ([(i, c_model_accepts)], e)
      | CErr _, _ :: _ => ([(i, c_model_rejects)], e)
      | CErr _, [] => ((if err then [] else [(i, c_model_rejects)]), e)
      end
  end.

Fixpoint check_units (us : list hunit) (e : env) : list (Z * Z) * env :=
  match us with
  | [] => ([], e)
  | u :: us' =>
      let '(r1, e1) := check_decls (hu_decls u) (hu_dumps u) (hu_err u) (unbind_all (hu_decls u) e) in
      let '(r2, e2) := check_units us' e1 in
      (r1 ++ r2, e2)
  end.

Fixpoint check_table (i : Z) (cs : list cfunc) (ds : list dump) : list (Z * Z) :=
  match cs, ds with
  | [], [] => []
  | c :: cs', d :: ds' => (if dump_matches c d then [] else [(i, c_table_differs)]) ++ check_table (i + 1) cs' ds'
  | _, _ => [(i, c_table_length)]
  end.

Definition check_names (e : env) (obs : list (Z * Z)) : list (Z * Z) :=
  flat_map (fun '(n, id) =>
              match map_get (ev_names e) n with
              | Some id' => if id =? id' then [] else [(n, c_binding_differs)]
              | None => if id <? 0 then [] else [(n, c_binding_differs)]
              end) obs.

(* result, in the shape of Harness.check_prog: (slot-level issues, call-level issues, unsafe roots ++ [-1; scope bit]) *)
Definition check_hist (h : hcase) : list (Z * Z) * list (Z * Z) * list Z :=
  let '(r, e) := check_units (hc_units h) env_empty in
  let p := mkpcase (ev_srcs e) [] false (hc_calls h) in
  (r ++ check_table 0 (ev_funcs e) (hc_table h) ++ check_names e (hc_names h),
   check_calls cfg fuel p (vfuncs_bytes cfg (hc_table h)) (Some (map vfunc_of_cfunc (ev_funcs e))) 0 (hc_calls h),
   unsafe_roots p ++ [-1; if source_guard cfg (ev_srcs e) then 1 else 0]).

(* the model side of check_units is Env.load_units *)
Lemma check_decls_env u : forall ds err e, (fst (check_decls u ds err e) = [] -> snd (check_decls u ds err e) = fst (load_decls cfg u e)).
Proof.
  induction u as [|[n fd] u IH]; intros ds err e Hok; cbn [check_decls load_decls] in *; [reflexivity|].
  unfold compile_in. destruct (compile_fun cfg (resolve_fun (ev_names e) fd)) as [c|] eqn:Ec.
  - destruct ds as [|d ds]; cbn [fst snd] in *; [discriminate|].
    destruct (check_decls u ds err (env_add e n (resolve_fun (ev_names e) fd) c)) as [r e'] eqn:Er. cbn [fst snd] in *.
    specialize (IH ds err (env_add e n (resolve_fun (ev_names e) fd) c)). rewrite Er in IH. cbn [fst snd] in IH. apply IH.
    repeat (apply app_eq_nil in Hok; destruct Hok as [_ Hok]). exact Hok.
  - destruct ds; reflexivity.
Qed.

End Checks.
