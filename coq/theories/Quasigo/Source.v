(* Quasigo source language: the typed Go subset that ruleguard/quasigo/compile.go reads.
   The harness serialises go/ast + go/types facts into these terms without taking any decision the
   compiler takes (see harness/cmd/c04/ser.go); identifiers are interned as integers. *)
From Coq Require Import List ZArith Bool.
From RG.Base Require Import GoSlice.
Import ListNotations.
Local Open Scope Z_scope.

(* reserved identifier numbers *)
Definition name_nil : Z := 0.
Definition name_true : Z := 1.
Definition name_false : Z := 2.
Definition name_blank : Z := 3.     (* the blank identifier _ *)

(* what the compiler distinguishes about a go/types type *)
Inductive ty := TInt | TStr | TBool | TIface | TPtr | TVoid | TBad.

Definition ty_eqb (a b : ty) : bool :=
  match a, b with
  | TInt, TInt | TStr, TStr | TBool, TBool | TIface, TIface | TPtr, TPtr | TVoid, TVoid | TBad, TBad => true
  | _, _ => false
  end.

(* constant value recorded by go/types for an expression (Types[e].Value) *)
Inductive constv := CInt (z : Z) | CStr (s : bytes) | CBool (b : bool) | CUnsupported.

Inductive binop := OLor | OLand | ONeq | OEql | OGtr | OGeq | OLss | OLeq | OAdd | OSub | OBad.

(* how the callee of a call expression resolves against the environment *)
Inductive callee :=
| FLen                              (* builtin len *)
| FBuiltin                          (* any other builtin *)
| FNative (id variadic : Z)         (* key bound in nameToNativeFuncID; variadic = index of the ... parameter, 0 if none *)
| FUser (id : Z) (res : ty)         (* key bound in nameToFuncID, non-variadic signature *)
| FUnresolved.

Inductive expr :=
| EConst (id : Z) (c : constv)                       (* Types[e].Value <> nil; id = identifier number if e is an *ast.Ident, else -1 *)
| EIdent (x : Z) (t : ty)
| EParen (e : expr)
| ENot (e : expr)
| EUnaryBad
| EBinary (op : binop) (tx : ty) (x y : expr)        (* tx = TypeOf(e.X) *)
| ESlice (tx : ty) (x : expr) (lo hi : option expr) (three : bool)
| ECall (f : callee) (t : ty) (recv : option expr) (args : list expr)
| ESelector (nid : Z) (t : ty) (x : expr)            (* field read compiled as a native call; nid = -1 if unbound *)
| EBad.

Inductive atok := ADefine | AAssign | AAddAssign | ASubAssign | AOtherAssign.

Inductive stmt :=
| SReturn (res : list expr)
| SAssign (tok : atok) (lhs : list (Z * ty)) (nrhs : Z) (rhs : expr)
| SIncDec (x : Z) (inc : bool)
| SIf (init : option stmt) (c : expr) (t : list stmt) (e : option stmt)
| SFor (init : option stmt) (c : option expr) (post : option stmt) (body : list stmt)
| SBreak
| SExpr (e : expr)
| SBlock (l : list stmt)
| SBad.

Record fundecl := mkfun { fd_params : list (Z * ty); fd_results : list ty; fd_body : list stmt }.

Definition program := list fundecl.

(* static type of an expression, as far as the compiler consults it *)
Fixpoint ty_of (e : expr) : ty :=
  match e with
  | EConst _ (CInt _) => TInt
  | EConst _ (CStr _) => TStr
  | EConst _ (CBool _) => TBool
  | EConst _ CUnsupported => TBad
  | EIdent _ t => t
  | EParen e => ty_of e
  | ENot _ => TBool
  | EUnaryBad => TBad
  | EBinary op tx _ _ => match op with OAdd | OSub => tx | _ => TBool end
  | ESlice _ _ _ _ _ => TStr
  | ECall _ t _ _ => t
  | ESelector _ t _ => t
  | EBad => TBad
  end.

(* identName of compile.go: the identifier's name if the expression is a bare identifier *)
Definition ident_name (e : expr) : Z :=
  match e with
  | EConst id _ => id
  | EIdent x _ => x
  | _ => -1
  end.

(* ---- induction principle (nested lists / options) ---- *)
Section ExprInd.
Variable P : expr -> Prop.
Hypothesis HConst : forall id c, P (EConst id c).
Hypothesis HIdent : forall x t, P (EIdent x t).
Hypothesis HParen : forall e, P e -> P (EParen e).
Hypothesis HNot : forall e, P e -> P (ENot e).
Hypothesis HUnaryBad : P EUnaryBad.
Hypothesis HBinary : forall op tx x y, P x -> P y -> P (EBinary op tx x y).
Hypothesis HSlice : forall tx x lo hi three, P x ->
  (forall e, lo = Some e -> P e) -> (forall e, hi = Some e -> P e) -> P (ESlice tx x lo hi three).
Hypothesis HCall : forall f t recv args, (forall e, recv = Some e -> P e) -> Forall P args -> P (ECall f t recv args).
Hypothesis HSelector : forall nid t x, P x -> P (ESelector nid t x).
Hypothesis HBad : P EBad.

Fixpoint expr_ind' (e : expr) : P e :=
  let fix all (l : list expr) : Forall P l :=
      match l with [] => Forall_nil _ | e :: l' => Forall_cons _ (expr_ind' e) (all l') end in
  let opt (o : option expr) : forall e, o = Some e -> P e :=
      match o return forall e, o = Some e -> P e with
      | Some e0 => fun e H => match H in _ = s return match s with Some e' => P e' | None => True end with eq_refl => expr_ind' e0 end
      | None => fun e H => match H in _ = s return match s with Some e' => P e' | None => True end with eq_refl => I end
      end in
  match e with
  | EConst id c => HConst id c
  | EIdent x t => HIdent x t
  | EParen e => HParen e (expr_ind' e)
  | ENot e => HNot e (expr_ind' e)
  | EUnaryBad => HUnaryBad
  | EBinary op tx x y => HBinary op tx x y (expr_ind' x) (expr_ind' y)
  | ESlice tx x lo hi three => HSlice tx x lo hi three (expr_ind' x) (opt lo) (opt hi)
  | ECall f t recv args => HCall f t recv args (opt recv) (all args)
  | ESelector nid t x => HSelector nid t x (expr_ind' x)
  | EBad => HBad
  end.
End ExprInd.

Section StmtInd.
Variable P : stmt -> Prop.
Hypothesis HReturn : forall res, P (SReturn res).
Hypothesis HAssign : forall tok lhs nrhs rhs, P (SAssign tok lhs nrhs rhs).
Hypothesis HIncDec : forall x inc, P (SIncDec x inc).
Hypothesis HIf : forall init c t e, (forall s, init = Some s -> P s) -> Forall P t -> (forall s, e = Some s -> P s) -> P (SIf init c t e).
Hypothesis HFor : forall init c post body, (forall s, init = Some s -> P s) -> (forall s, post = Some s -> P s) -> Forall P body ->
  P (SFor init c post body).
Hypothesis HBreak : P SBreak.
Hypothesis HExpr : forall e, P (SExpr e).
Hypothesis HBlock : forall l, Forall P l -> P (SBlock l).
Hypothesis HBad : P SBad.

Fixpoint stmt_ind' (s : stmt) : P s :=
  let fix all (l : list stmt) : Forall P l :=
      match l with [] => Forall_nil _ | x :: l' => Forall_cons _ (stmt_ind' x) (all l') end in
  let opt (o : option stmt) : forall x, o = Some x -> P x :=
      match o return forall x, o = Some x -> P x with
      | Some s0 => fun x H => match H in _ = y return match y with Some x' => P x' | None => True end with eq_refl => stmt_ind' s0 end
      | None => fun x H => match H in _ = y return match y with Some x' => P x' | None => True end with eq_refl => I end
      end in
  match s with
  | SReturn res => HReturn res
  | SAssign tok lhs nrhs rhs => HAssign tok lhs nrhs rhs
  | SIncDec x inc => HIncDec x inc
  | SIf init c t e => HIf init c t e (opt init) (all t) (opt e)
  | SFor init c post body => HFor init c post body (opt init) (opt post) (all body)
  | SBreak => HBreak
  | SExpr e => HExpr e
  | SBlock l => HBlock l (all l)
  | SBad => HBad
  end.
End StmtInd.
