(* The source semantics produces slice-bounds panics only (the one run-time failure of the Go subset): in particular
   never the kind the VM model uses for its own index failures (a missing function, an empty stack). *)
From Coq Require Import List ZArith Bool Lia.
From RG.Base Require Import Outcome GoInt GoSlice.
From RG.Quasigo Require Import Source Bytecode VM Sem SemLemmas.
Import ListNotations.
Local Open Scope Z_scope.

Lemma ebind_panic {A B} (x : eres A) (f : A -> eres B) w :
  ebind x f = EPanic w -> x = EPanic w \/ exists a, x = EOk a /\ f a = EPanic w.
Proof. destruct x; cbn; try discriminate; eauto. intros H. inversion H. now left. Qed.

Lemma slice_panic_kind {A} (s : list A) lo hi w : slice s lo hi = Panic w -> w = PSliceBounds.
Proof. unfold slice. destruct (_ && _); intros H; inversion H. reflexivity. Qed.

Lemma go_slice_panic_kind s l h w : go_slice s l h = EPanic w -> w = PSliceBounds.
Proof.
  unfold go_slice. intros H.
  destruct s; try discriminate. destruct l as [[| |l| | |]|], h as [[| |h| | |]|]; try discriminate.
  - destruct (slice s l h) eqn:E; inversion H; subst. eapply slice_panic_kind; eauto.
  - destruct (slice s l (len s)) eqn:E; inversion H; subst. eapply slice_panic_kind; eauto.
  - destruct (slice s 0 h) eqn:E; inversion H; subst. eapply slice_panic_kind; eauto.
Qed.

Lemma native_call_no_panic ns nf id v r vs w : native_call ns nf id v r vs <> EPanic w.
Proof.
  unfold native_call. destruct (ns id); [|discriminate]. destruct (negb _); [discriminate|].
  destruct (nf id _); [|discriminate]. destruct (results_conform _ _); discriminate.
Qed.

Tactic Notation "bpanic" hyp(H) "as" ident(a) ident(Hn) :=
  apply ebind_panic in H; destruct H as [H|(a & _ & Hn)].

Section Kind.
Variable nat_sig : Z -> option natsig.
Variable nat_fun : Z -> list value -> option (list value).
Variable callf : Z -> list value -> eres (option value).
Hypothesis Hcallf : forall id vs w, callf id vs = EPanic w -> w = PSliceBounds.

Section Expr.
Variable st : store.
Notation eval := (eval nat_sig nat_fun callf st).

Definition epk (e : expr) : Prop := forall w, eval e = EPanic w -> w = PSliceBounds.

Lemma eval_list_pk l : Forall epk l -> forall w, eval_list_with eval l = EPanic w -> w = PSliceBounds.
Proof.
  induction 1 as [|e l He _ IH]; intros w H; cbn in H; [discriminate|].
  bpanic H as a Hq; [eauto|]. bpanic Hq as a0 Hq2; [eauto|discriminate].
Qed.

Lemma eval_opt_pk o : (forall e, o = Some e -> epk e) -> forall w, eval_opt_with eval o = EPanic w -> w = PSliceBounds.
Proof.
  destruct o as [e|]; intros He w H; cbn in H; [|discriminate]. bpanic H as a Hq; [eapply He; eauto|discriminate].
Qed.

Lemma call_results_pk f recv args : (forall e, recv = Some e -> epk e) -> Forall epk args ->
  forall w, call_results_with nat_sig nat_fun callf eval f recv args = EPanic w -> w = PSliceBounds.
Proof.
  intros Hr Ha w H. unfold call_results_with in H. destruct f as [| |id variadic|id res|]; try discriminate.
  - destruct args as [|a9 args]; [discriminate|]. inversion Ha; subst. bpanic H as a Hq; [eauto|].
    destruct (ty_of a9), a; discriminate.
  - bpanic H as a Hq; [eapply eval_opt_pk; eauto|]. bpanic Hq as a0 Hq2; [eapply eval_list_pk; eauto|]. exfalso. eapply native_call_no_panic; eauto.
  - destruct recv; [discriminate|]. bpanic H as a Hq; [eapply eval_list_pk; eauto|]. bpanic Hq as a0 Hq2; [eauto|].
    destruct a0 as [v|], res; try discriminate; destruct (has_ty v _); discriminate.
Qed.

Lemma eval_pk e : epk e.
Proof.
  induction e as [id c|x t|e IHe|e IHe| |op tx e1 e2 IHe1 IHe2|tx e lo hi three IHe IHlo IHhi|f t recv args IHrecv IHargs|nid t e IHe| ]
    using expr_ind'; intros w H; cbn [Sem.eval] in H.
  - destruct c; discriminate.
  - destruct (store_get st x) as [v|]; [|discriminate]. unfold typed in H. destruct (has_ty v t); discriminate.
  - eauto.
  - bpanic H as a Hq; [eauto|]. destruct a; discriminate.
  - discriminate.
  - destruct op; try discriminate.
    + bpanic H as a Hq; [eauto|]. destruct a as [|[|]| | | |]; try discriminate. bpanic Hq as a0 Hq2; [eauto|]. destruct a0; discriminate.
    + bpanic H as a Hq; [eauto|]. destruct a as [|[|]| | | |]; try discriminate. bpanic Hq as a0 Hq2; [eauto|]. destruct a0; discriminate.
    + destruct (ident_name e1 =? name_nil).
      { bpanic H as a Hq; [eauto|]. destruct (value_is_nil a); discriminate. }
      destruct (ident_name e2 =? name_nil).
      { bpanic H as a Hq; [eauto|]. destruct (value_is_nil a); discriminate. }
      bpanic H as a Hq; [eauto|]. bpanic Hq as a0 Hq2; [eauto|]. destruct tx, a, a0; discriminate.
    + destruct (ident_name e1 =? name_nil).
      { bpanic H as a Hq; [eauto|]. destruct (value_is_nil a); discriminate. }
      destruct (ident_name e2 =? name_nil).
      { bpanic H as a Hq; [eauto|]. destruct (value_is_nil a); discriminate. }
      bpanic H as a Hq; [eauto|]. bpanic Hq as a0 Hq2; [eauto|]. destruct tx, a, a0; discriminate.
    + bpanic H as a Hq; [eauto|]. bpanic Hq as a0 Hq2; [eauto|]. destruct tx, a, a0; discriminate.
    + bpanic H as a Hq; [eauto|]. bpanic Hq as a0 Hq2; [eauto|]. destruct tx, a, a0; discriminate.
    + bpanic H as a Hq; [eauto|]. bpanic Hq as a0 Hq2; [eauto|]. destruct tx, a, a0; discriminate.
    + bpanic H as a Hq; [eauto|]. bpanic Hq as a0 Hq2; [eauto|]. destruct tx, a, a0; discriminate.
    + bpanic H as a Hq; [eauto|]. bpanic Hq as a0 Hq2; [eauto|]. destruct tx, a, a0; discriminate.
    + bpanic H as a Hq; [eauto|]. bpanic Hq as a0 Hq2; [eauto|]. destruct tx, a, a0; discriminate.
  - destruct three; [discriminate|]. destruct (negb _); [discriminate|].
    bpanic H as a Hq; [eauto|]. bpanic Hq as a0 Hq2; [exact (eval_opt_pk lo IHlo _ Hq)|]. bpanic Hq2 as a1 Hq3; [exact (eval_opt_pk hi IHhi _ Hq2)|].
    eapply go_slice_panic_kind; exact Hq3.
  - bpanic H as a Hq; [eapply call_results_pk; eauto|]. destruct a as [|v [|]]; try discriminate. unfold typed in Hq. destruct (has_ty v t); discriminate.
  - bpanic H as a Hq; [eauto|]. bpanic Hq as a0 Hq2; [exfalso; eapply native_call_no_panic; eauto|].
    destruct a0 as [|r [|]]; try discriminate. unfold typed in Hq2. destruct (has_ty r t); discriminate.
  - discriminate.
Qed.

Lemma eval_rhs_pk n rhs w : eval_rhs nat_sig nat_fun callf st n rhs = EPanic w -> w = PSliceBounds.
Proof.
  unfold eval_rhs. intros H.
  assert (Hc : forall f recv args m, (let! rs := call_results nat_sig nat_fun callf st f recv args in if (length rs =? m)%nat then EOk rs else EStuck) = EPanic w -> w = PSliceBounds).
  { intros f recv args m Hx. bpanic Hx as a Hq.
    - unfold call_results in Hx. eapply call_results_pk; [| |exact Hx]; [intros e _; apply eval_pk|apply Forall_forall; intros e _; apply eval_pk].
    - destruct (length a =? m)%nat; discriminate. }
  destruct n as [|[|n]].
  - destruct rhs; try discriminate. eapply (Hc f recv args); eauto.
  - bpanic H as a Hq; [eapply eval_pk; eauto|discriminate].
  - destruct rhs; try discriminate. eapply (Hc f recv args); eauto.
Qed.

End Expr.

Notation exec := (exec nat_sig nat_fun callf).

Lemma block_pk (ex : stmt -> store -> eres out) : (forall s st w, ex s st = EPanic w -> w = PSliceBounds) ->
  forall l st w, block_with ex l st = EPanic w -> w = PSliceBounds.
Proof.
  intros Hex. induction l as [|s l IH]; intros st w H; cbn in H; [discriminate|].
  bpanic H as a Hq; [eauto|]. destruct a; try discriminate; eauto.
Qed.

Lemma exec_pk : forall fuel s st w, exec fuel s st = EPanic w -> w = PSliceBounds.
Proof.
  induction fuel as [|f IH]; intros s st w H; [discriminate|]. cbn [Sem.exec] in H.
  assert (Hblk : forall l st0 w0, block_with (exec f) l st0 = EPanic w0 -> w0 = PSliceBounds) by (apply block_pk; exact IH).
  assert (Hopt : forall o st0 w0, exec_opt_with (exec f) o st0 = EPanic w0 -> w0 = PSliceBounds).
  { intros [x|] st0 w0 Hx; cbn in Hx; [eauto|discriminate]. }
  destruct s as [res|tok lhs nrhs rhs|x inc|init c t e|init c post body| |e|l| ]; try discriminate.
  - destruct res as [|e res]; [discriminate|]. bpanic H as a Hq; [eapply eval_pk; eauto|discriminate].
  - destruct (negb (nrhs =? 1)); [discriminate|]. bpanic H as a Hq; [eapply eval_rhs_pk; eauto|].
    destruct tok; try discriminate.
    + destruct (assign_all st lhs a); discriminate.
    + destruct (assign_all st lhs a); discriminate.
    + destruct lhs as [|[x t] [|]], a as [|v [|]]; try discriminate. destruct (store_get st x) as [[| | | | |]|], v; discriminate.
    + destruct lhs as [|[x t] [|]], a as [|v [|]]; try discriminate. destruct (store_get st x) as [[| | | | |]|], v; discriminate.
  - destruct (store_get st x) as [[| | | | |]|]; discriminate.
  - (* if *)
    bpanic H as o Hq; [eauto|]. destruct o as [st1| |]; try discriminate.
    bpanic Hq as v Hq2; [eapply eval_pk; eauto|]. bpanic Hq2 as b Hq3; [destruct v; discriminate|].
    destruct b; eauto.
  - (* for *)
    bpanic H as o Hq; [eauto|]. destruct o as [st1| |]; try discriminate.
    bpanic Hq as go_on Hq2.
    { destruct c as [c'|]; [|discriminate]. bpanic Hq as v Hq2; [eapply eval_pk; eauto|destruct v; discriminate]. }
    destruct (negb go_on); [discriminate|].
    bpanic Hq2 as ob Hq3; [eauto|]. destruct ob as [st2|st2|v]; try discriminate.
    bpanic Hq3 as op Hq4; [eauto|]. destruct op as [st3| |]; try discriminate. eauto.
  - (* call statement *)
    destruct e as [| | | | | | |fc t recv args| | ]; try discriminate.
    bpanic H as rs Hq.
    + unfold call_results in H. eapply call_results_pk; [| |exact H]; [intros e _; apply eval_pk|apply Forall_forall; intros e _; apply eval_pk].
    + destruct rs; discriminate.
  - eauto.
Qed.

End Kind.

Theorem call_sem_panic_kind nat_sig nat_fun p : forall fuel id args w,
  call_sem nat_sig nat_fun p fuel id args = EPanic w -> w = PSliceBounds.
Proof.
  induction fuel as [|f IH]; intros id args w H; [discriminate|]. cbn [call_sem] in H.
  destruct (nthz p id) as [fd|]; [|discriminate]. destruct (bind_params (fd_params fd) args []) as [st|]; [|discriminate].
  bpanic H as o Hq.
  - eapply block_pk; [|exact H]. intros s st0 w0 Hs. eapply (exec_pk nat_sig nat_fun (call_sem nat_sig nat_fun p f) IH); eauto.
  - destruct o as [st1|st1|[x|]]; destruct (fd_results fd) as [|t [|]]; try discriminate. destruct (has_ty x t); discriminate.
Qed.

Corollary call_sem_panic_not_index nat_sig nat_fun p fuel id args w :
  call_sem nat_sig nat_fun p fuel id args = EPanic w -> w <> PIndex.
Proof. intros H. rewrite (call_sem_panic_kind _ _ _ _ _ _ _ H). discriminate. Qed.
