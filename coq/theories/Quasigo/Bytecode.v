(* Quasigo bytecode: abstract instructions, the regenerated configuration (opcode numbering, unconditional-jump
   set, local slot count, native signatures), byte encoding (assemble) and decoding. *)
From Coq Require Import List ZArith Bool Lia String.
From RG.Base Require Import GoSlice.
Import ListNotations.
Local Open Scope Z_scope.

Inductive opkind :=
| KPop | KDup | KPushParam | KPushIntParam | KPushLocal | KPushIntLocal | KPushFalse | KPushTrue
| KPushConst | KPushIntConst | KConvIntToIface | KSetLocal | KSetIntLocal | KIncLocal | KDecLocal
| KReturnTop | KReturnIntTop | KReturnFalse | KReturnTrue | KReturn
| KJump | KJumpFalse | KJumpTrue | KSetVariadicLen | KCallNative | KCall | KIntCall | KVoidCall
| KIsNil | KIsNotNil | KNot | KEqInt | KNotEqInt | KGtInt | KGtEqInt | KLtInt | KLtEqInt
| KEqString | KNotEqString | KConcat | KAdd | KSub | KStringSlice | KStringSliceFrom | KStringSliceTo | KStringLen.

Definition all_kinds : list opkind :=
  [KPop; KDup; KPushParam; KPushIntParam; KPushLocal; KPushIntLocal; KPushFalse; KPushTrue;
   KPushConst; KPushIntConst; KConvIntToIface; KSetLocal; KSetIntLocal; KIncLocal; KDecLocal;
   KReturnTop; KReturnIntTop; KReturnFalse; KReturnTrue; KReturn;
   KJump; KJumpFalse; KJumpTrue; KSetVariadicLen; KCallNative; KCall; KIntCall; KVoidCall;
   KIsNil; KIsNotNil; KNot; KEqInt; KNotEqInt; KGtInt; KGtEqInt; KLtInt; KLtEqInt;
   KEqString; KNotEqString; KConcat; KAdd; KSub; KStringSlice; KStringSliceFrom; KStringSliceTo; KStringLen].

Definition kind_eqb (a b : opkind) : bool :=
  match a, b with
  | KPop, KPop | KDup, KDup | KPushParam, KPushParam | KPushIntParam, KPushIntParam | KPushLocal, KPushLocal
  | KPushIntLocal, KPushIntLocal | KPushFalse, KPushFalse | KPushTrue, KPushTrue | KPushConst, KPushConst
  | KPushIntConst, KPushIntConst | KConvIntToIface, KConvIntToIface | KSetLocal, KSetLocal | KSetIntLocal, KSetIntLocal
  | KIncLocal, KIncLocal | KDecLocal, KDecLocal | KReturnTop, KReturnTop | KReturnIntTop, KReturnIntTop
  | KReturnFalse, KReturnFalse | KReturnTrue, KReturnTrue | KReturn, KReturn | KJump, KJump | KJumpFalse, KJumpFalse
  | KJumpTrue, KJumpTrue | KSetVariadicLen, KSetVariadicLen | KCallNative, KCallNative | KCall, KCall
  | KIntCall, KIntCall | KVoidCall, KVoidCall | KIsNil, KIsNil | KIsNotNil, KIsNotNil | KNot, KNot | KEqInt, KEqInt
  | KNotEqInt, KNotEqInt | KGtInt, KGtInt | KGtEqInt, KGtEqInt | KLtInt, KLtInt | KLtEqInt, KLtEqInt
  | KEqString, KEqString | KNotEqString, KNotEqString | KConcat, KConcat | KAdd, KAdd | KSub, KSub
  | KStringSlice, KStringSlice | KStringSliceFrom, KStringSliceFrom | KStringSliceTo, KStringSliceTo
  | KStringLen, KStringLen => true
  | _, _ => false
  end.

Lemma kind_eqb_eq a b : kind_eqb a b = true <-> a = b.
Proof. split; [destruct a, b; cbn; congruence | intros ->; destruct b; reflexivity]. Qed.

(* operand encoding of each kind, as written by emit / emit8 / emit16 / emitJump and read back by eval *)
Inductive operand := ONone | OU8 | OU16 | OI16.

Definition operand_of (k : opkind) : operand :=
  match k with
  | KPushParam | KPushIntParam | KPushLocal | KPushIntLocal | KPushConst | KPushIntConst
  | KSetLocal | KSetIntLocal | KIncLocal | KDecLocal | KSetVariadicLen => OU8
  | KCallNative | KCall | KIntCall | KVoidCall => OU16
  | KJump | KJumpFalse | KJumpTrue => OI16
  | _ => ONone
  end.

Definition width (k : opkind) : Z :=
  match operand_of k with ONone => 1 | OU8 => 2 | OU16 | OI16 => 3 end.

(* an instruction = kind + (un-truncated) operand; operand 0 for kinds without one *)
Record instr := I { ikind : opkind; iarg : Z }.
Definition code := list instr.

Definition I0 (k : opkind) : instr := I k 0.

Fixpoint size (c : code) : Z :=
  match c with [] => 0 | i :: c' => width (ikind i) + size c' end.

Lemma width_pos k : 1 <= width k <= 3.
Proof. unfold width; destruct (operand_of k); lia. Qed.

Lemma size_nonneg c : 0 <= size c.
Proof. induction c as [|i c IH]; cbn [size]; [lia|]. pose proof (width_pos (ikind i)). lia. Qed.

Lemma size_app a b : size (a ++ b) = size a + size b.
Proof. induction a as [|i a IH]; cbn [size app]; [lia|]. rewrite IH. lia. Qed.

(* ---- native function signatures (regenerated from the bodies of the bound Go functions) ---- *)
Inductive stackop := SPop | SPopInt | SPopVariadic.      (* what the native removes, in execution order *)
Inductive pushop := SPush | SPushInt.                    (* what it adds, in execution order *)
Record natsig := mknatsig { ns_pops : list stackop; ns_pushes : list pushop }.

(* description of one bound native, as read from its Go source by go2coq *)
Inductive pkind := PObj | PInt | PVariadic.
Record native_desc := mknative {
  nd_name : string;
  nd_pops : list stackop;                 (* stack removals in execution order *)
  nd_pushes : list (list pushop);         (* stack additions, one list per return path *)
  nd_params : list pkind;                 (* declared Go signature (receiver first) *)
  nd_results : list pkind;
  nd_popvars : list string;               (* variable each pop is bound to *)
  nd_call : option (string * list string) (* the call of the bound Go function: callee, argument variables *)
}.

Definition pkind_of_pop (p : stackop) : pkind := match p with SPop => PObj | SPopInt => PInt | SPopVariadic => PVariadic end.
Definition pkind_eqb (a b : pkind) : bool :=
  match a, b with PObj, PObj | PInt, PInt | PVariadic, PVariadic => true | _, _ => false end.
Definition push_matches (p : pushop) (k : pkind) : bool :=
  match p, k with SPush, PObj | SPushInt, PInt => true | _, _ => false end.
Fixpoint list_eqb {A} (eqb : A -> A -> bool) (a b : list A) : bool :=
  match a, b with
  | [], [] => true
  | x :: a', y :: b' => eqb x y && list_eqb eqb a' b'
  | _, _ => false
  end.
Fixpoint all2 {A B} (f : A -> B -> bool) (a : list A) (b : list B) : bool :=
  match a, b with
  | [], [] => true
  | x :: a', y :: b' => f x y && all2 f a' b'
  | _, _ => false
  end.

(* A native agrees with the Go signature of the symbol it implements: it pops its parameters in reverse
   declaration order, each from the stack its type lives on, pushes its results in declaration order on every
   return path, and (when it is a plain wrapper) passes the popped values to the bound function in declaration
   order under the bound function's own name. *)
Definition native_ok (d : native_desc) : bool :=
  list_eqb pkind_eqb (map pkind_of_pop (nd_pops d)) (rev (nd_params d)) &&
  negb (match nd_pushes d with [] => true | _ => false end) &&
  forallb (fun path => all2 push_matches path (nd_results d)) (nd_pushes d) &&
  match nd_call d with
  | Some (callee, args) => String.eqb callee (nd_name d) && list_eqb String.eqb args (rev (nd_popvars d))
  | None => true
  end.

Definition natsig_of_desc (d : native_desc) : natsig :=
  mknatsig (nd_pops d) (match nd_pushes d with p :: _ => p | [] => [] end).

(* native ids are positions in env.nativeFuncs; [names] is that table as reported by the running engine *)
Definition nat_sig_of (names : list string) (tbl : list native_desc) (id : Z) : option natsig :=
  if id <? 0 then None else
  match nth_error names (Z.to_nat id) with
  | None => None
  | Some n => match find (fun d => String.eqb (nd_name d) n) tbl with Some d => Some (natsig_of_desc d) | None => None end
  end.

(* ---- configuration regenerated from /repo on every check ---- *)
Record config := mkconfig {
  op_num : opkind -> Z;                    (* opcodes.gen.go numbering *)
  uncond_ops : list opkind;                (* compiler.isUncondJump *)
  max_locals : Z;                          (* maxFuncLocals *)
  nat_sig : Z -> option natsig;            (* native id -> pop/push signature *)
  bind_resets_last : bool;                 (* bindLabel forgets lastOp (fix of the if/else peephole defect) *)
  call_pops_frame : bool                   (* opCall/opIntCall/opVoidCall drop the callee's frame (fix of the call convention defect) *)
}.

Section WithConfig.
Variable cfg : config.

Definition is_uncond (k : opkind) : bool := existsb (kind_eqb k) (uncond_ops cfg).

(* every opcode number is a distinct byte *)
Definition opnums_ok : bool :=
  forallb (fun k => (0 <=? op_num cfg k) && (op_num cfg k <? 256)) all_kinds &&
  forallb (fun k => forallb (fun k' => kind_eqb k k' || negb (op_num cfg k =? op_num cfg k')) all_kinds) all_kinds.

(* put16: little-endian uint16(value) *)
Definition lo8 (v : Z) : Z := v mod 256.
Definition hi8 (v : Z) : Z := (v / 256) mod 256.

Definition encode (i : instr) : list Z :=
  match operand_of (ikind i) with
  | ONone => [op_num cfg (ikind i)]
  | OU8 => [op_num cfg (ikind i); lo8 (iarg i)]
  | OU16 | OI16 => [op_num cfg (ikind i); lo8 (iarg i); hi8 (iarg i)]
  end.

Fixpoint assemble (c : code) : list Z :=
  match c with [] => [] | i :: c' => encode i ++ assemble c' end.

Definition kind_of_byte (b : Z) : option opkind := find (fun k => op_num cfg k =? b) all_kinds.

Definition nthz {A} (l : list A) (i : Z) : option A := if i <? 0 then None else nth_error l (Z.to_nat i).

(* decode16: int(int16(le16)) *)
Definition sext16 (v : Z) : Z := if v <? 32768 then v else v - 65536.

(* instruction found at byte offset pc of a byte string, as eval reads it *)
Definition decode_at (bs : list Z) (pc : Z) : option instr :=
  match nthz bs pc with
  | None => None
  | Some b =>
    match kind_of_byte b with
    | None => None
    | Some k =>
      match operand_of k with
      | ONone => Some (I k 0)
      | OU8 => match nthz bs (pc + 1) with Some a => Some (I k a) | None => None end
      | OU16 => match nthz bs (pc + 1), nthz bs (pc + 2) with Some a, Some b' => Some (I k (a + 256 * b')) | _, _ => None end
      | OI16 => match nthz bs (pc + 1), nthz bs (pc + 2) with Some a, Some b' => Some (I k (sext16 (a + 256 * b'))) | _, _ => None end
      end
    end
  end.

(* instruction starting at byte offset pc of an instruction list *)
Fixpoint instr_at (c : code) (pc : Z) : option instr :=
  match c with
  | [] => None
  | i :: c' => if pc =? 0 then Some i else if pc <? width (ikind i) then None else instr_at c' (pc - width (ikind i))
  end.

(* an instruction whose operand survives the 8/16-bit encoding *)
Definition encodable (i : instr) : bool :=
  match operand_of (ikind i) with
  | ONone => iarg i =? 0
  | OU8 => (0 <=? iarg i) && (iarg i <? 256)
  | OU16 => (0 <=? iarg i) && (iarg i <? 65536)
  | OI16 => (-32768 <=? iarg i) && (iarg i <? 32768)
  end.

End WithConfig.
