(* Model of quasigo.Env as the rule loader uses it (ruleguard/quasigo/env.go, quasigo.go: AddFunc / RemoveFunc /
   GetFunc, compile.go: compileCall's lookup; ruleguard/ir_loader.go: compileFilterFuncs): the table of compiled user
   functions indexed by function ID, the binding of names to IDs, and the compilation of several units (rules files)
   into one environment, one after the other.

   Calls between user functions are compiled *by ID* (opCall / opIntCall / opVoidCall <id>), rules keep pointers to
   the compiled functions; both stay valid only if a slot of the table never changes once it is filled.

   A source function whose calls are not yet bound ([nfundecl]) is a [fundecl] in which the number carried by
   [FUser] is the *name* of the callee; [resolve_fun] replaces it by the ID the name is bound to (what compileCall
   reads from nameToFuncID), or by [FUnresolved].

   Theorems:
     load_units_extends            compiling further units only appends to the function table (IDs are stable)
     load_units_inv                the table is the compilation of the resolved sources (compile_prog), so
                                   Correct.compile_correct_partial applies to it
     run_table_extension           a VM run is the same in every extension of the function table
     later_units_preserve_meaning  after any further units were compiled, an already compiled function still computes
                                   what its source means in Go (results and panics), on the bytes
     load_unit_binds_own_unit      while a unit is compiled, the names it declares are bound to its own functions
                                   declared so far and to nothing else: a call never binds to an equal-named function
                                   of a unit compiled earlier *)
From Coq Require Import List ZArith Bool Lia.
From RG.Base Require Import Outcome GoInt GoSlice.
From RG.Quasigo Require Import Source Bytecode Compile VM Sem Guards Link VMLemmas CompileLemmas FunCorrect FunPanic Correct Encodable PanicKind.
Import ListNotations.
Local Open Scope Z_scope.

(* ---------- name resolution ---------- *)
Section Resolve.
Variable names : list (Z * Z).      (* nameToFuncID *)

Definition resolve_callee (f : callee) : callee :=
  match f with
  | FUser n res => match map_get names n with Some id => FUser id res | None => FUnresolved end
  | _ => f
  end.

Fixpoint resolve_expr (e : expr) : expr :=
  match e with
  | EConst _ _ | EIdent _ _ | EUnaryBad | EBad => e
  | EParen x => EParen (resolve_expr x)
  | ENot x => ENot (resolve_expr x)
  | EBinary op tx x y => EBinary op tx (resolve_expr x) (resolve_expr y)
  | ESlice tx x lo hi three => ESlice tx (resolve_expr x) (option_map resolve_expr lo) (option_map resolve_expr hi) three
  | ECall f t recv args => ECall (resolve_callee f) t (option_map resolve_expr recv) (map resolve_expr args)
  | ESelector nid t x => ESelector nid t (resolve_expr x)
  end.

Fixpoint resolve_stmt (s : stmt) : stmt :=
  match s with
  | SReturn res => SReturn (map resolve_expr res)
  | SAssign tok lhs nrhs rhs => SAssign tok lhs nrhs (resolve_expr rhs)
  | SIncDec _ _ | SBreak | SBad => s
  | SIf init c t e => SIf (option_map resolve_stmt init) (resolve_expr c) (map resolve_stmt t) (option_map resolve_stmt e)
  | SFor init c post body =>
      SFor (option_map resolve_stmt init) (option_map resolve_expr c) (option_map resolve_stmt post) (map resolve_stmt body)
  | SExpr e => SExpr (resolve_expr e)
  | SBlock l => SBlock (map resolve_stmt l)
  end.

Definition resolve_fun (fd : fundecl) : fundecl :=
  mkfun (fd_params fd) (fd_results fd) (map resolve_stmt (fd_body fd)).
End Resolve.

(* the callee names a function mentions *)
Fixpoint callee_names_expr (e : expr) : list Z :=
  match e with
  | EConst _ _ | EIdent _ _ | EUnaryBad | EBad => []
  | EParen x | ENot x | ESelector _ _ x => callee_names_expr x
  | EBinary _ _ x y => callee_names_expr x ++ callee_names_expr y
  | ESlice _ x lo hi _ =>
      callee_names_expr x ++ match lo with Some l => callee_names_expr l | None => [] end
                          ++ match hi with Some h => callee_names_expr h | None => [] end
  | ECall f _ recv args =>
      match f with FUser n _ => [n] | _ => [] end
      ++ match recv with Some r => callee_names_expr r | None => [] end
      ++ flat_map callee_names_expr args
  end.

Fixpoint callee_names_stmt (s : stmt) : list Z :=
  match s with
  | SReturn res => flat_map callee_names_expr res
  | SAssign _ _ _ rhs => callee_names_expr rhs
  | SIncDec _ _ | SBreak | SBad => []
  | SIf init c t e =>
      match init with Some i => callee_names_stmt i | None => [] end ++ callee_names_expr c
      ++ flat_map callee_names_stmt t ++ match e with Some x => callee_names_stmt x | None => [] end
  | SFor init c post body =>
      match init with Some i => callee_names_stmt i | None => [] end
      ++ match c with Some x => callee_names_expr x | None => [] end
      ++ match post with Some x => callee_names_stmt x | None => [] end ++ flat_map callee_names_stmt body
  | SExpr e => callee_names_expr e
  | SBlock l => flat_map callee_names_stmt l
  end.

Definition callee_names (fd : fundecl) : list Z := flat_map callee_names_stmt (fd_body fd).

(* resolution consults the table only at the callee names of the function *)
Lemma resolve_expr_ext (m1 m2 : list (Z * Z)) : forall e,
  (forall n, In n (callee_names_expr e) -> map_get m1 n = map_get m2 n) -> resolve_expr m1 e = resolve_expr m2 e.
Proof.
  induction e using expr_ind'; intros Hn; cbn [resolve_expr callee_names_expr] in *; try reflexivity.
  - f_equal. auto.
  - f_equal. auto.
  - f_equal; [apply IHe1|apply IHe2]; intros n Hin; apply Hn; apply in_or_app; auto.
  - assert (Hx : resolve_expr m1 e = resolve_expr m2 e) by (apply IHe; intros n Hin; apply Hn; apply in_or_app; auto).
    assert (Hlo : option_map (resolve_expr m1) lo = option_map (resolve_expr m2) lo).
    { destruct lo as [l|]; [|reflexivity]. cbn [option_map]. f_equal. apply (H l eq_refl). intros n Hin. apply Hn.
      apply in_or_app. right. apply in_or_app. auto. }
    assert (Hhi : option_map (resolve_expr m1) hi = option_map (resolve_expr m2) hi).
    { destruct hi as [h|]; [|reflexivity]. cbn [option_map]. f_equal. apply (H0 h eq_refl). intros n Hin. apply Hn.
      apply in_or_app. right. apply in_or_app. auto. }
    now rewrite Hx, Hlo, Hhi.
  - assert (Hf : resolve_callee m1 f = resolve_callee m2 f).
    { destruct f; try reflexivity. cbn [resolve_callee]. rewrite (Hn id); [reflexivity|]. apply in_or_app. left. now left. }
    assert (Hr : option_map (resolve_expr m1) recv = option_map (resolve_expr m2) recv).
    { destruct recv as [r|]; [|reflexivity]. cbn [option_map]. f_equal. apply (H r eq_refl). intros n Hin. apply Hn.
      apply in_or_app. right. apply in_or_app. auto. }
    assert (Ha : map (resolve_expr m1) args = map (resolve_expr m2) args).
    { assert (Hn' : forall n, In n (flat_map callee_names_expr args) -> map_get m1 n = map_get m2 n).
      { intros n Hin. apply Hn. apply in_or_app. right. apply in_or_app. auto. }
      clear Hn Hf Hr. induction H0 as [|a l Ha Hl IH]; [reflexivity|]. cbn [map flat_map] in *. f_equal.
      - apply Ha. intros n Hin. apply Hn'. apply in_or_app. auto.
      - apply IH. intros n Hin. apply Hn'. apply in_or_app. auto. }
    now rewrite Hf, Hr, Ha.
  - f_equal. auto.
Qed.

Lemma map_ext_flat {A} (f g : A -> A) (names : A -> list Z) (P : Z -> Prop) l :
  Forall (fun a => (forall n, In n (names a) -> P n) -> f a = g a) l ->
  (forall n, In n (flat_map names l) -> P n) -> map f l = map g l.
Proof.
  induction 1 as [|a l Ha Hl IH]; intros Hn; [reflexivity|]. cbn [map flat_map] in *. f_equal.
  - apply Ha. intros n Hin. apply Hn. apply in_or_app. auto.
  - apply IH. intros n Hin. apply Hn. apply in_or_app. auto.
Qed.

Lemma resolve_stmt_ext (m1 m2 : list (Z * Z)) : forall s,
  (forall n, In n (callee_names_stmt s) -> map_get m1 n = map_get m2 n) -> resolve_stmt m1 s = resolve_stmt m2 s.
Proof.
  assert (HE : forall l, (forall n, In n (flat_map callee_names_expr l) -> map_get m1 n = map_get m2 n) ->
                         map (resolve_expr m1) l = map (resolve_expr m2) l).
  { intros l. apply (map_ext_flat _ _ callee_names_expr (fun n => map_get m1 n = map_get m2 n)).
    apply Forall_forall. intros e _. apply resolve_expr_ext. }
  induction s using stmt_ind'; intros Hn; cbn [resolve_stmt callee_names_stmt] in *; try reflexivity.
  - f_equal. now apply HE.
  - f_equal. now apply resolve_expr_ext.
  - assert (Hi : option_map (resolve_stmt m1) init = option_map (resolve_stmt m2) init).
    { destruct init as [i|]; [|reflexivity]. cbn [option_map]. f_equal. apply (H i eq_refl). intros n Hin. apply Hn. apply in_or_app. auto. }
    assert (Hc : resolve_expr m1 c = resolve_expr m2 c).
    { apply resolve_expr_ext. intros n Hin. apply Hn. apply in_or_app. right. apply in_or_app. auto. }
    assert (Ht : map (resolve_stmt m1) t = map (resolve_stmt m2) t).
    { apply (map_ext_flat _ _ callee_names_stmt (fun n => map_get m1 n = map_get m2 n)); [exact H0|].
      intros n Hin. apply Hn. apply in_or_app. right. apply in_or_app. right. apply in_or_app. auto. }
    assert (He : option_map (resolve_stmt m1) e = option_map (resolve_stmt m2) e).
    { destruct e as [x|]; [|reflexivity]. cbn [option_map]. f_equal. apply (H1 x eq_refl). intros n Hin. apply Hn.
      apply in_or_app. right. apply in_or_app. right. apply in_or_app. auto. }
    now rewrite Hi, Hc, Ht, He.
  - assert (Hi : option_map (resolve_stmt m1) init = option_map (resolve_stmt m2) init).
    { destruct init as [i|]; [|reflexivity]. cbn [option_map]. f_equal. apply (H i eq_refl). intros n Hin. apply Hn. apply in_or_app. auto. }
    assert (Hc : option_map (resolve_expr m1) c = option_map (resolve_expr m2) c).
    { destruct c as [x|]; [|reflexivity]. cbn [option_map]. f_equal. apply resolve_expr_ext. intros n Hin. apply Hn.
      apply in_or_app. right. apply in_or_app. auto. }
    assert (Hp : option_map (resolve_stmt m1) post = option_map (resolve_stmt m2) post).
    { destruct post as [x|]; [|reflexivity]. cbn [option_map]. f_equal. apply (H0 x eq_refl). intros n Hin. apply Hn.
      apply in_or_app. right. apply in_or_app. right. apply in_or_app. auto. }
    assert (Hb : map (resolve_stmt m1) body = map (resolve_stmt m2) body).
    { apply (map_ext_flat _ _ callee_names_stmt (fun n => map_get m1 n = map_get m2 n)); [exact H1|].
      intros n Hin. apply Hn. apply in_or_app. right. apply in_or_app. right. apply in_or_app. auto. }
    now rewrite Hi, Hc, Hp, Hb.
  - f_equal. now apply resolve_expr_ext.
  - f_equal. apply (map_ext_flat _ _ callee_names_stmt (fun n => map_get m1 n = map_get m2 n)); assumption.
Qed.

Lemma resolve_fun_ext m1 m2 fd :
  (forall n, In n (callee_names fd) -> map_get m1 n = map_get m2 n) -> resolve_fun m1 fd = resolve_fun m2 fd.
Proof.
  intros Hn. unfold resolve_fun. f_equal.
  apply (map_ext_flat _ _ callee_names_stmt (fun n => map_get m1 n = map_get m2 n)); [|exact Hn].
  apply Forall_forall. intros s _. apply resolve_stmt_ext.
Qed.

(* ---------- the environment ---------- *)
(* delete(m, k) *)
Fixpoint map_del (m : list (Z * Z)) (k : Z) : list (Z * Z) :=
  match m with [] => [] | (k', v) :: m' => if k =? k' then map_del m' k else (k', v) :: map_del m' k end.

Lemma map_get_del_same m k : map_get (map_del m k) k = None.
Proof. induction m as [|[k' v] m IH]; cbn [map_del map_get]; [reflexivity|]. destruct (Z.eqb_spec k k'); [exact IH|]. cbn [map_get]. destruct (Z.eqb_spec k k'); [contradiction|exact IH]. Qed.

Lemma map_get_del_other m k k' : k <> k' -> map_get (map_del m k) k' = map_get m k'.
Proof.
  intros Hne. induction m as [|[k0 v] m IH]; cbn [map_del map_get]; [reflexivity|].
  destruct (Z.eqb_spec k k0).
  - subst k0. destruct (Z.eqb_spec k' k); [congruence|exact IH].
  - cbn [map_get]. destruct (Z.eqb_spec k' k0); [reflexivity|exact IH].
Qed.

(* the 16-bit function ID that addFunc stores (uint16(len(env.userFuncs))) *)
Definition id16 (n : Z) : Z := n mod 65536.

Record env := mkenv {
  ev_funcs : list cfunc;        (* env.userFuncs: the slot of ID i is position i *)
  ev_srcs : list fundecl;       (* ghost: the resolved source every slot was compiled from *)
  ev_names : list (Z * Z)       (* env.nameToFuncID *)
}.

Definition env_empty : env := mkenv [] [] [].

(* Env.RemoveFunc: the name is unbound, the table is untouched *)
Definition env_remove (e : env) (n : Z) : env := mkenv (ev_funcs e) (ev_srcs e) (map_del (ev_names e) n).

(* Env.AddFunc / addFunc: the function gets the next free ID *)
Definition env_add (e : env) (n : Z) (src : fundecl) (cf : cfunc) : env :=
  mkenv (ev_funcs e ++ [cf]) (ev_srcs e ++ [src]) (map_set (ev_names e) n (id16 (len (ev_funcs e)))).

(* Env.GetFunc *)
Definition env_get (e : env) (n : Z) : option cfunc :=
  match map_get (ev_names e) n with Some id => nthz (ev_funcs e) id | None => None end.

Definition nfundecl := fundecl.                 (* FUser numbers are callee names *)
Definition nunit := list (Z * nfundecl).        (* a rules file: declared name, declaration, in source order *)

Section Load.
Variable cfg : config.

(* quasigo.Compile in the environment: compileCall looks the callee up in nameToFuncID *)
Definition compile_in (e : env) (fd : nfundecl) : cres cfunc := compile_fun cfg (resolve_fun (ev_names e) fd).

(* the second loop of compileFilterFuncs: compile and bind one declaration after the other; the first error ends the
   load and leaves what was added (returns the environment and whether every declaration compiled) *)
Fixpoint load_decls (u : nunit) (e : env) : env * bool :=
  match u with
  | [] => (e, true)
  | (n, fd) :: u' =>
      match compile_in e fd with
      | COk cf => load_decls u' (env_add e n (resolve_fun (ev_names e) fd) cf)
      | CErr _ => (e, false)
      end
  end.

(* the first loop: every declared name is unbound before anything is compiled *)
Definition unbind_all (u : nunit) (e : env) : env := fold_left env_remove (map fst u) e.

Definition load_unit (u : nunit) (e : env) : env * bool := load_decls u (unbind_all u e).

Fixpoint load_units (us : list nunit) (e : env) : env :=
  match us with [] => e | u :: us' => load_units us' (fst (load_unit u e)) end.

(* ---------- the table only grows ---------- *)
Definition extends (e e' : env) : Prop :=
  exists srcs cs, ev_funcs e' = ev_funcs e ++ cs /\ ev_srcs e' = ev_srcs e ++ srcs /\ compile_prog cfg srcs = COk cs.

Lemma extends_refl e : extends e e.
Proof. exists [], []. rewrite !app_nil_r. auto. Qed.

Lemma compile_prog_app : forall p1 p2 c1 c2, compile_prog cfg p1 = COk c1 -> compile_prog cfg p2 = COk c2 ->
  compile_prog cfg (p1 ++ p2) = COk (c1 ++ c2).
Proof.
  induction p1 as [|f p1 IH]; intros p2 c1 c2 H1 H2; cbn [compile_prog app] in *.
  - inversion H1; subst. exact H2.
  - destruct (compile_fun cfg f) as [c|]; cbn [cbind] in *; [|discriminate].
    destruct (compile_prog cfg p1) as [cs|] eqn:E; cbn [cbind] in *; [|discriminate].
    inversion H1; subst c1. rewrite (IH p2 cs c2 eq_refl H2). reflexivity.
Qed.

Lemma extends_trans a b c : extends a b -> extends b c -> extends a c.
Proof.
  intros (s1 & c1 & Hf1 & Hs1 & Hc1) (s2 & c2 & Hf2 & Hs2 & Hc2). exists (s1 ++ s2), (c1 ++ c2).
  rewrite Hf2, Hf1, Hs2, Hs1, <- !app_assoc. repeat split; auto. now apply compile_prog_app.
Qed.

Lemma unbind_all_table u : forall e, ev_funcs (unbind_all u e) = ev_funcs e /\ ev_srcs (unbind_all u e) = ev_srcs e.
Proof.
  unfold unbind_all. induction (map fst u) as [|n l IH]; intros e; cbn [fold_left]; [auto|].
  destruct (IH (env_remove e n)) as [H1 H2]. rewrite H1, H2. auto.
Qed.

Lemma load_decls_extends u : forall e, extends e (fst (load_decls u e)).
Proof.
  induction u as [|[n fd] u IH]; intros e; cbn [load_decls]; [apply extends_refl|].
  unfold compile_in. destruct (compile_fun cfg (resolve_fun (ev_names e) fd)) as [cf|] eqn:Ec; [|apply extends_refl].
  eapply extends_trans; [|apply IH].
  exists [resolve_fun (ev_names e) fd], [cf]. cbn [env_add ev_funcs ev_srcs compile_prog]. rewrite Ec. auto.
Qed.

Theorem load_unit_extends u e : extends e (fst (load_unit u e)).
Proof.
  unfold load_unit. destruct (unbind_all_table u e) as [H1 H2].
  destruct (load_decls_extends u (unbind_all u e)) as (s & c & Hf & Hs & Hc). exists s, c. rewrite Hf, Hs, H1, H2. auto.
Qed.

Theorem load_units_extends us : forall e, extends e (load_units us e).
Proof.
  induction us as [|u us IH]; intros e; cbn [load_units]; [apply extends_refl|].
  eapply extends_trans; [apply load_unit_extends|apply IH].
Qed.

(* every slot keeps its function: IDs handed out earlier stay valid *)
Corollary load_units_slots us e id cf : nthz (ev_funcs e) id = Some cf -> nthz (ev_funcs (load_units us e)) id = Some cf.
Proof. intros H. destruct (load_units_extends us e) as (s & c & Hf & _). rewrite Hf. now apply nthz_app_l. Qed.

(* the table is the compilation of the resolved sources *)
Definition env_inv (e : env) : Prop := compile_prog cfg (ev_srcs e) = COk (ev_funcs e).

Lemma env_inv_empty : env_inv env_empty.
Proof. reflexivity. Qed.

Lemma extends_inv e e' : extends e e' -> env_inv e -> env_inv e'.
Proof. intros (s & c & Hf & Hs & Hc) Hi. unfold env_inv. rewrite Hf, Hs. now apply compile_prog_app. Qed.

Theorem load_units_inv us e : env_inv e -> env_inv (load_units us e).
Proof. apply extends_inv, load_units_extends. Qed.

End Load.

(* ---------- the VM in an extended table ---------- *)
Section Extension.
Variable cfg : config.
Variable nat_fun : Z -> list value -> option (list value).
Variables funcs extra : list vfunc.

Lemma step_extension s :
  step cfg (funcs ++ extra) nat_fun s = step cfg funcs nat_fun s \/ step cfg funcs nat_fun s = Fail PIndex.
Proof.
  unfold step. destruct (vf_fetch (fr_fn (st_fr s)) (fr_pc (st_fr s))) as [[k a]|]; [|now left].
  assert (Hcall : forall kk, (match nthz (funcs ++ extra) a with
                              | None => Fail PIndex
                              | Some f => Next (mkstate (enter cfg f (st_objs s) (st_ints s)) (st_objs s) (st_ints s) (st_vlen s) ((st_fr s, kk) :: st_callers s))
                              end =
                              match nthz funcs a with
                              | None => Fail PIndex
                              | Some f => Next (mkstate (enter cfg f (st_objs s) (st_ints s)) (st_objs s) (st_ints s) (st_vlen s) ((st_fr s, kk) :: st_callers s))
                              end) \/
                             match nthz funcs a with
                             | None => Fail PIndex
                             | Some f => Next (mkstate (enter cfg f (st_objs s) (st_ints s)) (st_objs s) (st_ints s) (st_vlen s) ((st_fr s, kk) :: st_callers s))
                             end = Fail PIndex).
  { intros kk. destruct (nthz funcs a) as [f|] eqn:E; [left|now right]. now rewrite (nthz_app_l _ _ _ _ E). }
  destruct k; try (now left); apply Hcall.
Qed.

(* a run that ends in a result, or in a panic other than the VM's own index failure, is the same run in every
   extension of the function table *)
Theorem run_table_extension : forall fuel s r,
  run cfg funcs nat_fun fuel s = r -> r <> RPanic PIndex -> run cfg (funcs ++ extra) nat_fun fuel s = r.
Proof.
  induction fuel as [|f IH]; intros s r Hr Hne; cbn [run] in *; [exact Hr|].
  destruct (step_extension s) as [He|He].
  - rewrite He. destruct (step cfg funcs nat_fun s); auto.
  - rewrite He in Hr. subst r. contradiction.
Qed.

End Extension.

(* ---------- an already compiled function keeps its Go meaning ---------- *)
Section Meaning.
Variable cfg : config.
Variable nat_fun : Z -> list value -> option (list value).

Theorem later_units_preserve_meaning (e : env) (us : list nunit) :
  env_inv cfg e -> source_guard cfg (ev_srcs e) = true ->
  let e' := load_units cfg us e in
  forall fuel id args cf, nthz (ev_funcs e) id = Some cf ->
    nthz (ev_funcs e') id = Some cf /\
    (forall r, call_sem (nat_sig cfg) nat_fun (ev_srcs e) fuel id args = EOk r ->
       exists fuel' cr, call_fun cfg (map (vfunc_bytes cfg) (ev_funcs e')) nat_fun fuel' (vfunc_bytes cfg cf) args = RDone cr /\
                        result_matches r cr) /\
    (forall w, call_sem (nat_sig cfg) nat_fun (ev_srcs e) fuel id args = EPanic w ->
       exists fuel', call_fun cfg (map (vfunc_bytes cfg) (ev_funcs e')) nat_fun fuel' (vfunc_bytes cfg cf) args = RPanic w).
Proof.
  intros Hinv Hguard e' fuel id args cf Hcf.
  pose proof (source_guard_in_scope cfg _ _ Hinv Hguard) as Hscope.
  destruct (load_units_extends cfg us e) as (s & c & Hf & _). fold e' in Hf.
  split; [rewrite Hf; now apply nthz_app_l|].
  destruct (compile_correct_partial cfg nat_fun (ev_srcs e) (ev_funcs e) Hinv Hscope fuel id args cf Hcf) as [Hok Hpanic].
  rewrite Hf, map_app. split.
  - intros r Hr. destruct (Hok r Hr) as (fuel' & cr & Hrun & Hrel). exists fuel', cr. split; [|exact Hrel].
    unfold call_fun in *. destruct (push_args args) as [o n]. apply run_table_extension; [exact Hrun|discriminate].
  - intros w Hw. pose proof (call_sem_panic_not_index _ _ _ _ _ _ _ Hw) as Hne. destruct (Hpanic w Hw) as (fuel' & Hrun). exists fuel'.
    unfold call_fun in *. destruct (push_args args) as [o n]. apply run_table_extension; [exact Hrun|congruence].
Qed.

End Meaning.

(* ---------- name binding while a unit is compiled ---------- *)
Section Binding.
Variable cfg : config.

Fixpoint index_name (n : Z) (l : list Z) (i : Z) : option Z :=
  match l with [] => None | x :: l' => if n =? x then Some i else index_name n l' (i + 1) end.

Lemma unbind_all_names u : forall e n, In n (map fst u) -> map_get (ev_names (unbind_all u e)) n = None.
Proof.
  unfold unbind_all. induction (map fst u) as [|x l IH]; intros e n Hin; [contradiction|]. cbn [fold_left].
  destruct (in_dec Z.eq_dec n l) as [Hl|Hl]; [now apply IH|].
  destruct Hin as [->|Hin]; [|contradiction].
  clear IH. assert (H : forall e0, map_get (ev_names e0) n = None -> map_get (ev_names (fold_left env_remove l e0)) n = None).
  { induction l as [|y l IH]; intros e0 H0; [exact H0|]. cbn [fold_left]. apply IH.
    - intros Hc. apply Hl. now right.
    - cbn [env_remove ev_names]. destruct (Z.eq_dec y n) as [->|Hne]; [apply map_get_del_same|]. now rewrite map_get_del_other. }
  apply H. cbn [env_remove ev_names]. apply map_get_del_same.
Qed.

Lemma unbind_all_other u : forall e n, ~ In n (map fst u) -> map_get (ev_names (unbind_all u e)) n = map_get (ev_names e) n.
Proof.
  unfold unbind_all. induction (map fst u) as [|x l IH]; intros e n Hin; [reflexivity|]. cbn [fold_left].
  rewrite IH by (intros Hc; apply Hin; now right). cbn [env_remove ev_names]. apply map_get_del_other. intros ->. apply Hin. now left.
Qed.

Lemma firstn_In' {A} (x : A) : forall k l, In x (firstn k l) -> In x l.
Proof. induction k as [|k IH]; intros [|y l] H; cbn [firstn] in H; try contradiction. destruct H as [->|H]; [now left|right; now apply IH]. Qed.

(* the environment in which declaration number k of the unit is compiled *)
Fixpoint env_before (k : nat) (u : nunit) (e : env) : option env :=
  match k, u with
  | O, _ => Some e
  | S k', (n, fd) :: u' =>
      match compile_in cfg e fd with
      | COk cf => env_before k' u' (env_add e n (resolve_fun (ev_names e) fd) cf)
      | CErr _ => None
      end
  | S _, [] => None
  end.

Lemma map_get_set_same' m k v : map_get (map_set m k v) k = Some v.
Proof. induction m as [|[k' v'] m IH]; cbn [map_set map_get]; [now rewrite Z.eqb_refl|]. destruct (Z.eqb_spec k k'); cbn [map_get]; [now rewrite Z.eqb_refl|]. destruct (Z.eqb_spec k k'); [contradiction|exact IH]. Qed.

Lemma map_get_set_other' m k k' v : k <> k' -> map_get (map_set m k v) k' = map_get m k'.
Proof.
  intros Hne. induction m as [|[k0 v0] m IH]; cbn [map_set map_get].
  - destruct (Z.eqb_spec k' k); [congruence|reflexivity].
  - destruct (Z.eqb_spec k k0); cbn [map_get].
    + subst k0. destruct (Z.eqb_spec k' k); [congruence|reflexivity].
    + destruct (Z.eqb_spec k' k0); [reflexivity|exact IH].
Qed.

(* While the declarations of a unit (distinct names) are compiled from an environment in which none of its names
   is bound, declaration k sees: its own unit's earlier declarations at the slots they were given, every other
   name of the unit unbound, and the names of other units as they were. *)
Lemma env_before_names : forall k u e ek, NoDup (map fst u) ->
  (forall n, In n (map fst u) -> map_get (ev_names e) n = None) ->
  env_before k u e = Some ek ->
  len (ev_funcs ek) = len (ev_funcs e) + Z.of_nat k /\
  forall n, map_get (ev_names ek) n =
            match index_name n (firstn k (map fst u)) 0 with
            | Some j => Some (id16 (len (ev_funcs e) + j))
            | None => if in_dec Z.eq_dec n (map fst u) then None else map_get (ev_names e) n
            end.
Proof.
  induction k as [|k IH]; intros u e ek Hnd Hun Hb.
  - cbn [env_before] in Hb. inversion Hb; subst ek. split; [lia|]. intros n. cbn [firstn index_name].
    destruct (in_dec Z.eq_dec n (map fst u)); [now apply Hun|reflexivity].
  - destruct u as [|[n0 fd] u]; [discriminate|]. cbn [env_before] in Hb.
    destruct (compile_in cfg e fd) as [cf|]; [|discriminate].
    cbn [map fst] in Hnd. inversion Hnd as [|? ? Hnotin Hnd']; subst.
    set (e1 := env_add e n0 (resolve_fun (ev_names e) fd) cf) in *.
    assert (Hun1 : forall n, In n (map fst u) -> map_get (ev_names e1) n = None).
    { intros n Hin. unfold e1. cbn [env_add ev_names]. rewrite map_get_set_other'; [apply Hun; now right|]. intros ->. contradiction. }
    destruct (IH u e1 ek Hnd' Hun1 Hb) as [Hlen Hnames]. split.
    { rewrite Hlen. unfold e1. cbn [env_add ev_funcs]. rewrite len_app'. unfold len at 2. cbn [length]. lia. }
    intros n. rewrite Hnames. cbn [map fst firstn index_name].
    destruct (Z.eqb_spec n n0) as [->|Hne].
    + (* the name declared first: not among the later ones *)
      assert (Hnone : forall l i, ~ In n0 l -> index_name n0 l i = None).
      { induction l as [|x l IHl]; intros i Hni; [reflexivity|]. cbn [index_name]. destruct (Z.eqb_spec n0 x); [subst; exfalso; apply Hni; now left|].
        apply IHl. intros Hc. apply Hni. now right. }
      rewrite Hnone by (intros Hc; apply Hnotin; eapply firstn_In' ; eauto).
      destruct (in_dec Z.eq_dec n0 (map fst u)); [contradiction|].
      unfold e1. cbn [env_add ev_names]. rewrite map_get_set_same'. now rewrite Z.add_0_r.
    + assert (Hshift : forall l i, index_name n l (i + 1) = option_map (fun j => j + 1) (index_name n l i)).
      { induction l as [|x l IHl]; intros i; [reflexivity|]. cbn [index_name]. destruct (n =? x); [reflexivity|apply IHl]. }
      unfold e1 at 1. cbn [env_add ev_funcs]. rewrite len_app'. unfold len at 2. cbn [length].
      replace (0 + 1) with (0 + 1) by reflexivity. rewrite (Hshift _ 0).
      destruct (index_name n (firstn k (map fst u)) 0) as [j|]; cbn [option_map].
      * f_equal. f_equal. lia.
      * destruct (in_dec Z.eq_dec n (map fst u)) as [Hi|Hi]; destruct (in_dec Z.eq_dec n (n0 :: map fst u)) as [Hi'|Hi']; try reflexivity.
        -- exfalso. apply Hi'. now right.
        -- destruct Hi' as [->|Hi']; [congruence|contradiction].
        -- unfold e1. cbn [env_add ev_names]. apply map_get_set_other'. congruence.
Qed.

(* declaration k of a unit, once compiled, sits in slot (first free slot + k) as the source resolved in [env_before k] *)
Lemma load_decls_slot : forall k u e ek n fd, env_before k u e = Some ek -> nth_error u k = Some (n, fd) ->
  forall cf, compile_in cfg ek fd = COk cf ->
  nthz (ev_srcs (fst (load_decls cfg u e))) (len (ev_srcs e) + Z.of_nat k) = Some (resolve_fun (ev_names ek) fd) /\
  nthz (ev_funcs (fst (load_decls cfg u e))) (len (ev_funcs e) + Z.of_nat k) = Some cf.
Proof.
  induction k as [|k IH]; intros u e ek n fd Hb Hn cf Hc.
  - cbn [env_before] in Hb. inversion Hb; subst ek. destruct u as [|[n0 fd0] u]; [discriminate|]. cbn [nth_error] in Hn. inversion Hn; subst.
    cbn [load_decls]. rewrite Hc.
    destruct (load_decls_extends cfg u (env_add e n (resolve_fun (ev_names e) fd) cf)) as (s & c & Hf & Hs & _).
    rewrite Hf, Hs. cbn [env_add ev_funcs ev_srcs]. rewrite !Z.add_0_r, <- !app_assoc. cbn [app]. split; apply nthz_len_app.
  - destruct u as [|[n0 fd0] u]; [discriminate|]. cbn [env_before] in Hb. cbn [nth_error] in Hn. cbn [load_decls].
    destruct (compile_in cfg e fd0) as [cf0|]; [|discriminate].
    destruct (IH u _ ek n fd Hb Hn cf Hc) as [H1 H2].
    assert (Hl1 : len (ev_srcs (env_add e n0 (resolve_fun (ev_names e) fd0) cf0)) = len (ev_srcs e) + 1).
    { cbn [env_add ev_srcs]. rewrite len_app'. reflexivity. }
    assert (Hl2 : len (ev_funcs (env_add e n0 (resolve_fun (ev_names e) fd0) cf0)) = len (ev_funcs e) + 1).
    { cbn [env_add ev_funcs]. rewrite len_app'. reflexivity. }
    rewrite Hl1 in H1. rewrite Hl2 in H2.
    replace (len (ev_srcs e) + Z.of_nat (S k)) with (len (ev_srcs e) + 1 + Z.of_nat k) by lia.
    replace (len (ev_funcs e) + Z.of_nat (S k)) with (len (ev_funcs e) + 1 + Z.of_nat k) by lia. auto.
Qed.

(* the bindings of a unit's own names while its declaration k is compiled by the loader: earlier declarations of the
   same unit at their own slots, everything else the unit declares is unbound (so a call of a function declared
   later in the file is a compile error instead of a call of an equal-named function of an earlier file) *)
Theorem load_unit_binds_own_unit u e k ek : NoDup (map fst u) -> env_before k u (unbind_all u e) = Some ek ->
  forall n, In n (map fst u) ->
    map_get (ev_names ek) n = match index_name n (firstn k (map fst u)) 0 with
                              | Some j => Some (id16 (len (ev_funcs e) + j))
                              | None => None
                              end.
Proof.
  intros Hnd Hb n Hin.
  destruct (env_before_names k u (unbind_all u e) ek Hnd (fun n Hn => unbind_all_names u e n Hn) Hb) as [_ Hnames].
  rewrite Hnames. destruct (unbind_all_table u e) as [-> _].
  destruct (index_name n (firstn k (map fst u)) 0); [reflexivity|]. destruct (in_dec Z.eq_dec n (map fst u)); [reflexivity|contradiction].
Qed.

(* the names a unit binds for declaration k, as a table of its own *)
Fixpoint own_names (base : Z) (l : list Z) : list (Z * Z) :=
  match l with [] => [] | n :: l' => (n, id16 base) :: own_names (base + 1) l' end.

Lemma own_names_get n : forall l base, NoDup l ->
  map_get (own_names base l) n = match index_name n l 0 with Some j => Some (id16 (base + j)) | None => None end.
Proof.
  induction l as [|x l IH]; intros base Hnd; cbn [own_names map_get index_name]; [reflexivity|].
  inversion Hnd as [|? ? Hni Hnd']; subst. destruct (Z.eqb_spec n x); [now rewrite Z.add_0_r|].
  rewrite (IH (base + 1) Hnd').
  assert (Hshift : forall l i, index_name n l (i + 1) = option_map (fun j => j + 1) (index_name n l i)).
  { induction l0 as [|y l0 IHl]; intros i; [reflexivity|]. cbn [index_name]. destruct (n =? y); [reflexivity|apply IHl]. }
  rewrite (Hshift l 0). destruct (index_name n l 0); cbn [option_map]; [|reflexivity]. f_equal. f_equal. lia.
Qed.

(* A unit all of whose calls go to functions it declares itself (what Go's type checker guarantees for a rules file:
   user functions of other files are not in scope) is compiled to the same resolved sources whatever was loaded
   before, up to the first free slot: slot (base + k) holds declaration k resolved in the unit's own table. *)
Theorem unit_meaning_independent_of_history u e k ek n fd : NoDup (map fst u) ->
  env_before k u (unbind_all u e) = Some ek -> nth_error u k = Some (n, fd) ->
  (forall c, In c (callee_names fd) -> In c (map fst u)) ->
  resolve_fun (ev_names ek) fd = resolve_fun (own_names (len (ev_funcs e)) (firstn k (map fst u))) fd.
Proof.
  intros Hnd Hb Hn Hclosed. apply resolve_fun_ext. intros c Hc.
  rewrite (load_unit_binds_own_unit u e k ek Hnd Hb c (Hclosed c Hc)).
  rewrite own_names_get; [reflexivity|].
  clear - Hnd. revert k. induction (map fst u) as [|x l IH]; intros [|k]; cbn [firstn]; try constructor.
  - inversion Hnd; subst. intros Hc. apply H1. eapply firstn_In'; eauto.
  - inversion Hnd; subst. auto.
Qed.

End Binding.

(* ---------- the bodies of addFunc / RemoveFunc as go2coq reads them ----------
   go2coq quasigo translates the statements of Env.addFunc and Env.RemoveFunc into [eop]s (anything it does not
   recognise becomes [OOther]); coq/tmpl/C04/Inst_Env.v proves, on every run, that running them is [env_add] /
   [env_remove] for every environment. *)
From Coq Require Import String.
Local Open Scope string_scope.

Inductive eop :=
| OLetLen (x field : string)         (* x := len(env.field) *)
| OAppend (field v : string)         (* env.field = append(env.field, v) *)
| OMapSet16 (m k x : string)         (* env.m[k] = uint16(x) *)
| OMapDel (m k : string)             (* delete(env.m, k) *)
| OOther (src : string).

Record estate := mkes { es_funcs : list cfunc; es_names : list (Z * Z); es_vars : list (string * Z) }.

Fixpoint var_get (vs : list (string * Z)) (x : string) : option Z :=
  match vs with [] => None | (y, v) :: vs' => if String.eqb x y then Some v else var_get vs' x end.

(* [key] is the value of the parameter "key" (the funcKey built from pkgPath and funcName), [f] of the parameter "f" *)
Definition exec_eop (key : Z) (f : cfunc) (o : eop) (s : estate) : option estate :=
  match o with
  | OLetLen x field =>
      if String.eqb field "userFuncs" then Some (mkes (es_funcs s) (es_names s) ((x, len (es_funcs s)) :: es_vars s)) else None
  | OAppend field v =>
      if String.eqb field "userFuncs" && String.eqb v "f" then Some (mkes (es_funcs s ++ [f]) (es_names s) (es_vars s)) else None
  | OMapSet16 m k x =>
      if String.eqb m "nameToFuncID" && String.eqb k "key" then
        match var_get (es_vars s) x with
        | Some v => Some (mkes (es_funcs s) (map_set (es_names s) key (id16 v)) (es_vars s))
        | None => None
        end
      else None
  | OMapDel m k =>
      if String.eqb m "nameToFuncID" && String.eqb k "key" then Some (mkes (es_funcs s) (map_del (es_names s) key) (es_vars s)) else None
  | OOther _ => None
  end.

Fixpoint exec_eops (key : Z) (f : cfunc) (os : list eop) (s : estate) : option estate :=
  match os with
  | [] => Some s
  | o :: os' => match exec_eop key f o s with Some s' => exec_eops key f os' s' | None => None end
  end.

Definition run_eops (key : Z) (f : cfunc) (os : list eop) (e : env) : option (list cfunc * list (Z * Z)) :=
  match exec_eops key f os (mkes (ev_funcs e) (ev_names e) []) with
  | Some s => Some (es_funcs s, es_names s)
  | None => None
  end.
