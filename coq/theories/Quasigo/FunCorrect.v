(* Whole functions and programs: a call instruction runs the callee to completion and returns what the source
   semantics says; quasigo.Call on a compiled function returns the function's Go result. *)
From Coq Require Import List ZArith Bool Lia.
From RG.Base Require Import Outcome GoInt GoSlice.
From RG.Quasigo Require Import Source Bytecode Compile VM Sem Guards Link VMLemmas CompileLemmas SemLemmas NativeLemmas ExprCorrect StmtCorrect.
Import ListNotations.
Local Open Scope Z_scope.

(* ---------- the locals map stays small and disjoint from the parameters ---------- *)
Section LocalsWf.
Variable cfg : config.
Variable env : cenv.

Definition lwf (st : cstate) : Prop :=
  len (cs_locals st) <= max_locals cfg /\
  (forall x i, index_of Z.eqb x (cs_locals st) 0 = Some i -> is_param env x = false).

Lemma lwf_same a b : cs_locals b = cs_locals a -> lwf a -> lwf b.
Proof. unfold lwf. intros ->. auto. Qed.

Lemma define_vars_lwf lhs : forall st st' c, define_vars cfg env lhs st = COk (st', c) -> lwf st -> lwf st'.
Proof.
  induction lhs as [|[x t] lhs IH]; intros st st' c H Hw; cbn [define_vars] in H.
  - inversion H; subst. exact Hw.
  - destruct (index_of Z.eqb x (cs_locals st) 0) eqn:Ex; [discriminate|].
    destruct (is_param env x) eqn:Ep; [discriminate|]. destruct (negb (supported t)); [discriminate|].
    destruct (Z.eqb_spec (len (cs_locals st)) (max_locals cfg)) as [|Hne]; [discriminate|].
    cinv H. destruct a as [st2 c2]. inversion Hb; subst. eapply IH; [exact Ha|].
    destruct Hw as [Hmax Hdis]. split; cbn [cs_locals].
    + rewrite len_app'. unfold len at 2. cbn [length]. lia.
    + intros y i Hy. destruct (index_of Z.eqb y (cs_locals st) 0) eqn:Ey.
      * eapply Hdis; eauto.
      * rewrite index_of_app_none in Hy by exact Ey. cbn [index_of] in Hy. destruct (Z.eqb_spec y x); [subst; exact Ep|discriminate].
Qed.

Definition swf (s : stmt) : Prop := forall st st' r, rstmt_of cfg env s st = COk (st', r) -> lwf st -> lwf st'.

Lemma cexpr_lwf e st st' c : cexpr env e st = COk (st', c) -> lwf st -> lwf st'.
Proof. intros H. apply lwf_same. eapply cexpr_mono; eauto. Qed.

Lemma rblock_lwf l : Forall swf l -> forall st st' rl, rblock cfg env l st = COk (st', rl) -> lwf st -> lwf st'.
Proof.
  induction 1 as [|s l Hs _ IH]; intros st st' rl H Hw; cbn in H.
  - inversion H; subst. exact Hw.
  - cinv H. destruct a as [st1 r]. cinv Hb. destruct a as [st2 rl2]. inversion Hbb; subst. eauto.
Qed.

Lemma rstmt_lwf s : swf s.
Proof.
  induction s as [res|tok lhs nrhs rhs|x inc|init c t e IHinit IHt IHe|init c post body IHinit IHpost IHbody| |e|l IHl| ] using stmt_ind';
    intros st st' r H Hw; cbn [rstmt_of] in H.
  - destruct (ce_retvoid env); [inversion H; subst; exact Hw|].
    destruct res as [|e res]; [discriminate|].
    destruct (ident_name e =? name_true); [inversion H; subst; exact Hw|].
    destruct (ident_name e =? name_false); [inversion H; subst; exact Hw|].
    cinv H. destruct a as [st1 c]. inversion Hb; subst. eapply cexpr_lwf; eauto.
  - destruct (negb (nrhs =? 1)); [discriminate|]. destruct tok; try discriminate.
    + cinv H. destruct a as [st1 c]. cinv Hb. destruct a as [st2 cs]. inversion Hbb; subst.
      eapply define_vars_lwf; [exact Hba|]. eapply cexpr_lwf; eauto.
    + cinv H. destruct a as [st1 c]. cinv Hb. inversion Hbb; subst. eapply cexpr_lwf; eauto.
  - destruct (index_of Z.eqb x (cs_locals st) 0); [|discriminate]. inversion H; subst. exact Hw.
  - cinv H. destruct a as [st0 ri]. cinv Hb. destruct a as [st1 cc]. cinv Hbb. destruct a as [st2 rt].
    assert (H0 : lwf st0).
    { destruct init as [i|]; [|inversion Ha; subst; exact Hw].
      cinv Ha. destruct a as [st9 r9]. inversion Hab; subst. eapply IHinit; eauto. }
    assert (H2 : lwf st2) by (eapply rblock_lwf; [exact IHt|exact Hbba|]; eapply cexpr_lwf; eauto).
    destruct e as [e'|].
    + cinv Hbbb. destruct a as [st3 re]. inversion Hbbbb; subst. eapply IHe; eauto.
    + inversion Hbbb; subst. exact H2.
  - destruct c as [c'|], init, post; try discriminate.
    + cinv H. destruct a as [st1 rb]. cinv Hb. destruct a as [st2 cc]. inversion Hbb; subst.
      eapply cexpr_lwf; [exact Hba|]. eapply rblock_lwf; eauto.
    + cinv H. destruct a as [st1 rb]. inversion Hb; subst. eapply rblock_lwf; eauto.
  - inversion H; subst. exact Hw.
  - destruct e; try discriminate. destruct t; try discriminate. cinv H. destruct a as [st1 c]. inversion Hb; subst. eapply cexpr_lwf; eauto.
  - cinv H. destruct a as [st1 rl]. inversion Hb; subst. eapply rblock_lwf; eauto.
  - discriminate.
Qed.

End LocalsWf.

(* ---------- parameters ---------- *)
Lemma map_get_set_same m k v : map_get (map_set m k v) k = Some v.
Proof.
  induction m as [|[k' v'] m IH]; cbn [map_set map_get]; [now rewrite Z.eqb_refl|].
  destruct (Z.eqb_spec k k'); cbn [map_get]; [now rewrite Z.eqb_refl|]. destruct (Z.eqb_spec k k'); [congruence|exact IH].
Qed.

Lemma map_get_set_other m k k' v : k <> k' -> map_get (map_set m k v) k' = map_get m k'.
Proof.
  intros Hne. induction m as [|[k0 v0] m IH]; cbn [map_set map_get].
  - destruct (Z.eqb_spec k' k); [congruence|reflexivity].
  - destruct (Z.eqb_spec k k0); cbn [map_get].
    + subst k0. destruct (Z.eqb_spec k' k); [congruence|reflexivity].
    + destruct (Z.eqb_spec k' k0); [reflexivity|exact IH].
Qed.

Lemma args_o_shift vs : forall i, args_o 0 i vs = args_o 0 0 vs.
Proof.
  induction vs as [|v vs IH]; intros i; cbn [args_o]; [reflexivity|].
  unfold boxed. cbn [Z.eqb negb andb]. rewrite (IH (i + 1)), (IH (0 + 1)). reflexivity.
Qed.
Lemma args_i_shift vs : forall i, args_i 0 i vs = args_i 0 0 vs.
Proof.
  induction vs as [|v vs IH]; intros i; cbn [args_i]; [reflexivity|].
  unfold boxed. cbn [Z.eqb negb andb]. rewrite (IH (i + 1)), (IH (0 + 1)). reflexivity.
Qed.

Definition opar_inv (op : list (Z * Z)) (sto : store) (OA : list value) : Prop :=
  forall x i, x <> name_blank -> map_get op x = Some i ->
    exists v, store_get sto x = Some v /\ is_vint v = false /\ nth_error OA (Z.to_nat i) = Some v /\ 0 <= i < len OA.
Definition ipar_inv (ip : list (Z * Z)) (sto : store) (IA : list Z) : Prop :=
  forall x i, x <> name_blank -> map_get ip x = Some i ->
    exists z, store_get sto x = Some (VInt z) /\ nth_error IA (Z.to_nat i) = Some z /\ 0 <= i < len IA.

Lemma nth_error_snoc {A} (l : list A) x : nth_error (l ++ [x]) (Z.to_nat (len l)) = Some x.
Proof. unfold len. rewrite Nat2Z.id. rewrite nth_error_app2 by lia. now rewrite Nat.sub_diag. Qed.

(* parameters with distinct names - blank parameters aside: they share the name [name_blank], the compiler's tables and
   the store keep the last of them, and nothing reads it (the invariants do not speak about it) *)
Lemma split_bind : forall ps args op ip no ni sto op' ip' no' ni' sto' OA IA,
  split_params ps op ip no ni = COk (op', ip', no', ni') -> bind_params ps args sto = Some sto' ->
  NoDupNB (map fst ps) -> (forall x, x <> name_blank -> In x (map fst ps) -> map_get op x = None /\ map_get ip x = None) ->
  no = len OA -> ni = len IA -> opar_inv op sto OA -> ipar_inv ip sto IA ->
  no' = len (OA ++ args_o 0 0 args) /\ ni' = len (IA ++ args_i 0 0 args) /\
  opar_inv op' sto' (OA ++ args_o 0 0 args) /\ ipar_inv ip' sto' (IA ++ args_i 0 0 args).
Proof.
  induction ps as [|[x t] ps IH]; intros args op ip no ni sto op' ip' no' ni' sto' OA IA Hs Hb Hnd Hfresh Hno Hni Hop Hip.
  - destruct args; cbn in Hb; [|discriminate]. inversion Hb; subst. cbn in Hs. inversion Hs; subst.
    cbn [args_o args_i]. rewrite !app_nil_r. auto.
  - destruct args as [|v args]; cbn [bind_params] in Hb; [discriminate|]. destruct (has_ty v t) eqn:Hty; [|discriminate].
    cbn [split_params] in Hs. destruct (negb (supported t)); [discriminate|].
    cbn [map fst] in Hnd.
    (* every other name that matters is different from x *)
    assert (Hnd' : NoDupNB (map fst ps)) by (inversion Hnd; assumption).
    assert (Hother : forall y, y <> name_blank -> (In y (map fst ps) \/ map_get op y <> None \/ map_get ip y <> None) -> y <> x).
    { intros y Hyb Hy ->. inversion Hnd as [|l Hl E|x' l Hxb Hnotin Hl E]; subst; [congruence|].
      destruct Hy as [Hy|Hy]; [contradiction|]. destruct (Hfresh x Hxb (or_introl eq_refl)) as [Ho Hi]. destruct Hy; congruence. }
    pose proof (has_ty_is_vint _ _ Hty) as Hk.
    cbn [args_o args_i]. unfold boxed. cbn [Z.eqb negb andb]. rewrite andb_true_r, args_o_shift, args_i_shift.
    destruct (is_int t) eqn:Eit.
    + assert (Hv : exists z, v = VInt z) by (destruct t; try discriminate; destruct v; cbn in Hk; try discriminate; eauto).
      destruct Hv as [z ->]. cbn [is_vint app].
      destruct (IH args op (map_set ip x ni) no (ni + 1) (store_set sto x (VInt z)) _ _ _ _ _ OA (IA ++ [z]) Hs Hb Hnd') as (H1 & H2 & H3 & H4).
      * intros y Hyb Hy. destruct (Hfresh y Hyb (or_intror Hy)) as [Ho Hi]. split; [exact Ho|]. rewrite map_get_set_other; [exact Hi|].
        intros E. symmetry in E. revert E. apply Hother; auto.
      * exact Hno.
      * rewrite len_app'. change (len [z]) with 1. lia.
      * intros y i Hyb Hy. destruct (Hop _ _ Hyb Hy) as (w & Hs1 & Hr). exists w. split; [|exact Hr].
        rewrite store_get_set_other; [exact Hs1|]. intros E. symmetry in E. revert E. apply Hother; [exact Hyb|]. right. left. congruence.
      * intros y i Hyb Hy. destruct (Z.eq_dec y x) as [->|Hne].
        -- rewrite map_get_set_same in Hy. inversion Hy as [Ei0]. rewrite <- Ei0, Hni. exists z. split; [apply store_get_set_same|].
           split; [apply nth_error_snoc|]. rewrite len_app'. change (len [z]) with 1. pose proof (len_nonneg' IA). lia.
        -- rewrite map_get_set_other in Hy by congruence. destruct (Hip _ _ Hyb Hy) as (z' & Hs1 & Hn & Hr). exists z'.
           split; [rewrite store_get_set_other; [exact Hs1|congruence]|]. split; [rewrite nth_error_app1; [exact Hn|unfold len in *; lia]|].
           rewrite len_app'. change (len [z]) with 1. lia.
      * rewrite <- app_assoc in H2, H4. cbn [app] in H2, H4. auto.
    + assert (Hv : is_vint v = false) by (destruct t; cbn in Eit; try discriminate; destruct v; cbn in Hk |- *; congruence).
      rewrite Hv. cbn [app].
      assert (Ei : (match v with VInt z => [z] | _ => [] end) = []) by (destruct v; cbn in Hv; congruence).
      rewrite Ei. cbn [app].
      destruct (IH args (map_set op x no) ip (no + 1) ni (store_set sto x v) _ _ _ _ _ (OA ++ [v]) IA Hs Hb Hnd') as (H1 & H2 & H3 & H4).
      * intros y Hyb Hy. destruct (Hfresh y Hyb (or_intror Hy)) as [Ho Hi]. split; [|exact Hi]. rewrite map_get_set_other; [exact Ho|].
        intros E. symmetry in E. revert E. apply Hother; auto.
      * rewrite len_app'. change (len [v]) with 1. lia.
      * exact Hni.
      * intros y i Hyb Hy. destruct (Z.eq_dec y x) as [->|Hne].
        -- rewrite map_get_set_same in Hy. inversion Hy as [Ei0]. rewrite <- Ei0, Hno. exists v. split; [apply store_get_set_same|]. split; [exact Hv|].
           split; [apply nth_error_snoc|]. rewrite len_app'. change (len [v]) with 1. pose proof (len_nonneg' OA). lia.
        -- rewrite map_get_set_other in Hy by congruence. destruct (Hop _ _ Hyb Hy) as (w & Hs1 & Hnv & Hn & Hr). exists w.
           split; [rewrite store_get_set_other; [exact Hs1|congruence]|]. split; [exact Hnv|]. split; [rewrite nth_error_app1; [exact Hn|unfold len in *; lia]|].
           rewrite len_app'. change (len [v]) with 1. lia.
      * intros y i Hyb Hy. destruct (Hip _ _ Hyb Hy) as (z' & Hs1 & Hr). exists z'. split; [|exact Hr].
        rewrite store_get_set_other; [exact Hs1|]. intros E. symmetry in E. revert E. apply Hother; [exact Hyb|]. right. right. congruence.
      * rewrite <- app_assoc in H1, H3. cbn [app] in H1, H3. auto.
Qed.

(* ---------- one function ---------- *)
Lemma nthz_map {A B} (g : A -> B) l i x : nthz l i = Some x -> nthz (map g l) i = Some (g x).
Proof. unfold nthz. destruct (i <? 0); [discriminate|]. intros H. now rewrite nth_error_map, H. Qed.

Lemma split_params_covers ps : forall op ip no ni op' ip' no' ni', split_params ps op ip no ni = COk (op', ip', no', ni') ->
  (forall x, (map_get op x <> None \/ map_get ip x <> None) -> (map_get op' x <> None \/ map_get ip' x <> None)) /\
  (forall x, In x (map fst ps) -> map_get op' x <> None \/ map_get ip' x <> None).
Proof.
  induction ps as [|[x t] ps IH]; intros op ip no ni op' ip' no' ni' H; cbn [split_params] in H.
  - inversion H; subst. split; [auto|intros x []].
  - destruct (negb (supported t)); [discriminate|].
    assert (Hstep : forall op1 ip1 no1 ni1, split_params ps op1 ip1 no1 ni1 = COk (op', ip', no', ni') ->
              (forall y, (map_get op y <> None \/ map_get ip y <> None) -> (map_get op1 y <> None \/ map_get ip1 y <> None)) ->
              (map_get op1 x <> None \/ map_get ip1 x <> None) ->
              (forall y, (map_get op y <> None \/ map_get ip y <> None) -> (map_get op' y <> None \/ map_get ip' y <> None)) /\
              (forall y, In y (map fst ((x, t) :: ps)) -> map_get op' y <> None \/ map_get ip' y <> None)).
    { intros op1 ip1 no1 ni1 H1 Hmono Hx. destruct (IH _ _ _ _ _ _ _ _ H1) as [Hm Hc]. split; [auto|].
      intros y [<-|Hy]; [apply Hm; exact Hx|auto]. }
    destruct (is_int t).
    + eapply Hstep; [exact H| |right; rewrite map_get_set_same; discriminate].
      intros y [Hy|Hy]; [left; exact Hy|right]. destruct (Z.eq_dec x y) as [->|Hne]; [rewrite map_get_set_same; discriminate|rewrite map_get_set_other by exact Hne; exact Hy].
    + eapply Hstep; [exact H| |left; rewrite map_get_set_same; discriminate].
      intros y [Hy|Hy]; [left|right; exact Hy]. destruct (Z.eq_dec x y) as [->|Hne]; [rewrite map_get_set_same; discriminate|rewrite map_get_set_other by exact Hne; exact Hy].
Qed.

Lemma bind_params_dom ps : forall args sto sto' x, bind_params ps args sto = Some sto' ->
  store_get sto' x <> None -> store_get sto x <> None \/ In x (map fst ps).
Proof.
  induction ps as [|[y t] ps IH]; intros args sto sto' x H Hx; destruct args as [|v args]; cbn [bind_params] in H; try discriminate.
  - inversion H; subst. now left.
  - destruct (has_ty v t); [|discriminate]. destruct (IH _ _ _ _ H Hx) as [Hs|Hi]; [|right; now right].
    destruct (Z.eq_dec y x) as [->|Hne]; [right; now left|]. left. rewrite store_get_set_other in Hs by exact Hne. exact Hs.
Qed.

(* the guard on a function: junk-safe expressions, well-formed returns/assignments, distinct parameter names *)
Definition fun_ok (fd : fundecl) : bool := safe_fun fd && nodup_nonblank (fd_params fd) && rets_ok_fun fd.


Definition fun_result (fd : fundecl) (o : out) : eres (option value) :=
  match o with
  | OReturn v =>
      match v, fd_results fd with
      | None, [] => EOk None
      | Some x, [t] => if has_ty x t then EOk (Some x) else EStuck
      | _, _ => EStuck
      end
  | ONormal _ => match fd_results fd with [] => EOk None | _ => EStuck end
  | OBreak _ => EStuck
  end.

(* how a compiled function is presented to the VM: its instruction list ([Link.vfunc_of_cfunc]) or its bytes *)
Record link_ok (link : cfunc -> vfunc) (good : cfunc -> Prop) : Prop := mklink_ok {
  lk_consts : forall cf, vf_consts (link cf) = cfunc_consts cf;
  lk_iconsts : forall cf, vf_iconsts (link cf) = cf_iconsts cf;
  lk_nobj : forall cf, vf_nobj (link cf) = cf_nobj cf;
  lk_nint : forall cf, vf_nint (link cf) = cf_nint cf;
  lk_fetch : forall cf, good cf -> forall pc i, instr_at (cf_code cf) pc = Some i -> vf_fetch (link cf) pc = Some i
}.

Section Fun.
Variable cfg : config.
Variable funcs : list vfunc.
Variable link : cfunc -> vfunc.
Variable good : cfunc -> Prop.
Hypothesis Hlink : link_ok link good.
Variable nat_fun : Z -> list value -> option (list value).
Variable callf : Z -> list value -> eres (option value).
Hypothesis Hcall : call_ok cfg funcs nat_fun callf.
Hypothesis Hsound : uncond_sound cfg = true.
Hypothesis Hbind : bind_resets_last cfg = true.
Hypothesis Hmax : 0 <= max_locals cfg.

Notation star := (star cfg funcs nat_fun).

Lemma fun_runs f fd cf : compile_fun cfg fd = COk cf -> good cf -> fun_ok fd = true ->
  forall args sto0 o r, bind_params (fd_params fd) args [] = Some sto0 ->
  block_with (exec (nat_sig cfg) nat_fun callf f) (fd_body fd) sto0 = EOk o -> fun_result fd o = EOk r ->
  forall O IO vl K,
  let B := rev (args_o 0 0 args) ++ O in
  let IB := rev (args_i 0 0 args) ++ IO in
  exists pc' L' IL' X' XI' vl' cr,
    star (mkstate (enter cfg (link cf) B IB) B IB vl K)
         (ExprCorrect.S (link cf) B IB (len O) (len IO) K pc' L' IL' X' XI' vl') /\
    res_rel r cr /\
    step cfg funcs nat_fun (ExprCorrect.S (link cf) B IB (len O) (len IO) K pc' L' IL' X' XI' vl')
    = ret cfg (ExprCorrect.S (link cf) B IB (len O) (len IO) K pc' L' IL' X' XI' vl') cr.
Proof.
  intros Hcf Hgood Hok args sto0 o r Hbp Hexec Hres O IO vl K B IB.
  unfold fun_ok in Hok. apply andb_prop in Hok as [Hok _]. apply andb_prop in Hok as [Hsafe Hnd]. apply nodup_nonblank_NoDupNB in Hnd.
  unfold compile_fun in Hcf.
  cinv Hcf. rename a into rt. destruct (negb (supported rt)); [discriminate|].
  cinv Hcfb. destruct a as [[[op ip] nobj] nint]. destruct ((256 <? nobj) || (256 <? nint)) eqn:Hparlim; [discriminate|]. cinv Hcfbb. destruct a as [st rb].
  set (env := mkce op ip (ty_eqb rt TVoid)) in *.
  set (C := genblock cfg rb 0 ++ (if ty_eqb rt TVoid then [I0 KReturn] else [])) in *.
  destruct (negb (jumps_fit C)); [discriminate|]. inversion Hcfbbb; subst cf. clear Hcfbbb.
  set (cf := mkcfunc C (cs_consts st) (cs_iconsts st) nobj nint) in *.
  set (fn := link cf).
  (* parameters *)
  destruct (split_bind _ _ _ _ _ _ _ _ _ _ _ _ [] [] Hcfba Hbp Hnd) as (Hno & Hni & Hop & Hip);
    try reflexivity; try (intros x i _ Hx; discriminate). { intros x _ _. auto. }
  cbn [app] in Hno, Hni, Hop, Hip.
  assert (Hpar : params_ok env B IB (len O) (len IO) sto0).
  { split.
    - intros x i Hxb Hx. destruct (Hop _ _ Hxb Hx) as (v & Hs & Hnv & Hn & Hr). exists v. split; [exact Hs|]. split; [exact Hnv|].
      subst B. rewrite nth_bottom_rev_args by exact Hr. split; [exact Hn|]. rewrite len_app', len_rev. pose proof (len_nonneg' O). lia.
    - intros x i Hxb _ Hx. destruct (Hip _ _ Hxb Hx) as (z & Hs & Hn & Hr). exists z. split; [exact Hs|].
      subst IB. rewrite nth_bottom_rev_args by exact Hr. split; [exact Hn|]. rewrite len_app', len_rev. pose proof (len_nonneg' IO). lia. }
  (* locals *)
  assert (Hlwf : lwf cfg env st).
  { eapply rblock_lwf; [apply Forall_forall; intros; apply rstmt_lwf|exact Hcfbba|]. split; [exact Hmax|intros x i Hx; discriminate]. }
  assert (HFL : fl_ok cfg env (cs_locals st)) by exact Hlwf.
  assert (Hfl : in_fl (cs_locals st) st) by (exists []; now rewrite app_nil_r).
  assert (Hpools : pools_ok fn st).
  { split; intros i s Hs; [subst fn; rewrite (lk_consts _ _ Hlink); exact (nthz_map VStr _ _ _ Hs)|subst fn; rewrite (lk_iconsts _ _ Hlink); exact Hs]. }
  assert (Hginv : ginv cfg (cs_locals st) sto0 (zero_locals cfg) (zero_ilocals cfg)).
  { unfold zero_locals, zero_ilocals. split; [rewrite len_repeat; lia|]. split; [rewrite len_repeat; lia|].
    intros x i Hx. destruct (store_get sto0 x) eqn:Es; [|exact Logic.I]. exfalso.
    destruct (bind_params_dom _ _ _ _ x Hbp ltac:(congruence)) as [Hs|Hi]; [cbn in Hs; congruence|].
    destruct (split_params_covers _ _ _ _ _ _ _ _ _ Hcfba) as [_ Hcov]. specialize (Hcov _ Hi).
    destruct Hlwf as [_ Hdis]. specialize (Hdis _ _ Hx). unfold is_param in Hdis. cbn [ce_oparams ce_iparams env] in Hdis.
    destruct (map_get op x), (map_get ip x); try discriminate. destruct Hcov; congruence. }
  assert (Hfetch : forall pc i, instr_at C pc = Some i -> vf_fetch fn pc = Some i) by (exact (lk_fetch _ _ Hlink cf Hgood)).
  assert (Hat : code_at C 0 (genblock cfg rb 0)).
  { exists [], (if ty_eqb rt TVoid then [I0 KReturn] else []). split; reflexivity. }
  (* entry state *)
  assert (Henter : mkstate (enter cfg fn B IB) B IB vl K = ExprCorrect.S fn B IB (len O) (len IO) K 0 (zero_locals cfg) (zero_ilocals cfg) [] [] vl).
  { unfold enter, ExprCorrect.S. cbn [app]. f_equal. f_equal.
    - subst B fn. rewrite len_app', len_rev, (lk_nobj _ _ Hlink). cbn [cf cf_nobj]. lia.
    - subst IB fn. rewrite len_app', len_rev, (lk_nint _ _ Hlink). cbn [cf cf_nint]. lia. }
  rewrite Henter.
  assert (Hsb : forallb safe_stmt (fd_body fd) = true) by exact Hsafe.
  pose proof (block_ok cfg funcs nat_fun callf env fn C B IB (len O) (len IO) K (cs_locals st) f
                (stmt_correct cfg funcs nat_fun callf env fn C Hfetch B IB (len O) (len IO) K Hcall (cs_locals st) HFL Hsound Hbind f)
                _ _ _ _ Hcfbba Hfl Hpools Hsb 0 0 Hat _ _ _ Hginv Hpar _ Hexec [] [] vl) as Hpost.
  destruct o as [sto1|sto1|v]; cbn [post fun_result] in Hpost, Hres.
  - (* fell off the end of a void function *)
    destruct (fd_results fd) eqn:Eres; [|discriminate]. inversion Hres; subst r. inversion Hcfa; subst rt. cbn [ty_eqb] in *.
    destruct Hpost as (J & L' & IL' & vl' & Hs & _).
    exists (0 + size (genblock cfg rb 0)), L', IL', (J ++ []), [], vl', (mkres VNil 0). split; [exact Hs|]. split; [exact Logic.I|].
    eapply (ret_step cfg funcs nat_fun fn C Hfetch) with (rest := []) (k := KReturn); [|reflexivity].
    exists (genblock cfg rb 0), []. split; [subst C; cbn [app]; reflexivity|lia].
  - discriminate.
  - destruct Hpost as (pc' & L' & IL' & X' & XI' & vl' & cr & Hs & Hrel & Hstep).
    exists pc', L', IL', X', XI', vl', cr. split; [exact Hs|]. split; [|exact Hstep].
    destruct v as [x|]; destruct (fd_results fd) as [|t [|]] eqn:Eres; try discriminate.
    + destruct (has_ty x t) eqn:Ety; [|discriminate]. inversion Hres; subst r. apply Hrel. inversion Hcfa; subst rt.
      cbn [ce_retvoid env]. destruct t; cbn in Ety |- *; try reflexivity. destruct x; discriminate.
    + inversion Hres; subst r. exact Logic.I.
Qed.

End Fun.

(* ---------- programs ---------- *)
Lemma compile_prog_nth cfg : forall p cs, compile_prog cfg p = COk cs ->
  forall id fd, nthz p id = Some fd -> exists cf, nthz cs id = Some cf /\ compile_fun cfg fd = COk cf.
Proof.
  induction p as [|f p IH]; intros cs H id fd Hn; cbn in H.
  - unfold nthz in Hn. destruct (id <? 0); [discriminate|]. destruct (Z.to_nat id); discriminate.
  - cinv H. cinv Hb. inversion Hbb; subst. unfold nthz in *. destruct (Z.ltb_spec id 0); [discriminate|].
    destruct (Z.to_nat id) as [|n] eqn:En; cbn [nth_error] in *.
    + inversion Hn; subst. eauto.
    + destruct (IH _ Hba (Z.of_nat n) fd) as (cf & Hc1 & Hc2).
      * destruct (Z.ltb_spec (Z.of_nat n) 0); [lia|]. now rewrite Nat2Z.id.
      * exists cf. split; [|exact Hc2]. destruct (Z.ltb_spec (Z.of_nat n) 0); [lia|]. now rewrite Nat2Z.id in Hc1.
Qed.

Definition prog_ok (p : program) : bool := forallb fun_ok p.

Lemma prog_ok_nth p id fd : prog_ok p = true -> nthz p id = Some fd -> fun_ok fd = true.
Proof.
  unfold prog_ok. rewrite forallb_forall. intros H Hn. apply H. unfold nthz in Hn. destruct (id <? 0); [discriminate|].
  eapply nth_error_In; eauto.
Qed.

(* the configuration facts the theorems rest on; every one is re-established on the tables regenerated from /repo *)
Definition config_ok (cfg : config) : bool :=
  uncond_sound cfg && bind_resets_last cfg && call_pops_frame cfg && (0 <=? max_locals cfg).

Section Prog.
Variable cfg : config.
Variable nat_fun : Z -> list value -> option (list value).
Variable p : program.
Variable cs : list cfunc.
Hypothesis Hcomp : compile_prog cfg p = COk cs.
Hypothesis Hprog : prog_ok p = true.
Hypothesis Hcfg : config_ok cfg = true.

Variable link : cfunc -> vfunc.
Variable good : cfunc -> Prop.
Hypothesis Hlink : link_ok link good.
Hypothesis Hgood : forall cf, In cf cs -> good cf.

Let funcs := map link cs.
Notation star := (star cfg funcs nat_fun).
Notation call_sem := (call_sem (nat_sig cfg) nat_fun p).

Lemma cfg_facts : uncond_sound cfg = true /\ bind_resets_last cfg = true /\ call_pops_frame cfg = true /\ 0 <= max_locals cfg.
Proof.
  unfold config_ok in Hcfg. apply andb_prop in Hcfg as [H H4]. apply andb_prop in H as [H H3]. apply andb_prop in H as [H1 H2].
  apply Z.leb_le in H4. auto.
Qed.

(* a call instruction runs the callee to completion and continues after it with the result pushed *)
Theorem calls_correct : forall fuel, call_ok cfg funcs nat_fun (call_sem fuel).
Proof.
  destruct cfg_facts as (Hsound & Hbind & Hpops & Hmax).
  induction fuel as [|f IH]; intros id vs r Hr k Hk fn' pc L IL top' itop' O IO vl K' Hf; [discriminate|].
  cbn [Sem.call_sem] in Hr.
  destruct (nthz p id) as [fd|] eqn:Efd; [|discriminate].
  destruct (bind_params (fd_params fd) vs []) as [sto0|] eqn:Ebp; [|discriminate].
  einvas Hr o.
  destruct (compile_prog_nth cfg _ _ Hcomp _ _ Efd) as (cf & Hcs & Hcf).
  pose proof (prog_ok_nth _ _ _ Hprog Efd) as Hok.
  assert (Hfun : nthz funcs id = Some (link cf)) by (apply nthz_map; exact Hcs).
  assert (Hg : good cf) by (apply Hgood; unfold nthz in Hcs; destruct (id <? 0); [discriminate|]; eapply nth_error_In; eauto).
  destruct (fun_runs cfg funcs link good Hlink nat_fun (call_sem f) IH Hsound Hbind Hmax f fd cf Hcf Hg Hok vs sto0 o r Ebp Hra Hrb O IO vl
              ((mkframe fn' pc L IL top' itop', k) :: K'))
    as (pc1 & L1 & IL1 & X1 & XI1 & vl1 & cr & Hs & Hrel & Hstep).
  exists vl1, cr. split; [exact Hrel|].
  eapply star_step.
  { unfold step. cbn [st_fr fr_fn fr_pc]. rewrite Hf. cbn [ikind iarg].
    destruct Hk as [->|[->| ->]]; cbn [st_objs st_ints st_vlen st_callers]; rewrite Hfun; reflexivity. }
  eapply star_trans; [exact Hs|]. apply star_one. rewrite Hstep.
  unfold ret, ExprCorrect.S. cbn [st_callers st_objs st_ints st_fr fr_top fr_itop st_vlen fr_fn fr_pc fr_locals fr_ilocals]. rewrite Hpops.
  rewrite !app_assoc. rewrite !keep_bottom_app.
  destruct Hk as [->|[->| ->]]; reflexivity.
Qed.

(* quasigo.Call on a compiled function returns what the function returns under Go semantics *)
Theorem call_correct fuel id args r : call_sem fuel id args = EOk r ->
  forall cf, nthz cs id = Some cf ->
  exists fuel' cr, call_fun cfg funcs nat_fun fuel' (link cf) args = RDone cr /\ res_rel r cr.
Proof.
  destruct cfg_facts as (Hsound & Hbind & Hpops & Hmax).
  intros Hr cf Hcs. destruct fuel as [|f]; [discriminate|]. cbn [Sem.call_sem] in Hr.
  destruct (nthz p id) as [fd|] eqn:Efd; [|discriminate].
  destruct (bind_params (fd_params fd) args []) as [sto0|] eqn:Ebp; [|discriminate].
  einvas Hr o.
  destruct (compile_prog_nth cfg _ _ Hcomp _ _ Efd) as (cf' & Hcs' & Hcf). rewrite Hcs in Hcs'. inversion Hcs'; subst cf'.
  pose proof (prog_ok_nth _ _ _ Hprog Efd) as Hok.
  assert (Hg : good cf) by (apply Hgood; unfold nthz in Hcs; destruct (id <? 0); [discriminate|]; eapply nth_error_In; eauto).
  destruct (fun_runs cfg funcs link good Hlink nat_fun (call_sem f) (calls_correct f) Hsound Hbind Hmax f fd cf Hcf Hg Hok args sto0 o r Ebp Hra Hrb [] [] 0 [])
    as (pc1 & L1 & IL1 & X1 & XI1 & vl1 & cr & Hs & Hrel & Hstep).
  (* the initial stacks of quasigo.Call *)
  assert (Hpush : forall vs o n, fold_left (fun '(o, n) v => match v with VInt z => (o, z :: n) | _ => (v :: o, n) end) vs (o, n)
                                 = (rev (args_o 0 0 vs) ++ o, rev (args_i 0 0 vs) ++ n)).
  { induction vs as [|v vs IHv]; intros o0 n0; [reflexivity|]. cbn [fold_left args_o args_i].
    unfold boxed. cbn [Z.eqb negb andb]. rewrite andb_true_r, args_o_shift, args_i_shift.
    destruct v; cbn [is_vint]; rewrite IHv; cbn [rev app]; rewrite <- ?app_assoc; reflexivity. }
  assert (Hrun : exists fuel', run cfg funcs nat_fun fuel'
                   (mkstate (enter cfg (link cf) (rev (args_o 0 0 args) ++ []) (rev (args_i 0 0 args) ++ []))
                      (rev (args_o 0 0 args) ++ []) (rev (args_i 0 0 args) ++ []) 0 []) = RDone cr).
  { eapply run_star; [exact Hs|]. instantiate (1 := 1%nat). cbn [run]. rewrite Hstep. unfold ret, ExprCorrect.S. reflexivity. }
  destruct Hrun as [fuel' Hrun]. exists fuel', cr. split; [|exact Hrel].
  unfold call_fun, push_args. rewrite Hpush. rewrite <- Hrun. f_equal.
  unfold enter. f_equal. f_equal; rewrite !app_nil_r.
  - pose proof Hcf as Hcf2. unfold compile_fun in Hcf2. (* nobj = number of object arguments *)
    cinv Hcf2. destruct (negb (supported a)); [discriminate|]. cinv Hcf2b. destruct a0 as [[[op ip] nobj] nint]. destruct ((256 <? nobj) || (256 <? nint)); [discriminate|]. cinv Hcf2bb. destruct a0 as [st rb].
    destruct (negb (jumps_fit _)); [discriminate|]. rewrite (lk_nobj _ _ Hlink). inversion Hcf2bbb; subst cf. cbn [cf_nobj].
    unfold fun_ok in Hok. apply andb_prop in Hok as [Hok _]. apply andb_prop in Hok as [_ Hnd]. apply nodup_nonblank_NoDupNB in Hnd.
    destruct (split_bind _ _ _ _ _ _ _ _ _ _ _ _ [] [] Hcf2ba Ebp Hnd) as (Hno & _); try reflexivity; try (intros x i _ Hx; discriminate). { intros x _ _. auto. }
    cbn [app] in Hno. rewrite Hno, len_rev. lia.
  - pose proof Hcf as Hcf2. unfold compile_fun in Hcf2.
    cinv Hcf2. destruct (negb (supported a)); [discriminate|]. cinv Hcf2b. destruct a0 as [[[op ip] nobj] nint]. destruct ((256 <? nobj) || (256 <? nint)); [discriminate|]. cinv Hcf2bb. destruct a0 as [st rb].
    destruct (negb (jumps_fit _)); [discriminate|]. rewrite (lk_nint _ _ Hlink). inversion Hcf2bbb; subst cf. cbn [cf_nint].
    unfold fun_ok in Hok. apply andb_prop in Hok as [Hok _]. apply andb_prop in Hok as [_ Hnd]. apply nodup_nonblank_NoDupNB in Hnd.
    destruct (split_bind _ _ _ _ _ _ _ _ _ _ _ _ [] [] Hcf2ba Ebp Hnd) as (_ & Hni & _); try reflexivity; try (intros x i _ Hx; discriminate). { intros x _ _. auto. }
    cbn [app] in Hni. rewrite Hni, len_rev. lia.
Qed.

End Prog.
