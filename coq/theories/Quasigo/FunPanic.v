(* Whole functions and programs: a Go panic of the source program is a failure of the VM run. *)
From Coq Require Import List ZArith Bool Lia.
From RG.Base Require Import Outcome GoInt GoSlice.
From RG.Quasigo Require Import Source Bytecode Compile VM Sem Guards Link VMLemmas CompileLemmas SemLemmas NativeLemmas ExprCorrect StmtCorrect FunCorrect ExprPanic StmtPanic.
Import ListNotations.
Local Open Scope Z_scope.

Section Fun.
Variable cfg : config.
Variable funcs : list vfunc.
Variable link : cfunc -> vfunc.
Variable good : cfunc -> Prop.
Hypothesis Hlink : link_ok link good.
Variable nat_fun : Z -> list value -> option (list value).
Variable callf : Z -> list value -> eres (option value).
Hypothesis Hcall : call_ok cfg funcs nat_fun callf.
Hypothesis Hcallp : call_pan cfg funcs nat_fun callf.
Hypothesis Hsound : uncond_sound cfg = true.
Hypothesis Hbind : bind_resets_last cfg = true.
Hypothesis Hmax : 0 <= max_locals cfg.

Lemma fun_fails f fd cf : compile_fun cfg fd = COk cf -> good cf -> fun_ok fd = true ->
  forall args sto0 w, bind_params (fd_params fd) args [] = Some sto0 ->
  block_with (exec (nat_sig cfg) nat_fun callf f) (fd_body fd) sto0 = EPanic w ->
  forall O IO vl K,
  let B := rev (args_o 0 0 args) ++ O in
  let IB := rev (args_i 0 0 args) ++ IO in
  fails cfg funcs nat_fun (mkstate (enter cfg (link cf) B IB) B IB vl K) w.
Proof.
  intros Hcf Hgood Hok args sto0 w Hbp Hexec O IO vl K B IB.
  unfold fun_ok in Hok. apply andb_prop in Hok as [Hok Hrets]. apply andb_prop in Hok as [Hsafe Hnd]. apply nodup_nonblank_NoDupNB in Hnd.
  unfold rets_ok_fun in Hrets. apply andb_prop in Hrets as [Hnovoid Hrets].
  unfold compile_fun in Hcf.
  cinv Hcf. rename a into rt. destruct (negb (supported rt)); [discriminate|].
  cinv Hcfb. destruct a as [[[op ip] nobj] nint]. destruct ((256 <? nobj) || (256 <? nint)) eqn:Hparlim; [discriminate|]. cinv Hcfbb. destruct a as [st rb].
  set (env := mkce op ip (ty_eqb rt TVoid)) in *.
  set (C := genblock cfg rb 0 ++ (if ty_eqb rt TVoid then [I0 KReturn] else [])) in *.
  destruct (negb (jumps_fit C)); [discriminate|]. inversion Hcfbbb; subst cf. clear Hcfbbb.
  set (cf := mkcfunc C (cs_consts st) (cs_iconsts st) nobj nint) in *.
  set (fn := link cf).
  destruct (split_bind _ _ _ _ _ _ _ _ _ _ _ _ [] [] Hcfba Hbp Hnd) as (Hno & Hni & Hop & Hip);
    try reflexivity; try (intros x i _ Hx; discriminate). { intros x _ _. auto. }
  cbn [app] in Hno, Hni, Hop, Hip.
  assert (Hpar : params_ok env B IB (len O) (len IO) sto0).
  { split.
    - intros x i Hxb Hx. destruct (Hop _ _ Hxb Hx) as (v & Hs & Hnv & Hn & Hr). exists v. split; [exact Hs|]. split; [exact Hnv|].
      subst B. rewrite nth_bottom_rev_args by exact Hr. split; [exact Hn|]. rewrite len_app', len_rev. pose proof (len_nonneg' O). lia.
    - intros x i Hxb _ Hx. destruct (Hip _ _ Hxb Hx) as (z & Hs & Hn & Hr). exists z. split; [exact Hs|].
      subst IB. rewrite nth_bottom_rev_args by exact Hr. split; [exact Hn|]. rewrite len_app', len_rev. pose proof (len_nonneg' IO). lia. }
  assert (Hlwf : lwf cfg env st).
  { eapply rblock_lwf; [apply Forall_forall; intros; apply rstmt_lwf|exact Hcfbba|]. split; [exact Hmax|intros x i Hx; discriminate]. }
  assert (HFL : fl_ok cfg env (cs_locals st)) by exact Hlwf.
  assert (Hfl : in_fl (cs_locals st) st) by (exists []; now rewrite app_nil_r).
  assert (Hpools : pools_ok fn st).
  { split; intros i s Hs; [subst fn; rewrite (lk_consts _ _ Hlink); exact (nthz_map VStr _ _ _ Hs)|subst fn; rewrite (lk_iconsts _ _ Hlink); exact Hs]. }
  assert (Hginv : ginv cfg (cs_locals st) sto0 (zero_locals cfg) (zero_ilocals cfg)).
  { unfold zero_locals, zero_ilocals. split; [rewrite len_repeat; lia|]. split; [rewrite len_repeat; lia|].
    intros x i Hx. destruct (store_get sto0 x) eqn:Es; [|exact Logic.I]. exfalso.
    destruct (bind_params_dom _ _ _ _ x Hbp ltac:(congruence)) as [Hs|Hi]; [cbn in Hs; congruence|].
    destruct (split_params_covers _ _ _ _ _ _ _ _ _ Hcfba) as [_ Hcov]. specialize (Hcov _ Hi).
    destruct Hlwf as [_ Hdis]. specialize (Hdis _ _ Hx). unfold is_param in Hdis. cbn [ce_oparams ce_iparams env] in Hdis.
    destruct (map_get op x), (map_get ip x); try discriminate. destruct Hcov; congruence. }
  assert (Hfetch : forall pc i, instr_at C pc = Some i -> vf_fetch fn pc = Some i) by (exact (lk_fetch _ _ Hlink cf Hgood)).
  assert (Hat : code_at C 0 (genblock cfg rb 0)).
  { exists [], (if ty_eqb rt TVoid then [I0 KReturn] else []). split; reflexivity. }
  assert (Henter : mkstate (enter cfg fn B IB) B IB vl K = ExprCorrect.S fn B IB (len O) (len IO) K 0 (zero_locals cfg) (zero_ilocals cfg) [] [] vl).
  { unfold enter, ExprCorrect.S. cbn [app]. f_equal. f_equal.
    - subst B fn. rewrite len_app', len_rev, (lk_nobj _ _ Hlink). cbn [cf cf_nobj]. lia.
    - subst IB fn. rewrite len_app', len_rev, (lk_nint _ _ Hlink). cbn [cf cf_nint]. lia. }
  rewrite Henter.
  assert (Hvoid : ce_retvoid env = match fd_results fd with [] => true | _ => false end).
  { cbn [ce_retvoid env]. destruct (fd_results fd) as [|t [|]]; try discriminate; inversion Hcfa; subst rt; [reflexivity|].
    cbn [forallb] in Hnovoid. apply andb_prop in Hnovoid as [Ht _]. apply negb_true_iff in Ht. exact Ht. }
  eapply (block_pan cfg funcs nat_fun callf env fn C Hfetch B IB (len O) (len IO) K Hcall (cs_locals st) HFL Hsound Hbind f
            (stmt_panics cfg funcs nat_fun callf env fn C Hfetch B IB (len O) (len IO) K Hcall Hcallp (cs_locals st) HFL Hsound Hbind f));
    eauto. rewrite Hvoid. exact Hrets.
Qed.

End Fun.

Section Prog.
Variable cfg : config.
Variable nat_fun : Z -> list value -> option (list value).
Variable p : program.
Variable cs : list cfunc.
Hypothesis Hcomp : compile_prog cfg p = COk cs.
Hypothesis Hprog : prog_ok p = true.
Hypothesis Hcfg : config_ok cfg = true.
Variable link : cfunc -> vfunc.
Variable good : cfunc -> Prop.
Hypothesis Hlink : link_ok link good.
Hypothesis Hgood : forall cf, In cf cs -> good cf.

Let funcs := map link cs.
Notation call_sem := (call_sem (nat_sig cfg) nat_fun p).

Theorem calls_panic : forall fuel, call_pan cfg funcs nat_fun (call_sem fuel).
Proof.
  destruct (cfg_facts cfg Hcfg) as (Hsound & Hbind & Hpops & Hmax).
  induction fuel as [|f IH]; intros id vs w Hr k Hk fn' pc L IL top' itop' O IO vl K' Hf; [discriminate|].
  cbn [Sem.call_sem] in Hr.
  destruct (nthz p id) as [fd|] eqn:Efd; [|discriminate].
  destruct (bind_params (fd_params fd) vs []) as [sto0|] eqn:Ebp; [|discriminate].
  pinv Hr o.
  2:{ exfalso. destruct o as [sto1|sto1|[x|]]; destruct (fd_results fd) as [|t [|]]; try discriminate. destruct (has_ty x t); discriminate. }
  destruct (compile_prog_nth cfg _ _ Hcomp _ _ Efd) as (cf & Hcs & Hcf).
  pose proof (prog_ok_nth _ _ _ Hprog Efd) as Hok.
  assert (Hfun : nthz funcs id = Some (link cf)) by (apply nthz_map; exact Hcs).
  assert (Hg : good cf) by (apply Hgood; unfold nthz in Hcs; destruct (id <? 0); [discriminate|]; eapply nth_error_In; eauto).
  pose proof (fun_fails cfg funcs link good Hlink nat_fun (call_sem f)
                (calls_correct cfg nat_fun p cs Hcomp Hprog Hcfg link good Hlink Hgood f) IH Hsound Hbind Hmax f fd cf Hcf Hg Hok vs sto0 w Ebp Hra O IO vl
                ((mkframe fn' pc L IL top' itop', k) :: K')) as Hfails.
  eapply fails_star; [|exact Hfails]. apply star_one.
  unfold step. cbn [st_fr fr_fn fr_pc]. rewrite Hf. cbn [ikind iarg].
  destruct Hk as [->|[->| ->]]; cbn [st_objs st_ints st_vlen st_callers]; rewrite Hfun; reflexivity.
Qed.

(* quasigo.Call on a compiled function fails when the function panics under Go semantics *)
Theorem call_panics fuel id args w : call_sem fuel id args = EPanic w ->
  forall cf, nthz cs id = Some cf ->
  exists fuel', call_fun cfg funcs nat_fun fuel' (link cf) args = RPanic w.
Proof.
  destruct (cfg_facts cfg Hcfg) as (Hsound & Hbind & Hpops & Hmax).
  intros Hr cf Hcs. destruct fuel as [|f]; [discriminate|]. cbn [Sem.call_sem] in Hr.
  destruct (nthz p id) as [fd|] eqn:Efd; [|discriminate].
  destruct (bind_params (fd_params fd) args []) as [sto0|] eqn:Ebp; [|discriminate].
  pinv Hr o.
  2:{ exfalso. destruct o as [sto1|sto1|[x|]]; destruct (fd_results fd) as [|t [|]]; try discriminate. destruct (has_ty x t); discriminate. }
  destruct (compile_prog_nth cfg _ _ Hcomp _ _ Efd) as (cf' & Hcs' & Hcf). rewrite Hcs in Hcs'. inversion Hcs'; subst cf'.
  pose proof (prog_ok_nth _ _ _ Hprog Efd) as Hok.
  assert (Hg : good cf) by (apply Hgood; unfold nthz in Hcs; destruct (id <? 0); [discriminate|]; eapply nth_error_In; eauto).
  pose proof (fun_fails cfg funcs link good Hlink nat_fun (call_sem f)
                (calls_correct cfg nat_fun p cs Hcomp Hprog Hcfg link good Hlink Hgood f) (calls_panic f) Hsound Hbind Hmax f fd cf Hcf Hg Hok args sto0 w Ebp Hra [] [] 0 []) as Hfails.
  destruct (fails_run _ _ _ _ _ Hfails) as [fuel' Hrun]. exists fuel'.
  assert (Hpush : forall vs o n, fold_left (fun '(o, n) v => match v with VInt z => (o, z :: n) | _ => (v :: o, n) end) vs (o, n)
                                 = (rev (args_o 0 0 vs) ++ o, rev (args_i 0 0 vs) ++ n)).
  { induction vs as [|v vs IHv]; intros o0 n0; [reflexivity|]. cbn [fold_left args_o args_i].
    unfold boxed. cbn [Z.eqb negb andb]. rewrite andb_true_r, args_o_shift, args_i_shift.
    destruct v; cbn [is_vint]; rewrite IHv; cbn [rev app]; rewrite <- ?app_assoc; reflexivity. }
  unfold call_fun, push_args. rewrite Hpush. rewrite <- Hrun. f_equal.
  unfold enter. f_equal. f_equal; rewrite !app_nil_r.
  - pose proof Hcf as Hcf2. unfold compile_fun in Hcf2.
    cinv Hcf2. destruct (negb (supported a)); [discriminate|]. cinv Hcf2b. destruct a0 as [[[op ip] nobj] nint]. destruct ((256 <? nobj) || (256 <? nint)); [discriminate|]. cinv Hcf2bb. destruct a0 as [st rb].
    destruct (negb (jumps_fit _)); [discriminate|]. rewrite (lk_nobj _ _ Hlink). inversion Hcf2bbb; subst cf. cbn [cf_nobj].
    unfold fun_ok in Hok. apply andb_prop in Hok as [Hok _]. apply andb_prop in Hok as [_ Hnd]. apply nodup_nonblank_NoDupNB in Hnd.
    destruct (split_bind _ _ _ _ _ _ _ _ _ _ _ _ [] [] Hcf2ba Ebp Hnd) as (Hno & _); try reflexivity; try (intros x i _ Hx; discriminate). { intros x _ _. auto. }
    cbn [app] in Hno. rewrite Hno, len_rev. lia.
  - pose proof Hcf as Hcf2. unfold compile_fun in Hcf2.
    cinv Hcf2. destruct (negb (supported a)); [discriminate|]. cinv Hcf2b. destruct a0 as [[[op ip] nobj] nint]. destruct ((256 <? nobj) || (256 <? nint)); [discriminate|]. cinv Hcf2bb. destruct a0 as [st rb].
    destruct (negb (jumps_fit _)); [discriminate|]. rewrite (lk_nint _ _ Hlink). inversion Hcf2bbb; subst cf. cbn [cf_nint].
    unfold fun_ok in Hok. apply andb_prop in Hok as [Hok _]. apply andb_prop in Hok as [_ Hnd]. apply nodup_nonblank_NoDupNB in Hnd.
    destruct (split_bind _ _ _ _ _ _ _ _ _ _ _ _ [] [] Hcf2ba Ebp Hnd) as (_ & Hni & _); try reflexivity; try (intros x i _ Hx; discriminate). { intros x _ _. auto. }
    cbn [app] in Hni. rewrite Hni, len_rev. lia.
Qed.

End Prog.
