(* Model of ruleguard/quasigo/compile.go: the compiler's output function.

   Two structural passes compute what the single-pass compiler emits:
     1. [rstmt_of] walks the function in the compiler's order threading its state (constant pools interned in
        emission order, the function-wide scope-less locals map) and compiles every expression (expression code
        contains only jumps local to the expression); statements become a skeleton [rstmt].
     2. [gen] lays the skeleton out. Jumps are relative byte offsets computed from the sizes of the sub-programs,
        which is what label binding + linkJumps produce (offsets are relative to the jump opcode). The target of
        `break` is a distance parameter k = number of bytes between the end of the statement and the loop exit.
   The lastOp peephole of compileIfStmt is [last_block]: the opcode that cl.lastOp holds after the then-branch. *)
From Coq Require Import List ZArith Bool Lia.
From RG.Base Require Import GoSlice.
From RG.Quasigo Require Import Source Bytecode.
Import ListNotations.
Local Open Scope Z_scope.

Inductive cerr :=
| EUnsupportedType | EMultiResult | ECantCompile | EShadowing | ETooManyLocals | ENotLocal | ENakedReturn
| EAssignShape | ENotVoidStmt | EBadConst | ETooManyConsts | ETooManyVariadic | ETooBig | ECStyleFor | ETooManyParams.

Inductive cres (A : Type) := COk (a : A) | CErr (e : cerr).
Arguments COk {A} a.
Arguments CErr {A} e.

Definition cbind {A B} (x : cres A) (f : A -> cres B) : cres B :=
  match x with COk a => f a | CErr e => CErr e end.
Notation "'do' x <- a ;; b" := (cbind a (fun x => b)) (at level 200, x name, a at level 100, b at level 200).
Notation "'do' ' p <- a ;; b" := (cbind a (fun x => match x with p => b end)) (at level 200, p pattern, a at level 100, b at level 200).

(* Go map[string]int used as in compileFunc: m[k] = len(m) *)
Fixpoint map_get (m : list (Z * Z)) (k : Z) : option Z :=
  match m with [] => None | (k', v) :: m' => if k =? k' then Some v else map_get m' k end.
Fixpoint map_set (m : list (Z * Z)) (k v : Z) : list (Z * Z) :=
  match m with
  | [] => [(k, v)]
  | (k', v') :: m' => if k =? k' then (k, v) :: m' else (k', v') :: map_set m' k v
  end.

Fixpoint index_of {A} (eqb : A -> A -> bool) (x : A) (l : list A) (i : Z) : option Z :=
  match l with [] => None | y :: l' => if eqb x y then Some i else index_of eqb x l' (i + 1) end.

Record cstate := mkcs { cs_consts : list bytes; cs_iconsts : list Z; cs_locals : list Z }.
Record cenv := mkce { ce_oparams : list (Z * Z); ce_iparams : list (Z * Z); ce_retvoid : bool }.

Definition supported (t : ty) : bool :=
  match t with TInt | TStr | TBool | TIface | TPtr | TVoid => true | TBad => false end.
Definition is_int (t : ty) : bool := match t with TInt => true | _ => false end.
Definition is_str (t : ty) : bool := match t with TStr => true | _ => false end.

Definition pick (c : bool) (a b : opkind) : opkind := if c then a else b.

Section WithConfig.
Variable cfg : config.

(* ---------- expressions ---------- *)
Definition intern_str (st : cstate) (s : bytes) : cstate * Z :=
  match index_of bytes_eqb s (cs_consts st) 0 with
  | Some i => (st, i)
  | None => (mkcs (cs_consts st ++ [s]) (cs_iconsts st) (cs_locals st), len (cs_consts st))
  end.
Definition intern_int (st : cstate) (z : Z) : cstate * Z :=
  match index_of Z.eqb z (cs_iconsts st) 0 with
  | Some i => (st, i)
  | None => (mkcs (cs_consts st) (cs_iconsts st ++ [z]) (cs_locals st), len (cs_iconsts st))
  end.

Definition cconst (c : constv) (st : cstate) : cres (cstate * code) :=
  match c with
  | CBool true => COk (st, [I0 KPushTrue])
  | CBool false => COk (st, [I0 KPushFalse])
  | CStr s => let '(st1, id) := intern_str st s in
              if 255 <? id then CErr ETooManyConsts else COk (st1, [I KPushConst id])
  | CInt z => let '(st1, id) := intern_int st z in
              if 255 <? id then CErr ETooManyConsts else COk (st1, [I KPushIntConst id])
  | CUnsupported => CErr EBadConst
  end.

Variable env : cenv.

Definition cident (x : Z) (t : ty) (st : cstate) : cres (cstate * code) :=
  match map_get (ce_oparams env) x with
  | Some i => COk (st, [I KPushParam i])
  | None =>
    match map_get (ce_iparams env) x with
    | Some i => COk (st, [I KPushIntParam i])
    | None =>
      match index_of Z.eqb x (cs_locals st) 0 with
      | Some i => COk (st, [I (pick (is_int t) KPushIntLocal KPushLocal) i])
      | None => CErr ECantCompile
      end
    end
  end.

Definition cexprs_with (ce : expr -> cstate -> cres (cstate * code)) : list expr -> cstate -> cres (cstate * code) :=
  fix go (l : list expr) (st : cstate) : cres (cstate * code) :=
    match l with
    | [] => COk (st, [])
    | e :: l' => do '(st1, c1) <- ce e st ;; do '(st2, c2) <- go l' st1 ;; COk (st2, c1 ++ c2)
    end.

(* arguments of a native call: from index [variadic] on (when it is not 0) they form the variadic tail, where
   int-typed values are boxed; returns the code and the length of the tail *)
Definition cargs_with (ce : expr -> cstate -> cres (cstate * code)) (variadic : Z)
  : list expr -> Z -> cstate -> cres (cstate * code * Z) :=
  fix go (l : list expr) (i : Z) (st : cstate) : cres (cstate * code * Z) :=
    match l with
    | [] => COk (st, [], 0)
    | e :: l' =>
        do '(st1, c1) <- ce e st ;;
        do '(st2, c2, n) <- go l' (i + 1) st1 ;;
        if negb (variadic =? 0) && (variadic <=? i)
        then COk (st2, c1 ++ (if is_int (ty_of e) then [I0 KConvIntToIface] else []) ++ c2, n + 1)
        else COk (st2, c1 ++ c2, n)
    end.

Definition copt_with (ce : expr -> cstate -> cres (cstate * code)) (o : option expr) (st : cstate) : cres (cstate * code) :=
  match o with None => COk (st, []) | Some e => ce e st end.

Fixpoint cexpr (e : expr) (st : cstate) {struct e} : cres (cstate * code) :=
  let op2 (k : opkind) (x y : expr) :=
      do '(st1, cx) <- cexpr x st ;; do '(st2, cy) <- cexpr y st1 ;; COk (st2, cx ++ cy ++ [I0 k]) in
  let op1 (k : opkind) (x : expr) := do '(st1, cx) <- cexpr x st ;; COk (st1, cx ++ [I0 k]) in
  match e with
  | EConst _ c => cconst c st
  | EIdent x t => cident x t st
  | EParen x => cexpr x st
  | ENot x => op1 KNot x
  | EUnaryBad | EBad => CErr ECantCompile
  | ESelector nid _ x =>
      if nid <? 0 then CErr ECantCompile else do '(st1, cx) <- cexpr x st ;; COk (st1, cx ++ [I KCallNative nid])
  | EBinary op tx x y =>
      match op with
      | OLor => do '(st1, cx) <- cexpr x st ;; do '(st2, cy) <- cexpr y st1 ;;
                COk (st2, cx ++ [I0 KDup; I KJumpTrue (3 + size cy)] ++ cy)
      | OLand => do '(st1, cx) <- cexpr x st ;; do '(st2, cy) <- cexpr y st1 ;;
                 COk (st2, cx ++ [I0 KDup; I KJumpFalse (3 + size cy)] ++ cy)
      | ONeq =>
          if ident_name x =? name_nil then op1 KIsNotNil y
          else if ident_name y =? name_nil then op1 KIsNotNil x
          else if is_str tx then op2 KNotEqString x y
          else if is_int tx then op2 KNotEqInt x y
          else CErr ECantCompile
      | OEql =>
          if ident_name x =? name_nil then op1 KIsNil y
          else if ident_name y =? name_nil then op1 KIsNil x
          else if is_str tx then op2 KEqString x y
          else if is_int tx then op2 KEqInt x y
          else CErr ECantCompile
      | OGtr => if is_int tx then op2 KGtInt x y else CErr ECantCompile
      | OGeq => if is_int tx then op2 KGtEqInt x y else CErr ECantCompile
      | OLss => if is_int tx then op2 KLtInt x y else CErr ECantCompile
      | OLeq => if is_int tx then op2 KLtEqInt x y else CErr ECantCompile
      | OAdd => if is_str tx then op2 KConcat x y else if is_int tx then op2 KAdd x y else CErr ECantCompile
      | OSub => if is_int tx then op2 KSub x y else CErr ECantCompile
      | OBad => CErr ECantCompile
      end
  | ESlice tx x lo hi three =>
      if three then CErr ECantCompile else
      match lo, hi with
      | None, None => cexpr x st
      | None, Some h => if negb (is_str tx) then CErr ECantCompile else op2 KStringSliceTo x h
      | Some l, None => if negb (is_str tx) then CErr ECantCompile else op2 KStringSliceFrom x l
      | Some l, Some h =>
          if negb (is_str tx) then CErr ECantCompile else
          do '(st1, cx) <- cexpr x st ;; do '(st2, cl) <- cexpr l st1 ;; do '(st3, ch) <- cexpr h st2 ;;
          COk (st3, cx ++ cl ++ ch ++ [I0 KStringSlice])
      end
  | ECall f t recv args =>
      match f with
      | FLen =>
          match args with
          | a :: _ => do '(st1, ca) <- cexpr a st ;;
                      if is_str (ty_of a) then COk (st1, ca ++ [I0 KStringLen]) else CErr ECantCompile
          | [] => CErr ECantCompile
          end
      | FBuiltin => CErr ECantCompile
      | FNative id variadic =>
          do '(st0, cr) <- copt_with cexpr recv st ;;
          do '(st1, ca, n) <- cargs_with cexpr variadic args 0 st0 ;;
          if variadic =? 0 then COk (st1, cr ++ ca ++ [I KCallNative id])
          else if 255 <? n then CErr ETooManyVariadic
          else COk (st1, cr ++ ca ++ [I KSetVariadicLen n; I KCallNative id])
      | FUser id res =>
          do '(st0, cr) <- copt_with cexpr recv st ;;
          do '(st1, ca, _) <- cargs_with cexpr 0 args 0 st0 ;;
          let k := match res with TVoid => KVoidCall | TInt => KIntCall | _ => KCall end in
          COk (st1, cr ++ ca ++ [I k id])
      | FUnresolved => CErr ECantCompile
      end
  end.

Definition cexprs := cexprs_with cexpr.
Definition cargs := cargs_with cexpr.

(* ---------- statements: skeleton ---------- *)
Inductive rstmt :=
| RCode (c : code)                                   (* straight-line statement, fully compiled *)
| RIf (cc : code) (t : list rstmt) (e : option rstmt)
| RFor (cc : option code) (b : list rstmt)
| RBreak
| RBlock (l : list rstmt).

Definition is_param (x : Z) : bool :=
  match map_get (ce_oparams env) x, map_get (ce_iparams env) x with None, None => false | _, _ => true end.

Section RstmtInd.
Variable P : rstmt -> Prop.
Hypothesis HCode : forall c, P (RCode c).
Hypothesis HIf : forall cc t e, Forall P t -> (forall s, e = Some s -> P s) -> P (RIf cc t e).
Hypothesis HFor : forall cc b, Forall P b -> P (RFor cc b).
Hypothesis HBreak : P RBreak.
Hypothesis HBlock : forall l, Forall P l -> P (RBlock l).
Fixpoint rstmt_ind' (s : rstmt) : P s :=
  let fix all (l : list rstmt) : Forall P l :=
      match l with [] => Forall_nil _ | x :: l' => Forall_cons _ (rstmt_ind' x) (all l') end in
  let opt (o : option rstmt) : forall x, o = Some x -> P x :=
      match o return forall x, o = Some x -> P x with
      | Some s0 => fun x H => match H in _ = y return match y with Some x' => P x' | None => True end with eq_refl => rstmt_ind' s0 end
      | None => fun x H => match H in _ = y return match y with Some x' => P x' | None => True end with eq_refl => Logic.I end
      end in
  match s with
  | RCode c => HCode c
  | RIf cc t e => HIf cc t e (all t) (opt e)
  | RFor cc b => HFor cc b (all b)
  | RBreak => HBreak
  | RBlock l => HBlock l (all l)
  end.
End RstmtInd.

Fixpoint define_vars (lhs : list (Z * ty)) (st : cstate) : cres (cstate * code) :=
  (* lhs is given in reverse source order (the compiler iterates from the last to the first) *)
  match lhs with
  | [] => COk (st, [])
  | (x, t) :: lhs' =>
      match index_of Z.eqb x (cs_locals st) 0 with
      | Some _ => CErr EShadowing
      | None =>
          if is_param x then CErr EShadowing
          else if negb (supported t) then CErr EUnsupportedType
          else if len (cs_locals st) =? max_locals cfg then CErr ETooManyLocals
          else
            let id := len (cs_locals st) in
            let st1 := mkcs (cs_consts st) (cs_iconsts st) (cs_locals st ++ [x]) in
            do '(st2, c) <- define_vars lhs' st1 ;;
            COk (st2, I (pick (is_int t) KSetIntLocal KSetLocal) id :: c)
      end
  end.

Fixpoint assign_vars (lhs : list (Z * ty)) (st : cstate) : cres code :=
  match lhs with
  | [] => COk []
  | (x, t) :: lhs' =>
      match index_of Z.eqb x (cs_locals st) 0 with
      | None => CErr ENotLocal
      | Some id => do c <- assign_vars lhs' st ;; COk (I (pick (is_int t) KSetIntLocal KSetLocal) id :: c)
      end
  end.

Definition rblock_with (rs : stmt -> cstate -> cres (cstate * rstmt)) : list stmt -> cstate -> cres (cstate * list rstmt) :=
  fix go (l : list stmt) (st : cstate) : cres (cstate * list rstmt) :=
    match l with
    | [] => COk (st, [])
    | s :: l' => do '(st1, r) <- rs s st ;; do '(st2, rl) <- go l' st1 ;; COk (st2, r :: rl)
    end.

Fixpoint rstmt_of (s : stmt) (st : cstate) {struct s} : cres (cstate * rstmt) :=
  match s with
  | SReturn res =>
      if ce_retvoid env then COk (st, RCode [I0 KReturn]) else
      match res with
      | [] => CErr ENakedReturn
      | e :: _ =>
          if ident_name e =? name_true then COk (st, RCode [I0 KReturnTrue])
          else if ident_name e =? name_false then COk (st, RCode [I0 KReturnFalse])
          else do '(st1, c) <- cexpr e st ;;
               COk (st1, RCode (c ++ [I0 (pick (is_int (ty_of e)) KReturnIntTop KReturnTop)]))
      end
  | SAssign tok lhs nrhs rhs =>
      if negb (nrhs =? 1) then CErr EAssignShape else
      match tok with
      | ADefine => do '(st1, c) <- cexpr rhs st ;;
                   do '(st2, cs) <- define_vars (rev lhs) st1 ;; COk (st2, RCode (c ++ cs))
      | AAssign => do '(st1, c) <- cexpr rhs st ;;
                   do cs <- assign_vars (rev lhs) st1 ;; COk (st1, RCode (c ++ cs))
      | _ => CErr EAssignShape
      end
  | SIncDec x inc =>
      match index_of Z.eqb x (cs_locals st) 0 with
      | None => CErr ENotLocal
      | Some id => COk (st, RCode [I (pick inc KIncLocal KDecLocal) id])
      end
  | SIf init c t e =>
      do '(st0, ri) <- match init with
                       | None => COk (st, [])
                       | Some i => do '(st', r) <- rstmt_of i st ;; COk (st', [r])
                       end ;;
      do '(st1, cc) <- cexpr c st0 ;;
      do '(st2, rt) <- rblock_with rstmt_of t st1 ;;
      match e with
      | None => COk (st2, RBlock (ri ++ [RIf cc rt None]))
      | Some e' => do '(st3, re) <- rstmt_of e' st2 ;; COk (st3, RBlock (ri ++ [RIf cc rt (Some re)]))
      end
  | SFor init c post body =>
      match c, init, post with
      | Some c', None, None =>
          (* the body is emitted before the condition *)
          do '(st1, rb) <- rblock_with rstmt_of body st ;;
          do '(st2, cc) <- cexpr c' st1 ;;
          COk (st2, RFor (Some cc) rb)
      | None, None, None =>
          do '(st1, rb) <- rblock_with rstmt_of body st ;; COk (st1, RFor None rb)
      | _, _, _ => CErr ECStyleFor
      end
  | SBreak => COk (st, RBreak)
  | SExpr e =>
      match e with
      | ECall _ t _ _ => match t with
                         | TVoid => do '(st1, c) <- cexpr e st ;; COk (st1, RCode c)
                         | _ => CErr ENotVoidStmt
                         end
      | _ => CErr ECantCompile
      end
  | SBlock l => do '(st1, rl) <- rblock_with rstmt_of l st ;; COk (st1, RBlock rl)
  | SBad => CErr ECantCompile
  end.

Definition rblock := rblock_with rstmt_of.

(* ---------- lastOp after a statement ---------- *)
Definition bound (l : option opkind) : option opkind := if bind_resets_last cfg then None else l.
Definition last_code (c : code) (l : option opkind) : option opkind :=
  match rev c with i :: _ => Some (ikind i) | [] => l end.
Definition uncond_opt (l : option opkind) : bool := match l with Some k => is_uncond cfg k | None => false end.

Definition last_block_with (ls : rstmt -> option opkind -> option opkind) : list rstmt -> option opkind -> option opkind :=
  fix go (l : list rstmt) (o : option opkind) : option opkind :=
    match l with [] => o | s :: l' => go l' (ls s o) end.

Fixpoint last_s (s : rstmt) (o : option opkind) {struct s} : option opkind :=
  match s with
  | RCode c => last_code c o
  | RIf cc t None => bound (last_block_with last_s t (Some KJumpFalse))
  | RIf cc t (Some e) =>
      let l1 := last_block_with last_s t (Some KJumpFalse) in
      let l2 := if uncond_opt l1 then l1 else Some KJump in
      bound (last_s e (bound l2))
  | RFor (Some _) b => bound (Some KJumpTrue)
  | RFor None b => bound (Some KJump)
  | RBreak => Some KJump
  | RBlock l => last_block_with last_s l o
  end.
Definition last_block := last_block_with last_s.

(* the peephole test of compileIfStmt: the then-branch ended in an unconditional jump *)
Definition then_closed (t : list rstmt) : bool := uncond_opt (last_block t (Some KJumpFalse)).

(* ---------- layout ---------- *)
Definition genblock_with (g : rstmt -> Z -> code) : list rstmt -> Z -> code :=
  fix go (l : list rstmt) (k : Z) : code :=
    match l with
    | [] => []
    | s :: l' => let rest := go l' k in g s (k + size rest) ++ rest
    end.

Fixpoint gen (s : rstmt) (k : Z) {struct s} : code :=
  match s with
  | RCode c => c
  | RIf cc t None =>
      let ct := genblock_with gen t k in
      cc ++ [I KJumpFalse (3 + size ct)] ++ ct
  | RIf cc t (Some e) =>
      let ce := gen e k in
      if then_closed t then
        let ct := genblock_with gen t (k + size ce) in
        cc ++ [I KJumpFalse (3 + size ct)] ++ ct ++ ce
      else
        let ct := genblock_with gen t (k + 3 + size ce) in
        cc ++ [I KJumpFalse (3 + size ct + 3)] ++ ct ++ [I KJump (3 + size ce)] ++ ce
  | RFor (Some cc) b =>
      let cb := genblock_with gen b (size cc + 3) in
      [I KJump (3 + size cb)] ++ cb ++ cc ++ [I KJumpTrue (- (size cb + size cc))]
  | RFor None b =>
      let cb := genblock_with gen b 3 in
      cb ++ [I KJump (- size cb)]
  | RBreak => [I KJump (3 + k)]
  | RBlock l => genblock_with gen l k
  end.
Definition genblock := genblock_with gen.

End WithConfig.

(* ---------- functions ---------- *)
Record cfunc := mkcfunc {
  cf_code : code;
  cf_consts : list bytes;
  cf_iconsts : list Z;
  cf_nobj : Z;
  cf_nint : Z
}.

(* parameters are numbered per stack in declaration order; the name maps keep the last index of a repeated
   (blank) name *)
Fixpoint split_params (ps : list (Z * ty)) (op ip : list (Z * Z)) (nobj nint : Z)
  : cres (list (Z * Z) * list (Z * Z) * Z * Z) :=
  match ps with
  | [] => COk (op, ip, nobj, nint)
  | (x, t) :: ps' =>
      if negb (supported t) then CErr EUnsupportedType
      else if is_int t then split_params ps' op (map_set ip x nint) nobj (nint + 1)
      else split_params ps' (map_set op x nobj) ip (nobj + 1) nint
  end.

Definition jumps_fit (c : code) : bool :=
  forallb (fun i => match operand_of (ikind i) with
                    | OI16 => (-32768 <=? iarg i) && (iarg i <=? 32767)
                    | _ => true end) c.

Definition compile_fun (cfg : config) (f : fundecl) : cres cfunc :=
  do rt <- match fd_results f with
           | [] => COk TVoid
           | [t] => COk t
           | _ => CErr EMultiResult
           end ;;
  if negb (supported rt) then CErr EUnsupportedType else
  do '(op, ip, nobj, nint) <- split_params (fd_params f) [] [] 0 0 ;;
  (* a parameter is addressed by an 8-bit operand *)
  if (256 <? nobj) || (256 <? nint) then CErr ETooManyParams else
  let env := mkce op ip (ty_eqb rt TVoid) in
  do '(st, rb) <- rblock cfg env (fd_body f) (mkcs [] [] []) ;;
  let c := genblock cfg rb 0 ++ (if ty_eqb rt TVoid then [I0 KReturn] else []) in
  if negb (jumps_fit c) then CErr ETooBig else
  COk (mkcfunc c (cs_consts st) (cs_iconsts st) nobj nint).

Fixpoint compile_prog (cfg : config) (p : program) : cres (list cfunc) :=
  match p with
  | [] => COk []
  | f :: p' => do c <- compile_fun cfg f ;; do cs <- compile_prog cfg p' ;; COk (c :: cs)
  end.
