(* Decidable guards on source programs used by the partial theorems and by the check's known-finding attribution. *)
From Coq Require Import List ZArith Bool.
From RG.Base Require Import GoSlice.
From RG.Quasigo Require Import Source.
Import ListNotations.
Local Open Scope Z_scope.

(* ---- the junk left by || and && ----
   compileOr/compileAnd emit  X; Dup; JumpTrue/JumpFalse end; Y; end:  -- when the jump is not taken the
   duplicated value of X stays on the object stack under the value of Y. The junk is harmless unless an operand
   of an enclosing operation is waiting on the object stack beneath it: then the consumer pops the junk instead
   of that operand. [safe e]: no || / && occurs in an operand that is evaluated while an object-stack operand of
   an enclosing operation of [e] is pending. *)

Definition on_obj_stack (e : expr) : bool := match ty_of e with TInt => false | _ => true end.

Definition all_with (f : expr -> bool) : list expr -> bool :=
  fix go (l : list expr) : bool := match l with [] => true | x :: l' => f x && go l' end.
Definition opt_with (f : expr -> bool) (o : option expr) : bool := match o with None => true | Some x => f x end.

(* (both guards also say that the blank identifier is never read: Go's type checker rejects such a program; the
   proofs use it to ignore blank parameters, which share one name) *)
Fixpoint no_logic (e : expr) : bool :=
  match e with
  | EIdent x _ => negb (x =? name_blank)
  | EConst _ _ | EUnaryBad | EBad => true
  | EParen x | ENot x | ESelector _ _ x => no_logic x
  | EBinary op _ x y => match op with OLor | OLand => false | _ => no_logic x && no_logic y end
  | ESlice _ x lo hi _ => no_logic x && opt_with no_logic lo && opt_with no_logic hi
  | ECall _ _ recv args => opt_with no_logic recv && all_with no_logic args
  end.

Definition is_nil_ident (e : expr) : bool := ident_name e =? name_nil.

(* argument number i is boxed (variadic tail starting at vi, 0 = no tail) *)
Definition boxed (vi i : Z) : bool := negb (vi =? 0) && (vi <=? i).

(* operands in evaluation order; [pend] = an earlier operand sits on the object stack *)
Definition safe_seq_with (sf : expr -> bool) : list expr -> bool -> Z -> Z -> bool :=
  fix seq (l : list expr) (pend : bool) (i vi : Z) : bool :=
    match l with
    | [] => true
    | x :: l' => (if pend then no_logic x else sf x) && seq l' (pend || on_obj_stack x || boxed vi i) (i + 1) vi
    end.

Fixpoint safe (e : expr) : bool :=
  match e with
  | EIdent x _ => negb (x =? name_blank)
  | EConst _ _ | EUnaryBad | EBad => true
  | EParen x | ENot x | ESelector _ _ x => safe x
  | EBinary op _ x y =>
      match op with
      | OLor | OLand => safe x && safe y
      | OEql | ONeq =>
          if is_nil_ident x then safe y else if is_nil_ident y then safe x
          else safe x && (if on_obj_stack x then no_logic y else safe y)
      | _ => safe x && (if on_obj_stack x then no_logic y else safe y)
      end
  | ESlice _ x lo hi _ => safe x && opt_with no_logic lo && opt_with no_logic hi
  | ECall f _ recv args =>
      let vi := match f with FNative _ v => v | _ => 0 end in
      match recv with
      | None => safe_seq_with safe args false 0 vi
      | Some r => safe r && safe_seq_with safe args (on_obj_stack r) 0 vi
      end
  end.
Definition safe_seq := safe_seq_with safe.

(* `return true` / `return false` are compiled by name: the names must denote the predeclared constants *)
Definition ret_wf (e : expr) : bool :=
  if ident_name e =? name_true then match e with EConst _ (CBool true) => true | _ => false end
  else if ident_name e =? name_false then match e with EConst _ (CBool false) => true | _ => false end
  else true.

Fixpoint nodup_names (l : list (Z * ty)) : bool :=
  match l with [] => true | (x, _) :: l' => negb (existsb (fun '(y, _) => x =? y) l') && nodup_names l' end.

Lemma nodup_names_NoDup l : nodup_names l = true -> NoDup (map fst l).
Proof.
  induction l as [|[x t] l IH]; cbn [nodup_names map fst]; intros H; [constructor|].
  apply andb_prop in H as [H1 H2]. constructor; [|auto]. intros Hi. apply negb_true_iff in H1.
  apply in_map_iff in Hi as ([y u] & E & Hi). cbn [fst] in E. subst y.
  assert (existsb (fun '(y, _) => x =? y) l = true); [|congruence].
  apply existsb_exists. exists (x, u). split; [exact Hi|apply Z.eqb_refl].
Qed.

(* parameter names: distinct, except that the blank name may repeat *)
Fixpoint nodup_nonblank (l : list (Z * ty)) : bool :=
  match l with
  | [] => true
  | (x, _) :: l' => ((x =? name_blank) || negb (existsb (fun '(y, _) => x =? y) l')) && nodup_nonblank l'
  end.

Inductive NoDupNB : list Z -> Prop :=
| NB_nil : NoDupNB []
| NB_blank l : NoDupNB l -> NoDupNB (name_blank :: l)
| NB_cons x l : x <> name_blank -> ~ In x l -> NoDupNB l -> NoDupNB (x :: l).

Lemma nodup_nonblank_NoDupNB l : nodup_nonblank l = true -> NoDupNB (map fst l).
Proof.
  induction l as [|[x t] l IH]; cbn [nodup_nonblank map fst]; intros H; [constructor|].
  apply andb_prop in H as [H1 H2]. destruct (Z.eqb_spec x name_blank) as [->|Hne].
  - apply NB_blank. auto.
  - cbn [orb] in H1. apply NB_cons; [exact Hne| |auto]. intros Hi. apply negb_true_iff in H1.
    apply in_map_iff in Hi as ([y u] & E & Hi). cbn [fst] in E. subst y.
    assert (existsb (fun '(y, _) => x =? y) l = true); [|congruence].
    apply existsb_exists. exists (x, u). split; [exact Hi|apply Z.eqb_refl].
Qed.

Definition safe_opt (o : option expr) : bool := match o with None => true | Some e => safe e end.

Fixpoint safe_stmt (s : stmt) : bool :=
  let fix all (l : list stmt) : bool := match l with [] => true | x :: l' => safe_stmt x && all l' end in
  let opt (o : option stmt) : bool := match o with None => true | Some x => safe_stmt x end in
  match s with
  | SReturn res => forallb safe res && forallb ret_wf res
  | SAssign tok lhs _ rhs =>
      (* a plain assignment (a, b = f()) writes distinct variables: the machine stores the values last-to-first, Go
         first-to-last (for `:=` the compiler itself rejects a repeated name) *)
      safe rhs && negb (match lhs with [] => true | _ => false end) && match tok with AAssign => nodup_names lhs | _ => true end
  | SIncDec _ _ | SBreak | SBad => true
  | SIf init c t e => opt init && safe c && all t && opt e
  | SFor init c post body => opt init && safe_opt c && opt post && all body
  | SExpr e => safe e
  | SBlock l => all l
  end.

Definition safe_fun (f : fundecl) : bool := forallb safe_stmt (fd_body f).

(* return statements carry a value exactly when the function has a result *)
Fixpoint rets_ok (void : bool) (s : stmt) : bool :=
  let fix all (l : list stmt) : bool := match l with [] => true | x :: l' => rets_ok void x && all l' end in
  let opt (o : option stmt) : bool := match o with None => true | Some x => rets_ok void x end in
  match s with
  | SReturn res => if void then match res with [] => true | _ => false end else match res with [] => false | _ => true end
  | SIf init _ t e => opt init && all t && opt e
  | SFor init _ post body => opt init && opt post && all body
  | SBlock l => all l
  | _ => true
  end.
Definition rets_ok_fun (f : fundecl) : bool :=
  forallb (fun t => negb (ty_eqb t TVoid)) (fd_results f) &&
  forallb (rets_ok (match fd_results f with [] => true | _ => false end)) (fd_body f).

(* ---- user functions called by a function ---- *)
Fixpoint calls_of_expr (e : expr) : list Z :=
  let fix all (l : list expr) : list Z := match l with [] => [] | x :: l' => calls_of_expr x ++ all l' end in
  let opt (o : option expr) : list Z := match o with None => [] | Some x => calls_of_expr x end in
  match e with
  | EConst _ _ | EIdent _ _ | EUnaryBad | EBad => []
  | EParen x | ENot x | ESelector _ _ x => calls_of_expr x
  | EBinary _ _ x y => calls_of_expr x ++ calls_of_expr y
  | ESlice _ x lo hi _ => calls_of_expr x ++ opt lo ++ opt hi
  | ECall f _ recv args => (match f with FUser id _ => [id] | _ => [] end) ++ opt recv ++ all args
  end.

Fixpoint calls_of_stmt (s : stmt) : list Z :=
  let fix all (l : list stmt) : list Z := match l with [] => [] | x :: l' => calls_of_stmt x ++ all l' end in
  let opt (o : option stmt) : list Z := match o with None => [] | Some x => calls_of_stmt x end in
  match s with
  | SReturn res => flat_map calls_of_expr res
  | SAssign _ _ _ rhs => calls_of_expr rhs
  | SIncDec _ _ | SBreak | SBad => []
  | SIf init c t e => opt init ++ calls_of_expr c ++ all t ++ opt e
  | SFor init c post body => opt init ++ (match c with Some c' => calls_of_expr c' | None => [] end) ++ opt post ++ all body
  | SExpr e => calls_of_expr e
  | SBlock l => all l
  end.

Definition calls_of_fun (f : fundecl) : list Z := flat_map calls_of_stmt (fd_body f).

Fixpoint nthz_fd (p : program) (id : Z) {struct p} : option fundecl :=
  match p with
  | [] => None
  | f :: p' => if id =? 0 then Some f else nthz_fd p' (id - 1)
  end.

(* functions reachable from function id (callees have smaller numbers, so [fuel] = id + 1 suffices) *)
Fixpoint reachable (p : program) (fuel : nat) (id : Z) : list Z :=
  match fuel with
  | O => [id]
  | S f => id :: match nthz_fd p id with
                 | Some fd => flat_map (reachable p f) (calls_of_fun fd)
                 | None => []
                 end
  end.

(* some function reachable from [id] contains an unsafe || / && *)
Definition reaches_unsafe (p : program) (id : Z) : bool :=
  existsb (fun j => match nthz_fd p j with Some fd => negb (safe_fun fd) | None => false end)
          (reachable p (S (Z.to_nat id)) id).
