(* Compiled statements fail when the source semantics panics (one frame of the VM). *)
From Coq Require Import List ZArith Bool Lia.
From RG.Base Require Import Outcome GoInt GoSlice.
From RG.Quasigo Require Import Source Bytecode Compile VM Sem Guards VMLemmas CompileLemmas SemLemmas NativeLemmas ExprCorrect StmtCorrect ExprPanic.
Import ListNotations.
Local Open Scope Z_scope.

Section FrameP.
Variable cfg : config.
Variable funcs : list vfunc.
Variable nat_fun : Z -> list value -> option (list value).
Variable callf : Z -> list value -> eres (option value).
Variable env : cenv.
Variable fn : vfunc.
Variable C : code.
Hypothesis Hfetch : forall pc i, instr_at C pc = Some i -> vf_fetch fn pc = Some i.
Variables (B : list value) (IB : list Z) (top itop : Z) (K : list (frame * opkind)).
Hypothesis Hcall : call_ok cfg funcs nat_fun callf.
Hypothesis Hcallp : call_pan cfg funcs nat_fun callf.
Variable FL : list Z.
Hypothesis HFL : fl_ok cfg env FL.
Hypothesis Hsound : uncond_sound cfg = true.
Hypothesis Hbind : bind_resets_last cfg = true.

Notation star := (star cfg funcs nat_fun).
Notation fails := (fails cfg funcs nat_fun).
Notation S := (ExprCorrect.S fn B IB top itop K).
Notation pools_ok := (pools_ok fn).
Notation params_ok := (params_ok env B IB top itop).
Notation ginv := (ginv cfg FL).
Notation in_fl := (in_fl FL).
Notation exec := (exec (nat_sig cfg) nat_fun callf).
Notation eval := (eval (nat_sig cfg) nat_fun callf).
Notation expr_correct := (expr_correct cfg funcs nat_fun callf env fn C Hfetch B IB top itop K Hcall).
Notation expr_panics := (expr_panics cfg funcs nat_fun callf env fn C Hfetch B IB top itop K Hcall Hcallp).
Notation calls_pan := (calls_pan cfg funcs nat_fun callf env fn C Hfetch B IB top itop K Hcall Hcallp).
Notation stmt_correct := (stmt_correct cfg funcs nat_fun callf env fn C Hfetch B IB top itop K Hcall FL HFL Hsound Hbind).
Notation block_ok := (block_ok cfg funcs nat_fun callf env fn C B IB top itop K FL).
Notation post := (post cfg funcs nat_fun env fn B IB top itop K FL).
Notation fetch_at := (fetch_at fn C Hfetch).

Ltac step_at Hc :=
  apply star_one; unfold step, ExprCorrect.S; cbn [st_fr fr_fn fr_pc st_objs st_ints st_vlen st_callers fr_locals fr_ilocals fr_top fr_itop];
  rewrite (fetch_at _ _ _ Hc); cbn [ikind iarg].
Ltac pc_eq := unfold ExprCorrect.S; f_equal; f_equal; f_equal; lia.

Definition stmt_pan (f : nat) : Prop := forall s st st' rs, rstmt_of cfg env s st = COk (st', rs) -> in_fl st' -> pools_ok st' ->
  safe_stmt s = true -> rets_ok (ce_retvoid env) s = true ->
  forall k pc, code_at C pc (gen cfg rs k) ->
  forall sto L IL, ginv sto L IL -> params_ok sto ->
  forall w, exec f s sto = EPanic w ->
  forall X XI vl, fails (S pc L IL X XI vl) w.

Lemma rets_all void l : (fix all (l0 : list stmt) : bool := match l0 with [] => true | x :: l' => rets_ok void x && all l' end) l = forallb (rets_ok void) l.
Proof. induction l as [|a l IH]; [reflexivity|]. cbn [forallb]. now rewrite IH. Qed.

Lemma block_pan f (IH : stmt_pan f) : forall l st st' rl, rblock cfg env l st = COk (st', rl) -> in_fl st' -> pools_ok st' ->
  forallb safe_stmt l = true -> forallb (rets_ok (ce_retvoid env)) l = true ->
  forall k pc, code_at C pc (genblock cfg rl k) ->
  forall sto L IL, ginv sto L IL -> params_ok sto ->
  forall w, block_with (exec f) l sto = EPanic w ->
  forall X XI vl, fails (S pc L IL X XI vl) w.
Proof.
  induction l as [|s l IHl]; intros st st' rl Hr Hfl Hpools Hsafe Hrets k pc Hat sto L IL Hinv Hpar w He X XI vl.
  - cbn in He. discriminate.
  - cbn in Hr. cinv Hr. destruct a as [st1 r]. cinv Hrb. destruct a as [st2 rl2]. inversion Hrbb; subst. clear Hrbb.
    cbn [forallb] in Hsafe, Hrets. apply andb_prop in Hsafe as [Hss Hsl]. apply andb_prop in Hrets as [Hrs Hrl].
    assert (Hle2 : st_le st1 st') by (eapply rblock_mono; [apply Forall_forall; intros; apply rstmt_mono|exact Hrba]).
    rewrite genblock_cons in *. cbn [block_with] in He. pinv He o1.
    + eapply IH; eauto using code_at_app_l, in_fl_le. eapply pools_ok_le; [exact (proj1 Hle2)|exact Hpools].
    + destruct o1 as [sto1|sto1|v]; try discriminate.
      pose proof (stmt_correct f s _ _ _ Hra (in_fl_le _ _ _ Hle2 Hfl) (pools_ok_le _ _ _ (proj1 Hle2) Hpools) Hss _ _ (code_at_app_l _ _ _ _ Hat) _ _ _ Hinv Hpar _ Hea X XI vl) as H1.
      cbn [StmtCorrect.post] in H1. destruct H1 as (J1 & L1 & IL1 & vl1 & Hs1 & Hinv1 & Hpar1).
      eapply fails_star; [exact Hs1|]. apply code_at_app_r in Hat. eapply IHl; eauto.
Qed.

Lemma forallb_all l : (fix all (l0 : list stmt) : bool := match l0 with [] => true | x :: l' => safe_stmt x && all l' end) l = forallb safe_stmt l.
Proof. induction l as [|a l IH]; [reflexivity|]. cbn [forallb]. now rewrite IH. Qed.

Lemma define_no_panic lhs sto vs w : (match assign_all sto lhs vs with Some st' => EOk (ONormal st') | None => EStuck end) <> EPanic w.
Proof. destruct (assign_all sto lhs vs); discriminate. Qed.

(* straight-line statements: the panic can only come from the expression *)
Lemma simple_pan f s : match s with SReturn _ | SAssign _ _ _ _ | SExpr _ | SIncDec _ _ | SBreak | SBad => True | _ => False end ->
  forall st st' rs, rstmt_of cfg env s st = COk (st', rs) -> in_fl st' -> pools_ok st' ->
  safe_stmt s = true -> rets_ok (ce_retvoid env) s = true ->
  forall k pc, code_at C pc (gen cfg rs k) ->
  forall sto L IL, ginv sto L IL -> params_ok sto ->
  forall w, exec (Datatypes.S f) s sto = EPanic w ->
  forall X XI vl, fails (S pc L IL X XI vl) w.
Proof.
  intros Hkind st st' rs Hr Hfl Hpools Hsafe Hrets k pc Hat sto L IL Hinv Hpar w He X XI vl.
  destruct s as [res|tok lhs nrhs rhs|x inc| | | |e| | ]; try contradiction; cbn [rstmt_of] in Hr; cbn [Sem.exec] in He; cbn [safe_stmt rets_ok] in *.
  - (* return *)
    destruct (ce_retvoid env) eqn:Evoid.
    { destruct res; [discriminate|discriminate]. }
    destruct res as [|e res]; [discriminate|]. pinv He v; [|discriminate].
    apply andb_prop in Hsafe as [Hsafe Hwf]. cbn [forallb] in Hsafe, Hwf. apply andb_prop in Hsafe as [Hse _]. apply andb_prop in Hwf as [Hwe _]. unfold ret_wf in Hwe.
    destruct (ident_name e =? name_true) eqn:Et.
    { destruct e as [id c| | | | | | | | | ]; try discriminate. destruct c; discriminate. }
    destruct (ident_name e =? name_false) eqn:Ef.
    { destruct e as [id c| | | | | | | | | ]; try discriminate. destruct c; discriminate. }
    cinv Hr. destruct a as [st1 c]. inversion Hrb; subst. clear Hrb. cbn [gen] in *.
    pose proof (in_fl_le _ _ _ (cexpr_le env _ _ _ _ Hra) Hfl) as Hfl0.
    eapply (expr_panics e); eauto using code_at_app_l. exact (ginv_locals_ok _ _ _ _ _ _ _ HFL Hfl0 Hinv).
  - (* assignment *)
    apply andb_prop in Hsafe as [Hsr _]. apply andb_prop in Hsr as [Hsr _].
    destruct (negb (nrhs =? 1)); [discriminate|].
    pinv He vs.
    2:{ exfalso. destruct tok, lhs as [|[x t] [|]], vs as [|v [|]]; try discriminate;
          try (exact (define_no_panic _ _ _ _ Heb));
          try (destruct (store_get sto x) as [[| | | | |]|], v; discriminate). }
    (* the right-hand side panics *)
    assert (Hrhs : forall st1 c, cexpr env rhs st = COk (st1, c) -> in_fl st1 -> pools_ok st1 ->
              forall pc0, code_at C pc0 c -> fails (S pc0 L IL X XI vl) w).
    { intros st1 c Hc Hfl1 Hp1 pc0 Hat0. pose proof (in_fl_le _ _ _ (cexpr_le env _ _ _ _ Hc) Hfl1) as Hfl0.
      pose proof (ginv_locals_ok _ _ _ _ _ _ _ HFL Hfl0 Hinv) as Hloc.
      unfold eval_rhs in Hea. destruct (length lhs) as [|[|n]].
      - destruct rhs; try discriminate. pinv Hea rs0; [|destruct (length rs0 =? 0)%nat; discriminate].
        eapply (calls_pan _ _ _ _ (fun e _ => expr_panics e) (proj2 (Forall_forall _ _) (fun e _ => expr_panics e))); eauto.
      - pinv Hea v; [|discriminate]. eapply (expr_panics rhs); eauto.
      - destruct rhs; try discriminate. pinv Hea rs0; [|destruct (length rs0 =? Datatypes.S (Datatypes.S n))%nat; discriminate].
        eapply (calls_pan _ _ _ _ (fun e _ => expr_panics e) (proj2 (Forall_forall _ _) (fun e _ => expr_panics e))); eauto. }
    destruct tok; try discriminate.
    + cinv Hr. destruct a as [st1 c]. cinv Hrb. destruct a as [st2 cs]. inversion Hrbb; subst. clear Hrbb. cbn [gen] in *.
      pose proof (define_vars_le _ _ _ _ _ _ Hrba) as Hle2.
      eapply Hrhs; eauto using code_at_app_l, in_fl_le. eapply pools_ok_le; [exact (proj1 Hle2)|exact Hpools].
    + cinv Hr. destruct a as [st1 c]. cinv Hrb. inversion Hrbb; subst. clear Hrbb. cbn [gen] in *.
      eapply Hrhs; eauto using code_at_app_l.
  - (* x++ *) destruct (store_get sto x) as [[| | | | |]|]; discriminate.
  - discriminate.
  - (* call statement *)
    destruct e as [| | | | | | |fc t recv args| | ]; try discriminate. destruct t; try discriminate.
    cinv Hr. destruct a as [st1 c]. inversion Hrb; subst. clear Hrb. cbn [gen] in *.
    pinv He rs0; [|destruct rs0; discriminate].
    pose proof (in_fl_le _ _ _ (cexpr_le env _ _ _ _ Hra) Hfl) as Hfl0.
    eapply (calls_pan _ _ _ _ (fun e _ => expr_panics e) (proj2 (Forall_forall _ _) (fun e _ => expr_panics e))); eauto.
    exact (ginv_locals_ok _ _ _ _ _ _ _ HFL Hfl0 Hinv).
  - discriminate.
Qed.

Lemma rif_pan f (IH : stmt_pan f) c t e : forall st0 st1 st2 st3 cc rt re,
  cexpr env c st0 = COk (st1, cc) -> rblock cfg env t st1 = COk (st2, rt) ->
  match e, re with
  | None, None => st3 = st2
  | Some e', Some re' => rstmt_of cfg env e' st2 = COk (st3, re')
  | _, _ => False
  end ->
  in_fl st3 -> pools_ok st3 -> safe c = true -> forallb safe_stmt t = true -> match e with Some e' => safe_stmt e' = true | None => True end ->
  forallb (rets_ok (ce_retvoid env)) t = true -> match e with Some e' => rets_ok (ce_retvoid env) e' = true | None => True end ->
  forall k pc, code_at C pc (gen cfg (RIf cc rt re) k) ->
  forall sto L IL, ginv sto L IL -> params_ok sto ->
  forall w, (eval sto c = EPanic w \/
             exists b, eval sto c = EOk (VBool b) /\ (if b then block_with (exec f) t sto else exec_opt_with (exec f) e sto) = EPanic w) ->
  forall X XI vl, fails (S pc L IL X XI vl) w.
Proof.
  intros st0 st1 st2 st3 cc rt re Hc Hrt Hre Hfl Hpools Hsc Hst Hse Hrt' Hre' k pc Hat sto L IL Hinv Hpar w Hw X XI vl.
  assert (Hle1 : st_le st0 st1) by (eapply cexpr_le; eauto).
  assert (Hle2 : st_le st1 st2) by (eapply rblock_mono; [apply Forall_forall; intros; apply rstmt_mono|exact Hrt]).
  assert (Hle3 : st_le st2 st3).
  { destruct e as [e'|], re as [re'|]; try contradiction; [eapply rstmt_mono; eauto|subst; apply st_le_refl]. }
  pose proof (in_fl_le _ _ _ Hle3 Hfl) as Hfl2. pose proof (in_fl_le _ _ _ Hle2 Hfl2) as Hfl1. pose proof (in_fl_le _ _ _ Hle1 Hfl1) as Hfl0.
  pose proof (pools_ok_le _ _ _ (proj1 Hle3) Hpools) as Hp2. pose proof (pools_ok_le _ _ _ (proj1 Hle2) Hp2) as Hp1.
  pose proof (ginv_locals_ok _ _ _ _ _ _ _ HFL Hfl0 Hinv) as Hloc.
  (* every layout starts with the condition and the conditional jump *)
  assert (Hshape : exists d ct rest kt, gen cfg (RIf cc rt re) k = cc ++ [I KJumpFalse d] ++ ct ++ rest /\ ct = genblock cfg rt kt /\
             (forall e' re', e = Some e' -> re = Some re' -> exists mid, rest = mid ++ gen cfg re' k /\ d = 3 + size ct + size mid)).
  { cbn [gen]. fold (genblock cfg). destruct re as [re'|].
    - destruct (then_closed cfg rt).
      + eexists _, _, _, _. split; [reflexivity|]. split; [reflexivity|]. intros e' re'' _ E. inversion E; subst. exists []. split; [reflexivity|]. cbn [size]. lia.
      + eexists _, _, ([I KJump _] ++ gen cfg re' k), _. split; [reflexivity|]. split; [reflexivity|]. intros e' re'' _ E. inversion E; subst.
        exists [I KJump (3 + size (gen cfg re'' k))]. split; [reflexivity|]. cbn [size ikind width operand_of]. lia.
    - eexists _, _, [], _. split; [now rewrite app_nil_r|]. split; [reflexivity|]. intros e' re' _ E. discriminate. }
  destruct Hshape as (d & ct & rest & kt & Hg & Hct & Hrest). rewrite Hg in Hat.
  destruct Hw as [Hcp|(b & Hb & Hbr)].
  - eapply (expr_panics c); eauto using code_at_app_l.
  - destruct (expr_correct c _ _ _ Hc _ (code_at_app_l _ _ _ _ Hat) Hp1 _ _ _ Hloc Hpar Hsc _ Hb X XI vl) as (J & vl1 & Hs1 & _).
    cbn [push_o push_i] in Hs1. eapply fails_star; [exact Hs1|]. apply code_at_app_r in Hat.
    pose proof (code_at_cons_r _ _ _ _ Hat) as Hat1. cbn [ikind width operand_of] in Hat1.
    destruct b.
    + eapply fails_star; [step_at Hat; cbn [app]; reflexivity|].
      subst ct. eapply (block_pan f IH); eauto using code_at_app_l.
    + destruct e as [e'|]; [|cbn in Hbr; discriminate]. destruct re as [re'|]; [|contradiction]. cbn [exec_opt_with] in Hbr.
      destruct (Hrest e' re' eq_refl eq_refl) as (mid & -> & ->).
      eapply fails_star with (b := S (pc + size cc + 3 + size ct + size mid) L IL (J ++ X) XI vl1); [step_at Hat; cbn [app]; pc_eq|].
      apply code_at_app_r in Hat1. apply code_at_app_r in Hat1.
      eapply IH; eauto.
Qed.

Notation exec_for := (exec_for cfg nat_fun callf).

(* `for cond { body }`, entered at its continue label *)
Lemma loop_cond_pan c body (g0 : nat) (IH : forall g, (g <= g0)%nat -> stmt_pan g) : forall st st1 st2 rb cc,
  rblock cfg env body st = COk (st1, rb) -> cexpr env c st1 = COk (st2, cc) -> in_fl st2 -> pools_ok st2 ->
  forallb safe_stmt body = true -> safe c = true -> forallb (rets_ok (ce_retvoid env)) body = true ->
  forall pc, code_at C pc (gen cfg (RFor (Some cc) rb) 0) ->
  forall g, (g <= g0)%nat -> forall sto L IL X XI vl w, ginv sto L IL -> params_ok sto ->
  exec (Datatypes.S g) (SFor None (Some c) None body) sto = EPanic w ->
  fails (S (pc + 3 + size (genblock cfg rb (size cc + 3))) L IL X XI vl) w.
Proof.
  intros st st1 st2 rb cc Hrb Hcc Hfl Hpools Hsb Hsc Hrets pc Hat.
  assert (Hle2 : st_le st1 st2) by (eapply cexpr_le; eauto).
  pose proof (in_fl_le _ _ _ Hle2 Hfl) as Hfl1. pose proof (pools_ok_le _ _ _ (proj1 Hle2) Hpools) as Hp1.
  cbn [gen] in Hat. fold (genblock cfg) in Hat.
  set (cb := genblock cfg rb (size cc + 3)) in *.
  pose proof (code_at_cons_r _ _ _ _ Hat) as Hcb. cbn [ikind width operand_of] in Hcb.
  pose proof (code_at_app_r _ _ _ _ Hcb) as Hccat. pose proof (code_at_app_r _ _ _ _ Hccat) as Hj.
  induction g as [|g IHg]; intros Hg sto L IL X XI vl w Hinv Hpar He.
  - rewrite exec_for in He. pinv He go.
    + pinv Hea v; [|destruct v; discriminate].
      eapply (expr_panics c); eauto using code_at_app_l. exact (ginv_locals_ok _ _ _ _ _ _ _ HFL Hfl1 Hinv).
    + destruct go; cbn [negb] in Heb; [|discriminate]. destruct body; cbn in Heb; discriminate.
  - rewrite exec_for in He. pinv He go.
    + pinv Hea v; [|destruct v; discriminate].
      eapply (expr_panics c); eauto using code_at_app_l. exact (ginv_locals_ok _ _ _ _ _ _ _ HFL Hfl1 Hinv).
    + apply ebind_ok in Hea as (v & Hv & Hvb). destruct v as [|b| | | |]; try discriminate. inversion Hvb; subst b.
      destruct go; cbn [negb] in Heb; [|discriminate].
      destruct (expr_correct c _ _ _ Hcc _ (code_at_app_l _ _ _ _ Hccat) Hpools _ _ _ (ginv_locals_ok _ _ _ _ _ _ _ HFL Hfl1 Hinv) Hpar Hsc _ Hv X XI vl) as (J & vl1 & Hs & _).
      cbn [push_o push_i] in Hs.
      assert (Hback : star (S (pc + 3 + size cb) L IL X XI vl) (S (pc + 3) L IL (J ++ X) XI vl1)).
      { eapply star_trans; [exact Hs|]. step_at Hj. cbn [app]. pc_eq. }
      eapply fails_star; [exact Hback|].
      pinv Heb ob.
      * eapply (block_pan (Datatypes.S g) (IH _ Hg)); eauto using code_at_app_l.
      * destruct ob as [sto1|sto1|v]; try discriminate.
        pose proof (block_ok (Datatypes.S g) (stmt_correct (Datatypes.S g)) _ _ _ _ Hrb Hfl1 Hp1 Hsb _ _ (code_at_app_l _ _ _ _ Hcb) _ _ _ Hinv Hpar _ Heba (J ++ X) XI vl1) as Hb.
        fold cb in Hb. cbn [StmtCorrect.post] in Hb. destruct Hb as (J1 & L1 & IL1 & vl2 & Hs1 & Hinv1 & Hpar1).
        eapply fails_star; [exact Hs1|]. apply (IHg ltac:(lia) _ _ _ _ _ _ _ Hinv1 Hpar1 Hebb).
Qed.

Lemma loop_ever_pan body (g0 : nat) (IH : forall g, (g <= g0)%nat -> stmt_pan g) : forall st st1 rb,
  rblock cfg env body st = COk (st1, rb) -> in_fl st1 -> pools_ok st1 -> forallb safe_stmt body = true ->
  forallb (rets_ok (ce_retvoid env)) body = true ->
  forall pc, code_at C pc (gen cfg (RFor None rb) 0) ->
  forall g, (g <= g0)%nat -> forall sto L IL X XI vl w, ginv sto L IL -> params_ok sto ->
  exec (Datatypes.S g) (SFor None None None body) sto = EPanic w ->
  fails (S pc L IL X XI vl) w.
Proof.
  intros st st1 rb Hrb Hfl Hpools Hsb Hrets pc Hat.
  cbn [gen] in Hat. fold (genblock cfg) in Hat.
  set (cb := genblock cfg rb 3) in *.
  pose proof (code_at_app_r _ _ _ _ Hat) as Hj.
  induction g as [|g IHg]; intros Hg sto L IL X XI vl w Hinv Hpar He.
  - rewrite exec_for in He. cbn [ebind negb] in He. destruct body; cbn in He; discriminate.
  - rewrite exec_for in He. cbn [ebind negb] in He. pinv He ob.
    + eapply (block_pan (Datatypes.S g) (IH _ Hg)); eauto using code_at_app_l.
    + destruct ob as [sto1|sto1|v]; try discriminate.
      pose proof (block_ok (Datatypes.S g) (stmt_correct (Datatypes.S g)) _ _ _ _ Hrb Hfl Hpools Hsb _ _ (code_at_app_l _ _ _ _ Hat) _ _ _ Hinv Hpar _ Hea X XI vl) as Hb.
      fold cb in Hb. cbn [StmtCorrect.post] in Hb. destruct Hb as (J1 & L1 & IL1 & vl2 & Hs1 & Hinv1 & Hpar1).
      eapply fails_star; [exact Hs1|].
      eapply fails_star with (b := S pc L1 IL1 (J1 ++ X) XI vl2); [step_at Hj; pc_eq|].
      apply (IHg ltac:(lia) _ _ _ _ _ _ _ Hinv1 Hpar1 Heb).
Qed.

Theorem stmt_panics : forall f, stmt_pan f.
Proof.
  induction f as [f IHf] using lt_wf_ind.
  destruct f as [|f]; intros s st st' rs Hr Hfl Hpools Hsafe Hrets k pc Hat sto L IL Hinv Hpar w He X XI vl; [discriminate|].
  assert (IH : stmt_pan f) by (apply IHf; lia).
  destruct s as [res|tok lhs nrhs rhs|x inc|init c t e|init c post body| |e|l| ];
    try (eapply (simple_pan f); eauto; exact Logic.I).
  - (* if *)
    cbn [rstmt_of] in Hr. cinv Hr. destruct a as [st0 ri]. cinv Hrb. destruct a as [st1 cc]. cinv Hrbb. destruct a as [st2 rt].
    cbn [safe_stmt rets_ok] in Hsafe, Hrets. rewrite forallb_all in Hsafe. rewrite rets_all in Hrets.
    apply andb_prop in Hsafe as [Hsafe Hse]. apply andb_prop in Hsafe as [Hsafe Hst]. apply andb_prop in Hsafe as [Hsi Hsc].
    apply andb_prop in Hrets as [Hrets Hre']. apply andb_prop in Hrets as [Hri Hrt'].
    assert (Hshape : exists re, rs = RBlock (ri ++ [RIf cc rt re]) /\
               match e, re with None, None => st' = st2 | Some e', Some re' => rstmt_of cfg env e' st2 = COk (st', re') | _, _ => False end).
    { destruct e as [e'|].
      - cinv Hrbbb. destruct a as [st3 re]. inversion Hrbbbb; subst. exists (Some re). auto.
      - inversion Hrbbb; subst. exists None. auto. }
    destruct Hshape as (re & -> & Hre). clear Hrbbb.
    assert (Hle01 : st_le st0 st1) by (eapply cexpr_le; eauto).
    assert (Hle12 : st_le st1 st2) by (eapply rblock_mono; [apply Forall_forall; intros; apply rstmt_mono|exact Hrbba]).
    assert (Hle23 : st_le st2 st').
    { destruct e as [e'|], re as [re'|]; try contradiction; [eapply rstmt_mono; eauto|subst; apply st_le_refl]. }
    cbn [gen] in *. fold (genblock cfg) in *. rewrite genblock_app, genblock_one in *.
    assert (Hse' : match e with Some e' => safe_stmt e' = true | None => True end) by (destruct e; [exact Hse|exact Logic.I]).
    assert (Hre2 : match e with Some e' => rets_ok (ce_retvoid env) e' = true | None => True end) by (destruct e; [exact Hre'|exact Logic.I]).
    cbn [Sem.exec] in He.
    (* what happens after the init statement *)
    assert (Hrest : forall sto1 L1 IL1 X1 vl1 pc1, ginv sto1 L1 IL1 -> params_ok sto1 -> code_at C pc1 (gen cfg (RIf cc rt re) k) ->
              (let! v := eval sto1 c in let! b := as_bool v in if b then block_with (exec f) t sto1 else exec_opt_with (exec f) e sto1) = EPanic w ->
              fails (S pc1 L1 IL1 X1 XI vl1) w).
    { intros sto1 L1 IL1 X1 vl1 pc1 Hi1 Hp1 Hat1 Hw.
      eapply (rif_pan f IH c t e); eauto.
      pinv Hw v; [now left|]. right. pinv Hwb b; [destruct v; discriminate|].
      destruct v as [|b'| | | |]; try discriminate. inversion Hwba; subst b'. eauto. }
    destruct init as [si|].
    + cinv Hra. destruct a as [st9 r9]. inversion Hrab; subst. clear Hrab. cbn [exec_opt_with] in He.
      rewrite genblock_one in *.
      pose proof (in_fl_le _ _ _ (st_le_trans _ _ _ Hle01 (st_le_trans _ _ _ Hle12 Hle23)) Hfl) as Hfl0.
      pose proof (pools_ok_le _ _ _ (proj1 (st_le_trans _ _ _ Hle01 (st_le_trans _ _ _ Hle12 Hle23))) Hpools) as Hp0.
      pinv He oi.
      * eapply IH; eauto using code_at_app_l.
      * destruct oi as [sto1| |]; try discriminate.
        pose proof (stmt_correct f si _ _ _ Hraa Hfl0 Hp0 Hsi _ _ (code_at_app_l _ _ _ _ Hat) _ _ _ Hinv Hpar _ Hea X XI vl) as Hinit.
        cbn [StmtCorrect.post] in Hinit. destruct Hinit as (J0 & L0 & IL0 & vl0 & Hs0 & Hinv0 & Hpar0).
        eapply fails_star; [exact Hs0|]. apply code_at_app_r in Hat. eapply Hrest; eauto.
    + inversion Hra; subst. cbn [exec_opt_with ebind] in He. cbn [app genblock genblock_with size] in *. cbn [app] in Hat.
      eapply Hrest; eauto.
  - (* for *)
    cbn [rstmt_of] in Hr. cbn [safe_stmt rets_ok] in Hsafe, Hrets. rewrite forallb_all in Hsafe. rewrite rets_all in Hrets.
    destruct init; [destruct c, post; discriminate|]. destruct post; [destruct c; discriminate|].
    apply andb_prop in Hsafe as [Hsafe Hsb]. apply andb_prop in Hsafe as [Hsafe _]. apply andb_prop in Hsafe as [_ Hsc].
    cbn [andb] in Hrets.
    destruct c as [c'|].
    + cinv Hr. destruct a as [st1 rb]. cinv Hrb. destruct a as [st2 cc]. inversion Hrbb; subst. clear Hrbb.
      pose proof (loop_cond_pan c' body f (fun g Hg => IHf g ltac:(lia)) _ _ _ _ _ Hra Hrba Hfl Hpools Hsb Hsc Hrets pc Hat f (le_n _) sto L IL X XI vl w Hinv Hpar He) as Hloop.
      cbn [gen] in *. fold (genblock cfg) in *.
      eapply fails_star; [|exact Hloop]. step_at Hat. cbn [app]. pc_eq.
    + cinv Hr. destruct a as [st1 rb]. inversion Hrb; subst. clear Hrb.
      exact (loop_ever_pan body f (fun g Hg => IHf g ltac:(lia)) _ _ _ Hra Hfl Hpools Hsb Hrets pc Hat f (le_n _) sto L IL X XI vl w Hinv Hpar He).
  - (* block *)
    cbn [rstmt_of] in Hr. cinv Hr. destruct a as [st1 rl]. inversion Hrb; subst. clear Hrb.
    cbn [safe_stmt rets_ok] in Hsafe, Hrets. rewrite forallb_all in Hsafe. rewrite rets_all in Hrets. cbn [Sem.exec] in He. cbn [gen] in *. fold (genblock cfg) in *.
    eapply (block_pan f IH); eauto.
Qed.

End FrameP.
