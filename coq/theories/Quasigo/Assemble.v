(* The byte encoding: decoding the assembled bytes at an instruction boundary gives the instruction back (when its
   operand fits the 8/16-bit field), so the byte-level VM (eval as it is, reading fn.code) follows the
   instruction-level VM the correctness proofs reason about. *)
From Coq Require Import List ZArith Bool Lia.
From RG.Base Require Import Outcome GoInt GoSlice.
From RG.Quasigo Require Import Source Bytecode Compile VM Link VMLemmas.
Import ListNotations.
Local Open Scope Z_scope.

Section Enc.
Variable cfg : config.
Hypothesis Hnums : opnums_ok cfg = true.

Lemma kind_of_num k : kind_of_byte cfg (op_num cfg k) = Some k.
Proof.
  unfold opnums_ok in Hnums. apply andb_prop in Hnums as [_ Hd].
  rewrite forallb_forall in Hd.
  assert (Hall : In k all_kinds) by (destruct k; cbn; tauto).
  unfold kind_of_byte.
  destruct (find (fun k0 => op_num cfg k0 =? op_num cfg k) all_kinds) as [k'|] eqn:E.
  - apply find_some in E as [Hin Heq]. apply Z.eqb_eq in Heq.
    specialize (Hd _ Hin). rewrite forallb_forall in Hd. specialize (Hd _ Hall).
    apply orb_prop in Hd as [Hd|Hd]; [apply kind_eqb_eq in Hd; now subst|].
    apply negb_true_iff in Hd. apply Z.eqb_neq in Hd. congruence.
  - exfalso. pose proof (find_none _ _ E k Hall) as Hf. cbn beta in Hf. rewrite Z.eqb_refl in Hf. discriminate.
Qed.

Lemma op_num_byte k : 0 <= op_num cfg k < 256.
Proof.
  unfold opnums_ok in Hnums. apply andb_prop in Hnums as [Hr _]. rewrite forallb_forall in Hr.
  assert (Hall : In k all_kinds) by (destruct k; cbn; tauto).
  specialize (Hr _ Hall). apply andb_prop in Hr as [H1 H2]. apply Z.leb_le in H1. apply Z.ltb_lt in H2. lia.
Qed.

Lemma len_encode i : len (encode cfg i) = width (ikind i).
Proof. unfold encode, width. destruct (operand_of (ikind i)); reflexivity. Qed.

Lemma len_assemble c : len (assemble cfg c) = size c.
Proof. induction c as [|i c IH]; cbn [assemble size]; [reflexivity|]. rewrite len_app', len_encode, IH. reflexivity. Qed.

Lemma nthz_app_r {A} (a b : list A) i : 0 <= i -> nthz (a ++ b) (len a + i) = nthz b i.
Proof.
  intros Hi. unfold nthz. pose proof (len_nonneg' a).
  destruct (Z.ltb_spec (len a + i) 0); [lia|]. destruct (Z.ltb_spec i 0); [lia|].
  rewrite nth_error_app2 by (unfold len; lia). f_equal. unfold len. lia.
Qed.

Lemma sext16_enc a : -32768 <= a < 32768 -> sext16 (lo8 a + 256 * hi8 a) = a.
Proof.
  intros Ha. unfold lo8, hi8, sext16.
  assert (H16 : a mod 256 + 256 * ((a / 256) mod 256) = a mod 65536).
  { rewrite (Z.mod_eq a 256) by lia. rewrite (Z.mod_eq (a / 256) 256) by lia. rewrite Z.div_div by lia.
    rewrite (Z.mod_eq a 65536) by lia. change (256 * 256) with 65536. lia. }
  rewrite H16. destruct (Z.ltb_spec (a mod 65536) 32768) as [Hlt|Hge].
  - destruct (Z.lt_ge_cases a 0) as [Hn|Hp].
    + exfalso. assert (a mod 65536 = a + 65536). { symmetry. apply Z.mod_unique with (-1); lia. } lia.
    + apply Z.mod_small. lia.
  - destruct (Z.lt_ge_cases a 0) as [Hn|Hp].
    + assert (a mod 65536 = a + 65536). { symmetry. apply Z.mod_unique with (-1); lia. } lia.
    + exfalso. rewrite Z.mod_small in Hge by lia. lia.
Qed.

Lemma u16_enc a : 0 <= a < 65536 -> lo8 a + 256 * hi8 a = a.
Proof.
  intros Ha. unfold lo8, hi8. rewrite (Z.mod_small (a / 256)).
  - rewrite Z.add_comm. rewrite <- Z.div_mod by lia. reflexivity.
  - split; [apply Z.div_pos; lia|]. apply Z.div_lt_upper_bound; lia.
Qed.

Lemma decode_head i rest : encodable i = true -> decode_at cfg (encode cfg i ++ rest) 0 = Some i.
Proof.
  intros He. unfold decode_at, encode, encodable in *. destruct i as [k a]. cbn [ikind iarg] in *.
  destruct (operand_of k) eqn:Eo; cbn [app nthz Z.ltb Z.to_nat nth_error Z.compare]; rewrite kind_of_num, Eo.
  - apply Z.eqb_eq in He. now subst.
  - apply andb_prop in He as [H1 H2]. apply Z.leb_le in H1. apply Z.ltb_lt in H2.
    change (nthz (op_num cfg k :: lo8 a :: rest) (0 + 1)) with (Some (lo8 a)). cbn beta iota. unfold lo8. now rewrite Z.mod_small by lia.
  - apply andb_prop in He as [H1 H2]. apply Z.leb_le in H1. apply Z.ltb_lt in H2.
    change (nthz (op_num cfg k :: lo8 a :: hi8 a :: rest) (0 + 1)) with (Some (lo8 a)).
    change (nthz (op_num cfg k :: lo8 a :: hi8 a :: rest) (0 + 2)) with (Some (hi8 a)).
    cbn beta iota. now rewrite u16_enc by lia.
  - apply andb_prop in He as [H1 H2]. apply Z.leb_le in H1. apply Z.ltb_lt in H2.
    change (nthz (op_num cfg k :: lo8 a :: hi8 a :: rest) (0 + 1)) with (Some (lo8 a)).
    change (nthz (op_num cfg k :: lo8 a :: hi8 a :: rest) (0 + 2)) with (Some (hi8 a)).
    cbn beta iota. now rewrite sext16_enc by lia.
Qed.

Lemma decode_shift pre bs pc : 0 <= pc -> decode_at cfg (pre ++ bs) (len pre + pc) = decode_at cfg bs pc.
Proof.
  intros Hpc. unfold decode_at. rewrite nthz_app_r by lia.
  replace (len pre + pc + 1) with (len pre + (pc + 1)) by lia. replace (len pre + pc + 2) with (len pre + (pc + 2)) by lia.
  rewrite !nthz_app_r by lia. reflexivity.
Qed.

(* decoding the assembly at an instruction boundary *)
Theorem decode_assemble C1 i C2 : encodable i = true ->
  decode_at cfg (assemble cfg (C1 ++ i :: C2)) (size C1) = Some i.
Proof.
  intros He. induction C1 as [|j C1 IH]; cbn [app assemble size].
  - apply decode_head. exact He.
  - rewrite <- len_encode. rewrite decode_shift by apply size_nonneg. exact IH.
Qed.

Lemma instr_at_split C : forall pc i, instr_at C pc = Some i -> exists C1 C2, C = C1 ++ i :: C2 /\ size C1 = pc.
Proof.
  induction C as [|j C IH]; intros pc i H; cbn [instr_at] in H; [discriminate|].
  destruct (Z.eqb_spec pc 0).
  - inversion H; subst. exists [], C. auto.
  - destruct (pc <? width (ikind j)); [discriminate|]. destruct (IH _ _ H) as (C1 & C2 & -> & Hs).
    exists (j :: C1), C2. split; [reflexivity|]. cbn [size]. lia.
Qed.

(* the byte-level fetch refines the instruction-level fetch on encodable code *)
Theorem fetch_bytes_refines C : forallb encodable C = true ->
  forall pc i, instr_at C pc = Some i -> decode_at cfg (assemble cfg C) pc = Some i.
Proof.
  intros Hall pc i H. destruct (instr_at_split _ _ _ H) as (C1 & C2 & -> & <-).
  apply decode_assemble. rewrite forallb_forall in Hall. apply Hall. apply in_or_app. right. now left.
Qed.

End Enc.
