(* The operands of compiled code fit their encoding - as a consequence of the compiler having accepted the function.

   [Correct.compile_correct_partial] runs the VM on the *bytes* and therefore needs every operand to survive its
   8/16-bit encoding ([Correct.code_encodable], evaluated per program by the check so far). Here it is derived:
   constants, variadic lengths, jump distances and parameter counts are checked by the compiler (the model has the
   same checks), local slots are bounded by maxFuncLocals, and native / function IDs are 16-bit table positions in
   the source term ([ids_ok], a decidable property of the *source*, true of whatever the serialiser emits because the
   real tables are indexed by uint16).

     compile_fun_encodable   compile_fun cfg f = COk cf -> ids_ok_fun f = true -> code_encodable cf = true
     compile_correct_source_guard
                             the statement of compile_correct_partial with a guard on (configuration, source program)
                             only *)
From Coq Require Import List ZArith Bool Lia.
From RG.Base Require Import Outcome GoInt GoSlice.
From RG.Quasigo Require Import Source Bytecode Compile VM Sem Guards Link VMLemmas CompileLemmas FunCorrect Correct.
Import ListNotations.
Local Open Scope Z_scope.

(* ---------- IDs in the source term ---------- *)
Definition id16_ok (z : Z) : bool := (0 <=? z) && (z <? 65536).

Definition ids_ok_callee (f : callee) : bool :=
  match f with FNative id _ => id16_ok id | FUser id _ => id16_ok id | _ => true end.

Fixpoint ids_ok_expr (e : expr) : bool :=
  match e with
  | EConst _ _ | EIdent _ _ | EUnaryBad | EBad => true
  | EParen x | ENot x => ids_ok_expr x
  | ESelector nid _ x => (nid <? 65536) && ids_ok_expr x
  | EBinary _ _ x y => ids_ok_expr x && ids_ok_expr y
  | ESlice _ x lo hi _ =>
      ids_ok_expr x && match lo with Some l => ids_ok_expr l | None => true end
                    && match hi with Some h => ids_ok_expr h | None => true end
  | ECall f _ recv args =>
      ids_ok_callee f && match recv with Some r => ids_ok_expr r | None => true end && forallb ids_ok_expr args
  end.

Fixpoint ids_ok_stmt (s : stmt) : bool :=
  match s with
  | SReturn res => forallb ids_ok_expr res
  | SAssign _ _ _ rhs => ids_ok_expr rhs
  | SIncDec _ _ | SBreak | SBad => true
  | SIf init c t e =>
      match init with Some i => ids_ok_stmt i | None => true end && ids_ok_expr c && forallb ids_ok_stmt t
      && match e with Some x => ids_ok_stmt x | None => true end
  | SFor init c post body =>
      match init with Some i => ids_ok_stmt i | None => true end
      && match c with Some x => ids_ok_expr x | None => true end
      && match post with Some x => ids_ok_stmt x | None => true end && forallb ids_ok_stmt body
  | SExpr e => ids_ok_expr e
  | SBlock l => forallb ids_ok_stmt l
  end.

Definition ids_ok_fun (f : fundecl) : bool := forallb ids_ok_stmt (fd_body f).
Definition ids_ok (p : program) : bool := forallb ids_ok_fun p.

(* ---------- encodable, jump operands aside ---------- *)
Definition enc_nj (i : instr) : bool := match operand_of (ikind i) with OI16 => true | _ => encodable i end.
Definition cenc (c : code) : Prop := forallb enc_nj c = true.

Lemma cenc_nil : cenc []. Proof. reflexivity. Qed.
Lemma cenc_app a b : cenc a -> cenc b -> cenc (a ++ b).
Proof. unfold cenc. intros Ha Hb. rewrite forallb_app, Ha, Hb. reflexivity. Qed.
Lemma cenc_cons i c : enc_nj i = true -> cenc c -> cenc (i :: c).
Proof. unfold cenc. cbn [forallb]. intros -> ->. reflexivity. Qed.
Lemma cenc_one i : enc_nj i = true -> cenc [i].
Proof. intros H. apply cenc_cons; [exact H|apply cenc_nil]. Qed.

Lemma enc_u8 k a : operand_of k = OU8 -> 0 <= a < 256 -> enc_nj (I k a) = true.
Proof. intros Hk Ha. unfold enc_nj, encodable. cbn [ikind iarg]. rewrite Hk. apply andb_true_intro. split; [apply Z.leb_le|apply Z.ltb_lt]; lia. Qed.
Lemma enc_u16 k a : operand_of k = OU16 -> 0 <= a < 65536 -> enc_nj (I k a) = true.
Proof. intros Hk Ha. unfold enc_nj, encodable. cbn [ikind iarg]. rewrite Hk. apply andb_true_intro. split; [apply Z.leb_le|apply Z.ltb_lt]; lia. Qed.
Lemma enc_jump k a : operand_of k = OI16 -> enc_nj (I k a) = true.
Proof. intros Hk. unfold enc_nj. cbn [ikind]. now rewrite Hk. Qed.

Ltac enc0 := apply cenc_one; reflexivity.

Section Fun.
Variable cfg : config.
Variable env : cenv.
Hypothesis Hmax : max_locals cfg <= 256.
Hypothesis Hop : forall x i, map_get (ce_oparams env) x = Some i -> 0 <= i < 256.
Hypothesis Hip : forall x i, map_get (ce_iparams env) x = Some i -> 0 <= i < 256.

Definition lok (st : cstate) : Prop := len (cs_locals st) <= max_locals cfg.

Definition eenc (e : expr) : Prop :=
  forall st st' c, cexpr env e st = COk (st', c) -> lok st -> ids_ok_expr e = true -> cenc c.

Lemma lok_mono e st st' c : cexpr env e st = COk (st', c) -> lok st -> lok st'.
Proof. intros H Hl. unfold lok. destruct (cexpr_mono env e st st' c H) as [_ ->]. exact Hl. Qed.

Lemma cconst_enc c st st' code : cconst c st = COk (st', code) -> cenc code.
Proof.
  destruct c as [z|s|[|]|]; cbn [cconst]; intros H; try discriminate.
  - destruct (intern_int st z) as [st1 id] eqn:E. destruct (Z.ltb_spec 255 id); [discriminate|]. inversion H; subst.
    apply cenc_one, enc_u8; [reflexivity|]. unfold intern_int in E.
    destruct (index_of Z.eqb z (cs_iconsts st) 0) eqn:Ei; inversion E; subst.
    + apply index_of_lt in Ei. lia.
    + pose proof (len_nonneg' (cs_iconsts st)). lia.
  - destruct (intern_str st s) as [st1 id] eqn:E. destruct (Z.ltb_spec 255 id); [discriminate|]. inversion H; subst.
    apply cenc_one, enc_u8; [reflexivity|]. unfold intern_str in E.
    destruct (index_of bytes_eqb s (cs_consts st) 0) eqn:Ei; inversion E; subst.
    + apply index_of_lt in Ei. lia.
    + pose proof (len_nonneg' (cs_consts st)). lia.
  - inversion H; subst. enc0.
  - inversion H; subst. enc0.
Qed.

Lemma cident_enc x t st st' c : cident env x t st = COk (st', c) -> lok st -> cenc c.
Proof.
  unfold cident. intros H Hl.
  destruct (map_get (ce_oparams env) x) as [i|] eqn:Eo.
  { inversion H; subst. apply cenc_one, enc_u8; [reflexivity|eauto]. }
  destruct (map_get (ce_iparams env) x) as [i|] eqn:Ei.
  { inversion H; subst. apply cenc_one, enc_u8; [reflexivity|eauto]. }
  destruct (index_of Z.eqb x (cs_locals st) 0) as [i|] eqn:El; [|discriminate].
  inversion H; subst. apply index_of_lt in El. unfold lok in Hl.
  apply cenc_one, enc_u8; [destruct (is_int t); reflexivity|lia].
Qed.

Lemma cargs_enc v l : Forall eenc l -> forall i st st' c n, cargs env v l i st = COk (st', c, n) -> lok st ->
  forallb ids_ok_expr l = true -> cenc c /\ 0 <= n.
Proof.
  induction 1 as [|e l He _ IH]; intros i st st' c n H Hl Hids; cbn in H.
  - inversion H; subst. split; [apply cenc_nil|lia].
  - cbn [forallb] in Hids. apply andb_prop in Hids as [Hide Hidl].
    cinv H. destruct a as [st1 c1]. cinv Hb. destruct a as [[st2 c2] n2].
    destruct (IH _ _ _ _ _ Hba (lok_mono _ _ _ _ Ha Hl) Hidl) as [Hc2 Hn2].
    pose proof (He _ _ _ Ha Hl Hide) as Hc1.
    destruct (negb (v =? 0) && (v <=? i)); inversion Hbb; subst.
    + split; [|lia]. apply cenc_app; [exact Hc1|]. apply cenc_app; [|exact Hc2]. destruct (is_int (ty_of e)); [enc0|apply cenc_nil].
    + split; [|lia]. now apply cenc_app.
Qed.

Lemma copt_enc o : (forall e, o = Some e -> eenc e) -> forall st st' c, copt_with (cexpr env) o st = COk (st', c) -> lok st ->
  match o with Some r => ids_ok_expr r | None => true end = true -> cenc c.
Proof.
  destruct o as [e|]; intros He st st' c H Hl Hid; cbn in H.
  - eapply He; eauto.
  - inversion H; subst. apply cenc_nil.
Qed.

Lemma copt_lok o st st' c : copt_with (cexpr env) o st = COk (st', c) -> lok st -> lok st'.
Proof. destruct o as [e|]; cbn; intros H Hl; [eapply lok_mono; eauto|inversion H; subst; exact Hl]. Qed.

Lemma cexpr_enc e : eenc e.
Proof.
  induction e as [id c|x t|e IHe|e IHe| |op tx e1 e2 IHe1 IHe2|tx e lo hi three IHe IHlo IHhi|f t recv args IHrecv IHargs|nid t e IHe| ]
    using expr_ind'; intros st st' code Hc Hl Hid; cbn [cexpr] in Hc; cbn [ids_ok_expr] in Hid.
  - eapply cconst_enc; eauto.
  - eapply cident_enc; eauto.
  - eapply IHe; eauto.
  - cinv Hc. destruct a as [st1 cx]. inversion Hcb; subst. apply cenc_app; [eapply IHe; eauto|enc0].
  - discriminate.
  - (* binary *)
    apply andb_prop in Hid as [Hid1 Hid2].
    assert (Hop2 : forall k, operand_of k = ONone ->
                   (do '(st1, cx) <- cexpr env e1 st;; do '(st2, cy) <- cexpr env e2 st1;; COk (st2, cx ++ cy ++ [I0 k])) = COk (st', code) -> cenc code).
    { intros k Hk Hx. cinv Hx. destruct a as [st1 cx]. cinv Hxb. destruct a as [st2 cy]. inversion Hxbb; subst.
      apply cenc_app; [eapply IHe1; eauto|]. apply cenc_app; [eapply IHe2; eauto; eapply lok_mono; eauto|].
      apply cenc_one. unfold enc_nj, encodable, I0. cbn [ikind iarg]. now rewrite Hk. }
    assert (Hop1 : forall k x, operand_of k = ONone -> eenc x -> ids_ok_expr x = true ->
                   (do '(st1, cx) <- cexpr env x st;; COk (st1, cx ++ [I0 k])) = COk (st', code) -> cenc code).
    { intros k x Hk Hx Hidx Hy. cinv Hy. destruct a as [st1 cx]. inversion Hyb; subst. apply cenc_app; [eapply Hx; eauto|].
      apply cenc_one. unfold enc_nj, encodable, I0. cbn [ikind iarg]. now rewrite Hk. }
    destruct op; try discriminate;
      repeat match type of Hc with
             | (if ?b then _ else _) = _ => destruct b
             end; try discriminate;
      try (refine (Hop2 _ _ Hc); reflexivity); try (refine (Hop1 _ _ _ _ _ Hc); [reflexivity|assumption|assumption]).
    + cinv Hc. destruct a as [st1 cx]. cinv Hcb. destruct a as [st2 cy]. inversion Hcbb; subst.
      apply cenc_app; [eapply IHe1; eauto|]. apply cenc_cons; [reflexivity|]. apply cenc_cons; [now apply enc_jump|].
      eapply IHe2; eauto. eapply lok_mono; eauto.
    + cinv Hc. destruct a as [st1 cx]. cinv Hcb. destruct a as [st2 cy]. inversion Hcbb; subst.
      apply cenc_app; [eapply IHe1; eauto|]. apply cenc_cons; [reflexivity|]. apply cenc_cons; [now apply enc_jump|].
      eapply IHe2; eauto. eapply lok_mono; eauto.
  - (* slice *)
    apply andb_prop in Hid as [Hid Hidh]. apply andb_prop in Hid as [Hidx Hidl].
    destruct three; [discriminate|].
    destruct lo as [l|], hi as [h|].
    + destruct (negb (is_str tx)); [discriminate|].
      cinv Hc. destruct a as [st1 cx]. cinv Hcb. destruct a as [st2 cl]. cinv Hcbb. destruct a as [st3 ch]. inversion Hcbbb; subst.
      pose proof (lok_mono _ _ _ _ Hca Hl) as Hl1. pose proof (lok_mono _ _ _ _ Hcba Hl1) as Hl2.
      apply cenc_app; [eapply IHe; eauto|]. apply cenc_app; [eapply (IHlo l); eauto|]. apply cenc_app; [eapply (IHhi h); eauto|enc0].
    + destruct (negb (is_str tx)); [discriminate|].
      cinv Hc. destruct a as [st1 cx]. cinv Hcb. destruct a as [st2 cl]. inversion Hcbb; subst.
      pose proof (lok_mono _ _ _ _ Hca Hl) as Hl1.
      apply cenc_app; [eapply IHe; eauto|]. apply cenc_app; [eapply (IHlo l); eauto|enc0].
    + destruct (negb (is_str tx)); [discriminate|].
      cinv Hc. destruct a as [st1 cx]. cinv Hcb. destruct a as [st2 cl]. inversion Hcbb; subst.
      pose proof (lok_mono _ _ _ _ Hca Hl) as Hl1.
      apply cenc_app; [eapply IHe; eauto|]. apply cenc_app; [eapply (IHhi h); eauto|enc0].
    + eapply IHe; eauto.
  - (* call *)
    apply andb_prop in Hid as [Hid Hida]. apply andb_prop in Hid as [Hidf Hidr].
    destruct f as [| |id variadic|id res|]; try discriminate.
    + destruct args as [|a args]; [discriminate|]. cinv Hc. destruct a0 as [st1 ca].
      destruct (is_str (ty_of a)); [|discriminate]. inversion Hcb; subst.
      inversion IHargs; subst. cbn [forallb] in Hida. apply andb_prop in Hida as [Hida _].
      apply cenc_app; [eauto|enc0].
    + cinv Hc. destruct a as [st0 cr]. cinv Hcb. destruct a as [[st1 ca] n].
      pose proof (copt_enc _ IHrecv _ _ _ Hca Hl Hidr) as Hcr.
      destruct (cargs_enc _ _ IHargs _ _ _ _ _ Hcba (copt_lok _ _ _ _ Hca Hl) Hida) as [Hcargs Hn].
      cbn [ids_ok_callee] in Hidf. unfold id16_ok in Hidf. apply andb_prop in Hidf as [Hi0 Hi1]. apply Z.leb_le in Hi0. apply Z.ltb_lt in Hi1.
      destruct (variadic =? 0).
      * inversion Hcbb; subst. apply cenc_app; [exact Hcr|]. apply cenc_app; [exact Hcargs|]. apply cenc_one, enc_u16; [reflexivity|lia].
      * destruct (Z.ltb_spec 255 n); [discriminate|]. inversion Hcbb; subst.
        apply cenc_app; [exact Hcr|]. apply cenc_app; [exact Hcargs|].
        apply cenc_cons; [apply enc_u8; [reflexivity|lia]|]. apply cenc_one, enc_u16; [reflexivity|lia].
    + cinv Hc. destruct a as [st0 cr]. cinv Hcb. destruct a as [[st1 ca] n]. inversion Hcbb; subst.
      pose proof (copt_enc _ IHrecv _ _ _ Hca Hl Hidr) as Hcr.
      destruct (cargs_enc _ _ IHargs _ _ _ _ _ Hcba (copt_lok _ _ _ _ Hca Hl) Hida) as [Hcargs Hn].
      cbn [ids_ok_callee] in Hidf. unfold id16_ok in Hidf. apply andb_prop in Hidf as [Hi0 Hi1]. apply Z.leb_le in Hi0. apply Z.ltb_lt in Hi1.
      apply cenc_app; [exact Hcr|]. apply cenc_app; [exact Hcargs|]. apply cenc_one, enc_u16; [destruct res; reflexivity|lia].
  - apply andb_prop in Hid as [Hn Hid]. apply Z.ltb_lt in Hn.
    destruct (Z.ltb_spec nid 0); [discriminate|]. cinv Hc. destruct a as [st1 cx]. inversion Hcb; subst.
    apply cenc_app; [eapply IHe; eauto|]. apply cenc_one, enc_u16; [reflexivity|lia].
  - discriminate.
Qed.

(* ---------- statements ---------- *)
Fixpoint rs_enc (r : rstmt) : bool :=
  match r with
  | RCode c => forallb enc_nj c
  | RIf cc t e => forallb enc_nj cc && forallb rs_enc t && match e with Some x => rs_enc x | None => true end
  | RFor cc b => match cc with Some c => forallb enc_nj c | None => true end && forallb rs_enc b
  | RBreak => true
  | RBlock l => forallb rs_enc l
  end.

Lemma define_vars_enc lhs : forall st st' c, define_vars cfg env lhs st = COk (st', c) -> lok st -> cenc c /\ lok st'.
Proof.
  induction lhs as [|[x t] lhs IH]; intros st st' c H Hl; cbn [define_vars] in H.
  - inversion H; subst. split; [apply cenc_nil|exact Hl].
  - destruct (index_of Z.eqb x (cs_locals st) 0); [discriminate|].
    destruct (is_param env x); [discriminate|]. destruct (negb (supported t)); [discriminate|].
    destruct (Z.eqb_spec (len (cs_locals st)) (max_locals cfg)) as [|Hne]; [discriminate|].
    cinv H. destruct a as [st2 c2]. inversion Hb; subst.
    assert (Hl1 : lok (mkcs (cs_consts st) (cs_iconsts st) (cs_locals st ++ [x]))).
    { unfold lok in *. cbn [cs_locals]. rewrite len_app'. unfold len at 2. cbn [length]. lia. }
    destruct (IH _ _ _ Ha Hl1) as [Hc2 Hl2]. split; [|exact Hl2].
    apply cenc_cons; [|exact Hc2]. pose proof (len_nonneg' (cs_locals st)). unfold lok in Hl.
    apply enc_u8; [destruct (is_int t); reflexivity|lia].
Qed.

Lemma assign_vars_enc lhs : forall st c, assign_vars lhs st = COk c -> lok st -> cenc c.
Proof.
  induction lhs as [|[x t] lhs IH]; intros st c H Hl; cbn [assign_vars] in H.
  - inversion H; subst. apply cenc_nil.
  - destruct (index_of Z.eqb x (cs_locals st) 0) as [id|] eqn:Ex; [|discriminate].
    cinv H. inversion Hb; subst. apply index_of_lt in Ex. unfold lok in Hl.
    apply cenc_cons; [apply enc_u8; [destruct (is_int t); reflexivity|lia]|eauto].
Qed.

Definition senc (s : stmt) : Prop :=
  forall st st' r, rstmt_of cfg env s st = COk (st', r) -> lok st -> ids_ok_stmt s = true -> rs_enc r = true /\ lok st'.

Lemma rblock_enc l : Forall senc l -> forall st st' rl, rblock cfg env l st = COk (st', rl) -> lok st ->
  forallb ids_ok_stmt l = true -> forallb rs_enc rl = true /\ lok st'.
Proof.
  induction 1 as [|s l Hs _ IH]; intros st st' rl H Hl Hid; cbn in H.
  - inversion H; subst. split; [reflexivity|exact Hl].
  - cbn [forallb] in Hid. apply andb_prop in Hid as [Hids Hidl].
    cinv H. destruct a as [st1 r]. cinv Hb. destruct a as [st2 rl2]. inversion Hbb; subst.
    destruct (Hs _ _ _ Ha Hl Hids) as [Hr Hl1]. destruct (IH _ _ _ Hba Hl1 Hidl) as [Hrl Hl2].
    split; [|exact Hl2]. cbn [forallb]. now rewrite Hr, Hrl.
Qed.

Lemma rstmt_enc s : senc s.
Proof.
  induction s as [res|tok lhs nrhs rhs|x inc|init c t e IHinit IHt IHe|init c post body IHinit IHpost IHbody| |e|l IHl| ] using stmt_ind';
    intros st st' r H Hl Hid; cbn [rstmt_of] in H; cbn [ids_ok_stmt] in Hid.
  - destruct (ce_retvoid env); [inversion H; subst; split; [reflexivity|exact Hl]|].
    destruct res as [|e res]; [discriminate|].
    destruct (ident_name e =? name_true); [inversion H; subst; split; [reflexivity|exact Hl]|].
    destruct (ident_name e =? name_false); [inversion H; subst; split; [reflexivity|exact Hl]|].
    cbn [forallb] in Hid. apply andb_prop in Hid as [Hide _].
    cinv H. destruct a as [st1 c]. inversion Hb; subst. split; [|eapply lok_mono; eauto].
    cbn [rs_enc]. apply cenc_app; [eapply cexpr_enc; eauto|]. destruct (is_int (ty_of e)); enc0.
  - destruct (negb (nrhs =? 1)); [discriminate|]. destruct tok; try discriminate.
    + cinv H. destruct a as [st1 c]. cinv Hb. destruct a as [st2 cs]. inversion Hbb; subst.
      destruct (define_vars_enc _ _ _ _ Hba (lok_mono _ _ _ _ Ha Hl)) as [Hcs Hl2]. split; [|exact Hl2].
      cbn [rs_enc]. apply cenc_app; [eapply cexpr_enc; eauto|exact Hcs].
    + cinv H. destruct a as [st1 c]. cinv Hb. inversion Hbb; subst. pose proof (lok_mono _ _ _ _ Ha Hl) as Hl1. split; [|exact Hl1].
      cbn [rs_enc]. apply cenc_app; [eapply cexpr_enc; eauto|eapply assign_vars_enc; eauto].
  - destruct (index_of Z.eqb x (cs_locals st) 0) as [id|] eqn:Ex; [|discriminate]. inversion H; subst. split; [|exact Hl].
    apply index_of_lt in Ex. unfold lok in Hl. cbn [rs_enc]. apply cenc_one, enc_u8; [destruct inc; reflexivity|lia].
  - apply andb_prop in Hid as [Hid Hide]. apply andb_prop in Hid as [Hid Hidt]. apply andb_prop in Hid as [Hidi Hidc].
    cinv H. destruct a as [st0 ri]. cinv Hb. destruct a as [st1 cc]. cinv Hbb. destruct a as [st2 rt].
    assert (H0 : forallb rs_enc ri = true /\ lok st0).
    { destruct init as [i|]; [|inversion Ha; subst; split; [reflexivity|exact Hl]].
      cinv Ha. destruct a as [st9 r9]. inversion Hab; subst. destruct (IHinit i eq_refl _ _ _ Haa Hl Hidi) as [Hr9 Hl9].
      split; [|exact Hl9]. cbn [forallb]. now rewrite Hr9. }
    destruct H0 as [Hri Hl0].
    pose proof (cexpr_enc _ _ _ _ Hba Hl0 Hidc) as Hcc. pose proof (lok_mono _ _ _ _ Hba Hl0) as Hl1.
    destruct (rblock_enc _ IHt _ _ _ Hbba Hl1 Hidt) as [Hrt Hl2].
    destruct e as [e'|].
    + cinv Hbbb. destruct a as [st3 re]. inversion Hbbbb; subst. destruct (IHe e' eq_refl _ _ _ Hbbba Hl2 Hide) as [Hre Hl3].
      split; [|exact Hl3]. cbn [rs_enc]. rewrite forallb_app, Hri. cbn [forallb rs_enc]. unfold cenc in Hcc. now rewrite Hcc, Hrt, Hre.
    + inversion Hbbb; subst. split; [|exact Hl2]. cbn [rs_enc]. rewrite forallb_app, Hri. cbn [forallb rs_enc]. unfold cenc in Hcc. now rewrite Hcc, Hrt.
  - apply andb_prop in Hid as [Hid Hidb]. apply andb_prop in Hid as [Hid Hidp]. apply andb_prop in Hid as [Hidi Hidc].
    destruct c as [c'|], init, post; try discriminate.
    + cinv H. destruct a as [st1 rb]. cinv Hb. destruct a as [st2 cc]. inversion Hbb; subst.
      destruct (rblock_enc _ IHbody _ _ _ Ha Hl Hidb) as [Hrb Hl1].
      pose proof (cexpr_enc _ _ _ _ Hba Hl1 Hidc) as Hcc. split; [|eapply lok_mono; eauto].
      cbn [rs_enc]. unfold cenc in Hcc. now rewrite Hcc, Hrb.
    + cinv H. destruct a as [st1 rb]. inversion Hb; subst. destruct (rblock_enc _ IHbody _ _ _ Ha Hl Hidb) as [Hrb Hl1].
      split; [|exact Hl1]. cbn [rs_enc]. exact Hrb.
  - inversion H; subst. split; [reflexivity|exact Hl].
  - destruct e; try discriminate. destruct t; try discriminate. cinv H. destruct a as [st1 c]. inversion Hb; subst.
    split; [|eapply lok_mono; eauto]. cbn [rs_enc]. eapply cexpr_enc; eauto.
  - cinv H. destruct a as [st1 rl]. inversion Hb; subst. destruct (rblock_enc _ IHl _ _ _ Ha Hl Hid) as [Hrl Hl1].
    split; [|exact Hl1]. exact Hrl.
  - discriminate.
Qed.

(* ---------- layout ---------- *)
Lemma genblock_enc (l : list rstmt) : Forall (fun s => forall k, rs_enc s = true -> cenc (gen cfg s k)) l ->
  forall k, forallb rs_enc l = true -> cenc (genblock cfg l k).
Proof.
  induction 1 as [|s l Hs _ IH]; intros k Hr; cbn; [apply cenc_nil|].
  cbn [forallb] in Hr. apply andb_prop in Hr as [Hrs Hrl]. apply cenc_app; [apply Hs; exact Hrs|apply IH; exact Hrl].
Qed.

Lemma gen_enc s : forall k, rs_enc s = true -> cenc (gen cfg s k).
Proof.
  induction s as [c|cc t e IHt IHe|cc b IHb| |l IHl] using rstmt_ind'; intros k Hr; cbn [rs_enc] in Hr.
  - exact Hr.
  - apply andb_prop in Hr as [Hr Hre]. apply andb_prop in Hr as [Hcc Hrt].
    destruct e as [e|]; cbn [gen].
    + pose proof (IHe e eq_refl k Hre) as Hce.
      destruct (then_closed cfg t).
      * apply cenc_app; [exact Hcc|]. apply cenc_cons; [now apply enc_jump|]. apply cenc_app; [|exact Hce].
        apply (genblock_enc t IHt). exact Hrt.
      * apply cenc_app; [exact Hcc|]. apply cenc_cons; [now apply enc_jump|]. apply cenc_app; [apply (genblock_enc t IHt); exact Hrt|].
        apply cenc_cons; [now apply enc_jump|exact Hce].
    + apply cenc_app; [exact Hcc|]. apply cenc_cons; [now apply enc_jump|]. apply (genblock_enc t IHt). exact Hrt.
  - apply andb_prop in Hr as [Hcc Hrb]. destruct cc as [cc|]; cbn [gen].
    + apply cenc_cons; [now apply enc_jump|]. apply cenc_app; [apply (genblock_enc b IHb); exact Hrb|].
      apply cenc_app; [exact Hcc|]. apply cenc_one. now apply enc_jump.
    + apply cenc_app; [apply (genblock_enc b IHb); exact Hrb|]. apply cenc_one. now apply enc_jump.
  - cbn [gen]. apply cenc_one. now apply enc_jump.
  - cbn [gen]. apply (genblock_enc l IHl). exact Hr.
Qed.

End Fun.

(* ---------- functions ---------- *)
Lemma split_params_range ps : forall op ip no ni op' ip' no' ni', split_params ps op ip no ni = COk (op', ip', no', ni') ->
  0 <= no -> 0 <= ni ->
  (forall x i, map_get op x = Some i -> 0 <= i < no) -> (forall x i, map_get ip x = Some i -> 0 <= i < ni) ->
  no <= no' /\ ni <= ni' /\
  (forall x i, map_get op' x = Some i -> 0 <= i < no') /\ (forall x i, map_get ip' x = Some i -> 0 <= i < ni').
Proof.
  induction ps as [|[x t] ps IH]; intros op ip no ni op' ip' no' ni' H Hno Hni Hop Hip; cbn [split_params] in H.
  - inversion H; subst. split; [lia|split; [lia|split; assumption]].
  - destruct (negb (supported t)); [discriminate|]. destruct (is_int t).
    + destruct (IH _ _ _ _ _ _ _ _ H Hno ltac:(lia)) as (H1 & H2 & H3 & H4).
      * intros y i Hy. apply Hop in Hy. lia.
      * intros y i Hy. destruct (Z.eq_dec x y) as [->|Hne].
        -- rewrite map_get_set_same in Hy. inversion Hy; subst. lia.
        -- rewrite map_get_set_other in Hy by exact Hne. apply Hip in Hy. lia.
      * split; [lia|split; [lia|split; assumption]].
    + destruct (IH _ _ _ _ _ _ _ _ H ltac:(lia) Hni) as (H1 & H2 & H3 & H4).
      * intros y i Hy. destruct (Z.eq_dec x y) as [->|Hne].
        -- rewrite map_get_set_same in Hy. inversion Hy; subst. lia.
        -- rewrite map_get_set_other in Hy by exact Hne. apply Hop in Hy. lia.
      * intros y i Hy. apply Hip in Hy. lia.
      * split; [lia|split; [lia|split; assumption]].
Qed.

Theorem compile_fun_encodable cfg f cf : 0 <= max_locals cfg <= 256 ->
  compile_fun cfg f = COk cf -> ids_ok_fun f = true -> code_encodable cf = true.
Proof.
  intros [Hmax0 Hmax] Hcf Hids. unfold compile_fun in Hcf.
  cinv Hcf. rename a into rt. destruct (negb (supported rt)); [discriminate|].
  cinv Hcfb. destruct a as [[[op ip] nobj] nint].
  destruct ((256 <? nobj) || (256 <? nint)) eqn:Hlim; [discriminate|]. apply orb_false_elim in Hlim as [Hl1 Hl2].
  apply Z.ltb_ge in Hl1. apply Z.ltb_ge in Hl2.
  cinv Hcfbb. destruct a as [st rb].
  set (env := mkce op ip (ty_eqb rt TVoid)) in *.
  set (C := genblock cfg rb 0 ++ (if ty_eqb rt TVoid then [I0 KReturn] else [])) in *.
  destruct (jumps_fit C) eqn:Hj; cbn [negb] in Hcfbbb; [|discriminate]. inversion Hcfbbb; subst cf. clear Hcfbbb.
  destruct (split_params_range _ _ _ _ _ _ _ _ _ Hcfba (Z.le_refl 0) (Z.le_refl 0)) as (_ & _ & Hop & Hip);
    try (intros x i Hx; discriminate).
  assert (Hop' : forall x i, map_get (ce_oparams env) x = Some i -> 0 <= i < 256) by (intros x i Hx; apply Hop in Hx; lia).
  assert (Hip' : forall x i, map_get (ce_iparams env) x = Some i -> 0 <= i < 256) by (intros x i Hx; apply Hip in Hx; lia).
  assert (Hl0 : lok cfg (mkcs [] [] [])) by (unfold lok, len; cbn; lia).
  assert (HS : Forall (senc cfg env) (fd_body f)) by (apply Forall_forall; intros s _; apply rstmt_enc; assumption).
  destruct (rblock_enc cfg env _ HS _ _ _ Hcfbba Hl0 Hids) as [Hrb _].
  assert (HG : Forall (fun s => forall k, rs_enc s = true -> cenc (gen cfg s k)) rb) by (apply Forall_forall; intros s _; apply gen_enc).
  pose proof (genblock_enc cfg rb HG 0 Hrb) as HC0.
  assert (HC : cenc C). { unfold C. apply cenc_app; [exact HC0|]. destruct (ty_eqb rt TVoid); [enc0|apply cenc_nil]. }
  unfold code_encodable. cbn [cf_code]. unfold cenc in HC. unfold jumps_fit in Hj.
  rewrite forallb_forall in *. intros i Hi. specialize (HC i Hi). specialize (Hj i Hi).
  unfold enc_nj, encodable in HC. unfold encodable. cbv beta in Hj. destruct (operand_of (ikind i)); try exact HC.
  apply andb_prop in Hj as [Ha Hb]. apply Z.leb_le in Hb. rewrite Ha. cbn [andb]. apply Z.ltb_lt. lia.
Qed.

Lemma compile_prog_encodable cfg : 0 <= max_locals cfg <= 256 -> forall p cs,
  compile_prog cfg p = COk cs -> ids_ok p = true -> forallb code_encodable cs = true.
Proof.
  intros Hmax. induction p as [|f p IH]; intros cs H Hids; cbn [compile_prog] in H.
  - inversion H; subst. reflexivity.
  - cbn [ids_ok forallb] in Hids. apply andb_prop in Hids as [Hf Hp].
    cinv H. cinv Hb. inversion Hbb; subst. cbn [forallb].
    rewrite (compile_fun_encodable cfg f a Hmax Ha Hf). apply (IH _ Hba Hp).
Qed.

(* the guard of the partial theorem as a property of the configuration and the *source* program alone *)
Definition source_guard (cfg : config) (p : program) : bool :=
  config_ok cfg && opnums_ok cfg && (max_locals cfg <=? 256) && prog_ok p && ids_ok p.

Lemma source_guard_in_scope cfg p cs : compile_prog cfg p = COk cs -> source_guard cfg p = true -> in_scope cfg p cs = true.
Proof.
  intros Hc Hg. unfold source_guard in Hg. apply andb_prop in Hg as [Hg Hids]. apply andb_prop in Hg as [Hg Hprog].
  apply andb_prop in Hg as [Hg Hmax]. apply andb_prop in Hg as [Hcfg Hnums]. apply Z.leb_le in Hmax.
  unfold in_scope. rewrite Hcfg, Hnums, Hprog. cbn [andb].
  apply (compile_prog_encodable cfg) with (p := p); [|exact Hc|exact Hids].
  unfold config_ok in Hcfg. apply andb_prop in Hcfg as [_ H0]. apply Z.leb_le in H0. lia.
Qed.

Theorem compile_correct_source_guard cfg :
  compile_correct_statement cfg (fun p _ => source_guard cfg p).
Proof.
  intros nat_fun p cs Hc Hg. apply (compile_correct_partial cfg nat_fun p cs Hc). now apply source_guard_in_scope.
Qed.
