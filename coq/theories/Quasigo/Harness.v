(* Correspondence checks evaluated (vm_compute) by checks/C04.py on the observations of harness/cmd/c04:
   bytecode equality, VM results (byte-level and instruction-level fetch), source semantics vs the Go toolchain. *)
From Coq Require Import List ZArith Bool String.
From RG.Base Require Import Outcome GoInt GoSlice.
From RG.Quasigo Require Import Source Bytecode Compile VM Sem Guards Link FunCorrect Correct Encodable.
Import ListNotations.
Local Open Scope Z_scope.

(* what the harness observed for one call *)
Inductive xres := XInt (z : Z) | XStr (s : bytes) | XBool (b : bool) | XVoid | XPanic | XTimeout | XOther.

Record dump := mkdump { d_code : list Z; d_consts : list value; d_iconsts : list Z; d_nobj : Z; d_nint : Z }.

Record callobs := mkcall {
  co_fn : Z;
  co_args : list value;
  co_real : xres;                                   (* quasigo.Call *)
  co_go : xres;                                     (* the Go toolchain *)
  co_trace : list (Z * list value * list value);    (* native calls observed: id, args, results *)
  co_vl0 : Z                                        (* variadicLen left in the EvalEnv before the call *)
}.

Record pcase := mkpcase {
  pc_funs : list fundecl;
  pc_dumps : list dump;          (* functions the real compiler accepted, in order *)
  pc_err : bool;                 (* the real compiler rejected function number (length pc_dumps) *)
  pc_calls : list callobs
}.

Definition value_eqb (a b : value) : bool :=
  match a, b with
  | VStr x, VStr y | VErr x, VErr y | VOpaque x, VOpaque y => bytes_eqb x y
  | VBool x, VBool y => Bool.eqb x y
  | VInt x, VInt y => x =? y
  | VNil, VNil => true
  | _, _ => false
  end.

Definition trace_fun (tr : list (Z * list value * list value)) (id : Z) (args : list value) : option (list value) :=
  match find (fun '(i, a, _) => (i =? id) && list_eqb value_eqb a args) tr with
  | Some (_, _, r) => Some r
  | None => None
  end.

Definition zlist_eqb := list_eqb Z.eqb.

Section Checks.
Variable cfg : config.
Variable fuel : nat.


(* issue codes *)
Definition c_model_rejects : Z := 1.      (* model: compile error, implementation: accepted *)
Definition c_code_differs : Z := 2.
Definition c_pools_differ : Z := 3.
Definition c_counts_differ : Z := 4.
Definition c_model_accepts : Z := 5.      (* implementation: compile error, model: accepted *)
Definition c_vm_bytes : Z := 10.          (* byte-level model VM result <> quasigo.Call *)
Definition c_vm_instr : Z := 11.          (* instruction-level model VM result <> quasigo.Call *)
Definition c_sem_go : Z := 12.            (* source semantics result <> Go toolchain *)
Definition c_inconclusive : Z := 20.      (* oracle table had no entry / fuel *)

Fixpoint check_funs (i : Z) (fs : list fundecl) (ds : list dump) (err : bool) : list (Z * Z) :=
  match fs, ds with
  | f :: fs', d :: ds' =>
      match compile_fun cfg f with
      | CErr _ => [(i, c_model_rejects)]
      | COk c =>
          (if zlist_eqb (assemble cfg (cf_code c)) (d_code d) then [] else [(i, c_code_differs)]) ++
          (if list_eqb value_eqb (cfunc_consts c) (d_consts d) && zlist_eqb (cf_iconsts c) (d_iconsts d) then [] else [(i, c_pools_differ)]) ++
          (if (cf_nobj c =? d_nobj d) && (cf_nint c =? d_nint d) then [] else [(i, c_counts_differ)]) ++
          check_funs (i + 1) fs' ds' err
      end
  | f :: _, [] =>
      if err then match compile_fun cfg f with COk _ => [(i, c_model_accepts)] | CErr _ => [] end else []
  | [], _ => []
  end.

Definition res_matches (rt : ty) (r : runres) (x : xres) : option bool :=
  match r, x with
  | RNoOracle, _ => None
  | ROutOfFuel, XTimeout => Some true
  | ROutOfFuel, _ => None
  | RPanic _, XPanic => Some true
  | RDone c, XInt z => Some (rs c =? z)
  | RDone c, XStr s => Some (value_eqb (rv c) (VStr s))
  | RDone c, XBool b => Some (value_eqb (rv c) (VBool b))
  | RDone c, XVoid => Some true
  | _, _ => Some false
  end.

Definition sem_matches (r : eres (option value)) (x : xres) : option bool :=
  match r, x with
  | ENoOracle, _ | EFuel, _ => None
  | EPanic _, XPanic => Some true
  | EOk (Some (VInt z)), XInt z' => Some (z =? z')
  | EOk (Some v), XStr s => Some (value_eqb v (VStr s))
  | EOk (Some v), XBool b => Some (value_eqb v (VBool b))
  | EOk None, XVoid => Some true
  | _, _ => Some false
  end.

Definition vfuncs_bytes (ds : list dump) : list vfunc :=
  map (fun d => vfunc_of_bytes cfg (d_code d) (d_consts d) (d_iconsts d) (d_nobj d) (d_nint d)) ds.


Definition fun_res_ty (f : fundecl) : ty := match fd_results f with [t] => t | _ => TVoid end.

Definition check_call (p : pcase) (vb : list vfunc) (vi : option (list vfunc)) (j : Z) (c : callobs) : list (Z * Z) :=
  let nf := trace_fun (co_trace c) in
  match nthz (pc_funs p) (co_fn c) with
  | None => [(j, 99)]
  | Some fd =>
    let rt := fun_res_ty fd in
    (match nthz vb (co_fn c) with
     | None => [(j, 98)]
     | Some f => match res_matches rt (call_fun_vl cfg vb nf (co_vl0 c) fuel f (co_args c)) (co_real c) with
                 | Some true => [] | Some false => [(j, c_vm_bytes)] | None => [(j, c_inconclusive)] end
     end) ++
    (match vi with
     | None => []
     | Some vis =>
       match nthz vis (co_fn c) with
       | None => [(j, 97)]
       | Some f => match res_matches rt (call_fun_vl cfg vis nf (co_vl0 c) fuel f (co_args c)) (co_real c) with
                   | Some true => [] | Some false => [(j, c_vm_instr)] | None => [(j, c_inconclusive + 1)] end
       end
     end) ++
    (match co_go c with
     | XOther => []
     | g => match sem_matches (call_sem (nat_sig cfg) nf (pc_funs p) fuel (co_fn c) (co_args c)) g with
            | Some true => [] | Some false => [(j, c_sem_go)] | None => [(j, c_inconclusive + 2)] end
     end)
  end.

Fixpoint check_calls (p : pcase) (vb : list vfunc) (vi : option (list vfunc)) (j : Z) (cs : list callobs) : list (Z * Z) :=
  match cs with
  | [] => []
  | c :: cs' => check_call p vb vi j c ++ check_calls p vb vi (j + 1) cs'
  end.

(* functions from which an unsafe || / && (Guards.safe) is reachable: the guard of the known finding *)
Definition unsafe_roots (p : pcase) : list Z :=
  filter (reaches_unsafe (pc_funs p)) (map Z.of_nat (seq 0 (List.length (pc_funs p)))).

(* is the program inside the guard of compile_correct_source_guard (accepted by the compiler, source_guard)? (1 = yes) *)
Definition scope_bit (p : pcase) : Z :=
  match compile_prog cfg (pc_funs p) with
  | COk cs => if source_guard cfg (pc_funs p) then 1 else 0
  | CErr _ => 0
  end.

(* result: (function-level issues, call-level issues, unsafe roots ++ [-1; scope bit]) *)
Definition check_prog (p : pcase) : list (Z * Z) * list (Z * Z) * list Z :=
  let vi := match compile_prog cfg (firstn (List.length (pc_dumps p)) (pc_funs p)) with
            | COk cs => Some (map vfunc_of_cfunc cs)
            | CErr _ => None
            end in
  (check_funs 0 (pc_funs p) (pc_dumps p) (pc_err p),
   check_calls p (vfuncs_bytes (pc_dumps p)) vi 0 (pc_calls p),
   unsafe_roots p ++ [-1; scope_bit p]).

End Checks.
