(* Compiled expressions fail when the source semantics panics (one frame of the VM): the second half of
   "computes the same result or fails in the same cases". *)
From Coq Require Import List ZArith Bool Lia.
From RG.Base Require Import Outcome GoInt GoSlice.
From RG.Quasigo Require Import Source Bytecode Compile VM Sem Guards VMLemmas CompileLemmas SemLemmas NativeLemmas ExprCorrect.
Import ListNotations.
Local Open Scope Z_scope.

Lemma ebind_panic {A B} (x : eres A) (f : A -> eres B) w : ebind x f = EPanic w ->
  x = EPanic w \/ exists a, x = EOk a /\ f a = EPanic w.
Proof. destruct x; cbn; try discriminate; eauto. intros H. left. congruence. Qed.

Ltac pinv H a :=
  let H1 := fresh H "a" in let H2 := fresh H "b" in
  apply ebind_panic in H; destruct H as [H1|(a & H1 & H2)].

Section Fails.
Variable cfg : config.
Variable funcs : list vfunc.
Variable nat_fun : Z -> list value -> option (list value).

Definition fails (s : state) (w : panic_kind) : Prop :=
  exists s', star cfg funcs nat_fun s s' /\ step cfg funcs nat_fun s' = Fail w.

Lemma fails_star a b w : star cfg funcs nat_fun a b -> fails b w -> fails a w.
Proof. intros H (s' & Hs & Hf). exists s'. split; [eapply star_trans; eauto|exact Hf]. Qed.

Lemma fails_run s w : fails s w -> exists fuel, run cfg funcs nat_fun fuel s = RPanic w.
Proof.
  intros (s' & Hs & Hf). induction Hs as [s|s s1 s2 H1 _ IH].
  - exists 1%nat. cbn [run]. now rewrite Hf.
  - destruct (IH Hf) as [n Hn]. exists (Datatypes.S n). cbn [run]. now rewrite H1.
Qed.

End Fails.

Section Frame.
Variable cfg : config.
Variable funcs : list vfunc.
Variable nat_fun : Z -> list value -> option (list value).
Variable callf : Z -> list value -> eres (option value).
Variable env : cenv.
Variable fn : vfunc.
Variable C : code.
Hypothesis Hfetch : forall pc i, instr_at C pc = Some i -> vf_fetch fn pc = Some i.
Variables (B : list value) (IB : list Z) (top itop : Z) (K : list (frame * opkind)).
Hypothesis Hcall : call_ok cfg funcs nat_fun callf.

Notation star := (star cfg funcs nat_fun).
Notation fails := (fails cfg funcs nat_fun).
Notation eval := (eval (nat_sig cfg) nat_fun callf).
Notation S := (ExprCorrect.S fn B IB top itop K).
Notation pools_ok := (pools_ok fn).
Notation params_ok := (params_ok env B IB top itop).
Notation locals_ok := (locals_ok cfg).
Notation expr_correct := (expr_correct cfg funcs nat_fun callf env fn C Hfetch B IB top itop K Hcall).
Notation fetch_at := (fetch_at fn C Hfetch).

(* a call instruction whose callee panics brings the machine down *)
Definition call_pan : Prop := forall id vs w, callf id vs = EPanic w ->
  forall k, (k = KCall \/ k = KIntCall \/ k = KVoidCall) ->
  forall fn' pc L IL top' itop' O IO vl K', vf_fetch fn' pc = Some (I k id) ->
  fails (mkstate (mkframe fn' pc L IL top' itop') (rev (args_o 0 0 vs) ++ O) (rev (args_i 0 0 vs) ++ IO) vl K') w.
Hypothesis Hcallp : call_pan.

Definition expr_pan (e : expr) : Prop :=
  forall st st' c, cexpr env e st = COk (st', c) ->
  forall pc, code_at C pc c -> pools_ok st' ->
  forall sto L IL, locals_ok st sto L IL -> params_ok sto ->
  safe e = true ->
  forall w, eval sto e = EPanic w ->
  forall X XI vl, fails (S pc L IL X XI vl) w.

Ltac fail_at Hc :=
  eexists; split; [apply star_refl|]; unfold step, ExprCorrect.S;
  cbn [st_fr fr_fn fr_pc st_objs st_ints st_vlen st_callers fr_locals fr_ilocals fr_top fr_itop];
  rewrite (fetch_at _ _ _ Hc); cbn [ikind iarg I0 app push_o push_i].

(* two operands, then an operation that does not panic itself *)
Lemma op2_pan k x y : expr_pan x -> expr_pan y ->
  forall st st' c,
    (do '(st1, cx) <- cexpr env x st ;; do '(st2, cy) <- cexpr env y st1 ;; COk (st2, cx ++ cy ++ [I0 k])) = COk (st', c) ->
  forall pc, code_at C pc c -> pools_ok st' ->
  forall sto L IL, locals_ok st sto L IL -> params_ok sto ->
  safe x = true -> (if on_obj_stack x then no_logic y else safe y) = true ->
  forall w, (eval sto x = EPanic w \/ exists a, eval sto x = EOk a /\ eval sto y = EPanic w) ->
  forall X XI vl, fails (S pc L IL X XI vl) w.
Proof.
  intros IHx IHy st st' c Hc pc Hat Hpools sto L IL Hloc Hpar Hsx Hsy w Hw X XI vl.
  cinv Hc. destruct a as [st1 cx]. cinv Hcb. destruct a as [st2 cy]. inversion Hcbb; subst. clear Hcbb.
  pose proof (cexpr_mono env _ _ _ _ Hca) as [Hle1 Hl1]. pose proof (cexpr_mono env _ _ _ _ Hcba) as [Hle2 Hl2].
  assert (Hloc1 : locals_ok st1 sto L IL) by (unfold ExprCorrect.locals_ok in *; rewrite Hl1; exact Hloc).
  destruct Hw as [Hx|(a & Ha & Hy)].
  - eapply IHx; eauto using code_at_app_l, pools_ok_le.
  - destruct (expr_correct x _ _ _ Hca _ (code_at_app_l _ _ _ _ Hat) (pools_ok_le _ _ _ Hle2 Hpools) _ _ _ Hloc Hpar Hsx _ Ha X XI vl)
      as (Jx & vl1 & Hs1 & _).
    eapply fails_star; [exact Hs1|]. apply code_at_app_r in Hat.
    assert (Hsy' : safe y = true) by (destruct (on_obj_stack x); [now apply no_logic_safe|exact Hsy]).
    eapply IHy; eauto using code_at_app_l.
Qed.

Lemma op1_pan k x : expr_pan x ->
  forall st st' c, (do '(st1, cx) <- cexpr env x st ;; COk (st1, cx ++ [I0 k])) = COk (st', c) ->
  forall pc, code_at C pc c -> pools_ok st' ->
  forall sto L IL, locals_ok st sto L IL -> params_ok sto -> safe x = true ->
  forall w, eval sto x = EPanic w -> forall X XI vl, fails (S pc L IL X XI vl) w.
Proof.
  intros IHx st st' c Hc pc Hat Hpools sto L IL Hloc Hpar Hsx w Hw X XI vl.
  cinv Hc. destruct a as [st1 cx]. inversion Hcb; subst. eapply IHx; eauto using code_at_app_l.
Qed.

Ltac step_at Hc :=
  apply star_one; unfold step, ExprCorrect.S; cbn [st_fr fr_fn fr_pc st_objs st_ints st_vlen st_callers fr_locals fr_ilocals fr_top fr_itop];
  rewrite (fetch_at _ _ _ Hc); cbn [ikind iarg].

Lemma logic_pan (isor : bool) x y : expr_pan x -> expr_pan y ->
  forall st st' c,
    (do '(st1, cx) <- cexpr env x st ;; do '(st2, cy) <- cexpr env y st1 ;;
     COk (st2, cx ++ [I0 KDup; I (if isor then KJumpTrue else KJumpFalse) (3 + size cy)] ++ cy)) = COk (st', c) ->
  forall pc, code_at C pc c -> pools_ok st' ->
  forall sto L IL, locals_ok st sto L IL -> params_ok sto ->
  safe x = true -> safe y = true ->
  forall w, (eval sto x = EPanic w \/ (eval sto x = EOk (VBool (negb isor)) /\ eval sto y = EPanic w)) ->
  forall X XI vl, fails (S pc L IL X XI vl) w.
Proof.
  intros IHx IHy st st' c Hc pc Hat Hpools sto L IL Hloc Hpar Hsx Hsy w Hw X XI vl.
  cinv Hc. destruct a as [st1 cx]. cinv Hcb. destruct a as [st2 cy]. inversion Hcbb; subst. clear Hcbb.
  pose proof (cexpr_mono env _ _ _ _ Hca) as [Hle1 Hl1]. pose proof (cexpr_mono env _ _ _ _ Hcba) as [Hle2 Hl2].
  assert (Hloc1 : locals_ok st1 sto L IL) by (unfold ExprCorrect.locals_ok in *; rewrite Hl1; exact Hloc).
  destruct Hw as [Hx|[Ha Hy]].
  - eapply IHx; eauto using code_at_app_l, pools_ok_le.
  - destruct (expr_correct x _ _ _ Hca _ (code_at_app_l _ _ _ _ Hat) (pools_ok_le _ _ _ Hle2 Hpools) _ _ _ Hloc Hpar Hsx _ Ha X XI vl)
      as (Jx & vl1 & Hs1 & _).
    apply code_at_app_r in Hat. pose proof (code_at_cons_r _ _ _ _ Hat) as Hat1. pose proof (code_at_cons_r _ _ _ _ Hat1) as Hat2.
    cbn [I0 ikind width operand_of] in Hat1, Hat2. cbn [push_o push_i] in Hs1.
    eapply fails_star; [exact Hs1|]. eapply fails_star; [step_at Hat; reflexivity|].
    eapply fails_star with (b := S (pc + size cx + 1 + 3) L IL (VBool (negb isor) :: Jx ++ X) XI vl1).
    { destruct isor; cbn [negb]; step_at Hat1; cbn [app]; reflexivity. }
    eapply IHy; eauto. destruct isor; exact Hat2.
Qed.

Lemma slice_step_pan k str (a : list Z) (w : panic_kind) :
  match k, a with
  | KStringSlice, [lo; hi] => slice str lo hi = Panic w
  | KStringSliceFrom, [lo] => slice str lo (len str) = Panic w
  | KStringSliceTo, [hi] => slice str 0 hi = Panic w
  | _, _ => False
  end ->
  forall pc L IL Y YI vl rest, code_at C pc (I0 k :: rest) ->
  step cfg funcs nat_fun (S pc L IL (VStr str :: Y) (rev a ++ YI) vl) = Fail w.
Proof.
  intros H pc L IL Y YI vl rest Hat. unfold step, ExprCorrect.S.
  cbn [st_fr fr_fn fr_pc st_objs st_ints st_vlen st_callers fr_locals fr_ilocals fr_top fr_itop].
  rewrite (fetch_at _ _ _ Hat). cbn [ikind iarg I0].
  destruct k; try contradiction; destruct a as [|a1 [|a2 [|]]]; try contradiction; cbn [rev app]; rewrite H; reflexivity.
Qed.

Lemma final_no_panic_cmp op p q w : int_cmp op p q <> EPanic w.
Proof. destruct op; cbn; discriminate. Qed.

Lemma binary_pan op tx x y : expr_pan x -> expr_pan y -> expr_pan (EBinary op tx x y).
Proof.
  intros IHx IHy st st' c Hc pc Hat Hpools sto L IL Hloc Hpar Hsafe w Hw X XI vl.
  cbn [cexpr] in Hc. cbn [Sem.eval] in Hw. cbn [safe] in Hsafe.
  (* the generic shape: both operands, then an operation that cannot panic *)
  assert (Hgen : forall k, (do '(st1, cx) <- cexpr env x st ;; do '(st2, cy) <- cexpr env y st1 ;; COk (st2, cx ++ cy ++ [I0 k])) = COk (st', c) ->
            safe x = true -> (if on_obj_stack x then no_logic y else safe y) = true ->
            (eval sto x = EPanic w \/ exists a, eval sto x = EOk a /\ eval sto y = EPanic w) -> fails (S pc L IL X XI vl) w).
  { intros k Hk H1 H2 H3. eapply (op2_pan k x y); eauto. }
  assert (Hxy : forall (F : value -> value -> eres value), (forall a b, F a b <> EPanic w) ->
            (let! a := eval sto x in let! b := eval sto y in F a b) = EPanic w ->
            (eval sto x = EPanic w \/ exists a, eval sto x = EOk a /\ eval sto y = EPanic w)).
  { intros F HF H. pinv H a; [now left|]. right. exists a. split; [exact Ha|]. pinv Hb b; [exact Hba|]. exfalso. exact (HF _ _ Hbb). }
  destruct op; try discriminate.
  - (* || *) apply andb_prop in Hsafe as [Hsx Hsy].
    eapply (logic_pan true x y); eauto. pinv Hw a; [now left|]. right. destruct a as [|[|]| | | |]; try discriminate.
    split; [exact Hwa|]. pinv Hwb b; [exact Hwba|]. destruct b; discriminate.
  - (* && *) apply andb_prop in Hsafe as [Hsx Hsy].
    eapply (logic_pan false x y); eauto. pinv Hw a; [now left|]. right. destruct a as [|[|]| | | |]; try discriminate.
    split; [exact Hwa|]. pinv Hwb b; [exact Hwba|]. destruct b; discriminate.
  - (* != *) unfold is_nil_ident in Hsafe.
    destruct (ident_name x =? name_nil).
    { eapply (op1_pan KIsNotNil y); eauto. pinv Hw a; [exact Hwa|]. destruct (value_is_nil a); discriminate. }
    destruct (ident_name y =? name_nil).
    { eapply (op1_pan KIsNotNil x); eauto. pinv Hw a; [exact Hwa|]. destruct (value_is_nil a); discriminate. }
    apply andb_prop in Hsafe as [Hsx Hsy].
    assert (H3 : eval sto x = EPanic w \/ exists a, eval sto x = EOk a /\ eval sto y = EPanic w) by (eapply Hxy; cycle 1; [exact Hw|cbv beta; intros a b; destruct tx, a, b; discriminate]).
    destruct (is_str tx); [eapply Hgen; eauto|]. destruct (is_int tx); [eapply Hgen; eauto|discriminate].
  - (* == *) unfold is_nil_ident in Hsafe.
    destruct (ident_name x =? name_nil).
    { eapply (op1_pan KIsNil y); eauto. pinv Hw a; [exact Hwa|]. destruct (value_is_nil a); discriminate. }
    destruct (ident_name y =? name_nil).
    { eapply (op1_pan KIsNil x); eauto. pinv Hw a; [exact Hwa|]. destruct (value_is_nil a); discriminate. }
    apply andb_prop in Hsafe as [Hsx Hsy].
    assert (H3 : eval sto x = EPanic w \/ exists a, eval sto x = EOk a /\ eval sto y = EPanic w) by (eapply Hxy; cycle 1; [exact Hw|cbv beta; intros a b; destruct tx, a, b; discriminate]).
    destruct (is_str tx); [eapply Hgen; eauto|]. destruct (is_int tx); [eapply Hgen; eauto|discriminate].
  - apply andb_prop in Hsafe as [Hsx Hsy].
    assert (H3 : eval sto x = EPanic w \/ exists a, eval sto x = EOk a /\ eval sto y = EPanic w) by (eapply Hxy; cycle 1; [exact Hw|cbv beta; intros a b; destruct tx, a, b; try discriminate; apply final_no_panic_cmp]).
    destruct (is_int tx); [eapply Hgen; eauto|discriminate].
  - apply andb_prop in Hsafe as [Hsx Hsy].
    assert (H3 : eval sto x = EPanic w \/ exists a, eval sto x = EOk a /\ eval sto y = EPanic w) by (eapply Hxy; cycle 1; [exact Hw|cbv beta; intros a b; destruct tx, a, b; try discriminate; apply final_no_panic_cmp]).
    destruct (is_int tx); [eapply Hgen; eauto|discriminate].
  - apply andb_prop in Hsafe as [Hsx Hsy].
    assert (H3 : eval sto x = EPanic w \/ exists a, eval sto x = EOk a /\ eval sto y = EPanic w) by (eapply Hxy; cycle 1; [exact Hw|cbv beta; intros a b; destruct tx, a, b; try discriminate; apply final_no_panic_cmp]).
    destruct (is_int tx); [eapply Hgen; eauto|discriminate].
  - apply andb_prop in Hsafe as [Hsx Hsy].
    assert (H3 : eval sto x = EPanic w \/ exists a, eval sto x = EOk a /\ eval sto y = EPanic w) by (eapply Hxy; cycle 1; [exact Hw|cbv beta; intros a b; destruct tx, a, b; try discriminate; apply final_no_panic_cmp]).
    destruct (is_int tx); [eapply Hgen; eauto|discriminate].
  - apply andb_prop in Hsafe as [Hsx Hsy].
    assert (H3 : eval sto x = EPanic w \/ exists a, eval sto x = EOk a /\ eval sto y = EPanic w) by (eapply Hxy; cycle 1; [exact Hw|cbv beta; intros a b; destruct tx, a, b; discriminate]).
    destruct (is_str tx); [eapply Hgen; eauto|]. destruct (is_int tx); [eapply Hgen; eauto|discriminate].
  - apply andb_prop in Hsafe as [Hsx Hsy].
    assert (H3 : eval sto x = EPanic w \/ exists a, eval sto x = EOk a /\ eval sto y = EPanic w) by (eapply Hxy; cycle 1; [exact Hw|cbv beta; intros a b; destruct tx, a, b; discriminate]).
    destruct (is_int tx); [eapply Hgen; eauto|discriminate].
Qed.

Lemma eval_opt_panic (o : option expr) sto w : eval_opt_with (eval sto) o = EPanic w -> exists e, o = Some e /\ eval sto e = EPanic w.
Proof. destruct o as [e|]; cbn; [|discriminate]. intros H. pinv H a; [eauto|discriminate]. Qed.

Lemma eval_opt_ok (o : option expr) sto r : eval_opt_with (eval sto) o = EOk r ->
  match o, r with Some e, Some v => eval sto e = EOk v | None, None => True | _, _ => False end.
Proof. destruct o as [e|]; cbn; intros H; [|now inversion H]. destruct (eval sto e); cbn in H; try discriminate. now inversion H. Qed.

Lemma slice_pan tx x lo hi three : expr_pan x -> (forall e, lo = Some e -> expr_pan e) -> (forall e, hi = Some e -> expr_pan e) ->
  expr_pan (ESlice tx x lo hi three).
Proof.
  intros IHx IHlo IHhi st st' c Hc pc Hat Hpools sto L IL Hloc Hpar Hsafe w Hw X XI vl.
  cbn [cexpr] in Hc. cbn [Sem.eval] in Hw. cbn [safe] in Hsafe.
  destruct three; [discriminate|].
  apply andb_prop in Hsafe as [Hsafe Hsh]. apply andb_prop in Hsafe as [Hsx Hsl].
  match type of Hw with (if ?b then _ else _) = _ => destruct b eqn:Econd end; [discriminate|].
  destruct lo as [l|], hi as [h|]; cbn [opt_with] in *.
  - (* s[l:h] *)
    destruct (is_str tx) eqn:Etx; cbn [negb] in *; [|discriminate].
    cinv Hc. destruct a as [st1 cx]. cinv Hcb. destruct a as [st2 cl]. cinv Hcbb. destruct a as [st3 ch]. inversion Hcbbb; subst. clear Hcbbb.
    pose proof (cexpr_mono env _ _ _ _ Hca) as [Hle1 Hl1]. pose proof (cexpr_mono env _ _ _ _ Hcba) as [Hle2 Hl2].
    pose proof (cexpr_mono env _ _ _ _ Hcbba) as [Hle3 Hl3].
    assert (Hloc1 : locals_ok st1 sto L IL) by (unfold ExprCorrect.locals_ok in *; rewrite Hl1; exact Hloc).
    assert (Hloc2 : locals_ok st2 sto L IL) by (unfold ExprCorrect.locals_ok in *; rewrite Hl2, Hl1; exact Hloc).
    pose proof (pools_ok_le _ _ _ Hle3 Hpools) as Hp2. pose proof (pools_ok_le _ _ _ Hle2 Hp2) as Hp1.
    pinv Hw vs; [eapply IHx; eauto using code_at_app_l|].
    destruct (expr_correct x _ _ _ Hca _ (code_at_app_l _ _ _ _ Hat) Hp1 _ _ _ Hloc Hpar Hsx _ Hwa X XI vl) as (Jx & vl1 & Hs1 & _).
    eapply fails_star; [exact Hs1|]. apply code_at_app_r in Hat.
    pinv Hwb vlo.
    { apply eval_opt_panic in Hwba as (e & E & He). inversion E; subst e. eapply (IHlo l eq_refl); eauto using code_at_app_l, no_logic_safe. }
    apply eval_opt_ok in Hwba. destruct vlo as [wl|]; [|contradiction].
    destruct (expr_correct l _ _ _ Hcba _ (code_at_app_l _ _ _ _ Hat) Hp2 _ _ _ Hloc1 Hpar (no_logic_safe _ Hsl) _ Hwba (push_o vs (Jx ++ X)) (push_i vs XI) vl1) as (Jl & vl2 & Hs2 & HJl).
    rewrite (HJl Hsl) in Hs2. cbn [app] in Hs2.
    eapply fails_star; [exact Hs2|]. apply code_at_app_r in Hat.
    pinv Hwbb vhi.
    { apply eval_opt_panic in Hwbba as (e & E & He). inversion E; subst e. eapply (IHhi h eq_refl); eauto using code_at_app_l, no_logic_safe. }
    apply eval_opt_ok in Hwbba. destruct vhi as [wh|]; [|contradiction].
    destruct (expr_correct h _ _ _ Hcbba _ (code_at_app_l _ _ _ _ Hat) Hpools _ _ _ Hloc2 Hpar (no_logic_safe _ Hsh) _ Hwbba (push_o wl (push_o vs (Jx ++ X))) (push_i wl (push_i vs XI)) vl2) as (Jh & vl3 & Hs3 & HJh).
    rewrite (HJh Hsh) in Hs3. cbn [app] in Hs3.
    eapply fails_star; [exact Hs3|]. apply code_at_app_r in Hat.
    unfold go_slice in Hwbbb. destruct vs as [str| | | | |]; try discriminate. destruct wl as [| |ll| | |]; try discriminate. destruct wh as [| |hh| | |]; try discriminate.
    destruct (slice str ll hh) as [r|w'] eqn:Esl; [discriminate|]. inversion Hwbbb; subst w'.
    eexists. split; [apply star_refl|]. cbn [push_o push_i].
    exact (slice_step_pan KStringSlice str [ll; hh] w Esl _ _ _ _ _ _ _ Hat).
  - (* s[l:] *)
    destruct (is_str tx) eqn:Etx; cbn [negb] in *; [|discriminate].
    pose proof Hc as Hc0.
    cinv Hc. destruct a as [st1 cx]. cinv Hcb. destruct a as [st2 cl]. inversion Hcbb; subst. clear Hcbb.
    pose proof (cexpr_mono env _ _ _ _ Hca) as [Hle1 Hl1]. pose proof (cexpr_mono env _ _ _ _ Hcba) as [Hle2 Hl2].
    assert (Hloc1 : locals_ok st1 sto L IL) by (unfold ExprCorrect.locals_ok in *; rewrite Hl1; exact Hloc).
    pose proof (pools_ok_le _ _ _ Hle2 Hpools) as Hp1.
    pinv Hw vs; [eapply IHx; eauto using code_at_app_l|].
    destruct (expr_correct x _ _ _ Hca _ (code_at_app_l _ _ _ _ Hat) Hp1 _ _ _ Hloc Hpar Hsx _ Hwa X XI vl) as (Jx & vl1 & Hs1 & _).
    eapply fails_star; [exact Hs1|]. apply code_at_app_r in Hat.
    pinv Hwb vlo.
    { apply eval_opt_panic in Hwba as (e & E & He). inversion E; subst e. eapply (IHlo l eq_refl); eauto using code_at_app_l, no_logic_safe. }
    apply eval_opt_ok in Hwba. destruct vlo as [wl|]; [|contradiction].
    destruct (expr_correct l _ _ _ Hcba _ (code_at_app_l _ _ _ _ Hat) Hpools _ _ _ Hloc1 Hpar (no_logic_safe _ Hsl) _ Hwba (push_o vs (Jx ++ X)) (push_i vs XI) vl1) as (Jl & vl2 & Hs2 & HJl).
    rewrite (HJl Hsl) in Hs2. cbn [app] in Hs2.
    eapply fails_star; [exact Hs2|]. apply code_at_app_r in Hat.
    pinv Hwbb vhi; [cbn in Hwbba; discriminate|]. cbn in Hwbba. inversion Hwbba; subst vhi.
    unfold go_slice in Hwbbb. destruct vs as [str| | | | |]; try discriminate. destruct wl as [| |ll| | |]; try discriminate.
    destruct (slice str ll (len str)) as [r|w'] eqn:Esl; [discriminate|]. inversion Hwbbb; subst w'.
    eexists. split; [apply star_refl|]. cbn [push_o push_i].
    exact (slice_step_pan KStringSliceFrom str [ll] w Esl _ _ _ _ _ _ _ Hat).
  - (* s[:h] *)
    destruct (is_str tx) eqn:Etx; cbn [negb] in *; [|discriminate].
    cinv Hc. destruct a as [st1 cx]. cinv Hcb. destruct a as [st2 cl]. inversion Hcbb; subst. clear Hcbb.
    pose proof (cexpr_mono env _ _ _ _ Hca) as [Hle1 Hl1]. pose proof (cexpr_mono env _ _ _ _ Hcba) as [Hle2 Hl2].
    assert (Hloc1 : locals_ok st1 sto L IL) by (unfold ExprCorrect.locals_ok in *; rewrite Hl1; exact Hloc).
    pose proof (pools_ok_le _ _ _ Hle2 Hpools) as Hp1.
    pinv Hw vs; [eapply IHx; eauto using code_at_app_l|].
    destruct (expr_correct x _ _ _ Hca _ (code_at_app_l _ _ _ _ Hat) Hp1 _ _ _ Hloc Hpar Hsx _ Hwa X XI vl) as (Jx & vl1 & Hs1 & _).
    eapply fails_star; [exact Hs1|]. apply code_at_app_r in Hat.
    pinv Hwb vlo; [cbn in Hwba; discriminate|]. cbn in Hwba. inversion Hwba; subst vlo.
    pinv Hwbb vhi.
    { apply eval_opt_panic in Hwbba as (e & E & He). inversion E; subst e. eapply (IHhi h eq_refl); eauto using code_at_app_l, no_logic_safe. }
    apply eval_opt_ok in Hwbba. destruct vhi as [wh|]; [|contradiction].
    destruct (expr_correct h _ _ _ Hcba _ (code_at_app_l _ _ _ _ Hat) Hpools _ _ _ Hloc1 Hpar (no_logic_safe _ Hsh) _ Hwbba (push_o vs (Jx ++ X)) (push_i vs XI) vl1) as (Jh & vl2 & Hs2 & HJh).
    rewrite (HJh Hsh) in Hs2. cbn [app] in Hs2.
    eapply fails_star; [exact Hs2|]. apply code_at_app_r in Hat.
    unfold go_slice in Hwbbb. destruct vs as [str| | | | |]; try discriminate. destruct wh as [| |hh| | |]; try discriminate.
    destruct (slice str 0 hh) as [r|w'] eqn:Esl; [discriminate|]. inversion Hwbbb; subst w'.
    eexists. split; [apply star_refl|]. cbn [push_o push_i].
    exact (slice_step_pan KStringSliceTo str [hh] w Esl _ _ _ _ _ _ _ Hat).
  - (* s[:] *)
    pinv Hw vs; [eapply IHx; eauto|]. pinv Hwb vlo; [cbn in Hwba; discriminate|]. pinv Hwbb vhi; [cbn in Hwbba; discriminate|].
    cbn in Hwba, Hwbba. inversion Hwba; inversion Hwbba; subst. unfold go_slice in Hwbbb. destruct vs; discriminate.
Qed.

Ltac pc_eq := unfold ExprCorrect.S; f_equal; f_equal; f_equal; lia.

(* one argument in its final place on the stacks (boxed if it is an int of the variadic tail) *)
Lemma carg_step vi i e st st1 c1 : cexpr env e st = COk (st1, c1) ->
  forall rest pc, code_at C pc (c1 ++ (if boxed vi i then (if is_int (ty_of e) then [I0 KConvIntToIface] else []) else []) ++ rest) ->
  pools_ok st1 -> forall sto L IL, locals_ok st sto L IL -> params_ok sto -> safe e = true ->
  forall v, eval sto e = EOk v ->
  forall X XI vl, exists Je vl1,
    star (S pc L IL X XI vl)
         (S (pc + size c1 + size (if boxed vi i then (if is_int (ty_of e) then [I0 KConvIntToIface] else []) else [])) L IL
            ((if is_vint v && negb (boxed vi i) then [] else [v]) ++ Je ++ X)
            ((match v with VInt z => if boxed vi i then [] else [z] | _ => [] end) ++ XI) vl1).
Proof.
  intros Hc rest pc Hat Hpools sto L IL Hloc Hpar Hse v Hv X XI vl.
  destruct (expr_correct e _ _ _ Hc _ (code_at_app_l _ _ _ _ Hat) Hpools _ _ _ Hloc Hpar Hse _ Hv X XI vl) as (Je & vl1 & Hs1 & _).
  exists Je, vl1. eapply star_trans; [exact Hs1|]. apply code_at_app_r in Hat.
  pose proof (eval_has_ty _ _ _ _ _ _ Hv) as Hty. pose proof (has_ty_is_vint _ _ Hty) as Hk.
  destruct (boxed vi i).
  - destruct v as [s0|b0|z| |m|o]; cbn [is_vint andb negb push_o push_i app] in *;
      destruct (ty_of e); cbn [is_int_ty] in Hk; try discriminate; cbn [is_int size];
      try (eapply star_eq; [apply star_refl|apply S_eq; lia]).
    cbn [is_int] in Hat. apply code_at_app_l in Hat. step_at Hat. cbn [I0 ikind width operand_of size app]. pc_eq.
  - cbn [size negb andb]. rewrite andb_true_r.
    destruct v; cbn [is_vint push_o push_i app]; eapply star_eq; try apply star_refl; apply S_eq; lia.
Qed.

Notation eval_list sto := (eval_list_with (eval sto)).

Lemma cargs_pan vi l : Forall expr_pan l -> forall i st st' c n, cargs env vi l i st = COk (st', c, n) ->
  forall pc, code_at C pc c -> pools_ok st' ->
  forall sto L IL, locals_ok st sto L IL -> params_ok sto ->
  forall pend, safe_seq l pend i vi = true ->
  forall w, eval_list sto l = EPanic w ->
  forall X XI vl, fails (S pc L IL X XI vl) w.
Proof.
  induction 1 as [|e l He _ IH]; intros i st st' c n Hc pc Hat Hpools sto L IL Hloc Hpar pend Hsafe w Hw X XI vl.
  - cbn in Hw. discriminate.
  - cbn in Hc. cinv Hc. destruct a as [st1 c1]. cinv Hcb. destruct a as [[st2 c2] n2].
    change (safe_seq (e :: l) pend i vi) with ((if pend then no_logic e else safe e) && safe_seq l (pend || on_obj_stack e || boxed vi i) (i + 1) vi) in Hsafe.
    apply andb_prop in Hsafe as [Hse Hsl].
    pose proof (cexpr_mono env _ _ _ _ Hca) as [Hle1 Hl1].
    assert (Hle2 : pool_le st1 st2 /\ cs_locals st2 = cs_locals st1).
    { eapply cargs_mono; [|exact Hcba]. apply Forall_forall. intros; apply cexpr_mono. }
    destruct Hle2 as [Hle2 Hl2].
    assert (Hloc1 : locals_ok st1 sto L IL) by (unfold ExprCorrect.locals_ok in *; rewrite Hl1; exact Hloc).
    assert (Hse' : safe e = true) by (destruct pend; auto using no_logic_safe).
    assert (Hcode : st' = st2 /\ c = c1 ++ (if boxed vi i then (if is_int (ty_of e) then [I0 KConvIntToIface] else []) else []) ++ c2).
    { unfold boxed. destruct (negb (vi =? 0) && (vi <=? i)); inversion Hcbb; subst; auto. }
    destruct Hcode as [-> ->]. clear Hcbb.
    cbn in Hw. pinv Hw v.
    + eapply He; eauto using code_at_app_l, pools_ok_le.
    + pinv Hwb vs'; [|discriminate].
      destruct (carg_step vi i e _ _ _ Hca _ _ Hat (pools_ok_le _ _ _ Hle2 Hpools) _ _ _ Hloc Hpar Hse' _ Hwa X XI vl) as (Je & vl1 & Hs1).
      eapply fails_star; [exact Hs1|]. apply code_at_app_r in Hat. apply code_at_app_r in Hat.
      eapply IH; eauto.
Qed.

Notation cargs_ok := (cargs_ok cfg funcs nat_fun callf env fn C Hfetch B IB top itop K).

Lemma native_call_no_panic id vi r vs w : native_call (nat_sig cfg) nat_fun id vi r vs <> EPanic w.
Proof.
  unfold native_call. destruct (nat_sig cfg id); [|discriminate].
  destruct (negb _); [discriminate|]. destruct (nat_fun id _); [|discriminate]. destruct (results_conform _ _); discriminate.
Qed.

Lemma calls_pan f t recv args : (forall e, recv = Some e -> expr_pan e) -> Forall expr_pan args ->
  forall st st' c, cexpr env (ECall f t recv args) st = COk (st', c) ->
  forall pc, code_at C pc c -> pools_ok st' ->
  forall sto L IL, locals_ok st sto L IL -> params_ok sto ->
  safe (ECall f t recv args) = true ->
  forall w, call_results (nat_sig cfg) nat_fun callf sto f recv args = EPanic w ->
  forall X XI vl, fails (S pc L IL X XI vl) w.
Proof.
  intros IHrecv IHargs st st' c Hc pc Hat Hpools sto L IL Hloc Hpar Hsafe w Hw X XI vl.
  cbn [cexpr] in Hc. cbn [safe] in Hsafe. unfold call_results, call_results_with in Hw.
  destruct f as [| |id vi|id res|]; try discriminate.
  - (* len *)
    destruct args as [|a args]; [discriminate|]. inversion IHargs as [|? ? IHa _]; subst.
    pinv Hw v; [|destruct (ty_of a), v; discriminate].
    cinv Hc. destruct a0 as [st1 ca]. destruct (is_str (ty_of a)); [|discriminate]. inversion Hcb; subst.
    assert (Hsa : safe a = true).
    { destruct recv as [r|]; [apply andb_prop in Hsafe as [_ Hsafe]|]; cbn [safe_seq_with] in Hsafe;
        apply andb_prop in Hsafe as [H _]; [destruct (on_obj_stack r)|]; auto using no_logic_safe. }
    eapply IHa; eauto using code_at_app_l.
  - (* native *)
    cinv Hc. destruct a as [st0 cr]. cinv Hcb. destruct a as [[st1 ca] n].
    assert (Hmono_a : pool_le st0 st1 /\ cs_locals st1 = cs_locals st0).
    { eapply cargs_mono; [|exact Hcba]. apply Forall_forall. intros; apply cexpr_mono. }
    assert (Hmono_r : pool_le st st0 /\ cs_locals st0 = cs_locals st).
    { eapply copt_mono; [|exact Hca]. intros; apply cexpr_mono. }
    destruct Hmono_a as [Hle_a Hl_a]. destruct Hmono_r as [Hle_r Hl_r].
    assert (Hloc0 : locals_ok st0 sto L IL) by (unfold ExprCorrect.locals_ok in *; rewrite Hl_r; exact Hloc).
    assert (Hcode : exists tail, st' = st1 /\ c = cr ++ ca ++ tail).
    { destruct (vi =? 0); [exists [I KCallNative id]; inversion Hcbb; auto|]. destruct (255 <? n); [discriminate|]. eexists; inversion Hcbb; eauto. }
    destruct Hcode as (tail & -> & ->). clear Hcbb.
    pinv Hw r.
    + (* the receiver panics *)
      apply eval_opt_panic in Hwa as (re & -> & Hre). cbn [copt_with] in Hca. apply andb_prop in Hsafe as [Hsre _].
      eapply (IHrecv re eq_refl); eauto using code_at_app_l, pools_ok_le.
    + pinv Hwb vs; [|exfalso; exact (native_call_no_panic _ _ _ _ _ Hwbb)].
      (* an argument panics *)
      assert (Hr : exists Xr XIr vl0 pend, star (S pc L IL X XI vl) (S (pc + size cr) L IL Xr XIr vl0) /\ safe_seq args pend 0 vi = true).
      { destruct recv as [re|]; cbn [eval_opt_with copt_with] in *.
        - apply andb_prop in Hsafe as [Hsre Hsargs].
          assert (Hre : exists r0, eval sto re = EOk r0) by (destruct (eval sto re); cbn in Hwa; try discriminate; eauto).
          destruct Hre as [r0 Hre].
          destruct (expr_correct re _ _ _ Hca _ (code_at_app_l _ _ _ _ Hat) (pools_ok_le _ _ _ Hle_a Hpools) _ _ _ Hloc Hpar Hsre _ Hre X XI vl) as (Jr & vl0 & Hs & _).
          eauto 8.
        - inversion Hca; subst. exists X, XI, vl, false. split; [eapply star_eq; [apply star_refl|apply S_eq; cbn [size]; lia]|exact Hsafe]. }
      destruct Hr as (Xr & XIr & vl0 & pend & Hsr & Hsargs).
      eapply fails_star; [exact Hsr|]. apply code_at_app_r in Hat.
      eapply (cargs_pan vi args IHargs); eauto using code_at_app_l.
  - (* user function *)
    cinv Hc. destruct a as [st0 cr]. cinv Hcb. destruct a as [[st1 ca] n]. inversion Hcbb; subst. clear Hcbb.
    destruct recv as [re|]; [discriminate|]. cbn [copt_with] in Hca. inversion Hca; subst. clear Hca. cbn [app] in *.
    pinv Hw vs.
    + eapply (cargs_pan 0 args IHargs); eauto using code_at_app_l.
    + pinv Hwb r; [|destruct r, res; try discriminate; destruct (has_ty _ _); discriminate].
      destruct (cargs_ok 0 args (proj2 (Forall_forall _ _) (fun e _ => expr_correct e)) _ _ _ _ _ Hcba _ (code_at_app_l _ _ _ _ Hat) Hpools _ _ _ Hloc Hpar false Hsafe _ Hwa X XI vl)
        as (J & vl1 & Hs1 & _).
      eapply fails_star; [exact Hs1|]. apply code_at_app_r in Hat.
      set (k := match res with TVoid => KVoidCall | TInt => KIntCall | _ => KCall end) in *.
      assert (Hk : k = KCall \/ k = KIntCall \/ k = KVoidCall) by (subst k; destruct res; auto).
      pose proof (Hcallp _ _ _ Hwba k Hk fn (pc + size ca) L IL top itop ((J ++ X) ++ B) (XI ++ IB) vl1 K (fetch_at _ _ _ Hat)) as Hf.
      unfold ExprCorrect.S. rewrite <- !app_assoc in *. exact Hf.
Qed.

Lemma typed_no_panic v t w : typed v t <> EPanic w.
Proof. unfold typed. destruct (has_ty v t); discriminate. Qed.

Theorem expr_panics e : expr_pan e.
Proof.
  induction e as [id c|x t|e IHe|e IHe| |op tx e1 e2 IHe1 IHe2|tx e lo hi three IHe IHlo IHhi|f t recv args IHrecv IHargs|nid t e IHe| ]
    using expr_ind'.
  - intros st st' c0 Hc pc Hat Hpools sto L IL Hloc Hpar Hsafe w Hw X XI vl. cbn in Hw. destruct c; discriminate.
  - intros st st' c0 Hc pc Hat Hpools sto L IL Hloc Hpar Hsafe w Hw X XI vl.
    cbn in Hw. destruct (store_get sto x); [exfalso; exact (typed_no_panic _ _ _ Hw)|discriminate].
  - intros st st' c0 Hc pc Hat Hpools sto L IL Hloc Hpar Hsafe w Hw X XI vl.
    cbn [cexpr safe] in *. cbn [Sem.eval] in Hw. eapply IHe; eauto.
  - intros st st' c0 Hc pc Hat Hpools sto L IL Hloc Hpar Hsafe w Hw X XI vl.
    cbn [safe] in *. cbn [Sem.eval] in Hw. pinv Hw v; [|destruct v; discriminate].
    cbn [cexpr] in Hc. eapply (op1_pan KNot e IHe); eauto.
  - intros st st' c0 Hc; discriminate.
  - now apply binary_pan.
  - now apply slice_pan.
  - intros st st' c0 Hc pc Hat Hpools sto L IL Hloc Hpar Hsafe w Hw X XI vl.
    cbn [Sem.eval] in Hw. pinv Hw rs0; [|destruct rs0 as [|v [|]]; try discriminate; exfalso; exact (typed_no_panic _ _ _ Hwb)].
    eapply calls_pan; eauto.
  - intros st st' c0 Hc pc Hat Hpools sto L IL Hloc Hpar Hsafe w Hw X XI vl.
    cbn [cexpr safe] in *. cbn [Sem.eval] in Hw. destruct (nid <? 0); [discriminate|].
    cinv Hc. destruct a as [st1 cx]. inversion Hcb; subst.
    pinv Hw v; [eapply IHe; eauto using code_at_app_l|].
    pinv Hwb rs0; [exfalso; exact (native_call_no_panic _ _ _ _ _ Hwba)|]. destruct rs0 as [|r [|]]; try discriminate. exfalso. exact (typed_no_panic _ _ _ Hwbb).
  - intros st st' c0 Hc; discriminate.
Qed.

End Frame.
