(* The stack discipline of native calls: a native whose pops are the reverse of the declared parameters takes
   exactly the argument values, in declaration order, from stacks laid out by the compiled argument code. *)
From Coq Require Import List ZArith Bool Lia.
From RG.Base Require Import Outcome GoInt GoSlice.
From RG.Quasigo Require Import Source Bytecode Compile VM Sem Guards VMLemmas.
Import ListNotations.
Local Open Scope Z_scope.

(* arguments as they lie on the stacks: argument number j (counted from i) is on the object stack if it is not an
   int or if it belongs to the boxed variadic tail *)
Fixpoint args_o (vi i : Z) (vs : list value) : list value :=
  match vs with
  | [] => []
  | v :: vs' => (if is_vint v && negb (boxed vi i) then [] else [v]) ++ args_o vi (i + 1) vs'
  end.
Fixpoint args_i (vi i : Z) (vs : list value) : list Z :=
  match vs with
  | [] => []
  | v :: vs' => (match v with VInt z => if boxed vi i then [] else [z] | _ => [] end) ++ args_i vi (i + 1) vs'
  end.

Lemma do_pops_app ps1 : forall ps2 o n vl acc,
  do_pops (ps1 ++ ps2) o n vl acc =
  match do_pops ps1 o n vl acc with Some (acc', o', n') => do_pops ps2 o' n' vl acc' | None => None end.
Proof.
  induction ps1 as [|p ps1 IH]; intros ps2 o n vl acc; cbn [app do_pops]; [reflexivity|].
  destruct p.
  - destruct o; [reflexivity|]. apply IH.
  - destruct n; [reflexivity|]. apply IH.
  - destruct ((vl <? 0) || (len o <? vl)); [reflexivity|]. apply IH.
Qed.

Lemma args_boxed vi i vs : vi <> 0 -> vi <= i -> args_o vi i vs = vs /\ args_i vi i vs = [].
Proof.
  revert i. induction vs as [|v vs IH]; intros i Hvi Hi; cbn [args_o args_i]; [auto|].
  assert (Hb : boxed vi i = true).
  { unfold boxed. destruct (Z.eqb_spec vi 0); [lia|]. destruct (Z.leb_spec vi i); [reflexivity|lia]. }
  rewrite Hb. cbn [negb]. rewrite andb_false_r. destruct (IH (i + 1) Hvi ltac:(lia)) as [-> ->].
  split; [reflexivity|]. destruct v; reflexivity.
Qed.

Lemma in_head_not_boxed vi i : in_head vi i = true -> boxed vi i = false.
Proof.
  unfold in_head, boxed. destruct (Z.eqb_spec vi 0); [reflexivity|]. cbn [orb negb andb].
  destruct (Z.ltb_spec i vi); [|discriminate]. intros _. destruct (Z.leb_spec vi i); [lia|reflexivity].
Qed.

Lemma do_pops_conform vi : forall decl avs i,
  args_conform decl avs i vi = true ->
  forall O IO vl acc, (vi <> 0 -> vl = len avs - (vi - i)) ->
  exists groups,
    do_pops (rev decl) (rev (args_o vi i avs) ++ O) (rev (args_i vi i avs) ++ IO) vl acc = Some (groups ++ acc, O, IO) /\
    concat groups = avs.
Proof.
  induction decl as [|d decl IH]; intros avs i Hc O IO vl acc Hvl.
  - destruct avs; cbn in Hc; [|discriminate]. exists []. cbn. auto.
  - destruct d.
    + (* SPop *)
      destruct avs as [|v avs]; [cbn in Hc; destruct decl; discriminate|].
      cbn [args_conform] in Hc. apply andb_prop in Hc as [Hc Hc3]. apply andb_prop in Hc as [Hv Hh].
      apply in_head_not_boxed in Hh. apply negb_true_iff in Hv.
      cbn [rev]. rewrite do_pops_app. cbn [args_o args_i]. rewrite Hh, Hv. cbn [negb andb].
      assert (Ei : (match v with VInt z => [z] | _ => [] end) = []) by (destruct v; cbn in Hv; congruence).
      rewrite Ei. cbn [rev app]. rewrite <- app_assoc.
      destruct (IH avs (i + 1) Hc3 ([v] ++ O) IO vl acc) as (groups & Hp & Hg).
      { intros Hn. rewrite len_cons in Hvl. specialize (Hvl Hn). lia. }
      rewrite Hp. cbn [do_pops app]. exists ([v] :: groups). split; [reflexivity|]. cbn [concat app]. now rewrite Hg.
    + (* SPopInt *)
      destruct avs as [|v avs]; [cbn in Hc; destruct decl; discriminate|].
      cbn [args_conform] in Hc. destruct v as [| |z| | |]; try (destruct decl; discriminate).
      apply andb_prop in Hc as [Hh Hc3]. apply in_head_not_boxed in Hh.
      cbn [rev]. rewrite do_pops_app. cbn [args_o args_i is_vint]. rewrite Hh. cbn [negb andb app].
      cbn [rev app]. rewrite <- app_assoc.
      destruct (IH avs (i + 1) Hc3 O ([z] ++ IO) vl acc) as (groups & Hp & Hg).
      { intros Hn. rewrite len_cons in Hvl. specialize (Hvl Hn). lia. }
      rewrite Hp. cbn [do_pops app]. exists ([VInt z] :: groups). split; [reflexivity|]. cbn [concat app]. now rewrite Hg.
    + (* SPopVariadic: the last declared parameter *)
      destruct decl as [|d' decl'].
      2:{ cbn [args_conform] in Hc. destruct avs; discriminate. }
      cbn [args_conform] in Hc. apply andb_prop in Hc as [Hc Hlen]. apply andb_prop in Hc as [Hi Hn0].
      apply Z.eqb_eq in Hi. apply Z.ltb_lt in Hn0. assert (Hn0' : vi <> 0) by lia. subst i.
      destruct (args_boxed vi vi avs Hn0' ltac:(lia)) as [-> ->].
      specialize (Hvl Hn0'). replace (len avs - (vi - vi)) with (len avs) in Hvl by lia. subst vl.
      cbn [rev app do_pops]. pose proof (len_nonneg' avs). pose proof (len_nonneg' O).
      rewrite len_app', len_rev.
      destruct (Z.ltb_spec (len avs) 0); [lia|]. destruct (Z.ltb_spec (len avs + len O) (len avs)); [lia|]. cbn [orb].
      unfold len at 1 2. rewrite Nat2Z.id.
      assert (Hf : firstn (length avs) (rev avs ++ O) = rev avs).
      { rewrite <- (rev_length avs). rewrite firstn_app, firstn_all, Nat.sub_diag. cbn [firstn]. now rewrite app_nil_r. }
      assert (Hs : skipn (length avs) (rev avs ++ O) = O).
      { rewrite <- (rev_length avs). rewrite skipn_app, skipn_all, Nat.sub_diag. reflexivity. }
      rewrite Hf, Hs, rev_involutive. exists [avs]. cbn [concat app]. now rewrite app_nil_r.
Qed.

Fixpoint pushes_o (res : list value) (X : list value) : list value :=
  match res with [] => X | v :: res' => pushes_o res' (match v with VInt _ => X | _ => v :: X end) end.
Fixpoint pushes_i (res : list value) (XI : list Z) : list Z :=
  match res with [] => XI | v :: res' => pushes_i res' (match v with VInt z => z :: XI | _ => XI end) end.

Lemma do_pushes_conform ps : forall res O IO, results_conform ps res = true ->
  do_pushes ps res O IO = Some (pushes_o res O, pushes_i res IO).
Proof.
  induction ps as [|p ps IH]; intros res O IO H.
  - destruct res; cbn [results_conform] in H; [reflexivity|discriminate].
  - destruct p; destruct res as [|v res]; cbn [results_conform] in H; try discriminate.
    + apply andb_prop in H as [Hv H]. apply negb_true_iff in Hv. cbn [do_pushes pushes_o pushes_i].
      rewrite IH by exact H. destruct v; cbn in Hv; try discriminate; reflexivity.
    + destruct v; try discriminate. cbn [do_pushes pushes_o pushes_i]. now rewrite IH.
Qed.

(* with a variadic tail, the values before it are exactly the declared head parameters *)
Lemma conform_tail_len vi : forall decl avs i, args_conform decl avs i vi = true -> vi <> 0 ->
  0 < vi /\ i <= vi /\ vi - i <= len avs.
Proof.
  induction decl as [|d decl IH]; intros avs i Hc Hvi.
  - destruct avs; cbn in Hc; [apply Z.eqb_eq in Hc; lia|discriminate].
  - destruct d.
    + destruct avs as [|v avs]; [cbn in Hc; destruct decl; discriminate|].
      cbn [args_conform] in Hc. apply andb_prop in Hc as [Hc Hc3]. apply andb_prop in Hc as [_ Hh].
      destruct (IH _ _ Hc3 Hvi) as (H1 & H2 & H3). rewrite len_cons. lia.
    + destruct avs as [|v avs]; [cbn in Hc; destruct decl; discriminate|].
      cbn [args_conform] in Hc. destruct v; try (destruct decl; discriminate).
      apply andb_prop in Hc as [Hh Hc3]. destruct (IH _ _ Hc3 Hvi) as (H1 & H2 & H3). rewrite len_cons. lia.
    + destruct decl; [|cbn [args_conform] in Hc; destruct avs; discriminate].
      cbn [args_conform] in Hc. apply andb_prop in Hc as [Hc _]. apply andb_prop in Hc as [Hi Hp].
      apply Z.eqb_eq in Hi. apply Z.ltb_lt in Hp. pose proof (len_nonneg' avs). lia.
Qed.
