(* Model of ruleguard/quasigo/eval.go + quasigo.Call: a small-step machine with the split object/int stacks,
   frame-relative parameters, per-frame local arrays and the call convention of opCall/opIntCall/opVoidCall.
   The instruction fetch is a parameter of every function ([vf_fetch]): decoding the real byte string
   ([Bytecode.decode_at]) gives the faithful byte-level VM, [Bytecode.instr_at] the VM the proofs reason about. *)
From Coq Require Import List ZArith Bool Lia.
From RG.Base Require Import Outcome GoInt GoSlice.
From RG.Quasigo Require Import Source Bytecode.
Import ListNotations.
Local Open Scope Z_scope.

Inductive value :=
| VStr (s : bytes) | VBool (b : bool) | VInt (z : Z) (* boxed int *) | VNil | VErr (msg : bytes) | VOpaque (tag : bytes).

Record vfunc := mkvfunc {
  vf_fetch : Z -> option instr;
  vf_consts : list value;
  vf_iconsts : list Z;
  vf_nobj : Z;
  vf_nint : Z
}.

Record frame := mkframe {
  fr_fn : vfunc;
  fr_pc : Z;
  fr_locals : list value;
  fr_ilocals : list Z;
  fr_top : Z;
  fr_itop : Z
}.

(* stacks are lists with the top of the stack first *)
Record state := mkstate {
  st_fr : frame;
  st_objs : list value;
  st_ints : list Z;
  st_vlen : Z;
  st_callers : list (frame * opkind)
}.

(* CallResult{value, scalarValue} *)
Record callres := mkres { rv : value; rs : Z }.

Inductive stepres :=
| Next (s : state)
| Done (r : callres) (objs : list value) (ints : list Z)   (* the outermost frame returned *)
| Fail (why : panic_kind)                                   (* a Go run-time panic inside eval *)
| NoOracle.                                                 (* a native call the oracle does not describe *)

(* element at index j counted from the bottom of the stack *)
Definition nth_bottom {A} (l : list A) (j : Z) : option A :=
  if (j <? 0) || (len l <=? j) then None else nth_error l (Z.to_nat (len l - 1 - j)).

(* s[:n] of a Go slice whose elements are stored top-first *)
Definition keep_bottom {A} (l : list A) (n : Z) : option (list A) :=
  if (n <? 0) || (len l <? n) then None else Some (skipn (Z.to_nat (len l - n)) l).

Fixpoint set_nth {A} (l : list A) (i : nat) (v : A) : list A :=
  match l, i with
  | [], _ => []
  | _ :: t, O => v :: t
  | h :: t, S i' => h :: set_nth t i' v
  end.

Definition value_is_nil (v : value) : option bool :=
  match v with
  | VNil => Some true
  | VErr _ | VOpaque _ => Some false
  | _ => None            (* reflect.Value.IsNil panics on these kinds *)
  end.

Section VM.
Variable cfg : config.
Variable funcs : list vfunc.                                   (* env.userFuncs *)
Variable nat_fun : Z -> list value -> option (list value).     (* the bound Go functions, as an oracle *)

Definition zero_locals : list value := repeat VNil (Z.to_nat (max_locals cfg)).
Definition zero_ilocals : list Z := repeat 0 (Z.to_nat (max_locals cfg)).

Definition enter (f : vfunc) (objs : list value) (ints : list Z) : frame :=
  mkframe f 0 zero_locals zero_ilocals (len objs - vf_nobj f) (len ints - vf_nint f).

(* ---- natives ---- *)
(* run the pops of a native: returns the popped groups (last popped first in the list) and the new stacks *)
Fixpoint do_pops (ps : list stackop) (objs : list value) (ints : list Z) (vlen : Z) (acc : list (list value))
  : option (list (list value) * list value * list Z) :=
  match ps with
  | [] => Some (acc, objs, ints)
  | SPop :: ps' => match objs with v :: o' => do_pops ps' o' ints vlen ([v] :: acc) | [] => None end
  | SPopInt :: ps' => match ints with z :: n' => do_pops ps' objs n' vlen ([VInt z] :: acc) | [] => None end
  | SPopVariadic :: ps' =>
      if (vlen <? 0) || (len objs <? vlen) then None
      else do_pops ps' (skipn (Z.to_nat vlen) objs) ints vlen (rev (firstn (Z.to_nat vlen) objs) :: acc)
  end.

Fixpoint do_pushes (ps : list pushop) (vs : list value) (objs : list value) (ints : list Z)
  : option (list value * list Z) :=
  match ps, vs with
  | [], [] => Some (objs, ints)
  | SPush :: ps', v :: vs' => do_pushes ps' vs' (v :: objs) ints
  | SPushInt :: ps', VInt z :: vs' => do_pushes ps' vs' objs (z :: ints)
  | _, _ => None
  end.

Definition ret (s : state) (r : callres) : stepres :=
  match st_callers s with
  | [] => Done r (st_objs s) (st_ints s)
  | (caller, k) :: rest =>
      let fr := st_fr s in
      let cleaned :=
          if call_pops_frame cfg then
            match keep_bottom (st_objs s) (fr_top fr), keep_bottom (st_ints s) (fr_itop fr) with
            | Some o, Some n => Some (o, n)
            | _, _ => None
            end
          else Some (st_objs s, st_ints s) in
      match cleaned with
      | None => Fail PSliceBounds
      | Some (o, n) =>
          let caller' := mkframe (fr_fn caller) (fr_pc caller + 3) (fr_locals caller) (fr_ilocals caller) (fr_top caller) (fr_itop caller) in
          match k with
          | KCall => Next (mkstate caller' (rv r :: o) n (st_vlen s) rest)
          | KIntCall => Next (mkstate caller' o (rs r :: n) (st_vlen s) rest)
          | _ => Next (mkstate caller' o n (st_vlen s) rest)
          end
      end
  end.

Definition step (s : state) : stepres :=
  let fr := st_fr s in
  let fn := fr_fn fr in
  let pc := fr_pc fr in
  let objs := st_objs s in
  let ints := st_ints s in
  let go (w : Z) (o : list value) (n : list Z) :=
      Next (mkstate (mkframe fn (pc + w) (fr_locals fr) (fr_ilocals fr) (fr_top fr) (fr_itop fr)) o n (st_vlen s) (st_callers s)) in
  let jump (d : Z) (o : list value) :=
      Next (mkstate (mkframe fn (pc + d) (fr_locals fr) (fr_ilocals fr) (fr_top fr) (fr_itop fr)) o ints (st_vlen s) (st_callers s)) in
  let setl (ls : list value) (ils : list Z) (o : list value) (n : list Z) :=
      Next (mkstate (mkframe fn (pc + 2) ls ils (fr_top fr) (fr_itop fr)) o n (st_vlen s) (st_callers s)) in
  let cmp (f : Z -> Z -> bool) :=
      match ints with y :: x :: n => go 1 (VBool (f x y) :: objs) n | _ => Fail PIndex end in
  let call (k : opkind) (id : Z) :=
      match nthz funcs id with
      | None => Fail PIndex
      | Some f =>
          let caller := fr in
          Next (mkstate (enter f objs ints) objs ints (st_vlen s) ((caller, k) :: st_callers s))
      end in
  match vf_fetch fn pc with
  | None => Fail PIndex
  | Some (I k a) =>
    match k with
    | KPushParam => match nth_bottom objs (fr_top fr + a) with Some v => go 2 (v :: objs) ints | None => Fail PIndex end
    | KPushIntParam => match nth_bottom ints (fr_itop fr + a) with Some v => go 2 objs (v :: ints) | None => Fail PIndex end
    | KPushLocal => match nthz (fr_locals fr) a with Some v => go 2 (v :: objs) ints | None => Fail PIndex end
    | KPushIntLocal => match nthz (fr_ilocals fr) a with Some v => go 2 objs (v :: ints) | None => Fail PIndex end
    | KSetLocal =>
        match objs with
        | v :: o => if (0 <=? a) && (a <? len (fr_locals fr)) then setl (set_nth (fr_locals fr) (Z.to_nat a) v) (fr_ilocals fr) o ints else Fail PIndex
        | [] => Fail PIndex
        end
    | KSetIntLocal =>
        match ints with
        | v :: n => if (0 <=? a) && (a <? len (fr_ilocals fr)) then setl (fr_locals fr) (set_nth (fr_ilocals fr) (Z.to_nat a) v) objs n else Fail PIndex
        | [] => Fail PIndex
        end
    | KIncLocal =>
        match nthz (fr_ilocals fr) a with
        | Some v => setl (fr_locals fr) (set_nth (fr_ilocals fr) (Z.to_nat a) (iadd v 1)) objs ints
        | None => Fail PIndex
        end
    | KDecLocal =>
        match nthz (fr_ilocals fr) a with
        | Some v => setl (fr_locals fr) (set_nth (fr_ilocals fr) (Z.to_nat a) (isub v 1)) objs ints
        | None => Fail PIndex
        end
    | KPop => match objs with _ :: o => go 1 o ints | [] => Fail PIndex end
    | KDup => match objs with v :: o => go 1 (v :: v :: o) ints | [] => Fail PIndex end
    | KPushConst => match nthz (vf_consts fn) a with Some v => go 2 (v :: objs) ints | None => Fail PIndex end
    | KPushIntConst => match nthz (vf_iconsts fn) a with Some v => go 2 objs (v :: ints) | None => Fail PIndex end
    | KConvIntToIface => match ints with v :: n => go 1 (VInt v :: objs) n | [] => Fail PIndex end
    | KPushTrue => go 1 (VBool true :: objs) ints
    | KPushFalse => go 1 (VBool false :: objs) ints
    | KReturnTrue => ret s (mkres (VBool true) 0)
    | KReturnFalse => ret s (mkres (VBool false) 0)
    | KReturnTop => match objs with v :: _ => ret s (mkres v 0) | [] => Fail PIndex end
    | KReturnIntTop => match ints with v :: _ => ret s (mkres VNil v) | [] => Fail PIndex end
    | KReturn => ret s (mkres VNil 0)
    | KSetVariadicLen =>
        Next (mkstate (mkframe fn (pc + 2) (fr_locals fr) (fr_ilocals fr) (fr_top fr) (fr_itop fr)) objs ints a (st_callers s))
    | KCallNative =>
        match nat_sig cfg a with
        | None => Fail PIndex
        | Some sg =>
            match do_pops (ns_pops sg) objs ints (st_vlen s) [] with
            | None => Fail PIndex
            | Some (groups, o, n) =>
                match nat_fun a (concat groups) with
                | None => NoOracle
                | Some results =>
                    match do_pushes (ns_pushes sg) results o n with
                    | Some (o', n') => go 3 o' n'
                    | None => NoOracle
                    end
                end
            end
        end
    | KCall => call KCall a
    | KIntCall => call KIntCall a
    | KVoidCall => call KVoidCall a
    | KJump => jump a objs
    | KJumpFalse =>
        match objs with
        | VBool b :: o => if b then jump 3 o else jump a o
        | _ :: _ => Fail PTypeAssert
        | [] => Fail PIndex
        end
    | KJumpTrue =>
        match objs with
        | VBool b :: o => if b then jump a o else jump 3 o
        | _ :: _ => Fail PTypeAssert
        | [] => Fail PIndex
        end
    | KNot =>
        match objs with
        | VBool b :: o => go 1 (VBool (negb b) :: o) ints
        | _ :: _ => Fail PTypeAssert
        | [] => Fail PIndex
        end
    | KConcat =>
        match objs with
        | VStr y :: VStr x :: o => go 1 (VStr (x ++ y) :: o) ints
        | _ :: _ :: _ => Fail PTypeAssert
        | _ => Fail PIndex
        end
    | KEqString =>
        match objs with
        | VStr y :: VStr x :: o => go 1 (VBool (bytes_eqb x y) :: o) ints
        | _ :: _ :: _ => Fail PTypeAssert
        | _ => Fail PIndex
        end
    | KNotEqString =>
        match objs with
        | VStr y :: VStr x :: o => go 1 (VBool (negb (bytes_eqb x y)) :: o) ints
        | _ :: _ :: _ => Fail PTypeAssert
        | _ => Fail PIndex
        end
    | KAdd => match ints with y :: x :: n => go 1 objs (iadd x y :: n) | _ => Fail PIndex end
    | KSub => match ints with y :: x :: n => go 1 objs (isub x y :: n) | _ => Fail PIndex end
    | KEqInt => cmp Z.eqb
    | KNotEqInt => cmp (fun x y => negb (x =? y))
    | KGtInt => cmp Z.gtb
    | KGtEqInt => cmp Z.geb
    | KLtInt => cmp Z.ltb
    | KLtEqInt => cmp Z.leb
    | KIsNil =>
        match objs with
        | v :: o => match value_is_nil v with Some b => go 1 (VBool b :: o) ints | None => Fail PExplicit end
        | [] => Fail PIndex
        end
    | KIsNotNil =>
        match objs with
        | v :: o => match value_is_nil v with Some b => go 1 (VBool (negb b) :: o) ints | None => Fail PExplicit end
        | [] => Fail PIndex
        end
    | KStringSlice =>
        match ints, objs with
        | to :: from :: n, VStr str :: o =>
            match slice str from to with Ok r => go 1 (VStr r :: o) n | Panic w => Fail w end
        | _ :: _ :: _, _ :: _ => Fail PTypeAssert
        | _, _ => Fail PIndex
        end
    | KStringSliceFrom =>
        match ints, objs with
        | from :: n, VStr str :: o =>
            match slice str from (len str) with Ok r => go 1 (VStr r :: o) n | Panic w => Fail w end
        | _ :: _, _ :: _ => Fail PTypeAssert
        | _, _ => Fail PIndex
        end
    | KStringSliceTo =>
        match ints, objs with
        | to :: n, VStr str :: o =>
            match slice str 0 to with Ok r => go 1 (VStr r :: o) n | Panic w => Fail w end
        | _ :: _, _ :: _ => Fail PTypeAssert
        | _, _ => Fail PIndex
        end
    | KStringLen =>
        match objs with
        | VStr str :: o => go 1 o (len str :: ints)
        | _ :: _ => Fail PTypeAssert
        | [] => Fail PIndex
        end
    end
  end.

Inductive runres :=
| RDone (r : callres) | RPanic (why : panic_kind) | RNoOracle | ROutOfFuel.

Fixpoint run (fuel : nat) (s : state) : runres :=
  match fuel with
  | O => ROutOfFuel
  | S f =>
      match step s with
      | Next s' => run f s'
      | Done r _ _ => RDone r
      | Fail w => RPanic w
      | NoOracle => RNoOracle
      end
  end.

(* quasigo.Call on a stack holding exactly the arguments, pushed in declaration order *)
Definition push_args (args : list value) : list value * list Z :=
  fold_left (fun '(o, n) v => match v with VInt z => (o, z :: n) | _ => (v :: o, n) end) args ([], []).

Definition call_fun (fuel : nat) (f : vfunc) (args : list value) : runres :=
  let '(o, n) := push_args args in
  run fuel (mkstate (mkframe f 0 zero_locals zero_ilocals 0 0) o n 0 []).

(* the same when an earlier evaluation with the same EvalEnv left [vl0] in the stack's variadicLen register *)
Definition call_fun_vl (vl0 : Z) (fuel : nat) (f : vfunc) (args : list value) : runres :=
  let '(o, n) := push_args args in
  run fuel (mkstate (mkframe f 0 zero_locals zero_ilocals 0 0) o n vl0 []).

End VM.

(* the two instantiations of a compiled function *)
Definition vfunc_of_bytes (cfg : config) (bs : list Z) (consts : list value) (iconsts : list Z) (nobj nint : Z) : vfunc :=
  mkvfunc (decode_at cfg bs) consts iconsts nobj nint.
