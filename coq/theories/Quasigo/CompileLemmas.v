(* Structural facts about the compiler model: state monotonicity, sizes independent of the break distance. *)
From Coq Require Import List ZArith Bool Lia.
From RG.Base Require Import GoSlice.
From RG.Quasigo Require Import Source Bytecode Compile VMLemmas.
Import ListNotations.
Local Open Scope Z_scope.

Lemma cbind_ok {A B} (x : cres A) (f : A -> cres B) b : cbind x f = COk b -> exists a, x = COk a /\ f a = COk b.
Proof. destruct x as [a|e]; cbn; [eauto|discriminate]. Qed.

Ltac cinv H :=
  let a := fresh "a" in let H1 := fresh H "a" in let H2 := fresh H "b" in
  apply cbind_ok in H; destruct H as (a & H1 & H2).

Definition pool_le (a b : cstate) : Prop :=
  (exists l, cs_consts b = cs_consts a ++ l) /\ (exists l, cs_iconsts b = cs_iconsts a ++ l).

Lemma pool_le_refl a : pool_le a a.
Proof. split; exists []; now rewrite app_nil_r. Qed.

Lemma pool_le_trans a b c : pool_le a b -> pool_le b c -> pool_le a c.
Proof.
  intros [[l1 H1] [l2 H2]] [[l3 H3] [l4 H4]]. split.
  - exists (l1 ++ l3). rewrite H3, H1. now rewrite app_assoc.
  - exists (l2 ++ l4). rewrite H4, H2. now rewrite app_assoc.
Qed.

Lemma index_of_nth {A} (eqb : A -> A -> bool) (Heq : forall a b, eqb a b = true -> a = b) x l : forall i0 i,
  index_of eqb x l i0 = Some i -> i0 <= i /\ nth_error l (Z.to_nat (i - i0)) = Some x.
Proof.
  induction l as [|y l IH]; intros i0 i H; cbn [index_of] in H; [discriminate|].
  destruct (eqb x y) eqn:E.
  - inversion H; subst. apply Heq in E. subst. split; [lia|]. now rewrite Z.sub_diag.
  - apply IH in H. destruct H as [Hle Hn]. split; [lia|].
    replace (Z.to_nat (i - i0)) with (S (Z.to_nat (i - (i0 + 1)))) by lia. exact Hn.
Qed.

Lemma index_of_nthz {A} (eqb : A -> A -> bool) (Heq : forall a b, eqb a b = true -> a = b) x l i :
  index_of eqb x l 0 = Some i -> nthz l i = Some x.
Proof.
  intros H. apply index_of_nth in H; [|exact Heq]. destruct H as [Hle Hn].
  unfold nthz. destruct (Z.ltb_spec i 0); [lia|]. now rewrite Z.sub_0_r in Hn.
Qed.

Lemma index_of_lt {A} (eqb : A -> A -> bool) x l : forall i0 i, index_of eqb x l i0 = Some i -> i0 <= i < i0 + len l.
Proof.
  induction l as [|y l IH]; intros i0 i H; cbn [index_of] in H; [discriminate|].
  rewrite len_cons. pose proof (len_nonneg' l). destruct (eqb x y).
  - inversion H; subst. lia.
  - apply IH in H. lia.
Qed.

Lemma bytes_eqb_true a b : bytes_eqb a b = true -> a = b.
Proof. apply bytes_eqb_eq. Qed.

Lemma Zeqb_true a b : Z.eqb a b = true -> a = b.
Proof. apply Z.eqb_eq. Qed.

Lemma intern_str_spec st s st1 id : intern_str st s = (st1, id) ->
  pool_le st st1 /\ cs_locals st1 = cs_locals st /\ nthz (cs_consts st1) id = Some s.
Proof.
  unfold intern_str. destruct (index_of bytes_eqb s (cs_consts st) 0) as [i|] eqn:E; intros H; inversion H; subst; clear H.
  - split; [apply pool_le_refl|]. split; [reflexivity|]. eapply index_of_nthz; eauto using bytes_eqb_true.
  - cbn. split; [|split; [reflexivity|]].
    + split; cbn; [exists [s]; reflexivity|exists []; now rewrite app_nil_r].
    + apply nthz_len_app.
Qed.

Lemma intern_int_spec st z st1 id : intern_int st z = (st1, id) ->
  pool_le st st1 /\ cs_locals st1 = cs_locals st /\ nthz (cs_iconsts st1) id = Some z.
Proof.
  unfold intern_int. destruct (index_of Z.eqb z (cs_iconsts st) 0) as [i|] eqn:E; intros H; inversion H; subst; clear H.
  - split; [apply pool_le_refl|]. split; [reflexivity|]. eapply index_of_nthz; eauto using Zeqb_true.
  - cbn. split; [|split; [reflexivity|]].
    + split; cbn; [exists []; now rewrite app_nil_r|exists [z]; reflexivity].
    + apply nthz_len_app.
Qed.

Section Mono.
Variable env : cenv.

Definition emono (e : expr) : Prop := forall st st' c, cexpr env e st = COk (st', c) -> pool_le st st' /\ cs_locals st' = cs_locals st.

Lemma cconst_mono c st st' code : cconst c st = COk (st', code) -> pool_le st st' /\ cs_locals st' = cs_locals st.
Proof.
  destruct c as [z|s|[|]|]; cbn [cconst]; intros H; try discriminate.
  - destruct (intern_int st z) as [st1 id] eqn:E. destruct (255 <? id); [discriminate|]. inversion H; subst.
    apply intern_int_spec in E. tauto.
  - destruct (intern_str st s) as [st1 id] eqn:E. destruct (255 <? id); [discriminate|]. inversion H; subst.
    apply intern_str_spec in E. tauto.
  - inversion H; subst. split; [apply pool_le_refl|reflexivity].
  - inversion H; subst. split; [apply pool_le_refl|reflexivity].
Qed.

Lemma cident_mono x t st st' c : cident env x t st = COk (st', c) -> st' = st.
Proof.
  unfold cident. destruct (map_get (ce_oparams env) x); [intros H; now inversion H|].
  destruct (map_get (ce_iparams env) x); [intros H; now inversion H|].
  destruct (index_of Z.eqb x (cs_locals st) 0); [intros H; now inversion H|discriminate].
Qed.

Lemma mono_trans a b c : (pool_le a b /\ cs_locals b = cs_locals a) -> (pool_le b c /\ cs_locals c = cs_locals b) ->
  pool_le a c /\ cs_locals c = cs_locals a.
Proof. intros [H1 H2] [H3 H4]. split; [eapply pool_le_trans; eauto|congruence]. Qed.

Lemma cexprs_mono l : Forall emono l -> forall st st' c, cexprs env l st = COk (st', c) ->
  pool_le st st' /\ cs_locals st' = cs_locals st.
Proof.
  induction 1 as [|e l He _ IH]; intros st st' c H; cbn in H.
  - inversion H; subst. split; [apply pool_le_refl|reflexivity].
  - cinv H. destruct a as [st1 c1]. cinv Hb. destruct a as [st2 c2]. inversion Hbb; subst.
    eapply mono_trans; [eapply He; eauto|eapply IH; eauto].
Qed.

Lemma cargs_mono v l : Forall emono l -> forall i st st' c n, cargs env v l i st = COk (st', c, n) ->
  pool_le st st' /\ cs_locals st' = cs_locals st.
Proof.
  induction 1 as [|e l He _ IH]; intros i st st' c n H; cbn in H.
  - inversion H; subst. split; [apply pool_le_refl|reflexivity].
  - cinv H. destruct a as [st1 c1]. cinv Hb. destruct a as [[st2 c2] n2].
    assert (st' = st2) as -> by (destruct (negb (v =? 0) && (v <=? i)); now inversion Hbb).
    eapply mono_trans; [eapply He; eauto|eapply IH; eauto].
Qed.

Lemma copt_mono o : (forall e, o = Some e -> emono e) -> forall st st' c, copt_with (cexpr env) o st = COk (st', c) ->
  pool_le st st' /\ cs_locals st' = cs_locals st.
Proof.
  destruct o as [e|]; intros He st st' c H; cbn in H.
  - eapply He; eauto.
  - inversion H; subst. split; [apply pool_le_refl|reflexivity].
Qed.

Ltac mono_step IHx :=
  match goal with
  | H : cexpr _ _ ?x ?s = COk (?s', _) |- _ => apply IHx in H
  end.

Lemma cexpr_mono e : emono e.
Proof.
  induction e as [id c|x t|e IHe|e IHe| |op tx e1 e2 IHe1 IHe2|tx e lo hi three IHe IHlo IHhi|f t recv args IHrecv IHargs|nid t e IHe| ]
    using expr_ind'; intros st st' code Hc; cbn [cexpr] in Hc.
  - eapply cconst_mono; eauto.
  - apply cident_mono in Hc. subst. split; [apply pool_le_refl|reflexivity].
  - eapply IHe; eauto.
  - cinv Hc. destruct a as [st1 cx]. inversion Hcb; subst. eapply IHe; eauto.
  - discriminate.
  - (* binary *)
    assert (Hop2 : forall k, (do '(st1, cx) <- cexpr env e1 st;; do '(st2, cy) <- cexpr env e2 st1;; COk (st2, cx ++ cy ++ [I0 k])) = COk (st', code) ->
                   pool_le st st' /\ cs_locals st' = cs_locals st).
    { intros k Hk. cinv Hk. destruct a as [st1 cx]. cinv Hkb. destruct a as [st2 cy]. inversion Hkbb; subst.
      eapply mono_trans; [eapply IHe1; eauto|eapply IHe2; eauto]. }
    assert (Hop1 : forall k x, emono x -> (do '(st1, cx) <- cexpr env x st;; COk (st1, cx ++ [I0 k])) = COk (st', code) ->
                   pool_le st st' /\ cs_locals st' = cs_locals st).
    { intros k x Hx Hk. cinv Hk. destruct a as [st1 cx]. inversion Hkb; subst. eapply Hx; eauto. }
    destruct op; try discriminate;
      repeat match type of Hc with
             | (if ?b then _ else _) = _ => destruct b
             end; try discriminate; eauto.
    + cinv Hc. destruct a as [st1 cx]. cinv Hcb. destruct a as [st2 cy]. inversion Hcbb; subst.
      eapply mono_trans; [eapply IHe1; eauto|eapply IHe2; eauto].
    + cinv Hc. destruct a as [st1 cx]. cinv Hcb. destruct a as [st2 cy]. inversion Hcbb; subst.
      eapply mono_trans; [eapply IHe1; eauto|eapply IHe2; eauto].
  - (* slice *)
    destruct three; [discriminate|].
    destruct lo as [l|], hi as [h|].
    + destruct (negb (is_str tx)); [discriminate|].
      cinv Hc. destruct a as [st1 cx]. cinv Hcb. destruct a as [st2 cl]. cinv Hcbb. destruct a as [st3 ch]. inversion Hcbbb; subst.
      eapply mono_trans; [eapply IHe; eauto|]. eapply mono_trans; [eapply (IHlo l); eauto|eapply (IHhi h); eauto].
    + destruct (negb (is_str tx)); [discriminate|].
      cinv Hc. destruct a as [st1 cx]. cinv Hcb. destruct a as [st2 cl]. inversion Hcbb; subst.
      eapply mono_trans; [eapply IHe; eauto|eapply (IHlo l); eauto].
    + destruct (negb (is_str tx)); [discriminate|].
      cinv Hc. destruct a as [st1 cx]. cinv Hcb. destruct a as [st2 cl]. inversion Hcbb; subst.
      eapply mono_trans; [eapply IHe; eauto|eapply (IHhi h); eauto].
    + eapply IHe; eauto.
  - (* call *)
    destruct f as [| |id variadic|id res|]; try discriminate.
    + destruct args as [|a args]; [discriminate|]. cinv Hc. destruct a0 as [st1 ca].
      destruct (is_str (ty_of a)); [|discriminate]. inversion Hcb; subst.
      inversion IHargs; subst. eauto.
    + cinv Hc. destruct a as [st0 cr]. cinv Hcb. destruct a as [[st1 ca] n].
      assert (st' = st1) as ->.
      { destruct (variadic =? 0); [now inversion Hcbb|]. destruct (255 <? n); [discriminate|now inversion Hcbb]. }
      eapply mono_trans; [eapply copt_mono; eauto|eapply cargs_mono; eauto].
    + cinv Hc. destruct a as [st0 cr]. cinv Hcb. destruct a as [[st1 ca] n]. inversion Hcbb; subst.
      eapply mono_trans; [eapply copt_mono; eauto|eapply cargs_mono; eauto].
  - destruct (nid <? 0); [discriminate|]. cinv Hc. destruct a as [st1 cx]. inversion Hcb; subst. eapply IHe; eauto.
  - discriminate.
Qed.

End Mono.
