(* Generic facts about the quasigo VM model: code placement, stack indexing from the bottom, star. *)
From Coq Require Import List ZArith Bool Lia.
From RG.Base Require Import Outcome GoInt GoSlice.
From RG.Quasigo Require Import Source Bytecode VM.
Import ListNotations.
Local Open Scope Z_scope.

#[global] Arguments Z.add : simpl never.
#[global] Arguments Z.sub : simpl never.
#[global] Arguments Z.opp : simpl never.
#[global] Arguments Z.of_nat : simpl never.
#[global] Arguments Z.mul : simpl never.

Lemma len_cons {A} (x : A) l : len (x :: l) = 1 + len l.
Proof. unfold len. cbn [length]. lia. Qed.

Lemma len_app' {A} (a b : list A) : len (a ++ b) = len a + len b.
Proof. unfold len. rewrite app_length. lia. Qed.

Lemma len_nonneg' {A} (l : list A) : 0 <= len l.
Proof. unfold len. lia. Qed.

Lemma len_rev {A} (l : list A) : len (rev l) = len l.
Proof. unfold len. now rewrite rev_length. Qed.

(* ---- code placement ---- *)
Definition code_at (C : code) (p : Z) (c : code) : Prop :=
  exists C1 C2, C = C1 ++ c ++ C2 /\ size C1 = p.

Lemma code_at_app_l C p a b : code_at C p (a ++ b) -> code_at C p a.
Proof. intros (C1 & C2 & HC & H). exists C1, (b ++ C2). split; [|exact H]. rewrite HC. now rewrite <- app_assoc. Qed.

Lemma code_at_app_r C p a b : code_at C p (a ++ b) -> code_at C (p + size a) b.
Proof.
  intros (C1 & C2 & HC & H). exists (C1 ++ a), C2. split.
  - rewrite HC. now rewrite <- !app_assoc.
  - rewrite size_app. lia.
Qed.

Lemma code_at_cons_r C p i b : code_at C p (i :: b) -> code_at C (p + width (ikind i)) b.
Proof. intros H. apply (code_at_app_r C p [i] b) in H. cbn [size] in H. replace (p + width (ikind i)) with (p + (width (ikind i) + 0)) by lia. exact H. Qed.

Lemma instr_at_skip C1 : forall rest, instr_at (C1 ++ rest) (size C1) = instr_at rest 0.
Proof.
  induction C1 as [|a C1 IH]; intros rest; cbn [app size instr_at]; [reflexivity|].
  pose proof (width_pos (ikind a)). pose proof (size_nonneg C1).
  destruct (Z.eqb_spec (width (ikind a) + size C1) 0); [lia|].
  destruct (Z.ltb_spec (width (ikind a) + size C1) (width (ikind a))); [lia|].
  replace (width (ikind a) + size C1 - width (ikind a)) with (size C1) by lia. apply IH.
Qed.

Lemma code_at_head C p i c : code_at C p (i :: c) -> instr_at C p = Some i.
Proof.
  intros (C1 & C2 & HC & H). subst p. rewrite HC. rewrite instr_at_skip. reflexivity.
Qed.

(* ---- stacks indexed from the bottom ---- *)
Lemma nth_bottom_app {A} (X B : list A) j : 0 <= j < len B -> nth_bottom (X ++ B) j = nth_bottom B j.
Proof.
  intros Hj. unfold nth_bottom. rewrite len_app'.
  pose proof (len_nonneg' X).
  destruct (Z.ltb_spec j 0); [lia|]. cbn [orb].
  destruct (Z.leb_spec (len X + len B) j); [lia|].
  destruct (Z.leb_spec (len B) j); [lia|].
  rewrite nth_error_app2 by (unfold len in *; lia).
  f_equal. unfold len in *. lia.
Qed.

Lemma nth_error_rev {A} (l : list A) n : (n < length l)%nat -> nth_error (rev l) n = nth_error l (length l - 1 - n).
Proof.
  induction l as [|a l IH]; intros Hn; cbn [length] in *; [lia|].
  cbn [rev]. destruct (Nat.eq_dec n (length l)) as [->|Hne].
  - rewrite nth_error_app2 by (rewrite rev_length; lia). rewrite rev_length, Nat.sub_diag.
    replace (S (length l) - 1 - length l)%nat with 0%nat by lia. reflexivity.
  - rewrite nth_error_app1 by (rewrite rev_length; lia). rewrite IH by lia.
    replace (S (length l) - 1 - n)%nat with (S (length l - 1 - n)) by lia. reflexivity.
Qed.

Lemma nth_bottom_rev_args {A} (args below : list A) i :
  0 <= i < len args -> nth_bottom (rev args ++ below) (len below + i) = nth_error args (Z.to_nat i).
Proof.
  intros Hi. unfold nth_bottom. rewrite len_app', len_rev.
  pose proof (len_nonneg' below).
  destruct (Z.ltb_spec (len below + i) 0); [lia|]. cbn [orb].
  destruct (Z.leb_spec (len args + len below) (len below + i)); [lia|].
  replace (len args + len below - 1 - (len below + i)) with (len args - 1 - i) by lia.
  rewrite nth_error_app1 by (rewrite rev_length; unfold len in *; lia).
  assert (Hlt : (Z.to_nat i < length args)%nat) by (unfold len in *; lia).
  rewrite nth_error_rev by (unfold len in *; lia).
  f_equal. unfold len in *. lia.
Qed.

Lemma keep_bottom_app {A} (X B : list A) : keep_bottom (X ++ B) (len B) = Some B.
Proof.
  unfold keep_bottom. rewrite len_app'. pose proof (len_nonneg' X). pose proof (len_nonneg' B).
  destruct (Z.ltb_spec (len B) 0); [lia|]. cbn [orb].
  destruct (Z.ltb_spec (len X + len B) (len B)); [lia|].
  replace (len X + len B - len B) with (len X) by lia.
  unfold len. rewrite Nat2Z.id. rewrite skipn_app, skipn_all, Nat.sub_diag. reflexivity.
Qed.

Lemma nthz_app_l {A} (a b : list A) i x : nthz a i = Some x -> nthz (a ++ b) i = Some x.
Proof.
  unfold nthz. destruct (i <? 0); [discriminate|]. intros H.
  rewrite nth_error_app1; [exact H|]. apply nth_error_Some. congruence.
Qed.

Lemma nthz_len_app {A} (a : list A) x b : nthz (a ++ x :: b) (len a) = Some x.
Proof.
  unfold nthz. pose proof (len_nonneg' a). destruct (Z.ltb_spec (len a) 0); [lia|].
  unfold len. rewrite Nat2Z.id. rewrite nth_error_app2 by lia. now rewrite Nat.sub_diag.
Qed.

Lemma nthz_set_nth_same {A} (l : list A) i v : 0 <= i < len l -> nthz (set_nth l (Z.to_nat i) v) i = Some v.
Proof.
  intros Hi. unfold nthz. destruct (Z.ltb_spec i 0) as [Hneg|Hneg]; [lia|].
  assert (Hlt : (Z.to_nat i < length l)%nat) by (unfold len in *; lia).
  clear Hi Hneg. revert Hlt. generalize (Z.to_nat i) as n. clear.
  induction l as [|h t IH]; intros n Hn; cbn [length] in Hn; [lia|].
  destruct n; cbn; [reflexivity|]. apply IH. lia.
Qed.

Lemma nthz_set_nth_other {A} (l : list A) i j v : 0 <= i -> 0 <= j -> i <> j -> nthz (set_nth l (Z.to_nat i) v) j = nthz l j.
Proof.
  intros Hi Hj Hne. unfold nthz. destruct (Z.ltb_spec j 0) as [Hneg|Hneg]; [lia|].
  assert (Hd : Z.to_nat i <> Z.to_nat j) by lia.
  clear Hi Hj Hne Hneg. revert Hd. generalize (Z.to_nat i) as n. generalize (Z.to_nat j) as m. clear.
  induction l as [|h t IH]; intros m n Hne; [destruct n; reflexivity|].
  destruct n, m; cbn; try reflexivity; try congruence. apply IH. congruence.
Qed.

Lemma len_set_nth {A} (l : list A) n v : len (set_nth l n v) = len l.
Proof.
  unfold len. f_equal. revert n. induction l as [|h t IH]; intros n; [destruct n; reflexivity|].
  destruct n; cbn; [reflexivity|]. now rewrite IH.
Qed.

Lemma len_repeat {A} (x : A) n : len (repeat x n) = Z.of_nat n.
Proof. unfold len. now rewrite repeat_length. Qed.

Lemma nthz_repeat {A} (x : A) n i : 0 <= i < Z.of_nat n -> nthz (repeat x n) i = Some x.
Proof.
  intros Hi. unfold nthz. destruct (Z.ltb_spec i 0) as [Hneg|Hneg]; [lia|].
  assert (Hlt : (Z.to_nat i < n)%nat) by lia. clear Hi Hneg. revert Hlt. generalize (Z.to_nat i). clear.
  induction n as [|n IH]; intros m Hm; [lia|]. destruct m; cbn; [reflexivity|]. apply IH. lia.
Qed.

(* ---- star ---- *)
Section Star.
Variable cfg : config.
Variable funcs : list vfunc.
Variable nat_fun : Z -> list value -> option (list value).

Inductive star : state -> state -> Prop :=
| star_refl s : star s s
| star_step s s' s'' : step cfg funcs nat_fun s = Next s' -> star s' s'' -> star s s''.

Lemma star_trans a b c : star a b -> star b c -> star a c.
Proof. induction 1; eauto using star. Qed.

Lemma star_one a b : step cfg funcs nat_fun a = Next b -> star a b.
Proof. eauto using star. Qed.

Lemma star_eq a b b' : star a b -> b = b' -> star a b'.
Proof. now intros H <-. Qed.

(* the machine reaches a state whose next step is the return of result r from the current frame *)
Lemma run_star fuel a b : star a b -> forall r, run cfg funcs nat_fun fuel b = RDone r ->
  exists fuel', run cfg funcs nat_fun fuel' a = RDone r.
Proof.
  induction 1 as [s|s s' s'' Hs _ IH]; intros r Hr; [eauto|].
  destruct (IH r Hr) as [f' Hf']. exists (S f'). cbn [run]. now rewrite Hs.
Qed.

End Star.
