(* Linking a compiled function into the VM. *)
From Coq Require Import List ZArith Bool.
From RG.Base Require Import GoSlice.
From RG.Quasigo Require Import Source Bytecode Compile VM.
Import ListNotations.
Local Open Scope Z_scope.

Definition cfunc_consts (c : cfunc) : list value := map VStr (cf_consts c).

(* the instruction-level view of a compiled function (the byte-level view is [vfunc_of_bytes] of its assembly) *)
Definition vfunc_of_cfunc (c : cfunc) : vfunc :=
  mkvfunc (instr_at (cf_code c)) (cfunc_consts c) (cf_iconsts c) (cf_nobj c) (cf_nint c).
