(* Go semantics of the quasigo source language: a fuel-indexed big-step interpreter.
   int = 64-bit two's complement (wrap64), strings = byte strings, slicing panics out of range, operands and
   arguments are evaluated left to right, || and && short-circuit. The bound Go functions (strings.*, strconv.*,
   fmt.Sprintf, ...) are an oracle [nat_fun] taking the argument values in declaration order.
   Variables live in one flat store: this coincides with Go's block scoping for functions in which no name is
   declared twice and no local is named like a parameter ([unique_defs] in Correct.v) - the only functions
   the compiler accepts. The interpreter is validated against the Go toolchain on every run of the check. *)
From Coq Require Import List ZArith Bool Lia.
From RG.Base Require Import Outcome GoInt GoSlice.
From RG.Quasigo Require Import Source Bytecode VM.
Import ListNotations.
Local Open Scope Z_scope.

Inductive eres (A : Type) :=
| EOk (a : A)
| EPanic (w : panic_kind)      (* Go run-time panic *)
| EStuck                        (* not a well-typed program of the subset *)
| ENoOracle
| EFuel.
Arguments EOk {A} a.
Arguments EPanic {A} w.
Arguments EStuck {A}.
Arguments ENoOracle {A}.
Arguments EFuel {A}.

Definition ebind {A B} (x : eres A) (f : A -> eres B) : eres B :=
  match x with EOk a => f a | EPanic w => EPanic w | EStuck => EStuck | ENoOracle => ENoOracle | EFuel => EFuel end.
Notation "'let!' x := a 'in' b" := (ebind a (fun x => b)) (at level 200, x name, a at level 100, b at level 200).

Definition store := list (Z * value).
Fixpoint store_get (s : store) (x : Z) : option value :=
  match s with [] => None | (y, v) :: s' => if x =? y then Some v else store_get s' x end.
Fixpoint store_set (s : store) (x : Z) (v : value) : store :=
  match s with
  | [] => [(x, v)]
  | (y, w) :: s' => if x =? y then (x, v) :: s' else (y, w) :: store_set s' x v
  end.

(* The annotations go/types attached to the syntax are checked while running: a run that is not stuck used
   every annotation consistently with the values it met. *)
Definition has_ty (v : value) (t : ty) : bool :=
  match v, t with
  | VInt _, TInt | VStr _, TStr | VBool _, TBool => true
  | (VNil | VErr _ | VOpaque _), (TIface | TPtr) => true
  | _, _ => false
  end.

Definition typed (v : value) (t : ty) : eres value := if has_ty v t then EOk v else EStuck.

Definition of_const (c : constv) : eres value :=
  match c with CInt z => EOk (VInt z) | CStr s => EOk (VStr s) | CBool b => EOk (VBool b) | CUnsupported => EStuck end.

(* x == y as far as the subset defines it *)
Definition go_eq (a b : value) : eres bool :=
  match a, b with
  | VInt x, VInt y => EOk (x =? y)
  | VStr x, VStr y => EOk (bytes_eqb x y)
  | VNil, VNil => EOk true
  | VNil, (VErr _ | VOpaque _) | (VErr _ | VOpaque _), VNil => EOk false
  | _, _ => EStuck
  end.

Definition int_cmp (op : binop) (x y : Z) : eres value :=
  match op with
  | OGtr => EOk (VBool (x >? y)) | OGeq => EOk (VBool (x >=? y))
  | OLss => EOk (VBool (x <? y)) | OLeq => EOk (VBool (x <=? y))
  | _ => EStuck
  end.

Definition go_slice (s : value) (lo hi : option value) : eres value :=
  match s with
  | VStr str =>
      match lo, hi with
      | None, None => EOk (VStr str)
      | Some (VInt l), None => match slice str l (len str) with Ok r => EOk (VStr r) | Panic w => EPanic w end
      | None, Some (VInt h) => match slice str 0 h with Ok r => EOk (VStr r) | Panic w => EPanic w end
      | Some (VInt l), Some (VInt h) => match slice str l h with Ok r => EOk (VStr r) | Panic w => EPanic w end
      | _, _ => EStuck
      end
  | _ => EStuck
  end.

Definition is_vint (v : value) : bool := match v with VInt _ => true | _ => false end.
Definition opt_list {A} (o : option A) : list A := match o with Some a => [a] | None => [] end.

(* the argument values fit the declared parameters (in declaration order; the receiver, if any, has index -1):
   an int parameter takes an int, any other parameter a non-int value, the variadic tail starts at index
   [variadic] (as the call site computed it) and takes the rest *)
(* argument number i precedes the variadic tail that starts at index [variadic] (0 = no tail) *)
Definition in_head (variadic i : Z) : bool := (variadic =? 0) || (i <? variadic).

Fixpoint args_conform (decl : list stackop) (vs : list value) (i variadic : Z) : bool :=
  match decl, vs with
  | [], [] => variadic =? 0
  | [SPopVariadic], _ => (i =? variadic) && (0 <? variadic) && (len vs <=? 255)
  | SPop :: d', v :: vs' => negb (is_vint v) && in_head variadic i && args_conform d' vs' (i + 1) variadic
  | SPopInt :: d', VInt _ :: vs' => in_head variadic i && args_conform d' vs' (i + 1) variadic
  | _, _ => false
  end.

Fixpoint results_conform (ps : list pushop) (vs : list value) : bool :=
  match ps, vs with
  | [], [] => true
  | SPush :: ps', v :: vs' => negb (is_vint v) && results_conform ps' vs'
  | SPushInt :: ps', VInt _ :: vs' => results_conform ps' vs'
  | _, _ => false
  end.

(* a call of bound Go function number id: its declared signature [nat_sig id] and the oracle for its results *)
Definition native_call (nat_sig : Z -> option natsig) (nat_fun : Z -> list value -> option (list value))
    (id variadic : Z) (recv : option value) (vs : list value) : eres (list value) :=
  match nat_sig id with
  | None => EStuck
  | Some sg =>
      if negb (args_conform (rev (ns_pops sg)) (opt_list recv ++ vs) (match recv with Some _ => -1 | None => 0 end) variadic)
      then EStuck
      else match nat_fun id (opt_list recv ++ vs) with
           | None => ENoOracle
           | Some res => if results_conform (ns_pushes sg) res then EOk res else EStuck
           end
  end.

Section Sem.
Variable nat_sig : Z -> option natsig.
Variable nat_fun : Z -> list value -> option (list value).
(* calling user function number id with argument values; None result = no value (void) *)
Variable callf : Z -> list value -> eres (option value).

Definition eval_list_with (ev : expr -> eres value) : list expr -> eres (list value) :=
  fix go (l : list expr) : eres (list value) :=
    match l with
    | [] => EOk []
    | e :: l' => let! v := ev e in let! vs := go l' in EOk (v :: vs)
    end.

Definition eval_opt_with (ev : expr -> eres value) (o : option expr) : eres (option value) :=
  match o with None => EOk None | Some e => let! v := ev e in EOk (Some v) end.

(* all results of a call expression (a native may return a tuple) *)
Definition call_results_with (ev : expr -> eres value) (f : callee) (recv : option expr) (args : list expr) : eres (list value) :=
  match f with
  | FLen =>
      match args with
      | a :: _ => let! v := ev a in match ty_of a, v with TStr, VStr s => EOk [VInt (len s)] | _, _ => EStuck end
      | _ => EStuck
      end
  | FNative id variadic =>
      let! r := eval_opt_with ev recv in
      let! vs := eval_list_with ev args in
      native_call nat_sig nat_fun id variadic r vs
  | FUser id res =>
      match recv with
      | Some _ => EStuck
      | None =>
          let! vs := eval_list_with ev args in
          let! r := callf id vs in
          match r, res with
          | None, TVoid => EOk []
          | Some v, _ => if has_ty v res then EOk [v] else EStuck
          | _, _ => EStuck
          end
      end
  | FBuiltin | FUnresolved => EStuck
  end.

Variable st : store.

Fixpoint eval (e : expr) {struct e} : eres value :=
  match e with
  | EConst _ c => of_const c
  | EIdent x t => match store_get st x with Some v => typed v t | None => EStuck end
  | EParen x => eval x
  | ENot x => let! v := eval x in match v with VBool b => EOk (VBool (negb b)) | _ => EStuck end
  | EUnaryBad | EBad => EStuck
  | EBinary op tx x y =>
      match op with
      | OLor => let! a := eval x in
                match a with VBool true => EOk (VBool true) | VBool false => let! b := eval y in
                                                                match b with VBool _ => EOk b | _ => EStuck end
                        | _ => EStuck end
      | OLand => let! a := eval x in
                 match a with VBool false => EOk (VBool false) | VBool true => let! b := eval y in
                                                                  match b with VBool _ => EOk b | _ => EStuck end
                         | _ => EStuck end
      | OEql | ONeq =>
          let neg := match op with ONeq => true | _ => false end in
          if ident_name x =? name_nil then
            let! b := eval y in match value_is_nil b with Some r => EOk (VBool (if neg then negb r else r)) | None => EStuck end
          else if ident_name y =? name_nil then
            let! a := eval x in match value_is_nil a with Some r => EOk (VBool (if neg then negb r else r)) | None => EStuck end
          else
            let! a := eval x in let! b := eval y in
            match tx, a, b with
            | TStr, VStr p, VStr q => EOk (VBool (if neg then negb (bytes_eqb p q) else bytes_eqb p q))
            | TInt, VInt p, VInt q => EOk (VBool (if neg then negb (p =? q) else (p =? q)))
            | _, _, _ => EStuck
            end
      | OGtr | OGeq | OLss | OLeq =>
          let! a := eval x in let! b := eval y in
          match tx, a, b with TInt, VInt p, VInt q => int_cmp op p q | _, _, _ => EStuck end
      | OAdd => let! a := eval x in let! b := eval y in
                match tx, a, b with
                | TInt, VInt p, VInt q => EOk (VInt (iadd p q))
                | TStr, VStr p, VStr q => EOk (VStr (p ++ q))
                | _, _, _ => EStuck end
      | OSub => let! a := eval x in let! b := eval y in
                match tx, a, b with TInt, VInt p, VInt q => EOk (VInt (isub p q)) | _, _, _ => EStuck end
      | OBad => EStuck
      end
  | ESlice tx x lo hi three =>
      if three then EStuck else
      if negb (match lo, hi with None, None => true | _, _ => match tx with TStr => true | _ => false end end) then EStuck else
      let! s := eval x in
      let! l := eval_opt_with eval lo in
      let! h := eval_opt_with eval hi in
      go_slice s l h
  | ECall f t recv args =>
      let! rs := call_results_with eval f recv args in
      match rs with [v] => typed v t | _ => EStuck end
  | ESelector nid t x =>
      let! v := eval x in
      let! rs := native_call nat_sig nat_fun nid 0 (Some v) [] in
      match rs with [r] => typed r t | _ => EStuck end
  end.

Definition eval_list := eval_list_with eval.
Definition call_results := call_results_with eval.

(* right-hand side of an assignment to n variables *)
Definition eval_rhs (n : nat) (rhs : expr) : eres (list value) :=
  match n with
  | 1%nat => let! v := eval rhs in EOk [v]
  | _ => match rhs with
         | ECall f _ recv args => let! rs := call_results f recv args in
                                  if (length rs =? n)%nat then EOk rs else EStuck
         | _ => EStuck
         end
  end.

End Sem.

Inductive out :=
| ONormal (st : store)
| OBreak (st : store)
| OReturn (v : option value).

Fixpoint assign_all (st : store) (xs : list (Z * ty)) (vs : list value) : option store :=
  match xs, vs with
  | [], [] => Some st
    | (x, t) :: xs', v :: vs' => if has_ty v t then assign_all (store_set st x v) xs' vs' else None
  | _, _ => None
  end.

Section Exec.
Variable nat_sig : Z -> option natsig.
Variable nat_fun : Z -> list value -> option (list value).
Variable callf : Z -> list value -> eres (option value).

Definition block_with (ex : stmt -> store -> eres out) : list stmt -> store -> eres out :=
  fix go (l : list stmt) (st : store) : eres out :=
    match l with
    | [] => EOk (ONormal st)
    | s :: l' => let! o := ex s st in match o with ONormal st' => go l' st' | _ => EOk o end
    end.

Definition exec_opt_with (ex : stmt -> store -> eres out) (o : option stmt) (st : store) : eres out :=
  match o with None => EOk (ONormal st) | Some s => ex s st end.

Definition as_bool (v : value) : eres bool := match v with VBool b => EOk b | _ => EStuck end.

Fixpoint exec (fuel : nat) (s : stmt) (st : store) {struct fuel} : eres out :=
  match fuel with
  | O => EFuel
  | S f =>
    let ev := eval nat_sig nat_fun callf in
    match s with
    | SReturn [] => EOk (OReturn None)
    | SReturn (e :: _) => let! v := ev st e in EOk (OReturn (Some v))
    | SAssign tok lhs nrhs rhs =>
        if negb (nrhs =? 1) then EStuck else
        let! vs := eval_rhs nat_sig nat_fun callf st (length lhs) rhs in
        match tok, lhs, vs with
        | (ADefine | AAssign), _, _ =>
            match assign_all st lhs vs with Some st' => EOk (ONormal st') | None => EStuck end
        | AAddAssign, [(x, _)], [v] =>
            match store_get st x, v with
            | Some (VInt a), VInt b => EOk (ONormal (store_set st x (VInt (iadd a b))))
            | Some (VStr a), VStr b => EOk (ONormal (store_set st x (VStr (a ++ b))))
            | _, _ => EStuck
            end
        | ASubAssign, [(x, _)], [v] =>
            match store_get st x, v with
            | Some (VInt a), VInt b => EOk (ONormal (store_set st x (VInt (isub a b))))
            | _, _ => EStuck
            end
        | _, _, _ => EStuck
        end
    | SIncDec x inc =>
        match store_get st x with
        | Some (VInt a) => EOk (ONormal (store_set st x (VInt (if inc then iadd a 1 else isub a 1))))
        | _ => EStuck
        end
    | SIf init c t e =>
        let! o := exec_opt_with (exec f) init st in
        match o with
        | ONormal st1 =>
            let! v := ev st1 c in
            let! b := as_bool v in
            if b then block_with (exec f) t st1 else exec_opt_with (exec f) e st1
        | _ => EStuck
        end
    | SFor init c post body =>
        let! o := exec_opt_with (exec f) init st in
        match o with
        | ONormal st1 =>
            let! go_on := match c with
                          | None => EOk true
                          | Some c' => let! v := ev st1 c' in as_bool v
                          end in
            if negb go_on then EOk (ONormal st1) else
            let! ob := block_with (exec f) body st1 in
            match ob with
            | ONormal st2 =>
                let! op := exec_opt_with (exec f) post st2 in
                match op with
                | ONormal st3 => exec f (SFor None c post body) st3
                | _ => EStuck
                end
            | OBreak st2 => EOk (ONormal st2)
            | OReturn v => EOk (OReturn v)
            end
        | _ => EStuck
        end
    | SBreak => EOk (OBreak st)
    | SExpr e =>
        match e with
        | ECall fcallee _ recv args =>
            let! rs := call_results nat_sig nat_fun callf st fcallee recv args in
            match rs with [] => EOk (ONormal st) | _ => EStuck end
        | _ => EStuck
        end
    | SBlock l => block_with (exec f) l st
    | SBad => EStuck
    end
  end.

End Exec.

(* binding arguments to parameter names *)
Fixpoint bind_params (ps : list (Z * ty)) (args : list value) (st : store) : option store :=
  match ps, args with
  | [], [] => Some st
  | (x, t) :: ps', v :: args' => if has_ty v t then bind_params ps' args' (store_set st x v) else None
  | _, _ => None
  end.

Section Prog.
Variable nat_sig : Z -> option natsig.
Variable nat_fun : Z -> list value -> option (list value).
Variable p : program.

Fixpoint call_sem (fuel : nat) (id : Z) (args : list value) {struct fuel} : eres (option value) :=
  match fuel with
  | O => EFuel
  | S f =>
      match nthz p id with
      | None => EStuck
      | Some fd =>
          match bind_params (fd_params fd) args [] with
          | None => EStuck
          | Some st =>
              let! o := block_with (exec nat_sig nat_fun (call_sem f) f) (fd_body fd) st in
              match o with
              | OReturn v =>
                  match v, fd_results fd with
                  | None, [] => EOk None
                  | Some x, [t] => if has_ty x t then EOk (Some x) else EStuck
                  | _, _ => EStuck
                  end
              | ONormal _ => match fd_results fd with [] => EOk None | _ => EStuck end
              | OBreak _ => EStuck
              end
          end
      end
  end.

End Prog.
