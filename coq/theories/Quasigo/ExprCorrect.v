(* Compiled expressions compute the value the source semantics assigns to them (one frame of the VM). *)
From Coq Require Import List ZArith Bool Lia.
From RG.Base Require Import Outcome GoInt GoSlice.
From RG.Quasigo Require Import Source Bytecode Compile VM Sem Guards VMLemmas CompileLemmas SemLemmas NativeLemmas.
Import ListNotations.
Local Open Scope Z_scope.

(* where a value lives *)
Definition push_o (v : value) (X : list value) : list value := match v with VInt _ => X | _ => v :: X end.
Definition push_i (v : value) (XI : list Z) : list Z := match v with VInt z => z :: XI | _ => XI end.

(* result of a user function as the caller sees it *)
Definition res_rel (r : option value) (c : callres) : Prop :=
  match r with Some (VInt z) => rs c = z | Some v => rv c = v | None => True end.
Definition pushk_o (k : opkind) (c : callres) (O : list value) : list value := match k with KCall => rv c :: O | _ => O end.
Definition pushk_i (k : opkind) (c : callres) (IO : list Z) : list Z := match k with KIntCall => rs c :: IO | _ => IO end.

Section Frame.
Variable cfg : config.
Variable funcs : list vfunc.
Variable nat_fun : Z -> list value -> option (list value).
Variable callf : Z -> list value -> eres (option value).
Variable env : cenv.
Variable fn : vfunc.
Variable C : code.
Hypothesis Hfetch : forall pc i, instr_at C pc = Some i -> vf_fetch fn pc = Some i.
Variables (B : list value) (IB : list Z) (top itop : Z) (K : list (frame * opkind)).

Notation star := (star cfg funcs nat_fun).
Notation eval := (eval (nat_sig cfg) nat_fun callf).

Definition S (pc : Z) (L : list value) (IL : list Z) (X : list value) (XI : list Z) (vl : Z) : state :=
  mkstate (mkframe fn pc L IL top itop) (X ++ B) (XI ++ IB) vl K.

(* a call instruction runs the callee to completion *)
Hypothesis Hpops : call_pops_frame cfg = true.
Definition call_ok : Prop := forall id vs r, callf id vs = EOk r ->
  forall k, (k = KCall \/ k = KIntCall \/ k = KVoidCall) ->
  forall fn' pc L IL top' itop' O IO vl K', vf_fetch fn' pc = Some (I k id) ->
  exists vl' cr, res_rel r cr /\
    star (mkstate (mkframe fn' pc L IL top' itop') (rev (args_o 0 0 vs) ++ O) (rev (args_i 0 0 vs) ++ IO) vl K')
         (mkstate (mkframe fn' (pc + 3) L IL top' itop') (pushk_o k cr O) (pushk_i k cr IO) vl' K').
Hypothesis Hcall : call_ok.

Definition pools_ok (st : cstate) : Prop :=
  (forall i s, nthz (cs_consts st) i = Some s -> nthz (vf_consts fn) i = Some (VStr s)) /\
  (forall i z, nthz (cs_iconsts st) i = Some z -> nthz (vf_iconsts fn) i = Some z).

Lemma pools_ok_le a b : pool_le a b -> pools_ok b -> pools_ok a.
Proof.
  intros [[l1 H1] [l2 H2]] [Hs Hi]. split.
  - intros i s H. apply Hs. rewrite H1. now apply nthz_app_l.
  - intros i z H. apply Hi. rewrite H2. now apply nthz_app_l.
Qed.

Definition params_ok (sto : store) : Prop :=
  (forall x i, x <> name_blank -> map_get (ce_oparams env) x = Some i ->
     exists v, store_get sto x = Some v /\ is_vint v = false /\ nth_bottom B (top + i) = Some v /\ 0 <= top + i < len B) /\
  (forall x i, x <> name_blank -> map_get (ce_oparams env) x = None -> map_get (ce_iparams env) x = Some i ->
     exists z, store_get sto x = Some (VInt z) /\ nth_bottom IB (itop + i) = Some z /\ 0 <= itop + i < len IB).

Definition locals_ok (st : cstate) (sto : store) (L : list value) (IL : list Z) : Prop :=
  len L = max_locals cfg /\ len IL = max_locals cfg /\
  forall x i, index_of Z.eqb x (cs_locals st) 0 = Some i ->
    0 <= i < max_locals cfg /\
    match store_get sto x with
    | Some (VInt z) => nthz IL i = Some z
    | Some v => nthz L i = Some v
    | None => True
    end.

Lemma fetch_at pc i c : code_at C pc (i :: c) -> vf_fetch fn pc = Some i.
Proof. intros H. apply Hfetch. eapply code_at_head; eauto. Qed.

Ltac step_at Hc :=
  apply star_one; unfold step, S; cbn [st_fr fr_fn fr_pc st_objs st_ints st_vlen st_callers fr_locals fr_ilocals fr_top fr_itop];
  rewrite (fetch_at _ _ _ Hc); cbn [ikind iarg].

Ltac list_norm := repeat (progress (cbn [rev app]; rewrite <- ?app_assoc)).

Ltac pc_eq := unfold S; f_equal; f_equal; f_equal; lia.

Lemma S_eq pc pc' L IL X XI vl : pc = pc' -> S pc L IL X XI vl = S pc' L IL X XI vl.
Proof. now intros ->. Qed.

Definition expr_ok (e : expr) : Prop :=
  forall st st' c, cexpr env e st = COk (st', c) ->
  forall pc, code_at C pc c -> pools_ok st' ->
  forall sto L IL, locals_ok st sto L IL -> params_ok sto ->
  safe e = true ->
  forall v, eval sto e = EOk v ->
  forall X XI vl, exists J vl',
    star (S pc L IL X XI vl) (S (pc + size c) L IL (push_o v (J ++ X)) (push_i v XI) vl') /\
    (no_logic e = true -> J = []).

Lemma size1 i : size [i] = width (ikind i).
Proof. cbn [size]. lia. Qed.

Lemma const_ok id c : expr_ok (EConst id c).
Proof.
  intros st st' code Hc pc Hat Hpools sto L IL Hloc Hpar Hsafe v Hv X XI vl. cbn [cexpr] in Hc. cbn [Sem.eval] in Hv.
  exists [], vl. split; [|reflexivity]. cbn [app].
  destruct c as [z|s|[|]|]; cbn [cconst of_const] in *; try discriminate.
  - destruct (intern_int st z) as [st1 i] eqn:E. destruct (255 <? i); [discriminate|]. inversion Hc; subst. inversion Hv; subst.
    apply intern_int_spec in E. destruct E as (_ & _ & Hn). apply (proj2 Hpools) in Hn.
    step_at Hat. rewrite Hn. cbn [push_o push_i size width operand_of ikind]. reflexivity.
  - destruct (intern_str st s) as [st1 i] eqn:E. destruct (255 <? i); [discriminate|]. inversion Hc; subst. inversion Hv; subst.
    apply intern_str_spec in E. destruct E as (_ & _ & Hn). apply (proj1 Hpools) in Hn.
    step_at Hat. rewrite Hn. cbn [push_o push_i size width operand_of ikind]. reflexivity.
  - inversion Hc; subst. inversion Hv; subst. step_at Hat. reflexivity.
  - inversion Hc; subst. inversion Hv; subst. step_at Hat. reflexivity.
Qed.

Lemma push_o_obj v X : is_vint v = false -> push_o v X = v :: X.
Proof. destruct v; cbn; congruence. Qed.
Lemma push_i_obj v X : is_vint v = false -> push_i v X = X.
Proof. destruct v; cbn; congruence. Qed.

Lemma ident_ok x t : expr_ok (EIdent x t).
Proof.
  intros st st' code Hc pc Hat Hpools sto L IL Hloc Hpar Hsafe v Hv X XI vl. cbn [cexpr] in Hc. cbn [Sem.eval] in Hv.
  exists [], vl. split; [|reflexivity]. cbn [app].
  destruct (store_get sto x) as [w|] eqn:Es; [|discriminate]. apply typed_ok in Hv. destruct Hv as [-> Hty].
  unfold cident in Hc. destruct Hpar as [Hop Hip].
  cbn [safe] in Hsafe. apply negb_true_iff in Hsafe. apply Z.eqb_neq in Hsafe.
  destruct (map_get (ce_oparams env) x) as [i|] eqn:Eo.
  - inversion Hc; subst. destruct (Hop _ _ Hsafe Eo) as (v & Hs & Hnv & Hnb & Hr). rewrite Es in Hs. inversion Hs; subst.
    step_at Hat. rewrite nth_bottom_app by exact Hr. rewrite Hnb.
    rewrite push_o_obj, push_i_obj by exact Hnv. reflexivity.
  - destruct (map_get (ce_iparams env) x) as [i|] eqn:Ei.
    + inversion Hc; subst. destruct (Hip _ _ Hsafe Eo Ei) as (z & Hs & Hnb & Hr). rewrite Es in Hs. inversion Hs; subst.
      step_at Hat. rewrite nth_bottom_app by exact Hr. rewrite Hnb. reflexivity.
    + destruct (index_of Z.eqb x (cs_locals st) 0) as [i|] eqn:El; [|discriminate]. inversion Hc; subst.
      destruct Hloc as (HL & HIL & Hl). destruct (Hl _ _ El) as [Hr Hval]. rewrite Es in Hval.
      pose proof (has_ty_is_vint _ _ Hty) as Hk.
      destruct w as [s|b|z| |m|o]; cbn [is_vint] in Hk; destruct t; cbn [is_int_ty] in Hk; try discriminate;
        cbn [is_int pick]; step_at Hat; rewrite Hval; reflexivity.
Qed.

Lemma paren_ok e : expr_ok e -> expr_ok (EParen e).
Proof.
  intros IH st st' code Hc pc Hat Hpools sto L IL Hloc Hpar Hsafe v Hv X XI vl.
  cbn [cexpr safe no_logic] in *. cbn [Sem.eval] in Hv. eapply IH; eauto.
Qed.

Lemma size_snoc c i : size (c ++ [i]) = size c + width (ikind i).
Proof. rewrite size_app, size1. reflexivity. Qed.

Lemma not_ok e : expr_ok e -> expr_ok (ENot e).
Proof.
  intros IH st st' code Hc pc Hat Hpools sto L IL Hloc Hpar Hsafe v Hv X XI vl.
  cbn [cexpr safe no_logic] in *. cbn [Sem.eval] in Hv.
  cinv Hc. destruct a as [st1 cx]. inversion Hcb; subst. clear Hcb.
  einv Hv. destruct v0 as [|b| | | |]; try discriminate. inversion Hvb; subst. clear Hvb.
  destruct (IH _ _ _ Hca _ (code_at_app_l _ _ _ _ Hat) Hpools _ _ _ Hloc Hpar Hsafe _ Hva X XI vl) as (J & vl' & Hs & HJ).
  exists J, vl'. split; [|exact HJ].
  eapply star_trans; [exact Hs|]. apply code_at_app_r in Hat.
  cbn [push_o push_i]. step_at Hat. cbn [app]. rewrite size_snoc. cbn [ikind width operand_of]. rewrite Z.add_assoc. reflexivity.
Qed.

(* ---- guards ---- *)
Lemma all_with_forall (f : expr -> bool) l : all_with f l = forallb f l.
Proof. induction l as [|x l IH]; cbn; [reflexivity|]. now rewrite IH. Qed.

Lemma no_logic_safe_seq (l : list expr) : Forall (fun e => no_logic e = true -> safe e = true) l ->
  forall pend i vi, all_with no_logic l = true -> safe_seq l pend i vi = true.
Proof.
  induction 1 as [|x l Hx _ IH]; intros pend i vi Hall; cbn in *; [reflexivity|].
  apply andb_prop in Hall as [H1 H2]. rewrite IH by exact H2. rewrite andb_true_r.
  destruct pend; auto.
Qed.

Lemma no_logic_safe e : no_logic e = true -> safe e = true.
Proof.
  induction e as [id c|x t|e IHe|e IHe| |op tx e1 e2 IHe1 IHe2|tx e lo hi three IHe IHlo IHhi|f t recv args IHrecv IHargs|nid t e IHe| ]
    using expr_ind'; cbn [no_logic safe]; intros H; auto.
  - destruct op; try discriminate; apply andb_prop in H as [H1 H2];
      repeat match goal with |- context [if ?b then _ else _] => destruct b end; rewrite ?IHe1, ?IHe2 by assumption; auto.
  - apply andb_prop in H as [H H3]. apply andb_prop in H as [H1 H2]. rewrite IHe, H2, H3 by assumption. reflexivity.
  - apply andb_prop in H as [H1 H2].
    destruct recv as [r|]; cbn [opt_with] in *.
    + rewrite (IHrecv r eq_refl H1). cbn [andb]. apply no_logic_safe_seq; assumption.
    + apply no_logic_safe_seq; assumption.
Qed.

(* ---- binary operations ---- *)
Definition bin_step (k : opkind) (a b r : value) : Prop :=
  forall pc L IL Y YI vl rest, code_at C pc (I0 k :: rest) ->
    step cfg funcs nat_fun (S pc L IL (push_o b (push_o a Y)) (push_i b (push_i a YI)) vl)
    = Next (S (pc + 1) L IL (push_o r Y) (push_i r YI) vl).

Lemma push_o_app_int a J Y : is_vint a = true -> J ++ push_o a Y = push_o a (J ++ Y).
Proof. destruct a; cbn; congruence. Qed.

Lemma op2_ok k x y : expr_ok x -> expr_ok y ->
  forall st st' c,
    (do '(st1, cx) <- cexpr env x st ;; do '(st2, cy) <- cexpr env y st1 ;; COk (st2, cx ++ cy ++ [I0 k])) = COk (st', c) ->
  forall pc, code_at C pc c -> pools_ok st' ->
  forall sto L IL, locals_ok st sto L IL -> params_ok sto ->
  safe x = true -> (if on_obj_stack x then no_logic y else safe y) = true ->
  forall a b v, eval sto x = EOk a -> eval sto y = EOk b -> bin_step k a b v -> width k = 1 ->
  forall X XI vl, exists J vl',
    star (S pc L IL X XI vl) (S (pc + size c) L IL (push_o v (J ++ X)) (push_i v XI) vl') /\
    (no_logic x && no_logic y = true -> J = []).
Proof.
  intros IHx IHy st st' c Hc pc Hat Hpools sto L IL Hloc Hpar Hsx Hsy a b v Ha Hb Hstep Hw X XI vl.
  cinv Hc. destruct a0 as [st1 cx]. cinv Hcb. destruct a0 as [st2 cy]. inversion Hcbb; subst. clear Hcbb.
  pose proof (cexpr_mono env _ _ _ _ Hca) as [Hle1 Hl1]. pose proof (cexpr_mono env _ _ _ _ Hcba) as [Hle2 Hl2].
  assert (Hloc1 : locals_ok st1 sto L IL) by (unfold locals_ok in *; rewrite Hl1; exact Hloc).
  destruct (IHx _ _ _ Hca _ (code_at_app_l _ _ _ _ Hat) (pools_ok_le _ _ Hle2 Hpools) _ _ _ Hloc Hpar Hsx _ Ha X XI vl)
    as (Jx & vl1 & Hs1 & HJx).
  apply code_at_app_r in Hat.
  assert (Hsy' : safe y = true).
  { destruct (on_obj_stack x); [now apply no_logic_safe|exact Hsy]. }
  destruct (IHy _ _ _ Hcba _ (code_at_app_l _ _ _ _ Hat) Hpools _ _ _ Hloc1 Hpar Hsy' _ Hb (push_o a (Jx ++ X)) (push_i a XI) vl1)
    as (Jy & vl2 & Hs2 & HJy).
  apply code_at_app_r in Hat.
  pose proof (eval_has_ty _ _ _ _ _ _ Ha) as Hta. apply has_ty_is_vint in Hta.
  assert (Hshape : Jy ++ push_o a (Jx ++ X) = push_o a ((Jy ++ Jx) ++ X)).
  { destruct (is_vint a) eqn:Ea.
    - rewrite push_o_app_int by exact Ea. now rewrite app_assoc.
    - assert (Jy = []) as ->.
      { apply HJy. unfold on_obj_stack in Hsy. rewrite Hta in Ea. destruct (ty_of x); cbn in Ea; try discriminate; exact Hsy. }
      reflexivity. }
  exists (Jy ++ Jx), vl2. split.
  - eapply star_trans; [exact Hs1|]. eapply star_trans; [exact Hs2|].
    rewrite Hshape. apply star_one. rewrite (Hstep _ L IL _ _ vl2 [] Hat). f_equal. apply S_eq.
    rewrite !size_app, size1. cbn [ikind I0]. rewrite Hw. lia.
  - intros H. apply andb_prop in H as [H1 H2]. rewrite (HJx H1), (HJy H2). reflexivity.
Qed.

Ltac bin_tac :=
  intros pc L IL Y YI vl rest Hat; unfold step, S;
  cbn [st_fr fr_fn fr_pc st_objs st_ints st_vlen st_callers fr_locals fr_ilocals fr_top fr_itop push_o push_i app];
  rewrite (fetch_at _ _ _ Hat); cbn [ikind iarg I0 app]; reflexivity.

Lemma bin_add p q : bin_step KAdd (VInt p) (VInt q) (VInt (iadd p q)). Proof. bin_tac. Qed.
Lemma bin_sub p q : bin_step KSub (VInt p) (VInt q) (VInt (isub p q)). Proof. bin_tac. Qed.
Lemma bin_concat p q : bin_step KConcat (VStr p) (VStr q) (VStr (p ++ q)). Proof. bin_tac. Qed.
Lemma bin_eqint p q : bin_step KEqInt (VInt p) (VInt q) (VBool (p =? q)). Proof. bin_tac. Qed.
Lemma bin_neint p q : bin_step KNotEqInt (VInt p) (VInt q) (VBool (negb (p =? q))). Proof. bin_tac. Qed.
Lemma bin_gt p q : bin_step KGtInt (VInt p) (VInt q) (VBool (p >? q)). Proof. bin_tac. Qed.
Lemma bin_ge p q : bin_step KGtEqInt (VInt p) (VInt q) (VBool (p >=? q)). Proof. bin_tac. Qed.
Lemma bin_lt p q : bin_step KLtInt (VInt p) (VInt q) (VBool (p <? q)). Proof. bin_tac. Qed.
Lemma bin_le p q : bin_step KLtEqInt (VInt p) (VInt q) (VBool (p <=? q)). Proof. bin_tac. Qed.
Lemma bin_eqstr p q : bin_step KEqString (VStr p) (VStr q) (VBool (bytes_eqb p q)). Proof. bin_tac. Qed.
Lemma bin_nestr p q : bin_step KNotEqString (VStr p) (VStr q) (VBool (negb (bytes_eqb p q))). Proof. bin_tac. Qed.

Definition un_step (k : opkind) (a r : value) : Prop :=
  forall pc L IL Y YI vl rest, code_at C pc (I0 k :: rest) ->
    step cfg funcs nat_fun (S pc L IL (push_o a Y) (push_i a YI) vl) = Next (S (pc + 1) L IL (push_o r Y) (push_i r YI) vl).

Lemma op1_ok k x : expr_ok x ->
  forall st st' c, (do '(st1, cx) <- cexpr env x st ;; COk (st1, cx ++ [I0 k])) = COk (st', c) ->
  forall pc, code_at C pc c -> pools_ok st' ->
  forall sto L IL, locals_ok st sto L IL -> params_ok sto -> safe x = true ->
  forall a v, eval sto x = EOk a -> un_step k a v -> width k = 1 ->
  forall X XI vl, exists J vl',
    star (S pc L IL X XI vl) (S (pc + size c) L IL (push_o v (J ++ X)) (push_i v XI) vl') /\
    (no_logic x = true -> J = []).
Proof.
  intros IHx st st' c Hc pc Hat Hpools sto L IL Hloc Hpar Hsx a v Ha Hstep Hw X XI vl.
  cinv Hc. destruct a0 as [st1 cx]. inversion Hcb; subst. clear Hcb.
  destruct (IHx _ _ _ Hca _ (code_at_app_l _ _ _ _ Hat) Hpools _ _ _ Hloc Hpar Hsx _ Ha X XI vl) as (Jx & vl1 & Hs1 & HJx).
  apply code_at_app_r in Hat. exists Jx, vl1. split; [|exact HJx].
  eapply star_trans; [exact Hs1|]. apply star_one. rewrite (Hstep _ L IL _ _ vl1 [] Hat). f_equal. apply S_eq.
  rewrite size_snoc. cbn [ikind I0]. rewrite Hw. lia.
Qed.

Ltac un_tac :=
  intros pc L IL Y YI vl rest Hat; unfold step, S;
  cbn [st_fr fr_fn fr_pc st_objs st_ints st_vlen st_callers fr_locals fr_ilocals fr_top fr_itop push_o push_i app];
  rewrite (fetch_at _ _ _ Hat); cbn [ikind iarg I0 app].

Lemma un_isnil a r : value_is_nil a = Some r -> un_step KIsNil a (VBool r).
Proof. intros H. destruct a; cbn in H; try discriminate; inversion H; subst; un_tac; reflexivity. Qed.
Lemma un_isnotnil a r : value_is_nil a = Some r -> un_step KIsNotNil a (VBool (negb r)).
Proof. intros H. destruct a; cbn in H; try discriminate; inversion H; subst; un_tac; reflexivity. Qed.
Lemma un_strlen s : un_step KStringLen (VStr s) (VInt (len s)).
Proof. un_tac. reflexivity. Qed.

Lemma logic_ok (isor : bool) x y : expr_ok x -> expr_ok y ->
  forall st st' c,
    (do '(st1, cx) <- cexpr env x st ;; do '(st2, cy) <- cexpr env y st1 ;;
     COk (st2, cx ++ [I0 KDup; I (if isor then KJumpTrue else KJumpFalse) (3 + size cy)] ++ cy)) = COk (st', c) ->
  forall pc, code_at C pc c -> pools_ok st' ->
  forall sto L IL, locals_ok st sto L IL -> params_ok sto ->
  safe x = true -> safe y = true ->
  forall a v, eval sto x = EOk (VBool a) ->
    (if Bool.eqb a isor then v = VBool a else exists b, v = VBool b /\ eval sto y = EOk v) ->
  forall X XI vl, exists J vl',
    star (S pc L IL X XI vl) (S (pc + size c) L IL (push_o v (J ++ X)) (push_i v XI) vl').
Proof.
  intros IHx IHy st st' c Hc pc Hat Hpools sto L IL Hloc Hpar Hsx Hsy a v Ha Hv X XI vl.
  cinv Hc. destruct a0 as [st1 cx]. cinv Hcb. destruct a0 as [st2 cy]. inversion Hcbb; subst. clear Hcbb.
  pose proof (cexpr_mono env _ _ _ _ Hca) as [Hle1 Hl1]. pose proof (cexpr_mono env _ _ _ _ Hcba) as [Hle2 Hl2].
  assert (Hloc1 : locals_ok st1 sto L IL) by (unfold locals_ok in *; rewrite Hl1; exact Hloc).
  destruct (IHx _ _ _ Hca _ (code_at_app_l _ _ _ _ Hat) (pools_ok_le _ _ Hle2 Hpools) _ _ _ Hloc Hpar Hsx _ Ha X XI vl)
    as (Jx & vl1 & Hs1 & _).
  apply code_at_app_r in Hat. pose proof (code_at_cons_r _ _ _ _ Hat) as Hat1. pose proof (code_at_cons_r _ _ _ _ Hat1) as Hat2.
  cbn [I0 ikind width operand_of] in Hat1, Hat2.
  assert (Hdup : star (S (pc + size cx) L IL (push_o (VBool a) (Jx ++ X)) (push_i (VBool a) XI) vl1)
                      (S (pc + size cx + 1) L IL (VBool a :: VBool a :: Jx ++ X) XI vl1)).
  { cbn [push_o push_i]. step_at Hat. reflexivity. }
  match goal with |- context [S (pc + size ?c') _ _ _ _ _] =>
    assert (Esz : size c' = size cx + 1 + 3 + size cy);
    [rewrite !size_app; cbn [size I0 ikind width operand_of]; destruct isor; cbn [width operand_of]; lia|rewrite Esz] end.
  destruct (Bool.eqb a isor) eqn:Eab.
  - (* short circuit taken *)
    subst v. apply eqb_prop in Eab. subst isor. exists Jx, vl1.
    eapply star_trans; [exact Hs1|]. eapply star_trans; [exact Hdup|].
    cbn [push_o push_i]. destruct a; step_at Hat1; cbn [app]; pc_eq.
  - destruct Hv as (b & -> & Hb).
    assert (Hat2' : code_at C (pc + size cx + 1 + 3) cy).
    { destruct isor; cbn [width operand_of ikind] in Hat2; exact Hat2. }
    destruct (IHy _ _ _ Hcba _ Hat2' Hpools _ _ _ Hloc1 Hpar Hsy _ Hb (VBool a :: Jx ++ X) XI vl1) as (Jy & vl2 & Hs2 & _).
    exists (Jy ++ VBool a :: Jx), vl2.
    eapply star_trans; [exact Hs1|]. eapply star_trans; [exact Hdup|].
    eapply star_trans.
    { assert (Hne : a <> isor) by (intros ->; now rewrite eqb_reflx in Eab).
      destruct a, isor; try congruence; step_at Hat1; cbn [app]; reflexivity. }
    eapply star_eq; [exact Hs2|]. cbn [push_o push_i]. rewrite <- app_assoc. cbn [app]. f_equal. lia.
Qed.

Lemma binary_ok op tx x y : expr_ok x -> expr_ok y -> expr_ok (EBinary op tx x y).
Proof.
  intros IHx IHy st st' c Hc pc Hat Hpools sto L IL Hloc Hpar Hsafe v Hv X XI vl.
  cbn [cexpr] in Hc. cbn [Sem.eval] in Hv. cbn [safe no_logic] in *.
  destruct op; try discriminate.
  - (* || *)
    apply andb_prop in Hsafe as [Hsx Hsy]. einv Hv. destruct v0 as [|a| | | |]; try discriminate.
    destruct (logic_ok true x y IHx IHy _ _ _ Hc _ Hat Hpools _ _ _ Hloc Hpar Hsx Hsy a v Hva) with (X := X) (XI := XI) (vl := vl) as (J & vl' & Hs).
    { destruct a; cbn [Bool.eqb].
      - now inversion Hvb.
      - einv Hvb. destruct v0; try discriminate. inversion Hvbb; subst. eauto. }
    exists J, vl'. split; [exact Hs|discriminate].
  - (* && *)
    apply andb_prop in Hsafe as [Hsx Hsy]. einv Hv. destruct v0 as [|a| | | |]; try discriminate.
    destruct (logic_ok false x y IHx IHy _ _ _ Hc _ Hat Hpools _ _ _ Hloc Hpar Hsx Hsy a v Hva) with (X := X) (XI := XI) (vl := vl) as (J & vl' & Hs).
    { destruct a; cbn [Bool.eqb].
      - einv Hvb. destruct v0; try discriminate. inversion Hvbb; subst. eauto.
      - now inversion Hvb. }
    exists J, vl'. split; [exact Hs|discriminate].
  - (* != *)
    unfold is_nil_ident in Hsafe.
    destruct (ident_name x =? name_nil) eqn:Enx.
    { einv Hv. destruct (value_is_nil v0) as [r|] eqn:En; [|discriminate]. inversion Hvb; subst.
      destruct (op1_ok KIsNotNil y IHy _ _ _ Hc _ Hat Hpools _ _ _ Hloc Hpar Hsafe _ _ Hva (un_isnotnil _ _ En) eq_refl X XI vl) as (J & vl' & Hs & HJ).
      exists J, vl'. split; [exact Hs|]. intros H. apply andb_prop in H as [_ H]. auto. }
    destruct (ident_name y =? name_nil) eqn:Eny.
    { einv Hv. destruct (value_is_nil v0) as [r|] eqn:En; [|discriminate]. inversion Hvb; subst.
      destruct (op1_ok KIsNotNil x IHx _ _ _ Hc _ Hat Hpools _ _ _ Hloc Hpar Hsafe _ _ Hva (un_isnotnil _ _ En) eq_refl X XI vl) as (J & vl' & Hs & HJ).
      exists J, vl'. split; [exact Hs|]. intros H. apply andb_prop in H as [H _]. auto. }
    apply andb_prop in Hsafe as [Hsx Hsy]. einv Hv. einv Hvb.
    destruct tx, v0, v1; try discriminate; inversion Hvbb; subst; cbn [is_str is_int] in Hc.
    + eapply (op2_ok KNotEqInt); eauto using bin_neint.
    + eapply (op2_ok KNotEqString); eauto using bin_nestr.
  - (* == *)
    unfold is_nil_ident in Hsafe.
    destruct (ident_name x =? name_nil) eqn:Enx.
    { einv Hv. destruct (value_is_nil v0) as [r|] eqn:En; [|discriminate]. inversion Hvb; subst.
      destruct (op1_ok KIsNil y IHy _ _ _ Hc _ Hat Hpools _ _ _ Hloc Hpar Hsafe _ _ Hva (un_isnil _ _ En) eq_refl X XI vl) as (J & vl' & Hs & HJ).
      exists J, vl'. split; [exact Hs|]. intros H. apply andb_prop in H as [_ H]. auto. }
    destruct (ident_name y =? name_nil) eqn:Eny.
    { einv Hv. destruct (value_is_nil v0) as [r|] eqn:En; [|discriminate]. inversion Hvb; subst.
      destruct (op1_ok KIsNil x IHx _ _ _ Hc _ Hat Hpools _ _ _ Hloc Hpar Hsafe _ _ Hva (un_isnil _ _ En) eq_refl X XI vl) as (J & vl' & Hs & HJ).
      exists J, vl'. split; [exact Hs|]. intros H. apply andb_prop in H as [H _]. auto. }
    apply andb_prop in Hsafe as [Hsx Hsy]. einv Hv. einv Hvb.
    destruct tx, v0, v1; try discriminate; inversion Hvbb; subst; cbn [is_str is_int] in Hc.
    + eapply (op2_ok KEqInt); eauto using bin_eqint.
    + eapply (op2_ok KEqString); eauto using bin_eqstr.
  - apply andb_prop in Hsafe as [Hsx Hsy]. einv Hv. einv Hvb.
    destruct tx, v0, v1; try discriminate; cbn [int_cmp] in Hvbb; inversion Hvbb; subst; cbn [is_int] in Hc.
    eapply (op2_ok KGtInt); eauto using bin_gt.
  - apply andb_prop in Hsafe as [Hsx Hsy]. einv Hv. einv Hvb.
    destruct tx, v0, v1; try discriminate; cbn [int_cmp] in Hvbb; inversion Hvbb; subst; cbn [is_int] in Hc.
    eapply (op2_ok KGtEqInt); eauto using bin_ge.
  - apply andb_prop in Hsafe as [Hsx Hsy]. einv Hv. einv Hvb.
    destruct tx, v0, v1; try discriminate; cbn [int_cmp] in Hvbb; inversion Hvbb; subst; cbn [is_int] in Hc.
    eapply (op2_ok KLtInt); eauto using bin_lt.
  - apply andb_prop in Hsafe as [Hsx Hsy]. einv Hv. einv Hvb.
    destruct tx, v0, v1; try discriminate; cbn [int_cmp] in Hvbb; inversion Hvbb; subst; cbn [is_int] in Hc.
    eapply (op2_ok KLtEqInt); eauto using bin_le.
  - apply andb_prop in Hsafe as [Hsx Hsy]. einv Hv. einv Hvb.
    destruct tx, v0, v1; try discriminate; inversion Hvbb; subst; cbn [is_str is_int] in Hc.
    + eapply (op2_ok KAdd); eauto using bin_add.
    + eapply (op2_ok KConcat); eauto using bin_concat.
  - apply andb_prop in Hsafe as [Hsx Hsy]. einv Hv. einv Hvb.
    destruct tx, v0, v1; try discriminate; inversion Hvbb; subst; cbn [is_int] in Hc.
    eapply (op2_ok KSub); eauto using bin_sub.
Qed.

Lemma bin_sliceto str h r : slice str 0 h = Ok r -> bin_step KStringSliceTo (VStr str) (VInt h) (VStr r).
Proof.
  intros Hs pc L IL Y YI vl rest Hat; unfold step, S;
  cbn [st_fr fr_fn fr_pc st_objs st_ints st_vlen st_callers fr_locals fr_ilocals fr_top fr_itop push_o push_i app];
  rewrite (fetch_at _ _ _ Hat); cbn [ikind iarg I0 app]. rewrite Hs. reflexivity.
Qed.
Lemma bin_slicefrom str l r : slice str l (len str) = Ok r -> bin_step KStringSliceFrom (VStr str) (VInt l) (VStr r).
Proof.
  intros Hs pc L IL Y YI vl rest Hat; unfold step, S;
  cbn [st_fr fr_fn fr_pc st_objs st_ints st_vlen st_callers fr_locals fr_ilocals fr_top fr_itop push_o push_i app];
  rewrite (fetch_at _ _ _ Hat); cbn [ikind iarg I0 app]. rewrite Hs. reflexivity.
Qed.

Lemma slice_ok tx x lo hi three : expr_ok x -> (forall e, lo = Some e -> expr_ok e) -> (forall e, hi = Some e -> expr_ok e) ->
  expr_ok (ESlice tx x lo hi three).
Proof.
  intros IHx IHlo IHhi st st' c Hc pc Hat Hpools sto L IL Hloc Hpar Hsafe v Hv X XI vl.
  cbn [cexpr] in Hc. cbn [Sem.eval] in Hv. cbn [safe no_logic] in *.
  destruct three; [discriminate|].
  apply andb_prop in Hsafe as [Hsafe Hsh]. apply andb_prop in Hsafe as [Hsx Hsl].
  destruct lo as [l|], hi as [h|]; cbn [opt_with] in *.
  - (* s[l:h] *)
    destruct (is_str tx) eqn:Etx; cbn [negb] in *; [|discriminate]. destruct tx; try discriminate.
    einvas Hv vs. einvas Hvb vlo. einvas Hvbb vhi. cbn [eval_opt_with] in Hvba, Hvbba.
    einvas Hvba wl. inversion Hvbab; subst. einvas Hvbba wh. inversion Hvbbab; subst.
    unfold go_slice in Hvbbb. destruct vs as [str| | | | |]; try discriminate. destruct wl as [| |ll| | |]; try discriminate. destruct wh as [| |hh| | |]; try discriminate.
    destruct (slice str ll hh) as [r|w] eqn:Esl; [|discriminate]. inversion Hvbbb; subst.
    cinv Hc. destruct a as [st1 cx]. cinv Hcb. destruct a as [st2 cl]. cinv Hcbb. destruct a as [st3 ch]. inversion Hcbbb; subst. clear Hcbbb.
    pose proof (cexpr_mono env _ _ _ _ Hca) as [Hle1 Hl1]. pose proof (cexpr_mono env _ _ _ _ Hcba) as [Hle2 Hl2].
    pose proof (cexpr_mono env _ _ _ _ Hcbba) as [Hle3 Hl3].
    assert (Hloc1 : locals_ok st1 sto L IL) by (unfold locals_ok in *; rewrite Hl1; exact Hloc).
    assert (Hloc2 : locals_ok st2 sto L IL) by (unfold locals_ok in *; rewrite Hl2, Hl1; exact Hloc).
    destruct (IHx _ _ _ Hca _ (code_at_app_l _ _ _ _ Hat) (pools_ok_le _ _ (pool_le_trans _ _ _ Hle2 Hle3) Hpools) _ _ _ Hloc Hpar Hsx _ Hva X XI vl)
      as (Jx & vl1 & Hs1 & HJx).
    apply code_at_app_r in Hat.
    destruct (IHlo l eq_refl _ _ _ Hcba _ (code_at_app_l _ _ _ _ Hat) (pools_ok_le _ _ Hle3 Hpools) _ _ _ Hloc1 Hpar (no_logic_safe _ Hsl) _ Hvbaa (VStr str :: Jx ++ X) XI vl1)
      as (Jl & vl2 & Hs2 & HJl).
    apply code_at_app_r in Hat.
    destruct (IHhi h eq_refl _ _ _ Hcbba _ (code_at_app_l _ _ _ _ Hat) Hpools _ _ _ Hloc2 Hpar (no_logic_safe _ Hsh) _ Hvbbaa (Jl ++ VStr str :: Jx ++ X) (ll :: XI) vl2)
      as (Jh & vl3 & Hs3 & HJh).
    apply code_at_app_r in Hat. rewrite (HJl Hsl) in *. rewrite (HJh Hsh) in *. cbn [app push_o push_i] in *.
    exists Jx, vl3. split.
    + eapply star_trans; [exact Hs1|]. eapply star_trans; [exact Hs2|]. eapply star_trans; [exact Hs3|].
      step_at Hat. cbn [app]. rewrite Esl. rewrite !size_app, size1. cbn [ikind I0 width operand_of]. pc_eq.
    + intros H. apply andb_prop in H as [H _]. apply andb_prop in H as [H _]. auto.
  - (* s[l:] *)
    destruct (is_str tx) eqn:Etx; cbn [negb] in *; [|discriminate]. destruct tx; try discriminate.
    einvas Hv vs. einvas Hvb vlo. einvas Hvbb vhi. cbn [eval_opt_with] in Hvba, Hvbba.
    einvas Hvba wl. inversion Hvbab; subst. inversion Hvbba; subst.
    unfold go_slice in Hvbbb. destruct vs as [str| | | | |]; try discriminate. destruct wl as [| |ll| | |]; try discriminate.
    destruct (slice str ll (len str)) as [r|w] eqn:Esl; [|discriminate]. inversion Hvbbb; subst.
    destruct (op2_ok KStringSliceFrom x l IHx (IHlo l eq_refl) _ _ _ Hc _ Hat Hpools _ _ _ Hloc Hpar Hsx) with (a := VStr str) (b := VInt ll) (v := VStr r) (X := X) (XI := XI) (vl := vl)
      as (J & vl' & Hs & HJ); auto using bin_slicefrom.
    { destruct (on_obj_stack x); auto using no_logic_safe. }
    exists J, vl'. split; [exact Hs|]. intros H. apply HJ. rewrite andb_true_r in H. exact H.
  - (* s[:h] *)
    destruct (is_str tx) eqn:Etx; cbn [negb] in *; [|discriminate]. destruct tx; try discriminate.
    einvas Hv vs. einvas Hvb vlo. einvas Hvbb vhi. cbn [eval_opt_with] in Hvba, Hvbba.
    inversion Hvba; subst. einvas Hvbba wh. inversion Hvbbab; subst.
    unfold go_slice in Hvbbb. destruct vs as [str| | | | |]; try discriminate. destruct wh as [| |hh| | |]; try discriminate.
    destruct (slice str 0 hh) as [r|w] eqn:Esl; [|discriminate]. inversion Hvbbb; subst.
    destruct (op2_ok KStringSliceTo x h IHx (IHhi h eq_refl) _ _ _ Hc _ Hat Hpools _ _ _ Hloc Hpar Hsx) with (a := VStr str) (b := VInt hh) (v := VStr r) (X := X) (XI := XI) (vl := vl)
      as (J & vl' & Hs & HJ); auto using bin_sliceto.
    { destruct (on_obj_stack x); auto using no_logic_safe. }
    exists J, vl'. split; [exact Hs|]. intros H. apply HJ. rewrite andb_true_r in H. cbn [andb] in H. exact H.
  - (* s[:] *)
    cbn [negb] in Hv. einvas Hv vs. einvas Hvb vlo. einvas Hvbb vhi. cbn [eval_opt_with] in Hvba, Hvbba. inversion Hvba; subst. inversion Hvbba; subst.
    unfold go_slice in Hvbbb. destruct vs as [str| | | | |]; try discriminate. inversion Hvbbb; subst.
    destruct (IHx _ _ _ Hc _ Hat Hpools _ _ _ Hloc Hpar Hsx _ Hva X XI vl) as (J & vl' & Hs & HJ).
    exists J, vl'. split; [exact Hs|]. intros H. apply HJ. rewrite !andb_true_r in H. exact H.
Qed.

(* ---- argument lists ---- *)
Fixpoint ntail (vi i : Z) (n : nat) : Z :=
  match n with O => 0 | Datatypes.S n' => (if boxed vi i then 1 else 0) + ntail vi (i + 1) n' end.

Notation eval_list sto := (eval_list_with (eval sto)).

Lemma cargs_ok vi l : Forall expr_ok l -> forall i st st' c n, cargs env vi l i st = COk (st', c, n) ->
  forall pc, code_at C pc c -> pools_ok st' ->
  forall sto L IL, locals_ok st sto L IL -> params_ok sto ->
  forall pend, safe_seq l pend i vi = true ->
  forall vs, eval_list sto l = EOk vs ->
  forall X XI vl, exists J vl',
    star (S pc L IL X XI vl) (S (pc + size c) L IL (rev (args_o vi i vs) ++ J ++ X) (rev (args_i vi i vs) ++ XI) vl') /\
    (pend = true -> J = []) /\ (all_with no_logic l = true -> J = []) /\ n = ntail vi i (length l).
Proof.
  induction 1 as [|e l He _ IH]; intros i st st' c n Hc pc Hat Hpools sto L IL Hloc Hpar pend Hsafe vs Hvs X XI vl.
  - cbn in Hc, Hvs. inversion Hc; subst. inversion Hvs; subst. exists [], vl. cbn [args_o args_i rev app size length ntail].
    split; [|auto]. eapply star_eq; [apply star_refl|]. apply S_eq. lia.
  - cbn in Hc. cinv Hc. destruct a as [st1 c1]. cinv Hcb. destruct a as [[st2 c2] n2].
    cbn in Hvs. einvas Hvs v. einvas Hvsb vs'. inversion Hvsbb; subst. clear Hvsbb.
    change (safe_seq (e :: l) pend i vi) with ((if pend then no_logic e else safe e) && safe_seq l (pend || on_obj_stack e || boxed vi i) (i + 1) vi) in Hsafe.
    apply andb_prop in Hsafe as [Hse Hsl].
    pose proof (cexpr_mono env _ _ _ _ Hca) as [Hle1 Hl1].
    assert (Hle2 : pool_le st1 st2 /\ cs_locals st2 = cs_locals st1).
    { eapply cargs_mono; [|exact Hcba]. apply Forall_forall. intros; apply cexpr_mono. }
    destruct Hle2 as [Hle2 Hl2].
    assert (Hloc1 : locals_ok st1 sto L IL) by (unfold locals_ok in *; rewrite Hl1; exact Hloc).
    assert (Hse' : safe e = true) by (destruct pend; auto using no_logic_safe).
    pose proof (eval_has_ty _ _ _ _ _ _ Hvsa) as Hty. pose proof (has_ty_is_vint _ _ Hty) as Hk.
    (* shape of the code *)
    set (conv := if is_int (ty_of e) then [I0 KConvIntToIface] else []) in *.
    set (bx := negb (vi =? 0) && (vi <=? i)) in *.
    assert (Ebx : bx = boxed vi i) by reflexivity.
    assert (Hcode : st' = st2 /\ c = c1 ++ (if bx then conv else []) ++ c2 /\ n = (if bx then 1 else 0) + n2).
    { destruct bx; inversion Hcbb; subst; (split; [reflexivity|split; [reflexivity|lia]]). }
    destruct Hcode as (-> & -> & ->). clear Hcbb.
    destruct (He _ _ _ Hca _ (code_at_app_l _ _ _ _ Hat) (pools_ok_le _ _ Hle2 Hpools) _ _ _ Hloc Hpar Hse' _ Hvsa X XI vl) as (Je & vl1 & Hs1 & HJe).
    apply code_at_app_r in Hat.
    (* the value in its final place *)
    set (onobj := negb (is_vint v && negb (boxed vi i))).
    assert (Hconv : star (S (pc + size c1) L IL (push_o v (Je ++ X)) (push_i v XI) vl1)
                         (S (pc + size c1 + size (if bx then conv else [])) L IL
                            ((if is_vint v && negb (boxed vi i) then [] else [v]) ++ Je ++ X)
                            ((match v with VInt z => if boxed vi i then [] else [z] | _ => [] end) ++ XI) vl1)).
    { rewrite <- Ebx. destruct bx.
      - subst conv. destruct v as [s0|b0|z| |m|o]; cbn [is_vint andb negb push_o push_i app] in *;
          destruct (ty_of e); cbn [is_int_ty] in Hk; try discriminate; cbn [is_int size];
          try (eapply star_eq; [apply star_refl|apply S_eq; lia]).
        cbn [is_int] in Hat. apply code_at_app_l in Hat. step_at Hat. cbn [I0 ikind width operand_of size app]. pc_eq.
      - cbn [size negb andb]. rewrite andb_true_r.
        destruct v; cbn [is_vint push_o push_i app]; eapply star_eq; try apply star_refl; apply S_eq; lia. }
    apply code_at_app_r in Hat.
    destruct (IH _ _ _ _ _ Hcba _ Hat Hpools _ _ _ Hloc1 Hpar _ Hsl _ Hvsba
                ((if is_vint v && negb (boxed vi i) then [] else [v]) ++ Je ++ X)
                ((match v with VInt z => if boxed vi i then [] else [z] | _ => [] end) ++ XI) vl1) as (J' & vl2 & Hs2 & HJp & HJn & Hn).
    assert (Hpend' : is_vint v && negb (boxed vi i) = false -> J' = []).
    { intros Hf. apply HJp. unfold on_obj_stack. rewrite Hk in Hf.
      destruct (ty_of e); cbn [is_int_ty] in Hf; cbn; rewrite ?orb_true_r; try reflexivity.
      cbn [andb] in Hf. destruct (boxed vi i); [now rewrite orb_true_r|discriminate]. }
    exists (if is_vint v && negb (boxed vi i) then J' ++ Je else Je), vl2.
    split; [|split; [|split]].
    + eapply star_trans; [exact Hs1|]. eapply star_trans; [exact Hconv|].
      eapply star_eq; [exact Hs2|]. cbn [args_o args_i rev].
      rewrite !size_app. unfold S. f_equal; [f_equal; lia| |].
      * rewrite !rev_app_distr. destruct (is_vint v && negb (boxed vi i)) eqn:Eon.
        -- list_norm. reflexivity.
        -- rewrite (Hpend' eq_refl). list_norm. reflexivity.
      * rewrite !rev_app_distr, <- !app_assoc. f_equal.
        destruct v; cbn [rev app]; try reflexivity. destruct (boxed vi i); reflexivity.
    + intros ->. cbn [orb] in HJp. rewrite (HJp eq_refl). cbn in Hse. rewrite (HJe Hse). destruct (is_vint v && negb (boxed vi i)); reflexivity.
    + cbn [all_with]. intros H. apply andb_prop in H as [H1 H2]. rewrite (HJe H1), (HJn H2). destruct (is_vint v && negb (boxed vi i)); reflexivity.
    + cbn [length ntail]. rewrite Hn, Ebx. reflexivity.
Qed.

(* ---- calls ---- *)
Lemma ntail_tail vi : forall n i, 0 <= i -> 0 < vi -> i <= vi -> vi <= i + Z.of_nat n -> ntail vi i n = i + Z.of_nat n - vi.
Proof.
  induction n as [|n IH]; intros i Hi Hvi Hle Hn; cbn [ntail]; [lia|].
  unfold boxed. destruct (Z.eqb_spec vi 0); [lia|]. cbn [negb andb].
  destruct (Z.leb_spec vi i).
  - assert (vi = i) by lia. subst vi. clear IH. 
    assert (Hall : forall m j, i <= j -> ntail i j m = Z.of_nat m).
    { induction m as [|m IHm]; intros j Hj; cbn [ntail]; [lia|]. unfold boxed. destruct (Z.eqb_spec i 0); [lia|]. cbn [negb andb].
      destruct (Z.leb_spec i j); [|lia]. rewrite IHm by lia. lia. }
    rewrite Hall by lia. lia.
  - rewrite IH by lia. lia.
Qed.

Lemma pushes_o_app res : forall Y Z0, pushes_o res (Y ++ Z0) = pushes_o res Y ++ Z0.
Proof. induction res as [|v res IH]; intros Y Z0; cbn [pushes_o]; [reflexivity|]. destruct v; try apply IH; apply (IH (_ :: Y)). Qed.
Lemma pushes_i_app res : forall Y Z0, pushes_i res (Y ++ Z0) = pushes_i res Y ++ Z0.
Proof. induction res as [|v res IH]; intros Y Z0; cbn [pushes_i]; [reflexivity|]. destruct v; try apply IH; apply (IH (_ :: Y)). Qed.

Lemma native_step id vi sg avs i0 res : nat_sig cfg id = Some sg ->
  args_conform (rev (ns_pops sg)) avs i0 vi = true ->
  nat_fun id avs = Some res -> results_conform (ns_pushes sg) res = true ->
  forall pc L IL Y YI vl rest, (vi <> 0 -> vl = len avs - (vi - i0)) -> code_at C pc (I KCallNative id :: rest) ->
  step cfg funcs nat_fun (S pc L IL (rev (args_o vi i0 avs) ++ Y) (rev (args_i vi i0 avs) ++ YI) vl)
  = Next (S (pc + 3) L IL (pushes_o res Y) (pushes_i res YI) vl).
Proof.
  intros Hsig Hconf Hnat Hres pc L IL Y YI vl rest Hvl Hat.
  unfold step, S. cbn [st_fr fr_fn fr_pc st_objs st_ints st_vlen st_callers fr_locals fr_ilocals fr_top fr_itop].
  rewrite (fetch_at _ _ _ Hat). cbn [ikind iarg]. rewrite Hsig.
  rewrite <- !app_assoc. rewrite <- (rev_involutive (ns_pops sg)).
  destruct (do_pops_conform vi _ _ _ Hconf (Y ++ B) (YI ++ IB) vl [] Hvl) as (groups & Hp & Hg).
  rewrite Hp. rewrite app_nil_r, Hg, Hnat. rewrite (do_pushes_conform _ _ _ _ Hres).
  rewrite pushes_o_app, pushes_i_app. reflexivity.
Qed.

Lemma native_tail id vi n sg avs i0 res : nat_sig cfg id = Some sg ->
  args_conform (rev (ns_pops sg)) avs i0 vi = true ->
  nat_fun id avs = Some res -> results_conform (ns_pushes sg) res = true ->
  forall tail, tail = (if vi =? 0 then [I KCallNative id] else [I KSetVariadicLen n; I KCallNative id]) ->
  forall pc L IL Y YI vl, code_at C pc tail -> (vi <> 0 -> n = len avs - (vi - i0)) ->
  exists vl', star (S pc L IL (rev (args_o vi i0 avs) ++ Y) (rev (args_i vi i0 avs) ++ YI) vl)
                   (S (pc + size tail) L IL (pushes_o res Y) (pushes_i res YI) vl').
Proof.
  intros Hsig Hconf Hnat Hres tail -> pc L IL Y YI vl Hat Hn.
  destruct (Z.eqb_spec vi 0) as [Hz|Hnz].
  - exists vl. apply star_one.
    rewrite (native_step id vi sg avs i0 res Hsig Hconf Hnat Hres pc L IL Y YI vl [] (fun H => match H Hz with end) Hat).
    try (f_equal; apply S_eq; cbn [size ikind width operand_of]; lia).
  - exists n. eapply star_trans.
    + step_at Hat. reflexivity.
    + apply code_at_cons_r in Hat. cbn [ikind width operand_of] in Hat.
      eapply star_eq; [apply star_one; exact (native_step id vi sg avs i0 res Hsig Hconf Hnat Hres (pc + 2) L IL Y YI n [] Hn Hat)|].
      apply S_eq. cbn [size ikind width operand_of]. lia.
Qed.

Lemma calls_ok f t recv args : (forall e, recv = Some e -> expr_ok e) -> Forall expr_ok args ->
  forall st st' c, cexpr env (ECall f t recv args) st = COk (st', c) ->
  forall pc, code_at C pc c -> pools_ok st' ->
  forall sto L IL, locals_ok st sto L IL -> params_ok sto ->
  safe (ECall f t recv args) = true ->
  forall rs, call_results (nat_sig cfg) nat_fun callf sto f recv args = EOk rs ->
  forall X XI vl, exists J vl',
    star (S pc L IL X XI vl) (S (pc + size c) L IL (pushes_o rs (J ++ X)) (pushes_i rs XI) vl') /\
    (no_logic (ECall f t recv args) = true -> J = []).
Proof.
  intros IHrecv IHargs st st' c Hc pc Hat Hpools sto L IL Hloc Hpar Hsafe rs Hrs X XI vl.
  cbn [cexpr] in Hc. cbn [safe no_logic] in *. unfold call_results, call_results_with in Hrs.
  destruct f as [| |id vi|id res|]; try discriminate.
  - (* len *)
    destruct args as [|a args]; [discriminate|]. inversion IHargs as [|? ? IHa _]; subst.
    einvas Hrs v. destruct (ty_of a) eqn:Eta; try discriminate. destruct v as [s0| | | | |]; try discriminate. inversion Hrsb; subst.
    cbn [is_str] in Hc.
    assert (Hsa : safe a = true /\ (opt_with no_logic recv && all_with no_logic (a :: args) = true -> no_logic a = true)).
    { split.
      - destruct recv as [r|]; [apply andb_prop in Hsafe as [_ Hsafe]|]; cbn [safe_seq_with] in Hsafe;
          apply andb_prop in Hsafe as [H _]; [destruct (on_obj_stack r)|]; auto using no_logic_safe.
      - intros H. apply andb_prop in H as [_ H]. cbn [all_with] in H. apply andb_prop in H as [H _]. exact H. }
    destruct Hsa as [Hsa Hna].
    destruct (op1_ok KStringLen a IHa _ _ _ Hc _ Hat Hpools _ _ _ Hloc Hpar Hsa _ _ Hrsa (un_strlen s0) eq_refl X XI vl) as (J & vl' & Hs & HJ).
    exists J, vl'. split; [exact Hs|]. intros H. auto.
  - (* native *)
    cinv Hc. destruct a as [st0 cr]. cinv Hcb. destruct a as [[st1 ca] n].
    einvas Hrs r. einvas Hrsb vs. unfold native_call in Hrsbb.
    destruct (nat_sig cfg id) as [sg|] eqn:Esig; [|discriminate].
    destruct (args_conform (rev (ns_pops sg)) (opt_list r ++ vs) (match r with Some _ => -1 | None => 0 end) vi) eqn:Econf; cbn [negb] in Hrsbb; [|discriminate].
    destruct (nat_fun id (opt_list r ++ vs)) as [res|] eqn:Enat; [|discriminate].
    destruct (results_conform (ns_pushes sg) res) eqn:Eres; [|discriminate]. inversion Hrsbb; subst. clear Hrsbb.
    assert (Hmono_a : pool_le st0 st1 /\ cs_locals st1 = cs_locals st0).
    { eapply cargs_mono; [|exact Hcba]. apply Forall_forall. intros; apply cexpr_mono. }
    assert (Hmono_r : pool_le st st0 /\ cs_locals st0 = cs_locals st).
    { eapply copt_mono; [|exact Hca]. intros; apply cexpr_mono. }
    destruct Hmono_a as [Hle_a Hl_a]. destruct Hmono_r as [Hle_r Hl_r].
    assert (Hloc0 : locals_ok st0 sto L IL) by (unfold locals_ok in *; rewrite Hl_r; exact Hloc).
    set (tail := if vi =? 0 then [I KCallNative id] else [I KSetVariadicLen n; I KCallNative id]).
    assert (Hcode : st' = st1 /\ c = cr ++ ca ++ tail /\ (vi =? 0 = false -> (255 <? n) = false)).
    { subst tail. destruct (vi =? 0).
      - inversion Hcbb; subst. split; [reflexivity|]. split; [reflexivity|discriminate].
      - destruct (255 <? n); [discriminate|]. inversion Hcbb; subst. auto. }
    destruct Hcode as (-> & -> & _). clear Hcbb.
    (* the receiver *)
    assert (Hr : exists Jr vl0,
               star (S pc L IL X XI vl)
                    (S (pc + size cr) L IL (rev (args_o vi (match r with Some _ => -1 | None => 0 end) (opt_list r)) ++ Jr ++ X)
                       (rev (args_i vi (match r with Some _ => -1 | None => 0 end) (opt_list r)) ++ XI) vl0) /\
               (opt_with no_logic recv = true -> Jr = []) /\
               safe_seq args (match recv with Some re => on_obj_stack re | None => false end) 0 vi = true /\
               (match recv with Some re => on_obj_stack re | None => false end = negb (match args_o vi (match r with Some _ => -1 | None => 0 end) (opt_list r) with [] => true | _ => false end))).
    { destruct recv as [re|]; cbn [eval_opt_with copt_with opt_with] in *.
      - einvas Hrsa r0. inversion Hrsab; subst. clear Hrsab. apply andb_prop in Hsafe as [Hsre Hsargs].
        destruct (IHrecv re eq_refl _ _ _ Hca _ (code_at_app_l _ _ _ _ Hat) (pools_ok_le _ _ Hle_a Hpools) _ _ _ Hloc Hpar Hsre _ Hrsaa X XI vl)
          as (Jr & vl0 & Hs & HJr).
        exists Jr, vl0. cbn [opt_list app] in Econf |- *.
        assert (Hnb : boxed vi (-1) = false).
        { destruct (rev (ns_pops sg)) as [|d decl]; [discriminate|]. destruct d; cbn [args_conform] in Econf.
          - apply andb_prop in Econf as [Hc0 _]. apply andb_prop in Hc0 as [_ Hh]. now apply in_head_not_boxed.
          - destruct r0; try (destruct decl; discriminate). apply andb_prop in Econf as [Hh _]. now apply in_head_not_boxed.
          - destruct decl; [|discriminate]. apply andb_prop in Econf as [Hc0 _]. apply andb_prop in Hc0 as [Hi Hp].
            apply Z.eqb_eq in Hi. apply Z.ltb_lt in Hp. lia. }
        pose proof (eval_has_ty _ _ _ _ _ _ Hrsaa) as Hty. pose proof (has_ty_is_vint _ _ Hty) as Hk.
        cbn [args_o args_i]. rewrite Hnb. cbn [negb]. rewrite andb_true_r.
        split; [|split; [exact HJr|split; [exact Hsargs|]]].
        + eapply star_eq; [exact Hs|]. destruct r0; cbn [is_vint push_o push_i app rev]; reflexivity.
        + unfold on_obj_stack. rewrite Hk. destruct (ty_of re); cbn; reflexivity.
      - inversion Hrsa; subst. inversion Hca; subst. exists [], vl. cbn [opt_list args_o args_i rev app size].
        split; [eapply star_eq; [apply star_refl|apply S_eq; lia]|]. split; [auto|]. split; [exact Hsafe|reflexivity]. }
    destruct Hr as (Jr & vl0 & Hsr & HJr & Hsargs & Hpend).
    apply code_at_app_r in Hat.
    destruct (cargs_ok vi args IHargs _ _ _ _ _ Hcba _ (code_at_app_l _ _ _ _ Hat) Hpools _ _ _ Hloc0 Hpar _ Hsargs _ Hrsba
                (rev (args_o vi (match r with Some _ => -1 | None => 0 end) (opt_list r)) ++ Jr ++ X)
                (rev (args_i vi (match r with Some _ => -1 | None => 0 end) (opt_list r)) ++ XI) vl0)
      as (Ja & vl1 & Hsa & HJap & HJan & Hn).
    apply code_at_app_r in Hat.
    set (i0 := match r with Some _ => -1 | None => 0 end) in *.
    (* the stacks hold all arguments *)
    assert (Eo : rev (args_o vi 0 vs) ++ Ja ++ rev (args_o vi i0 (opt_list r)) ++ Jr ++ X
                 = rev (args_o vi i0 (opt_list r ++ vs)) ++ (if (match args_o vi i0 (opt_list r) with [] => true | _ => false end) then Ja ++ Jr else Jr) ++ X).
    { destruct r as [r0|]; cbn [opt_list app args_o] in *; subst i0.
      - replace (-1 + 1) with 0 by lia. rewrite rev_app_distr.
        destruct (is_vint r0 && negb (boxed vi (-1))) eqn:E.
        + cbn [rev app]. rewrite <- !app_assoc. reflexivity.
        + rewrite (HJap ltac:(rewrite Hpend; reflexivity)). cbn [rev app]. rewrite <- !app_assoc. reflexivity.
      - cbn [rev app]. rewrite <- !app_assoc. reflexivity. }
    assert (Ei : rev (args_i vi 0 vs) ++ rev (args_i vi i0 (opt_list r)) ++ XI = rev (args_i vi i0 (opt_list r ++ vs)) ++ XI).
    { destruct r as [r0|]; cbn [opt_list app args_i] in *; subst i0.
      - replace (-1 + 1) with 0 by lia. rewrite !rev_app_distr. cbn [rev app]. rewrite <- !app_assoc. reflexivity.
      - reflexivity. }
    rewrite Eo, Ei in Hsa.
    set (J := if (match args_o vi i0 (opt_list r) with [] => true | _ => false end) then Ja ++ Jr else Jr) in *.
    destruct (native_tail id vi n sg (opt_list r ++ vs) i0 rs Esig Econf Enat Eres tail eq_refl
                (pc + size cr + size ca) L IL (J ++ X) XI vl1 Hat) as (vl2 & Hst).
    { intros Hnz. destruct (conform_tail_len _ _ _ _ Econf Hnz) as (Hpos & Hle & Hlen).
      rewrite len_app' in *. assert (Hr0 : len (opt_list r) = - i0) by (destruct r; subst i0; reflexivity).
      assert (Hi0 : i0 = 0 \/ i0 = -1) by (destruct r; subst i0; auto).
      pose proof (eval_list_length _ _ _ Hrsba) as Hlv.
      rewrite Hn. unfold len in *. rewrite ntail_tail; lia. }
    exists J, vl2. split.
    + eapply star_trans; [exact Hsr|]. eapply star_trans; [exact Hsa|]. eapply star_eq; [exact Hst|].
      apply S_eq. rewrite !size_app. lia.
    + intros H. apply andb_prop in H as [H1 H2]. subst J. rewrite (HJr H1), (HJan H2). destruct (match args_o vi i0 (opt_list r) with [] => true | _ => false end); reflexivity.
  - (* user function *)
    cinv Hc. destruct a as [st0 cr]. cinv Hcb. destruct a as [[st1 ca] n]. inversion Hcbb; subst. clear Hcbb.
    destruct recv as [re|]; [discriminate|]. cbn [copt_with] in Hca. inversion Hca; subst. clear Hca. cbn [app opt_with andb] in *.
    einvas Hrs vs. einvas Hrsb r.
    destruct (cargs_ok 0 args IHargs _ _ _ _ _ Hcba _ (code_at_app_l _ _ _ _ Hat) Hpools _ _ _ Hloc Hpar false Hsafe _ Hrsa X XI vl)
      as (J & vl1 & Hs1 & _ & HJn & _).
    apply code_at_app_r in Hat.
    set (k := match res with TVoid => KVoidCall | TInt => KIntCall | _ => KCall end) in *.
    assert (Hk : k = KCall \/ k = KIntCall \/ k = KVoidCall) by (subst k; destruct res; auto).
    destruct (Hcall _ _ _ Hrsba k Hk fn (pc + size ca) L IL top itop ((J ++ X) ++ B) (XI ++ IB) vl1 K (fetch_at _ _ _ Hat))
      as (vl2 & cres & Hrel & Hs2).
    exists J, vl2. split; [|exact HJn].
    eapply star_trans; [exact Hs1|].
    eapply star_eq; [eapply star_eq; [|reflexivity]|].
    { match type of Hs2 with star ?a _ => replace (S (pc + size ca) L IL (rev (args_o 0 0 vs) ++ J ++ X) (rev (args_i 0 0 vs) ++ XI) vl1) with a end;
        [exact Hs2|unfold S; rewrite <- !app_assoc; reflexivity]. }
    assert (Epc : pc + size ca + 3 = pc + size (ca ++ [I k id])).
    { rewrite size_snoc. cbn [ikind]. subst k. destruct res; cbn [width operand_of]; lia. }
    unfold S. rewrite Epc. f_equal.
    + destruct r as [v|].
      * destruct (has_ty v res) eqn:Ety; [|discriminate]. inversion Hrsbb; subst. cbn [pushes_o].
        subst k. destruct res, v; cbn [has_ty] in Ety; try discriminate; cbn [pushk_o res_rel] in *; rewrite ?Hrel; reflexivity.
      * destruct res; try discriminate. inversion Hrsbb; subst. reflexivity.
    + destruct r as [v|].
      * destruct (has_ty v res) eqn:Ety; [|discriminate]. inversion Hrsbb; subst. cbn [pushes_i].
        subst k. destruct res, v; cbn [has_ty] in Ety; try discriminate; cbn [pushk_i res_rel] in *; rewrite ?Hrel; reflexivity.
      * destruct res; try discriminate. inversion Hrsbb; subst. reflexivity.
Qed.

Lemma call_ok_expr f t recv args : (forall e, recv = Some e -> expr_ok e) -> Forall expr_ok args -> expr_ok (ECall f t recv args).
Proof.
  intros IHrecv IHargs st st' c Hc pc Hat Hpools sto L IL Hloc Hpar Hsafe v Hv X XI vl.
  cbn [Sem.eval] in Hv. einvas Hv rs. destruct rs as [|w [|]]; try discriminate. apply typed_ok in Hvb as [-> _].
  destruct (calls_ok f t recv args IHrecv IHargs _ _ _ Hc _ Hat Hpools _ _ _ Hloc Hpar Hsafe _ Hva X XI vl) as (J & vl' & Hs & HJ).
  exists J, vl'. split; [|exact HJ]. eapply star_eq; [exact Hs|]. destruct w; reflexivity.
Qed.

Lemma selector_ok nid t x : expr_ok x -> expr_ok (ESelector nid t x).
Proof.
  intros IHx st st' c Hc pc Hat Hpools sto L IL Hloc Hpar Hsafe v Hv X XI vl.
  cbn [cexpr] in Hc. cbn [Sem.eval] in Hv. cbn [safe no_logic] in *.
  destruct (nid <? 0); [discriminate|]. cinv Hc. destruct a as [st1 cx]. inversion Hcb; subst. clear Hcb.
  einvas Hv r0. einvas Hvb rs. destruct rs as [|w [|]]; try discriminate. apply typed_ok in Hvbb as [-> _].
  unfold native_call in Hvba. destruct (nat_sig cfg nid) as [sg|] eqn:Esig; [|discriminate].
  cbn [opt_list app] in Hvba.
  destruct (args_conform (rev (ns_pops sg)) [r0] (-1) 0) eqn:Econf; cbn [negb] in Hvba; [|discriminate].
  destruct (nat_fun nid [r0]) as [res|] eqn:Enat; [|discriminate].
  destruct (results_conform (ns_pushes sg) res) eqn:Eres; [|discriminate]. inversion Hvba; subst. clear Hvba.
  destruct (IHx _ _ _ Hca _ (code_at_app_l _ _ _ _ Hat) Hpools _ _ _ Hloc Hpar Hsafe _ Hva X XI vl) as (J & vl1 & Hs & HJ).
  apply code_at_app_r in Hat.
  exists J, vl1. split; [|exact HJ]. eapply star_trans; [exact Hs|].
  assert (E : S (pc + size cx) L IL (push_o r0 (J ++ X)) (push_i r0 XI) vl1
              = S (pc + size cx) L IL (rev (args_o 0 (-1) [r0]) ++ J ++ X) (rev (args_i 0 (-1) [r0]) ++ XI) vl1)
    by (destruct r0; reflexivity).
  rewrite E.
  eapply star_eq; [apply star_one; apply (native_step nid 0 sg [r0] (-1) [w] Esig Econf Enat Eres (pc + size cx) L IL (J ++ X) XI vl1 [] ltac:(congruence) Hat)|].
  rewrite size_snoc. cbn [ikind width operand_of]. destruct w; cbn [pushes_o pushes_i push_o push_i]; apply S_eq; lia.
Qed.

Theorem expr_correct e : expr_ok e.
Proof.
  induction e as [id c|x t|e IHe|e IHe| |op tx e1 e2 IHe1 IHe2|tx e lo hi three IHe IHlo IHhi|f t recv args IHrecv IHargs|nid t e IHe| ]
    using expr_ind'.
  - apply const_ok.
  - apply ident_ok.
  - now apply paren_ok.
  - now apply not_ok.
  - intros st st' c Hc; discriminate.
  - now apply binary_ok.
  - now apply slice_ok.
  - now apply call_ok_expr.
  - now apply selector_ok.
  - intros st st' c Hc; discriminate.
Qed.

End Frame.
