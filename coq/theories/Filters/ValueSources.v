(* C17: where the values a comparison compares come from, beyond the closures themselves.

   1. The Text of a capture.  The Text closures compare params.nodeText(n); filterParams.nodeText is rulesRunner.nodeText, the
      function renderMessage interpolates `$x` with.  nodeText slices the bytes the file system holds at the file's path when
      the capture's extent lies inside them, and otherwise prints the node (go/printer normalises spacing): for a file that
      exists in memory only, or whose saved version is shorter than the analysed one, the Text of a capture is NOT the bytes of
      its source extent, and its length is not End()-Pos().  [node_text] is that function; the theorems say what may and what
      may not be concluded from the extent.

   2. A constant written as a literal in the body of a group-local predicate function.  irconv expands the call by copying the
      body; go/types knows nothing about the copy, so expandMacro re-creates the constant value of every literal from its
      spelling: strconv.ParseInt(lit.Value, base, bits) for integers.  [parse_int] is strconv.ParseInt on unsigned spellings;
      [go_literal_is_base0] says that with base 0 every Go integer literal (decimal, 0644, 0o17, 0b101, 0x1F, with
      underscores) below 2^63 is read as its Go value, [base10_misreads_legacy_octal] that with base 10 it is not.

   go2coq filtertables regenerates the bodies of nodeText / fileBytes / printNode, every assignment to the nodeText field, the
   text renderMessage interpolates, expandMacro's literal switch, and the base / size of the ParseInt call;
   [value_sources_okb] demands equality with the audited copy below, so an edit has to be re-audited here. *)
From Coq Require Import List Arith NArith ZArith Bool String Ascii Lia ZifyBool ZifyNat ZifyN.
From RG.Base Require Import Outcome.
From RG.Filters Require Import FilterIR FilterAlgebra.
Import ListNotations.
Local Open Scope string_scope.

(* ================================================================== 1. the Text of a capture *)
Record tnode := { tn_from : nat; tn_to : nat; tn_printed : string }.

Definition extent (n : tnode) : nat := tn_to n - tn_from n.

(* `(from >= 0 && from < len(src)) && (to >= from && to <= len(src))`; src is empty when the file cannot be read *)
Definition in_file (file : string) (n : tnode) : bool :=
  (tn_from n <? String.length file)%nat && (tn_from n <=? tn_to n)%nat && (tn_to n <=? String.length file)%nat.

Definition node_text (file : string) (n : tnode) : string :=
  if in_file file n then substring (tn_from n) (extent n) file else tn_printed n.

Lemma substring_length s : forall n m, (n + m <= String.length s)%nat -> String.length (substring n m s) = m.
Proof.
  induction s as [|c s IH]; intros n m H; cbn in H.
  - assert (n = 0 /\ m = 0)%nat as [-> ->] by lia. reflexivity.
  - destruct n as [|n]; cbn [substring].
    + destruct m as [|m]; [reflexivity|]. cbn. f_equal. apply IH. lia.
    + apply IH. lia.
Qed.

(* on a file whose bytes can be read back the Text of a capture has the length of its extent ... *)
Theorem node_text_length_readable file n :
  in_file file n = true -> String.length (node_text file n) = extent n.
Proof.
  intros Hin. unfold node_text. rewrite Hin. apply substring_length.
  unfold in_file in Hin. apply andb_prop in Hin. destruct Hin as [Hin H2]. apply andb_prop in Hin. destruct Hin as [_ H1].
  apply Nat.leb_le in H1, H2. unfold extent. lia.
Qed.

(* ... and on any other file it is what the printer makes of the node, whatever the extent *)
Theorem node_text_printed_unreadable file n : in_file file n = false -> node_text file n = tn_printed n.
Proof. intros H. unfold node_text. now rewrite H. Qed.

Lemma eqb_same_length a b : String.eqb a b = true -> String.length a = String.length b.
Proof. intros H. apply String.eqb_eq in H. now subst. Qed.

(* deciding `Text == c` from the extent first ("texts of different lengths are never equal") *)
Definition eq_by_extent (file : string) (n : tnode) (c : string) : bool :=
  if Nat.eqb (extent n) (String.length c) then String.eqb (node_text file n) c else false.

Theorem eq_by_extent_sound_readable file n c :
  in_file file n = true -> eq_by_extent file n c = String.eqb (node_text file n) c.
Proof.
  intros Hin. unfold eq_by_extent. destruct (Nat.eqb (extent n) (String.length c)) eqn:E; [reflexivity|].
  apply Nat.eqb_neq in E. destruct (String.eqb (node_text file n) c) eqn:E2; [|reflexivity].
  apply eqb_same_length in E2. rewrite (node_text_length_readable file n Hin) in E2. contradiction.
Qed.

(* the shortcut is unsound as soon as the bytes cannot be read back: `sink(g( 1,2 ))` analysed from memory *)
Theorem eq_by_extent_unsound_unreadable :
  exists n c, in_file "" n = false /\ String.eqb (node_text "" n) c = true /\ eq_by_extent "" n c = false.
Proof. exists {| tn_from := 40; tn_to := 49; tn_printed := "g(1, 2)" |}, "g(1, 2)". repeat split. Qed.

(* the END of an extent is exclusive: a capture whose last byte is the last byte of the file (a file that does not end in a
   newline) has tn_to = length of the file and is still sliced -- its Text is the source spelling, not the printed one *)
Theorem node_text_is_source_up_to_eof file n :
  (tn_from n < String.length file)%nat -> (tn_from n <= tn_to n)%nat -> (tn_to n <= String.length file)%nat ->
  node_text file n = substring (tn_from n) (extent n) file.
Proof.
  intros H1 H2 H3. unfold node_text, in_file.
  apply Nat.ltb_lt in H1. apply Nat.leb_le in H2, H3. now rewrite H1, H2, H3.
Qed.

(* testing both ends with the test that suits the start (`0 <= off < len(src)`) turns exactly those captures over to the printer *)
Definition in_file_both_ends_exclusive (file : string) (n : tnode) : bool :=
  (tn_from n <? String.length file)%nat && (tn_to n <? String.length file)%nat && (tn_from n <=? tn_to n)%nat.

Theorem both_ends_exclusive_differs_exactly_at_eof file n :
  in_file file n = true ->
  (in_file_both_ends_exclusive file n = false <-> tn_to n = String.length file).
Proof.
  unfold in_file, in_file_both_ends_exclusive. intros H.
  apply andb_prop in H. destruct H as [H H3]. apply andb_prop in H. destruct H as [H1 H2].
  rewrite H1, H2. cbn [andb]. rewrite andb_true_r. apply Nat.leb_le in H3.
  split; intros E.
  - apply Nat.ltb_ge in E. lia.
  - apply Nat.ltb_ge. lia.
Qed.

Theorem both_ends_exclusive_refuted :
  exists file n c, in_file file n = true /\ String.eqb (node_text file n) c = true
    /\ String.eqb (if in_file_both_ends_exclusive file n then substring (tn_from n) (extent n) file else tn_printed n) c = false.
Proof. exists "x = a+b", {| tn_from := 4; tn_to := 7; tn_printed := "a + b" |}, "a+b". repeat split. Qed.

(* the Text comparisons of [eval] over an environment whose texts are [node_text] *)
Definition text_env (file : string) (nodes : string -> tnode) (E : menv) : menv :=
  {| m_int := m_int E; m_str := fun _ x => Ok (Known (node_text file (nodes x))); m_atom := m_atom E |}.

Theorem text_compare_is_on_node_text C file nodes E x t c b :
  s_cmp t (node_text file (nodes x)) c = Some b ->
  eval C (text_env file nodes E) (LCmpConst KText x t (CStr c)) = Ok b.
Proof. intros H. cbn [eval]. unfold eval_cmp_const. cbn. rewrite H. reflexivity. Qed.

(* `Text == c` accepts exactly when the text the engine reports for the capture is c, readable file or not *)
Theorem text_eq_is_reported_text C file nodes E x c :
  eval C (text_env file nodes E) (LCmpConst KText x "EQL" (CStr c)) = Ok (String.eqb (node_text file (nodes x)) c) /\
  eval C (text_env file nodes E) (LCmpConst KText x "NEQ" (CStr c)) = Ok (negb (String.eqb (node_text file (nodes x)) c)).
Proof.
  destruct (s_cmp_is_order (node_text file (nodes x)) c) as (H1 & H2 & _).
  split; apply text_compare_is_on_node_text; assumption.
Qed.

(* ================================================================== 2. literals in the body of a local predicate function *)
Local Open Scope N_scope.

Definition codes (s : string) : list N := map N_of_ascii (list_ascii_of_string s).

(* strconv: lower(c) = c | ('x' - 'X') *)
Definition lower (c : N) : N := N.lor c 32.

Definition digit_val (c : N) : option N :=
  if (48 <=? c) && (c <=? 57) then Some (c - 48)
  else if (97 <=? lower c) && (lower c <=? 122) then Some (lower c - 97 + 10)
  else None.

Definition two64 : N := 18446744073709551616.

(* the digit loop of ParseUint: `_` is skipped when the base was 0, a digit not below the base is a syntax error, a value that
   does not fit 64 bits a range error *)
Fixpoint parse_digits (base : N) (base0 : bool) (l : list N) (acc : N) : option N :=
  match l with
  | [] => Some acc
  | c :: r =>
      if (c =? 95) && base0 then parse_digits base base0 r acc
      else match digit_val c with
           | Some d => if d <? base then (if acc * base + d <? two64 then parse_digits base base0 r (acc * base + d) else None) else None
           | None => None
           end
  end.

(* strconv.underscoreOK: underscores only between digits or right after the base prefix.  saw: 48 a digit, 95 an underscore,
   33 something else, 94 nothing yet *)
Fixpoint us_scan (hex : bool) (saw : N) (l : list N) : bool :=
  match l with
  | [] => negb (saw =? 95)
  | c :: r =>
      if ((48 <=? c) && (c <=? 57)) || (hex && (97 <=? lower c) && (lower c <=? 102)) then us_scan hex 48 r
      else if c =? 95 then (if saw =? 48 then us_scan hex 95 r else false)
      else if saw =? 95 then false
      else us_scan hex 33 r
  end.

Definition is_base_letter (c : N) : bool := (lower c =? 98) || (lower c =? 111) || (lower c =? 120).

Definition underscore_ok (l : list N) : bool :=
  match l with
  | c0 :: c :: r => if (c0 =? 48) && is_base_letter c then us_scan (lower c =? 120) 48 r else us_scan false 94 l
  | _ => us_scan false 94 l
  end.

(* base 0: the base is read off the prefix (0b 0o 0x, a bare leading 0 means octal) *)
Definition split_base0 (l : list N) : N * list N :=
  match l with
  | c0 :: r0 =>
      if c0 =? 48 then
        match r0 with
        | c :: _ :: _ => if lower c =? 98 then (2, tl r0) else if lower c =? 111 then (8, tl r0)
                         else if lower c =? 120 then (16, tl r0) else (8, r0)
        | _ => (8, r0)
        end
      else (10, l)
  | [] => (10, l)
  end.

(* strconv.ParseUint(s, base, 64) *)
Definition parse_uint (base : N) (l : list N) : option N :=
  match l with
  | [] => None
  | _ =>
      if base =? 0 then
        match parse_digits (fst (split_base0 l)) true (snd (split_base0 l)) 0 with
        | Some n => if existsb (N.eqb 95) (snd (split_base0 l)) && negb (underscore_ok l) then None else Some n
        | None => None
        end
      else if (2 <=? base) && (base <=? 36) then parse_digits base false l 0
      else None
  end.

(* strconv.ParseInt(s, base, bits) on a spelling without a sign (a literal token has none) *)
Definition parse_int (base bits : N) (s : string) : option Z :=
  match parse_uint base (codes s) with
  | Some n => if n <? 2 ^ (bits - 1) then Some (Z.of_N n) else None
  | None => None
  end.

(* ---- Go integer literals (spec: Integer literals) *)
Inductive lit_prefix := PDec | PLegacy | POct (upper : bool) | PBin (upper : bool) | PHex (upper : bool).

Definition base_of (p : lit_prefix) : N :=
  match p with PDec => 10 | PLegacy | POct _ => 8 | PBin _ => 2 | PHex _ => 16 end.

Definition prefix_codes (p : lit_prefix) : list N :=
  match p with
  | PDec => []
  | PLegacy => [48]
  | POct u => [48; if u then 79 else 111]
  | PBin u => [48; if u then 66 else 98]
  | PHex u => [48; if u then 88 else 120]
  end.

(* a digit: its value and, for the letters of a hexadecimal literal, the case it is written in *)
Record dig := { d_val : nat; d_upper : bool }.

Definition dig_code (d : dig) : N :=
  if (d_val d <? 10)%nat then 48 + N.of_nat (d_val d)
  else (if d_upper d then 65 else 97) + N.of_nat (d_val d - 10).

(* the digits of the literal after its prefix; None is an underscore *)
Definition body_codes (body : list (option dig)) : list N :=
  map (fun o => match o with Some d => dig_code d | None => 95 end) body.

Definition lit_codes (p : lit_prefix) (body : list (option dig)) : list N := prefix_codes p ++ body_codes body.

Fixpoint body_value (base : N) (body : list (option dig)) (acc : N) : N :=
  match body with
  | [] => acc
  | Some d :: r => body_value base r (acc * base + N.of_nat (d_val d))
  | None :: r => body_value base r acc
  end.

Definition lit_value (p : lit_prefix) (body : list (option dig)) : N := body_value (base_of p) body 0.

(* digits below the base, an underscore only after a digit (or right after the prefix), a digit at the end *)
Fixpoint wf_body (base : N) (after_digit : bool) (body : list (option dig)) : bool :=
  match body with
  | [] => after_digit
  | Some d :: r => (N.of_nat (d_val d) <? base) && wf_body base true r
  | None :: r => after_digit && wf_body base false r
  end.

Definition wf_lit (p : lit_prefix) (body : list (option dig)) : bool :=
  match p with
  | PDec => match body with
            | Some d :: r => (negb (Nat.eqb (d_val d) 0) || match r with [] => true | _ => false end) && wf_body 10 false body
            | _ => false
            end
  | PLegacy => wf_body 8 true body
  | _ => match body with [] => false | _ => wf_body (base_of p) true body end
  end.

Lemma digit_val_code d : (d_val d < 36)%nat -> digit_val (dig_code d) = Some (N.of_nat (d_val d)).
Proof.
  destruct d as [v u]. cbn [d_val d_upper]. intros H. unfold dig_code. cbn [d_val d_upper].
  do 36 (destruct v as [|v]; [destruct u; reflexivity|]). lia.
Qed.

Lemma dig_code_not_us d : (d_val d < 36)%nat -> (dig_code d =? 95) = false.
Proof.
  destruct d as [v u]. cbn [d_val d_upper]. intros H. unfold dig_code. cbn [d_val d_upper].
  do 36 (destruct v as [|v]; [destruct u; reflexivity|]). lia.
Qed.

(* the character class underscoreOK counts as a digit: decimal digits always, a-f (either case) in a hexadecimal literal *)
Lemma dig_code_is_us_digit hex d : (d_val d < 16)%nat -> (hex = false -> (d_val d < 10)%nat) ->
  ((48 <=? dig_code d) && (dig_code d <=? 57)) || (hex && (97 <=? lower (dig_code d)) && (lower (dig_code d) <=? 102)) = true.
Proof.
  destruct d as [v u]. cbn [d_val d_upper]. intros H Hh. unfold dig_code. cbn [d_val d_upper].
  do 10 (destruct v as [|v]; [destruct u; reflexivity|]).
  destruct hex; [|specialize (Hh eq_refl); lia].
  do 6 (destruct v as [|v]; [destruct u; reflexivity|]). lia.
Qed.

Lemma body_value_mono base body : forall acc, 1 <= base -> acc <= body_value base body acc.
Proof.
  induction body as [|[d|] r IH]; intros acc Hb; cbn [body_value]; [lia| |now apply IH].
  specialize (IH (acc * base + N.of_nat (d_val d)) Hb). nia.
Qed.

Lemma parse_digits_body base body : forall ad acc, 2 <= base -> base <= 36 ->
  wf_body base ad body = true -> body_value base body acc < two64 ->
  parse_digits base true (body_codes body) acc = Some (body_value base body acc).
Proof.
  induction body as [|[d|] r IH]; intros ad acc Hb1 Hb2 Hwf Hv; cbn [body_codes map parse_digits body_value] in *; [reflexivity| |].
  - cbn [wf_body] in Hwf. apply andb_prop in Hwf. destruct Hwf as [Hd Hwf]. apply N.ltb_lt in Hd.
    assert (Hd36 : (d_val d < 36)%nat) by lia.
    rewrite (dig_code_not_us d Hd36). cbn [andb]. rewrite (digit_val_code d Hd36).
    apply N.ltb_lt in Hd. rewrite Hd.
    pose proof (body_value_mono base r (acc * base + N.of_nat (d_val d)) ltac:(lia)) as Hm.
    assert (Hlt : acc * base + N.of_nat (d_val d) <? two64 = true) by (apply N.ltb_lt; lia).
    rewrite Hlt. apply (IH true); assumption.
  - cbn [wf_body] in Hwf. apply andb_prop in Hwf. destruct Hwf as [_ Hwf].
    cbn. apply (IH false); assumption.
Qed.

Lemma us_scan_body hex base body : forall ad saw, base <= 16 -> (hex = false -> base <= 10) ->
  wf_body base ad body = true -> (ad = true -> saw = 48) ->
  us_scan hex saw (body_codes body) = true.
Proof.
  induction body as [|[d|] r IH]; intros ad saw Hb Hh Hwf Hs; cbn [body_codes map wf_body] in *.
  - cbn. rewrite (Hs Hwf). reflexivity.
  - apply andb_prop in Hwf. destruct Hwf as [Hd Hwf]. apply N.ltb_lt in Hd.
    cbn [us_scan]. rewrite (dig_code_is_us_digit hex d); [|lia|intros E; specialize (Hh E); lia].
    apply (IH true 48); auto.
  - apply andb_prop in Hwf. destruct Hwf as [Had Hwf]. rewrite (Hs Had).
    assert (E : us_scan hex 48 (95 :: body_codes r) = us_scan hex 95 (body_codes r)) by (destruct hex; reflexivity).
    fold (body_codes r). rewrite E. apply (IH false 95); auto. intros E'. discriminate.
Qed.

Lemma dig_code_low d : (d_val d < 10)%nat ->
  is_base_letter (dig_code d) = false /\ (dig_code d =? 48) = Nat.eqb (d_val d) 0 /\ (48 <=? dig_code d) && (dig_code d <=? 57) = true.
Proof.
  destruct d as [v u]. cbn [d_val]. intros H. unfold dig_code. cbn [d_val d_upper].
  do 10 (destruct v as [|v]; [destruct u; repeat split|]). lia.
Qed.

Definition two63 : N := 9223372036854775808.

Definition finish (o : option N) : option Z :=
  match o with Some n => if n <? 2 ^ (64 - 1) then Some (Z.of_N n) else None | None => None end.

Lemma parse_uint_base0 l b rest v : l <> [] -> split_base0 l = (b, rest) ->
  parse_digits b true rest 0 = Some v -> (existsb (N.eqb 95) rest = true -> underscore_ok l = true) ->
  parse_uint 0 l = Some v.
Proof.
  intros Hne Hs Hp Hu. unfold parse_uint. destruct l as [|c l']; [contradiction|]. cbn [N.eqb].
  rewrite Hs. cbn [fst snd]. rewrite Hp. destruct (existsb (N.eqb 95) rest); [|reflexivity].
  rewrite (Hu eq_refl). reflexivity.
Qed.

(* every Go integer literal below 2^63, read with base 0, is its Go value *)
Theorem go_literal_is_base0_codes p body :
  wf_lit p body = true -> lit_value p body < two63 ->
  finish (parse_uint 0 (lit_codes p body)) = Some (Z.of_N (lit_value p body)).
Proof.
  intros Hwf Hv.
  assert (Hfin : forall o, o = Some (lit_value p body) -> finish o = Some (Z.of_N (lit_value p body))).
  { intros o ->. unfold finish. change (2 ^ (64 - 1)) with two63. apply N.ltb_lt in Hv. now rewrite Hv. }
  apply Hfin.
  assert (H64 : lit_value p body < two64) by (unfold two63, two64 in *; lia).
  unfold lit_value in *.
  destruct p as [| |u|u|u]; unfold lit_codes, wf_lit in *; cbn [prefix_codes base_of app] in *.
  - (* decimal *)
    destruct body as [|[d|] r]; try discriminate. apply andb_prop in Hwf. destruct Hwf as [Hnz Hwf].
    pose proof Hwf as Hwf'. cbn [wf_body] in Hwf'. apply andb_prop in Hwf'. destruct Hwf' as [Hd Hr].
    apply N.ltb_lt in Hd. destruct (dig_code_low d ltac:(lia)) as (Hl & H48 & Hdec).
    apply orb_prop in Hnz. destruct Hnz as [Hnz|Hsingle].
    + (* first digit 1..9: no prefix *)
      apply negb_true_iff in Hnz.
      apply (parse_uint_base0 _ 10 (body_codes (Some d :: r))).
      * discriminate.
      * cbn [body_codes map split_base0]. rewrite H48, Hnz. reflexivity.
      * apply (parse_digits_body 10 _ false 0); [lia|lia|exact Hwf|exact H64].
      * intros _. cbn [body_codes map]. fold (body_codes r).
        assert (E : underscore_ok (dig_code d :: body_codes r) = us_scan false 94 (dig_code d :: body_codes r)).
        { unfold underscore_ok. destruct (body_codes r); [reflexivity|]. rewrite H48, Hnz. reflexivity. }
        rewrite E. change (dig_code d :: body_codes r) with (body_codes (Some d :: r)).
        apply (us_scan_body false 10 _ false 94); [lia|lia|exact Hwf|discriminate].
    + (* a single digit *)
      destruct r; [|discriminate].
      destruct d as [v u]. cbn [d_val] in *.
      do 10 (destruct v as [|v]; [destruct u; vm_compute; reflexivity|]). lia.
  - (* legacy octal: 0 followed by octal digits *)
    apply (parse_uint_base0 _ 8 (body_codes body)).
    + discriminate.
    + cbn [split_base0 N.eqb]. destruct body as [|o [|o2 r2]]; try reflexivity.
      cbn [body_codes map]. destruct o as [d|].
      * cbn [wf_body] in Hwf. apply andb_prop in Hwf. destruct Hwf as [Hd _]. apply N.ltb_lt in Hd.
        destruct (dig_code_low d ltac:(lia)) as (Hl & _ & _). unfold is_base_letter in Hl.
        apply orb_false_elim in Hl. destruct Hl as [Hl H3]. apply orb_false_elim in Hl. destruct Hl as [H1 H2].
        rewrite H1, H2, H3. reflexivity.
      * reflexivity.
    + apply (parse_digits_body 8 _ true 0); [lia|lia|exact Hwf|exact H64].
    + intros _.
      assert (E : underscore_ok (48 :: body_codes body) = us_scan false 48 (body_codes body)).
      { unfold underscore_ok. destruct body as [|o r]; [reflexivity|]. cbn [body_codes map]. destruct o as [d|].
        - cbn [wf_body] in Hwf. apply andb_prop in Hwf. destruct Hwf as [Hd _]. apply N.ltb_lt in Hd.
          destruct (dig_code_low d ltac:(lia)) as (Hl & _ & _). rewrite Hl. cbn [N.eqb andb]. reflexivity.
        - reflexivity. }
      rewrite E. apply (us_scan_body false 8 _ true 48); [lia|lia|exact Hwf|reflexivity].
  - (* 0o / 0O *)
    destruct body as [|o r]; [discriminate|].
    apply (parse_uint_base0 _ 8 (body_codes (o :: r))).
    + discriminate.
    + destruct u; reflexivity.
    + apply (parse_digits_body 8 _ true 0); [lia|lia|exact Hwf|exact H64].
    + intros _.
      assert (E : underscore_ok (48 :: (if u then 79 else 111) :: body_codes (o :: r)) = us_scan false 48 (body_codes (o :: r))) by (destruct u; reflexivity).
      rewrite E. apply (us_scan_body false 8 _ true 48); [lia|lia|exact Hwf|reflexivity].
  - (* 0b / 0B *)
    destruct body as [|o r]; [discriminate|].
    apply (parse_uint_base0 _ 2 (body_codes (o :: r))).
    + discriminate.
    + destruct u; reflexivity.
    + apply (parse_digits_body 2 _ true 0); [lia|lia|exact Hwf|exact H64].
    + intros _.
      assert (E : underscore_ok (48 :: (if u then 66 else 98) :: body_codes (o :: r)) = us_scan false 48 (body_codes (o :: r))) by (destruct u; reflexivity).
      rewrite E. apply (us_scan_body false 2 _ true 48); [lia|lia|exact Hwf|reflexivity].
  - (* 0x / 0X *)
    destruct body as [|o r]; [discriminate|].
    apply (parse_uint_base0 _ 16 (body_codes (o :: r))).
    + discriminate.
    + destruct u; reflexivity.
    + apply (parse_digits_body 16 _ true 0); [lia|lia|exact Hwf|exact H64].
    + intros _.
      assert (E : underscore_ok (48 :: (if u then 88 else 120) :: body_codes (o :: r)) = us_scan true 48 (body_codes (o :: r))) by (destruct u; reflexivity).
      rewrite E. apply (us_scan_body true 16 _ true 48); [lia|discriminate|exact Hwf|reflexivity].
Qed.

(* ---- the same on the literal as a string *)
Definition string_of_codes (l : list N) : string := string_of_list_ascii (map ascii_of_N l).
Definition spell (p : lit_prefix) (body : list (option dig)) : string := string_of_codes (lit_codes p body).

Lemma codes_string_of_codes l : Forall (fun c => c < 256) l -> codes (string_of_codes l) = l.
Proof.
  intros H. unfold codes, string_of_codes. rewrite list_ascii_of_string_of_list_ascii, map_map.
  induction H as [|c l Hc _ IH]; [reflexivity|]. cbn [map]. rewrite IH. f_equal. now apply N_ascii_embedding.
Qed.

Lemma dig_code_byte d : (d_val d < 36)%nat -> dig_code d < 256.
Proof.
  destruct d as [v u]. cbn [d_val]. intros H. unfold dig_code. cbn [d_val d_upper].
  do 36 (destruct v as [|v]; [destruct u; reflexivity|]). lia.
Qed.

Lemma wf_body_bytes base body : forall ad, base <= 36 -> wf_body base ad body = true -> Forall (fun c => c < 256) (body_codes body).
Proof.
  induction body as [|[d|] r IH]; intros ad Hb Hwf; cbn [body_codes map wf_body] in *; [constructor| |].
  - apply andb_prop in Hwf. destruct Hwf as [Hd Hwf]. apply N.ltb_lt in Hd. constructor; [apply dig_code_byte; lia|].
    now apply (IH true).
  - apply andb_prop in Hwf. destruct Hwf as [_ Hwf]. constructor; [reflexivity|]. now apply (IH false).
Qed.

Lemma wf_lit_bytes p body : wf_lit p body = true -> Forall (fun c => c < 256) (lit_codes p body).
Proof.
  intros Hwf. unfold lit_codes. apply Forall_app. split.
  - destruct p as [| |u|u|u]; cbn [prefix_codes]; repeat constructor; destruct u; reflexivity.
  - destruct p as [| |u|u|u]; unfold wf_lit in Hwf; cbn [base_of] in Hwf.
    + destruct body as [|[d|] r]; try discriminate. apply andb_prop in Hwf. destruct Hwf as [_ Hwf].
      now apply (wf_body_bytes 10 _ false).
    + now apply (wf_body_bytes 8 _ true).
    + destruct body; [discriminate|]. now apply (wf_body_bytes 8 _ true).
    + destruct body; [discriminate|]. now apply (wf_body_bytes 2 _ true).
    + destruct body; [discriminate|]. now apply (wf_body_bytes 16 _ true).
Qed.

Theorem go_literal_is_base0 p body :
  wf_lit p body = true -> lit_value p body < two63 ->
  parse_int 0 64 (spell p body) = Some (Z.of_N (lit_value p body)).
Proof.
  intros Hwf Hv. unfold parse_int, spell. rewrite (codes_string_of_codes _ (wf_lit_bytes p body Hwf)).
  exact (go_literal_is_base0_codes p body Hwf Hv).
Qed.

(* ... and read with base 10 it is not: a legacy octal literal silently gets another value, the prefixed forms and the
   underscores are refused *)
Theorem base10_misreads_legacy_octal :
  parse_int 0 64 "0644" = Some 420%Z /\ parse_int 10 64 "0644" = Some 644%Z /\
  parse_int 0 64 "0x1F" = Some 31%Z /\ parse_int 10 64 "0x1F" = None /\
  parse_int 0 64 "1_000" = Some 1000%Z /\ parse_int 10 64 "1_000" = None.
Proof. vm_compute. repeat split. Qed.

Definition dd (v : nat) : option dig := Some {| d_val := v; d_upper := false |}.
Definition dD (v : nat) : option dig := Some {| d_val := v; d_upper := true |}.

Example spell_examples :
  spell PLegacy [dd 6; dd 4; dd 4] = "0644" /\ wf_lit PLegacy [dd 6; dd 4; dd 4] = true /\ lit_value PLegacy [dd 6; dd 4; dd 4] = 420 /\
  spell (PHex true) [None; dd 1; dD 15] = "0X_1F" /\ wf_lit (PHex true) [None; dd 1; dD 15] = true /\ lit_value (PHex true) [None; dd 1; dD 15] = 31 /\
  spell PDec [dd 1; None; dd 0; dd 0; dd 0] = "1_000" /\ wf_lit PDec [dd 1; None; dd 0; dd 0; dd 0] = true /\
  spell (PBin false) [dd 1; dd 0; dd 1] = "0b101" /\ lit_value (PBin false) [dd 1; dd 0; dd 1] = 5 /\
  wf_lit PDec [dd 0; dd 7] = false /\ wf_lit PDec [dd 1; None] = false /\ wf_lit (POct false) [] = false /\ wf_lit PLegacy [dd 8] = false /\
  wf_lit PDec [None; dd 1] = false /\ wf_lit (PHex false) [dd 1; None; None; dd 2] = false.
Proof. vm_compute. repeat split. Qed.

(* what the strings mean that are NOT Go literals is strconv's business; four of them, for the record *)
Example not_literals : parse_int 0 64 "1__0" = None /\ parse_int 0 64 "0x" = None /\ parse_int 0 64 "_1" = None /\ parse_int 0 64 "9223372036854775808" = None.
Proof. vm_compute. repeat split. Qed.

Local Close Scope N_scope.

(* ================================================================== the regenerated obligation *)
Definition macro_int_params_okb (base bits : Z) : bool := Z.eqb base 0 && Z.eqb bits 64.

Definition doc_value_sources : list (string * string) := [
  ("rulesRunner.nodeText", "func(n ast.Node) []byte :: if isAbsentNode(n) { return nil } ;; from := rr.ctx.Fset.Position(n.Pos()).Offset ;; to := rr.ctx.Fset.Position(n.End()).Offset ;; src := rr.fileBytes() ;; if (from >= 0 && from < len(src)) && (to >= from && to <= len(src)) { return src[from:to] } ;; if n, ok := n.(*ast.Comment); ok { return []byte(n.Text) } ;; // Fallback to the printer. var buf bytes.Buffer ;; if err := rr.printNode(&buf, n); err != nil { panic(err) } ;; return buf.Bytes()");
  ("rulesRunner.fileBytes", "func() []byte :: if rr.src != nil { return rr.src } ;; src, err := os.ReadFile(rr.filename) ;; if err != nil || src == nil { rr.src = make([]byte, 0) } else { rr.src = src } ;; return rr.src");
  ("rulesRunner.printNode", "func(buf *bytes.Buffer, n ast.Node) error :: switch n := n.(type) { case *gogrep.NodeSlice: sep := "", "" switch n.Kind { case gogrep.StmtNodeSlice, gogrep.SpecNodeSlice, gogrep.DeclNodeSlice: sep = ""\n"" } for i := 0; i < n.Len(); i++ { if i != 0 { buf.WriteString(sep) } if err := rr.printNode(buf, n.At(i)); err != nil { return err } } return nil case *gogrep.PartialNode: rng, ok := n.X.(*ast.RangeStmt) if !ok { return fmt.Errorf(""unsupported partial node of %T"", n.X) } if n.Pos() == rng.Pos() { buf.WriteString(""for "") if rng.Key != nil { if err := printer.Fprint(buf, rr.ctx.Fset, rng.Key); err != nil { return err } if rng.Value != nil { buf.WriteString("", "") if err := printer.Fprint(buf, rr.ctx.Fset, rng.Value); err != nil { return err } } buf.WriteString("" "" + rng.Tok.String() + "" "") } } buf.WriteString(""range "") return printer.Fprint(buf, rr.ctx.Fset, rng.X) case *ast.FieldList: if n.Opening.IsValid() { buf.WriteByte('(') } for i, field := range n.List { if i != 0 { buf.WriteString("", "") } if err := rr.printNode(buf, field); err != nil { return err } } if n.Closing.IsValid() { buf.WriteByte(')') } return nil case *ast.Field: for i, name := range n.Names { if i != 0 { buf.WriteString("", "") } buf.WriteString(name.Name) } if n.Type != nil { if len(n.Names) != 0 { buf.WriteByte(' ') } if err := printer.Fprint(buf, rr.ctx.Fset, n.Type); err != nil { return err } } if n.Tag != nil { buf.WriteByte(' ') buf.WriteString(n.Tag.Value) } return nil } ;; return printer.Fprint(buf, rr.ctx.Fset, n)");
  ("filterParams.nodeText", "runner.go: rr.filterParams.nodeText = rr.nodeText");
  ("renderMessage.text", "text := rr.nodeText(n) ;; text = rr.fixedText(text, n, msg[dollarPos+1+nameLen:]) ;; text = truncateText(text, rr.truncateLen)");
  ("expandMacro.literals", "switch lit.Kind { case token.STRING: val, err := strconv.Unquote(lit.Value) if err == nil { conv.types.Types[lit] = types.TypeAndValue{ Type: types.Typ[types.UntypedString], Value: constant.MakeString(val), } } case token.INT: val, err := strconv.ParseInt(lit.Value, 0, 64) if err == nil { conv.types.Types[lit] = types.TypeAndValue{ Type: types.Typ[types.UntypedInt], Value: constant.MakeInt64(val), } } case token.FLOAT: val, err := strconv.ParseFloat(lit.Value, 64) if err == nil { conv.types.Types[lit] = types.TypeAndValue{ Type: types.Typ[types.UntypedFloat], Value: constant.MakeFloat64(val), } } }")
].

Definition value_sources_okb (gen : list (string * string)) : bool :=
  Nat.eqb (List.length gen) (List.length doc_value_sources) && nodupb (map fst gen)
  && forallb (fun p => existsb (fun q => String.eqb (fst p) (fst q) && String.eqb (snd p) (snd q)) doc_value_sources) gen.
