(* C02: the repo-owned logic around the go/types answers of the Where() predicates.

   - [pred_eval]: how a predicate closure turns the per-expression fact into a verdict for each capture shape (single
     expression, expression statement, other node, `$*xs` list), driven by the constructor summary [ctor_info] that
     go2coq regenerates from filters.go (list branch?, operand selector).  Theorems: verdict <-> fact, for lists
     <-> the fact of every element; the partial / refuted versions for constructors without a list branch.
   - the OfKind table of dsl.go as a specification over go/types' BasicInfo ([doc_ofkind]) and the model of the
     loader's dispatch ([ofkind_model]) over the regenerated tables.
   - GoVersion comparison as the lexicographic order on (major, minor).
   - Type.HasPointers: an interpreter of the regenerated case table of typeHasPointers and its conservativeness.
   - the documented wiring: DSL path -> closure and acceptance condition ([doc_wiring]), checked against the
     regenerated conversion / loader tables and constructor summaries by [wiring_okb]. *)
From Coq Require Import List ZArith Bool String Ascii Lia.
From RG.Base Require Import Outcome.
From RG.Filters Require Import FilterIR.
Import ListNotations.
Local Open Scope string_scope.

(* ------------------------------------------------------------------ constructor summaries *)
Inductive operand_kind :=
| OpSubExpr        (* params.subExpr(v): the expression, an ExprStmt unwrapped, anything else nil *)
| OpSubExprTyped   (* params.typeofNode(params.subExpr(v)) *)
| OpSubNodeTyped   (* params.typeofNode(params.subNode(v)): only expressions and fields have a type *)
| OpSubNode        (* params.subNode(v): the node itself *)
| OpNone.          (* no captured operand (file / run level, whole-match predicates) *)

Definition operand_kind_eqb (a b : operand_kind) : bool :=
  match a, b with
  | OpSubExpr, OpSubExpr | OpSubExprTyped, OpSubExprTyped | OpSubNodeTyped, OpSubNodeTyped | OpSubNode, OpSubNode | OpNone, OpNone => true
  | _, _ => false
  end.

Record ctor_info := {
  ci_list : bool;            (* has the asExprSlice / exprListFilterApply branch *)
  ci_operand : operand_kind; (* operand selector of the single branch *)
  ci_simple : bool;          (* single branch is `if COND { success }; failure` *)
  ci_cond : string;          (* COND with the operand written X ({...}: not a single condition) *)
  ci_list_cond : string      (* per-element condition of the list branch, operand written X *)
}.

(* ------------------------------------------------------------------ verdict of a predicate closure per capture shape *)
Inductive capture (E : Type) :=
| CapExpr (e : E)          (* an ast.Expr *)
| CapExprStmt (e : E)      (* an *ast.ExprStmt whose X is e *)
| CapNode                  (* any other non-nil node (statement, declaration, ...) *)
| CapList (l : list E)     (* gogrep.NodeSlice of expressions ($*xs) *)
| CapOtherList.            (* gogrep.NodeSlice of statements / fields / ... *)
Arguments CapExpr {E} e. Arguments CapExprStmt {E} e. Arguments CapNode {E}. Arguments CapList {E} l. Arguments CapOtherList {E}.

Section PredEval.
  Variable E : Type.
  Variable fact : E -> bool.                (* the documented fact about one captured expression (go/types' answer) *)
  Variable nil_fact : bool.                 (* the closure's answer when it obtains no expression / the invalid type *)
  Variable node_fact : capture E -> bool.   (* closures working on the node itself: the answer for a non-expression capture *)

  Definition pred_eval (ci : ctor_info) (c : capture E) : bool :=
    match c with
    | CapExpr e => fact e
    | CapExprStmt e =>
        match ci_operand ci with
        | OpSubExpr | OpSubExprTyped => fact e
        | OpSubNodeTyped => nil_fact
        | OpSubNode | OpNone => node_fact c
        end
    | CapList l =>
        if ci_list ci then forallb fact l
        else match ci_operand ci with
             | OpSubNode | OpNone => node_fact c
             | _ => nil_fact
             end
    | CapNode | CapOtherList =>
        match ci_operand ci with
        | OpSubNode | OpNone => node_fact c
        | _ => nil_fact
        end
    end.

  (* the property's reading of a capture: the fact holds for the captured expression, for `$*xs` for every element *)
  Definition fact_holds (c : capture E) : Prop :=
    match c with
    | CapExpr e | CapExprStmt e => fact e = true
    | CapList l => Forall (fun e => fact e = true) l
    | CapNode | CapOtherList => False
    end.

  Theorem eval_iff_fact_single ci e : pred_eval ci (CapExpr e) = true <-> fact_holds (CapExpr e).
  Proof. reflexivity. Qed.

  Theorem eval_iff_fact_list ci l : ci_list ci = true ->
    (pred_eval ci (CapList l) = true <-> fact_holds (CapList l)).
  Proof.
    intros Hl. cbn [pred_eval fact_holds]. rewrite Hl, forallb_forall, Forall_forall. reflexivity.
  Qed.

  Theorem eval_iff_fact_exprstmt ci e : ci_operand ci = OpSubExpr \/ ci_operand ci = OpSubExprTyped ->
    (pred_eval ci (CapExprStmt e) = true <-> fact_holds (CapExprStmt e)).
  Proof. intros [H|H]; cbn [pred_eval fact_holds]; rewrite H; reflexivity. Qed.

  (* constructors without a list branch: the verdict on a `$*xs` capture ignores the elements *)
  Theorem eval_list_unsupported ci l : ci_list ci = false ->
    ci_operand ci = OpSubExpr \/ ci_operand ci = OpSubExprTyped \/ ci_operand ci = OpSubNodeTyped ->
    pred_eval ci (CapList l) = nil_fact.
  Proof. intros Hl [H|[H|H]]; cbn [pred_eval]; rewrite Hl, H; reflexivity. Qed.

  (* ... so the full-strength statement is refuted for them: the empty list satisfies "every element" *)
  Theorem eval_iff_fact_list_refuted ci : ci_list ci = false ->
    ci_operand ci = OpSubExpr \/ ci_operand ci = OpSubExprTyped \/ ci_operand ci = OpSubNodeTyped ->
    nil_fact = false ->
    exists l, fact_holds (CapList l) /\ pred_eval ci (CapList l) = false.
  Proof.
    intros Hl Hop Hn. exists []. split; [constructor|]. rewrite eval_list_unsupported by assumption. exact Hn.
  Qed.

  (* the guarded (partial) statement that does hold for every constructor *)
  Theorem eval_iff_fact_partial ci c :
    match c with CapExpr _ => True | CapList _ => ci_list ci = true | _ => False end ->
    (pred_eval ci c = true <-> fact_holds c).
  Proof.
    destruct c; intros H; try contradiction.
    - apply eval_iff_fact_single.
    - now apply eval_iff_fact_list.
  Qed.
End PredEval.

(* ------------------------------------------------------------------ OfKind: the table of dsl/dsl.go *)
Section OfKind.
  Variable info_bit : string -> Z.   (* go/types: value of types.IsXxx *)

  Definition has_bit (info : Z) (bit : string) : bool := negb (Z.eqb (Z.land info (info_bit bit)) 0).

  (* dsl.go, ExprType.OfKind: verdict for a *types.Basic with BasicInfo [info] and kind named [kname];
     None: not a documented kind name *)
  Definition doc_ofkind (name : string) (info : Z) (kname : string) : option bool :=
    if String.eqb name "integer" then Some (has_bit info "IsInteger")
    else if String.eqb name "unsigned" then Some (has_bit info "IsUnsigned")
    else if String.eqb name "float" then Some (has_bit info "IsFloat")
    else if String.eqb name "complex" then Some (has_bit info "IsComplex")
    else if String.eqb name "untyped" then Some (has_bit info "IsUntyped")
    else if String.eqb name "numeric" then Some (has_bit info "IsNumeric")
    else if String.eqb name "signed" then Some (has_bit info "IsInteger" && negb (has_bit info "IsUnsigned"))
    else if String.eqb name "int" then Some (mem kname ["Int"; "Int8"; "Int16"; "Int32"; "Int64"])
    else if String.eqb name "uint" then Some (mem kname ["Uint"; "Uint8"; "Uint16"; "Uint32"; "Uint64"])
    else None.

  Definition doc_kind_names : list string :=
    ["integer"; "unsigned"; "float"; "complex"; "untyped"; "numeric"; "signed"; "int"; "uint"].

  (* the loader's dispatch over the regenerated pieces: special names, stringToBasicKind, the three closures' conditions *)
  Definition ofkind_model (special : list (string * (string * string))) (s2bk : list (string * string))
             (kind_num : string -> Z)
             (cond_ofkind cond_signed cond_intuint : Z -> Z -> Z -> bool)
             (name : string) (info k : Z) : option bool :=
    match assoc name special with
    | Some (ctor, arg) =>
        if String.eqb ctor "makeTypeIsSignedFilter" then Some (cond_signed info k 0%Z)
        else if String.eqb ctor "makeTypeIsIntUintFilter" then Some (cond_intuint info k (kind_num arg))
        else None
    | None =>
        match assoc name s2bk with
        | Some bit => if Z.eqb (info_bit bit) 0 then None else Some (cond_ofkind info k (info_bit bit))
        | None => None     (* stringToBasicKind answers 0: "unknown kind" load error *)
        end
    end.

  Definition opt_bool_eqb (a b : option bool) : bool :=
    match a, b with Some x, Some y => Bool.eqb x y | None, None => true | _, _ => false end.
End OfKind.

(* ------------------------------------------------------------------ GoVersion *)
Definition lex_compare (xM xm yM ym : Z) : comparison :=
  match Z.compare xM yM with Eq => Z.compare xm ym | c => c end.

(* ------------------------------------------------------------------ Type.HasPointers *)
Inductive tshape :=
| SBasic (kind : string)
| SNamed (u : tshape)
| SStruct (fs : list tshape)
| SArray (e : tshape)
| SOther.      (* pointer, slice, map, chan, func, interface, type parameter, tuple, ... *)

Section HasPointers.
  Variable basic_true : list string.            (* regenerated: kinds answering true in the Basic case *)
  Variable cases : list (string * string).       (* regenerated: which type-switch cases exist and their shape *)

  Definition case_is (k v : string) : bool := match assoc k cases with Some s => String.eqb s v | None => false end.

  Fixpoint has_pointers (t : tshape) : bool :=
    match t with
    | SBasic k => if case_is "Basic" "kinds" then mem k basic_true else true
    | SNamed u => if case_is "Named" "underlying" then has_pointers u else true
    | SStruct fs => if case_is "Struct" "anyfield" then existsb has_pointers fs else true
    | SArray e => if case_is "Array" "elem" then has_pointers e else true
    | SOther => true
    end.

  (* the kinds of basic types whose values hold a pointer (dsl.go: "string type is not considered to be pointer-free") *)
  Definition doc_pointer_kinds : list string := ["String"; "UnsafePointer"; "UntypedString"; "UntypedNil"].

  Inductive contains_pointer : tshape -> Prop :=
  | cp_basic k : In k doc_pointer_kinds -> contains_pointer (SBasic k)
  | cp_named u : contains_pointer u -> contains_pointer (SNamed u)
  | cp_struct fs f : In f fs -> contains_pointer f -> contains_pointer (SStruct fs)
  | cp_array e : contains_pointer e -> contains_pointer (SArray e)
  | cp_other : contains_pointer SOther.

  Inductive pointer_free : tshape -> Prop :=
  | pf_basic k : ~ In k doc_pointer_kinds -> pointer_free (SBasic k)
  | pf_named u : pointer_free u -> pointer_free (SNamed u)
  | pf_struct fs : (forall f, In f fs -> pointer_free f) -> pointer_free (SStruct fs)
  | pf_array e : pointer_free e -> pointer_free (SArray e).

  Definition hasptr_conservative_okb : bool := forallb (fun k => mem k basic_true) doc_pointer_kinds.
  Definition hasptr_exact_okb : bool :=
    forallb (fun k => mem k doc_pointer_kinds) basic_true
    && case_is "Basic" "kinds" && case_is "Named" "underlying" && case_is "Struct" "anyfield" && case_is "Array" "elem".

  (* never "false" for a type that actually contains a pointer *)
  Theorem has_pointers_conservative : hasptr_conservative_okb = true ->
    forall t, contains_pointer t -> has_pointers t = true.
  Proof.
    intros Hok. unfold hasptr_conservative_okb in Hok. rewrite forallb_forall in Hok.
    fix IH 2. intros t H. destruct H as [k Hk|u Hu|fs f Hin Hf|e He|].
    - cbn [has_pointers]. destruct (case_is "Basic" "kinds"); [|reflexivity]. now apply Hok.
    - cbn [has_pointers]. destruct (case_is "Named" "underlying"); [|reflexivity]. now apply IH.
    - cbn [has_pointers]. destruct (case_is "Struct" "anyfield"); [|reflexivity].
      apply existsb_exists. exists f. split; [exact Hin|now apply IH].
    - cbn [has_pointers]. destruct (case_is "Array" "elem"); [|reflexivity]. now apply IH.
    - reflexivity.
  Qed.

  (* exact on types built from pointer-free basic types by naming, arrays and structs *)
  Theorem has_pointers_exact_simple : hasptr_exact_okb = true ->
    forall t, pointer_free t -> has_pointers t = false.
  Proof.
    intros Hok. unfold hasptr_exact_okb in Hok.
    repeat (apply andb_prop in Hok; destruct Hok as [Hok ?]).
    rewrite forallb_forall in Hok.
    fix IH 2. intros t H'. destruct H' as [k Hk|u Hu|fs Hfs|e He].
    - cbn [has_pointers]. rewrite H2. destruct (mem k basic_true) eqn:Hm; [|reflexivity].
      exfalso. apply Hk. apply mem_In. apply Hok. now apply mem_In.
    - cbn [has_pointers]. rewrite H1. now apply IH.
    - cbn [has_pointers]. rewrite H0.
      destruct (existsb has_pointers fs) eqn:Hex; [|reflexivity].
      apply existsb_exists in Hex. destruct Hex as (f & Hin & Hf). rewrite (IH f (Hfs f Hin)) in Hf. discriminate.
    - cbn [has_pointers]. rewrite H. now apply IH.
  Qed.
End HasPointers.

(* ------------------------------------------------------------------ the documented wiring *)
Inductive wiring :=
| WPred (ctor : string) (operand : operand_kind) (cond : string) (lifted : bool)
     (* reaches the closure [ctor], which accepts iff [cond] holds of the operand (written X); [lifted]: the closure
        lifts the condition over `$*xs` captures *)
| WSpecial (ctor : string)   (* reaches [ctor]; its body is not a single condition (tied by the correspondence run) *)
| WCmp                       (* a comparison operand (C17) *)
| WUnsupported.              (* type-checks in the DSL but has no conversion case: load error *)

(* One line per path that dsl/dsl.go declares.  The condition is the audited Go expression of the closure. *)
Definition doc_wiring : list (string * wiring) := [
  ("Addressable", WPred "makeAddressableFilter" OpSubExpr "isAddressable(params.ctx.Types, X)" true);
  ("Comparable", WPred "makeComparableFilter" OpSubNodeTyped "types.Comparable(params.typeofNode(X))" true);
  ("Const", WPred "makeConstFilter" OpSubExpr "isConstant(params.ctx.Types, X)" true);
  ("ConstSlice", WPred "makeConstSliceFilter" OpSubExpr "isConstantSlice(params.ctx.Types, X)" true);
  ("Pure", WPred "makePureFilter" OpSubExpr "isPure(params.ctx.Types, X)" true);
  ("Contains", WSpecial "makeVarContainsFilter");
  ("Deadcode", WPred "makeDeadcodeFilter" OpNone "params.deadcode" false);
  ("File.Imports", WSpecial "makeFileImportsFilter");
  ("File.Name", WUnsupported);
  ("File.Name.Matches", WPred "makeFileNameMatchesFilter" OpNone "re.MatchString(filepath.Base(params.filename))" false);
  ("File.PkgPath", WUnsupported);
  ("File.PkgPath.Matches", WPred "makeFilePkgPathMatchesFilter" OpNone "re.MatchString(params.ctx.Pkg.Path())" false);
  ("Filter", WSpecial "makeCustomVarFilter");
  ("GoVersion.Eq", WSpecial "makeGoVersionFilter");
  ("GoVersion.GreaterEqThan", WSpecial "makeGoVersionFilter");
  ("GoVersion.GreaterThan", WSpecial "makeGoVersionFilter");
  ("GoVersion.LessEqThan", WSpecial "makeGoVersionFilter");
  ("GoVersion.LessThan", WSpecial "makeGoVersionFilter");
  ("Line", WCmp);
  ("Node.Is", WPred "makeNodeIsFilter" OpSubNode "nodeIs(X, tag)" false);
  ("Node.Parent.Is", WPred "makeRootParentNodeIsFilter" OpNone "nodeIs(params.nodePath.Parent(), tag)" false);
  ("Object.Is", WSpecial "makeObjectIsFilter");
  ("Object.IsGlobal", WSpecial "makeObjectIsGlobalFilter");
  ("Object.IsVariadicParam", WSpecial "makeObjectIsVariadicParamFilter");
  ("SinkType.Is", WSpecial "makeRootSinkTypeIsFilter");
  ("Text", WCmp);
  ("Text.Matches", WPred "makeTextMatchesFilter" OpSubNode "re.Match(params.nodeText(X))" false);
  ("Type.AssignableTo", WPred "makeTypeAssignableToFilter" OpSubExprTyped "types.AssignableTo(params.typeofNode(X), dstType)" true);
  ("Type.ConvertibleTo", WPred "makeTypeConvertibleToFilter" OpSubExprTyped "types.ConvertibleTo(params.typeofNode(X), dstType)" true);
  ("Type.HasMethod", WPred "makeTypeHasMethodFilter" OpSubNodeTyped "typeHasMethod(params.typeofNode(X), fn)" false);
  ("Type.HasPointers", WPred "makeTypeHasPointersFilter" OpSubExprTyped "typeHasPointers(params.typeofNode(X))" false);
  ("Type.IdenticalTo", WSpecial "makeTypesIdenticalFilter");
  ("Type.Implements", WPred "makeTypeImplementsFilter" OpSubExprTyped "xtypes.Implements(params.typeofNode(X), iface)" true);
  ("Type.Is", WPred "makeTypeIsFilter" OpSubNodeTyped "pat.MatchIdentical(params.typematchState, params.typeofNode(X))" true);
  ("Type.OfKind", WSpecial "makeTypeOfKindFilter");
  ("Type.Size", WCmp);
  ("Type.Underlying.AssignableTo", WUnsupported);
  ("Type.Underlying.ConvertibleTo", WUnsupported);
  ("Type.Underlying.HasMethod", WUnsupported);
  ("Type.Underlying.HasPointers", WUnsupported);
  ("Type.Underlying.IdenticalTo", WUnsupported);
  ("Type.Underlying.Implements", WUnsupported);
  ("Type.Underlying.Is", WPred "makeTypeIsFilter/underlying" OpSubNodeTyped "pat.MatchIdentical(params.typematchState, params.typeofNode(X).Underlying())" true);
  ("Type.Underlying.OfKind", WSpecial "makeTypeOfKindFilter");
  ("Value.Int", WCmp)
].

Section Wiring.
  Variable T : tables.
  Variable load_ctor : list (string * list string).
  Variable ctors : list (string * ctor_info).

  (* the op a documented path converts to *)
  Definition path_op (p : string) : option string :=
    match assoc p (t_conv_sel T) with
    | Some op => Some op
    | None => option_map cc_op (assoc p (t_conv_call T))
    end.

  (* constructor names carry a "/variant" suffix when one make*Filter returns several closures *)
  Fixpoint base_name (s : string) : string :=
    match s with
    | EmptyString => EmptyString
    | String c r => if Ascii.eqb c "/"%char then EmptyString else String c (base_name r)
    end.

  Definition wiring_entry_okb (e : string * wiring) : bool :=
    let (p, w) := e in
    match w with
    | WUnsupported => match path_op p with None => true | Some _ => false end
    | WCmp => match path_op p with Some op => mem op (map fst (t_load_cmp T)) | None => false end
    | WSpecial ctor =>
        match path_op p with
        | Some op => match assoc op load_ctor with Some l => mem ctor l | None => false end
        | None => false
        end
    | WPred ctor operand cond lifted =>
        match path_op p with
        | Some op =>
            match assoc op load_ctor, assoc ctor ctors with
            | Some l, Some ci =>
                mem (base_name ctor) l && ci_simple ci && String.eqb (ci_cond ci) cond
                && operand_kind_eqb (ci_operand ci) operand
                && Bool.eqb (ci_list ci) lifted
                && (if ci_list ci then String.eqb (ci_list_cond ci) cond else true)
            | _, _ => false
            end
        | None => false
        end
    end.

  Definition wiring_okb (dsl_paths : list (string * string)) : bool :=
    forallb wiring_entry_okb doc_wiring
    && forallb (fun p => mem (fst p) (map fst doc_wiring)) dsl_paths
    && forallb (fun e => mem (fst e) (map fst dsl_paths)) doc_wiring.
End Wiring.

(* ------------------------------------------------------------------ operand selectors, Object.Is and Node.Is tables *)
(* [pred_eval] assumes: subExpr yields the expression, the X of an ExprStmt, nothing otherwise; typeofNode gives a type to
   expressions and fields only, unaliased, and the invalid type otherwise. The regenerated bodies must be these. *)
Definition doc_subexpr_cases : list (string * string) :=
  [("ast.Expr", "return n"); ("*ast.ExprStmt", "return n.X"); ("default", "return nil")].
Definition doc_typeof_cases : list (string * string) := [("ast.Expr", "e = n"); ("*ast.Field", "e = n.Type")].
Definition doc_typeof_tail : string :=
  "if typ := params.ctx.Types.TypeOf(e); typ != nil { return types.Unalias(typ) } ;; return invalidType".

Definition pair_eqb (a b : string * string) : bool := String.eqb (fst a) (fst b) && String.eqb (snd a) (snd b).
Definition pairs_same (a b : list (string * string)) : bool :=
  Nat.eqb (List.length a) (List.length b) && nodupb (map fst a)
  && forallb (fun p => existsb (pair_eqb p) b) a.

Definition selectors_okb (se tc : list (string * string)) (tail : string) : bool :=
  pairs_same se doc_subexpr_cases && pairs_same tc doc_typeof_cases && String.eqb tail doc_typeof_tail.

(* dsl.go, TypesObject.Is: "Func", "Var", "Const", "TypeName", "Label", "PkgName", "Builtin", "Nil" name the go/types
   object types; the closure asserts the dynamic type *types.<name>, and exactly these names are accepted at load *)
Definition doc_object_kinds : list string := ["Func"; "Var"; "Const"; "TypeName"; "Label"; "PkgName"; "Builtin"; "Nil"].
Definition object_is_okb (tab : list (string * string)) (accepted : list string) : bool :=
  pairs_same tab (map (fun n => (n, "*types." ++ n)) doc_object_kinds)
  && Nat.eqb (List.length accepted) (List.length doc_object_kinds) && forallb (fun n => mem n accepted) doc_object_kinds.

(* dsl.go, MatchedNode.Is: "Expr" / "Stmt" / "Node" are interface tests, any other name is the node's go/ast type *)
Definition doc_node_is : list (string * string) :=
  [("Expr", "_, matched = n.(ast.Expr)"); ("Stmt", "_, matched = n.(ast.Stmt)"); ("Node", "matched = true");
   ("default", "matched = (tag == nodetag.FromNode(n))")].
Definition node_is_okb (tab : list (string * string)) : bool := pairs_same tab doc_node_is.
