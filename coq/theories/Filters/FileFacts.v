(* C02: where the file-level predicates get their facts from.

   m.File().Imports(p) looks p up in a set the runner builds once per file (rulesRunner.collectImports): the unquoted path of
   every import spec.  An import path is a Go string literal -- interpreted ("fmt", "\x66mt") or raw (`fmt`) -- so the set is
   about the VALUES of the literals, whatever their spelling, and about nothing else of the spec (its name, `.`, `_`, the
   declaration it stands in).  [collect_imports] is that loop over the specs' spellings with strconv.Unquote as a Section
   variable (trusted); go2coq filterpreds regenerates collectImports, the statements of rulesRunner.run that set the file-level
   parameters and every assignment to them; [file_facts_okb] demands equality with the audited copy below. *)
From Coq Require Import List Bool String.
From RG.Filters Require Import FilterIR.
Import ListNotations.
Local Open Scope string_scope.

Section Imports.
  Variable unquote : string -> option string.     (* strconv.Unquote *)

  Fixpoint collect_imports (specs : list string) : list string :=
    match specs with
    | [] => []
    | s :: r => match unquote s with Some p => p :: collect_imports r | None => collect_imports r end
    end.

  Definition file_imports (specs : list string) (p : string) : bool := mem p (collect_imports specs).

  Lemma collect_imports_In specs p : In p (collect_imports specs) <-> exists s, In s specs /\ unquote s = Some p.
  Proof.
    induction specs as [|s r IH]; cbn [collect_imports].
    - split; [intros []|intros (s & [] & _)].
    - destruct (unquote s) as [q|] eqn:E.
      + cbn [In]. rewrite IH. split.
        * intros [<-|(s' & Hin & Hs')]; [exists s; split; [now left|exact E]|exists s'; split; [now right|exact Hs']].
        * intros (s' & [<-|Hin] & Hs'); [left; congruence|right; exists s'; tauto].
      + rewrite IH. split.
        * intros (s' & Hin & Hs'). exists s'. split; [now right|exact Hs'].
        * intros (s' & [<-|Hin] & Hs'); [congruence|exists s'; tauto].
  Qed.

  (* File().Imports(p) accepts exactly when some import spec of the file is a literal whose value is p *)
  Theorem file_imports_iff specs p : file_imports specs p = true <-> exists s, In s specs /\ unquote s = Some p.
  Proof. unfold file_imports. rewrite mem_In. apply collect_imports_In. Qed.

  (* the order of the specs, repetitions and the declarations they are grouped into do not matter *)
  Theorem file_imports_app a b p : file_imports (a ++ b) p = file_imports a p || file_imports b p.
  Proof.
    apply eq_true_iff_eq. rewrite orb_true_iff, !file_imports_iff. split.
    - intros (s & Hin & Hs). apply in_app_or in Hin. destruct Hin; [left|right]; exists s; tauto.
    - intros [(s & Hin & Hs)|(s & Hin & Hs)]; exists s; split; try assumption; apply in_or_app; tauto.
  Qed.

  (* a set built from the spellings by anything but unquote is observable: if [other] reads a spec differently (strips the double
     quotes only, say, and meets a raw literal), File().Imports of the spec's real path tells the two apart *)
  Theorem other_reading_observable (other : string -> option string) s p :
    unquote s = Some p -> other s <> Some p ->
    file_imports [s] p = true /\ mem p (match other s with Some q => [q] | None => [] end) = false.
  Proof.
    intros Hu Ho. split.
    - apply file_imports_iff. exists s. split; [now left|exact Hu].
    - destruct (other s) as [q|]; [|reflexivity]. cbn. rewrite orb_false_r. apply String.eqb_neq. intros ->. now apply Ho.
  Qed.
End Imports.

(* ------------------------------------------------------------------ the regenerated obligation *)
Definition doc_file_facts : list (string * string) := [
  ("rulesRunner.collectImports", "func(f *ast.File) :: rr.filterParams.imports = make(map[string]struct{}, len(f.Imports)) ;; for _, spec := range f.Imports { s, err := strconv.Unquote(spec.Path.Value) if err != nil { continue } rr.filterParams.imports[s] = struct{}{} }");
  ("rulesRunner.run.setup", "rr.filename = rr.ctx.Fset.PositionFor(f.Pos(), false).Filename ;; rr.filterParams.filename = rr.ctx.Fset.Position(f.Pos()).Filename ;; rr.collectImports(f)");
  ("filterParams.imports/filename", "ir_loader.go: l.filename = filename ;; runner.go: rr.filename = rr.ctx.Fset.PositionFor(f.Pos(), false).Filename ;; runner.go: rr.filterParams.filename = rr.ctx.Fset.Position(f.Pos()).Filename ;; runner.go: rr.filterParams.imports = make(map[string]struct{}, len(f.Imports)) ;; runner.go: rr.filterParams.imports[s] = struct{}{}")
].

Definition file_facts_okb (gen : list (string * string)) : bool :=
  Nat.eqb (List.length gen) (List.length doc_file_facts) && nodupb (map fst gen)
  && forallb (fun p => existsb (fun q => String.eqb (fst p) (fst q) && String.eqb (snd p) (snd q)) doc_file_facts) gen.

(* the closure: a plain lookup of the rule's path in that set *)
Definition doc_imports_closure : string :=
  "{_, imported := params.imports[pkgPath] ;; if imported { return filterSuccess } ;; return filterFailure(src)}".

(* ------------------------------------------------------------------ satisfiable: a finite unquote table *)
Definition demo_unquote (s : string) : option string :=
  assoc s [("""fmt""", "fmt"); ("`fmt`", "fmt"); ("`io/fs`", "io/fs"); ("""\x66mt""", "fmt")].

Example demo_raw_import : file_imports demo_unquote ["`fmt`"; "`io/fs`"] "fmt" = true /\
  file_imports demo_unquote ["`fmt`"; "`io/fs`"] "`fmt`" = false /\ file_imports demo_unquote ["`io/fs`"] "io" = false /\
  file_imports demo_unquote ["""\x66mt"""] "fmt" = true.
Proof. vm_compute. repeat split. Qed.
