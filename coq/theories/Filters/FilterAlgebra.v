(* C17: evaluation of loaded filters and the algebra of Where() connectives and comparisons.
   [eval] is parameterised by
     - the three combinator closures (regenerated from filters.go: makeNotFilter/makeAndFilter/makeOrFilter; the
       instance file proves they meet [combinators_ok]),
     - a per-match environment [menv]: what go/types, the file set and the source text say about the captured
       variables (oracles; trusted external components) and the verdicts of the non-comparison predicates. *)
From Coq Require Import List ZArith Bool String Ascii Lia.
From RG.Base Require Import Outcome.
From RG.Filters Require Import FilterIR.
Import ListNotations.
Local Open Scope string_scope.

(* ------------------------------------------------------------------ combinators *)
Definition thunk := unit -> outcome bool.

Record combinators := {
  c_not : thunk -> outcome bool;
  c_and : thunk -> thunk -> outcome bool;
  c_or : thunk -> thunk -> outcome bool
}.

(* Go semantics of !, && and || on computations that may panic: left to right, the right operand is consulted
   only when the left one does not decide. *)
Definition spec_not (x : thunk) : outcome bool := bind (x tt) (fun b => Ok (negb b)).
Definition spec_and (l r : thunk) : outcome bool := bind (l tt) (fun b => if b then r tt else Ok false).
Definition spec_or (l r : thunk) : outcome bool := bind (l tt) (fun b => if b then Ok true else r tt).

Definition combinators_ok (C : combinators) : Prop :=
  (forall x, c_not C x = spec_not x) /\
  (forall l r, c_and C l r = spec_and l r) /\
  (forall l r, c_or C l r = spec_or l r).

Definition spec_combinators : combinators := {| c_not := spec_not; c_and := spec_and; c_or := spec_or |}.
Lemma spec_combinators_ok : combinators_ok spec_combinators.
Proof. repeat split. Qed.

(* ------------------------------------------------------------------ comparison semantics *)
(* The six Go comparison operators, defined on the result of the order comparison of the operands. *)
Definition cmp_spec (tok : string) (c : comparison) : option bool :=
  if String.eqb tok "EQL" then Some (match c with Eq => true | _ => false end)
  else if String.eqb tok "NEQ" then Some (match c with Eq => false | _ => true end)
  else if String.eqb tok "LSS" then Some (match c with Lt => true | _ => false end)
  else if String.eqb tok "LEQ" then Some (match c with Gt => false | _ => true end)
  else if String.eqb tok "GTR" then Some (match c with Gt => true | _ => false end)
  else if String.eqb tok "GEQ" then Some (match c with Lt => false | _ => true end)
  else None.

Definition z_cmp (tok : string) (a b : Z) : option bool := cmp_spec tok (Z.compare a b).
(* Go compares strings bytewise, lexicographically: String.compare on the byte sequence *)
Definition s_cmp (tok : string) (a b : string) : option bool := cmp_spec tok (String.compare a b).

(* go/constant.Compare panics on a token that is not a comparison *)
Definition of_cmp (o : option bool) : outcome bool := match o with Some b => Ok b | None => Panic PExplicit end.

(* What the filter sees of a captured variable's value.
   Known v : a single capture whose value is known; Unknown : a single capture without a value (Value.Int() of a
   non-constant, Type.Size of a type parameter); Each l : a `$*xs` capture handled element-wise. *)
Inductive obs (A : Type) := Known (v : A) | Unknown | Each (l : list (option A)).
Arguments Known {A} v. Arguments Unknown {A}. Arguments Each {A} l.

Record menv := {
  (* the value of kind k of variable x as the constant-comparison closure (const = true) or the
     variable-comparison closure (const = false) obtains it *)
  m_int : vkind -> bool -> string -> outcome (obs Z);
  m_str : bool -> string -> outcome (obs string);
  m_atom : string -> fvalue -> list fexpr -> outcome bool
}.

Definition cmp_obs {A} (cmp : A -> option bool) (o : obs A) : outcome bool :=
  match o with
  | Known v => of_cmp (cmp v)
  | Unknown => Ok false
  | Each l => (fix go (l : list (option A)) : outcome bool :=
                 match l with
                 | [] => Ok true
                 | None :: _ => Ok false
                 | Some v :: r => bind (of_cmp (cmp v)) (fun b => if b then go r else Ok false)
                 end) l
  end.

Definition single {A} (o : obs A) : option (option A) :=
  match o with Known v => Some (Some v) | Unknown => Some None | Each _ => None end.

Definition eval_cmp_const (E : menv) (k : vkind) (x tok : string) (c : cval) : outcome bool :=
  match k, c with
  | KText, CStr s => bind (m_str E true x) (cmp_obs (fun v => s_cmp tok v s))
  | KText, CInt _ => Panic PExplicit
  | _, CInt z => bind (m_int E k true x) (cmp_obs (fun v => z_cmp tok v z))
  | _, CStr _ => Panic PExplicit
  end.

(* the variable-vs-variable closures: an unknown value on either side rejects before the comparison *)
Definition eval_cmp_var (E : menv) (k : vkind) (x tok y : string) : outcome bool :=
  match k with
  | KText =>
      bind (m_str E false x) (fun a => bind (m_str E false y) (fun b =>
        match single a, single b with
        | Some (Some va), Some (Some vb) => of_cmp (s_cmp tok va vb)
        | _, _ => Ok false
        end))
  | _ =>
      bind (m_int E k false x) (fun a =>
        match k, single a with
        | KValueInt, Some None => Ok false          (* makeValueIntFilter returns before looking at the rhs *)
        | _, _ =>
          bind (m_int E k false y) (fun b =>
            match single a, single b with
            | Some (Some va), Some (Some vb) => of_cmp (z_cmp tok va vb)
            | _, _ => Ok false
            end)
        end)
  end.

Fixpoint eval (C : combinators) (E : menv) (f : lfilter) : outcome bool :=
  match f with
  | LNot x => c_not C (fun _ => eval C E x)
  | LAnd x y => c_and C (fun _ => eval C E x) (fun _ => eval C E y)
  | LOr x y => c_or C (fun _ => eval C E x) (fun _ => eval C E y)
  | LCmpConst k x tok c => eval_cmp_const E k x tok c
  | LCmpVar k x tok y => eval_cmp_var E k x tok y
  | LAtom op v args => m_atom E op v args
  end.

(* ------------------------------------------------------------------ connectives: pointwise laws *)
Section Connectives.
  Variable C : combinators.
  Hypothesis HC : combinators_ok C.
  Variable E : menv.

  Lemma eval_not f : eval C E (LNot f) = bind (eval C E f) (fun b => Ok (negb b)).
  Proof. destruct HC as (Hn & _ & _). cbn [eval]. now rewrite Hn. Qed.
  Lemma eval_and f g : eval C E (LAnd f g) = bind (eval C E f) (fun b => if b then eval C E g else Ok false).
  Proof. destruct HC as (_ & Ha & _). cbn [eval]. now rewrite Ha. Qed.
  Lemma eval_or f g : eval C E (LOr f g) = bind (eval C E f) (fun b => if b then Ok true else eval C E g).
  Proof. destruct HC as (_ & _ & Ho). cbn [eval]. now rewrite Ho. Qed.

  Theorem not_complement f b : eval C E f = Ok b -> eval C E (LNot f) = Ok (negb b).
  Proof. intros H. now rewrite eval_not, H. Qed.

  Theorem not_propagates_panic f w : eval C E f = Panic w -> eval C E (LNot f) = Panic w.
  Proof. intros H. now rewrite eval_not, H. Qed.

  Theorem and_intersection f g a b : eval C E f = Ok a -> eval C E g = Ok b -> eval C E (LAnd f g) = Ok (a && b).
  Proof. intros Hf Hg. rewrite eval_and, Hf. cbn. destruct a; [exact Hg|reflexivity]. Qed.

  Theorem or_union f g a b : eval C E f = Ok a -> eval C E g = Ok b -> eval C E (LOr f g) = Ok (a || b).
  Proof. intros Hf Hg. rewrite eval_or, Hf. cbn. destruct a; [reflexivity|exact Hg]. Qed.

  (* short circuit: whatever the right operand would do (including a panic), it is not consulted *)
  Theorem and_short_circuit f g : eval C E f = Ok false -> eval C E (LAnd f g) = Ok false.
  Proof. intros Hf. now rewrite eval_and, Hf. Qed.

  Theorem or_short_circuit f g : eval C E f = Ok true -> eval C E (LOr f g) = Ok true.
  Proof. intros Hf. now rewrite eval_or, Hf. Qed.

  (* ... and it is consulted, with its own outcome, when the left operand does not decide *)
  Theorem and_consults_right f g : eval C E f = Ok true -> eval C E (LAnd f g) = eval C E g.
  Proof. intros Hf. now rewrite eval_and, Hf. Qed.

  Theorem or_consults_right f g : eval C E f = Ok false -> eval C E (LOr f g) = eval C E g.
  Proof. intros Hf. now rewrite eval_or, Hf. Qed.

  (* left to right: a panic of the left operand surfaces whatever the right one is *)
  Theorem and_left_first f g w : eval C E f = Panic w -> eval C E (LAnd f g) = Panic w.
  Proof. intros Hf. now rewrite eval_and, Hf. Qed.
  Theorem or_left_first f g w : eval C E f = Panic w -> eval C E (LOr f g) = Panic w.
  Proof. intros Hf. now rewrite eval_or, Hf. Qed.

  (* corollaries, valid for all operands including panicking ones *)
  Theorem double_negation f : eval C E (LNot (LNot f)) = eval C E f.
  Proof. rewrite !eval_not. destruct (eval C E f) as [b|w]; cbn; [now rewrite negb_involutive|reflexivity]. Qed.

  Theorem de_morgan_and f g : eval C E (LNot (LAnd f g)) = eval C E (LOr (LNot f) (LNot g)).
  Proof.
    rewrite eval_not, eval_and, eval_or, !eval_not.
    destruct (eval C E f) as [[|]|w]; cbn; try reflexivity.
  Qed.

  Theorem de_morgan_or f g : eval C E (LNot (LOr f g)) = eval C E (LAnd (LNot f) (LNot g)).
  Proof.
    rewrite eval_not, eval_and, eval_or, !eval_not.
    destruct (eval C E f) as [[|]|w]; cbn; try reflexivity.
  Qed.

  Theorem and_assoc f g h : eval C E (LAnd (LAnd f g) h) = eval C E (LAnd f (LAnd g h)).
  Proof.
    rewrite !eval_and. destruct (eval C E f) as [[|]|w]; cbn; try reflexivity.
  Qed.

  Theorem or_assoc f g h : eval C E (LOr (LOr f g) h) = eval C E (LOr f (LOr g h)).
  Proof.
    rewrite !eval_or. destruct (eval C E f) as [[|]|w]; cbn; try reflexivity.
  Qed.
End Connectives.

(* ------------------------------------------------------------------ connectives: report sets of rules over one pattern *)
Section ReportSets.
  Variable C : combinators.
  Hypothesis HC : combinators_ok C.
  Variable M : Type.                      (* the matches of the pattern in a file *)
  Variable envof : M -> menv.

  Definition accepts (f : lfilter) (m : M) : bool :=
    match eval C (envof m) f with Ok true => true | _ => false end.
  Definition runs_ok (f : lfilter) (m : M) : Prop := exists b, eval C (envof m) f = Ok b.

  (* the matches a rule with filter f reports *)
  Definition reports (f : lfilter) (ms : list M) : list M := filter (accepts f) ms.

  Theorem reports_not f ms : Forall (runs_ok f) ms ->
    forall m, In m ms -> (In m (reports (LNot f) ms) <-> ~ In m (reports f ms)).
  Proof.
    intros Hall m Hin. unfold reports. rewrite !filter_In.
    rewrite Forall_forall in Hall. destruct (Hall m Hin) as [b Hb].
    unfold accepts. rewrite (not_complement C HC _ _ _ Hb), Hb.
    destruct b; cbn.
    - split; [intros [_ H]; discriminate|intros H; exfalso; apply H; tauto].
    - split; [intros _ [_ H]; discriminate|tauto].
  Qed.

  (* g only has to run where f accepted: the short circuit hides g everywhere else *)
  Theorem reports_and f g ms : Forall (runs_ok f) ms ->
    Forall (fun m => accepts f m = true -> runs_ok g m) ms ->
    forall m, In m (reports (LAnd f g) ms) <-> In m (reports f ms) /\ In m (reports g ms).
  Proof.
    intros Hf Hg m. unfold reports. rewrite !filter_In.
    rewrite Forall_forall in Hf, Hg.
    split.
    - intros [Hin Ha]. specialize (Hf m Hin). specialize (Hg m Hin). destruct Hf as [a Hfa].
      unfold accepts in *. rewrite (eval_and C HC) in Ha. rewrite Hfa in *. cbn in Ha.
      destruct a; [|discriminate]. specialize (Hg eq_refl). destruct Hg as [b Hgb]. rewrite Hgb in *. tauto.
    - intros [[Hin Ha] [_ Hb]]. split; [exact Hin|]. unfold accepts in *. rewrite (eval_and C HC).
      destruct (eval C (envof m) f) as [[|]|]; try discriminate. cbn. exact Hb.
  Qed.

  Theorem reports_or f g ms : Forall (runs_ok f) ms ->
    Forall (fun m => accepts f m = false -> runs_ok g m) ms ->
    forall m, In m (reports (LOr f g) ms) <-> In m (reports f ms) \/ In m (reports g ms).
  Proof.
    intros Hf Hg m. unfold reports. rewrite !filter_In.
    rewrite Forall_forall in Hf, Hg.
    split.
    - intros [Hin Ha]. specialize (Hf m Hin). specialize (Hg m Hin). destruct Hf as [a Hfa].
      unfold accepts in *. rewrite (eval_or C HC) in Ha. rewrite Hfa in *. cbn in Ha.
      destruct a; [left; tauto|]. right. split; [exact Hin|exact Ha].
    - intros [[Hin Ha]|[Hin Hb]]; (split; [exact Hin|]); unfold accepts in *; rewrite (eval_or C HC).
      + destruct (eval C (envof m) f) as [[|]|]; try discriminate. reflexivity.
      + specialize (Hf m Hin). destruct Hf as [a Hfa]. rewrite Hfa in *. cbn. destruct a; [reflexivity|exact Hb].
  Qed.

  (* reports are delivered in match order: a subsequence of the matches *)
  Theorem reports_in_order f ms : exists keep, reports f ms = filter keep ms.
  Proof. now exists (accepts f). Qed.
End ReportSets.

(* ------------------------------------------------------------------ compilation of connectives from the DSL *)
Section Compile.
  Variable T : tables.
  Hypothesis HT : tables_okb T = true.

  Lemma opt_eqb_eq a b : opt_eqb a b = true -> a = Some b.
  Proof. destruct a as [x|]; cbn; [|discriminate]. intros H. apply String.eqb_eq in H. now subst. Qed.

  Lemma tables_facts :
    assoc "NOT" (t_conv_unop T) = Some (t_not_op T) /\
    assoc "LAND" (t_conv_binop T) = Some (t_and_op T) /\
    assoc "LOR" (t_conv_binop T) = Some (t_or_op T) /\
    fl_binary (flags_of T (t_and_op T)) = true /\ fl_binary (flags_of T (t_or_op T)) = true /\
    fl_binary (flags_of T (t_not_op T)) = false /\
    String.eqb (t_and_op T) (t_or_op T) = false /\
    fl_lit (flags_of T (t_const_str T)) = true /\ fl_lit (flags_of T (t_const_int T)) = true /\
    fl_binary (flags_of T (t_const_str T)) = false /\ fl_binary (flags_of T (t_const_int T)) = false /\
    String.eqb (t_const_str T) (t_const_int T) = false /\
    String.eqb (t_const_str T) (t_not_op T) = false /\ String.eqb (t_const_int T) (t_not_op T) = false /\
    forallb (tok_okb T) cmp_tokens = true /\
    forallb (kind_okb T) all_kinds = true /\
    value_int_call_okb T = true /\
    mem (t_const_str T) (map fst (t_load_cmp T)) = false /\ mem (t_const_int T) (map fst (t_load_cmp T)) = false.
  Proof.
    pose proof HT as H. unfold tables_okb in H. rewrite !andb_true_iff, !negb_true_iff in H.
    repeat match goal with H : _ /\ _ |- _ => destruct H end.
    repeat split; try assumption; now apply opt_eqb_eq.
  Qed.

  Lemma t_unop_not : assoc "NOT" (t_conv_unop T) = Some (t_not_op T).
  Proof. apply tables_facts. Qed.
  Lemma t_binop_and : assoc "LAND" (t_conv_binop T) = Some (t_and_op T).
  Proof. apply tables_facts. Qed.
  Lemma t_binop_or : assoc "LOR" (t_conv_binop T) = Some (t_or_op T).
  Proof. apply tables_facts. Qed.
  Lemma t_and_binary : fl_binary (flags_of T (t_and_op T)) = true.
  Proof. apply tables_facts. Qed.
  Lemma t_or_binary : fl_binary (flags_of T (t_or_op T)) = true.
  Proof. apply tables_facts. Qed.
  Lemma t_not_not_binary : fl_binary (flags_of T (t_not_op T)) = false.
  Proof. apply tables_facts. Qed.
  Lemma t_and_neq_or : String.eqb (t_or_op T) (t_and_op T) = false.
  Proof. rewrite String.eqb_sym. apply tables_facts. Qed.
  Lemma t_tok_ok t : In t cmp_tokens -> tok_okb T t = true.
  Proof.
    intros Hin. assert (H : forallb (tok_okb T) cmp_tokens = true) by apply tables_facts.
    rewrite forallb_forall in H. now apply H.
  Qed.
  Lemma t_kind_ok k : kind_okb T k = true.
  Proof.
    assert (H : forallb (kind_okb T) all_kinds = true) by apply tables_facts.
    rewrite forallb_forall in H. apply H. destruct k; cbn; tauto.
  Qed.
  Lemma t_value_int_ok : value_int_call_okb T = true.
  Proof. apply tables_facts. Qed.
  Lemma assoc_not_mem {A} k (l : list (string * A)) : mem k (map fst l) = false -> assoc k l = None.
  Proof.
    induction l as [|[k' a] l IH]; cbn; [reflexivity|]. intros H. apply orb_false_iff in H. destruct H as [H1 H2].
    rewrite H1. now apply IH.
  Qed.
  Lemma t_const_not_lhs : assoc (t_const_str T) (t_load_cmp T) = None /\ assoc (t_const_int T) (t_load_cmp T) = None.
  Proof. split; apply assoc_not_mem; apply tables_facts. Qed.
  Lemma t_const_facts :
    fl_lit (flags_of T (t_const_str T)) = true /\ fl_lit (flags_of T (t_const_int T)) = true /\
    fl_binary (flags_of T (t_const_str T)) = false /\ fl_binary (flags_of T (t_const_int T)) = false /\
    String.eqb (t_const_str T) (t_const_int T) = false /\
    String.eqb (t_const_str T) (t_not_op T) = false /\ String.eqb (t_const_int T) (t_not_op T) = false.
  Proof. repeat split; apply tables_facts. Qed.

  Theorem compile_paren e : compile T (DParen e) = compile T e.
  Proof. reflexivity. Qed.

  Theorem compile_not e : compile T (DUnary "NOT" e) = option_map LNot (compile T e).
  Proof.
    unfold compile. cbn [convert]. destruct (convert T e) as [fe|]; [|reflexivity].
    rewrite t_unop_not. cbn [load]. rewrite t_not_not_binary, String.eqb_refl. reflexivity.
  Qed.

  Theorem compile_and x y :
    compile T (DBinary "LAND" x y) =
    match compile T x, compile T y with Some f, Some g => Some (LAnd f g) | _, _ => None end.
  Proof.
    unfold compile. cbn [convert]. destruct (convert T x) as [fx|], (convert T y) as [fy|]; try reflexivity.
    - rewrite t_binop_and. cbn [load]. rewrite t_and_binary, String.eqb_refl. reflexivity.
    - now destruct (load T fx).
  Qed.

  Theorem compile_or x y :
    compile T (DBinary "LOR" x y) =
    match compile T x, compile T y with Some f, Some g => Some (LOr f g) | _, _ => None end.
  Proof.
    unfold compile. cbn [convert]. destruct (convert T x) as [fx|], (convert T y) as [fy|]; try reflexivity.
    - rewrite t_binop_or. cbn [load]. rewrite t_or_binary, t_and_neq_or, String.eqb_refl. reflexivity.
    - now destruct (load T fx).
  Qed.

  (* -------- comparisons *)
  Lemma convert_operand k x : exists op, operand_op T k = Some op /\ convert T (operand k x) = Some (FE op (VStr x) []).
  Proof.
    pose proof (t_kind_ok k) as Hk. unfold kind_okb in Hk.
    destruct (operand_op T k) as [op|] eqn:Hop; [|discriminate]. exists op. split; [reflexivity|].
    destruct k; cbn [operand convert operand_op] in *; try (rewrite Hop; reflexivity).
    pose proof t_value_int_ok as Hv. unfold value_int_call_okb in Hv.
    destruct (assoc "Value.Int" (t_conv_call T)) as [cc|]; [|discriminate].
    cbn in Hop. injection Hop as <-.
    destruct (cc_root_only cc); [discriminate|]. cbn [andb negb] in *.
    destruct (cc_val cc); try discriminate. destruct (cc_args cc); try discriminate. reflexivity.
  Qed.

  Definition const_dexpr (c : cval) : dexpr := match c with CStr s => DStr s | CInt z => DInt z end.
  Definition const_matches (k : vkind) (c : cval) : Prop :=
    match k, c with KText, CStr _ => True | KText, CInt _ => False | _, CInt _ => True | _, CStr _ => False end.

  Lemma convert_const c : exists op v, convert T (const_dexpr c) = Some (FE op v []) /\
    fl_lit (flags_of T op) = true /\ fl_binary (flags_of T op) = false /\
    match v with VNone => False | _ => True end /\
    ((String.eqb op (t_const_str T) = true /\ exists s, c = CStr s /\ v = VStr s) \/
     (String.eqb op (t_const_str T) = false /\ String.eqb op (t_const_int T) = true /\ exists z, c = CInt z /\ v = VInt z)).
  Proof.
    destruct t_const_facts as (H1 & H2 & H3 & H4 & H5 & _).
    destruct c as [s|z]; cbn [const_dexpr convert].
    - exists (t_const_str T), (VStr s). repeat split; try assumption. left. rewrite String.eqb_refl. eauto.
    - exists (t_const_int T), (VInt z). repeat split; try assumption. right. rewrite String.eqb_refl.
      rewrite String.eqb_sym. eauto.
  Qed.

  Lemma tok_facts t : In t cmp_tokens -> exists op,
    assoc t (t_conv_binop T) = Some op /\ fl_binary (flags_of T op) = true /\
    String.eqb op (t_and_op T) = false /\ String.eqb op (t_or_op T) = false /\
    assoc op (t_load_tok T) = Some t /\
    mem op (t_load_swap T) = (String.eqb t "EQL" || String.eqb t "NEQ").
  Proof.
    intros Hin. pose proof (t_tok_ok t Hin) as H. unfold tok_okb in H.
    destruct (assoc t (t_conv_binop T)) as [op|]; [|discriminate]. exists op.
    repeat (apply andb_prop in H; destruct H as [H ?]).
    repeat split; try assumption; try (now apply negb_true_iff); try (now apply opt_eqb_eq).
    now apply Bool.eqb_prop.
  Qed.

  Lemma kind_facts k op : operand_op T k = Some op ->
    fl_lit (flags_of T op) = false /\ fl_binary (flags_of T op) = false /\
    String.eqb op (t_const_str T) = false /\ String.eqb op (t_const_int T) = false /\
    exists cm, assoc op (t_load_cmp T) = Some cm /\ cm_const cm = const_ctor_name k /\ cm_var cm = var_ctor_name k /\ cm_guarded cm = true.
  Proof.
    intros Hop. pose proof (t_kind_ok k) as H. unfold kind_okb in H. rewrite Hop in H.
    repeat (apply andb_prop in H; destruct H as [H ?]).
    repeat split; try (now apply negb_true_iff).
    destruct (assoc op (t_load_cmp T)) as [cm|]; [|discriminate]. exists cm.
    match goal with H : _ && _ = true |- _ => repeat (apply andb_prop in H; destruct H as [H ?]) end.
    repeat split; try assumption; now apply String.eqb_eq.
  Qed.

  Lemma kind_of_const_ctor_name k : kind_of_const_ctor (const_ctor_name k) = Some k.
  Proof. now destruct k. Qed.
  Lemma kind_of_var_ctor_name k : kind_of_var_ctor (var_ctor_name k) = Some k.
  Proof. now destruct k. Qed.

  (* variable on the left, constant on the right: every comparison token reaches the constant-comparison closure of
     the operand's kind with the same token *)
  Theorem compile_cmp_const k x t c : In t cmp_tokens -> const_matches k c ->
    compile T (DBinary t (operand k x) (const_dexpr c)) = Some (LCmpConst k x t c).
  Proof.
    intros Ht Hkc. unfold compile. cbn [convert].
    destruct (convert_operand k x) as (op & Hop & ->).
    destruct (convert_const c) as (cop & cv & -> & Hlit & Hnb & Hv & Hc).
    destruct (tok_facts t Ht) as (bop & -> & Hb & Hna & Hno & Htok & _).
    destruct (kind_facts k op Hop) as (Hol & Hob & Hos & Hoi & cm & Hcm & Hcc & _ & _).
    cbn [load]. rewrite Hb, Hna, Hno. unfold load_cmp. cbn [fe_op fe_val].
    rewrite Hol. cbn [andb fe_op fe_val]. rewrite Htok, Hcm.
    destruct Hc as [(He & s & -> & ->)|(He1 & He2 & z & -> & ->)].
    - rewrite He. rewrite Hcc, kind_of_const_ctor_name. reflexivity.
    - rewrite He1, He2. rewrite Hcc, kind_of_const_ctor_name. reflexivity.
  Qed.

  (* constant on the left: == and != are swapped into the same closure ... *)
  Theorem compile_cmp_const_left_swapped k x t c : t = "EQL" \/ t = "NEQ" -> const_matches k c ->
    compile T (DBinary t (const_dexpr c) (operand k x)) = compile T (DBinary t (operand k x) (const_dexpr c)).
  Proof.
    intros Ht Hkc.
    assert (Hin : In t cmp_tokens) by (destruct Ht as [-> | ->]; cbn; tauto).
    rewrite (compile_cmp_const k x t c Hin Hkc).
    unfold compile. cbn [convert].
    destruct (convert_operand k x) as (op & Hop & ->).
    destruct (convert_const c) as (cop & cv & -> & Hlit & Hnb & Hv & Hc).
    destruct (tok_facts t Hin) as (bop & -> & Hb & Hna & Hno & Htok & Hsw).
    destruct (kind_facts k op Hop) as (Hol & Hob & Hos & Hoi & cm & Hcm & Hcc & _ & _).
    cbn [load]. rewrite Hb, Hna, Hno. unfold load_cmp. cbn [fe_op fe_val].
    rewrite Hlit, Hol, Hsw. cbn [andb negb].
    assert (Hvt : match cv with VStr _ | VInt _ => true | VNone => false end = true) by (destruct cv; tauto).
    rewrite Hvt. cbn [andb].
    assert (Htt : (String.eqb t "EQL" || String.eqb t "NEQ") = true) by (destruct Ht as [-> | ->]; reflexivity).
    rewrite Htt. cbn [andb negb fe_op fe_val]. rewrite Htok, Hcm.
    destruct Hc as [(He & s & -> & ->)|(He1 & He2 & z & -> & ->)].
    - rewrite He. rewrite Hcc, kind_of_const_ctor_name. reflexivity.
    - rewrite He1, He2. rewrite Hcc, kind_of_const_ctor_name. reflexivity.
  Qed.

  (* ... while an ordering comparison with the constant on the left is not accepted at all (load error) *)
  Theorem compile_cmp_const_left_ordering_rejected k x t c : In t ["LSS"; "LEQ"; "GTR"; "GEQ"] ->
    compile T (DBinary t (const_dexpr c) (operand k x)) = None.
  Proof.
    intros Ht.
    assert (Hin : In t cmp_tokens) by (cbn in *; tauto).
    unfold compile. cbn [convert].
    destruct (convert_operand k x) as (op & Hop & ->).
    destruct (convert_const c) as (cop & cv & -> & Hlit & Hnb & Hv & Hc).
    destruct (tok_facts t Hin) as (bop & -> & Hb & Hna & Hno & Htok & Hsw).
    destruct (kind_facts k op Hop) as (Hol & Hob & Hos & Hoi & cm & Hcm & Hcc & Hcv & Hg).
    cbn [load]. rewrite Hb, Hna, Hno. unfold load_cmp. cbn [fe_op fe_val].
    rewrite Hsw.
    assert (Htt : (String.eqb t "EQL" || String.eqb t "NEQ") = false)
      by (cbn in Ht; destruct Ht as [<-|[<-|[<-|[<-|[]]]]]; reflexivity).
    rewrite Htt, !andb_false_r. cbn [andb negb fe_op fe_val]. rewrite Htok.
    rewrite Hos, Hoi.
    (* the lhs is the constant, and constants have no entry in the lhs switch *)
    destruct t_const_not_lhs as [Hn1 Hn2].
    destruct Hc as [(He & _)|(_ & He & _)]; apply String.eqb_eq in He; subst cop; [now rewrite Hn1|now rewrite Hn2].
  Qed.

  (* variable against variable of the same kind *)
  Theorem compile_cmp_var k x y t : In t cmp_tokens ->
    compile T (DBinary t (operand k x) (operand k y)) = Some (LCmpVar k x t y).
  Proof.
    intros Ht. unfold compile. cbn [convert].
    destruct (convert_operand k x) as (op & Hop & ->).
    destruct (convert_operand k y) as (op' & Hop' & ->).
    assert (op' = op) by congruence. subst op'.
    destruct (tok_facts t Ht) as (bop & -> & Hb & Hna & Hno & Htok & _).
    destruct (kind_facts k op Hop) as (Hol & Hob & Hos & Hoi & cm & Hcm & _ & Hcv & Hg).
    cbn [load]. rewrite Hb, Hna, Hno. unfold load_cmp. cbn [fe_op fe_val].
    rewrite Hol. cbn [andb negb fe_op fe_val]. rewrite Htok, Hcm, Hos, Hoi, Hg, String.eqb_refl. cbn [andb negb].
    rewrite Hcv, kind_of_var_ctor_name. reflexivity.
  Qed.

  (* comparing values of different kinds (e.g. Type.Size with Line) is a load error, never a silent re-interpretation *)
  Theorem compile_cmp_var_mixed_rejected k k' x y t : In t cmp_tokens -> operand_op T k <> operand_op T k' ->
    compile T (DBinary t (operand k x) (operand k' y)) = None.
  Proof.
    intros Ht Hne. unfold compile. cbn [convert].
    destruct (convert_operand k x) as (op & Hop & ->).
    destruct (convert_operand k' y) as (op' & Hop' & ->).
    destruct (tok_facts t Ht) as (bop & -> & Hb & Hna & Hno & Htok & _).
    destruct (kind_facts k op Hop) as (Hol & Hob & Hos & Hoi & cm & Hcm & _ & Hcv & Hg).
    destruct (kind_facts k' op' Hop') as (Hol' & Hob' & Hos' & Hoi' & _).
    cbn [load]. rewrite Hb, Hna, Hno. unfold load_cmp. cbn [fe_op fe_val].
    rewrite Hol. cbn [andb negb fe_op fe_val]. rewrite Htok, Hcm, Hos', Hoi', Hg.
    assert (Hneq : String.eqb op' op = false).
    { apply String.eqb_neq. intros ->. apply Hne. congruence. }
    rewrite Hneq. reflexivity.
  Qed.
End Compile.

(* ------------------------------------------------------------------ comparisons: semantics *)
Section Comparisons.
  Variable C : combinators.
  Hypothesis HC : combinators_ok C.
  Variable E : menv.

  Lemma cmp_spec_total t c : In t cmp_tokens -> exists b, cmp_spec t c = Some b.
  Proof. cbn. intros [<-|[<-|[<-|[<-|[<-|[<-|[]]]]]]]; cbn; eauto. Qed.

  (* the six operators are the order of Z: the familiar boolean comparisons *)
  Theorem z_cmp_is_order a b :
    z_cmp "EQL" a b = Some (a =? b)%Z /\ z_cmp "NEQ" a b = Some (negb (a =? b)%Z) /\
    z_cmp "LSS" a b = Some (a <? b)%Z /\ z_cmp "LEQ" a b = Some (a <=? b)%Z /\
    z_cmp "GTR" a b = Some (a >? b)%Z /\ z_cmp "GEQ" a b = Some (a >=? b)%Z.
  Proof.
    unfold z_cmp, cmp_spec. cbn. rewrite (Z.eqb_compare a b). unfold Z.ltb, Z.leb, Z.gtb, Z.geb.
    repeat split; destruct (a ?= b)%Z; reflexivity.
  Qed.

  Lemma string_compare_refl s : String.compare s s = Eq.
  Proof.
    induction s as [|c s IH]; [reflexivity|]. cbn. unfold Ascii.compare. rewrite N.compare_refl. exact IH.
  Qed.

  Lemma string_eqb_compare a b : String.eqb a b = match String.compare a b with Eq => true | _ => false end.
  Proof.
    destruct (String.compare a b) eqn:Hc.
    - apply String.compare_eq_iff in Hc. subst. apply String.eqb_refl.
    - apply String.eqb_neq. intros ->. rewrite string_compare_refl in Hc. discriminate.
    - apply String.eqb_neq. intros ->. rewrite string_compare_refl in Hc. discriminate.
  Qed.

  (* ... and of the bytewise lexicographic order on strings *)
  Theorem s_cmp_is_order a b :
    s_cmp "EQL" a b = Some (String.eqb a b) /\ s_cmp "NEQ" a b = Some (negb (String.eqb a b)) /\
    s_cmp "LSS" a b = Some (String.ltb a b) /\ s_cmp "LEQ" a b = Some (String.leb a b) /\
    s_cmp "GTR" a b = Some (String.ltb b a) /\ s_cmp "GEQ" a b = Some (String.leb b a).
  Proof.
    unfold s_cmp, cmp_spec, String.ltb, String.leb. cbn.
    rewrite (string_eqb_compare a b), (String.compare_antisym b a).
    repeat split; destruct (String.compare a b); reflexivity.
  Qed.

  (* a comparison of a known value is the Go operator applied to it *)
  Theorem cmp_is_go_operator_int k x t v c b : k <> KText ->
    m_int E k true x = Ok (Known v) -> z_cmp t v c = Some b ->
    eval C E (LCmpConst k x t (CInt c)) = Ok b.
  Proof.
    intros Hk Hv Hc. cbn [eval]. unfold eval_cmp_const.
    destruct k; try congruence; rewrite Hv; cbn; rewrite Hc; reflexivity.
  Qed.

  Theorem cmp_is_go_operator_text x t v c b :
    m_str E true x = Ok (Known v) -> s_cmp t v c = Some b ->
    eval C E (LCmpConst KText x t (CStr c)) = Ok b.
  Proof. intros Hv Hc. cbn [eval]. unfold eval_cmp_const. rewrite Hv. cbn. rewrite Hc. reflexivity. Qed.

  Theorem cmp_var_is_go_operator_int k x y t a b r : k <> KText ->
    m_int E k false x = Ok (Known a) -> m_int E k false y = Ok (Known b) -> z_cmp t a b = Some r ->
    eval C E (LCmpVar k x t y) = Ok r.
  Proof.
    intros Hk Ha Hb Hc. cbn [eval]. unfold eval_cmp_var.
    destruct k; try congruence; rewrite Ha; cbn; rewrite Hb; cbn; rewrite Hc; reflexivity.
  Qed.

  Theorem cmp_var_is_go_operator_text x y t a b r :
    m_str E false x = Ok (Known a) -> m_str E false y = Ok (Known b) -> s_cmp t a b = Some r ->
    eval C E (LCmpVar KText x t y) = Ok r.
  Proof. intros Ha Hb Hc. cbn [eval]. unfold eval_cmp_var. rewrite Ha. cbn. rewrite Hb. cbn. rewrite Hc. reflexivity. Qed.

  (* list captures: every element must satisfy the comparison (unknown elements reject) *)
  Theorem cmp_each_is_forall (cmp : Z -> option bool) l :
    (forall v, In (Some v) l -> exists b, cmp v = Some b) ->
    cmp_obs cmp (Each l) = Ok (forallb (fun o => match o with Some v => match cmp v with Some b => b | None => false end | None => false end) l).
  Proof.
    induction l as [|o l IH]; intros Hall; [reflexivity|].
    destruct o as [v|]; [|reflexivity].
    destruct (Hall v (or_introl eq_refl)) as [b Hb].
    cbn [cmp_obs forallb] in *. rewrite Hb. cbn. destruct b; [|reflexivity].
    apply IH. intros v' Hin. apply Hall. now right.
  Qed.

  (* pairs of complementary operators *)
  Definition complement_tok (t : string) : string :=
    if String.eqb t "EQL" then "NEQ" else if String.eqb t "NEQ" then "EQL"
    else if String.eqb t "LSS" then "GEQ" else if String.eqb t "GEQ" then "LSS"
    else if String.eqb t "GTR" then "LEQ" else if String.eqb t "LEQ" then "GTR" else t.

  Lemma cmp_spec_complement t c : In t cmp_tokens ->
    cmp_spec (complement_tok t) c = option_map negb (cmp_spec t c).
  Proof. cbn. intros [<-|[<-|[<-|[<-|[<-|[<-|[]]]]]]]; destruct c; reflexivity. Qed.

  (* x < c agrees with !(x >= c) whenever the value is known (and likewise for the other two pairs) *)
  Theorem lt_iff_not_ge_known_int k x t v c : k <> KText -> In t cmp_tokens ->
    m_int E k true x = Ok (Known v) ->
    eval C E (LCmpConst k x t (CInt c)) = eval C E (LNot (LCmpConst k x (complement_tok t) (CInt c))).
  Proof.
    intros Hk Ht Hv. rewrite (eval_not C HC). cbn [eval]. unfold eval_cmp_const.
    destruct k; try congruence; rewrite Hv; cbn; unfold z_cmp; rewrite (cmp_spec_complement t _ Ht);
      destruct (cmp_spec_total t (v ?= c)%Z Ht) as [b ->]; cbn; now rewrite negb_involutive.
  Qed.

  Theorem lt_iff_not_ge_known_text x t v c : In t cmp_tokens ->
    m_str E true x = Ok (Known v) ->
    eval C E (LCmpConst KText x t (CStr c)) = eval C E (LNot (LCmpConst KText x (complement_tok t) (CStr c))).
  Proof.
    intros Ht Hv. rewrite (eval_not C HC). cbn [eval]. unfold eval_cmp_const.
    rewrite Hv; cbn; unfold s_cmp; rewrite (cmp_spec_complement t _ Ht);
      destruct (cmp_spec_total t (String.compare v c) Ht) as [b ->]; cbn; now rewrite negb_involutive.
  Qed.

  (* an unknown value rejects every comparison: x < c and x >= c both reject, so !(x >= c) accepts *)
  Theorem unknown_rejects_all k x t c : k <> KText ->
    m_int E k true x = Ok Unknown -> eval C E (LCmpConst k x t (CInt c)) = Ok false.
  Proof. intros Hk Hv. cbn [eval]. unfold eval_cmp_const. destruct k; try congruence; rewrite Hv; reflexivity. Qed.

  Theorem unknown_rejects_both k x c : k <> KText ->
    m_int E k true x = Ok Unknown ->
    eval C E (LCmpConst k x "LSS" (CInt c)) = Ok false /\ eval C E (LCmpConst k x "GEQ" (CInt c)) = Ok false /\
    eval C E (LNot (LCmpConst k x "GEQ" (CInt c))) = Ok true.
  Proof.
    intros Hk Hv. rewrite (eval_not C HC). rewrite !(unknown_rejects_all k x _ c Hk Hv). repeat split.
  Qed.

End Comparisons.
