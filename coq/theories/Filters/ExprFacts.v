(* C02: the syntactic helpers behind Pure, ConstSlice, Object.Is / IsGlobal and SinkType.Is (ruleguard/utils.go:
   isPure, isPureList, isTypeExpr, isConstantSlice, identOf; ruleguard/filters.go: findSinkRoot, findSinkType) as
   executable Gallina over a go/ast-shaped expression type annotated with the go/types facts they consult.

   Tie to /repo: go2coq filterpreds regenerates the case structure of each helper (node types -> normalised body); the
   obligations [*_okb] compare it with the documented tables below, from which the Gallina functions are transcribed;
   the functions themselves are executed inside coqc on every probe expression / sink context of the C02 catalogue and
   compared with the engine's verdicts (correspondence). *)
From Coq Require Import List Bool String Arith Lia.
From RG.Filters Require Import FilterIR Predicates.
Import ListNotations.
Local Open Scope string_scope.

(* ------------------------------------------------------------------ annotated expressions *)
Record ann := {
  a_const : bool;       (* go/types records a constant value for the expression (isConstant) *)
  a_byteslice : bool;   (* the expression denotes / has the type []uint8 (info.TypeOf(expr) is a slice of Uint8) *)
  a_obj : string;       (* identifiers: the go/types object kind (Var Func Const TypeName PkgName Builtin Nil Label), "" = none *)
  a_global : bool       (* identifiers: the object's parent scope is the package scope *)
}.

Inductive gexpr :=
| GIdent (a : ann) (name : string)
| GBasicLit (a : ann) (kind : string)            (* INT FLOAT IMAG CHAR STRING *)
| GFuncLit (a : ann)
| GStar (a : ann) (x : gexpr)
| GUnary (a : ann) (op : string) (x : gexpr)     (* op: go/token name *)
| GBinary (a : ann) (x y : gexpr)
| GIndex (a : ann) (x i : gexpr)
| GSelector (a : ann) (x sel : gexpr)
| GParen (a : ann) (x : gexpr)
| GComposite (a : ann) (elts : list gexpr)
| GCall (a : ann) (f : gexpr) (args : list gexpr)
| GKeyValue (a : ann) (k v : gexpr)
| GTypeLit (a : ann) (kind : string)             (* FuncType StructType InterfaceType ArrayType MapType ChanType *)
| GOther (a : ann) (kind : string) (subs : list gexpr).   (* SliceExpr TypeAssertExpr IndexListExpr Ellipsis ... *)

Definition ann_of (e : gexpr) : ann :=
  match e with
  | GIdent a _ | GBasicLit a _ | GFuncLit a | GStar a _ | GUnary a _ _ | GBinary a _ _ | GIndex a _ _ | GSelector a _ _
  | GParen a _ | GComposite a _ | GCall a _ _ | GKeyValue a _ _ | GTypeLit a _ | GOther a _ _ => a
  end.

(* ------------------------------------------------------------------ isTypeExpr *)
Definition type_lit_kinds : list string := ["FuncType"; "StructType"; "InterfaceType"; "ArrayType"; "MapType"; "ChanType"].

Fixpoint is_type_expr (e : gexpr) : bool :=
  match e with
  | GStar _ x => is_type_expr x
  | GParen _ x => is_type_expr x
  | GSelector _ _ sel => is_type_expr sel
  | GIdent a _ => String.eqb (a_obj a) "TypeName"
  | GTypeLit _ k => mem k type_lit_kinds
  | _ => false
  end.

(* ------------------------------------------------------------------ isPure *)
Fixpoint is_pure (e : gexpr) : bool :=
  match e with
  | GStar _ x => is_pure x
  | GBinary _ x y => is_pure x && is_pure y
  | GUnary _ op x => negb (String.eqb op "ARROW") && is_pure x
  | GBasicLit _ _ | GIdent _ _ | GFuncLit _ => true
  | GIndex _ x i => is_pure x && is_pure i
  | GSelector _ x _ => is_pure x
  | GParen _ x => is_pure x
  | GComposite _ elts => forallb is_pure elts
  | GCall _ f args => is_type_expr f && forallb is_pure args
  | GKeyValue _ _ _ | GTypeLit _ _ | GOther _ _ _ => false
  end.

(* what "no significant side effect" means syntactically: evaluating the expression calls no function (a conversion is
   not a call) and receives from no channel; a function literal is a value, its body is not evaluated *)
Inductive effect_free : gexpr -> Prop :=
| ef_ident a n : effect_free (GIdent a n)
| ef_lit a k : effect_free (GBasicLit a k)
| ef_funclit a : effect_free (GFuncLit a)
| ef_star a x : effect_free x -> effect_free (GStar a x)
| ef_unary a op x : op <> "ARROW" -> effect_free x -> effect_free (GUnary a op x)
| ef_binary a x y : effect_free x -> effect_free y -> effect_free (GBinary a x y)
| ef_index a x i : effect_free x -> effect_free i -> effect_free (GIndex a x i)
| ef_selector a x s : effect_free x -> effect_free (GSelector a x s)
| ef_paren a x : effect_free x -> effect_free (GParen a x)
| ef_composite a l : (forall x, In x l -> effect_free x) -> effect_free (GComposite a l)
| ef_conversion a f l : is_type_expr f = true -> (forall x, In x l -> effect_free x) -> effect_free (GCall a f l)
| ef_keyvalue a k v : effect_free k -> effect_free v -> effect_free (GKeyValue a k v)
| ef_typelit a k : effect_free (GTypeLit a k)
| ef_other a k l : (forall x, In x l -> effect_free x) -> effect_free (GOther a k l).

(* the node kinds the whitelist of isPure speaks about *)
Inductive whitelisted : gexpr -> Prop :=
| wl_ident a n : whitelisted (GIdent a n)
| wl_lit a k : whitelisted (GBasicLit a k)
| wl_funclit a : whitelisted (GFuncLit a)
| wl_star a x : whitelisted x -> whitelisted (GStar a x)
| wl_unary a op x : whitelisted x -> whitelisted (GUnary a op x)
| wl_binary a x y : whitelisted x -> whitelisted y -> whitelisted (GBinary a x y)
| wl_index a x i : whitelisted x -> whitelisted i -> whitelisted (GIndex a x i)
| wl_selector a x s : whitelisted x -> whitelisted (GSelector a x s)
| wl_paren a x : whitelisted x -> whitelisted (GParen a x)
| wl_composite a l : (forall x, In x l -> whitelisted x) -> whitelisted (GComposite a l)
| wl_call a f l : (forall x, In x l -> whitelisted x) -> whitelisted (GCall a f l).

(* Pure never accepts an expression whose evaluation calls a function or receives from a channel ... *)
Theorem is_pure_sound : forall e, is_pure e = true -> effect_free e.
Proof.
  fix IH 1. intros e H. destruct e; cbn [is_pure] in H; try discriminate; try (now constructor).
  - constructor. now apply IH.
  - apply andb_true_iff in H. destruct H as [Hop Hx]. constructor.
    + intros ->. discriminate.
    + now apply IH.
  - apply andb_true_iff in H. destruct H. constructor; now apply IH.
  - apply andb_true_iff in H. destruct H. constructor; now apply IH.
  - constructor. now apply IH.
  - constructor. now apply IH.
  - constructor. revert H. induction elts as [|x r IHr]; intros H y Hin; [destruct Hin|].
    cbn [forallb] in H. apply andb_true_iff in H. destruct H as [Hx Hr]. destruct Hin as [<-|Hin]; [now apply IH|now apply IHr].
  - apply andb_true_iff in H. destruct H as [Hf Hl]. constructor; [exact Hf|].
    revert Hl. induction args as [|x r IHr]; intros H y Hin; [destruct Hin|].
    cbn [forallb] in H. apply andb_true_iff in H. destruct H as [Hx Hr]. destruct Hin as [<-|Hin]; [now apply IH|now apply IHr].
Qed.

(* ... and inside its whitelist it accepts every such expression: there the verdict IS the fact *)
Theorem is_pure_complete : forall e, whitelisted e -> effect_free e -> is_pure e = true.
Proof.
  fix IH 2. intros e Hw He. destruct Hw; cbn [is_pure]; try reflexivity.
  - inversion He; subst. now apply IH.
  - inversion He; subst. apply andb_true_iff. split; [|now apply IH].
    apply negb_true_iff. apply String.eqb_neq. assumption.
  - inversion He; subst. apply andb_true_iff. split; now apply IH.
  - inversion He; subst. apply andb_true_iff. split; now apply IH.
  - inversion He; subst. now apply IH.
  - inversion He; subst. now apply IH.
  - inversion He as [| | | | | | | | |a' l' Hl| | | |]; subst. apply forallb_forall. intros x Hin. apply IH; [now apply H|now apply Hl].
  - inversion He as [| | | | | | | | | |a' f' l' Hf Hl| | |]; subst. apply andb_true_iff. split; [exact Hf|].
    apply forallb_forall. intros x Hin. apply IH; [now apply H|now apply Hl].
Qed.

Corollary is_pure_iff_on_whitelist e : whitelisted e -> (is_pure e = true <-> effect_free e).
Proof. intros Hw. split; [apply is_pure_sound|now apply is_pure_complete]. Qed.

(* a call of a function (not a conversion) or a receive anywhere outside a function literal makes Pure reject *)
Corollary is_pure_rejects_call a f l : is_type_expr f = false -> is_pure (GCall a f l) = false.
Proof. intros H. cbn [is_pure]. now rewrite H. Qed.

Corollary is_pure_rejects_receive a x : is_pure (GUnary a "ARROW" x) = false.
Proof. reflexivity. Qed.

(* ------------------------------------------------------------------ isConstantSlice *)
Definition is_constant_slice (e : gexpr) : bool :=
  match e with
  | GCall _ f [GBasicLit _ k] => String.eqb k "STRING" && a_byteslice (ann_of f)
  | GComposite _ elts => forallb (fun x => a_const (ann_of x)) elts
  | _ => false
  end.

Inductive const_slice_form : gexpr -> Prop :=
| cs_bytes a f la : a_byteslice (ann_of f) = true -> const_slice_form (GCall a f [GBasicLit la "STRING"])
| cs_literal a l : (forall x, In x l -> a_const (ann_of x) = true) -> const_slice_form (GComposite a l).

Theorem is_constant_slice_iff e : is_constant_slice e = true <-> const_slice_form e.
Proof.
  split.
  - destruct e; cbn [is_constant_slice]; try discriminate.
    + intros H. constructor. now apply forallb_forall.
    + destruct args as [|x [|y r]]; cbn; try discriminate; destruct x; cbn; try discriminate.
      intros H. apply andb_true_iff in H. destruct H as [Hk Hb]. apply String.eqb_eq in Hk. subst. now constructor.
  - intros H. destruct H as [a f la Hb|a l Hl]; cbn [is_constant_slice].
    + now rewrite Hb.
    + now apply forallb_forall.
Qed.

(* ------------------------------------------------------------------ identOf and the Object predicates *)
Fixpoint ident_of (e : gexpr) : option (ann * string) :=
  match e with
  | GParen _ x => ident_of x
  | GIdent a n => Some (a, n)
  | GSelector _ _ sel => match sel with GIdent a n => Some (a, n) | _ => None end
  | _ => None
  end.

Fixpoint strip_parens (e : gexpr) : gexpr := match e with GParen _ x => strip_parens x | _ => e end.

(* the identifier an expression "is": itself, or the selected name of a selector -- never the operand of the selector *)
Theorem ident_of_spec e id :
  ident_of e = Some id <->
  (exists a n, strip_parens e = GIdent a n /\ id = (a, n)) \/
  (exists a x sa n, strip_parens e = GSelector a x (GIdent sa n) /\ id = (sa, n)).
Proof.
  induction e; cbn [ident_of strip_parens];
    try (split; [discriminate|intros [(?&?&?&?)|(?&?&?&?&?&?)]; discriminate]).
  - split.
    + intros H. injection H as <-. left. eauto.
    + intros [(a'&n'&H&->)|(?&?&?&?&H&?)]; [injection H as <- <-; reflexivity|discriminate].
  - split.
    + destruct e2; try discriminate. intros H. injection H as <-. right. eauto 6.
    + intros [(?&?&H&?)|(a'&x&sa&n&H&->)]; [discriminate|]. injection H as _ _ ->. reflexivity.
  - exact IHe.
Qed.

Definition object_is (kind : string) (e : gexpr) : bool :=
  match ident_of e with Some (a, _) => String.eqb (a_obj a) kind | None => false end.

Definition object_is_global (e : gexpr) : bool :=
  match ident_of e with Some (a, _) => negb (String.eqb (a_obj a) "") && a_global a | None => false end.

Theorem object_is_iff kind e : kind <> "" ->
  (object_is kind e = true <-> exists a n, ident_of e = Some (a, n) /\ a_obj a = kind).
Proof.
  intros _. unfold object_is. destruct (ident_of e) as [[a n]|].
  - rewrite String.eqb_eq. split; [eauto|]. intros (a'&n'&H&<-). now injection H as <- <-.
  - split; [discriminate|]. intros (?&?&H&?). discriminate.
Qed.

(* an expression that is not (a parenthesised) identifier or selector has no object: every Object predicate rejects *)
Theorem no_ident_rejects e : ident_of e = None -> (forall k, object_is k e = false) /\ object_is_global e = false.
Proof. intros H. unfold object_is, object_is_global. now rewrite H. Qed.

(* ------------------------------------------------------------------ findSinkRoot / findSinkType *)
(* Types are opaque tokens (strings: go/types' canonical type strings); "" stands for "no sink" (the invalid type). *)
Definition ty := string.
Definition no_sink : ty := "".

Inductive lit_type :=
| LSlice (elem : ty) | LArray (elem : ty) | LMap (key val : ty)
| LStruct (fields : list (string * ty))
| LOtherLit.

Inductive callee :=
| CConversion (t : ty)                                  (* T(x): the callee denotes a type *)
| CSignature (params : list ty) (variadic : bool) (last_elem : ty)
     (* a function value (of a named or unnamed func type); last_elem: element type of the last parameter when that is a slice *)
| CNotCallable.

(* the syntactic parent of the match after skipping parentheses (and, for key: value, the literal around it) *)
Inductive sink_parent :=
| PValueSpec (declared : ty)                             (* var _ T = e; "" when no type is written *)
| PReturn (pos : option nat) (results : option (list ty))
     (* pos: index of the result that is e (unparenthesised); results: result types of the innermost enclosing function *)
| PIndexOperand (map_key : option ty)                    (* x[e]: Some k when x is a map with key type k *)
| PAssign (plain : bool) (balanced : bool) (pos : option nat) (lhs : list ty)
     (* plain: the token is =; balanced: len(lhs) = len(rhs); pos: index of the rhs that is e (unparenthesised) *)
| PComposite (t : lit_type) (kv : option (bool * string)) (pos : option nat)
     (* kv: inside key: value -- (e is the key?, the key when it is an identifier, "" otherwise); pos: index of e among the elements *)
| PCall (f : callee) (pos : option nat) (ellipsis : bool)
| POtherParent.

Definition nth_ty (n : nat) (l : list ty) : ty := nth n l no_sink.

Definition find_sink (p : sink_parent) : ty :=
  match p with
  | PValueSpec t => t
  | PReturn (Some i) (Some rs) => nth_ty i rs
  | PReturn _ _ => no_sink
  | PIndexOperand (Some k) => k
  | PIndexOperand None => no_sink
  | PAssign true true (Some i) lhs => nth_ty i lhs
  | PAssign _ _ _ _ => no_sink
  | PComposite (LSlice e) _ _ => e
  | PComposite (LArray e) _ _ => e
  | PComposite (LMap k v) (Some (true, _)) _ => k
  | PComposite (LMap k v) (Some (false, _)) _ => v
  | PComposite (LStruct fs) None (Some i) => nth_ty i (map snd fs)
  | PComposite (LStruct fs) (Some (_, name)) _ => match assoc name fs with Some t => t | None => no_sink end
  | PComposite _ _ _ => no_sink
  | PCall (CConversion t) _ _ => t
  | PCall (CSignature ps variadic last_elem) (Some i) ellipsis =>
      if variadic && (Nat.leb (List.length ps - 1) i) && negb ellipsis then last_elem
      else if Nat.ltb i (List.length ps) then nth_ty i ps else no_sink
  | PCall _ _ _ => no_sink
  | POtherParent => no_sink
  end.

(* the parameter that receives argument i of a call, as the language defines it *)
Definition receiving_param (ps : list ty) (variadic : bool) (last_elem : ty) (ellipsis : bool) (i : nat) : ty :=
  if negb variadic then nth_ty i ps                          (* f(a0..an-1): parameter i *)
  else if ellipsis then nth_ty i ps                          (* f(a.., s...): the slice goes to the variadic parameter itself *)
  else if Nat.ltb i (List.length ps - 1) then nth_ty i ps    (* a fixed parameter *)
  else last_elem.                                            (* one of the variadic elements *)

Theorem sink_of_call_argument ps variadic last_elem ellipsis i :
  (* the call type-checks: enough parameters for the argument *)
  (variadic = false -> i < List.length ps) ->
  (variadic = true -> ps <> []) ->
  (variadic = true -> ellipsis = true -> i < List.length ps) ->
  find_sink (PCall (CSignature ps variadic last_elem) (Some i) ellipsis) = receiving_param ps variadic last_elem ellipsis i.
Proof.
  intros Hnv Hne Hell. cbn [find_sink]. unfold receiving_param.
  destruct variadic; cbn [andb negb].
  - destruct ellipsis; cbn [andb negb].
    + rewrite andb_false_r. specialize (Hell eq_refl eq_refl). apply Nat.ltb_lt in Hell. now rewrite Hell.
    + rewrite andb_true_r. destruct (Nat.leb (List.length ps - 1) i) eqn:E.
      * apply Nat.leb_le in E. assert (Nat.ltb i (List.length ps - 1) = false) as -> by (apply Nat.ltb_ge; lia). reflexivity.
      * apply Nat.leb_gt in E. assert (Nat.ltb i (List.length ps - 1) = true) as -> by (apply Nat.ltb_lt; lia).
        assert (Nat.ltb i (List.length ps) = true) as -> by (apply Nat.ltb_lt; lia). reflexivity.
  - specialize (Hnv eq_refl). apply Nat.ltb_lt in Hnv. now rewrite Hnv.
Qed.

Theorem sink_of_assignment lhs i : i < List.length lhs -> find_sink (PAssign true true (Some i) lhs) = nth i lhs no_sink.
Proof. reflexivity. Qed.

Theorem sink_of_return rs i : find_sink (PReturn (Some i) (Some rs)) = nth i rs no_sink.
Proof. reflexivity. Qed.

Theorem sink_of_struct_field fs name t key_side : assoc name fs = Some t ->
  find_sink (PComposite (LStruct fs) (Some (key_side, name)) None) = t.
Proof. intros H. cbn [find_sink]. now rewrite H. Qed.

Theorem sink_of_positional_field fs i : find_sink (PComposite (LStruct fs) None (Some i)) = nth i (map snd fs) no_sink.
Proof. reflexivity. Qed.

Theorem sink_of_map_literal k v name pos :
  find_sink (PComposite (LMap k v) (Some (true, name)) pos) = k /\ find_sink (PComposite (LMap k v) (Some (false, name)) pos) = v.
Proof. split; reflexivity. Qed.

(* compound assignments, :=, unbalanced assignments, operands of operators, statements: no sink *)
Theorem no_sink_cases :
  (forall b p l, find_sink (PAssign false b p l) = no_sink) /\
  (forall a p l, find_sink (PAssign a false p l) = no_sink) /\
  find_sink POtherParent = no_sink /\ find_sink (PIndexOperand None) = no_sink.
Proof. repeat split; intros; try reflexivity; destruct a; reflexivity. Qed.

(* ------------------------------------------------------------------ the results a function declares *)
(* A result list is written as FIELDS (go/ast: FuncType.Results.List): each field declares one type for k >= 0 names; a field
   without names declares one unnamed result. The operands of a return statement are numbered per RESULT, not per field:
   `func f() (first, second error, n int)` has two fields and three results. *)
Definition result_field := (nat * ty)%type.      (* (number of names written in the field, its type) *)

Definition field_results (f : result_field) : list ty := repeat (snd f) (Nat.max 1 (fst f)).
Definition declared_results (fs : list result_field) : list ty := flat_map field_results fs.

Lemma field_results_length f : List.length (field_results f) = Nat.max 1 (fst f).
Proof. apply repeat_length. Qed.

Lemma nth_repeat_in {A} (a d : A) n i : i < n -> nth i (repeat a n) d = a.
Proof. revert i. induction n as [|n IH]; intros i H; [lia|]. destruct i; cbn; [reflexivity|apply IH; lia]. Qed.

Lemma declared_results_app a b : declared_results (a ++ b)%list = (declared_results a ++ declared_results b)%list.
Proof. unfold declared_results. apply flat_map_app. Qed.

(* operand i of `return ...` sinks into the type of the field that DECLARES result i: the one reached after the results of
   the fields in front of it, wherever the grouping puts it *)
Theorem sink_of_return_declared pre k t post i :
  List.length (declared_results pre) <= i < List.length (declared_results pre) + Nat.max 1 k ->
  find_sink (PReturn (Some i) (Some (declared_results (pre ++ (k, t) :: post)%list))) = t.
Proof.
  intros [Hlo Hhi]. cbn [find_sink]. unfold nth_ty.
  rewrite declared_results_app. rewrite app_nth2 by lia.
  change (declared_results ((k, t) :: post)) with (field_results (k, t) ++ declared_results post)%list.
  rewrite app_nth1 by (rewrite field_results_length; cbn [fst]; lia).
  unfold field_results. cbn [fst snd].
  apply nth_repeat_in. lia.
Qed.

(* a function that returns more operands than it declares results does not type-check; behind the list there is no sink *)
Theorem sink_of_return_beyond fs i : List.length (declared_results fs) <= i ->
  find_sink (PReturn (Some i) (Some (declared_results fs))) = no_sink.
Proof. intros H. cbn [find_sink]. unfold nth_ty. now apply nth_overflow. Qed.

(* numbering the operands by FIELD is another function: it agrees when every field declares at most one name ... *)
Definition by_field (fs : list result_field) (i : nat) : ty := nth_ty i (map snd fs).

Theorem by_field_agrees_ungrouped fs : (forall f, In f fs -> fst f <= 1) -> map snd fs = declared_results fs.
Proof.
  induction fs as [|[k t] r IH]; intros H; [reflexivity|].
  change (declared_results ((k, t) :: r)) with (field_results (k, t) ++ declared_results r)%list.
  cbn [map snd]. rewrite IH by (intros f Hf; apply H; now right).
  assert (k <= 1) as Hk by (apply (H (k, t)); now left).
  unfold field_results. cbn [fst snd]. destruct k as [|[|k]]; [reflexivity|reflexivity|lia].
Qed.

(* ... and is refuted by any grouped field that is followed by a field of another type *)
Theorem by_field_refuted k t u post : 2 <= k -> t <> u ->
  exists i, i < List.length (declared_results ((k, t) :: (1, u) :: post))
    /\ by_field ((k, t) :: (1, u) :: post) i <> find_sink (PReturn (Some i) (Some (declared_results ((k, t) :: (1, u) :: post)))).
Proof.
  intros Hk Htu. exists 1. split.
  - change (declared_results ((k, t) :: (1, u) :: post)) with (field_results (k, t) ++ declared_results ((1, u) :: post))%list.
    rewrite app_length, field_results_length. cbn [fst]. lia.
  - pose proof (sink_of_return_declared [] k t ((1, u) :: post) 1) as H. cbn [app] in H.
    rewrite H by (unfold declared_results; cbn [flat_map List.length]; lia). unfold by_field, nth_ty. cbn. congruence.
Qed.

(* the function a return statement belongs to: the innermost function declaration or literal around it. The path lists the
   nodes around the statement from the inside out (params.nodePath above the ReturnStmt). *)
Inductive path_node :=
| NFunc (is_literal : bool) (results : list result_field)     (* *ast.FuncDecl / *ast.FuncLit with the fields of its result list *)
| NOtherNode.

Fixpoint containing_func (path : list path_node) : option (list result_field) :=
  match path with
  | [] => None
  | NFunc _ rs :: _ => Some rs
  | NOtherNode :: rest => containing_func rest
  end.

Theorem containing_func_innermost pre lit rs post :
  (forall n, In n pre -> n = NOtherNode) -> containing_func (pre ++ NFunc lit rs :: post)%list = Some rs.
Proof.
  induction pre as [|n pre IH]; intros H; [reflexivity|].
  rewrite (H n) by now left. cbn. apply IH. intros m Hm. apply H. now right.
Qed.

Theorem containing_func_none path : (forall n, In n path -> n = NOtherNode) -> containing_func path = None.
Proof.
  induction path as [|n path IH]; intros H; [reflexivity|].
  rewrite (H n) by now left. cbn. apply IH. intros m Hm. apply H. now right.
Qed.

Definition return_parent (pos : option nat) (path : list path_node) : sink_parent :=
  PReturn pos (option_map declared_results (containing_func path)).

(* the whole statement: operand i of a return statement sinks into the type declared for result i of the innermost function *)
Theorem sink_of_return_operand pre lit fpre k t fpost post i :
  (forall n, In n pre -> n = NOtherNode) ->
  List.length (declared_results fpre) <= i < List.length (declared_results fpre) + Nat.max 1 k ->
  find_sink (return_parent (Some i) (pre ++ NFunc lit (fpre ++ (k, t) :: fpost) :: post)%list) = t.
Proof.
  intros Hpre Hi. unfold return_parent. rewrite containing_func_innermost by exact Hpre. cbn [option_map].
  now apply sink_of_return_declared.
Qed.

(* ------------------------------------------------------------------ the documented case structure of the helpers *)
(* one line per case of the type switch: node types (comma separated, as written) -> body, whitespace-normalised *)
Definition doc_pure_cases : list (string * string) := [
  ("*ast.StarExpr", "return isPure(info, expr.X)");
  ("*ast.BinaryExpr", "return isPure(info, expr.X) && isPure(info, expr.Y)");
  ("*ast.UnaryExpr", "return expr.Op != token.ARROW && isPure(info, expr.X)");
  ("*ast.BasicLit, *ast.Ident, *ast.FuncLit", "return true");
  ("*ast.IndexExpr", "return isPure(info, expr.X) && isPure(info, expr.Index)");
  ("*ast.SelectorExpr", "return isPure(info, expr.X)");
  ("*ast.ParenExpr", "return isPure(info, expr.X)");
  ("*ast.CompositeLit", "return isPureList(info, expr.Elts)");
  ("*ast.CallExpr", "return isTypeExpr(info, expr.Fun) && isPureList(info, expr.Args)");
  ("default", "return false")].

Definition doc_purelist_body : string := "for _, expr := range list { if !isPure(info, expr) { return false } } ;; return true".

Definition doc_typeexpr_cases : list (string * string) := [
  ("*ast.StarExpr", "return isTypeExpr(info, x.X)");
  ("*ast.ParenExpr", "return isTypeExpr(info, x.X)");
  ("*ast.SelectorExpr", "return isTypeExpr(info, x.Sel)");
  ("*ast.Ident", "_, ok := info.ObjectOf(x).(*types.TypeName) ;; return ok");
  ("*ast.FuncType, *ast.StructType, *ast.InterfaceType, *ast.ArrayType, *ast.MapType, *ast.ChanType", "return true");
  ("default", "return false")].

Definition doc_identof_cases : list (string * string) := [
  ("*ast.ParenExpr", "return identOf(e.X)");
  ("*ast.Ident", "return e");
  ("*ast.SelectorExpr", "return e.Sel");
  ("default", "return nil")].

Definition doc_constslice_cases : list (string * string) := [
  ("*ast.CallExpr",
   "if len(expr.Args) != 1 { return false } ;; lit, ok := expr.Args[0].(*ast.BasicLit) ;; if !ok || lit.Kind != token.STRING { return false } ;; typ, ok := info.TypeOf(expr.Fun).(*types.Slice) ;; if !ok { return false } ;; basicType, ok := typ.Elem().(*types.Basic) ;; return ok && basicType.Kind() == types.Uint8");
  ("*ast.CompositeLit", "for _, elt := range expr.Elts { if !isConstant(info, elt) { return false } } ;; return true");
  ("default", "return false")].

Definition doc_sinkroot_cases : list (string * string) := [
  ("*ast.ParenExpr", "continue");
  ("*ast.KeyValueExpr", "return params.nodePath.NthParent(i + 1).(ast.Expr), n");
  ("default", "return n, nil")].

(* findSinkType: parent node type -> how the sink type is found; [find_sink] is its transcription (the go/types lookups of
   each branch are the fields of [sink_parent]) *)
Definition doc_sinktype_cases : list (string * string) := [
  ("*ast.ValueSpec", "return params.ctx.Types.TypeOf(parent.Type)");
  ("*ast.ReturnStmt", "for i, result := range parent.Results { if astutil.Unparen(result) != e { continue } sig := findContainingFunc(params) if sig == nil { break } return sig.Results().At(i).Type() }");
  ("*ast.IndexExpr", "if astutil.Unparen(parent.Index) == e { switch typ := params.ctx.Types.TypeOf(parent.X).Underlying().(type) { case *types.Map: return typ.Key() case *types.Slice, *types.Array: return nil } }");
  ("*ast.AssignStmt", "if parent.Tok != token.ASSIGN || len(parent.Lhs) != len(parent.Rhs) { break } ;; for i, rhs := range parent.Rhs { if astutil.Unparen(rhs) == e { return params.ctx.Types.TypeOf(parent.Lhs[i]) } }");
  ("*ast.CompositeLit", "litType := params.ctx.Types.TypeOf(parent).Underlying() ;; if ptr, ok := litType.(*types.Pointer); ok { litType = ptr.Elem().Underlying() } ;; switch typ := litType.(type) { case *types.Slice: return typ.Elem() case *types.Array: return typ.Elem() case *types.Map: if kv == nil { break } if astutil.Unparen(kv.Key) == e { return typ.Key() } return typ.Elem() case *types.Struct: if kv == nil { for i, elt := range parent.Elts { if astutil.Unparen(elt) == e && i < typ.NumFields() { return typ.Field(i).Type() } } break } fieldName, ok := kv.Key.(*ast.Ident) if !ok { break } for i := 0; i < typ.NumFields(); i++ { field := typ.Field(i) if field.Name() == fieldName.String() { return field.Type() } } }");
  ("*ast.CallExpr", "funType := params.ctx.Types.TypeOf(parent.Fun) ;; if tv, ok := params.ctx.Types.Types[parent.Fun]; (ok && tv.IsType()) || funType == nil { return funType } ;; switch typ := funType.Underlying().(type) { case *types.Signature: for i, arg := range parent.Args { if astutil.Unparen(arg) != e { continue } isVariadicArg := (i >= typ.Params().Len()-1) && typ.Variadic() if isVariadicArg && !parent.Ellipsis.IsValid() { return typ.Params().At(typ.Params().Len() - 1).Type().(*types.Slice).Elem() } if i < typ.Params().Len() { return typ.Params().At(i).Type() } break } }");
  ("default", "")
].

Definition doc_containing_func_body : string :=
  "for i := 2; i < params.nodePath.Len(); i++ { switch n := params.nodePath.NthParent(i).(type) { case *ast.FuncDecl: fn, ok := params.ctx.Types.TypeOf(n.Name).(*types.Signature) if ok { return fn } case *ast.FuncLit: fn, ok := params.ctx.Types.TypeOf(n.Type).(*types.Signature) if ok { return fn } } } ;; return nil".

Definition doc_sinktype_closure : string :=
  "return func(params *filterParams) matchFilterResult { e, ok := params.match.Node().(ast.Expr) if ok { parent, kv := findSinkRoot(params) typ := findSinkType(params, parent, kv, e) if pat.MatchIdentical(params.typematchState, typ) { return filterSuccess } } return filterFailure(src) }".

Definition helpers_okb (pure typeexpr identof constslice sinkroot sinktype : list (string * string))
           (purelist containing closure : string) : bool :=
  pairs_same pure doc_pure_cases && pairs_same typeexpr doc_typeexpr_cases && pairs_same identof doc_identof_cases
  && pairs_same constslice doc_constslice_cases && pairs_same sinkroot doc_sinkroot_cases && pairs_same sinktype doc_sinktype_cases
  && String.eqb purelist doc_purelist_body && String.eqb containing doc_containing_func_body && String.eqb closure doc_sinktype_closure.
